(** ParseSound.v — C03, soundness of the list-level parser specification (ParseSpec.v) with
    respect to the lenient grammar (Grammar.v): whatever [text_l] accepts derives in
    [LEN_text], and the tree is the one the derived value denotes. *)
From CJ Require Import Base Dbl Tree ParseDefs ParseSpec Grammar ParseSoundUtf8.
Local Open Scope Z_scope.

(** * small list facts *)

Lemma starts_app lit : forall l r, starts lit l = Some r -> l = lit ++ r.
Proof.
  induction lit as [|x lit IH]; intros l r H; cbn [starts] in H.
  - inversion H. reflexivity.
  - destruct l as [|c l']; [discriminate|].
    destruct (Z.eqb_spec c x) as [->|Hne]; [|discriminate].
    apply IH in H. subst. reflexivity.
Qed.

Lemma drop_ws_split l : exists w, l = w ++ drop_ws l /\ ws len_ws w.
Proof.
  induction l as [|c r IH].
  - exists []. split; reflexivity.
  - cbn [drop_ws]. destruct (c <=? 32) eqn:E.
    + destruct IH as (w & Hw & Hws). exists (c :: w). split.
      * cbn [app]. f_equal. exact Hw.
      * unfold ws in *. cbn [forallb]. unfold len_ws at 1. rewrite E. exact Hws.
    + exists []. split; reflexivity.
Qed.

Lemma ws_app (p : Z -> bool) a b : ws p a -> ws p b -> ws p (a ++ b).
Proof. unfold ws. intros Ha Hb. rewrite forallb_app, Ha, Hb. reflexivity. Qed.

Lemma ws_nil (p : Z -> bool) : ws p [].
Proof. reflexivity. Qed.

Lemma cstr_app_zero o : cstr (o ++ [0]) = cstr o.
Proof.
  induction o as [|c o IH]; [reflexivity|].
  cbn [app cstr]. destruct (c =? 0); [reflexivity|]. f_equal. exact IH.
Qed.

Lemma forallb_firstn {A} (p : A -> bool) n : forall l, forallb p l = true -> forallb p (firstn n l) = true.
Proof.
  induction n as [|n IH]; intros [|x l] H; try reflexivity.
  cbn [firstn forallb] in *. apply andb_true_iff in H as [H1 H2]. rewrite H1, (IH _ H2). reflexivity.
Qed.

(** * strings *)

Lemma hex4_l_spec l u r : hex4_l l = Some (u, r) ->
  exists a b c d, l = a :: b :: c :: d :: r /\ hex4v a b c d = Some u.
Proof.
  unfold hex4_l. destruct l as [|a [|b [|c [|d r0]]]]; try discriminate.
  rewrite !hex_val_hexv.
  destruct (hexv a) as [x|] eqn:Ea; [|discriminate]. destruct (hexv b) as [y|] eqn:Eb; [|discriminate].
  destruct (hexv c) as [z|] eqn:Ec; [|discriminate]. destruct (hexv d) as [w|] eqn:Ed; [|discriminate].
  intro H. inversion H; subst. exists a, b, c, d. split; [reflexivity|].
  unfold hex4v. rewrite Ea, Eb, Ec, Ed. f_equal. lia.
Qed.

Lemma str_l_sound : forall f l o rest, str_l f l = Some (o, rest) ->
  exists body, l = body ++ 34 :: rest /\ chars len_raw body o.
Proof.
  induction f as [|f IH]; intros l o rest H; [discriminate|].
  cbn [str_l] in H.
  destruct l as [|c r]; [discriminate|].
  destruct (Z.eqb_spec c 34) as [->|Hq].
  { inversion H; subst. exists []. split; [reflexivity|constructor]. }
  destruct (Z.eqb_spec c 92) as [->|Hb].
  2:{ destruct (str_l f r) as [[o' rest']|] eqn:E; [|discriminate]. inversion H; subst.
      apply IH in E as (body & -> & Hc). exists (c :: body). split; [reflexivity|].
      constructor; auto. }
  destruct r as [|e r']; [discriminate|].
  assert (Hs : forall b, simple_escape e = Some b ->
             match str_l f r' with Some (o, rest) => Some (b :: o, rest) | None => None end = Some (o, rest) ->
             exists body, 92 :: e :: r' = body ++ 34 :: rest /\ chars len_raw body o).
  { intros b Hb H'. destruct (str_l f r') as [[o' rest']|] eqn:E; [|discriminate]. inversion H'; subst.
    apply IH in E as (body & -> & Hc). exists (92 :: e :: body). split; [reflexivity|].
    apply ch_esc; assumption. }
  destruct (Z.eqb_spec e 98) as [->|N1]; [apply (Hs 8); [reflexivity|exact H]|].
  destruct (Z.eqb_spec e 102) as [->|N2]; [apply (Hs 12); [reflexivity|exact H]|].
  destruct (Z.eqb_spec e 110) as [->|N3]; [apply (Hs 10); [reflexivity|exact H]|].
  destruct (Z.eqb_spec e 114) as [->|N4]; [apply (Hs 13); [reflexivity|exact H]|].
  destruct (Z.eqb_spec e 116) as [->|N5]; [apply (Hs 9); [reflexivity|exact H]|].
  destruct (Z.eqb_spec e 34) as [->|N6]; [apply (Hs 34); [reflexivity|exact H]|].
  destruct (Z.eqb_spec e 92) as [->|N7]; [apply (Hs 92); [reflexivity|exact H]|].
  destruct (Z.eqb_spec e 47) as [->|N8]; [apply (Hs 47); [reflexivity|exact H]|].
  cbn [orb] in H. clear Hs.
  destruct (Z.eqb_spec e 117) as [->|N9]; [|discriminate].
  destruct (hex4_l r') as [[u r2]|] eqn:Eh; [|discriminate].
  apply hex4_l_spec in Eh as (h1 & h2 & h3 & h4 & -> & Hu).
  pose proof (hex4v_range _ _ _ _ _ Hu) as Hur.
  destruct ((56320 <=? u) && (u <=? 57343)) eqn:Elow; [discriminate|].
  destruct ((55296 <=? u) && (u <=? 56319)) eqn:Ehigh.
  - destruct r2 as [|b1 [|b2 r3]]; try discriminate.
    destruct (Z.eqb_spec b1 92) as [->|E1]; [|discriminate].
    destruct (Z.eqb_spec b2 117) as [->|E2]; [|discriminate].
    cbn [andb negb] in H.
    destruct (hex4_l r3) as [[u2 r4]|] eqn:Eh2; [|discriminate].
    apply hex4_l_spec in Eh2 as (l1 & l2 & l3 & l4 & -> & Hu2).
    destruct ((u2 <? 56320) || (u2 >? 57343)) eqn:E2nd; [discriminate|].
    assert (Hlo : is_low_surrogate u2 = true).
    { unfold is_low_surrogate. apply orb_false_iff in E2nd as [A B].
      apply Z.ltb_ge in A. rewrite Z.gtb_ltb in B. apply Z.ltb_ge in B.
      apply andb_true_iff. split; apply Z.leb_le; lia. }
    rewrite (pair_formula u u2 Ehigh Hlo) in H.
    rewrite utf8_encode_agrees in H by (pose proof (pair_codepoint_range u u2 Ehigh Hlo); lia).
    destruct (str_l f r4) as [[o' rest']|] eqn:E; [|discriminate]. inversion H; subst.
    apply IH in E as (body & -> & Hc).
    exists (92 :: 117 :: h1 :: h2 :: h3 :: h4 :: 92 :: 117 :: l1 :: l2 :: l3 :: l4 :: body).
    split; [reflexivity|]. eapply ch_pair; eassumption.
  - rewrite utf8_encode_agrees in H by lia.
    destruct (str_l f r2) as [[o' rest']|] eqn:E; [|discriminate]. inversion H; subst.
    apply IH in E as (body & -> & Hc).
    exists (92 :: 117 :: h1 :: h2 :: h3 :: h4 :: body).
    split; [reflexivity|]. apply ch_u; assumption.
Qed.

Lemma string_l_sound l s rest : string_l l = Some (s, rest) ->
  exists body o, l = body ++ 34 :: rest /\ chars len_raw body o /\ s = cstr o.
Proof.
  unfold string_l. destruct (str_l (S (length l)) l) as [[o r]|] eqn:E; [|discriminate].
  intro H. inversion H; subst. apply str_l_sound in E as (body & Hl & Hc).
  exists body, o. rewrite cstr_app_zero. auto.
Qed.

(** * numbers *)

Lemma number_run_prefix n : forall l, exists r, l = number_run n l ++ r.
Proof.
  induction n as [|n IH]; intros l; cbn [number_run].
  - exists l. reflexivity.
  - destruct l as [|c r]; [exists []; reflexivity|].
    destruct (number_byte c); [|exists (c :: r); reflexivity].
    destruct (IH r) as (r' & Hr). exists r'. cbn [app]. f_equal. exact Hr.
Qed.

Lemma number_run_bytes n : forall l, forallb number_byte_g (number_run n l) = true.
Proof.
  induction n as [|n IH]; intros l; cbn [number_run]; [reflexivity|].
  destruct l as [|c r]; [reflexivity|].
  destruct (number_byte c) eqn:E; [|reflexivity].
  cbn [forallb]. rewrite IH. change (number_byte_g c) with (number_byte c). rewrite E. reflexivity.
Qed.

Lemma number_run_length n : forall l, (length (number_run n l) <= n)%nat.
Proof.
  induction n as [|n IH]; intros l; cbn [number_run]; [cbn; lia|].
  destruct l as [|c r]; [cbn; lia|].
  destruct (number_byte c); [|cbn; lia]. cbn [length]. specialize (IH r). lia.
Qed.

Section Sound.
  Variable strtod : bytes -> option (dbl * nat).
  Hypothesis Hok : strtod_ok strtod.
  Hypothesis Hstable : strtod_stable strtod.

  Lemma number_l_sound c r t rest :
    ((c =? 45) || ((48 <=? c) && (c <=? 57))) = true ->
    number_l strtod (c :: r) = Some (t, rest) ->
    exists tok, c :: r = tok ++ rest /\ t = tree_of strtod (JNum tok) /\ len_num_tok strtod tok.
  Proof.
    intros Hc H. unfold number_l in H.
    set (run := number_run (Z.to_nat (c_NUMBER_C_STRING_SIZE - 1)) (c :: r)) in *.
    destruct (strtod run) as [[d k]|] eqn:E; [|discriminate].
    inversion H; subst t rest. clear H.
    pose proof (Hok _ _ _ E) as [Hk0 Hk].
    pose proof (Hstable _ _ _ E) as Est.
    destruct (number_run_prefix (Z.to_nat (c_NUMBER_C_STRING_SIZE - 1)) (c :: r)) as (x & Hx).
    fold run in Hx.
    assert (Hlen : length (firstn k run) = k) by (apply firstn_length_le; exact Hk).
    exists (firstn k run). split; [|split].
    - rewrite Hx at 1 2. rewrite skipn_app.
      replace (k - length run)%nat with 0%nat by lia. cbn [skipn].
      rewrite app_assoc, firstn_skipn. reflexivity.
    - cbn [tree_of]. rewrite Est. reflexivity.
    - unfold len_num_tok. repeat split.
      + assert (Hrun : exists run', run = c :: run').
        { unfold run. destruct (Z.to_nat (c_NUMBER_C_STRING_SIZE - 1)) as [|n] eqn:En; [discriminate En|].
          cbn [number_run].
          assert (Hnb : number_byte c = true).
          { unfold number_byte. apply orb_true_iff in Hc as [Hc|Hc].
            - rewrite Hc. rewrite !orb_true_r. reflexivity.
            - rewrite Hc. reflexivity. }
          rewrite Hnb. eexists. reflexivity. }
        destruct Hrun as (run' & Hrun). rewrite Hrun.
        destruct k as [|k']; [lia|]. cbn [firstn]. exists c, (firstn k' run'). split; [reflexivity|].
        exact Hc.
      + apply forallb_firstn. apply number_run_bytes.
      + rewrite Hlen. pose proof (number_run_length (Z.to_nat (c_NUMBER_C_STRING_SIZE - 1)) (c :: r)) as Hl.
        fold run in Hl. change (Z.to_nat (c_NUMBER_C_STRING_SIZE - 1)) with 63%nat in Hl. lia.
      + exists d. rewrite Hlen. exact Est.
  Qed.

  (** * trees of containers *)

  Lemma tree_of_arr vs :
    tree_of strtod (JArr vs) = Node c_cJSON_Array None 0 dzero None (map (tree_of strtod) vs).
  Proof.
    reflexivity.
  Qed.

  Definition member_tree (kv : bytes * jv) : node := set_key (cstr (fst kv)) (tree_of strtod (snd kv)).

  Lemma tree_of_obj m :
    tree_of strtod (JObj m) = Node c_cJSON_Object None 0 dzero None (map member_tree m).
  Proof.
    cbn [tree_of]. f_equal. induction m as [|[k v] m IH]; [reflexivity|].
    cbn [map]. rewrite <- IH. reflexivity.
  Qed.

  Lemma with_key_set_key k n : with_key k n = set_key k n.
  Proof. destruct n. reflexivity. Qed.

  (** * containers *)

  Notation LV := (LEN_value strtod).
  Notation LE := (elements len_ws len_raw (len_num_tok strtod)).
  Notation LM := (members len_ws len_raw (len_num_tok strtod)).

  (* [vl] is sound for values nested at most [d] deep *)
  Definition sound_at (vl : bytes -> option (node * bytes)) (d : nat) : Prop :=
    forall l t rest, vl l = Some (t, rest) ->
      exists tx v, l = tx ++ rest /\ t = tree_of strtod v /\ LV d tx v.

  Lemma elems_l_sound vl d : sound_at vl d ->
    forall k l0 acc items rest, elems_l vl k l0 acc = Some (items, rest) ->
      exists b vs, l0 = b ++ 93 :: rest /\ LE d b vs /\ items = rev acc ++ map (tree_of strtod) vs.
  Proof.
    intros Hvl. induction k as [|k IH]; intros l0 acc items rest H; [discriminate|].
    cbn [elems_l] in H.
    destruct (drop_ws_split l0) as (w1 & Hl0 & Hw1).
    destruct (vl (drop_ws l0)) as [[v r2]|] eqn:Ev; [|discriminate].
    apply Hvl in Ev as (tx & jv0 & Htx & -> & Hval).
    destruct (drop_ws_split r2) as (w2 & Hr2 & Hw2).
    destruct (drop_ws r2) as [|c2 r3] eqn:Ed; [discriminate|].
    destruct (Z.eqb_spec c2 44) as [->|Hc].
    - apply IH in H as (b & vs & -> & Hb & ->).
      exists (w1 ++ tx ++ w2 ++ 44 :: b), (jv0 :: vs). split; [|split].
      + rewrite Hl0, Htx, Hr2. rewrite <- !app_assoc. reflexivity.
      + apply e_cons; assumption.
      + cbn [rev map]. rewrite <- app_assoc. reflexivity.
    - destruct (Z.eqb_spec c2 93) as [->|Hc']; [|discriminate].
      inversion H; subst items rest. clear H.
      exists (w1 ++ tx ++ w2), [jv0]. split; [|split].
      + rewrite Hl0, Htx, Hr2. rewrite <- !app_assoc. reflexivity.
      + apply e_one; assumption.
      + reflexivity.
  Qed.

  Lemma elements_ws_prefix d w : ws len_ws w -> forall b vs, LE d b vs -> LE d (w ++ b) vs.
  Proof.
    intros Hw b vs H. inversion H; subst.
    - rewrite app_assoc. apply e_one; auto using ws_app.
    - rewrite app_assoc. apply e_cons; auto using ws_app.
  Qed.

  Lemma members_ws_prefix d w : ws len_ws w -> forall b m, LM d b m -> LM d (w ++ b) m.
  Proof.
    intros Hw b m H. inversion H; subst.
    - rewrite app_assoc. apply m_one; auto using ws_app.
    - rewrite app_assoc. apply m_cons; auto using ws_app.
  Qed.

  Lemma array_l_sound vl d : sound_at vl d ->
    forall r t rest, array_l vl r = Some (t, rest) ->
      exists tx v, 91 :: r = tx ++ rest /\ t = tree_of strtod v /\ LV (S d) tx v.
  Proof.
    intros Hvl r t rest H. unfold array_l in H.
    destruct (drop_ws_split r) as (w & Hr & Hw).
    destruct (drop_ws r) as [|c1 r1] eqn:Ed; [discriminate|].
    destruct (Z.eqb_spec c1 93) as [->|Hc].
    - inversion H; subst t rest. clear H.
      exists (91 :: w ++ [93]), (JArr []). split; [|split].
      + rewrite Hr. cbn [app]. rewrite <- app_assoc. reflexivity.
      + reflexivity.
      + apply v_arr0. exact Hw.
    - destruct (elems_l vl (S (length r)) (c1 :: r1) []) as [[items rest']|] eqn:Ee; [|discriminate].
      inversion H; subst t rest'. clear H.
      apply (elems_l_sound vl d Hvl) in Ee as (b & vs & Hb & He & ->).
      exists (91 :: (w ++ b) ++ [93]), (JArr vs). split; [|split].
      + rewrite Hr, Hb. cbn [app]. rewrite <- !app_assoc. reflexivity.
      + rewrite tree_of_arr. reflexivity.
      + apply v_arr. apply elements_ws_prefix; assumption.
  Qed.

  Lemma members_l_sound vl d : sound_at vl d ->
    forall k l0 acc items rest, members_l vl k l0 acc = Some (items, rest) ->
      exists b m, l0 = b ++ 125 :: rest /\ LM d b m /\ items = rev acc ++ map member_tree m.
  Proof.
    intros Hvl. induction k as [|k IH]; intros l0 acc items rest H; [discriminate|].
    cbn [members_l] in H.
    destruct (drop_ws_split l0) as (w1 & Hl0 & Hw1).
    destruct (drop_ws l0) as [|q rq] eqn:Ed0; [discriminate|].
    destruct (Z.eqb_spec q 34) as [->|Hq]; [|discriminate]. cbn [negb] in H.
    destruct (string_l rq) as [[key r2]|] eqn:Es; [|discriminate].
    apply string_l_sound in Es as (kb & ko & Hrq & Hkc & ->).
    destruct (drop_ws_split r2) as (w2 & Hr2 & Hw2).
    destruct (drop_ws r2) as [|col r3] eqn:Ed2; [discriminate|].
    destruct (Z.eqb_spec col 58) as [->|Hcol]; [|discriminate]. cbn [negb] in H.
    destruct (drop_ws_split r3) as (w3 & Hr3 & Hw3).
    destruct (vl (drop_ws r3)) as [[v0 r4]|] eqn:Ev; [|discriminate].
    apply Hvl in Ev as (tx & jv0 & Htx & -> & Hval).
    destruct (drop_ws_split r4) as (w4 & Hr4 & Hw4).
    destruct (drop_ws r4) as [|c2 r5] eqn:Ed4; [discriminate|].
    cbv zeta in H.
    destruct (Z.eqb_spec c2 44) as [->|Hc].
    - apply IH in H as (b & m & -> & Hb & ->).
      exists (w1 ++ 34 :: kb ++ 34 :: w2 ++ 58 :: w3 ++ tx ++ w4 ++ 44 :: b), ((ko, jv0) :: m).
      split; [|split].
      + rewrite Hl0, Hrq, Hr2, Hr3, Htx, Hr4.
        repeat (rewrite <- ?app_assoc; cbn [app]). reflexivity.
      + apply m_cons; assumption.
      + cbn [rev map]. rewrite <- app_assoc. cbn [app]. unfold member_tree at 2. cbn [fst snd].
        rewrite with_key_set_key. reflexivity.
    - destruct (Z.eqb_spec c2 125) as [->|Hc']; [|discriminate].
      inversion H; subst items rest. clear H.
      exists (w1 ++ 34 :: kb ++ 34 :: w2 ++ 58 :: w3 ++ tx ++ w4), [(ko, jv0)].
      split; [|split].
      + rewrite Hl0, Hrq, Hr2, Hr3, Htx, Hr4.
        repeat (rewrite <- ?app_assoc; cbn [app]). reflexivity.
      + apply m_one; assumption.
      + cbn [rev map]. unfold member_tree. cbn [fst snd]. rewrite with_key_set_key. reflexivity.
  Qed.

  Lemma object_l_sound vl d : sound_at vl d ->
    forall r t rest, object_l vl r = Some (t, rest) ->
      exists tx v, 123 :: r = tx ++ rest /\ t = tree_of strtod v /\ LV (S d) tx v.
  Proof.
    intros Hvl r t rest H. unfold object_l in H.
    destruct (drop_ws_split r) as (w & Hr & Hw).
    destruct (drop_ws r) as [|c1 r1] eqn:Ed; [discriminate|].
    destruct (Z.eqb_spec c1 125) as [->|Hc].
    - inversion H; subst t rest. clear H.
      exists (123 :: w ++ [125]), (JObj []). split; [|split].
      + rewrite Hr. cbn [app]. rewrite <- app_assoc. reflexivity.
      + reflexivity.
      + apply v_obj0. exact Hw.
    - destruct (members_l vl (S (length r)) (c1 :: r1) []) as [[items rest']|] eqn:Ee; [|discriminate].
      inversion H; subst t rest'. clear H.
      apply (members_l_sound vl d Hvl) in Ee as (b & m & Hb & He & ->).
      exists (123 :: (w ++ b) ++ [125]), (JObj m). split; [|split].
      + rewrite Hr, Hb. cbn [app]. rewrite <- !app_assoc. reflexivity.
      + rewrite tree_of_obj. reflexivity.
      + apply v_obj. apply members_ws_prefix; assumption.
  Qed.

  (** * values: at nesting depth [depth] the accepted text nests at most LIMIT - depth deeper *)

  Definition room (depth : Z) : nat := Z.to_nat (c_CJSON_NESTING_LIMIT - depth).

  Lemma room_succ depth : (c_CJSON_NESTING_LIMIT <=? depth) = false -> room depth = S (room (depth + 1)).
  Proof.
    intro H. apply Z.leb_gt in H. unfold room.
    rewrite <- Z2Nat.inj_succ by lia. f_equal. lia.
  Qed.

  Theorem value_l_sound : forall f depth, sound_at (value_l strtod f depth) (room depth).
  Proof.
    induction f as [|f IH]; intros depth l t rest H; [discriminate|].
    cbn [value_l] in H.
    destruct (starts [110; 117; 108; 108] l) as [r0|] eqn:E1.
    { inversion H; subst t r0. apply starts_app in E1.
      exists [110; 117; 108; 108], JNull. split; [exact E1|]. split; [reflexivity|apply v_null]. }
    destruct (starts [102; 97; 108; 115; 101] l) as [r0|] eqn:E2.
    { inversion H; subst t r0. apply starts_app in E2.
      exists [102; 97; 108; 115; 101], (JBool false). split; [exact E2|]. split; [reflexivity|apply v_false]. }
    destruct (starts [116; 114; 117; 101] l) as [r0|] eqn:E3.
    { inversion H; subst t r0. apply starts_app in E3.
      exists [116; 114; 117; 101], (JBool true). split; [exact E3|]. split; [reflexivity|apply v_true]. }
    destruct l as [|c r]; [discriminate|].
    destruct (Z.eqb_spec c 34) as [->|Hq].
    { destruct (string_l r) as [[s rest']|] eqn:Es; [|discriminate].
      inversion H; subst t rest'. clear H.
      apply string_l_sound in Es as (body & o & -> & Hc & ->).
      exists (34 :: body ++ [34]), (JStr o). split; [|split].
      - cbn [app]. rewrite <- app_assoc. reflexivity.
      - reflexivity.
      - apply v_str. exact Hc. }
    destruct ((c =? 45) || ((48 <=? c) && (c <=? 57))) eqn:En.
    { apply number_l_sound in H as (tok & Hl & Ht & Htok); [|exact En].
      exists tok, (JNum tok). split; [exact Hl|]. split; [exact Ht|]. apply v_num. exact Htok. }
    destruct (Z.eqb_spec c 91) as [->|Ha].
    { destruct (c_CJSON_NESTING_LIMIT <=? depth) eqn:Ed; [discriminate|].
      rewrite (room_succ _ Ed). eapply array_l_sound; [|exact H]. apply IH. }
    destruct (Z.eqb_spec c 123) as [->|Hb]; [|discriminate].
    destruct (c_CJSON_NESTING_LIMIT <=? depth) eqn:Ed; [discriminate|].
    rewrite (room_succ _ Ed). eapply object_l_sound; [|exact H]. apply IH.
  Qed.
End Sound.

(** * whole texts *)

(* whitespace the library skips before a required terminator: <= 0x20 but not the zero byte *)
Definition ws_nz (c : Z) : bool := negb (c =? 0) && (c <=? 32).

Lemma drop_ws_nz_split l : exists w, l = w ++ drop_ws_nz l /\ forallb ws_nz w = true.
Proof.
  induction l as [|c r IH].
  - exists []. split; reflexivity.
  - cbn [drop_ws_nz]. destruct (negb (c =? 0) && (c <=? 32)) eqn:E.
    + destruct IH as (w & Hw & Hws). exists (c :: w). split.
      * cbn [app]. f_equal. exact Hw.
      * cbn [forallb]. unfold ws_nz at 1. rewrite E. exact Hws.
    + exists []. split; reflexivity.
Qed.

Lemma ws_nz_len_ws w : forallb ws_nz w = true -> ws len_ws w.
Proof.
  unfold ws. induction w as [|c w IH]; [reflexivity|]. cbn [forallb]. intro H.
  apply andb_true_iff in H as [H1 H2]. unfold ws_nz in H1. apply andb_true_iff in H1 as [_ H1].
  unfold len_ws at 1. rewrite H1. apply IH. exact H2.
Qed.

(** Tight form: the input splits into optional BOM, lenient whitespace, ONE value text deriving in
    the lenient grammar within the nesting limit, and what the parser leaves; the tree is the
    tree of the derived value.  When termination is required, nonzero whitespace and a zero byte
    follow the value and the reported rest starts at that zero byte. *)
Theorem sound_text_tight : forall strtod l rnt t rest,
  strtod_ok strtod -> strtod_stable strtod ->
  text_l strtod l rnt = Some (t, rest) ->
  exists bom w1 tx w2 v,
    l = bom ++ w1 ++ tx ++ w2 ++ rest /\
    (bom = [] \/ bom = [239; 187; 191]) /\ ws len_ws w1 /\
    LEN_value strtod nesting_limit tx v /\ t = tree_of strtod v /\
    forallb ws_nz w2 = true /\
    (if rnt then exists r, rest = 0 :: r else w2 = []).
Proof.
  intros strtod l rnt t rest Hok Hst H. unfold text_l in H. cbv zeta in H.
  remember (match starts [239; 187; 191] l with Some r => r | None => l end) as l1 eqn:El1.
  assert (Hbom : exists bom, l = bom ++ l1 /\ (bom = [] \/ bom = [239; 187; 191])).
  { subst l1. destruct (starts [239; 187; 191] l) as [r|] eqn:Eb.
    - apply starts_app in Eb. exists [239; 187; 191]. auto.
    - exists []. auto. }
  destruct Hbom as (bom & Hl & Hbom). clear El1.
  destruct (drop_ws_split l1) as (w1 & Hl1 & Hw1).
  destruct (value_l strtod (S (length l)) 0 (drop_ws l1)) as [[t0 rest0]|] eqn:Ev; [|discriminate].
  apply (value_l_sound strtod Hok Hst) in Ev as (tx & v & Htx & Ht0 & Hval).
  assert (Hroom : room 0 = nesting_limit) by (unfold room, nesting_limit; rewrite Z.sub_0_r; reflexivity).
  rewrite Hroom in Hval.
  destruct rnt.
  - destruct (drop_ws_nz_split rest0) as (w2 & Hr0 & Hw2).
    destruct (drop_ws_nz rest0) as [|c r] eqn:Ez; [discriminate|].
    destruct (Z.eqb_spec c 0) as [->|Hc]; [|discriminate].
    inversion H; subst t rest. clear H.
    exists bom, w1, tx, w2, v.
    split; [rewrite Hl, Hl1, Htx, Hr0; reflexivity|].
    split; [exact Hbom|]. split; [exact Hw1|]. split; [exact Hval|]. split; [exact Ht0|].
    split; [exact Hw2|]. exists r. reflexivity.
  - inversion H; subst t rest. clear H.
    exists bom, w1, tx, [], v.
    split; [rewrite Hl, Hl1, Htx; reflexivity|].
    split; [exact Hbom|]. split; [exact Hw1|]. split; [exact Hval|]. split; [exact Ht0|].
    split; reflexivity.
Qed.

(** The same in terms of the grammar's [text]: the consumed bytes are a text of the lenient dialect. *)
Theorem sound_text : forall strtod l rnt t rest,
  strtod_ok strtod -> strtod_stable strtod ->
  text_l strtod l rnt = Some (t, rest) ->
  exists pre v, l = pre ++ rest /\ LEN_text strtod pre v /\ t = tree_of strtod v /\
                (rnt = true -> exists r, rest = 0 :: r).
Proof.
  intros strtod l rnt t rest Hok Hst H.
  destruct (sound_text_tight _ _ _ _ _ Hok Hst H) as (bom & w1 & tx & w2 & v & Hl & Hbom & Hw1 & Hv & Ht & Hw2 & Hr).
  exists (bom ++ w1 ++ tx ++ w2), v. split; [|split; [|split]].
  - rewrite Hl. rewrite <- !app_assoc. reflexivity.
  - exists bom, w1, tx, w2. repeat split; try assumption. apply ws_nz_len_ws. exact Hw2.
  - exact Ht.
  - intros ->. exact Hr.
Qed.

(** Contrapositive: a byte string no prefix of which is a text of the lenient dialect is rejected
    (whatever the termination requirement). *)
Corollary reject_outside_dialect : forall strtod l rnt,
  strtod_ok strtod -> strtod_stable strtod ->
  (forall pre rest v, l = pre ++ rest -> ~ LEN_text strtod pre v) ->
  text_l strtod l rnt = None.
Proof.
  intros strtod l rnt Hok Hst Hno.
  destruct (text_l strtod l rnt) as [[t rest]|] eqn:E; [|reflexivity].
  destruct (sound_text _ _ _ _ _ Hok Hst E) as (pre & v & Hl & Htxt & _).
  exfalso. exact (Hno pre rest v Hl Htxt).
Qed.

(** With termination required the whole C string (up to the first accepted zero byte) must be a text. *)
Corollary reject_outside_dialect_rnt : forall strtod l,
  strtod_ok strtod -> strtod_stable strtod ->
  (forall pre r v, l = pre ++ 0 :: r -> ~ LEN_text strtod pre v) ->
  text_l strtod l true = None.
Proof.
  intros strtod l Hok Hst Hno.
  destruct (text_l strtod l true) as [[t rest]|] eqn:E; [|reflexivity].
  destruct (sound_text _ _ _ _ _ Hok Hst E) as (pre & v & Hl & Htxt & _ & Hr).
  destruct (Hr eq_refl) as (r & ->).
  exfalso. exact (Hno pre r v Hl Htxt).
Qed.
