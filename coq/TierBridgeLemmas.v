(** TierBridgeLemmas.v — the Tier-A / Tier-B agreement (DESIGN 5.6) as theorems, for the primitives.

    Tier B (PatchDefs.v, MergeDefs.v: JSON Patch / Merge Patch over [Tree.node] with ordered member lists)
    PRESUPPOSES that the primitives it calls behave like list functions on the member list.  Tier A proves
    (C06: Properties_C06.v, C19: Properties_C19.v) that the C primitives, run on the pointer-linked heap,
    refine the forest-level list model of CoreSpec.v ([spec_*]) resp. [SortDefs.sort_spec].  This file
    closes the triangle: with [reify St] (CoreRefineDupValue.v: forest tree + string heap ↦ [Tree.node]) as
    the abstraction,

        reify (object in the forest after spec_f F args) = value_f (reify (object before)) args'

    for every primitive the Tier-B models call.  Hypotheses are those of the C06 simulation lemmas
    ([NoDup (ids F)] is [wf_nodup] of [WF h F]; "the container is the node [p] with children [cs]"; "the
    item is the detached root [tx]"), so each lemma composes with the corresponding C06 theorem.

    Reading guide: [F] forest, [St] the string heap ([h_str h]), [p] the container with data [d] and
    children [cs], [obj := reify St (T p d cs)].  Result pointers of the forest level are compared with
    value-level results through the dereference [find_tree x F'] / [find_root x F'].

    DEVIATIONS between the value-level models and the core primitives (all deliberate, all documented at
    the lemma):
    (D1) array detach / insert in JSON Patch are Utils' OWN [detach_item_from_array] /
         [insert_item_in_array] (pointer surgery in cJSON_Utils.c), not cJSON_DetachItemFromArray /
         cJSON_InsertItemInArray.  On the member list they are [remove_nth] and [insert_nth]; the first
         agrees with [spec_detach_index] ([bridge_detach_index]); the second agrees with [spec_insert] for
         indices 0..length and REFUSES past the end where the core function appends
         ([bridge_insert_in_range], [insert_past_end_differs]).  Their heap-level refinement is not a
         consequence of C06; it is proved separately in TierBridgeUtils.v (transliteration:
         TierBridgeUtilsDefs.v).
    (D2) [overwrite_item] (replace the root in place) has no core counterpart; not bridged.
    (D3) Allocation failure is not modelled at Tier B: the lemmas for add/replace are stated for a
         successful copy of the key ([copy = Some nk]).
    (D4) The key comparison of [generate_merge_patch]'s walk is a plain strcmp in both variants; that is
         control flow of the utility, not a primitive. *)
From CJ Require Import Base Dbl Heap Forest ForestLemmas CoreSpec CoreRefine CoreRefineMore CoreRefineReplace
  CoreRefineAddObject CoreRefineObject CoreRefineDupBase CoreRefineDupTree CoreRefineDupValue.
From CJ Require Import TierBridgeDefs TierBridgeSort TierBridgeForest.
From CJ Require Tree CompareDefs PointerDefs PatchDefs MergeDefs SortDefs SortSpec CoreRefineDupForest CoreRefineDup.
From CJ.gen Require Import Constants.
From stdpp Require Import gmap.
From Coq Require Import Lia.
Local Open Scope Z_scope.

(** * 0. [reify]: fields *)
Lemma reify_unfold St i d cs :
  reify St (T i d cs) =
  Tree.Node (rd_type d) (cstr_of St (rd_vstr d)) (rd_vint d) (rd_vdbl d) (cstr_of St (rd_key d)) (map (reify St) cs).
Proof. reflexivity. Qed.
Lemma reify_key St c : Tree.n_key (reify St c) = key_string St c.
Proof.
  destruct c as [i d cs]. cbn. unfold key_string, cstr_of. cbn. destruct (rd_key d) as [b|]; cbn; [|done].
  by destruct (St !! b).
Qed.
Lemma reify_children St c : Tree.n_children (reify St c) = map (reify St) (tchildren c).
Proof. by destruct c. Qed.
Lemma reify_set_children St i d cs cs' :
  PatchDefs.set_children (reify St (T i d cs)) (map (reify St) cs') = reify St (T i d cs').
Proof. reflexivity. Qed.
Lemma reify_mp_set_children St i d cs cs' :
  MergeDefs.mp_set_children (reify St (T i d cs)) (map (reify St) cs') = reify St (T i d cs').
Proof. reflexivity. Qed.
Lemma mp_set_children_eq n l : MergeDefs.mp_set_children n l = PatchDefs.set_children n l.
Proof. by destruct n. Qed.

Lemma key_string_zfree St c k : key_string St c = Some k -> SortSpec.zfree k.
Proof.
  unfold key_string. destruct (rd_key (tdata c)) as [b|]; cbn; [|done]. destruct (St !! b) as [s|]; cbn; [|done].
  intros [= <-]. apply SortSpec.cstr_zfree.
Qed.
Lemma reify_keyed St c : has_key St c -> keyed (reify St c).
Proof. intros [k Hk]. exists k. rewrite reify_key. split; [done|by eapply key_string_zfree]. Qed.
Lemma vkey_reify St c : vkey (reify St c) = fkey St c.
Proof.
  unfold vkey, fkey. rewrite reify_key. destruct (key_string St c) as [k|] eqn:E; cbn; [|done].
  apply cstr_zfree_id. by eapply key_string_zfree.
Qed.
Lemma Forall_reify_keyed St cs : Forall (has_key St) cs -> Forall keyed (map (reify St) cs).
Proof. intros H. apply Forall_fmap. eapply Forall_impl; [exact H|]. intros c. apply reify_keyed. Qed.

(** [reify] reads the string heap only at the blocks the tree refers to *)
Lemma reify_frame St St' t : (forall b, b ∈ str_blocks t -> St' !! b = St !! b) -> reify St' t = reify St t.
Proof.
  induction t as [i d cs IH] using tree_ind'. cbn [str_blocks]. intros Hn.
  rewrite !reify_unfold. f_equal.
  - destruct (rd_vstr d) as [b|]; [|done]. cbn. rewrite Hn; [done|]. apply elem_of_app. left. cbn. by left.
  - destruct (rd_key d) as [b|]; [|done]. cbn. rewrite Hn; [done|]. apply elem_of_app. right. apply elem_of_app. left. cbn. by left.
  - apply map_ext_in. intros c Hc. apply elem_of_list_In in Hc. rewrite Forall_forall in IH. apply IH; [done|].
    intros b Hb. apply Hn. apply elem_of_app. right. apply elem_of_app. right. apply elem_of_list_bind. by exists c.
Qed.
(** the string heap may grow by blocks the tree does not refer to *)
Lemma reify_insert_fresh St nk v t : nk ∉ str_blocks t -> reify (<[nk := v]> St) t = reify St t.
Proof. intros Hn. apply reify_frame. intros b Hb. rewrite lookup_insert_ne; [done|]. by intros ->. Qed.
(** … and the key of the item does not matter to add_item_to_object, which overwrites it *)
Lemma keyed_frame St St' x dx csx k :
  (forall b, b ∈ opt_list (rd_vstr dx) ++ (csx ≫= str_blocks) -> St' !! b = St !! b) ->
  PatchDefs.keyed (reify St' (T x dx csx)) k = PatchDefs.keyed (reify St (T x dx csx)) k.
Proof.
  intros Hn. rewrite !reify_unfold. unfold PatchDefs.keyed. cbn [PatchDefs.set_key PatchDefs.set_ty Tree.n_ty]. f_equal.
  - destruct (rd_vstr dx) as [b|]; [|done]. cbn. rewrite Hn; [done|]. apply elem_of_app. left. cbn. by left.
  - apply map_ext_in. intros c Hc. apply elem_of_list_In in Hc. apply reify_frame.
    intros b Hb. apply Hn. apply elem_of_app. right. apply elem_of_list_bind. by exists c.
Qed.

(** * 1. by-key lookup: one position, two readings *)
Lemma key_pos_lookup St flag name cs k : key_pos St flag name cs = Some k -> is_Some (cs !! k).
Proof.
  revert k. induction cs as [|c r IH]; intros k; [done|]. cbn [key_pos].
  assert (Hrec : S <$> key_pos St flag name r = Some k -> is_Some ((c :: r) !! k)).
  { destruct (key_pos St flag name r) as [j|]; [|done]. intros [= <-]. by apply IH. }
  destruct (key_string St c) as [kk|].
  - destruct (key_match flag name kk); [|done]. intros [= <-]. by eexists.
  - destruct flag; [done|done].
Qed.

Lemma key_pos_find St (flag : bool) (name : bytes) cs :
  (if flag then find_key_cs St name cs else find_key_ci St name cs) =
  (key_pos St flag name cs ≫= fun k => tid <$> cs !! k).
Proof.
  induction cs as [|c r IH]; [by destruct flag|].
  assert (Hs : forall o : option nat, ((S <$> o) ≫= fun k => tid <$> (c :: r) !! k) = (o ≫= fun k => tid <$> r !! k)).
  { by intros [j|]. }
  destruct flag; cbn [find_key_cs find_key_ci key_pos key_match] in *.
  - destruct (key_string St c) as [kk|]; [|done]. destruct (bool_decide (name = kk)); [done|]. by rewrite Hs.
  - destruct (key_string St c) as [kk|]; [|by rewrite Hs].
    destruct (bool_decide (tolower <$> name = tolower <$> kk)); [done|]. by rewrite Hs.
Qed.

Lemma key_pos_goi St (flag : bool) (name : bytes) cs : SortSpec.zfree name -> forall i : nat,
  (if flag then CompareDefs.get_object_item_cs (map (reify St) cs) name i
   else CompareDefs.get_object_item_ci (map (reify St) cs) name i) =
  (key_pos St flag name cs ≫= fun k => cs !! k ≫= fun c => Some ((i + k)%nat, reify St c)).
Proof.
  intros Hz. induction cs as [|c r IH]; intros i; [by destruct flag|].
  assert (Hs : forall o : option nat,
    ((S <$> o) ≫= fun k => (c :: r) !! k ≫= fun c0 => Some ((i + k)%nat, reify St c0)) =
    (o ≫= fun k => r !! k ≫= fun c0 => Some ((S i + k)%nat, reify St c0))).
  { intros [j|]; [|done]. cbn. destruct (r !! j); [|done]. cbn. do 2 f_equal. lia. }
  destruct flag; cbn [map CompareDefs.get_object_item_cs CompareDefs.get_object_item_ci key_pos key_match];
    rewrite reify_key; destruct (key_string St c) as [kk|] eqn:Ek.
  - pose proof (key_string_zfree _ _ _ Ek) as Hzk.
    destruct (Z.eqb_spec (strcmp name kk) 0) as [He|Hne].
    + apply strcmp_zero_iff in He; [|done..]. rewrite bool_decide_eq_true_2 by done. cbn. do 2 f_equal. lia.
    + rewrite bool_decide_eq_false_2 by (intros He; apply Hne; by apply strcmp_zero_iff).
      rewrite Hs. apply (IH (S i)).
  - done.
  - pose proof (key_string_zfree _ _ _ Ek) as Hzk. unfold CompareDefs.case_insensitive_strcmp.
    destruct (Z.eqb_spec (strcasecmp_c name kk) 0) as [He|Hne].
    + apply strcasecmp_zero_iff in He; [|done..]. rewrite bool_decide_eq_true_2 by done. cbn. do 2 f_equal. lia.
    + rewrite bool_decide_eq_false_2 by (intros He; apply Hne; by apply strcasecmp_zero_iff).
      rewrite Hs. apply (IH (S i)).
  - rewrite Hs. apply (IH (S i)).
Qed.

Lemma get_object_item_reify St i d cs name flag : SortSpec.zfree name ->
  CompareDefs.get_object_item (reify St (T i d cs)) (Some name) flag =
  (key_pos St flag name cs ≫= fun k => cs !! k ≫= fun c => Some (k, reify St c)).
Proof.
  intros Hz. unfold CompareDefs.get_object_item. rewrite reify_children. cbn [tchildren].
  pose proof (key_pos_goi St flag name cs Hz O) as H. destruct flag; exact H.
Qed.

Lemma map_fmap {A B} (f : A -> B) (l : list A) : map f l = f <$> l.
Proof. reflexivity. Qed.
Lemma map_delete {A B} (f : A -> B) (k : nat) (l : list A) : map f (delete k l) = delete k (map f l).
Proof. revert k. induction l as [|x r IH]; intros [|k]; cbn; try done. by rewrite IH. Qed.
Lemma map_list_insert {A B} (f : A -> B) (k : nat) (x : A) (l : list A) : map f (<[k := x]> l) = <[k := f x]> (map f l).
Proof. revert k. induction l as [|y r IH]; intros [|k]; cbn; try done. by rewrite IH. Qed.

(** the by-key lookup of both tiers through [found_member]: Tier B returns (index, value of the member),
    Tier A the identity of the member *)
Lemma get_object_item_found St i d cs name flag : SortSpec.zfree name ->
  CompareDefs.get_object_item (reify St (T i d cs)) (Some name) flag =
  (fun kc => (kc.1, reify St kc.2)) <$> found_member St flag name cs.
Proof.
  intros Hz. rewrite get_object_item_reify by done. unfold found_member.
  destruct (key_pos St flag name cs) as [k|]; [|done]. cbn. by destruct (cs !! k).
Qed.
Lemma find_key_found St (flag : bool) (name : bytes) cs :
  (if flag then find_key_cs St name cs else find_key_ci St name cs) = (fun kc => tid kc.2) <$> found_member St flag name cs.
Proof.
  rewrite key_pos_find. unfold found_member. destruct (key_pos St flag name cs) as [k|]; [|done]. cbn. by destruct (cs !! k).
Qed.
Lemma found_member_lookup St flag name cs k c : found_member St flag name cs = Some (k, c) -> cs !! k = Some c.
Proof.
  unfold found_member. destruct (key_pos St flag name cs) as [j|]; [|done]. cbn.
  destruct (cs !! j) as [c'|] eqn:E; [|done]. cbn. by intros [= <- <-].
Qed.

(** * 2. the container [p] is a node of the forest: queries, detach, delete, sort *)
Section Container.
  Context (St : gmap positive bytes) (F : forest) (p : positive) (d : rdata) (cs : list tree).
  Hypothesis ND : NoDup (ids F).
  Hypothesis Hp : find_tree p F = Some (T p d cs).
  Notation obj := (reify St (T p d cs)).

  (** a result pointer of the forest level designates the child *)
  Lemma deref_child (k : nat) c : cs !! k = Some c -> find_tree (tid c) F = Some c.
  Proof. intros Hk. eapply find_tree_child; [done..|by eapply elem_of_list_lookup_2]. Qed.

  (** ** get_object_item / cJSON_GetObjectItem[CaseSensitive] *)
  Theorem bridge_get_key nb (s : bytes) (flag : bool) : St !! nb = Some s ->
    CompareDefs.get_object_item obj (Some (cstr s)) flag =
      (fun kc => (kc.1, reify St kc.2)) <$> found_member St flag (cstr s) cs /\
    spec_get_key St F (Some p) (Some nb) flag = (fun kc => tid kc.2) <$> found_member St flag (cstr s) cs.
  Proof.
    intros Hs. split; [apply get_object_item_found, SortSpec.cstr_zfree|].
    unfold spec_get_key. rewrite (children_of_find _ _ _ _ Hp), Hs. apply find_key_found.
  Qed.

  Theorem bridge_get_key_commutes nb (s : bytes) (flag : bool) : St !! nb = Some s ->
    snd <$> CompareDefs.get_object_item obj (Some (cstr s)) flag =
    reify St <$> (spec_get_key St F (Some p) (Some nb) flag ≫= fun x => find_tree x F).
  Proof.
    intros Hs. destruct (bridge_get_key nb s flag Hs) as [-> ->].
    destruct (found_member St flag (cstr s) cs) as [[k c]|] eqn:E; [|done]. cbn.
    by rewrite (deref_child k c (found_member_lookup _ _ _ _ _ _ E)).
  Qed.

  (** ** get_array_item / cJSON_GetArrayItem, cJSON_GetArraySize *)
  Theorem bridge_get_index idx :
    PointerDefs.nth_z (Tree.n_children obj) idx = reify St <$> (if idx <? 0 then None else cs !! Z.to_nat idx) /\
    spec_get_array_item F (Some p) idx = tid <$> (if idx <? 0 then None else cs !! Z.to_nat idx).
  Proof.
    split.
    - rewrite nth_z_lookup, reify_children. cbn [tchildren]. destruct (idx <? 0); [done|].
      by rewrite map_fmap, list_lookup_fmap.
    - unfold spec_get_array_item, spec_get_index. rewrite (children_of_find _ _ _ _ Hp).
      destruct (idx <? 0); [done|]. by rewrite list_lookup_fmap.
  Qed.
  Theorem bridge_get_index_commutes idx :
    PointerDefs.nth_z (Tree.n_children obj) idx =
    reify St <$> (spec_get_array_item F (Some p) idx ≫= fun x => find_tree x F).
  Proof.
    destruct (bridge_get_index idx) as [-> ->]. destruct (idx <? 0); [done|].
    destruct (cs !! Z.to_nat idx) as [c|] eqn:E; [|done]. cbn. by rewrite (deref_child _ c E).
  Qed.
  Theorem bridge_get_size : spec_get_size F (Some p) = v_array_size obj.
  Proof.
    unfold spec_get_size, v_array_size. rewrite (children_of_find _ _ _ _ Hp), reify_children. cbn [tchildren].
    by rewrite map_length.
  Qed.

  (** ** cJSON_DetachItemViaPointer of the [k]-th child *)
  Lemma spec_detach_child (k : nat) tx : cs !! k = Some tx ->
    spec_detach F (Some p) (Some (tid tx)) = (set_children p (delete k cs) F ++ [tx], Some (tid tx)).
  Proof.
    intros Hk. unfold spec_detach. rewrite (children_of_find _ _ _ _ Hp).
    rewrite (index_of_lookup (tid <$> cs) k (tid tx)); [by rewrite Hk| |by rewrite list_lookup_fmap, Hk].
    by eapply children_ids_NoDup.
  Qed.
  Lemma spec_detach_none : spec_detach F (Some p) None = (F, None).
  Proof. done. Qed.

  (** the object after "the [k]-th member is gone", and the detached item as a root *)
  Lemma after_detach (k : nat) tx G : cs !! k = Some tx ->
    reify St <$> find_tree p (set_children p (delete k cs) F ++ G) =
      Some (PatchDefs.set_children obj (PatchDefs.remove_nth k (Tree.n_children obj))) /\
    find_root (tid tx) (set_children p (delete k cs) F ++ [tx]) = Some tx.
  Proof.
    intros Hk. split.
    - rewrite (find_tree_app_l _ _ _ _ (find_tree_set_children p d cs (delete k cs) F Hp)). cbn [fmap option_fmap option_map].
      f_equal. rewrite reify_children. cbn [tchildren]. rewrite remove_nth_delete.
      rewrite <- map_delete. symmetry. apply reify_set_children.
    - by eapply find_detached.
  Qed.

  (** ** cJSON_DetachItemFromObject[CaseSensitive] *)
  Theorem bridge_detach_key_explicit nb (s : bytes) (flag : bool) : St !! nb = Some s ->
    spec_detach_key St F (Some p) (Some nb) flag =
    match found_member St flag (cstr s) cs with
    | Some (k, tx) => (set_children p (delete k cs) F ++ [tx], Some (tid tx))
    | None => (F, None)
    end.
  Proof.
    intros Hs. unfold spec_detach_key. rewrite (proj2 (bridge_get_key nb s flag Hs)).
    destruct (found_member St flag (cstr s) cs) as [[k tx]|] eqn:E; [|done]. cbn.
    apply spec_detach_child. by eapply found_member_lookup.
  Qed.

  (** as MergeDefs.v calls it *)
  Theorem bridge_detach_key nb (s : bytes) (flag : bool) : St !! nb = Some s ->
    let '(F', r) := spec_detach_key St F (Some p) (Some nb) flag in
    let '(item, obj') := MergeDefs.mp_DetachItemFromObject obj (Some (cstr s)) flag in
    reify St <$> find_tree p F' = Some obj' /\
    reify St <$> (r ≫= fun x => find_root x F') = item /\
    (r = None -> F' = F).
  Proof.
    intros Hs. rewrite (bridge_detach_key_explicit nb s flag Hs). unfold MergeDefs.mp_DetachItemFromObject.
    rewrite (proj1 (bridge_get_key nb s flag Hs)).
    destruct (found_member St flag (cstr s) cs) as [[k tx]|] eqn:E;
      cbn [fmap option_fmap option_map fst snd mbind option_bind].
    - apply found_member_lookup in E. destruct (after_detach k tx [tx] E) as [H1 H2].
      rewrite mp_set_children_eq, mp_remove_nth_delete, <- (remove_nth_delete k (Tree.n_children obj)). by rewrite H1, H2.
    - by rewrite Hp.
  Qed.
  (** as PatchDefs.detach_path writes it *)
  Theorem bridge_detach_key_patch nb (s : bytes) (flag : bool) : St !! nb = Some s ->
    let '(F', r) := spec_detach_key St F (Some p) (Some nb) flag in
    match v_detach_from_object obj (cstr s) flag with
    | Some (item, obj') =>
        reify St <$> find_tree p F' = Some obj' /\ reify St <$> (r ≫= fun x => find_root x F') = Some item
    | None => F' = F /\ r = None
    end.
  Proof.
    intros Hs. rewrite (bridge_detach_key_explicit nb s flag Hs). unfold v_detach_from_object.
    rewrite (proj1 (bridge_get_key nb s flag Hs)).
    destruct (found_member St flag (cstr s) cs) as [[k tx]|] eqn:E;
      cbn [fmap option_fmap option_map fst snd mbind option_bind]; [|done].
    apply found_member_lookup in E. destruct (after_detach k tx [tx] E) as [H1 H2]. by rewrite H1, H2.
  Qed.

  (** ** cJSON_DeleteItemFromObject[CaseSensitive] *)
  Theorem bridge_delete_key_explicit nb (s : bytes) (flag : bool) : St !! nb = Some s ->
    spec_delete_key St F (Some p) (Some nb) flag =
    match found_member St flag (cstr s) cs with
    | Some (k, _) => set_children p (delete k cs) F
    | None => F
    end.
  Proof.
    intros Hs. unfold spec_delete_key. rewrite (bridge_detach_key_explicit nb s flag Hs).
    destruct (found_member St flag (cstr s) cs) as [[k tx]|] eqn:E; [|done]. cbn [spec_delete].
    apply found_member_lookup in E. by eapply remove_detached.
  Qed.
  Theorem bridge_delete_key nb (s : bytes) (flag : bool) : St !! nb = Some s ->
    reify St <$> find_tree p (spec_delete_key St F (Some p) (Some nb) flag) =
      Some (MergeDefs.mp_DeleteItemFromObject obj (Some (cstr s)) flag) /\
    MergeDefs.mp_DeleteItemFromObject obj (Some (cstr s)) flag = v_delete_from_object obj (cstr s) flag.
  Proof.
    intros Hs. rewrite (bridge_delete_key_explicit nb s flag Hs).
    unfold MergeDefs.mp_DeleteItemFromObject, MergeDefs.mp_DetachItemFromObject, v_delete_from_object, v_delete_members.
    rewrite (proj1 (bridge_get_key nb s flag Hs)).
    destruct (found_member St flag (cstr s) cs) as [[k tx]|] eqn:E;
      cbn [fmap option_fmap option_map fst snd mbind option_bind].
    - apply found_member_lookup in E. destruct (after_detach k tx [] E) as [H1 _]. rewrite app_nil_r in H1.
      rewrite mp_set_children_eq, mp_remove_nth_delete, <- (remove_nth_delete k (Tree.n_children obj)). by rewrite H1.
    - by rewrite Hp.
  Qed.

  (** ** array element by index: cJSON_DetachItemFromArray on the forest, Utils' own
         [detach_item_from_array] at value level (deviation D1: same list function) *)
  Theorem bridge_detach_index_explicit idx :
    spec_detach_index F (Some p) idx =
    match (if idx <? 0 then None else cs !! Z.to_nat idx) with
    | Some tx => (set_children p (delete (Z.to_nat idx) cs) F ++ [tx], Some (tid tx))
    | None => (F, None)
    end.
  Proof.
    unfold spec_detach_index. destruct (idx <? 0) eqn:En; [done|].
    pose proof (proj2 (bridge_get_index idx)) as Hg. unfold spec_get_array_item in Hg. rewrite En in Hg. rewrite Hg.
    destruct (cs !! Z.to_nat idx) as [tx|] eqn:E; [|done]. cbn. by apply spec_detach_child.
  Qed.
  Theorem bridge_detach_index idx :
    let '(F', r) := spec_detach_index F (Some p) idx in
    match v_detach_from_array obj idx with
    | Some (item, obj') =>
        reify St <$> find_tree p F' = Some obj' /\ reify St <$> (r ≫= fun x => find_root x F') = Some item
    | None => F' = F /\ r = None
    end.
  Proof.
    rewrite bridge_detach_index_explicit. unfold v_detach_from_array. rewrite (proj1 (bridge_get_index idx)).
    destruct (idx <? 0); [done|]. destruct (cs !! Z.to_nat idx) as [tx|] eqn:E;
      cbn [fmap option_fmap option_map fst snd mbind option_bind]; [|done].
    destruct (after_detach _ tx [tx] E) as [H1 H2]. by rewrite H1, H2.
  Qed.
End Container.

(** * 3. the item is a detached root [x], the container [p] a node outside it: add, insert, replace *)
Section RootItem.
  Context (St : gmap positive bytes) (F : forest) (p x : positive) (d dx : rdata) (cs csx : list tree).
  Hypothesis ND : NoDup (ids F).
  Hypothesis Hne : p <> x.
  Hypothesis Hx : find_root x F = Some (T x dx csx).
  Hypothesis Hp0 : find_tree p (remove_root x F) = Some (T p d cs).
  Notation obj := (reify St (T p d cs)).
  Notation item := (reify St (T x dx csx)).
  Notation F0 := (remove_root x F).

  Lemma Hp_full : find_tree p F = Some (T p d cs).
  Proof. by eapply find_tree_remove_root. Qed.

  Lemma after_set cs' : reify St <$> find_tree p (set_children p cs' F0) = Some (reify St (T p d cs')).
  Proof. by rewrite (find_tree_set_children p d cs cs' F0 Hp0). Qed.

  (** ** add_item_to_array / cJSON_AddItemToArray *)
  Theorem bridge_add_to_array :
    spec_add_to_array F (Some p) (Some x) = (set_children p (cs ++ [T x dx csx]) F0, true) /\
    reify St <$> find_tree p (spec_add_to_array F (Some p) (Some x)).1 = Some (v_add_to_array obj item).
  Proof.
    assert (E : spec_add_to_array F (Some p) (Some x) = (set_children p (cs ++ [T x dx csx]) F0, true)).
    { unfold spec_add_to_array. rewrite decide_False by done. rewrite Hx. cbn zeta.
      by rewrite (children_of_find _ _ _ _ Hp0). }
    split; [done|]. rewrite E. cbn [fst]. rewrite after_set. f_equal.
    unfold v_add_to_array. rewrite reify_children. cbn [tchildren].
    rewrite <- (reify_set_children St p d cs (cs ++ [T x dx csx])). f_equal. by rewrite map_app.
  Qed.

  (** ** cJSON_InsertItemInArray (core: appends past the end) *)
  Theorem bridge_core_insert which : 0 <= which ->
    spec_insert F (Some p) which (Some x) =
      (set_children p (if Z.to_nat which <? length cs then insert_at (Z.to_nat which) (T x dx csx) cs
                       else cs ++ [T x dx csx])%nat F0, true) /\
    reify St <$> find_tree p (spec_insert F (Some p) which (Some x)).1 = Some (v_core_insert_in_array obj which item).
  Proof.
    intros Hw.
    assert (E : spec_insert F (Some p) which (Some x) =
      (set_children p (if Z.to_nat which <? length cs then insert_at (Z.to_nat which) (T x dx csx) cs
                       else cs ++ [T x dx csx])%nat F0, true)).
    { unfold spec_insert. destruct (Z.ltb_spec which 0) as [|_]; [lia|]. cbn [orb].
      rewrite bool_decide_eq_false_2 by (intros [= ?]; done).
      unfold spec_get_index. rewrite (children_of_find _ _ _ _ Hp_full).
      destruct (Nat.ltb_spec (Z.to_nat which) (length cs)) as [Hl|Hl].
      - destruct (lookup_lt_is_Some_2 (tid <$> cs) (Z.to_nat which)) as [y Hy]; [by rewrite fmap_length|].
        rewrite Hy, Hx. cbn zeta. by rewrite (children_of_find _ _ _ _ Hp0).
      - rewrite (proj2 (lookup_ge_None (tid <$> cs) (Z.to_nat which))) by (by rewrite fmap_length).
        apply bridge_add_to_array. }
    split; [done|]. rewrite E. cbn [fst]. rewrite after_set. f_equal.
    unfold v_core_insert_in_array. rewrite reify_children. cbn [tchildren]. rewrite map_length.
    destruct (Nat.ltb_spec (Z.to_nat which) (length cs)) as [Hl|Hl].
    - destruct (Z.ltb_spec which (Z.of_nat (length cs))) as [_|]; [|lia].
      rewrite insert_nth_insert_at by (rewrite map_length; lia).
      rewrite <- (reify_set_children St p d cs). f_equal. unfold insert_at.
      by rewrite map_app, map_cons, !map_fmap, fmap_take, fmap_drop.
    - destruct (Z.ltb_spec which (Z.of_nat (length cs))) as [|_]; [lia|].
      rewrite <- (reify_set_children St p d cs). f_equal. by rewrite map_app.
  Qed.

  (** ** Utils' own insert_item_in_array (deviation D1): same list function for 0 <= which <= length … *)
  Theorem bridge_insert_in_range which : 0 <= which <= Z.of_nat (length cs) ->
    v_insert_in_array obj which item = Some (v_core_insert_in_array obj which item) /\
    reify St <$> find_tree p (spec_insert F (Some p) which (Some x)).1 = v_insert_in_array obj which item.
  Proof.
    intros Hw.
    assert (E : v_insert_in_array obj which item = Some (v_core_insert_in_array obj which item)).
    { unfold v_insert_in_array, v_core_insert_in_array. rewrite reify_children. cbn [tchildren]. rewrite map_length.
      destruct (Z.gtb_spec which (Z.of_nat (length cs))) as [|_]; [lia|]. do 2 f_equal.
      destruct (Z.ltb_spec which (Z.of_nat (length cs))) as [|Hge]; [done|].
      apply insert_nth_past_end. rewrite map_length. lia. }
    split; [done|]. rewrite E. apply bridge_core_insert. lia.
  Qed.
  (** … and past the end the core function APPENDS while the Utils function REFUSES (apply_patch status 10) *)
  Theorem insert_past_end_differs which : Z.of_nat (length cs) < which ->
    v_insert_in_array obj which item = None /\
    spec_insert F (Some p) which (Some x) = (set_children p (cs ++ [T x dx csx]) F0, true) /\
    reify St <$> find_tree p (spec_insert F (Some p) which (Some x)).1 = Some (v_add_to_array obj item).
  Proof.
    intros Hw. split; [|split].
    - unfold v_insert_in_array. rewrite reify_children. cbn [tchildren]. rewrite map_length.
      destruct (Z.gtb_spec which (Z.of_nat (length cs))) as [_|]; [done|lia].
    - rewrite (proj1 (bridge_core_insert which ltac:(lia))).
      destruct (Nat.ltb_spec (Z.to_nat which) (length cs)); [lia|done].
    - rewrite (proj2 (bridge_core_insert which ltac:(lia))). f_equal.
      unfold v_core_insert_in_array, v_add_to_array. rewrite reify_children. cbn [tchildren]. rewrite map_length.
      destruct (Z.ltb_spec which (Z.of_nat (length cs))); [lia|done].
  Qed.

  (** ** add_item_to_object with an owned fresh copy [nk] of the name (cJSON_AddItemToObject) *)
  Lemma reify_owned_key nk (s' : bytes) : St !! nk = Some s' ->
    reify St (T x (rd_owned_key dx nk) csx) = PatchDefs.keyed item (cstr s') /\
    reify St (T x (rd_owned_key dx nk) csx) = MergeDefs.mp_keyed (cstr s') item.
  Proof.
    intros Hs. rewrite !reify_unfold. unfold PatchDefs.keyed, MergeDefs.mp_keyed, MergeDefs.mp_clear_const.
    cbn [PatchDefs.set_key PatchDefs.set_ty Tree.n_ty rd_owned_key rd_set_key_type rd_type rd_vstr rd_vint rd_vdbl rd_key].
    rewrite Z.ldiff_land. cbn [cstr_of]. rewrite Hs. done.
  Qed.

  Theorem bridge_add_to_object sb nk (s' : bytes) : St !! nk = Some s' ->
    let d' := rd_owned_key dx nk in
    spec_add_to_object F (Some p) (Some sb) (Some x) false (Some nk) = (set_children p (cs ++ [T x d' csx]) F0, true) /\
    reify St <$> find_tree p (spec_add_to_object F (Some p) (Some sb) (Some x) false (Some nk)).1 =
      Some (v_add_to_object obj (cstr s') item) /\
    v_add_to_object obj (cstr s') item = MergeDefs.mp_AddItemToObject obj (Some (cstr s')) (Some item).
  Proof.
    intros Hs d'.
    destruct (set_data_root F x dx csx d' ND Hx) as (_ & Hx' & Hrr).
    assert (E : spec_add_to_object F (Some p) (Some sb) (Some x) false (Some nk) = (set_children p (cs ++ [T x d' csx]) F0, true)).
    { unfold spec_add_to_object. rewrite decide_False by done. rewrite Hx. cbn [tdata]. fold d'.
      unfold spec_add_to_array. rewrite decide_False by done. rewrite Hx', Hrr. cbn zeta.
      by rewrite (children_of_find _ _ _ _ Hp0). }
    destruct (reify_owned_key nk s' Hs) as [K1 K2]. fold d' in K1, K2.
    split; [done|]. split.
    - rewrite E. cbn [fst]. rewrite after_set. f_equal. unfold v_add_to_object. rewrite reify_children. cbn [tchildren].
      rewrite <- (reify_set_children St p d cs). f_equal. rewrite map_app. cbn [map]. by rewrite K1.
    - unfold v_add_to_object, MergeDefs.mp_AddItemToObject, MergeDefs.mp_add_member. by rewrite <- K1, K2.
  Qed.

  (** ** replace_item_in_object / cJSON_ReplaceItemInObject[CaseSensitive]: re-key the replacement with the
         owned copy [nk], look the member up BY THE COPY, replace it *)
  Theorem bridge_replace_key sb nk (s' : bytes) (flag : bool) : St !! nk = Some s' ->
    let d' := rd_owned_key dx nk in
    let F1 := set_data x d' F in
    spec_replace_key St F (Some p) (Some sb) (Some x) flag (Some nk) =
      match found_member St flag (cstr s') cs with
      | Some (k, _) => (set_children p (<[k := T x d' csx]> cs) F0, true)
      | None => (F1, false)
      end /\
    match v_replace_in_object obj (cstr s') item flag with
    | Some obj' => reify St <$> find_tree p (spec_replace_key St F (Some p) (Some sb) (Some x) flag (Some nk)).1 = Some obj'
    | None => (spec_replace_key St F (Some p) (Some sb) (Some x) flag (Some nk)).2 = false
    end.
  Proof.
    intros Hs d' F1.
    destruct (set_data_root F x dx csx d' ND Hx) as (Hin & Hx' & Hrr). fold F1 in Hx', Hrr.
    assert (ND1 : NoDup (ids F1)).
    { unfold F1. destruct (flat_set_data F x dx csx ND Hin) as (FL & E1 & E2).
      rewrite ids_flat, (E2 d'). pose proof ND as ND'. rewrite ids_flat, E1 in ND'. exact ND'. }
    assert (Hp1 : find_tree p F1 = Some (T p d cs)).
    { apply (find_tree_remove_root F1 x (T x d' csx) p); [done..|by rewrite Hrr]. }
    assert (E : spec_replace_key St F (Some p) (Some sb) (Some x) flag (Some nk) =
      match found_member St flag (cstr s') cs with
      | Some (k, _) => (set_children p (<[k := T x d' csx]> cs) F0, true)
      | None => (F1, false)
      end).
    { unfold spec_replace_key. rewrite Hx. cbn [tdata]. fold d' F1.
      rewrite (proj2 (bridge_get_key St F1 p d cs Hp1 nk s' flag Hs)).
      destruct (found_member St flag (cstr s') cs) as [[k ty]|] eqn:Ef; cbn [fmap option_fmap option_map snd].
      - apply found_member_lookup in Ef. unfold spec_replace. rewrite (children_of_find _ _ _ _ Hp1).
        destruct cs as [|c0 r0] eqn:Ecs; [done|]. rewrite <- Ecs in *.
        assert (Hxy : x <> tid ty).
        { intros ->. apply (child_is_not_root F1 p d cs ty ND1 Hp1); [by eapply elem_of_list_lookup_2|].
          apply find_root_Some in Hx' as [Hin' _]. apply elem_of_list_fmap. by exists (T (tid ty) d' csx). }
        rewrite decide_False by done. rewrite Hx', Hrr. cbn zeta. rewrite (children_of_find _ _ _ _ Hp0).
        rewrite (index_of_lookup (tid <$> cs) k (tid ty)); [done| |by rewrite list_lookup_fmap, Ef].
        by eapply children_ids_NoDup.
      - done. }
    split; [done|]. rewrite E. unfold v_replace_in_object.
    rewrite (get_object_item_found St p d cs (cstr s') flag (SortSpec.cstr_zfree _)).
    destruct (found_member St flag (cstr s') cs) as [[k ty]|] eqn:Ef; cbn [fmap option_fmap option_map fst snd]; [|done].
    rewrite after_set. f_equal. rewrite reify_children. cbn [tchildren]. rewrite replace_nth_insert.
    rewrite <- (reify_set_children St p d cs). f_equal. rewrite map_list_insert. f_equal.
    apply (reify_owned_key nk s' Hs).
  Qed.

  Theorem bridge_replace_key_explicit sb nk (s' : bytes) (flag : bool) : St !! nk = Some s' ->
    spec_replace_key St F (Some p) (Some sb) (Some x) flag (Some nk) =
    match found_member St flag (cstr s') cs with
    | Some (k, _) => (set_children p (<[k := T x (rd_owned_key dx nk) csx]> cs) F0, true)
    | None => (set_data x (rd_owned_key dx nk) F, false)
    end.
  Proof. intros Hs. exact (proj1 (bridge_replace_key sb nk s' flag Hs)). Qed.
End RootItem.

(** * 4. cJSON_Duplicate(item, 1) *)
Definition vdepth_list : list Tree.node -> nat :=
  fix go l := match l with [] => O | c :: r => Nat.max (Tree.node_depth c) (go r) end.
Lemma node_depth_unfold t s i d k cs : Tree.node_depth (Tree.Node t s i d k cs) = S (vdepth_list cs).
Proof. reflexivity. Qed.

Definition dup_list (depth : Z) : list Tree.node -> option (list Tree.node) :=
  fix go (l : list Tree.node) : option (list Tree.node) :=
    match l with
    | [] => Some []
    | c :: r =>
        if depth >=? c_CJSON_CIRCULAR_LIMIT then None
        else match PatchDefs.dup_rec c (depth + 1) with
             | None => None
             | Some c' => match go r with None => None | Some r' => Some (c' :: r') end
             end
    end.
Lemma dup_rec_unfold ty vs vi vd k cs depth :
  PatchDefs.dup_rec (Tree.Node ty vs vi vd k cs) depth =
  match dup_list depth cs with
  | None => None
  | Some cs' => Some (Tree.Node (Z.ldiff ty c_cJSON_IsReference) vs vi vd k cs')
  end.
Proof. reflexivity. Qed.

(** whenever the value-level duplicate succeeds it is [clear_refs] of the item *)
Lemma dup_rec_clear_refs item : forall depth v, PatchDefs.dup_rec item depth = Some v -> v = clear_refs item.
Proof.
  induction item as [ty vs vi vd k cs IH] using Tree.node_ind'. intros depth v. rewrite dup_rec_unfold.
  assert (Hl : forall cs', dup_list depth cs = Some cs' -> cs' = map clear_refs cs).
  { induction cs as [|c r IHr]; intros cs'; cbn [dup_list]; [by intros [= <-]|].
    apply List.Forall_cons_iff in IH as [IHc IHr'].
    destruct (depth >=? c_CJSON_CIRCULAR_LIMIT); [done|].
    destruct (PatchDefs.dup_rec c (depth + 1)) as [c'|] eqn:Ec; [|done].
    fold (dup_list depth r). destruct (dup_list depth r) as [r'|]; [|done]. intros [= <-].
    cbn [map]. f_equal; [by eapply IHc|by apply IHr]. }
  destruct (dup_list depth cs) as [cs'|]; [|done]. intros [= <-]. cbn [clear_refs].
  rewrite Z.ldiff_land. f_equal. by apply Hl.
Qed.

(** it succeeds when the nesting below the item fits under CJSON_CIRCULAR_LIMIT *)
Lemma dup_rec_succeeds item : forall depth,
  depth + Z.of_nat (Tree.node_depth item) - 1 <= c_CJSON_CIRCULAR_LIMIT ->
  PatchDefs.dup_rec item depth = Some (clear_refs item).
Proof.
  induction item as [ty vs vi vd k cs IH] using Tree.node_ind'. intros depth Hd. rewrite dup_rec_unfold.
  rewrite node_depth_unfold in Hd.
  assert (Hl : dup_list depth cs = Some (map clear_refs cs)).
  { induction cs as [|c r IHr]; [done|]. cbn [dup_list vdepth_list] in *.
    apply List.Forall_cons_iff in IH as [IHc IHr'].
    assert (1 <= Tree.node_depth c)%nat by (destruct c; rewrite node_depth_unfold; lia).
    destruct (Z.geb_spec depth c_CJSON_CIRCULAR_LIMIT) as [|_]; [lia|].
    rewrite IHc by lia. fold (dup_list depth r). rewrite IHr; [done|done|lia]. }
  rewrite Hl. cbn [clear_refs]. by rewrite Z.ldiff_land.
Qed.

(** the two transliterations of cJSON_Duplicate are the same function *)
Lemma mp_dup_rec_eq item : forall depth, MergeDefs.mp_dup_rec depth item = PatchDefs.dup_rec item depth.
Proof.
  induction item as [ty vs vi vd k cs IH] using Tree.node_ind'. intros depth. rewrite dup_rec_unfold.
  cbn [MergeDefs.mp_dup_rec].
  assert (Hl : (fix go (l : list Tree.node) : option (list Tree.node) :=
                  match l with
                  | [] => Some []
                  | c :: r =>
                      if c_CJSON_CIRCULAR_LIMIT <=? depth then None
                      else match MergeDefs.mp_dup_rec (depth + 1) c with
                           | None => None
                           | Some c' => match go r with None => None | Some r' => Some (c' :: r') end
                           end
                  end) cs = dup_list depth cs).
  { induction cs as [|c r IHr]; [done|]. apply List.Forall_cons_iff in IH as [IHc IHr'].
    cbn [dup_list]. rewrite IHc, (IHr IHr'). rewrite Z.geb_leb. done. }
  rewrite Hl. destruct (dup_list depth cs); [|done]. unfold MergeDefs.mp_clear_ref. by rewrite Z.ldiff_land.
Qed.

Lemma height_node_depth St t : Tree.node_depth (reify St t) = S (CoreRefineDupForest.height t).
Proof.
  induction t as [i d cs IH] using tree_ind'. rewrite reify_unfold, node_depth_unfold, CoreRefineDupForest.height_unfold.
  f_equal. induction cs as [|c r IHr]; [done|]. apply Forall_cons in IH as [IHc IHr'].
  cbn [map vdepth_list CoreRefineDupForest.height_list]. rewrite IHc, (IHr IHr'). done.
Qed.

(** [copy_of h t tc] is what the heap-level cJSON_Duplicate produces (CoreRefineDupForest.dup_copy,
    Properties_C11): reifying the copy gives what both value-level models compute *)
Theorem bridge_duplicate h t tc :
  copy_of h t tc ->
  (forall v, PatchDefs.cJSON_Duplicate (reify (h_str h) t) = Some v -> v = reify (h_str h) tc) /\
  (forall v, MergeDefs.mp_Duplicate (Some (reify (h_str h) t)) = Some v -> v = reify (h_str h) tc) /\
  ((CoreRefineDupForest.height t <= Z.to_nat c_CJSON_CIRCULAR_LIMIT)%nat ->
     PatchDefs.cJSON_Duplicate (reify (h_str h) t) = Some (reify (h_str h) tc) /\
     MergeDefs.mp_Duplicate (Some (reify (h_str h) t)) = Some (reify (h_str h) tc)).
Proof.
  intros Hc. pose proof (copy_reify h t tc Hc) as E. unfold PatchDefs.cJSON_Duplicate, MergeDefs.mp_Duplicate.
  rewrite mp_dup_rec_eq. split; [|split].
  - intros v Hv. rewrite E. by eapply dup_rec_clear_refs.
  - intros v Hv. rewrite E. by eapply dup_rec_clear_refs.
  - intros Hh. rewrite E. pose proof CoreRefineDup.limit_nonneg as Hl.
    split; apply dup_rec_succeeds; rewrite height_node_depth; lia.
Qed.

(** * 5. constructors: a new root without children reifies to the value-level constructor *)
Lemma cstr_app_zero (s r : bytes) : SortSpec.zfree s -> cstr (s ++ 0 :: r) = s.
Proof.
  induction 1 as [|c s Hc Hs IH]; cbn [app cstr]; [done|].
  destruct (Z.eqb_spec c 0); [done|]. by rewrite IH.
Qed.
Theorem bridge_create_typed St id ty :
  reify St (T id (mkRD ty None 0 dzero None None) []) = MergeDefs.mp_new_item ty.
Proof. reflexivity. Qed.
Theorem bridge_create_object_array St id :
  reify St (T id (mkRD c_cJSON_Object None 0 dzero None None) []) = PatchDefs.create_object /\
  reify St (T id (mkRD c_cJSON_Array None 0 dzero None None) []) = PatchDefs.create_array /\
  reify St (T id (mkRD c_cJSON_NULL None 0 dzero None None) []) = MergeDefs.mp_CreateNull.
Proof. done. Qed.
Theorem bridge_create_string St id b (s : bytes) :
  St !! b = Some (s ++ [0]) -> SortSpec.zfree s ->
  reify St (T id (mkRD c_cJSON_String (Some b) 0 dzero None None) []) = PatchDefs.create_string s.
Proof.
  intros Hb Hz. rewrite reify_unfold. cbn [cstr_of rd_vstr rd_key rd_type rd_vint rd_vdbl map]. unfold bytes in *. rewrite Hb.
  cbn [fmap option_fmap option_map]. by rewrite cstr_app_zero.
Qed.

(** * 6. the member sort *)

(** [SortDefs.sort_spec] on the (identity, key) pairs of the members = [sort_children] on the members *)
Lemma sort_spec_children St flag cs :
  map fst (SortDefs.sort_spec flag (member_pairs St cs)) = tid <$> sort_children St flag cs.
Proof.
  unfold SortDefs.sort_spec, member_pairs, sort_children.
  rewrite (SortSpec.isort_map (fun c => (tid c, fkey St c)) (SortDefs.member_le flag) cs).
  rewrite map_map. cbn [fst]. rewrite map_fmap. f_equal.
Qed.

(** reifying the sorted members = the stable sort of the reified members by [vle] *)
Lemma reify_sort_children St flag cs :
  map (reify St) (sort_children St flag cs) = SortDefs.isort (vle flag) (map (reify St) cs).
Proof.
  rewrite SortSpec.isort_map. unfold sort_children. f_equal. apply SortSpec.isort_ext.
  intros a b. unfold tle, vle. by rewrite !vkey_reify.
Qed.

(** a reordering of the members is determined by the order of their identities *)
Lemma same_ids_same_trees (cs cs1 : list tree) : forall cs2,
  NoDup (tid <$> cs) -> cs1 ⊆ cs -> cs2 ⊆ cs -> tid <$> cs1 = tid <$> cs2 -> cs1 = cs2.
Proof.
  induction cs1 as [|a r IH]; intros [|b r2] ND H1 H2 E; try done.
  rewrite !fmap_cons in E. injection E as Eab Er.
  assert (a = b) as ->.
  { apply (NoDup_fmap_inj_on tid cs a b ND); [apply H1; by left|apply H2; by left|done]. }
  f_equal. apply IH; [done| | |done].
  - intros z Hz. apply H1. by right.
  - intros z Hz. apply H2. by right.
Qed.

Section SortBridge.
  Context (St : gmap positive bytes) (F : forest) (p : positive) (d : rdata) (cs : list tree).
  Hypothesis ND : NoDup (ids F).
  Hypothesis Hp : find_tree p F = Some (T p d cs).
  Hypothesis Hkeys : Forall (has_key St) cs.
  Notation obj := (reify St (T p d cs)).

  (** C19 determines the children identities after the heap-level [sort_object]:
      [map fst (sort_spec flag (pairs before))]; [cs'] = the same member subtrees in that order *)
  Theorem bridge_sort (flag : bool) cs' :
    cs' ≡ₚ cs -> tid <$> cs' = map fst (SortDefs.sort_spec flag (member_pairs St cs)) ->
    cs' = sort_children St flag cs /\
    PatchDefs.sort_object obj flag = Ok (reify St (T p d cs')) /\
    MergeDefs.mp_sort_object obj flag = Ok (reify St (T p d cs')) /\
    MergeDefs.mp_sort_members flag (Tree.n_children obj) = Ok (map (reify St) cs') /\
    PatchDefs.sort_list (S (length (Tree.n_children obj))) (Tree.n_children obj) flag = Ok (map (reify St) cs') /\
    reify St <$> find_tree p (set_children p cs' F) = Some (reify St (T p d cs')).
  Proof.
    intros Hperm Hids.
    assert (E : cs' = sort_children St flag cs).
    { apply (same_ids_same_trees cs); [by eapply children_ids_NoDup| | |by rewrite Hids, sort_spec_children].
      - intros z Hz. by rewrite <- Hperm.
      - intros z Hz. unfold sort_children in Hz. by rewrite SortSpec.isort_perm in Hz. }
    assert (Hk : Forall keyed (Tree.n_children obj)).
    { rewrite reify_children. cbn [tchildren]. by apply Forall_reify_keyed. }
    assert (Hc : Tree.n_children obj = map (reify St) cs) by (by rewrite reify_children).
    assert (Hs : SortDefs.isort (vle flag) (Tree.n_children obj) = map (reify St) cs').
    { by rewrite Hc, E, reify_sort_children. }
    split; [done|]. split_and!.
    - rewrite patch_sort_object_isort by done. by rewrite Hs.
    - rewrite mp_sort_object_isort by done. by rewrite Hs.
    - rewrite mp_sort_members_isort by done. by rewrite Hs.
    - rewrite patch_sort_list_isort; [by rewrite Hs|lia|done].
    - by rewrite (find_tree_set_children p d cs _ F Hp).
  Qed.
End SortBridge.

(** * 7. the Tier-B models call exactly these primitives *)
(** PatchDefs.v writes the primitives inline; the two functions that edit the document are, literally, the
    control flow below around the [v_*] primitives of TierBridgeDefs.v *)
Theorem detach_path_uses object path cs :
  PatchDefs.detach_path object path cs =
  match PatchDefs.last_slash path 0 None with
  | None => Ok None
  | Some i =>
      let child_raw := skipn (S i) path in
      match PointerDefs.get_item_from_pointer object (firstn i path) cs with
      | None => Ok None
      | Some pp =>
          match Tree.subtree object pp with
          | None => Ok None
          | Some par =>
              if Tree.is_array par then
                match PointerDefs.decode_array_index_from_pointer child_raw with
                | None => Ok None
                | Some idx =>
                    Ok (match v_detach_from_array par idx with
                        | None => None
                        | Some (it, par') => Some (it, PatchDefs.put_subtree object pp par')
                        end)
                end
              else if Tree.is_object par then
                buf <- PatchDefs.decode_pointer_inplace (child_raw ++ [0]) ;;
                Ok (match v_detach_from_object par (cstr buf) cs with
                    | None => None
                    | Some (it, par') => Some (it, PatchDefs.put_subtree object pp par')
                    end)
              else Ok None
          end
      end
  end.
Proof.
  unfold PatchDefs.detach_path. destruct (PatchDefs.last_slash path 0 None) as [i|]; [|done]. cbv zeta.
  destruct (PointerDefs.get_item_from_pointer object (firstn i path) cs) as [pp|]; [|done].
  destruct (Tree.subtree object pp) as [par|]; [|done].
  destruct (Tree.is_array par).
  - destruct (PointerDefs.decode_array_index_from_pointer (skipn (S i) path)) as [idx|]; [|done].
    unfold v_detach_from_array. by destruct (PointerDefs.nth_z (Tree.n_children par) idx).
  - destruct (Tree.is_object par); [|done].
    destruct (PatchDefs.decode_pointer_inplace (skipn (S i) path ++ [0])) as [buf| |]; cbn [bind]; [|done|done].
    unfold v_detach_from_object. by destruct (CompareDefs.get_object_item par (Some (cstr buf)) cs) as [[j it]|].
Qed.

Lemma v_delete_then_add par child value cs :
  v_add_to_object (v_delete_from_object par child cs) child value =
  PatchDefs.set_children par (v_delete_members par child cs ++ [PatchDefs.keyed value child]).
Proof. unfold v_add_to_object, v_delete_from_object. by destruct par. Qed.

Theorem finish_add_uses object value pstr cs :
  PatchDefs.finish_add object value pstr cs =
  match pstr with
  | [] => Ok (0, PatchDefs.unnamed value)       (* overwrite_item: deviation D2, no core primitive *)
  | _ =>
      match PatchDefs.last_slash pstr 0 None with
      | None => Ok (9, object)
      | Some i =>
          let child_raw := skipn (S i) pstr in
          match PointerDefs.get_item_from_pointer object (firstn i pstr) cs with
          | None => Ok (9, object)
          | Some pp =>
              match Tree.subtree object pp with
              | None => Ok (9, object)
              | Some par =>
                  if Tree.is_array par then
                    if strcmp child_raw PatchDefs.s_dash =? 0 then
                      Ok (0, PatchDefs.put_subtree object pp (v_add_to_array par value))
                    else
                      match PointerDefs.decode_array_index_from_pointer child_raw with
                      | None => Ok (11, object)
                      | Some idx =>
                          match v_insert_in_array par idx value with
                          | None => Ok (10, object)
                          | Some par' => Ok (0, PatchDefs.put_subtree object pp par')
                          end
                      end
                  else if Tree.is_object par then
                    buf <- PatchDefs.decode_pointer_inplace (child_raw ++ [0]) ;;
                    Ok (0, PatchDefs.put_subtree object pp
                             (v_add_to_object (v_delete_from_object par (cstr buf) cs) (cstr buf) value))
                  else Ok (9, object)
              end
          end
      end
  end.
Proof.
  unfold PatchDefs.finish_add. destruct pstr as [|c0 pstr0]; [done|]. set (pstr := c0 :: pstr0).
  destruct (PatchDefs.last_slash pstr 0 None) as [i|]; [|done]. cbv zeta.
  destruct (PointerDefs.get_item_from_pointer object (firstn i pstr) cs) as [pp|]; [|done].
  destruct (Tree.subtree object pp) as [par|]; [|done].
  destruct (Tree.is_array par).
  - destruct (strcmp (skipn (S i) pstr) PatchDefs.s_dash =? 0); [done|].
    destruct (PointerDefs.decode_array_index_from_pointer (skipn (S i) pstr)) as [idx|]; [|done].
    unfold v_insert_in_array. by destruct (idx >? Z.of_nat (length (Tree.n_children par))).
  - destruct (Tree.is_object par); [|done].
    destruct (PatchDefs.decode_pointer_inplace (skipn (S i) pstr ++ [0])) as [buf| |]; cbn [bind]; [|done|done].
    by rewrite v_delete_then_add.
Qed.

(** compose_patch: cJSON_CreateObject, three cJSON_AddItemToObject (the third with a duplicate of the
    value; a NULL item adds nothing), cJSON_AddItemToArray *)
Theorem compose_patch_uses patches operation path suffix value :
  PatchDefs.compose_patch patches operation path suffix value =
  let full_path := match suffix with
                   | None => path
                   | Some sfx => path ++ [47] ++ PointerDefs.encode_string_as_pointer sfx
                   end in
  let o1 := v_add_to_object PatchDefs.create_object PatchDefs.s_op (PatchDefs.create_string operation) in
  let o2 := v_add_to_object o1 PatchDefs.s_path (PatchDefs.create_string full_path) in
  let o3 := match value with
            | None => o2
            | Some v => match PatchDefs.cJSON_Duplicate v with
                        | Some dv => v_add_to_object o2 PatchDefs.s_value dv
                        | None => o2
                        end
            end in
  patches ++ [o3].
Proof.
  unfold PatchDefs.compose_patch. cbv zeta. destruct value as [v|]; [|done].
  by destruct (PatchDefs.cJSON_Duplicate v).
Qed.
