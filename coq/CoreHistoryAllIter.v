(** CoreHistoryAllIter.v — ITERATION order (C06_queries): the macro cJSON_ArrayForEach(element, array)
    — [CoreOps.array_for_each]: start at [array->child], follow [next] until NULL — visits exactly
    the children list of the list model, in order.  The observable of a visit is the element's
    type word (as in the correspondence check); [array_for_each_ids] gives the identities. *)
From CJ Require Import Base Dbl Heap Forest ForestLemmas CoreSpec CoreDefs CoreOps CoreRefineBase CoreRefine
  CoreRefineObject.
From stdpp Require Import gmap.
Implicit Types (h : heap) (F : forest) (d : rdata).

Lemma array_for_each_loop_sim h F p d cs fuel (k : nat) :
  WF h F -> find_tree p F = Some (T p d cs) -> length cs - k < fuel ->
  array_for_each_loop fuel ((tid <$> cs) !! k) h = Ret ((fun c => rd_type (tdata c)) <$> drop k cs, h).
Proof.
  intros W Hp. pose proof (find_tree_flat _ _ _ _ Hp) as Hn. apply find_tree_Some in Hp as [Hpn _].
  revert k. induction fuel as [|fuel IH]; intros k Hf; [lia|].
  cbn [array_for_each_loop]. rewrite list_lookup_fmap. destruct (cs !! k) as [c|] eqn:Hk; cbn [fmap option_fmap option_map is_null].
  - assert (Hc : c ∈ nodes F) by (eapply child_in_nodes; [exact Hpn|cbn; by eapply elem_of_list_lookup_2]).
    assert (Hcf : (tid c, tdata c, cids c) ∈ flat F) by (apply (elem_of_flat _ _ Hc)).
    assert (Hcl : tid c ∈ h_live h).
    { apply (WF_ids_live _ _ _ W). rewrite ids_flat. apply elem_of_list_fmap. by exists (tid c, tdata c, cids c). }
    rewrite (bindM_Ret _ _ _ _ _ (run_get_type_plain _ _ _ Hcl (WF_lookup_dat _ _ _ _ _ W Hcf))).
    assert (Hkk : (tid <$> cs) !! k = Some (tid c)) by (by rewrite list_lookup_fmap, Hk).
    rewrite (bindM_Ret _ _ _ _ _ (chain_get_next _ _ _ _ _ _ _ W Hn Hkk)).
    apply lookup_lt_Some in Hk as Hlt. rewrite (bindM_Ret _ _ _ _ _ (IH (S k) ltac:(lia))).
    rewrite (drop_S _ _ _ Hk). reflexivity.
  - apply lookup_ge_None in Hk. rewrite drop_ge by lia. reflexivity.
Qed.

Theorem array_for_each_sim h F p d cs :
  WF h F -> find_tree p F = Some (T p d cs) -> is_ref d = false ->
  array_for_each (Some p) h = Ret ((fun c => rd_type (tdata c)) <$> cs, h).
Proof.
  intros W Hp Href. pose proof (find_tree_flat _ _ _ _ Hp) as Hn.
  unfold array_for_each. cbn [is_null negb].
  assert (Hl : p ∈ h_live h).
  { apply (WF_ids_live _ _ _ W). rewrite ids_flat. apply elem_of_list_fmap. by exists (p, d, tid <$> cs). }
  rewrite (bindM_Ret _ _ _ _ _ (run_get_child_plain _ _ _ Hl (WF_lookup_dat _ _ _ _ _ W Hn))).
  change (nd_child (mk_dat d (tid <$> cs))) with (child_of d (tid <$> cs)).
  rewrite (ref_ok_child_of _ _ _ _ (wf_ref _ _ W) Hn Href).
  unfold heap_fuel. cbn [bindM]. rewrite (array_for_each_loop_sim h F p d cs _ 0 W Hp).
  - by rewrite drop_0.
  - pose proof (chain_fuel _ _ _ _ _ W Hn). rewrite fmap_length in H. lia.
Qed.

(** the elements visited, as identities: the [k]-th visit is at the [k]-th child *)
Lemma array_for_each_ids h F p d cs (k : nat) c :
  WF h F -> find_tree p F = Some (T p d cs) -> (tid <$> cs) !! k = Some c ->
  get_next (Some c) h = Ret ((tid <$> cs) !! S k, h).
Proof. intros W Hp Hk. by apply (chain_get_next h F p d _ k c W (find_tree_flat _ _ _ _ Hp)). Qed.
