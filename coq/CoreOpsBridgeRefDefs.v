(** CoreOpsBridgeRefDefs.v — READ-ONLY QUERIES THROUGH REFERENCE NODES in the list model and in the
    acceptance checker of the EXTRACTED interpreter (definitions only; proofs in CoreOpsBridgeRefSim.v /
    CoreOpsBridgeRefHist.v, non-vacuity in CoreOpsBridgeRefEx.v).

    A reference node (cJSON_CreateObjectReference / cJSON_CreateArrayReference /
    cJSON_AddItemReferenceTo…) has no children of its own; its [child] field is the BORROWED pointer
    recorded in [rd_ref]: the identity [c] of an element of ANOTHER tree.  The queries
    cJSON_GetArraySize, cJSON_GetArrayItem, cJSON_GetObjectItem[CaseSensitive], cJSON_HasObjectItem and the
    caller's loop cJSON_ArrayForEach start at [child] and follow [next]: through a reference node they
    read [c] and its following siblings AS THEY ARE NOW.

    * [ref_chain F a]: the list-model answer to "what does the reference node [a] denote now" —
      [CoreRefineDupUnroll.chain_from F c]: when [c] is (still) the [j]-th child of a node of the
      forest, the children of that node from position [j] on (for [j = 0]: all the CURRENT children
      of the container, so items appended later are visible); when [c] has been detached and is a
      root, [c] alone (a detached item has no sibling links).  It is DEFINED exactly when the read
      is safe: [c] is a node of the model's forest, i.e. its block has not been released (block
      identities are never reused).  Once [c] has been released (cJSON_Delete of the referenced tree,
      cJSON_DeleteItemFrom…, a replace of [c]) the borrowed pointer dangles and [ref_chain] is [None]:
      the checker rejects the query.  A reference node without child pointer denotes the empty chain;
    * [ref_answer S m]: the list model of the query [m] on a reference node: size = length of the
      chain, index [k] = its [k]-th element, by key = first match in the chain (both case modes);
    * [stepQ]: acceptance, result and next pools of such a query in the syntax of the extracted
      interpreter (the caller strings the call declares are added to the state as before);
    * [stepRR] / [runRR] / [accepted_rulesR]: [stepRD] (CoreOpsBridgeDupDefs.v) extended by [stepQ] — a
      step that [stepRD] accepts is decided by [stepRD]; [accepted_rulesR] is what the extracted driver
      evaluates to decide whether a generated history falls under [C06_history_extractedR]. *)
From CJ Require Import Base Dbl Heap Forest CoreSpec CoreDefs CoreRefineHistory CoreRefineHistoryObj CoreRefineHistoryObjEx
  CoreRefineDupUnroll CoreHistoryAllSteps CoreHistoryAll CoreOpsBridge CoreOpsBridgeHist CoreOpsBridgeOwned
  CoreOpsBridgeDupDefs.
From CJ Require CoreOps.
From CJ.gen Require Import Constants.
From stdpp Require Import gmap.
Local Open Scope Z_scope.

(** * what a reference node denotes *)
Definition ref_chain (F : forest) (a : ptr) : option (list tree) :=
  match a with
  | Some p =>
      match find_tree p F with
      | Some (T _ d []) =>
          if is_ref d then
            match rd_ref d with
            | None => Some []
            | Some c => if bool_decide (c ∈ ids F) then Some (chain_from F c) else None
            end
          else None
      | _ => None
      end
  | None => None
  end.

(** the C string of a readable name *)
Definition name_str (S : astate2) (n : ptr) : option bytes :=
  match n with
  | Some nb => match a_str S !! nb with Some s => if has0 s then Some (cstr s) else None | None => None end
  | None => None
  end.

Definition find_key (case_sensitive : bool) (strs : gmap positive bytes) (name : bytes) (us : list tree) : ptr :=
  if case_sensitive then find_key_cs strs name us else find_key_ci strs name us.

(** * the list model of a query on a reference node *)
Definition ref_answer (S : astate2) (m : op3) : option res3 :=
  let F := a_forest S in
  match m with
  | O2 (OArr (OSize a)) =>
      match ref_chain F a with Some us => Some (R (RInt (Z.of_nat (length us)))) | None => None end
  | O2 (OArr (OGet a i)) =>
      match ref_chain F a with
      | Some us => Some (R (RPtr (if i <? 0 then None else (tid <$> us) !! Z.to_nat i)))
      | None => None
      end
  | O2 (OGetKey ob n cs) =>
      match ref_chain F ob, name_str S n with
      | Some us, Some name => Some (R (RPtr (find_key cs (a_str S) name us)))
      | _, _ => None
      end
  | OHasObjectItem ob n =>
      match ref_chain F ob, name_str S n with
      | Some us, Some name => Some (R (RBool (negb (is_null (find_key false (a_str S) name us)))))
      | _, _ => None
      end
  | _ => None
  end.

(** what the caller's loop reports: the type words of the elements of the chain, in order *)
Definition chain_types (us : list tree) : list Z := (fun c => rd_type (tdata c)) <$> us.

(** * one query through a reference node, in the syntax of the extracted interpreter *)
Definition stepQ (st : CoreOps.state) (S : astate2) (o : CoreOps.op) : option (CoreOps.result * CoreOps.state * astate2) :=
  match tr (sview S) st o with
  | None => None
  | Some t =>
      let S1 := spec_run3 S ((fun c => O2 (OForeign c)) <$> t_pre t) in     (* the declared caller strings *)
      match t_main t with
      | None =>
          match t_kind t with
          | KEach a =>
              match ref_chain (a_forest S1) a with
              | Some us => Some (CoreOps.RInts (chain_types us), sweepS S1 (t_st t), S1)
              | None => None
              end
          | _ => None
          end
      | Some m =>
          match t_kind t with
          | KPush | KFlag | KInt =>
              match ref_answer S1 m with
              | Some r => Some (enc (t_kind t) r, sweepS S1 (new_pools (t_kind t) (t_st t) r), S1)
              | None => None
              end
          | _ => None
          end
      end
  end.

(** * acceptance, extended by the queries through reference nodes *)
Definition stepRR (st : CoreOps.state) (S : astate2) (o : CoreOps.op) : option (CoreOps.result * CoreOps.state * astate2) :=
  match stepRD st S o with
  | Some y => Some y
  | None => stepQ st S o
  end.

Fixpoint runRR (st : CoreOps.state) (S : astate2) (ops : list CoreOps.op) : option (list CoreOps.result * CoreOps.state * astate2) :=
  match ops with
  | [] => Some ([], st, S)
  | o :: r =>
      match stepRR st S o with
      | Some (x, st1, S1) =>
          match runRR st1 S1 r with
          | Some (xs, st2, S2) => Some (x :: xs, st2, S2)
          | None => None
          end
      | None => None
      end
  end.

(** ACCEPTED (rules only, duplicate calls and queries through reference nodes included) *)
Definition accepted_rulesR (ops : list CoreOps.op) : bool :=
  match runRR CoreOps.empty_state S0 ops with Some _ => true | None => false end.
