(** CoreHistoryFailSteps.v — the STEP lemmas of the history theorem under an ARBITRARY allocation
    oracle [o : nat -> bool] (request number [k] is refused iff [o k = true]).

    [CoreHistoryAllSteps.Step m S S' r] ("from every heap that represents [S] the computation [m]
    returns [r] — never an error outcome — in a heap that represents [S']") does not mention the
    oracle, so steps for different oracles compose with the same [Step_bind].  What changes is the
    LIST MODEL of the pieces that allocate: the abstract state carries the request counter
    [req S] (= [h_req] of every heap that represents it), so the model can say WHICH branch the
    code takes: the piece is refused iff [o] is [true] at one of the request numbers it uses.

    Every model piece here has the shape

        if (the oracle refuses the request the code is about to make) then
          (the state with ONLY the allocator counters advanced, failure value)
        else (the model piece of CoreHistoryAllSteps / CoreHistoryAll for the never-failing allocator)

    * [Abs2_clean], [Step_clean]: a [clean_failure] keeps the representation, for the SAME forest,
      string heap and caller blocks; only the two counters move;
    * pieces: the alphabet [op2] for every oracle ([Step_op2o], [Step_refused2o]); one-request
      constructors ([Step_ctor1o]), [create_reference], [create_string_like] (two requests; the
      node is released again when the copy is refused), [cJSON_SetValuestring] (growing),
      [replace_item_in_object] (the copy of the name), the composite "add or delete again". *)
From CJ Require Import Base Dbl Heap Forest ForestLemmas CoreSpec CoreDefs CoreRefineBase CoreRefine
  CoreRefineDelete CoreRefineReplace CoreRefineMore CoreRefineFrame CoreRefineHistory CoreRefineObject
  CoreRefineByKey CoreRefineAddObject CoreRefineHistoryObj CoreRefineHistoryObjEx CoreRefineReplaceKey
  CoreRefineReplaceKeyAbs CoreRefineCreate CoreRefineSet CoreRefineRef CoreRefineArray CoreLedgerGen CoreHistoryAllSteps
  CoreHistoryAllArr CoreHistoryAllArrStep CoreHistoryAllNull CoreHistoryAll.
From CJ.gen Require Import Constants.
From Coq Require Import Floats.SpecFloat.
From stdpp Require Import gmap.
Implicit Types (h : heap) (F : forest) (d : rdata).
Local Open Scope Z_scope.

(** * states that differ from [S] in the allocator counters only *)
Definition with_counters (S : astate2) (nx : positive) (rq : nat) : astate2 :=
  mk3 (a_forest S) nx rq (a_str S) (a_foreign S).
(** one refused request and nothing else *)
Definition bumped (S : astate2) : astate2 := with_counters S (nxt S) (Datatypes.S (req S)).

Lemma Abs3_counters h S : Abs3 h S -> h_next h = nxt S /\ h_req h = req S.
Proof. intros [((_ & _ & H1 & H2) & _) _]. done. Qed.

(** a clean failure keeps the representation: same forest, same strings, same caller blocks *)
Lemma Abs2_clean h h' S :
  Abs3 h S -> Cons_post h h' -> clean_failure h h' ->
  Abs2 h' (with_counters S (h_next h') (h_req h')).
Proof.
  intros HA CP CF. pose proof HA as [HA2 K]. pose proof HA2 as ((W & NL & Hnext & Hreq) & Hs & [SI1 SI2] & KO).
  apply (Abs2_build h); try done.
  - by apply (clean_failure_WF h).
  - by apply (clean_failure_NoLeak h); [apply K|..].
  - apply map_eq. intros b. destruct (Pos.ltb_spec b (h_next h)) as [Hb|Hb].
    + rewrite (cf_str _ _ CF b Hb). by rewrite Hs.
    + destruct (h_str h' !! b) as [s|] eqn:E.
      * destruct (hk_str _ (cp_ok _ _ CP) b ltac:(eauto)) as [Hl _]. rewrite (cf_live _ _ CF) in Hl.
        pose proof (hk_live _ K b Hl). lia.
      * destruct (a_str S !! b) as [s|] eqn:E'; [|done]. destruct (SI1 _ _ E') as [_ Hlt]. lia.
Qed.

Lemma Step_clean {A} (m : M A) S (r : A) nx rq :
  Cons m ->
  (forall h, Abs3 h S -> exists h', m h = Ret (r, h') /\ clean_failure h h' /\ h_next h' = nx /\ h_req h' = rq) ->
  Step m S (with_counters S nx rq) r.
Proof.
  intros C H. apply Step_intro; [done|]. intros h HA. destruct (H h HA) as (h' & E & CF & <- & <-).
  exists h'. split; [done|]. apply (Abs2_clean h); [done| |done]. apply (C _ _ _ E (proj2 HA)).
Qed.

(** the refused request: [bump] *)
Lemma Step_bump {A} (m : M A) S (r : A) :
  Cons m -> (forall h, Abs3 h S -> m h = Ret (r, bump h)) -> Step m S (bumped S) r.
Proof.
  intros C H. apply Step_clean; [done|]. intros h HA. destruct (Abs3_counters _ _ HA) as [Hn Hq].
  exists (bump h). split; [by apply H|]. split; [apply clean_failure_bump|]. cbn. by rewrite Hn, Hq.
Qed.

(** * the first refused request among [n] requests numbered from [a] *)
Fixpoint first_refusal (o : nat -> bool) (a n : nat) : option nat :=
  match n with
  | O => None
  | Datatypes.S n' => if o a then Some a else first_refusal o (Datatypes.S a) n'
  end.
Lemma first_refusal_None o n : forall a, first_refusal o a n = None <-> forall k, (a <= k < a + n)%nat -> o k = false.
Proof.
  induction n as [|n IH]; intros a; cbn [first_refusal]; [split; [intros _ k Hk; lia|done]|].
  destruct (o a) eqn:Ha.
  - split; [done|]. intros H. rewrite H in Ha; [done|lia].
  - rewrite IH. split; intros H k Hk.
    + destruct (decide (k = a)) as [->|Hne]; [done|]. apply H. lia.
    + apply H. lia.
Qed.
Lemma first_refusal_Some o n : forall a j, first_refusal o a n = Some j <->
  (a <= j < a + n)%nat /\ o j = true /\ forall k, (a <= k < j)%nat -> o k = false.
Proof.
  induction n as [|n IH]; intros a j; cbn [first_refusal]; [split; [done|lia]|].
  destruct (o a) eqn:Ha.
  - split.
    + intros [= <-]. split; [lia|]. split; [done|]. intros k Hk. lia.
    + intros (H1 & H2 & H3). f_equal. destruct (decide (a = j)) as [|Hne]; [done|]. rewrite H3 in Ha; [done|lia].
  - rewrite IH. split; intros (H1 & H2 & H3).
    + split; [lia|]. split; [done|]. intros k Hk. destruct (decide (k = a)) as [->|Hne]; [done|]. apply H3. lia.
    + assert (a <> j) by (intros ->; congruence). split; [lia|]. split; [done|]. intros k Hk. apply H3. lia.
Qed.
Lemma first_refusal_never a n : first_refusal nv a n = None.
Proof. by apply first_refusal_None. Qed.

(** the state after a call that was refused at request [j]: ONLY the allocator counters moved —
    [j + 1] requests have been made in all, each granted one handed out one identity *)
Definition pos_add (p : positive) (n : nat) : positive := Pos.of_nat (Pos.to_nat p + n).
Definition refused_state (S : astate2) (j : nat) : astate2 :=
  with_counters S (pos_add (nxt S) (j - req S)) (Datatypes.S j).

Section Steps.
  Variable o : nat -> bool.

  (** * the alphabet [op2] *)
  Lemma Step_op2o S op : pre_ok2 S op -> Step (run_op2 o op) S (spec_step2 o S op).1 (spec_step2 o S op).2.
  Proof. intros Hpre. apply Step_intro; [apply Cons_run_op2|]. intros h [HA _]. by apply step_sim2. Qed.

  (** calls of [op2] that never ask the allocator *)
  Definition op2_allocates (op : op2) : bool :=
    match op with OArr (OCreate _) | OAddObj _ _ _ _ => true | _ => false end.
  Lemma run_op2_noalloc op : op2_allocates op = false -> run_op2 o op = run_op2 nv op.
  Proof. destruct op as [[]| | | | |]; done. Qed.
  Lemma spec_step2_noalloc S op : op2_allocates op = false -> spec_step2 o S op = spec_step2 nv S op.
  Proof. destruct op as [[]| | | | |]; done. Qed.
  Lemma refused2_noalloc S op : refused2 S op -> op2_allocates op = false.
  Proof. destruct op as [[]| | | | |]; done. Qed.

  Lemma Step_refused2o S op : refused2 S op -> Step (run_op2 o op) S (spec_step2 o S op).1 (spec_step2 o S op).2.
  Proof.
    intros Href. pose proof (refused2_noalloc _ _ Href) as Hn.
    rewrite (run_op2_noalloc _ Hn), (spec_step2_noalloc _ _ Hn). by apply Step_refused2.
  Qed.

  (** * constructors that make one request *)
  Definition spec_new_node_o (S : astate2) (d : rdata) : astate2 * ptr :=
    if o (req S) then (bumped S, None) else spec_new_node S d.

  Lemma Step_ctor1o (m : M ptr) S d :
    Cons m -> rd_key d = None ->
    (forall h, WF h (a_forest S) -> live_below h -> ctor1_post o m h (a_forest S) d) ->
    Step m S (spec_new_node_o S d).1 (spec_new_node_o S d).2.
  Proof.
    intros C Hk Hm. unfold spec_new_node_o. destruct (o (req S)) eqn:Ho; cbn [fst snd].
    - apply Step_bump; [done|]. intros h HA. pose proof HA as [HA2 K]. pose proof HA2 as ((W & _) & _).
      destruct (Hm h W (hk_live _ K)) as [(Ho' & _)|(_ & E & _)]; [|done].
      destruct (Abs3_counters _ _ HA) as [_ Hq]. congruence.
    - apply Step_intro; [done|]. intros h HA. pose proof HA as [HA2 K].
      pose proof HA2 as ((W & NL & Hnext & Hreq) & Hs & [SI1 SI2] & KO).
      destruct (Hm h W (hk_live _ K)) as [(_ & E & W' & _ & NL')|(Ho' & _)].
      2:{ destruct (Abs3_counters _ _ HA) as [_ Hq]. congruence. }
      exists (new_node h d). unfold spec_new_node, nxt, req. cbn [fst snd]. rewrite <- Hnext, <- Hreq.
      split; [exact E|].
      change (Pos.succ (h_next h)) with (h_next (new_node h d)).
      change (Datatypes.S (h_req h)) with (h_req (new_node h d)).
      apply (Abs2_build h); try done.
      + apply (C _ _ _ E K).
      + by apply NL'.
      + intros e b He Hb. rewrite datas_spec_create in He. apply elem_of_app in He as [He|He].
        * by apply KO.
        * apply elem_of_list_singleton in He as ->. cbn in Hb. congruence.
  Qed.

  Lemma Step_CreateNumber_o S n :
    Step (cJSON_CreateNumber o n) S (spec_new_node_o S (rd_number n)).1 (spec_new_node_o S (rd_number n)).2.
  Proof. apply Step_ctor1o; [auto with cons|done|]. intros h W LB. by apply cJSON_CreateNumber_sim. Qed.
  Lemma Step_CreateStringReference_o S s :
    Step (cJSON_CreateStringReference o s) S (spec_new_node_o S (rd_string_ref s)).1 (spec_new_node_o S (rd_string_ref s)).2.
  Proof. apply Step_ctor1o; [auto with cons|done|]. intros h W LB. by apply cJSON_CreateStringReference_sim. Qed.
  Lemma Step_CreateObjectReference_o S c :
    Step (cJSON_CreateObjectReference o c) S (spec_new_node_o S (rd_container_ref c_cJSON_Object c)).1
         (spec_new_node_o S (rd_container_ref c_cJSON_Object c)).2.
  Proof. apply Step_ctor1o; [auto with cons|done|]. intros h W LB. by apply cJSON_CreateObjectReference_sim. Qed.
  Lemma Step_CreateArrayReference_o S c :
    Step (cJSON_CreateArrayReference o c) S (spec_new_node_o S (rd_container_ref c_cJSON_Array c)).1
         (spec_new_node_o S (rd_container_ref c_cJSON_Array c)).2.
  Proof. apply Step_ctor1o; [auto with cons|done|]. intros h W LB. by apply cJSON_CreateArrayReference_sim. Qed.

  (** [create_reference] *)
  Definition spec_create_ref_o (S : astate2) (item : ptr) : astate2 * ptr :=
    match item with
    | Some y => match find_tree y (a_forest S) with
                | Some n => spec_new_node_o S (rd_reference (tdata n) (cids n))
                | None => (S, None)
                end
    | None => (S, None)
    end.
  Lemma Step_create_reference_o S item :
    ref_target S item -> Step (create_reference o item) S (spec_create_ref_o S item).1 (spec_create_ref_o S item).2.
  Proof.
    intros [->|(y & -> & [n Hn])]; [apply Step_ret|]. unfold spec_create_ref_o. rewrite Hn.
    apply Step_ctor1o; [auto with cons|done|]. intros h W LB. apply create_reference_sim; [done..|].
    apply find_tree_Some in Hn as [Hn <-]. apply (elem_of_flat _ _ Hn).
  Qed.

  (** * cJSON_CreateString / cJSON_CreateRaw: the node, then the copy; every exit with its heap *)
  Lemma csl_run_fail1 ty sb h : o (h_req h) = true -> create_string_like o ty sb h = Ret (None, bump h).
  Proof.
    intros Ho. unfold create_string_like, cJSON_New_Item.
    by rewrite (bindM_Ret _ _ _ _ _ (run_alloc_node_fail _ _ Ho)).
  Qed.

  Lemma csl_run_null ty h :
    maps_below h -> live_below h -> o (h_req h) = false ->
    create_string_like o ty None h = Ret (None, free1 (h_next h) (new_node h (rd_of_type ty))) /\
    clean_failure h (free1 (h_next h) (new_node h (rd_of_type ty))).
  Proof.
    intros MB LB Ho. unfold create_string_like, cJSON_New_Item.
    rewrite (bindM_Ret _ _ _ _ _ (run_alloc_node_ok o _ Ho)). cbn [is_null].
    rewrite (bindM_Ret _ _ _ _ _ (run_set_type_plain _ _ _ ty (new_node_live _ _) (new_node_dat _ _))).
    rewrite (new_node_set h _ _ (rd_of_type ty)) by reflexivity.
    set (h1 := new_node h (rd_of_type ty)).
    rewrite (bindM_Ret _ _ _ _ _ (CoreRefineCreate.cJSON_strdup_null o h1)). unfold h1.
    rewrite (bindM_Ret _ _ _ _ _ (run_set_vstr_plain _ _ _ None (new_node_live _ _) (new_node_dat _ _))).
    rewrite (new_node_set h _ _ (rd_of_type ty)) by reflexivity.
    rewrite (bindM_Ret _ _ _ _ _ (run_get_vstr_plain _ _ _ (new_node_live _ _) (new_node_dat _ _))).
    cbn [nd_vstr mk_dat rd_vstr rd_of_type is_null].
    destruct (cJSON_Delete_new_node' h (rd_of_type ty) _ MB LB (owned_strs_of_type ty) ltac:(done) (or_introl eq_refl)) as [Hdel Hcf].
    rewrite (bindM_Ret _ _ _ _ _ Hdel). done.
  Qed.

  Lemma csl_run_fail2 ty h sb :
    maps_below h -> live_below h -> CoreRefineCreate.Readable h sb -> o (h_req h) = false -> o (Datatypes.S (h_req h)) = true ->
    create_string_like o ty (Some sb) h = Ret (None, free1 (h_next h) (bump (new_node h (rd_of_type ty)))) /\
    clean_failure h (free1 (h_next h) (bump (new_node h (rd_of_type ty)))).
  Proof.
    intros MB LB HR Ho Ho2. unfold create_string_like, cJSON_New_Item.
    rewrite (bindM_Ret _ _ _ _ _ (run_alloc_node_ok _ _ Ho)). cbn [is_null].
    rewrite (bindM_Ret _ _ _ _ _ (run_set_type_plain _ _ _ ty (new_node_live _ _) (new_node_dat _ _))).
    rewrite (new_node_set h _ _ (rd_of_type ty)) by reflexivity.
    set (h1 := new_node h (rd_of_type ty)).
    assert (HR1 : CoreRefineCreate.Readable h1 sb) by (by apply Readable_new_node).
    assert (Ho2' : o (h_req h1) = true) by done.
    rewrite (bindM_Ret _ _ _ _ _ (CoreRefineCreate.cJSON_strdup_fail o _ _ HR1 Ho2')).
    assert (Hl : h_next h ∈ h_live (bump h1)) by (cbn; set_solver).
    assert (Hd : h_dat (bump h1) !! h_next h = Some (mk_dat (rd_of_type ty) [])) by (cbn; by rewrite lookup_insert).
    rewrite (bindM_Ret _ _ _ _ _ (run_set_vstr_plain _ _ _ None Hl Hd)).
    assert (Heq : set_dat (bump h1) (<[h_next h := nd_set_vstr (mk_dat (rd_of_type ty) []) None]> (h_dat (bump h1))) = bump h1).
    { unfold set_dat, upd_maps, bump, h1, new_node. cbn. f_equal. by rewrite insert_insert. }
    rewrite Heq. rewrite (bindM_Ret _ _ _ _ _ (run_get_vstr_plain _ _ _ Hl Hd)). cbn [nd_vstr mk_dat rd_vstr rd_of_type is_null].
    destruct (cJSON_Delete_new_node' h (rd_of_type ty) (bump h1) MB LB (owned_strs_of_type ty) ltac:(done) (or_intror eq_refl)) as [Hdel Hcf].
    rewrite (bindM_Ret _ _ _ _ _ Hdel). done.
  Qed.

  Lemma csl_run_ok ty h sb :
    CoreRefineCreate.Readable h sb -> o (h_req h) = false -> o (Datatypes.S (h_req h)) = false ->
    create_string_like o ty (Some sb) h = Ret (Some (h_next h), new_string h ty (str_at h sb ++ [0%Z])).
  Proof.
    intros HR Ho Ho2. unfold create_string_like, cJSON_New_Item.
    rewrite (bindM_Ret _ _ _ _ _ (run_alloc_node_ok o h Ho)). cbn [is_null].
    rewrite (bindM_Ret _ _ _ _ _ (run_set_type_plain _ _ _ ty (new_node_live _ _) (new_node_dat _ _))).
    rewrite (new_node_set h _ _ (rd_of_type ty)) by reflexivity.
    set (h1 := new_node h (rd_of_type ty)).
    assert (HR1 : CoreRefineCreate.Readable h1 sb) by (by apply Readable_new_node).
    assert (Ho2' : o (h_req h1) = false) by done.
    rewrite (bindM_Ret _ _ _ _ _ (CoreRefineCreate.cJSON_strdup_ok o _ _ HR1 Ho2')).
    set (s := str_at h1 sb ++ [0%Z]). set (sid := h_next h1).
    assert (Hl : h_next h ∈ h_live (new_str h1 s)) by (cbn; set_solver).
    assert (Hd : h_dat (new_str h1 s) !! h_next h = Some (mk_dat (rd_of_type ty) [])) by (cbn; by rewrite lookup_insert).
    rewrite (bindM_Ret _ _ _ _ _ (run_set_vstr_plain _ _ _ (Some sid) Hl Hd)).
    assert (Heq : set_dat (new_str h1 s) (<[h_next h := nd_set_vstr (mk_dat (rd_of_type ty) []) (Some sid)]> (h_dat (new_str h1 s)))
                  = new_string h ty (str_at h sb ++ [0%Z])).
    { unfold set_dat, upd_maps, new_string, new_str, h1, new_node. cbn. f_equal. by rewrite insert_insert. }
    rewrite Heq.
    assert (Hl' : h_next h ∈ h_live (new_string h ty (str_at h sb ++ [0%Z]))) by (cbn; set_solver).
    assert (Hd' : h_dat (new_string h ty (str_at h sb ++ [0%Z])) !! h_next h = Some (mk_dat (rd_string ty (Pos.succ (h_next h))) []))
      by (cbn; by rewrite lookup_insert).
    rewrite (bindM_Ret _ _ _ _ _ (run_get_vstr_plain _ _ _ Hl' Hd')). reflexivity.
  Qed.

  Definition spec_new_string_o (S : astate2) (ty : Z) (sb : ptr) : astate2 * ptr :=
    match sb with
    | Some b =>
        match a_str S !! b with
        | Some s =>
            if o (req S) then (bumped S, None)
            else if o (Datatypes.S (req S)) then
              (with_counters S (Pos.succ (nxt S)) (Datatypes.S (Datatypes.S (req S))), None)   (* node allocated and released again *)
            else spec_new_string S ty sb
        | None => (S, None)
        end
    | None => if o (req S) then (bumped S, None) else spec_new_string S ty None
    end.

  Lemma Step_create_string_like_o S ty sb :
    Z.land ty c_cJSON_IsReference = 0 -> Z.land ty c_cJSON_StringIsConst = 0 -> sb = None \/ name_ok S sb ->
    Step (create_string_like o ty sb) S (spec_new_string_o S ty sb).1 (spec_new_string_o S ty sb).2.
  Proof.
    intros Hr Hc Hn.
    assert (Hfail1 : o (req S) = true -> Step (create_string_like o ty sb) S (bumped S) None).
    { intros Ho. apply Step_bump; [auto with cons|]. intros h HA. apply csl_run_fail1.
      destruct (Abs3_counters _ _ HA) as [_ Hq]. congruence. }
    destruct Hn as [->|Hn].
    { cbn [spec_new_string_o]. destruct (o (req S)) eqn:Ho; [by apply Hfail1|].
      cbn [spec_new_string fst snd].
      change (mk3 (a_forest S) (Pos.succ (nxt S)) (Datatypes.S (req S)) (a_str S) (a_foreign S))
        with (with_counters S (Pos.succ (nxt S)) (Datatypes.S (req S))).
      apply Step_clean; [auto with cons|]. intros h HA. pose proof HA as [((W & _) & _) K].
      destruct (Abs3_counters _ _ HA) as [Hnx Hq].
      destruct (csl_run_null ty h (WF_maps_below _ _ W) (hk_live _ K)) as [E Hcf]; [congruence|].
      eexists. split; [exact E|]. split; [exact Hcf|]. cbn. by rewrite Hnx, Hq. }
    pose proof Hn as (nb & s & -> & Hs1 & Hz). cbn [spec_new_string_o]. rewrite Hs1.
    destruct (o (req S)) eqn:Ho; [by apply Hfail1|].
    destruct (o (Datatypes.S (req S))) eqn:Ho2; cbn [fst snd].
    - apply Step_clean; [auto with cons|]. intros h HA. pose proof HA as [((W & _) & _) K].
      destruct (Abs3_counters _ _ HA) as [Hnx Hq].
      destruct (name_ok_Readable h S _ HA Hn) as (nb' & s' & [= <-] & HR & _).
      destruct (csl_run_fail2 ty h nb (WF_maps_below _ _ W) (hk_live _ K) HR) as [E Hcf]; [congruence|congruence|].
      eexists. split; [exact E|]. split; [exact Hcf|]. cbn. by rewrite Hnx, Hq.
    - apply Step_intro; [auto with cons|]. intros h HA. pose proof HA as [HA2 K].
      pose proof HA2 as ((W & NL & Hnext & Hreq) & Hs & [SI1 SI2] & KO).
      destruct (name_ok_Readable h S _ HA Hn) as (nb' & s' & [= <-] & HR & Hs1' & Hs2 & Hz' & Hat & Hlt).
      assert (s' = s) by congruence. subst s'. destruct (Abs3_counters _ _ HA) as [_ Hq].
      pose proof (csl_run_ok ty h nb HR ltac:(congruence) ltac:(congruence)) as E. rewrite Hat in E.
      eexists. split.
      { unfold spec_new_string. rewrite Hs1. cbn [snd]. unfold nxt. rewrite <- Hnext. exact E. }
      unfold spec_new_string. rewrite Hs1. cbn [fst]. unfold nxt, req. rewrite <- Hnext, <- Hreq.
      set (h' := new_string h ty (cstr s ++ [0])).
      change (Pos.succ (Pos.succ (h_next h))) with (h_next h').
      change (Datatypes.S (Datatypes.S (h_req h))) with (h_req h').
      apply (Abs2_build h); try done.
      + apply (Cons_create_string_like o ty (Some nb) _ _ _ E K).
      + by apply WF_new_string.
      + by apply NoLeak_new_string.
      + cbn. by rewrite Hs.
      + intros e b He Hb. rewrite datas_spec_create in He. apply elem_of_app in He as [He|He].
        * destruct (KO e b He Hb) as [(s' & Hs' & Hz'') Hcc]. split; [|done]. exists s'. split; [|done].
          destruct (SI1 _ _ Hs') as [_ Hb']. rewrite lookup_insert_ne by lia. done.
        * apply elem_of_list_singleton in He as ->. cbn in Hb. congruence.
  Qed.

  (** * cJSON_SetValuestring: only the growing case asks the allocator (the copy is made BEFORE the old
        block is released, so a refused copy leaves the node as it was) *)
  Definition spec_set_valuestring3_o (S : astate2) (object valuestring : ptr) : astate2 * ptr :=
    match object, valuestring with
    | Some x, Some sb =>
        match find_tree x (a_forest S) with
        | Some n =>
            let d := tdata n in
            if negb (has_flag (rd_type d) c_cJSON_String) || is_ref d then (S, None) else
            match rd_vstr d with
            | None => (S, None)
            | Some vb =>
                match a_str S !! sb, a_str S !! vb with
                | Some s, Some old =>
                    if (length (cstr s) <=? length (cstr old))%nat then
                      if decide (sb = vb) then (S, None)
                      else (mk3 (a_forest S) (nxt S) (req S)
                                (<[vb := cstr s ++ 0 :: skipn (Datatypes.S (length (cstr s))) old]> (a_str S)) (a_foreign S),
                            Some vb)
                    else if o (req S) then (bumped S, None)
                    else
                      let nb := nxt S in
                      (mk3 (set_data x (rd_set_vstr d (Some nb)) (a_forest S)) (Pos.succ nb) (Datatypes.S (req S))
                           (delete vb (<[nb := cstr s ++ [0]]> (a_str S))) (a_foreign S),
                       Some nb)
                | _, _ => (S, None)
                end
            end
        | None => (S, None)
        end
    | _, _ => (S, None)
    end.

  Lemma Step_SetValuestring_o S object v :
    pre_set_valuestring S object v ->
    Step (cJSON_SetValuestring o object v) S (spec_set_valuestring3_o S object v).1 (spec_set_valuestring3_o S object v).2.
  Proof.
    intros [->|(x & n & -> & Hx & Hcase)]; [by apply Step_same|].
    pose proof (find_tree_shape _ _ _ Hx) as Hsh. set (d := tdata n) in *. set (cs := tchildren n) in *. rewrite Hsh in Hx.
    destruct Hcase as [Href|[Hnv Hnvs]].
    - (* refused *)
      assert (Hspec : spec_set_valuestring3_o S (Some x) v = (S, None)).
      { unfold spec_set_valuestring3_o. destruct v as [sb|]; [|done]. rewrite Hx. cbn [tdata].
        destruct (has_flag (rd_type d) c_cJSON_String); [|done]. destruct (is_ref d); [done|]. cbn [negb orb].
        destruct (rd_vstr d); [|done]. destruct Href as [H|[H|[H|H]]]; done. }
      rewrite Hspec. apply Step_same. intros h [((W & _) & _) _].
      by destruct (cJSON_SetValuestring_refused o h _ x d cs v None W Hx Href) as [_ H2].
    - destruct (has_flag (rd_type d) c_cJSON_String) eqn:Hs.
      2:{ assert (Hspec : spec_set_valuestring3_o S (Some x) v = (S, None)).
          { unfold spec_set_valuestring3_o. destruct v as [sb|]; [|done]. rewrite Hx. cbn [tdata]. fold d. by rewrite Hs. }
          rewrite Hspec. apply Step_same. intros h [((W & _) & _) _].
          by destruct (cJSON_SetValuestring_refused o h _ x d cs v None W Hx (or_introl Hs)) as [_ H2]. }
      destruct (is_ref d) eqn:Hr.
      { assert (Hspec : spec_set_valuestring3_o S (Some x) v = (S, None)).
        { unfold spec_set_valuestring3_o. destruct v as [sb|]; [|done]. rewrite Hx. cbn [tdata]. fold d. rewrite Hs, Hr. done. }
        rewrite Hspec. apply Step_same. intros h [((W & _) & _) _].
        by destruct (cJSON_SetValuestring_refused o h _ x d cs v None W Hx (or_intror (or_introl Hr))) as [_ H2]. }
      apply Step_intro; [auto with cons|]. intros h HA. pose proof HA as [HA2 K].
      pose proof HA2 as ((W & NL & Hnext & Hreq) & Hstr & [SI1 SI2] & KO).
      destruct (name_ok_Readable h S v HA Hnv) as (sb & s & -> & HRs & Hs1 & Hs2 & Hz & Hat & Hlt).
      destruct (name_ok_Readable h S _ HA Hnvs) as (vb & old & Hv & HRv & Hv1 & Hv2 & Hzv & Hatv & Hltv).
      assert (Hxd : (x, d) ∈ datas (a_forest S)).
      { pose proof (find_tree_flat _ _ _ _ Hx) as Hfl. unfold datas. apply elem_of_list_fmap. by exists (x, d, tid <$> cs). }
      unfold spec_set_valuestring3_o. rewrite Hx. cbn [tdata]. fold d. rewrite Hs, Hr, Hv, Hs1, Hv1. cbn [negb orb].
      destruct (length (cstr s) <=? length (cstr old))%nat eqn:Hlen.
      + apply Nat.leb_le in Hlen. destruct (decide (sb = vb)) as [->|Hne].
        * exists h. split; [|done].
          by destruct (cJSON_SetValuestring_alias o h _ x d cs vb None W Hx Hs Hr Hv HRv) as [_ H2].
        * destruct (cJSON_SetValuestring_inplace o h _ x d cs vb sb old None W Hx Hs Hr Hv HRs HRv Hne Hv2)
            as (_ & E & W' & NL' & _); [by rewrite Hat, Hatv|].
          cbn zeta in E, W', NL'. rewrite Hat in E, W', NL'. eexists. split; [exact E|]. cbn [fst].
          unfold nxt, req. rewrite <- Hnext, <- Hreq.
          match goal with |- Abs2 ?hh _ => change (h_next h) with (h_next hh); change (h_req h) with (h_req hh) end.
          refine (Abs2_build h _ S _ _ HA (Cons_cJSON_SetValuestring o _ _ _ _ _ E K) W' (NL' NL) _ _).
          -- cbn. by rewrite Hstr.
          -- intros e b He Hb. destruct (KO e b He Hb) as [(s' & Hs' & Hz') Hcc]. split; [|done].
             exists s'. split; [|done]. rewrite lookup_insert_ne; [done|]. intros <-.
             by apply (vstr_not_key h S x d vb e vb HA2 Hxd Hr Hv He Hb).
      + (* a larger block is needed *)
        apply Nat.leb_gt in Hlen.
        destruct (cJSON_SetValuestring_realloc o h _ x d cs vb sb W (hk_live _ K) Hx Hs Hr Hv HRs HRv)
          as [(Ho & _ & E & W' & _ & NL' & _)|(_ & E & Hcf & (k & Hk & Hok))]; [by rewrite Hat, Hatv| |].
        * assert (Ho' : o (req S) = false) by (unfold req; by rewrite <- Hreq). rewrite Ho'.
          cbn zeta in E, W', NL'. rewrite Hat in E, W', NL'. eexists. split; [unfold nxt; rewrite <- Hnext; exact E|]. cbn [fst].
          unfold nxt, req. rewrite <- Hnext, <- Hreq.
          match goal with |- Abs2 ?hh _ => change (Pos.succ (h_next h)) with (h_next hh); change (Datatypes.S (h_req h)) with (h_req hh) end.
          refine (Abs2_build h _ S _ _ HA (Cons_cJSON_SetValuestring o _ _ _ _ _ E K) W' (NL' NL) _ _).
          -- cbn. by rewrite Hstr.
          -- intros e b He Hb. destruct (datas_set_data _ _ _ _ _ _ (wf_nodup _ _ W) Hx He) as [_ [->|He']].
             ++ cbn [snd] in *. destruct (KO (x, d) b Hxd Hb) as [(s' & Hs' & Hz') Hcc]. split; [|done].
                exists s'. split; [|done]. destruct (SI1 _ _ Hs') as [_ Hb'].
                rewrite lookup_delete_ne, lookup_insert_ne; [done|lia|].
                intros <-. by apply (vstr_not_key h S x d vb (x, d) vb HA2 Hxd Hr Hv Hxd Hb).
             ++ destruct (KO e b He' Hb) as [(s' & Hs' & Hz') Hcc]. split; [|done].
                exists s'. split; [|done]. destruct (SI1 _ _ Hs') as [_ Hb'].
                rewrite lookup_delete_ne, lookup_insert_ne; [done|lia|].
                intros <-. by apply (vstr_not_key h S x d vb e vb HA2 Hxd Hr Hv He' Hb).
        * cbn in Hk. assert (k = h_req h) by lia. subst k.
          assert (Ho' : o (req S) = true) by (unfold req; by rewrite <- Hreq). rewrite Ho'.
          exists (bump h). split; [exact E|]. cbn [fst].
          assert (Hb : bumped S = with_counters S (h_next (bump h)) (h_req (bump h))).
          { unfold bumped, nxt, req. cbn. by rewrite Hnext, Hreq. }
          rewrite Hb. apply (Abs2_clean h); [done| |done]. apply (Cons_cJSON_SetValuestring o _ _ _ _ _ E K).
  Qed.

  (** * replace_item_in_object: its only request is the copy of the name, made first *)
  Lemma ld_cstr_read p h s h1 : ld_cstr p h = Ret (s, h1) -> h1 = h.
  Proof.
    unfold ld_cstr, ld_str, chk, bindM, ret, fail. intros E. repeat case_match; try done; simplify_eq; done.
  Qed.
  Lemma bindM_ext_at {A B} (m : M A) (f g : A -> M B) h :
    (forall a h1, m h = Ret (a, h1) -> f a h1 = g a h1) -> bindM m f h = bindM m g h.
  Proof. intros H. unfold bindM. destruct (m h) as [[a h1]|e]; [by apply H|done]. Qed.
  Lemma cJSON_strdup_local s h : o (h_req h) = false -> cJSON_strdup o s h = cJSON_strdup nv s h.
  Proof.
    intros Ho. destruct s as [b|]; [|done]. unfold cJSON_strdup. cbn [is_null].
    apply bindM_ext_at. intros s1 h1 E. apply ld_cstr_read in E as ->.
    unfold bindM, alloc_bytes. by rewrite Ho.
  Qed.
  Lemma replace_item_in_object_local ob n r cs h :
    o (h_req h) = false -> replace_item_in_object o ob n r cs h = replace_item_in_object nv ob n r cs h.
  Proof.
    intros Ho. unfold replace_item_in_object. destruct (is_null r || is_null n); [done|].
    unfold bindM at 1. rewrite (cJSON_strdup_local _ _ Ho). reflexivity.
  Qed.

  Definition spec_replace_key3_o (S : astate2) (object name replacement : ptr) (case_sensitive : bool) : astate2 * bool :=
    match name, replacement with
    | Some _, Some _ => if o (req S) then (bumped S, false) else spec_replace_key3 S object name replacement case_sensitive
    | _, _ => spec_replace_key3 S object name replacement case_sensitive
    end.

  Lemma Step_ext_abs {A} (m m' : M A) S S' r : (forall h, Abs3 h S -> m h = m' h) -> Step m' S S' r -> Step m S S' r.
  Proof. intros E H h HA. rewrite (E h HA). by apply H. Qed.

  Lemma Step_replace_key_o S object name replacement cs :
    pre_replace_key S object name replacement ->
    Step (replace_item_in_object o object name replacement cs) S
         (spec_replace_key3_o S object name replacement cs).1 (spec_replace_key3_o S object name replacement cs).2.
  Proof.
    intros Hpre.
    assert (Hnv : o (req S) = false ->
              Step (replace_item_in_object o object name replacement cs) S
                   (spec_replace_key3 S object name replacement cs).1 (spec_replace_key3 S object name replacement cs).2).
    { intros Ho. apply (Step_ext_abs _ (replace_item_in_object nv object name replacement cs)); [|by apply Step_replace_key].
      intros h HA. apply replace_item_in_object_local. destruct (Abs3_counters _ _ HA) as [_ Hq]. congruence. }
    unfold spec_replace_key3_o. destruct name as [nb|], replacement as [r|].
    2-4: (match goal with |- Step _ _ (?sp).1 _ => assert (Hspec : sp = (S, false)) by (by destruct object) end;
          rewrite Hspec; apply Step_same; intros h _;
          refine (proj2 (replace_item_in_object_refused o ∅ [] _ _ _ _ None h _)); auto).
    destruct (o (req S)) eqn:Ho; [|by apply Hnv]. cbn [fst snd].
    assert (Hn : name_ok S (Some nb)).
    { destruct Hpre as [[?|?]|[(p & r' & _ & _ & _ & Hn)|(_ & nb' & r' & [= <-] & _ & _ & Hn)]]; done. }
    apply Step_bump; [auto with cons|]. intros h HA.
    destruct (name_ok_Readable h S _ HA Hn) as (nb' & s' & [= <-] & HR & _).
    destruct (Abs3_counters _ _ HA) as [_ Hq].
    unfold replace_item_in_object. cbn [is_null orb].
    by rewrite (bindM_Ret _ _ _ _ _ (CoreRefineCreate.cJSON_strdup_fail o h nb HR ltac:(congruence))).
  Qed.

  (** * the pieces of the composite calls *)
  Definition s2o (S : astate2) (op : op2) : astate2 * res := spec_step2 o S op.

  Lemma s2o_addobj_granted S ob n i ck :
    o (req S) = false -> s2o S (OAddObj ob n i ck) = s2 S (OAddObj ob n i ck).
  Proof.
    intros Ho. unfold s2o, s2, spec_step2. destruct ob as [p|], n as [sb|], i as [x|]; try done.
    destruct (decide (p = x)); [done|]. destruct ck; [done|]. unfold req in Ho. by rewrite Ho.
  Qed.

  Lemma Step_add_item_to_object_o S ob n i ck :
    pre_ok2 S (OAddObj ob n i ck) ->
    Step (add_item_to_object o ob n i ck) S (s2o S (OAddObj ob n i ck)).1 (res_bool (s2o S (OAddObj ob n i ck)).2).
  Proof. intros Hpre. apply (Step_unwrap RBool res_bool); [done|]. by apply (Step_op2o S (OAddObj ob n i ck)). Qed.
  Lemma Step_create_with_type_o S ty :
    Step (create_with_type o ty) S (s2o S (OArr (OCreate ty))).1 (res_ptr (s2o S (OArr (OCreate ty))).2).
  Proof. apply (Step_unwrap RPtr res_ptr); [done|]. by apply (Step_op2o S (OArr (OCreate ty))). Qed.

  (** add [item] to [object] under an owned copy of [name]; when that fails — refused by the API or
      because the copy of the name was refused — [item] is deleted again *)
  Definition spec_add_or_delete_o {A} (S1 : astate2) (item object name : ptr) (yes no : A) : astate2 * A :=
    let r := s2o S1 (OAddObj object name item false) in
    if res_bool r.2 then (r.1, yes) else ((s2 r.1 (OArr (ODelete item))).1, no).
  Definition pre_add_or_delete_o (S1 : astate2) (item object name : ptr) : Prop :=
    pre_ok2 S1 (OAddObj object name item false) /\
    (res_bool (s2o S1 (OAddObj object name item false)).2 = false ->
     pre_ok2 (s2o S1 (OAddObj object name item false)).1 (OArr (ODelete item))).

  (** the rule of the never-failing model is enough: an item whose key copy is refused is a detached root *)
  Lemma pre_add_or_delete_o_of S1 item ob n : pre_add_or_delete S1 item ob n -> pre_add_or_delete_o S1 item ob n.
  Proof.
    intros [H1 H2]. split; [done|]. destruct (o (req S1)) eqn:Ho.
    2:{ by rewrite (s2o_addobj_granted _ _ _ _ _ Ho). }
    intros _. unfold s2o, spec_step2.
    destruct ob as [p|], n as [sb|], item as [x|]; try (by left); try (by apply H2).
    destruct (decide (p = x)) as [->|Hpx].
    - cbn [fst]. cbn [pre_ok2 pre_ok]. destruct H1 as [Hr|(p' & x' & [= <-] & [= <-] & (Hne & _) & _)]; [|done].
      (* the API refuses object = item; the precondition of the deletion comes from the never-failing model *)
      assert (E : s2 S1 (OAddObj (Some x) (Some sb) (Some x) false) = (S1, RBool false)).
      { unfold s2, spec_step2. by rewrite decide_True. }
      rewrite E in H2. by apply H2.
    - unfold req in Ho. rewrite Ho. cbn [fst]. cbn [pre_ok2 pre_ok a_st as_forest]. right.
      destruct H1 as [[?|[?|[?|?]]]|(p' & x' & [= <-] & [= <-] & (_ & tx & dp & csp & Hx & _) & _)]; try done; [congruence|].
      by exists x, tx.
  Qed.

  Lemma Step_add_or_delete_o {A} S1 item object name (yes no : A) :
    pre_add_or_delete_o S1 item object name ->
    Step (ok <~ add_item_to_object o object name item false ;;
          if ok then ret yes else cJSON_Delete item ;;; ret no)
         S1 (spec_add_or_delete_o S1 item object name yes no).1 (spec_add_or_delete_o S1 item object name yes no).2.
  Proof.
    intros [H1 H2]. unfold spec_add_or_delete_o. cbn zeta.
    eapply Step_bind; [by apply Step_add_item_to_object_o|].
    destruct (res_bool (s2o S1 (OAddObj object name item false)).2) eqn:E; cbn [fst snd].
    - apply Step_ret.
    - eapply Step_bind; [apply Step_cJSON_Delete; by apply H2|apply Step_ret].
  Qed.

  (** with no item (the constructor was refused) nothing happens *)
  Lemma spec_add_or_delete_o_none {A} S1 object name (yes no : A) :
    spec_add_or_delete_o S1 None object name yes no = (S1, no).
  Proof.
    unfold spec_add_or_delete_o, s2o, spec_step2. destruct object, name; cbn [snd fst res_bool];
      (erewrite s2_arr_same; [done|]; cbn [spec_step spec_delete]; by rewrite keep_same).
  Qed.
  Lemma pre_add_or_delete_o_none S1 object name : pre_add_or_delete_o S1 None object name.
  Proof.
    split; [left; auto|]. intros _.
    assert (E : s2o S1 (OAddObj object name None false) = (S1, RBool false)) by (unfold s2o, spec_step2; by destruct object, name).
    rewrite E. by left.
  Qed.

  (** what a cJSON_Add…ToObject helper creates *)
  Definition run_created_o (k : created) : M ptr :=
    match k with
    | KNull => cJSON_CreateNull o
    | KTrue => cJSON_CreateTrue o
    | KFalse => cJSON_CreateFalse o
    | KBool b => cJSON_CreateBool o b
    | KNumber n => cJSON_CreateNumber o n
    | KString s => cJSON_CreateString o s
    | KRaw s => cJSON_CreateRaw o s
    | KObject => cJSON_CreateObject o
    | KArray => cJSON_CreateArray o
    end.
  Definition spec_created_o (S : astate2) (k : created) : astate2 * ptr :=
    let typed ty := ((s2o S (OArr (OCreate ty))).1, res_ptr (s2o S (OArr (OCreate ty))).2) in
    match k with
    | KNull => typed c_cJSON_NULL
    | KTrue => typed c_cJSON_True
    | KFalse => typed c_cJSON_False
    | KBool b => typed (if b then c_cJSON_True else c_cJSON_False)
    | KNumber n => spec_new_node_o S (rd_number n)
    | KString s => spec_new_string_o S c_cJSON_String s
    | KRaw s => spec_new_string_o S c_cJSON_Raw s
    | KObject => typed c_cJSON_Object
    | KArray => typed c_cJSON_Array
    end.
  Lemma Step_created_o S k : pre_created S k -> Step (run_created_o k) S (spec_created_o S k).1 (spec_created_o S k).2.
  Proof.
    intros Hpre. destruct k; cbn [run_created_o spec_created_o]; try apply Step_create_with_type_o.
    - apply Step_CreateNumber_o.
    - by apply Step_create_string_like_o.
    - by apply Step_create_string_like_o.
  Qed.
  Lemma Cons_run_created_o k : Cons (run_created_o k).
  Proof. destruct k; cbn [run_created_o]; unfold cJSON_CreateNull, cJSON_CreateTrue, cJSON_CreateFalse, cJSON_CreateBool,
    cJSON_CreateObject, cJSON_CreateArray, cJSON_CreateString, cJSON_CreateRaw; auto with cons. Qed.
End Steps.
