(** CoreSpec.v — the "obvious ordered-list model" of the DOM edit/query API (property C06),
    as pure functions on forests (Forest.v).  Definitions only.

    Conventions
    * A call that the C API REFUSES (NULL argument, self-insertion, index out of range, item
      not found) returns the forest unchanged together with the failure value.
    * The edit functions look their arguments up in the forest.  The documented ownership rules
      (the item added/inserted/used as replacement is a DETACHED ROOT of the forest and the
      container is not inside it; an item to detach/replace is a child of the given parent)
      are hypotheses of the simulation lemmas (CoreRefine.v).  When they do not hold the
      lookups below fail and the functions return [(F, failure)]; that value is NOT a claim
      about the C code, which is outside its contract there.
    * Positions are list positions in the children list of the container; arrays and objects
      are not distinguished (neither does the C code).
    * Root order has no meaning; a detached item is appended to the list of roots. *)
From CJ Require Import Base Dbl Heap Forest.
From CJ.gen Require Import Constants.
From stdpp Require Import gmap.
Local Open Scope Z_scope.

(** children of node [p] *)
Definition children_of (F : forest) (p : positive) : option (list tree) := tchildren <$> find_tree p F.

(** * queries *)

(** cJSON_GetArraySize *)
Definition spec_get_size (F : forest) (array : ptr) : Z :=
  match array with
  | None => 0
  | Some p => match children_of F p with Some cs => Z.of_nat (length cs) | None => 0 end
  end.

(** get_array_item (index is a size_t) / cJSON_GetArrayItem *)
Definition spec_get_index (F : forest) (array : ptr) (index : Z) : ptr :=
  match array with
  | None => None
  | Some p => match children_of F p with Some cs => (tid <$> cs) !! Z.to_nat index | None => None end
  end.
Definition spec_get_array_item (F : forest) (array : ptr) (index : Z) : ptr :=
  if index <? 0 then None else spec_get_index F array index.

(** the C string a key block holds *)
Definition key_string (strs : gmap positive bytes) (t : tree) : option bytes :=
  b ← rd_key (tdata t); s ← strs !! b; Some (cstr s).

(** case-sensitive lookup: first exact match — the search STOPS at a child without key
    (get_object_item tests [current_element->string != NULL] in the loop condition) *)
Fixpoint find_key_cs (strs : gmap positive bytes) (name : bytes) (cs : list tree) : ptr :=
  match cs with
  | [] => None
  | c :: r =>
      match key_string strs c with
      | None => None
      | Some k => if bool_decide (name = k) then Some (tid c) else find_key_cs strs name r
      end
  end.
(** case-insensitive lookup: first ASCII-folded match; children without key are skipped
    (case_insensitive_strcmp returns 1 for a NULL argument) *)
Fixpoint find_key_ci (strs : gmap positive bytes) (name : bytes) (cs : list tree) : ptr :=
  match cs with
  | [] => None
  | c :: r =>
      match key_string strs c with
      | None => find_key_ci strs name r
      | Some k => if bool_decide (tolower <$> name = tolower <$> k) then Some (tid c)
                  else find_key_ci strs name r
      end
  end.
(** get_object_item; [name] points to a byte block *)
Definition spec_get_key (strs : gmap positive bytes) (F : forest) (object name : ptr) (case_sensitive : bool) : ptr :=
  match object, name with
  | Some p, Some nb =>
      match children_of F p, strs !! nb with
      | Some cs, Some s =>
          if case_sensitive then find_key_cs strs (cstr s) cs else find_key_ci strs (cstr s) cs
      | _, _ => None
      end
  | _, _ => None
  end.

(** * edits *)

(** add_item_to_array / cJSON_AddItemToArray: append the detached root [item] to the children
    of [array] *)
Definition spec_add_to_array (F : forest) (array item : ptr) : forest * bool :=
  match array, item with
  | Some p, Some x =>
      if decide (p = x) then (F, false) else
      match find_root x F with
      | Some tx =>
          let F0 := remove_root x F in
          match children_of F0 p with
          | Some cs => (set_children p (cs ++ [tx]) F0, true)
          | None => (F, false)
          end
      | None => (F, false)
      end
  | _, _ => (F, false)
  end.

(** cJSON_DetachItemViaPointer: the child [item] of [parent] becomes a root *)
Definition spec_detach (F : forest) (parent item : ptr) : forest * ptr :=
  match parent, item with
  | Some p, Some x =>
      match children_of F p with
      | Some cs =>
          match index_of x (tid <$> cs) with
          | Some k =>
              match cs !! k with
              | Some tx => (set_children p (delete k cs) F ++ [tx], Some x)
              | None => (F, None)
              end
          | None => (F, None)                         (* not a child of parent: refused *)
          end
      | None => (F, None)
      end
  | _, _ => (F, None)
  end.

(** cJSON_DetachItemFromArray *)
Definition spec_detach_index (F : forest) (array : ptr) (which : Z) : forest * ptr :=
  if which <? 0 then (F, None) else spec_detach F array (spec_get_index F array which).

(** cJSON_InsertItemInArray: insert the detached root [newitem] before position [which];
    append when [which] is past the end *)
Definition spec_insert (F : forest) (array : ptr) (which : Z) (newitem : ptr) : forest * bool :=
  match newitem with
  | None => (F, false)
  | Some x =>
      if (which <? 0) || bool_decide (array = Some x) then (F, false) else
      match spec_get_index F array which with
      | None => spec_add_to_array F array newitem
      | Some _ =>
          match array, find_root x F with
          | Some p, Some tx =>
              let F0 := remove_root x F in
              match children_of F0 p with
              | Some cs => (set_children p (insert_at (Z.to_nat which) tx cs) F0, true)
              | None => (F, false)
              end
          | _, _ => (F, false)
          end
      end
  end.

(** cJSON_ReplaceItemViaPointer: the child [item] of [parent] is replaced by the detached root
    [replacement]; the old item and everything below it is deleted *)
Definition spec_replace (F : forest) (parent item replacement : ptr) : forest * bool :=
  match parent, item, replacement with
  | Some p, Some y, Some r =>
      match children_of F p with
      | Some [] | None => (F, false)
      | Some _ =>
          if decide (r = y) then (F, true) else
          match find_root r F with
          | Some tr =>
              let F0 := remove_root r F in
              match children_of F0 p with
              | Some cs =>
                  match index_of y (tid <$> cs) with
                  | Some k => (set_children p (<[k := tr]> cs) F0, true)
                  | None => (F, false)
                  end
              | None => (F, false)
              end
          | None => (F, false)
          end
      end
  | _, _, _ => (F, false)
  end.

(** cJSON_ReplaceItemInArray *)
Definition spec_replace_index (F : forest) (array : ptr) (which : Z) (newitem : ptr) : forest * bool :=
  if which <? 0 then (F, false) else spec_replace F array (spec_get_index F array which) newitem.

(** cJSON_Delete of a root (NULL: nothing) *)
Definition spec_delete (F : forest) (item : ptr) : forest :=
  match item with None => F | Some x => remove_root x F end.

(** cJSON_DeleteItemFromArray *)
Definition spec_delete_index (F : forest) (array : ptr) (which : Z) : forest :=
  let '(F', it) := spec_detach_index F array which in spec_delete F' it.

(** a successful constructor call: a new root without children *)
Definition spec_create (F : forest) (id : positive) (d : rdata) : forest := F ++ [T id d []].

(** * objects: keys *)

(** the data of an item that is (re)keyed: new key block, new type word *)
Definition rd_set_key_type (d : rdata) (key : ptr) (ty : Z) : rdata :=
  mkRD ty (rd_vstr d) (rd_vint d) (rd_vdbl d) key (rd_ref d).
Definition rd_const_key (d : rdata) (key : positive) : rdata :=
  rd_set_key_type d (Some key) (Z.lor (rd_type d) c_cJSON_StringIsConst).
Definition rd_owned_key (d : rdata) (key : positive) : rdata :=
  rd_set_key_type d (Some key) (Z.land (rd_type d) (Z.lnot c_cJSON_StringIsConst)).

(** add_item_to_object / cJSON_AddItemToObject[CS]: the detached root [item] gets the key
    [string] (constant: the caller's block itself; otherwise the fresh copy [copy] that
    cJSON_strdup returned, [None] = allocation failure) and is appended to [object] *)
Definition spec_add_to_object (F : forest) (object string item : ptr) (constant_key : bool)
    (copy : ptr) : forest * bool :=
  match object, string, item with
  | Some p, Some sb, Some x =>
      if decide (p = x) then (F, false) else
      match find_root x F with
      | Some tx =>
          if constant_key then
            spec_add_to_array (set_data x (rd_const_key (tdata tx) sb) F) object item
          else
            match copy with
            | Some nk => spec_add_to_array (set_data x (rd_owned_key (tdata tx) nk) F) object item
            | None => (F, false)
            end
      | None => (F, false)
      end
  | _, _, _ => (F, false)
  end.

(** cJSON_DetachItemFromObject[CaseSensitive] / cJSON_DeleteItemFromObject[CaseSensitive] *)
Definition spec_detach_key (strs : gmap positive bytes) (F : forest) (object name : ptr) (case_sensitive : bool)
    : forest * ptr :=
  spec_detach F object (spec_get_key strs F object name case_sensitive).
Definition spec_delete_key (strs : gmap positive bytes) (F : forest) (object name : ptr) (case_sensitive : bool)
    : forest :=
  let '(F', it) := spec_detach_key strs F object name case_sensitive in spec_delete F' it.

(** replace_item_in_object / cJSON_ReplaceItemInObject[CaseSensitive]: the replacement (a detached
    root) gets an owned copy [copy] of the name as its key (its old owned key is released) —
    this happens even when no member is then found —, the member is looked up BY THE COPY in
    the string heap [strs] of that moment, and replaced.  [copy = None]: allocation failure. *)
Definition spec_replace_key (strs : gmap positive bytes) (F : forest) (object string replacement : ptr)
    (case_sensitive : bool) (copy : ptr) : forest * bool :=
  match replacement, string with
  | Some r, Some _ =>
      match copy, find_root r F with
      | Some nk, Some tr =>
          let F1 := set_data r (rd_owned_key (tdata tr) nk) F in
          spec_replace F1 object (spec_get_key strs F1 object (Some nk) case_sensitive) replacement
      | _, _ => (F, false)
      end
  | _, _ => (F, false)
  end.

(** * value setters (data of one node; links, children and ownership untouched) *)
Definition rd_set_number (d : rdata) (n : dbl) : rdata :=
  mkRD (rd_type d) (rd_vstr d) (sat_int n) n (rd_key d) (rd_ref d).
Definition rd_set_int (d : rdata) (i : Z) : rdata :=
  mkRD (rd_type d) (rd_vstr d) i (dbl_of_int i) (rd_key d) (rd_ref d).
Definition rd_set_bool (d : rdata) (b : bool) : rdata :=
  mkRD (Z.lor (Z.land (rd_type d) (Z.lnot (Z.lor c_cJSON_False c_cJSON_True)))
              (if b then c_cJSON_True else c_cJSON_False))
       (rd_vstr d) (rd_vint d) (rd_vdbl d) (rd_key d) (rd_ref d).
(** apply a data transformer to node [x] *)
Definition spec_update (F : forest) (x : positive) (f : rdata -> rdata) : forest :=
  match find_tree x F with Some n => set_data x (f (tdata n)) F | None => F end.

(** * the documented ownership rules, as predicates on the abstract state *)

(** [x] is a detached item / document root *)
Definition detached (F : forest) (x : positive) : Prop := x ∈ roots F.
(** [p] is a node outside the tree rooted at [x] that can take children (not a reference node) *)
Definition container_for (F : forest) (p x : positive) : Prop :=
  exists n, find_tree p (remove_root x F) = Some n /\ is_ref (tdata n) = false.
(** [x] is a child of [p] *)
Definition child_in (F : forest) (p x : positive) : Prop :=
  exists cs, children_of F p = Some cs /\ x ∈ tid <$> cs.
