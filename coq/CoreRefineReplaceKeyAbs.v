(** CoreRefineReplaceKeyAbs.v — [replace_item_in_object] at the level of the extended
    representation [CoreRefineHistoryObj.Abs2]: the call equals "re-key the replacement with a
    copy of the name" (abstract state [rk_S1]) followed by the array call
    [OReplace object (lookup by the copy in rk_S1) replacement] of the history alphabet —
    [step_replace_key]: no error outcome, the flag the model predicts, [Abs2] re-established.
    (To put the call into the alphabet [op2]: one constructor whose [spec_step2] is
    [spec_step2 rk_S1 (OArr (OReplace ...))] and whose [step_sim2] case is this lemma.) *)
From CJ Require Import Base Dbl Heap Forest ForestLemmas CoreSpec CoreDefs CoreRefineBase CoreRefine
  CoreRefineDelete CoreRefineReplace CoreRefineMore CoreRefineFrame CoreRefineHistory CoreRefineObject
  CoreRefineByKey CoreRefineAddObject CoreRefineHistoryObj CoreRefineReplaceKey.
From CJ.gen Require Import Constants.
From stdpp Require Import gmap.
Implicit Types (h : heap) (F : forest) (p x y r : positive) (d : rdata).
Local Open Scope Z_scope.

(** * replace_item_in_object in the extended representation [Abs2]:
      = re-key the replacement (state [S1]), then the array call
        [OReplace object (lookup by the copy in S1) replacement] *)
Section ReplaceKeyAbs.
  Context (oracle : nat -> bool) (h : heap) (S : astate2) (p r nb : positive) (s : bytes)
          (d dp : rdata) (cs csp : list tree) (case_sensitive : bool).
  Hypothesis HA2 : Abs2 h S.
  Hypothesis Hpr : p <> r.
  Hypothesis Hr : find_root r (a_forest S) = Some (T r d cs).
  Hypothesis Hp : find_tree p (remove_root r (a_forest S)) = Some (T p dp csp).
  Hypothesis Href : is_ref dp = false.
  Hypothesis Hs : a_str S !! nb = Some s.
  Hypothesis Hz : has0 s = true.
  Hypothesis Ho : oracle (as_req (a_st S)) = false.

  Let F := a_forest S.
  Let nk := as_next (a_st S).
  Let d' := rd_owned_key d nk.
  Let F1 := set_data r d' F.
  Definition rk_S1 : astate2 :=
    mkAS2 (mkAS F1 (Pos.succ nk) (Datatypes.S (as_req (a_st S))))
          (<[nk := cstr s ++ [0]]> (strs_gc F F1 (a_str S))) (a_foreign S).
  Definition rk_it : ptr := spec_get_key (a_str rk_S1) F1 (Some p) (Some nk) case_sensitive.

  Lemma step_replace_key :
    exists h' b, replace_item_in_object oracle (Some p) (Some nb) (Some r) case_sensitive h = Ret (b, h') /\
                 (spec_step2 oracle rk_S1 (OArr (OReplace (Some p) rk_it (Some r)))).2 = RBool b /\
                 Abs2 h' (spec_step2 oracle rk_S1 (OArr (OReplace (Some p) rk_it (Some r)))).1.
  Proof.
    pose proof HA2 as ((W & NL & Hnext & Hreq) & Hstr & [SI1 SI2] & KO).
    pose proof (wf_nodup _ _ W) as ND. fold F in W, NL, ND.
    assert (Hrd : Readable h nb /\ h_str h !! nb = Some s).
    { destruct (SI1 _ _ Hs) as [Hl _]. rewrite Hstr. split; [|done]. split; [done|]. exists s. by rewrite Hstr. }
    destruct Hrd as [Hrd Hsh]. rewrite <- Hreq in Ho.
    destruct (set_data_root F r d cs d' ND Hr) as (Hin & Hr1 & Hrr).
    destruct (flat_set_data F r d cs ND Hin) as (FL & E1 & E2).
    set (c := cstr s ++ [0]). set (ha := alloc_str h c).
    pose proof (WF_alloc_str h F c W) as Wa. fold ha in Wa.
    set (hb := free_all (old_key d) ha).
    set (h2 := set_dat hb (<[r := mk_dat d' (tid <$> cs)]> (h_dat hb))).
    assert (Hnk : nk = h_next h) by done.
    (* the state after re-keying *)
    assert (W2 : WF h2 F1).
    { eapply (rekey_WF ha F F1 r d d' _ FL Wa E1 (E2 d')); try done.
      - unfold F1. by rewrite roots_set_data.
      - apply is_ref_set_key_clear.
      - intros b Hb. unfold old_key, d' in Hb. rewrite is_const_set_key_clear in Hb. cbn in Hb.
        apply elem_of_list_singleton in Hb as ->. rewrite Hnk. split_and!.
        + intros Hin'. exact (Pos.lt_irrefl _ (wf_fresh _ _ W _ Hin')).
        + unfold ha. cbn. set_solver.
        + unfold ha. cbn. by rewrite lookup_insert.
        + unfold ha. cbn. apply Pos.lt_succ_diag_r.
      - unfold old_key, d'. rewrite is_const_set_key_clear. cbn. apply NoDup_singleton. }
    assert (HA2' : Abs2 h2 rk_S1).
    { unfold rk_S1. rewrite insert_union_singleton_l.
      replace (Pos.succ nk) with (h_next ha) by (unfold ha; cbn; by rewrite Hnk).
      replace (Datatypes.S (as_req (a_st S))) with (h_req ha) by (unfold ha; cbn; by rewrite Hreq).
      change h2 with (upd_maps hb (h_lnk hb) (<[r := mk_dat d' (tid <$> cs)]> (h_dat hb))).
      apply (addobj_post h S p r nb s d dp cs csp HA2 Hpr Hr Hp Href Hs Hz ha d' F1); try done.
      - exists (fdata <$> FL). unfold datas, F1. fold F. by rewrite E1, (E2 d').
      - apply is_ref_set_key_clear.
      - intros k Hk. unfold old_key, d' in Hk. rewrite is_const_set_key_clear in Hk. cbn in Hk.
        apply elem_of_list_singleton in Hk as ->. split; [done|]. by rewrite lookup_singleton.
      - intros b [s' Hb]. apply lookup_singleton_Some in Hb as [<- _]. unfold old_key, d'.
        rewrite is_const_set_key_clear. cbn. by left.
      - intros b Hb. cbn in Hb. injection Hb as <-. split_and!.
        + exists c. split; [|unfold has0, c; rewrite existsb_app; cbn; by rewrite orb_true_r].
          apply lookup_union_Some_l. by rewrite lookup_singleton.
        + intros _. unfold old_key, d'. rewrite is_const_set_key_clear. cbn. by left.
        + unfold d'. by rewrite is_const_set_key_clear.
      - unfold ha. cbn. rewrite <- Hnk. by rewrite insert_union_singleton_l.
      - intros b s' Hb. by apply lookup_singleton_Some in Hb as [<- _].
      - intros b. unfold ha. cbn. rewrite <- Hnk. rewrite elem_of_union, elem_of_singleton. split.
        + intros [->|Hb]; [right; by rewrite lookup_singleton|by left].
        + intros [Hb|[s' Hb]]; [by right|]. apply lookup_singleton_Some in Hb as [<- _]. by left.
      - intros b Hb. unfold ha. cbn. rewrite lookup_insert_ne; [done|]. intros <-. apply Hb. rewrite <- Hnk. by rewrite lookup_singleton.
      - intros b [s' Hb]. apply lookup_singleton_Some in Hb as [<- _]. unfold ha. cbn. rewrite <- Hnk. by rewrite lookup_insert.
      - unfold ha. cbn. lia.
      - intros b [s' Hb]. apply lookup_singleton_Some in Hb as [<- _]. unfold ha. cbn. lia. }
    (* run: copy, re-key, look up by the copy *)
    assert (Hp1 : find_tree p F1 = Some (T p dp csp)).
    { apply (find_tree_remove_root F1 r (T r d' cs) p); [apply W2|done|]. unfold F1. by rewrite Hrr. }
    assert (Hnks : a_str rk_S1 !! nk = Some (c : bytes)) by (unfold rk_S1; cbn; by rewrite lookup_insert).
    pose proof HA2' as (_ & Hstr2 & [SI1' _] & _).
    assert (Hgoi : get_object_item (Some p) (Some nk) case_sensitive h2 = Ret (rk_it, h2)).
    { unfold rk_it. rewrite <- Hstr2.
      apply (get_object_item_sim h2 F1 p dp csp nk c W2 (Abs2_KeysReadable _ _ HA2') Hp1).
      - by apply (SI1' _ _ Hnks).
      - by rewrite Hstr2.
      - unfold c. rewrite existsb_app. cbn. by rewrite orb_true_r.
      - done. }
    (* then the array call on the re-keyed state *)
    destruct (step_sim2_arr oracle h2 rk_S1 (OReplace (Some p) rk_it (Some r)) HA2') as (h' & Hrun & HA').
    { cbn [pre_ok as_forest a_st rk_S1]. right.
      destruct rk_it as [y|] eqn:Hit.
      - right. assert (exists k ty, csp !! k = Some ty /\ tid ty = y) as (k & ty & Hk & Hy).
        { unfold rk_it, spec_get_key, children_of in Hit. rewrite Hp1, Hnks in Hit. cbn in Hit.
          destruct case_sensitive; [by eapply find_key_cs_child|by eapply find_key_ci_child]. }
        exists p, y, r, (T r d' cs), ty, dp, csp, k. split_and!; try done. unfold F1. by rewrite Hrr.
      - left. exists p, dp, csp. split_and!; try done. right. by left. }
    cbn [run_op2 run_op] in Hrun. unfold bindM at 1 in Hrun.
    destruct (cJSON_ReplaceItemViaPointer (Some p) rk_it (Some r) h2) as [[b hh]|e] eqn:Hrep; [|done].
    injection Hrun as Hres <-. exists hh, b. split; [|split; [exact (eq_sym Hres)|exact HA']].
    unfold replace_item_in_object. cbn [is_null orb].
    rewrite (bindM_Ret _ _ _ _ _ (cJSON_strdup_ok oracle h nb s Hrd Hsh Ho)). cbn [is_null].
    fold c ha. rewrite <- Hnk.
    rewrite (rekey_run2 _ ha F r d (tid <$> cs) (Some nk) Wa (elem_of_flat _ _ Hin)).
    change (set_dat (free_all (old_key d) ha) _) with h2.
    rewrite (bindM_Ret _ _ _ _ _ Hgoi). exact Hrep.
  Qed.
End ReplaceKeyAbs.
