(** PatchHeapStr.v — the functions of cJSON.c that take a NAME, with the name given as a [cstring]
    (PatchHeapDefs.v): (1) on a block pointer they ARE the functions of CoreDefs.v; (2) simulation lemmas at
    [WF] level, the counterparts of CoreRefineObject / CoreRefineByKey / CoreRefineAddObject, with
    [CsReads h c nm] in place of "the name is the readable block [nb] holding [sn]"; (3) [Cons] (CoreLedgerGen:
    sanity of the heap is preserved, borrowed memory untouched) for every function of PatchHeapDefs.v. *)
From CJ Require Import Base Dbl Heap Forest ForestLemmas CoreSpec CoreDefs CoreRefineBase CoreRefine CoreRefineMore
  CoreRefineDelete CoreRefineReplace CoreRefineObject CoreRefineByKey CoreRefineFrame CoreRefineHistory CoreRefineAddObject
  CoreRefineDupValue CoreLedgerGen.
From CJ Require Import TierBridgeDefs TierBridgeForest TierBridgeLemmas TierBridgeUtilsDefs MergeHeapDefs
  PatchHeapDefs PatchHeapPath PatchHeapPointer.
From CJ Require Tree PointerDefs PatchDefs SortSpec.
From CJ.gen Require Import Constants.
From stdpp Require Import gmap.
From Coq Require Import Lia.
Local Open Scope Z_scope.

(** * 1. on block pointers: the functions of CoreDefs.v *)
Lemma ld_cs_block (p : ptr) h : ld_cs (cs_of_ptr p) h = ld_cstr p h.
Proof.
  destruct p as [b|]; [|done]. unfold ld_cs, ld_cstr, cs_of_ptr, bindM. destruct (ld_str (Some b) h) as [[s h1]|e]; [|done].
  by rewrite drop_0.
Qed.
Lemma cs_is_null_block (p : ptr) : cs_is_null (cs_of_ptr p) = is_null p.
Proof. by destruct p. Qed.
Lemma cs_ptr_eqb_block (p k : ptr) : cs_ptr_eqb (cs_of_ptr p) k = ptr_eqb p k.
Proof. by destruct p, k. Qed.

Lemma bindM_ext {A B} (m m' : M A) (f f' : A -> M B) h :
  (forall g, m g = m' g) -> (forall a g, f a g = f' a g) -> bindM m f h = bindM m' f' h.
Proof. intros Hm Hf. unfold bindM. rewrite Hm. destruct (m' h) as [[a g]|e]; [apply Hf|done]. Qed.
Ltac bext := apply bindM_ext; [intros ?|intros ? ?]; try reflexivity.

Lemma case_insensitive_strcmp_s_block (n k : ptr) h :
  case_insensitive_strcmp_s (cs_of_ptr n) k h = case_insensitive_strcmp n k h.
Proof.
  unfold case_insensitive_strcmp_s, case_insensitive_strcmp. rewrite cs_is_null_block, cs_ptr_eqb_block.
  destruct (is_null n || is_null k); [done|]. destruct (ptr_eqb n k); [done|]. bext. apply ld_cs_block.
Qed.
Lemma get_object_item_loop_cs_s_block (n : ptr) : forall fuel cur h,
  get_object_item_loop_cs_s fuel cur (cs_of_ptr n) h = get_object_item_loop_cs fuel cur n h.
Proof.
  induction fuel as [|f IH]; intros cur h; [done|]. cbn [get_object_item_loop_cs_s get_object_item_loop_cs].
  destruct (is_null cur); [done|]. bext. destruct (is_null a); [done|]. bext; [apply ld_cs_block|].
  bext. destruct (negb _); [|done]. bext. apply IH.
Qed.
Lemma get_object_item_loop_ci_s_block (n : ptr) : forall fuel cur h,
  get_object_item_loop_ci_s fuel cur (cs_of_ptr n) h = get_object_item_loop_ci fuel cur n h.
Proof.
  induction fuel as [|f IH]; intros cur h; [done|]. cbn [get_object_item_loop_ci_s get_object_item_loop_ci].
  destruct (is_null cur); [done|]. bext. bext; [apply case_insensitive_strcmp_s_block|].
  destruct (negb _); [|done]. bext. apply IH.
Qed.
Theorem get_object_item_s_block (o n : ptr) flag h : get_object_item_s o (cs_of_ptr n) flag h = get_object_item o n flag h.
Proof.
  unfold get_object_item_s, get_object_item. rewrite cs_is_null_block. destruct (is_null o || is_null n); [done|].
  bext. bext. bext. destruct flag; [apply get_object_item_loop_cs_s_block|apply get_object_item_loop_ci_s_block].
Qed.
Theorem cJSON_DetachItemFromObject_s_block (o n : ptr) h :
  cJSON_DetachItemFromObject_s o (cs_of_ptr n) h = cJSON_DetachItemFromObject o n h /\
  cJSON_DetachItemFromObjectCaseSensitive_s o (cs_of_ptr n) h = cJSON_DetachItemFromObjectCaseSensitive o n h /\
  cJSON_DeleteItemFromObject_s o (cs_of_ptr n) h = cJSON_DeleteItemFromObject o n h /\
  cJSON_DeleteItemFromObjectCaseSensitive_s o (cs_of_ptr n) h = cJSON_DeleteItemFromObjectCaseSensitive o n h.
Proof.
  unfold cJSON_DeleteItemFromObject_s, cJSON_DeleteItemFromObjectCaseSensitive_s, cJSON_DeleteItemFromObject, cJSON_DeleteItemFromObjectCaseSensitive.
  unfold cJSON_DetachItemFromObject_s, cJSON_DetachItemFromObjectCaseSensitive_s, cJSON_DetachItemFromObject, cJSON_DetachItemFromObjectCaseSensitive.
  unfold cJSON_GetObjectItem_s, cJSON_GetObjectItemCaseSensitive_s, cJSON_GetObjectItem, cJSON_GetObjectItemCaseSensitive.
  split_and!; repeat (bext; try apply get_object_item_s_block).
Qed.
Theorem cJSON_AddItemToObject_s_block oracle (o n i : ptr) h :
  cJSON_AddItemToObject_s oracle o (cs_of_ptr n) i h = cJSON_AddItemToObject oracle o n i h.
Proof.
  unfold cJSON_AddItemToObject_s, cJSON_AddItemToObject, add_item_to_object. rewrite cs_is_null_block.
  destruct (is_null o || is_null n || is_null i || ptr_eqb o i); [done|].
  bext. bext. unfold cJSON_strdup_s, cJSON_strdup. rewrite cs_is_null_block. destruct (is_null n); [done|].
  bext. apply ld_cs_block.
Qed.
Theorem cJSONUtils_strdup_is_strdup oracle (b : positive) h : cJSONUtils_strdup oracle (Some b) h = cJSON_strdup oracle (Some b) h.
Proof. reflexivity. Qed.
Theorem u_get_array_item_is_core (a : positive) idx h : u_get_array_item (Some a) idx h = get_array_item (Some a) idx h.
Proof. reflexivity. Qed.

(** * 2. simulation at [WF] level *)
Lemma cs_ptr_eqb_reads h c nm (b : positive) (sb : list Z) :
  cs_ptr_eqb c (Some b) = true -> CsReads h c nm -> h_str h !! b = Some sb -> nm = cstr sb.
Proof.
  destruct c as [|b' [|off]|l]; cbn; try done. intros E%Pos.eqb_eq. subst b'.
  intros (_ & s' & Hs' & _ & ->) Hs. rewrite drop_0. unfold bytes in *. congruence.
Qed.

Section GOIs.
  Context (h : heap) (F : forest) (p : positive) (d : rdata) (cs : list tree) (c : cstring) (nm : bytes).
  Hypothesis W : WF h F.
  Hypothesis KR : KeysReadable h F.
  Hypothesis Hp : find_tree p F = Some (T p d cs).
  Hypothesis Hc : CsReads h c nm.
  Notation St := (h_str h).

  Let Hn : (p, d, tid <$> cs) ∈ flat F := find_tree_flat _ _ _ _ Hp.
  Let Hz : SortSpec.zfree nm := CsReads_zfree _ _ _ Hc.

  Lemma get_object_item_loop_cs_s_sim fuel (k : nat) :
    (length cs - k < fuel)%nat ->
    (cur <~ get_object_item_loop_cs_s fuel (tid <$> cs !! k) c ;; goi_post cur) h =
    Ret (find_key_cs St nm (drop k cs), h).
  Proof.
    revert k. induction fuel as [|fuel IH]; intros k Hf; [lia|].
    cbn [get_object_item_loop_cs_s]. destruct (cs !! k) as [ch|] eqn:Hk; cbn [fmap option_fmap option_map is_null].
    2:{ apply lookup_ge_None in Hk. by rewrite drop_ge by lia. }
    destruct (goi_child h F p d cs W KR Hp k ch Hk) as (Hlc & Hdc & Hnext & Hkr).
    rewrite (drop_lookup_cons _ _ _ Hk). cbn [find_key_cs]. unfold key_string.
    rewrite !bindM_assoc. rewrite (bindM_Ret _ _ _ _ _ (run_get_key_plain _ _ _ Hlc Hdc)).
    change (nd_key (mk_dat (tdata ch) (cids ch))) with (rd_key (tdata ch)).
    destruct (rd_key (tdata ch)) as [b|] eqn:Hkey; cbn [is_null mbind option_bind].
    2:{ rewrite bindM_ret. unfold goi_post. cbn [is_null].
        rewrite (bindM_Ret _ _ _ _ _ (run_get_key_plain _ _ _ Hlc Hdc)). cbn. by rewrite Hkey. }
    destruct (Hkr b eq_refl) as (Hbl & sb & Hbs & Hbz). unfold bytes in *. rewrite Hbs. cbn [mbind option_bind].
    rewrite !bindM_assoc. rewrite (bindM_Ret _ _ _ _ _ (run_ld_cs _ _ _ Hc)).
    rewrite !bindM_assoc. rewrite (bindM_Ret _ _ _ _ _ (run_ld_cstr _ _ _ Hbl Hbs Hbz)).
    destruct (Z.eqb_spec (strcmp nm (cstr sb)) 0) as [He|Hne]; cbn [negb].
    - apply strcmp_zero_iff in He; [|done|apply cstr_nonzero]. rewrite bool_decide_eq_true_2 by done.
      rewrite bindM_ret. unfold goi_post. cbn [is_null].
      rewrite (bindM_Ret _ _ _ _ _ (run_get_key_plain _ _ _ Hlc Hdc)). cbn. by rewrite Hkey.
    - rewrite bool_decide_eq_false_2 by (intros He; apply Hne; apply strcmp_zero_iff; [done|apply cstr_nonzero|done]).
      rewrite !bindM_assoc. rewrite (bindM_Ret _ _ _ _ _ Hnext).
      apply lookup_lt_Some in Hk. apply IH. lia.
  Qed.

  Lemma get_object_item_loop_ci_s_sim fuel (k : nat) :
    (length cs - k < fuel)%nat ->
    (cur <~ get_object_item_loop_ci_s fuel (tid <$> cs !! k) c ;; goi_post cur) h =
    Ret (find_key_ci St nm (drop k cs), h).
  Proof.
    revert k. induction fuel as [|fuel IH]; intros k Hf; [lia|].
    cbn [get_object_item_loop_ci_s]. destruct (cs !! k) as [ch|] eqn:Hk; cbn [fmap option_fmap option_map is_null].
    2:{ apply lookup_ge_None in Hk. by rewrite drop_ge by lia. }
    destruct (goi_child h F p d cs W KR Hp k ch Hk) as (Hlc & Hdc & Hnext & Hkr).
    rewrite (drop_lookup_cons _ _ _ Hk). cbn [find_key_ci]. unfold key_string.
    rewrite !bindM_assoc. rewrite (bindM_Ret _ _ _ _ _ (run_get_key_plain _ _ _ Hlc Hdc)).
    change (nd_key (mk_dat (tdata ch) (cids ch))) with (rd_key (tdata ch)).
    unfold case_insensitive_strcmp_s. rewrite (CsReads_not_null _ _ _ Hc).
    destruct (rd_key (tdata ch)) as [b|] eqn:Hkey; cbn [is_null orb mbind option_bind].
    2:{ rewrite !bindM_assoc, bindM_ret. cbn. rewrite !bindM_assoc. rewrite (bindM_Ret _ _ _ _ _ Hnext).
        apply lookup_lt_Some in Hk. apply IH. lia. }
    destruct (Hkr b eq_refl) as (Hbl & sb & Hbs & Hbz). unfold bytes in *. rewrite Hbs. cbn [mbind option_bind].
    assert (Hfound : goi_post (Some (tid ch)) h = Ret (Some (tid ch), h)).
    { unfold goi_post. cbn [is_null]. rewrite (bindM_Ret _ _ _ _ _ (run_get_key_plain _ _ _ Hlc Hdc)). cbn. by rewrite Hkey. }
    destruct (cs_ptr_eqb c (Some b)) eqn:Eptr.
    - (* the name IS the key block *)
      rewrite !bindM_assoc, bindM_ret. cbn [Z.eqb negb]. rewrite bindM_ret.
      assert (nm = cstr sb) as -> by (by eapply cs_ptr_eqb_reads).
      by rewrite bool_decide_eq_true_2.
    - rewrite !bindM_assoc. rewrite (bindM_Ret _ _ _ _ _ (run_ld_cs _ _ _ Hc)).
      rewrite !bindM_assoc. rewrite (bindM_Ret _ _ _ _ _ (run_ld_cstr _ _ _ Hbl Hbs Hbz)).
      rewrite bindM_ret.
      destruct (Z.eqb_spec (strcasecmp_c nm (cstr sb)) 0) as [He|Hne]; cbn [negb].
      + apply strcasecmp_zero_iff in He; [|done|apply cstr_nonzero]. rewrite bool_decide_eq_true_2 by done.
        by rewrite bindM_ret.
      + rewrite bool_decide_eq_false_2 by (intros He; apply Hne; apply strcasecmp_zero_iff; [done|apply cstr_nonzero|done]).
        rewrite !bindM_assoc. rewrite (bindM_Ret _ _ _ _ _ Hnext).
        apply lookup_lt_Some in Hk. apply IH. lia.
  Qed.

  Lemma get_object_item_s_sim (flag : bool) :
    is_ref d = false ->
    get_object_item_s (Some p) c flag h = Ret ((fun kc => tid kc.2) <$> found_member St flag nm cs, h).
  Proof.
    intros Href. destruct (WF_live_dat _ _ _ _ _ W Hp) as [Hlp Hdp].
    rewrite <- find_key_found.
    unfold get_object_item_s. rewrite (CsReads_not_null _ _ _ Hc). cbn [is_null orb].
    rewrite (bindM_Ret _ _ _ _ _ (run_get_child_plain _ _ _ Hlp Hdp)).
    change (nd_child (mk_dat d (tid <$> cs))) with (child_of d (tid <$> cs)).
    rewrite (ref_ok_child_of _ _ _ _ (wf_ref _ _ W) Hn Href). rewrite list_lookup_fmap.
    unfold heap_fuel. unfold bindM at 1.
    pose proof (chain_fuel _ _ _ _ _ W Hn) as Hfuel. rewrite fmap_length in Hfuel.
    destruct flag.
    - rewrite <- (drop_0 cs) at 2. apply (get_object_item_loop_cs_s_sim _ 0%nat). lia.
    - rewrite <- (drop_0 cs) at 2. apply (get_object_item_loop_ci_s_sim _ 0%nat). lia.
  Qed.

  Hypothesis Href : is_ref d = false.

  (** detach by key *)
  Lemma detach_by_key_s_none (flag : bool) :
    found_member St flag nm cs = None ->
    (to_detach <~ get_object_item_s (Some p) c flag ;; cJSON_DetachItemViaPointer (Some p) to_detach) h = Ret (None, h).
  Proof.
    intros E. rewrite (bindM_Ret _ _ _ _ _ (get_object_item_s_sim flag Href)). rewrite E. cbn [fmap option_fmap option_map].
    exact (proj2 (cJSON_DetachItemViaPointer_null F (Some p) None h (or_intror eq_refl))).
  Qed.
  Lemma detach_by_key_s_found (flag : bool) j m :
    found_member St flag nm cs = Some (j, m) ->
    let F' := set_children p (delete j cs) F ++ [m] in
    (to_detach <~ get_object_item_s (Some p) c flag ;; cJSON_DetachItemViaPointer (Some p) to_detach) h =
      Ret (Some (tid m), upd_maps h (heap_lnk_of F') (heap_dat_of F')) /\
    WF (upd_maps h (heap_lnk_of F') (heap_dat_of F')) F' /\ cs !! j = Some m.
  Proof.
    intros E F'. pose proof (found_member_lookup _ _ _ _ _ _ E) as Hj.
    destruct (cJSON_DetachItemViaPointer_sim h F p (tid m) d cs j m W Hp Hj eq_refl) as (_ & Hrun & W').
    rewrite (bindM_Ret _ _ _ _ _ (get_object_item_s_sim flag Href)). rewrite E. done.
  Qed.
End GOIs.

(** [cJSON_strdup] of a string argument *)
Lemma cJSON_strdup_s_ok oracle h c nm :
  CsReads h c nm -> oracle (h_req h) = false ->
  cJSON_strdup_s oracle c h = Ret (Some (h_next h), alloc_str h (nm ++ [0])).
Proof.
  intros Hc Ho. unfold cJSON_strdup_s. rewrite (CsReads_not_null _ _ _ Hc).
  rewrite (bindM_Ret _ _ _ _ _ (run_ld_cs _ _ _ Hc)).
  unfold alloc_bytes. unfold bindM at 1. rewrite Ho. cbn [is_null].
  match goal with |- bindM _ _ ?h1 = _ => set (H1 := h1) end.
  assert (Hst : st_str (Some (h_next h)) (nm ++ [0]) H1 =
                Ret (tt, set_str H1 (<[h_next h := nm ++ [0]]> (h_str H1)))).
  { apply (run_st_str H1 (h_next h) (repeat 0 (S (length nm)))).
    - unfold H1. cbn. set_solver.
    - unfold H1. cbn. by rewrite lookup_insert.
    - unfold H1. cbn. by rewrite lookup_insert.
    - rewrite app_length, repeat_length. cbn. lia. }
  rewrite (bindM_Ret _ _ _ _ _ Hst). unfold ret. do 2 f_equal. unfold set_str, alloc_str, H1. cbn. f_equal.
  by rewrite insert_insert.
Qed.

(** * 3. [Cons] for the functions of PatchHeapDefs.v (and of TierBridgeUtilsDefs.v) *)
Lemma Cons_ld_byte c i : Cons (ld_byte c i).
Proof. unfold ld_byte. cons. Qed.
Lemma Cons_ld_cs c : Cons (ld_cs c).
Proof. unfold ld_cs. cons. Qed.
Lemma Cons_st_byte c i v : Cons (st_byte c i v).
Proof. unfold st_byte. cons. Qed.
Lemma Cons_cs_fuel c : Cons (cs_fuel c).
Proof. unfold cs_fuel. cons. Qed.
Lemma Cons_cJSON_IsArray p : Cons (cJSON_IsArray p).
Proof. unfold cJSON_IsArray. cons. Qed.
Lemma Cons_cJSON_IsObject' p : Cons (cJSON_IsObject p).
Proof. unfold cJSON_IsObject. cons. Qed.
Global Hint Resolve Cons_ld_byte Cons_ld_cs Cons_st_byte Cons_cs_fuel Cons_cJSON_IsArray Cons_cJSON_IsObject' : cons.

Lemma Cons_case_insensitive_strcmp_s a b : Cons (case_insensitive_strcmp_s a b).
Proof. unfold case_insensitive_strcmp_s. cons. Qed.
Global Hint Resolve Cons_case_insensitive_strcmp_s : cons.
Lemma Cons_get_object_item_loop_cs_s fuel : forall c n, Cons (get_object_item_loop_cs_s fuel c n).
Proof. induction fuel as [|f IH]; intros c n; cbn [get_object_item_loop_cs_s]; [cons|]. cons; try apply IH. Qed.
Lemma Cons_get_object_item_loop_ci_s fuel : forall c n, Cons (get_object_item_loop_ci_s fuel c n).
Proof. induction fuel as [|f IH]; intros c n; cbn [get_object_item_loop_ci_s]; [cons|]. cons; try apply IH. Qed.
Lemma Cons_get_object_item_s o n cs : Cons (get_object_item_s o n cs).
Proof.
  unfold get_object_item_s. cons; try first [apply Cons_get_object_item_loop_cs_s|apply Cons_get_object_item_loop_ci_s].
Qed.
Global Hint Resolve Cons_get_object_item_s : cons.
Lemma Cons_cJSON_DetachItemFromObject_s o n : Cons (cJSON_DetachItemFromObject_s o n).
Proof. unfold cJSON_DetachItemFromObject_s, cJSON_GetObjectItem_s. cons. Qed.
Lemma Cons_cJSON_DetachItemFromObjectCaseSensitive_s o n : Cons (cJSON_DetachItemFromObjectCaseSensitive_s o n).
Proof. unfold cJSON_DetachItemFromObjectCaseSensitive_s, cJSON_GetObjectItemCaseSensitive_s. cons. Qed.
Global Hint Resolve Cons_cJSON_DetachItemFromObject_s Cons_cJSON_DetachItemFromObjectCaseSensitive_s : cons.
Lemma Cons_cJSON_DeleteItemFromObject_s o n : Cons (cJSON_DeleteItemFromObject_s o n).
Proof. unfold cJSON_DeleteItemFromObject_s. cons. Qed.
Lemma Cons_cJSON_DeleteItemFromObjectCaseSensitive_s o n : Cons (cJSON_DeleteItemFromObjectCaseSensitive_s o n).
Proof. unfold cJSON_DeleteItemFromObjectCaseSensitive_s. cons. Qed.
Global Hint Resolve Cons_cJSON_DeleteItemFromObject_s Cons_cJSON_DeleteItemFromObjectCaseSensitive_s : cons.

Lemma Cons_u_walk fuel : forall c w, Cons (u_walk fuel c w).
Proof. induction fuel as [|f IH]; intros c w; cbn [u_walk]; [cons|]. cons; try apply IH. Qed.
Lemma Cons_detach_item_from_array a w : Cons (detach_item_from_array a w).
Proof. unfold detach_item_from_array. cons; try apply Cons_u_walk. Qed.
Lemma Cons_insert_item_in_array a w n : Cons (insert_item_in_array a w n).
Proof. unfold insert_item_in_array, cJSON_AddItemToArray. cons; try apply Cons_u_walk. Qed.
Global Hint Resolve Cons_detach_item_from_array Cons_insert_item_in_array : cons.

Section PatchCons.
  Variable oracle : nat -> bool.
  Lemma Cons_cJSON_strdup_s s : Cons (cJSON_strdup_s oracle s).
  Proof. unfold cJSON_strdup_s. cons. Qed.
  Hint Resolve Cons_cJSON_strdup_s : cons.
  Lemma Cons_cJSON_AddItemToObject_s o s i : Cons (cJSON_AddItemToObject_s oracle o s i).
  Proof. unfold cJSON_AddItemToObject_s. cons. Qed.
  Lemma Cons_cJSONUtils_strdup s : Cons (cJSONUtils_strdup oracle s).
  Proof. unfold cJSONUtils_strdup, cJSON_malloc. cons. Qed.
  Lemma Cons_u_get_array_item a i : Cons (u_get_array_item a i).
  Proof. unfold u_get_array_item. cons; try apply Cons_get_array_item_loop. Qed.
  Lemma Cons_decode_array_index_from_pointer p : Cons (decode_array_index_from_pointer p).
  Proof. unfold decode_array_index_from_pointer. cons. Qed.
  Lemma Cons_compare_pointers n p cs : Cons (compare_pointers n p cs).
  Proof. unfold compare_pointers. cons. Qed.
  Hint Resolve Cons_u_get_array_item Cons_decode_array_index_from_pointer Cons_compare_pointers : cons.
  Lemma Cons_skip_token_loop fuel : forall p, Cons (skip_token_loop fuel p).
  Proof. induction fuel as [|f IH]; intros p; cbn [skip_token_loop]; [cons|]. cons; try apply IH. Qed.
  Lemma Cons_gip_member_loop fuel : forall c p cs, Cons (gip_member_loop fuel c p cs).
  Proof. induction fuel as [|f IH]; intros c p cs; cbn [gip_member_loop]; [cons|]. cons; try apply IH. Qed.
  Lemma Cons_get_item_from_pointer_loop tf sf lf : forall c p cs, Cons (get_item_from_pointer_loop tf sf lf c p cs).
  Proof.
    induction tf as [|f IH]; intros c p cs; cbn [get_item_from_pointer_loop]; [cons|].
    cons; try first [apply IH|apply Cons_skip_token_loop|apply Cons_gip_member_loop].
  Qed.
  Lemma Cons_get_item_from_pointer o p cs : Cons (get_item_from_pointer o p cs).
  Proof. unfold get_item_from_pointer. cons; try apply Cons_get_item_from_pointer_loop. Qed.
  Lemma Cons_strrchr_slash s : Cons (strrchr_slash s).
  Proof. unfold strrchr_slash. cons. Qed.
  Lemma Cons_decode_pointer_inplace s : Cons (decode_pointer_inplace s).
  Proof. unfold decode_pointer_inplace. cons. Qed.
  Hint Resolve Cons_get_item_from_pointer Cons_strrchr_slash Cons_decode_pointer_inplace Cons_cJSONUtils_strdup : cons.
  Lemma Cons_detach_path o p cs : Cons (detach_path oracle o p cs).
  Proof. unfold detach_path, cJSON_free. cons. Qed.
End PatchCons.
Global Hint Resolve Cons_cJSON_strdup_s Cons_cJSON_AddItemToObject_s Cons_cJSONUtils_strdup Cons_u_get_array_item
  Cons_decode_array_index_from_pointer Cons_compare_pointers Cons_get_item_from_pointer Cons_strrchr_slash
  Cons_decode_pointer_inplace Cons_detach_path : cons.

(** * 4. cJSON_AddItemToObject with a string argument: the copy of the name is the fresh block *)
Section AddToObjectS.
  Context (oracle : nat -> bool) (h : heap) (F : forest) (p x : positive) (d dp : rdata) (cs csp : list tree)
          (c : cstring) (nm : bytes).
  Hypothesis W : WF h F.
  Hypothesis Hpx : p <> x.
  Hypothesis Hx : find_root x F = Some (T x d cs).
  Hypothesis Hp : find_tree p (remove_root x F) = Some (T p dp csp).
  Hypothesis Href : is_ref dp = false.
  Hypothesis Hc : CsReads h c nm.

  Lemma cJSON_AddItemToObject_s_sim_owned :
    oracle (h_req h) = false ->
    let nk := h_next h in
    let d' := rd_owned_key d nk in
    let F' := set_children p (csp ++ [T x d' cs]) (remove_root x F) in
    let hb := free_all (old_key d) (alloc_str h (nm ++ [0])) in
    cJSON_AddItemToObject_s oracle (Some p) c (Some x) h =
      Ret (true, upd_maps hb (heap_lnk_of F') (heap_dat_of F')) /\
    WF (upd_maps hb (heap_lnk_of F') (heap_dat_of F')) F'.
  Proof.
    intros Ho nk d' F' hb.
    set (ha := alloc_str h (nm ++ [0])).
    pose proof (WF_alloc_str h F (nm ++ [0]) W) as Wa. fold ha in Wa.
    destruct (ato_focus h F x d cs W Hx d') as (FL & E1 & E2 & Hin).
    destruct (ato_tail h F p x d dp cs csp W Hpx Hx Hp Href ha d' (Some nk) (clear_flag (rd_type d) c_cJSON_StringIsConst) Wa) as (T1 & T2 & T3).
    { reflexivity. }
    { apply is_ref_set_key_clear. }
    { intros b Hb. unfold old_key, d' in Hb. rewrite is_const_set_key_clear in Hb. cbn in Hb.
      apply elem_of_list_singleton in Hb as ->. split_and!.
      - intros Hin'. exact (Pos.lt_irrefl _ (wf_fresh _ _ W _ Hin')).
      - unfold ha. cbn. set_solver.
      - unfold ha. cbn. by rewrite lookup_insert.
      - unfold ha. cbn. apply Pos.lt_succ_diag_r. }
    { unfold old_key, d'. rewrite is_const_set_key_clear. cbn. apply NoDup_singleton. }
    split; [|exact T3].
    unfold cJSON_AddItemToObject_s. rewrite (CsReads_not_null _ _ _ Hc). cbn [is_null orb]. rewrite (ptr_eqb_Some_ne _ _ Hpx).
    rewrite !bindM_assoc. rewrite (bindM_Ret _ _ _ _ _ (cJSON_strdup_s_ok oracle h c nm Hc Ho)).
    cbn [is_null]. fold ha.
    assert (Hlx : x ∈ h_live ha).
    { apply (WF_ids_live _ _ _ Wa). rewrite ids_flat. apply elem_of_list_fmap. by exists (x, d, tid <$> cs). }
    rewrite !bindM_assoc. rewrite (bindM_Ret _ _ _ _ _ (run_get_type_plain _ _ _ Hlx (WF_lookup_dat _ _ _ _ _ Wa Hin))).
    rewrite bindM_ret. exact T2.
  Qed.
End AddToObjectS.
