(** LibcG17R.v — powers of ten as real numbers (Flocq's [bpow] at radix 10), shared by the
    LibcG17*.v files. *)
From Coq Require Import ZArith Reals Lia Lra.
From Flocq Require Import Core.Core.
Local Open Scope Z_scope.

Definition r10 : radix := Build_radix 10 eq_refl.

Lemma IZR_pow10 k : 0 <= k -> IZR (10 ^ k) = bpow r10 k.
Proof. intro H. exact (IZR_Zpower r10 k H). Qed.

Lemma IZR_pow2 k : 0 <= k -> IZR (2 ^ k) = bpow radix2 k.
Proof. intro H. exact (IZR_Zpower radix2 k H). Qed.

Lemma bpow10_succ k : bpow r10 (k + 1) = (10 * bpow r10 k)%R.
Proof. rewrite bpow_plus_1. reflexivity. Qed.

(** 2^53 < 10^16: the reason 17 significant digits identify a binary64 value *)
Lemma pow2_53_lt_pow10_16 : (bpow radix2 53 < bpow r10 16)%R.
Proof.
  rewrite <- IZR_pow2, <- IZR_pow10 by lia. apply IZR_lt. reflexivity.
Qed.
