(** GenPatchHeapCompose.v — stage 2: the heap-level [compose_patch] of GenPatchHeapDefs.v refines
    [PatchDefs.compose_patch].

    The patches array is the LAST root [T x d pcs] of the forest [A ++ [T x d pcs]]; [operation], [path], [suffix] are
    readable string arguments that are literals, blocks owned by the untouched part [A] (the name of a member of an
    operand), or blocks outside the forest (the caller's temporary path block); [value] is NULL or a node of [A] nested
    at most CJSON_CIRCULAR_LIMIT deep.  Then the run returns without memory error; the array has one more element
    [m], which reifies to the operation object of the value-level model; the cJSON_malloc'ed [full_path] has been
    released; the whole call is a [Step] (GenPatchHeapSteps.v): nothing outside the forest is touched, nothing the
    forest owned changes, the ledger grows by exactly the blocks of [m]. *)
From CJ Require Import Base Dbl Heap Forest ForestLemmas CoreSpec CoreDefs CoreRefineBase CoreRefine CoreRefineMore
  CoreRefineFrame CoreRefineHistory CoreRefineAddObject CoreRefineDupValue CoreRefineDupForest CoreRefineCreate CoreLedgerGen.
From CJ Require Import TierBridgeDefs TierBridgeForest TierBridgeLemmas TierBridgeE2E2.
From CJ Require Import MergeHeapDefs MergeHeapInv MergeHeapProofs GenMergeHeapDefs GenMergeHeapForest
  PatchHeapDefs PatchHeapPointer PatchHeapStr PatchHeapSteps PatchHeapOps GenPatchHeapDefs GenPatchHeapBytes GenPatchHeapSteps.
From CJ Require Tree PointerDefs PatchDefs CompareDefs SortSpec.
From CJ.gen Require Import Constants.
From stdpp Require Import gmap.
From Coq Require Import Lia.
Local Open Scope Z_scope.

Import PatchDefs (s_op, s_path, s_value, s_add, s_remove, s_replace, s_dash).

(** * string arguments that survive the steps of the generation *)
Definition cs_good (A F : forest) (c : cstring) : Prop :=
  forall b off, c = CAt b off -> b ∈ owned A \/ b ∉ owned F.

Lemma cs_good_stable A R R' c : cs_good A (A ++ R) c -> cs_stable [] (A ++ R) (A ++ R') c.
Proof.
  intros Hg b off E. destruct (Hg b off E) as [Ho|Hn].
  - right. rewrite !owned_app. split; apply elem_of_app; by left.
  - left. split; [done|]. by intros Hin%elem_of_nil.
Qed.

Lemma cs_good_lit A F l : cs_good A F (CLit l).
Proof. by intros b off E. Qed.
Lemma cs_good_null A F : cs_good A F CNull.
Proof. by intros b off E. Qed.

Lemma zfree_encode (s : bytes) : SortSpec.zfree s -> SortSpec.zfree (PointerDefs.encode_string_as_pointer s).
Proof.
  induction s as [|c r IH]; intros H; [constructor|]. apply Forall_cons in H as [Hc Hr]. cbn [PointerDefs.encode_string_as_pointer].
  destruct (c =? 47); [repeat constructor; [done|done|by apply IH]|].
  destruct (c =? 126); [repeat constructor; [done|done|by apply IH]|].
  constructor; [done|by apply IH].
Qed.

Lemma zfree_lits : SortSpec.zfree s_op /\ SortSpec.zfree s_path /\ SortSpec.zfree s_value /\
  SortSpec.zfree s_add /\ SortSpec.zfree s_remove /\ SortSpec.zfree s_replace /\ SortSpec.zfree s_dash.
Proof. repeat split; repeat constructor; done. Qed.

(** * members of the operation object under construction: forest [F0 ++ [T y od ms]] *)
Section Members.
  Context (F0 : forest) (y : positive) (od : rdata).

  Lemma member_nodes ms c (R : forest) : c ∈ ms -> c ∈ nodes ((F0 ++ [T y od ms]) ++ R).
  Proof.
    intros Hc. rewrite nodes_app. apply elem_of_app. left. rewrite nodes_app. apply elem_of_app. right.
    apply (TierBridgeForest.child_in_nodes _ y od ms c); [|done]. apply roots_in_nodes. by left.
  Qed.
  Lemma member_nodes' ms ms' c : c ∈ ms -> c ∈ nodes (F0 ++ [T y od (ms ++ ms')]).
  Proof.
    intros Hc. rewrite nodes_app. apply elem_of_app. right.
    apply (TierBridgeForest.child_in_nodes _ y od (ms ++ ms') c); [apply roots_in_nodes; by left|]. apply elem_of_app. by left.
  Qed.

  (** cJSON_AddItemToObject(patch, "literal", last root) *)
  Lemma add_member h ms (item : tree) (lit : bytes) :
    MInv h ((F0 ++ [T y od ms]) ++ [item]) -> SortSpec.zfree lit ->
    exists h' m, cJSON_AddItemToObject_s nofail (Some y) (CLit lit) (Some (tid item)) h = Ret (true, h') /\
      MInv h' (F0 ++ [T y od (ms ++ [m])]) /\
      Step [] h ((F0 ++ [T y od ms]) ++ [item]) h' (F0 ++ [T y od (ms ++ [m])]) /\
      map (reify (h_str h')) (ms ++ [m]) = map (reify (h_str h)) ms ++ [PatchDefs.keyed (reify (h_str h) item) lit].
  Proof.
    intros I Hz. destruct item as [i di csi]. cbn [tid].
    destruct (S_add_lit h F0 y i od di ms csi lit I Hz) as (h' & Hrun & I' & S & V).
    exists h', (T i (rd_owned_key di (h_next h)) csi). split; [exact Hrun|]. split; [exact I'|]. split; [exact S|].
    rewrite map_app. cbn [map]. rewrite V. f_equal.
    apply (reify_step_list [] h _ h' _ ms I I' S). intros c Hc. split; [by apply member_nodes|by apply member_nodes'].
  Qed.

  (** cJSON_AddItemToObject(patch, "literal", cJSON_CreateString(c)) *)
  Lemma string_member h ms c nm (lit : bytes) :
    MInv h (F0 ++ [T y od ms]) -> CsReads h c nm -> SortSpec.zfree lit ->
    exists h' m,
      (forall A (K : M A),
         (s <~ cJSON_CreateString_s nofail c ;; cJSON_AddItemToObject_s nofail (Some y) (CLit lit) s ;;; K) h = K h') /\
      MInv h' (F0 ++ [T y od (ms ++ [m])]) /\
      Step [] h (F0 ++ [T y od ms]) h' (F0 ++ [T y od (ms ++ [m])]) /\
      map (reify (h_str h')) (ms ++ [m]) = map (reify (h_str h)) ms ++ [PatchDefs.keyed (PatchDefs.create_string nm) lit].
  Proof.
    intros I Hc Hz. destruct (S_create_string h _ c nm I Hc) as (h1 & Hrun1 & I1 & S1 & _ & V1).
    set (t := T (h_next h) (rd_string c_cJSON_String (Pos.succ (h_next h))) []) in *.
    destruct (add_member h1 ms t lit I1 Hz) as (h2 & m & Hrun2 & I2 & S2 & V2).
    exists h2, m. split; [|split; [exact I2|split; [exact (Step_trans _ _ _ _ _ _ _ I S1 S2)|]]].
    - intros A K. rewrite (bindM_Ret _ _ _ _ _ Hrun1). cbn [tid t] in Hrun2. by rewrite (bindM_Ret _ _ _ _ _ Hrun2).
    - rewrite V2, V1. f_equal. apply (reify_step_list [] h _ h1 _ ms I I1 S1). intros c0 Hc0. split.
      + rewrite <- (app_nil_r (F0 ++ [T y od ms])). by apply member_nodes.
      + by apply member_nodes.
  Qed.

  (** cJSON_AddItemToObject(patch, "literal", cJSON_Duplicate(node, 1)) *)
  Lemma dup_member h ms (tv : tree) (lit : bytes) :
    MInv h (F0 ++ [T y od ms]) -> find_tree (tid tv) (F0 ++ [T y od ms]) = Some tv -> (height tv <= LIMIT)%nat ->
    SortSpec.zfree lit ->
    exists h' m dv,
      (forall A (K : M A),
         (v <~ cJSON_Duplicate nofail (Some (tid tv)) true ;; cJSON_AddItemToObject_s nofail (Some y) (CLit lit) v ;;; K) h = K h') /\
      MInv h' (F0 ++ [T y od (ms ++ [m])]) /\
      Step [] h (F0 ++ [T y od ms]) h' (F0 ++ [T y od (ms ++ [m])]) /\
      PatchDefs.cJSON_Duplicate (reify (h_str h) tv) = Some dv /\
      map (reify (h_str h')) (ms ++ [m]) = map (reify (h_str h)) ms ++ [PatchDefs.keyed dv lit].
  Proof.
    intros I Hf Hh Hz. destruct (S_dup h _ (tid tv) tv I Hf Hh) as (tc & h1 & Hrun1 & I1 & S1 & V1).
    destruct (add_member h1 ms tc lit I1 Hz) as (h2 & m & Hrun2 & I2 & S2 & V2).
    exists h2, m, (reify (h_str h1) tc). split; [|split; [exact I2|split; [exact (Step_trans _ _ _ _ _ _ _ I S1 S2)|split; [exact V1|]]]].
    - intros A K. rewrite (bindM_Ret _ _ _ _ _ Hrun1). by rewrite (bindM_Ret _ _ _ _ _ Hrun2).
    - rewrite V2. f_equal. apply (reify_step_list [] h _ h1 _ ms I I1 S1). intros c0 Hc0. split.
      + rewrite <- (app_nil_r (F0 ++ [T y od ms])). by apply member_nodes.
      + by apply member_nodes.
  Qed.
End Members.

(** * the "path" member with a suffix: full_path = cJSON_malloc(...); sprintf("%s/"); encode; CreateString; Add; free *)
Lemma take_app_exact {A} (l k : list A) (n : nat) : n = length l -> take n (l ++ k) = l.
Proof. intros ->. apply take_app. Qed.

Lemma path_member h F0 y od ms path pnm suffix sfx :
  MInv h (F0 ++ [T y od ms]) -> CsReads h path pnm -> CsReads h suffix sfx ->
  let full := pnm ++ [47] ++ PointerDefs.encode_string_as_pointer sfx in
  exists h' m,
    (suffix_length <~ pointer_encoded_length suffix ;;
     path_length <~ c_strlen path ;;
     full_path <~ cJSON_malloc nofail (repeat junk (path_length + suffix_length + 2)) ;;
     sprintf_s_slash (cs_of_ptr full_path) path ;;;
     encode_string_as_pointer (cs_plus (cs_of_ptr full_path) (path_length + 1)) suffix ;;;
     p <~ cJSON_CreateString_s nofail (cs_of_ptr full_path) ;;
     cJSON_AddItemToObject_s nofail (Some y) (CLit s_path) p ;;;
     cJSON_free full_path) h = Ret (tt, h') /\
    MInv h' (F0 ++ [T y od (ms ++ [m])]) /\
    Step [] h (F0 ++ [T y od ms]) h' (F0 ++ [T y od (ms ++ [m])]) /\
    map (reify (h_str h')) (ms ++ [m]) = map (reify (h_str h)) ms ++ [PatchDefs.keyed (PatchDefs.create_string full) s_path].
Proof.
  intros I Hp Hs full. set (F := F0 ++ [T y od ms]) in *.
  set (enc := PointerDefs.encode_string_as_pointer sfx) in *.
  set (n := (length pnm + PointerDefs.pointer_encoded_length sfx + 2)%nat).
  set (B := h_next h). set (buf := repeat junk n). set (h1 := alloc_str h buf).
  destruct (Tmp_alloc h F buf I) as [I1 T1]. fold h1 B in I1, T1.
  destruct T1 as (HBl & HBo & HBn & _).
  assert (HBs : h_str h1 !! B = Some buf) by (cbn; by rewrite lookup_insert).
  assert (Hblk : forall c nm0 b off, CsReads h c nm0 -> c = CAt b off -> b <> B).
  { intros c nm0 b off Hc -> ->. destruct Hc as [Hl _]. pose proof (MInv_live_below _ _ I _ Hl). unfold B in *. lia. }
  assert (Htr : forall c nm0, CsReads h c nm0 -> CsReads h1 c nm0).
  { intros c nm0 Hc. apply (CsReads_transfer h h1 c nm0 Hc). intros b off E. split.
    - cbn. rewrite lookup_insert_ne; [done|]. intros <-. by apply (Hblk c nm0 B off Hc E).
    - destruct c as [| |]; try done. injection E as -> ->. destruct Hc as [Hl _]. cbn. set_solver. }
  pose proof (Htr _ _ Hp) as Hp1. pose proof (Htr _ _ Hs) as Hs1.
  (* the two stores *)
  assert (Hlen_enc : PointerDefs.pointer_encoded_length sfx = length enc) by reflexivity.
  assert (Hbuf : length buf = n) by (unfold buf; by rewrite repeat_length).
  set (buf1 := pnm ++ [47; 0] ++ drop (length pnm + 2) buf).
  assert (Hrun_sp : sprintf_s_slash (CAt B 0) path h1 = Ret (tt, wrB h1 B buf1)).
  { apply (run_sprintf_s_slash h1 B buf path pnm HBl HBo HBs Hp1). rewrite Hbuf. unfold n. lia. }
  assert (Hlen1 : length buf1 = n).
  { unfold buf1. rewrite !app_length, drop_length, Hbuf. cbn [length]. unfold n. lia. }
  set (h2 := wrB h1 B buf1).
  assert (Hs2 : CsReads h2 suffix sfx).
  { apply (CsReads_wrB h1 B suffix sfx buf1 Hs1). intros off E. by apply (Hblk suffix sfx B off Hs E). }
  set (off := (length pnm + 1)%nat).
  set (buf2 := take off buf1 ++ enc ++ 0 :: drop (off + length enc + 1) buf1).
  assert (Hrun_enc : encode_string_as_pointer (CAt B off) suffix h2 = Ret (tt, wrB h2 B buf2)).
  { apply (encode_string_as_pointer_refines h2 B buf1 off suffix sfx); [exact HBl|exact HBo|apply lookup_insert|exact Hs2| |].
    - intros o E. by apply (Hblk suffix sfx B o Hs E).
    - fold enc. rewrite Hlen1. unfold off, n. rewrite Hlen_enc. lia. }
  assert (E2 : buf2 = full ++ [0]).
  { unfold buf2, buf1, off, full. replace (pnm ++ [47; 0] ++ drop (length pnm + 2) buf) with ((pnm ++ [47]) ++ 0 :: drop (length pnm + 2) buf) by (by rewrite <- app_assoc).
    rewrite (take_app_exact (pnm ++ [47])) by (rewrite app_length; cbn; lia).
    rewrite drop_ge; [by rewrite <- !app_assoc|].
    rewrite app_length, app_length. cbn [length]. rewrite drop_length, Hbuf. unfold n. rewrite Hlen_enc. lia. }
  set (h3 := wrB h1 B buf2).
  assert (Eh3 : wrB h2 B buf2 = h3) by apply wrB_wrB.
  assert (Hlen2 : length buf2 = length buf).
  { rewrite E2, Hbuf. unfold full, n. rewrite !app_length. cbn [length]. fold enc. rewrite Hlen_enc. lia. }
  assert (I3 : MInv h3 F) by (apply MInv_wrB; [done|done|by exists buf]).
  assert (Sw : Step [B] h1 F h3 F) by (apply (Step_write [B] h1 F B buf2 buf); [by left|done|done|done]).
  assert (Hzfull : SortSpec.zfree full).
  { unfold full. apply Forall_app. split; [by eapply CsReads_zfree|]. apply Forall_app. split; [repeat constructor; done|].
    apply zfree_encode. by eapply CsReads_zfree. }
  assert (Hc3 : CsReads h3 (CAt B 0) full).
  { split; [exact HBl|]. exists buf2. split; [apply lookup_insert|]. rewrite drop_0, E2. split.
    - rewrite existsb_app. cbn. by rewrite orb_true_r.
    - symmetry. by apply (cstr_app_zero full []). }
  destruct (string_member F0 y od h3 ms (CAt B 0) full s_path I3 Hc3 (proj1 (proj2 zfree_lits))) as (h4 & m & Hrun4 & I4 & S4 & V4).
  set (F' := F0 ++ [T y od (ms ++ [m])]) in *.
  assert (S14 : Step [B] h1 F h4 F').
  { apply (Step_trans [B] h1 F h3 F h4 F' I1 Sw). apply (Step_mono [] [B]); [by intros b Hb%elem_of_nil|exact S4]. }
  assert (T4 : Tmp h4 F' B n).
  { apply (Tmp_step [B] h1 F h4 F' B n I1 S14). split; [done|]. split; [done|]. split; [done|]. by exists buf. }
  destruct (Tmp_free h4 F' B n I4 T4) as [Hrun5 I5].
  exists (free1 B h4), m. split; [|split; [exact I5|split; [exact (Step_bracket [] h F buf h4 F' I S14)|]]].
  - rewrite (bindM_Ret _ _ _ _ _ (pointer_encoded_length_refines h suffix sfx Hs)).
    rewrite (bindM_Ret _ _ _ _ _ (run_c_strlen h path pnm Hp)).
    rewrite (bindM_Ret _ _ _ _ _ (run_malloc_nofail _ h)). fold n buf h1 B. cbn [cs_of_ptr cs_plus Nat.add].
    rewrite (bindM_Ret _ _ _ _ _ Hrun_sp). fold h2 off. rewrite (bindM_Ret _ _ _ _ _ Hrun_enc). rewrite Eh3.
    rewrite (Hrun4 _ _). exact Hrun5.
  - assert (Eh4 : forall c, c ∈ ms ++ [m] -> reify (h_str (free1 B h4)) c = reify (h_str h4) c).
    { intros c Hc. apply reify_frame. intros b Hb. cbn. rewrite lookup_delete_ne; [done|]. intros <-.
      destruct T4 as (_ & _ & Hno & _). apply Hno.
      apply (str_blocks_in_owned F' c B (mi_own _ _ I4)); [|done]. unfold F'. rewrite nodes_app. apply elem_of_app. right.
      apply (TierBridgeForest.child_in_nodes _ y od (ms ++ [m]) c); [apply roots_in_nodes; by left|done]. }
    rewrite (map_ext_in _ _ _ (fun c Hc => Eh4 c (proj2 (elem_of_list_In _ _) Hc))). rewrite V4. f_equal.
    apply map_ext_in. intros c Hc. apply elem_of_list_In in Hc.
    assert (Hcn : c ∈ nodes F).
    { unfold F. rewrite nodes_app. apply elem_of_app. right.
      apply (TierBridgeForest.child_in_nodes _ y od ms c); [apply roots_in_nodes; by left|done]. }
    transitivity (reify (h_str h1) c).
    + apply reify_frame. intros b Hb. unfold h3. rewrite wrB_str, lookup_insert_ne; [done|]. intros <-. apply HBn.
      by apply (str_blocks_in_owned F c B (mi_own _ _ I)).
    + apply reify_frame. intros b Hb. unfold h1, alloc_str. cbn [h_str]. rewrite lookup_insert_ne; [done|]. intros <-. apply HBn.
      by apply (str_blocks_in_owned F c B (mi_own _ _ I)).
Qed.

(** * STAGE 2: compose_patch *)
Theorem compose_patch_sim h A x d pcs (operation path suffix : cstring) (opnm pnm : bytes) (sfx : option bytes) (value : option tree) :
  MInv h (A ++ [T x d pcs]) ->
  CsReads h operation opnm -> CsReads h path pnm ->
  match sfx with None => suffix = CNull | Some s => CsReads h suffix s end ->
  cs_good A (A ++ [T x d pcs]) operation -> cs_good A (A ++ [T x d pcs]) path -> cs_good A (A ++ [T x d pcs]) suffix ->
  (forall tv, value = Some tv -> find_tree (tid tv) A = Some tv /\ (height tv <= LIMIT)%nat) ->
  exists h' m,
    compose_patch nofail (Some x) operation path suffix (tid <$> value) h = Ret (tt, h') /\
    MInv h' (A ++ [T x d (pcs ++ [m])]) /\
    Step [] h (A ++ [T x d pcs]) h' (A ++ [T x d (pcs ++ [m])]) /\
    forall ps, PatchDefs.compose_patch ps opnm pnm sfx (reify (h_str h) <$> value) = ps ++ [reify (h_str h') m].
Proof.
  intros I Hop Hp Hsfx Gop Gp Gs Hval. set (F0 := A ++ [T x d pcs]) in *.
  destruct zfree_lits as (Zop & Zpath & Zvalue & _).
  unfold compose_patch. rewrite (CsReads_not_null _ _ _ Hop), (CsReads_not_null _ _ _ Hp). cbn [is_null orb].
  (* patch = cJSON_CreateObject() *)
  destruct (S_create_typed h F0 c_cJSON_Object I eq_refl eq_refl) as (h1 & Hrun1 & I1 & S1 & Es1 & _).
  set (y := h_next h) in *. set (od := rd_typed c_cJSON_Object) in *.
  unfold cJSON_CreateObject. rewrite (bindM_Ret _ _ _ _ _ Hrun1). cbn [is_null].
  assert (Hst : forall c ms, cs_good A F0 c -> cs_stable [] F0 (F0 ++ [T y od ms]) c).
  { intros c ms Hg. unfold F0. rewrite <- app_assoc. by apply cs_good_stable. }
  assert (Rd : forall hk ms c nm, MInv hk (F0 ++ [T y od ms]) -> Step [] h F0 hk (F0 ++ [T y od ms]) -> cs_good A F0 c ->
                 CsReads h c nm -> CsReads hk c nm).
  { intros hk ms c nm Ik Sk Hg Hc. exact (CsReads_step [] h F0 hk _ c nm Ik Sk (Hst c ms Hg) Hc). }
  (* "op" *)
  destruct (string_member F0 y od h1 [] operation opnm s_op I1 (Rd h1 [] _ _ I1 S1 Gop Hop) Zop) as (h2 & m1 & Hrun2 & I2 & S2 & V2).
  rewrite (Hrun2 _ _). cbn [app] in I2, S2, V2.
  pose proof (Step_trans _ _ _ _ _ _ _ I S1 S2) as S02.
  (* "path" *)
  assert (Hpath : exists h3 m2,
            (if cs_is_null suffix then
               p <~ cJSON_CreateString_s nofail path ;; cJSON_AddItemToObject_s nofail (Some y) (CLit s_path) p ;;; ret tt
             else
               suffix_length <~ pointer_encoded_length suffix ;;
               path_length <~ c_strlen path ;;
               full_path <~ cJSON_malloc nofail (repeat junk (path_length + suffix_length + 2)) ;;
               sprintf_s_slash (cs_of_ptr full_path) path ;;;
               encode_string_as_pointer (cs_plus (cs_of_ptr full_path) (path_length + 1)) suffix ;;;
               p <~ cJSON_CreateString_s nofail (cs_of_ptr full_path) ;;
               cJSON_AddItemToObject_s nofail (Some y) (CLit s_path) p ;;;
               cJSON_free full_path) h2 = Ret (tt, h3) /\
            MInv h3 (F0 ++ [T y od [m1; m2]]) /\ Step [] h2 (F0 ++ [T y od [m1]]) h3 (F0 ++ [T y od [m1; m2]]) /\
            map (reify (h_str h3)) [m1; m2] =
              map (reify (h_str h2)) [m1] ++
              [PatchDefs.keyed (PatchDefs.create_string (match sfx with None => pnm
                                                          | Some s => pnm ++ [47] ++ PointerDefs.encode_string_as_pointer s end)) s_path]).
  { pose proof (Rd h2 [m1] _ _ I2 S02 Gp Hp) as Hp2. destruct sfx as [s|].
    - pose proof (Rd h2 [m1] _ _ I2 S02 Gs Hsfx) as Hs2. rewrite (CsReads_not_null _ _ _ Hs2).
      destruct (path_member h2 F0 y od [m1] path pnm suffix s I2 Hp2 Hs2) as (h3 & m2 & Hrun3 & I3 & S3 & V3).
      exists h3, m2. split; [exact Hrun3|done].
    - subst suffix. cbn [cs_is_null].
      destruct (string_member F0 y od h2 [m1] path pnm s_path I2 Hp2 Zpath) as (h3 & m2 & Hrun3 & I3 & S3 & V3).
      exists h3, m2. split; [exact (Hrun3 _ (ret tt))|done]. }
  destruct Hpath as (h3 & m2 & Hrun3 & I3 & S3 & V3).
  rewrite (bindM_Ret _ _ _ _ _ Hrun3).
  pose proof (Step_trans _ _ _ _ _ _ _ I S02 S3) as S03.
  set (vpath := PatchDefs.keyed (PatchDefs.create_string (match sfx with None => pnm
                  | Some s => pnm ++ [47] ++ PointerDefs.encode_string_as_pointer s end)) s_path) in *.
  set (vop := PatchDefs.keyed (PatchDefs.create_string opnm) s_op) in *.
  cbn [map app] in V2. injection V2 as V2.
  assert (V3' : map (reify (h_str h3)) [m1; m2] = [vop; vpath]) by (rewrite V3; cbn [map app]; by rewrite V2).
  clear V3. rename V3' into V3.
  (* "value" *)
  assert (Hvalue : exists h4 ms4,
            (if negb (is_null (tid <$> value)) then
               v <~ cJSON_Duplicate nofail (tid <$> value) true ;; cJSON_AddItemToObject_s nofail (Some y) (CLit s_value) v ;;; ret tt
             else ret tt) h3 = Ret (tt, h4) /\
            MInv h4 (F0 ++ [T y od ms4]) /\ Step [] h3 (F0 ++ [T y od [m1; m2]]) h4 (F0 ++ [T y od ms4]) /\
            map (reify (h_str h4)) ms4 =
              [vop; vpath] ++ match value with
                              | None => []
                              | Some tv => match PatchDefs.cJSON_Duplicate (reify (h_str h) tv) with
                                           | Some dv => [PatchDefs.keyed dv s_value]
                                           | None => []
                                           end
                              end).
  { destruct value as [tv|]; cbn [fmap option_fmap option_map is_null negb].
    - destruct (Hval tv eq_refl) as [Hf Hh].
      assert (HfF : find_tree (tid tv) (F0 ++ [T y od [m1; m2]]) = Some tv).
      { apply find_tree_app_l. unfold F0. by apply find_tree_app_l. }
      destruct (dup_member F0 y od h3 [m1; m2] tv s_value I3 HfF Hh Zvalue) as (h4 & m3 & dv & Hrun4 & I4 & S4 & Vd & V4).
      exists h4, ([m1; m2] ++ [m3]). split; [exact (Hrun4 _ (ret tt))|split; [exact I4|split; [exact S4|]]].
      rewrite V4, V3. cbn [app]. do 2 f_equal.
        assert (Etv : reify (h_str h3) tv = reify (h_str h) tv).
        { apply (reify_step [] h F0 h3 _ tv I I3 S03).
          - unfold F0. apply find_tree_Some in Hf as [Hn _]. rewrite nodes_app. apply elem_of_app. by left.
          - apply find_tree_Some in HfF as [Hn _]. exact Hn. }
        rewrite Etv in Vd. by rewrite Vd.
    - exists h3, [m1; m2]. split; [reflexivity|split; [exact I3|split; [apply Step_refl|]]].
      rewrite V3. by rewrite app_nil_r. }
  destruct Hvalue as (h4 & ms4 & Hrun4 & I4 & S4 & V4).
  rewrite (bindM_Ret _ _ _ _ _ Hrun4).
  pose proof (Step_trans _ _ _ _ _ _ _ I S03 S4) as S04.
  (* cJSON_AddItemToArray(patches, patch) *)
  unfold F0 in I4. destruct (S_add_arr h4 A x y d od pcs ms4 I4) as (h5 & Hrun5 & I5 & S5 & Es5 & _).
  unfold cJSON_AddItemToArray. rewrite (bindM_Ret _ _ _ _ _ Hrun5).
  exists h5, (T y od ms4). split; [reflexivity|]. split; [exact I5|]. split; [exact (Step_trans _ _ _ _ _ _ _ I S04 S5)|].
  intros ps. unfold PatchDefs.compose_patch. f_equal. f_equal. rewrite reify_unfold, Es5, V4. destruct value as [tv|]; reflexivity.
Qed.
