(** GenPatchHeapSteps.v — the ledger along the heap-level JSON Patch GENERATION, with TEMPORARY blocks alive.

    create_patches holds one cJSON_malloc'ed path block per nesting level while it recurses, so [NoLeak h F] is false
    in every intermediate heap.  [Step V h F h' F'] is the frame rule that replaces it:
      [sp_leak]  every live library block of [h'] is owned by [F'], or was live in [h] and outside [F];
      [sp_out]   every live block of [h] outside [F] (the temporaries, borrowed memory) is still live, with the same
                 owner tag and the same size — and, unless it is one of the volatile blocks [V], the same contents;
      [sp_new]   whatever [F'] owns was owned by [F] or is newer than [h];
      [sp_keep]  a block owned before and after keeps its contents;
      [sp_next]  identities are only handed out upwards.
    Steps compose ([Step_trans]); "allocate a temporary, run a step, release it" is a step ([Step_bracket]); a store
    into a volatile temporary is a step ([Step_write]); [NoLeak] transfers across a step ([Step_NoLeak]).
    Then one lemma per primitive that compose_patch / create_patches call, each with the run equation, [MInv] for the
    new forest, the [Step], and the value-level reading:
      [S_create_typed] cJSON_CreateObject / cJSON_CreateArray        [S_create_string] cJSON_CreateString(cstring)
      [S_add_lit]      cJSON_AddItemToObject(second-last root, "literal", last root)
      [S_dup]          cJSON_Duplicate(node, 1)                       [S_add_arr] cJSON_AddItemToArray(second-last, last) *)
From CJ Require Import Base Dbl Heap Forest ForestLemmas CoreSpec CoreDefs CoreRefineBase CoreRefine CoreRefineMore
  CoreRefineDelete CoreRefineReplace CoreRefineObject CoreRefineByKey CoreRefineFrame CoreRefineHistory CoreRefineAddObject
  CoreRefineHistoryObj CoreRefineDupBase CoreRefineDupTree CoreRefineDupValue CoreRefineDupForest CoreRefineCreate CoreLedgerGen CoreLedgerDup.
From CJ Require Import TierBridgeDefs TierBridgeForest TierBridgeLemmas TierBridgeEndToEnd TierBridgeEndToEndStr TierBridgeE2E2.
From CJ Require Import MergeHeapDefs MergeHeapInv MergeHeapProofs GenMergeHeapDefs GenMergeHeapForest
  PatchHeapDefs PatchHeapPointer PatchHeapStr PatchHeapSteps PatchHeapOps GenPatchHeapDefs GenPatchHeapBytes.
From CJ Require Tree PointerDefs PatchDefs CompareDefs MergeDefs SortSpec.
From CJ.gen Require Import Constants.
From stdpp Require Import gmap.
From Coq Require Import Lia.
Local Open Scope Z_scope.

Notation LIMIT := (Z.to_nat c_CJSON_CIRCULAR_LIMIT).

(** * the frame rule *)
Record Step (V : list positive) (h : heap) (F : forest) (h' : heap) (F' : forest) : Prop := mkStep {
  sp_leak : forall b, b ∈ lib_live h' -> b ∈ owned F' \/ (b ∈ lib_live h /\ b ∉ owned F);
  sp_out : forall b, b ∈ h_live h -> b ∉ owned F ->
             b ∈ h_live h' /\ h_own h' !! b = h_own h !! b /\
             (forall s : bytes, h_str h !! b = Some s ->
                exists s' : bytes, h_str h' !! b = Some s' /\ length s' = length s /\ (b ∉ V -> s' = s));
  sp_new : forall b, b ∈ owned F' -> b ∈ owned F \/ (h_next h <= b)%positive;
  sp_keep : forall b, b ∈ owned F -> b ∈ owned F' -> h_str h' !! b = h_str h !! b;
  sp_next : (h_next h <= h_next h')%positive
}.

Lemma Step_refl V h F : Step V h F h F.
Proof.
  constructor.
  - intros b Hb. destruct (decide (b ∈ owned F)); [by left|by right].
  - intros b Hl Hn. split; [done|]. split; [done|]. intros s Hs. by exists s.
  - intros b Hb. by left.
  - done.
  - lia.
Qed.

Lemma Step_mono V V' h F h' F' : (forall b, b ∈ V -> b ∈ V') -> Step V h F h' F' -> Step V' h F h' F'.
Proof.
  intros HV [A1 A2 A3 A4 A5]. constructor; try done.
  intros b Hl Hn. destruct (A2 b Hl Hn) as (B1 & B2 & B3). split; [done|]. split; [done|].
  intros s Hs. destruct (B3 s Hs) as (s' & C1 & C2 & C3). exists s'. split; [done|]. split; [done|].
  intros Hv. apply C3. intros Hin. by apply Hv, HV.
Qed.

Lemma MInv_live_below h F : MInv h F -> forall b, b ∈ h_live h -> (b < h_next h)%positive.
Proof. intros I. exact (hk_live _ (mi_ok _ _ I)). Qed.
Lemma MInv_owned_below h F : MInv h F -> forall b, b ∈ owned F -> (b < h_next h)%positive.
Proof. intros I. exact (wf_fresh _ _ (mi_wf _ _ I)). Qed.

Lemma Step_trans V h F h1 F1 h2 F2 :
  MInv h F -> Step V h F h1 F1 -> Step V h1 F1 h2 F2 -> Step V h F h2 F2.
Proof.
  intros I [A1 A2 A3 A4 A5] [B1 B2 B3 B4 B5].
  pose proof (MInv_live_below _ _ I) as LB. pose proof (MInv_owned_below _ _ I) as OB.
  assert (Hout1 : forall b, b ∈ h_live h -> b ∉ owned F -> b ∉ owned F1).
  { intros b Hl Hn Hin. destruct (A3 b Hin) as [?|Hge]; [done|]. pose proof (LB b Hl). lia. }
  constructor.
  - intros b Hb. destruct (B1 b Hb) as [?|[Hb1 Hn1]]; [by left|].
    destruct (A1 b Hb1) as [?|?]; [done|by right].
  - intros b Hl Hn. destruct (A2 b Hl Hn) as (C1 & C2 & C3).
    destruct (B2 b C1 (Hout1 b Hl Hn)) as (D1 & D2 & D3). split; [done|]. split; [by rewrite D2|].
    intros s Hs. destruct (C3 s Hs) as (s1 & E1 & E2 & E3). destruct (D3 s1 E1) as (s2 & G1 & G2 & G3).
    exists s2. split; [done|]. split; [lia|]. intros Hv. rewrite (G3 Hv). by apply E3.
  - intros b Hb. destruct (B3 b Hb) as [Hb1|Hge]; [|right; lia].
    destruct (A3 b Hb1) as [?|?]; [by left|by right].
  - intros b Hb Hb2. assert (Hb1 : b ∈ owned F1).
    { destruct (B3 b Hb2) as [?|Hge]; [done|]. pose proof (OB b Hb). lia. }
    by rewrite (B4 b Hb1 Hb2), (A4 b Hb Hb1).
  - lia.
Qed.

(** the ledger across a step *)
Lemma Step_NoLeak V h F h' F' : Step V h F h' F' -> NoLeak h F -> NoLeak h' F'.
Proof. intros S NL b Hb. destruct (sp_leak _ _ _ _ _ S b Hb) as [?|[Hl Hn]]; [done|]. exfalso. by apply Hn, NL. Qed.

Lemma Step_NoLeakX V h F h' F' X : Step V h F h' F' -> NoLeakX h F X -> NoLeakX h' F' X.
Proof.
  intros S NL b Hb. destruct (sp_leak _ _ _ _ _ S b Hb) as [?|[Hl Hn]]; [by left|].
  destruct (NL b Hl) as [?|?]; [done|by right].
Qed.

Lemma Step_KeepO V h F h' F' G : Step V h F h' F' -> (forall b, b ∈ owned G -> b ∈ owned F /\ b ∈ owned F') -> KeepO h h' G.
Proof. intros S HG b Hb. destruct (HG b Hb) as [H1 H2]. by apply (sp_keep _ _ _ _ _ S). Qed.

(** steps that only relink *)
Lemma Step_relink V h F h' F' :
  h_str h' = h_str h -> h_live h' = h_live h -> h_own h' = h_own h -> h_next h' = h_next h -> owned F' ≡ₚ owned F ->
  Step V h F h' F'.
Proof.
  intros Es El Eo En HP. constructor.
  - intros b Hb. unfold lib_live in *. rewrite Eo, El in Hb. destruct (decide (b ∈ owned F)) as [Hin|Hn]; [left; by rewrite HP|by right].
  - intros b Hl Hn. rewrite El, Eo, Es. split; [done|]. split; [done|]. intros s Hs. by exists s.
  - intros b Hb. left. by rewrite <- HP.
  - intros b _ _. by rewrite Es.
  - rewrite En. lia.
Qed.

(** steps that only allocate: every block older than [h_next h] is as it was *)
Definition Old (h h' : heap) : Prop :=
  forall b, (b < h_next h)%positive ->
    (b ∈ h_live h' <-> b ∈ h_live h) /\ h_own h' !! b = h_own h !! b /\ h_str h' !! b = h_str h !! b.

Lemma Step_alloc V h F h' F' :
  MInv h F -> Old h h' -> (h_next h <= h_next h')%positive ->
  (forall b, b ∈ owned F -> b ∈ owned F') ->
  (forall b, b ∈ owned F' -> b ∈ owned F \/ (h_next h <= b)%positive) ->
  (forall b, b ∈ lib_live h' -> (h_next h <= b)%positive -> b ∈ owned F') ->
  Step V h F h' F'.
Proof.
  intros I HO Hn Hsub Hnew Hlib.
  pose proof (MInv_live_below _ _ I) as LB. pose proof (MInv_owned_below _ _ I) as OB.
  constructor; [| |done| |done].
  - intros b Hb. destruct (decide (b < h_next h)%positive) as [Hlt|Hge].
    + destruct (HO b Hlt) as (O1 & O2 & _). unfold lib_live in Hb. apply elem_of_filter in Hb as [Hb1 Hb2].
      destruct (decide (b ∈ owned F)) as [Hin|Hnin]; [left; by apply Hsub|right]. split; [|done].
      apply elem_of_filter. split; [by rewrite <- O2|by apply O1].
    + left. apply Hlib; [done|lia].
  - intros b Hl Hnin. destruct (HO b (LB b Hl)) as (O1 & O2 & O3). split; [by apply O1|]. split; [done|].
    intros s Hs. exists s. by rewrite O3.
  - intros b Hb _. by destruct (HO b (OB b Hb)) as (_ & _ & ?).
Qed.

(** * temporaries *)
Definition Tmp (h : heap) (F : forest) (B : positive) (n : nat) : Prop :=
  B ∈ h_live h /\ h_own h !! B = Some Lib /\ B ∉ owned F /\ exists s : bytes, h_str h !! B = Some s /\ length s = n.

Lemma Tmp_step V h F h' F' B n : MInv h F -> Step V h F h' F' -> Tmp h F B n -> Tmp h' F' B n.
Proof.
  intros I S (Hl & Ho & Hn & s & Hs & Hlen). destruct (sp_out _ _ _ _ _ S B Hl Hn) as (A1 & A2 & A3).
  destruct (A3 s Hs) as (s' & B1 & B2 & _). split; [done|]. split; [by rewrite A2|]. split.
  - intros Hin. destruct (sp_new _ _ _ _ _ S B Hin) as [?|Hge]; [done|]. pose proof (MInv_live_below _ _ I B Hl). lia.
  - exists s'. split; [done|lia].
Qed.

(** a string argument that is a literal, a block outside the forest that is not volatile, or a block the forest
    owns before and after, reads the same after a step *)
Definition cs_stable (V : list positive) (F F' : forest) (c : cstring) : Prop :=
  forall b off, c = CAt b off -> (b ∉ owned F /\ b ∉ V) \/ (b ∈ owned F /\ b ∈ owned F').

Lemma CsReads_step V h F h' F' c nm :
  MInv h' F' -> Step V h F h' F' -> cs_stable V F F' c -> CsReads h c nm -> CsReads h' c nm.
Proof.
  intros I' S Hst. destruct c as [|b off|l]; cbn [CsReads]; [done| |done].
  intros (Hl & s & Hs & Hz & E). destruct (Hst b off eq_refl) as [[Hn Hv]|[Ho Ho']].
  - destruct (sp_out _ _ _ _ _ S b Hl Hn) as (A1 & _ & A3). destruct (A3 s Hs) as (s' & B1 & _ & B3).
    specialize (B3 Hv). subst s'. split; [done|]. by exists s.
  - split; [by apply (wf_owned_live _ _ (mi_wf _ _ I'))|]. exists s. split; [|done]. by rewrite (sp_keep _ _ _ _ _ S b Ho Ho').
Qed.

(** a store into the temporary [B] *)
Lemma Step_write V h F B (buf : bytes) (old : bytes) :
  B ∈ V -> B ∉ owned F -> h_str h !! B = Some old -> length buf = length old -> Step V h F (wrB h B buf) F.
Proof.
  intros HV Hn Hs Hlen. constructor.
  - intros b Hb. destruct (decide (b ∈ owned F)) as [?|?]; [by left|by right].
  - intros b Hl Hnb. split; [done|]. split; [done|]. intros s Hsb. rewrite wrB_str.
    destruct (decide (b = B)) as [->|Hne].
    + rewrite lookup_insert. exists buf. split; [done|]. split; [unfold bytes in *; congruence|]. intros Hv. done.
    + rewrite lookup_insert_ne by done. by exists s.
  - intros b Hb. by left.
  - intros b Hb _. rewrite wrB_str, lookup_insert_ne; [done|]. by intros ->.
  - cbn. lia.
Qed.

Lemma MInv_wrB h F B (buf : bytes) : MInv h F -> B ∉ owned F -> is_Some (h_str h !! B) -> MInv (wrB h B buf) F.
Proof. intros I Hn Hs. exact (proj1 (temp_write h F B buf I Hn Hs)). Qed.

(** allocate the temporary [h_next h], run a step in which it is volatile, release it *)
Lemma run_malloc_nofail c h : cJSON_malloc nofail c h = Ret (Some (h_next h), alloc_str h c).
Proof. reflexivity. Qed.

Lemma Tmp_alloc h F c : MInv h F -> MInv (alloc_str h c) F /\ Tmp (alloc_str h c) F (h_next h) (length c).
Proof.
  intros I. destruct (temp_alloc h F c I) as (I1 & Hno & _ & Hl & Ho & Hs). split; [done|].
  split; [done|]. split; [done|]. split; [done|]. exists c. by rewrite Hs, lookup_insert.
Qed.

Lemma Step_bracket V h F c h2 F2 :
  MInv h F -> Step (h_next h :: V) (alloc_str h c) F h2 F2 -> Step V h F (free1 (h_next h) h2) F2.
Proof.
  intros I [A1 A2 A3 A4 A5]. set (B := h_next h) in *.
  pose proof (MInv_live_below _ _ I) as LB. pose proof (MInv_owned_below _ _ I) as OB.
  constructor.
  - intros b Hb. unfold lib_live in Hb. apply elem_of_filter in Hb as [Hb1 Hb2]. cbn in Hb1, Hb2.
    apply elem_of_difference in Hb2 as [Hb2 Hb3]. assert (Hne : b <> B) by set_solver.
    destruct (A1 b) as [?|[Hl Hn]]; [by apply elem_of_filter|by left|right]. split; [|done].
    unfold lib_live in Hl. apply elem_of_filter in Hl as [Hl1 Hl2]. cbn in Hl1, Hl2. rewrite lookup_insert_ne in Hl1 by done.
    apply elem_of_filter. split; [done|set_solver].
  - intros b Hl Hn. assert (Hne : b <> B) by (intros ->; pose proof (LB _ Hl); unfold B in *; lia).
    destruct (A2 b) as (B1 & B2 & B3); [cbn; set_solver|done|].
    split; [cbn; set_solver|]. split; [cbn in B2 |- *; by rewrite lookup_insert_ne in B2|].
    intros s Hs. destruct (B3 s) as (s' & C1 & C2 & C3); [cbn; by rewrite lookup_insert_ne|].
    exists s'. split; [cbn; by rewrite lookup_delete_ne|]. split; [done|]. intros Hv. apply C3.
    intros Hin. apply elem_of_cons in Hin as [?|?]; done.
  - intros b Hb. destruct (A3 b Hb) as [?|Hge]; [by left|right]. cbn in Hge. lia.
  - intros b Hb Hb2. assert (Hne : b <> B) by (intros ->; pose proof (OB _ Hb); unfold B in *; lia).
    cbn. rewrite lookup_delete_ne by done. rewrite (A4 b Hb Hb2). cbn. by rewrite lookup_insert_ne.
  - cbn in A5 |- *. lia.
Qed.

Lemma Tmp_free h F B n : MInv h F -> Tmp h F B n ->
  cJSON_free (Some B) h = Ret (tt, free1 B h) /\ MInv (free1 B h) F.
Proof.
  intros I (Hl & Ho & Hn & _). destruct (temp_free h F B I Hn Hl Ho) as (Hrun & I' & _). split; [exact Hrun|exact I'].
Qed.

(** * reading the forest after a step *)
Lemma reify_step V h F h' F' t :
  MInv h F -> MInv h' F' -> Step V h F h' F' -> t ∈ nodes F -> t ∈ nodes F' -> reify (h_str h') t = reify (h_str h) t.
Proof.
  intros I I' S Ht Ht'. apply reify_frame. intros b Hb. apply (sp_keep _ _ _ _ _ S).
  - exact (str_blocks_in_owned F t b (mi_own _ _ I) Ht Hb).
  - exact (str_blocks_in_owned F' t b (mi_own _ _ I') Ht' Hb).
Qed.
Lemma reify_step_list V h F h' F' l :
  MInv h F -> MInv h' F' -> Step V h F h' F' -> (forall c, c ∈ l -> c ∈ nodes F /\ c ∈ nodes F') ->
  map (reify (h_str h')) l = map (reify (h_str h)) l.
Proof.
  intros I I' S Hl. apply map_ext_in. intros c Hc. apply elem_of_list_In in Hc. destruct (Hl c Hc). by eapply reify_step.
Qed.

(** * cJSON_CreateObject / cJSON_CreateArray: a new last root *)
Lemma owned_snoc_in F t b : b ∈ owned F -> b ∈ owned (F ++ [t]).
Proof. intros Hb. rewrite owned_app. apply elem_of_app. by left. Qed.

Lemma owned_leaf id d b : b ∈ owned [T id d []] <-> b = id \/ b ∈ owned_strs d.
Proof.
  rewrite TierBridgeE2E2.owned_singleton, flat_t_unfold, owned_fl_cons. unfold owned_fn. cbn [fn_id fn_data fst snd flat nodes].
  unfold flat, owned_fl. cbn. rewrite app_nil_r. by rewrite elem_of_cons.
Qed.

Lemma S_create_typed h F ty :
  MInv h F -> is_ref (rd_typed ty) = false -> is_const (rd_typed ty) = false ->
  let t := T (h_next h) (rd_typed ty) [] in
  exists h', create_with_type nofail ty h = Ret (Some (h_next h), h') /\
    MInv h' (F ++ [t]) /\ Step [] h F h' (F ++ [t]) /\ h_str h' = h_str h /\ h_next h' = Pos.succ (h_next h).
Proof.
  intros I Hr Hc t. destruct (step_create_typed h F ty I Hr Hc) as (h' & Hrun & I' & _ & Hs & _).
  assert (Hrun2 : create_with_type nofail ty h = Ret (Some (h_next h), alloc_typed h ty)) by (by apply create_with_type_ok).
  rewrite Hrun in Hrun2. injection Hrun2 as ->.
  exists (alloc_typed h ty). split; [exact Hrun|]. split; [exact I'|]. split; [|done].
  apply (Step_alloc [] h F _ _ I).
  - intros b Hlt. cbn. assert (b <> h_next h) by lia. rewrite !lookup_insert_ne by done. split; [set_solver|done].
  - cbn. lia.
  - intros b Hb. by apply owned_snoc_in.
  - intros b Hb. rewrite owned_app in Hb. apply elem_of_app in Hb as [?|Hb]; [by left|right].
    apply owned_leaf in Hb as [->|Hb]; [lia|]. rewrite owned_strs_typed in Hb. by apply elem_of_nil in Hb.
  - intros b Hb Hge. unfold lib_live in Hb. apply elem_of_filter in Hb as [_ Hb]. cbn in Hb.
    apply elem_of_union in Hb as [Hb|Hb].
    + apply elem_of_singleton in Hb as ->. rewrite owned_app. apply elem_of_app. right. apply owned_leaf. by left.
    + pose proof (MInv_live_below _ _ I b Hb). lia.
Qed.

(** * cJSON_CreateString of a string argument: a new last root that owns a copy of the text *)
Lemma S_create_string h F c nm :
  MInv h F -> CsReads h c nm ->
  let id := h_next h in
  let t := T id (rd_string c_cJSON_String (Pos.succ id)) [] in
  exists h', cJSON_CreateString_s nofail c h = Ret (Some id, h') /\
    MInv h' (F ++ [t]) /\ Step [] h F h' (F ++ [t]) /\
    (forall b, (b < h_next h)%positive -> h_str h' !! b = h_str h !! b) /\
    reify (h_str h') t = PatchDefs.create_string nm.
Proof.
  intros I Hc id t. pose proof (mi_wf _ _ I) as W.
  set (h' := new_string h c_cJSON_String (nm ++ [0])).
  assert (Hrun : cJSON_CreateString_s nofail c h = Ret (Some id, h')).
  { unfold cJSON_CreateString_s, cJSON_New_Item.
    rewrite (bindM_Ret _ _ _ _ _ (run_alloc_node_ok nofail h eq_refl)). cbn [is_null].
    rewrite (bindM_Ret _ _ _ _ _ (run_set_type_plain _ _ _ c_cJSON_String (new_node_live _ _) (new_node_dat _ _))).
    rewrite (new_node_set h _ _ (rd_of_type c_cJSON_String)) by reflexivity.
    set (h1 := new_node h (rd_of_type c_cJSON_String)).
    assert (Hc1 : CsReads h1 c nm).
    { apply (CsReads_transfer h h1 c nm Hc). intros b off ->. destruct Hc as [Hl _]. split; [done|]. cbn. set_solver. }
    rewrite (bindM_Ret _ _ _ _ _ (cJSON_strdup_s_ok nofail h1 c nm Hc1 eq_refl)).
    set (s := nm ++ [0]). set (sid := h_next h1).
    assert (Hl : h_next h ∈ h_live (alloc_str h1 s)) by (cbn; set_solver).
    assert (Hd : h_dat (alloc_str h1 s) !! h_next h = Some (mk_dat (rd_of_type c_cJSON_String) [])) by (cbn; by rewrite lookup_insert).
    rewrite (bindM_Ret _ _ _ _ _ (run_set_vstr_plain _ _ _ (Some sid) Hl Hd)).
    assert (Heq : set_dat (alloc_str h1 s) (<[h_next h := nd_set_vstr (mk_dat (rd_of_type c_cJSON_String) []) (Some sid)]> (h_dat (alloc_str h1 s))) = h').
    { unfold set_dat, upd_maps, h', new_string, new_str, alloc_str, h1, new_node. cbn. f_equal. by rewrite insert_insert. }
    rewrite Heq.
    assert (Hl' : h_next h ∈ h_live h') by (cbn; set_solver).
    assert (Hd' : h_dat h' !! h_next h = Some (mk_dat (rd_string c_cJSON_String (Pos.succ (h_next h))) [])) by (cbn; by rewrite lookup_insert).
    rewrite (bindM_Ret _ _ _ _ _ (run_get_vstr_plain _ _ _ Hl' Hd')). reflexivity. }
  assert (W' : WF h' (F ++ [t])) by (exact (WF_new_string h F c_cJSON_String (nm ++ [0]) W eq_refl eq_refl)).
  assert (Hown : owned_strs (rd_string c_cJSON_String (Pos.succ id)) = [Pos.succ id]) by reflexivity.
  assert (Hot : forall b, b ∈ owned [t] <-> b = id \/ b = Pos.succ id).
  { intros b. unfold t. rewrite owned_leaf, Hown. rewrite elem_of_list_singleton. tauto. }
  assert (Hz : SortSpec.zfree nm) by (by eapply CsReads_zfree).
  assert (Hstr : h_str h' !! Pos.succ id = Some (nm ++ [0])) by (cbn; by rewrite lookup_insert).
  assert (Hold : forall b, (b < h_next h)%positive -> h_str h' !! b = h_str h !! b).
  { intros b Hlt. cbn. rewrite lookup_insert_ne by (unfold id; lia). done. }
  assert (I' : MInv h' (F ++ [t])).
  { apply (MInv_build h h' F _ I W').
    - refine (Cons_ok _ _ _ _ _ Hrun (mi_ok _ _ I)). unfold cJSON_CreateString_s, cJSON_New_Item. cons.
    - intros e He. apply datas_elem_app in He as [He|He]; [by left|]. right.
      apply datas_singleton_root in He as [->|He]; [|by apply elem_of_nil in He]. cbn [snd]. split; [by split|]. split.
      + intros b Hb. cbn in Hb. injection Hb as <-. split; [cbn; set_solver|]. exists (nm ++ [0]). split; [done|].
        rewrite existsb_app. cbn. by rewrite orb_true_r.
      + intros b Hb. discriminate Hb.
    - intros b _ Hb. apply Hold. by apply (MInv_owned_below _ _ I). }
  exists h'. split; [exact Hrun|]. split; [exact I'|]. split; [|split; [exact Hold|]].
  - apply (Step_alloc [] h F _ _ I).
    + intros b Hlt. cbn. assert (b <> h_next h) by lia. assert (b <> Pos.succ (h_next h)) by lia.
      rewrite !lookup_insert_ne by done. split; [set_solver|done].
    + cbn. lia.
    + intros b Hb. by apply owned_snoc_in.
    + intros b Hb. rewrite owned_app in Hb. apply elem_of_app in Hb as [?|Hb]; [by left|right].
      apply Hot in Hb as [->| ->]; unfold id; lia.
    + intros b Hb Hge. unfold lib_live in Hb. apply elem_of_filter in Hb as [_ Hb]. cbn in Hb.
      rewrite owned_app. apply elem_of_app. right. apply Hot.
      apply elem_of_union in Hb as [Hb|Hb]; [apply elem_of_singleton in Hb; by right|].
      apply elem_of_union in Hb as [Hb|Hb]; [apply elem_of_singleton in Hb; by left|].
      pose proof (MInv_live_below _ _ I b Hb). lia.
  - unfold t. rewrite reify_unfold. cbn [rd_type rd_string rd_vstr rd_vint rd_vdbl rd_key map cstr_of].
    unfold bytes in *. rewrite Hstr. cbn. rewrite (cstr_app_zero nm []) by done. reflexivity.
Qed.

(** * cJSON_AddItemToObject(second-last root, "literal", last root) *)
Section AddLit.
  Context (h : heap) (G : forest) (p y : positive) (d dy : rdata) (cs csy : list tree) (lit : bytes).
  Hypothesis I : MInv h ((G ++ [T p d cs]) ++ [T y dy csy]).
  Hypothesis Hzl : SortSpec.zfree lit.
  Let F := (G ++ [T p d cs]) ++ [T y dy csy].
  Let W : WF h F := mi_wf _ _ I.
  Let nk := h_next h.
  Let d' := rd_owned_key dy nk.
  Let F' := G ++ [T p d (cs ++ [T y d' csy])].

  Lemma S_add_lit :
    exists h', cJSON_AddItemToObject_s nofail (Some p) (CLit lit) (Some y) h = Ret (true, h') /\
      MInv h' F' /\ Step [] h F h' F' /\
      reify (h_str h') (T y d' csy) = PatchDefs.keyed (reify (h_str h) (T y dy csy)) lit.
  Proof.
    pose proof (wf_nodup _ _ W) as ND.
    destruct (last_root_fresh _ _ _ W) as [Hyr Hyi]. cbn [tid] in Hyr, Hyi.
    assert (ND1 : NoDup (ids (G ++ [T p d cs]))).
    { unfold F in ND. rewrite ids_app in ND. by apply NoDup_app in ND as (? & _ & _). }
    assert (Hpi : p ∉ ids G).
    { rewrite ids_app in ND1. apply NoDup_app in ND1 as (_ & Hdis & _). intros Hin. apply (Hdis _ Hin).
      apply roots_subseteq_ids. cbn. by left. }
    assert (Hpy : p <> y).
    { intros ->. apply Hyi. rewrite ids_app. apply elem_of_app. right. apply roots_subseteq_ids. cbn. by left. }
    assert (Hx : find_root y F = Some (T y dy csy)) by (exact (find_root_last (G ++ [T p d cs]) (T y dy csy) Hyr)).
    assert (Hrr : remove_root y F = G ++ [T p d cs]) by (exact (CoreRefineReplace.remove_root_snoc (G ++ [T p d cs]) (T y dy csy) Hyr)).
    assert (Hp : find_tree p (remove_root y F) = Some (T p d cs)).
    { rewrite Hrr. exact (find_tree_last_nd G (T p d cs) ND1). }
    assert (Hpn : T p d cs ∈ nodes F).
    { unfold F. rewrite nodes_app. apply elem_of_app. left. rewrite nodes_app. apply elem_of_app. right.
      apply roots_in_nodes. by left. }
    assert (Hyn : T y dy csy ∈ nodes F).
    { unfold F. rewrite nodes_app. apply elem_of_app. right. apply roots_in_nodes. by left. }
    assert (Hdp : (p, d) ∈ datas F) by (exact (datas_of_node F _ Hpn)).
    assert (Hdy : (y, dy) ∈ datas F) by (exact (datas_of_node F _ Hyn)).
    destruct (mi_own _ _ I _ Hdp) as [Hrefp _]. destruct (mi_own _ _ I _ Hdy) as [Hrefy Hconsty]. cbn [snd] in *.
    assert (Hc : CsReads h (CLit lit) lit) by (by split).
    destruct (cJSON_AddItemToObject_s_sim_owned nofail h F p y dy d csy cs (CLit lit) lit W Hpy Hx Hp Hrefp Hc eq_refl) as (Hrun & W').
    fold nk d' in Hrun, W'. rewrite Hrr, (set_children_last G p d cs _ Hpi) in Hrun, W'. fold F' in Hrun, W'.
    set (hb := free_all (old_key dy) (alloc_str h (lit ++ [0]))) in *.
    set (h' := upd_maps hb (heap_lnk_of F') (heap_dat_of F')) in *.
    destruct (datas_add_to_object F y dy csy p d cs ND Hx Hp) as (DR & HD & HD').
    specialize (HD' d'). fold nk d' in HD'. rewrite Hrr, (set_children_last G p d cs _ Hpi) in HD'. fold F' in HD'.
    assert (Hfresh : nk ∉ owned F) by (intros Hin; exact (Pos.lt_irrefl _ (wf_fresh _ _ W _ Hin))).
    assert (Hrel : forall b, released F F' b <-> b ∈ old_key dy).
    { intros b. eapply (released_rekey F F' y dy d' DR b (wf_owned_nodup _ _ W) HD HD'); [reflexivity|apply is_ref_set_key_clear|].
      intros k Hk. unfold old_key, d' in Hk. rewrite is_const_set_key_clear in Hk. cbn in Hk.
      apply elem_of_list_singleton in Hk as ->. exact Hfresh. }
    assert (Hnk : h_str h' !! nk = Some (lit ++ [0])).
    { unfold h', hb. cbn [h_str upd_maps]. rewrite free_all_str_lookup.
      - cbn. by rewrite lookup_insert.
      - intros Hin. apply Hfresh. by apply (proj2 (Hrel nk)). }
    assert (Hsame : forall b, b <> nk -> b ∉ old_key dy -> h_str h' !! b = h_str h !! b).
    { intros b Hb Hn. unfold h', hb. cbn [h_str upd_maps]. rewrite free_all_str_lookup by done. cbn.
      by rewrite lookup_insert_ne. }
    assert (Hne_nk : forall b, b ∈ owned F -> b <> nk) by (intros b Hb ->; by apply Hfresh).
    assert (Hd'F' : (y, d') ∈ datas F') by (rewrite HD'; by left).
    assert (Hown' : node_owns d').
    { split; [unfold d'; by rewrite is_ref_set_key_clear|unfold d'; apply is_const_set_key_clear]. }
    assert (Hnko : nk ∈ owned F').
    { apply (str_owned F' (y, d') nk Hd'F' Hown'). right. reflexivity. }
    assert (Hkept : forall b, b ∈ owned F' -> b ∈ owned F -> b ∉ old_key dy).
    { intros b Hb' Hb Hin. apply (proj2 (Hrel b)) in Hin as [_ Hin]. by apply Hin. }
    assert (Hold_owned : forall b, b ∈ old_key dy -> b ∈ owned F).
    { intros b Hb. apply (proj2 (Hrel b)) in Hb as [Hb _]. exact Hb. }
    assert (I' : MInv h' F').
    { apply (MInv_build h h' F F' I W').
      + exact (Cons_ok _ _ _ _ (Cons_cJSON_AddItemToObject_s nofail _ _ _) Hrun (mi_ok _ _ I)).
      + intros e He. rewrite HD' in He. apply elem_of_cons in He as [->|He].
        * right. split; [exact Hown'|]. cbn [snd]. split.
          -- intros b Hb. change (rd_vstr d') with (rd_vstr dy) in Hb.
             destruct (proj1 (mi_read _ _ I _ Hdy) b Hb) as (Hl & s & Hs & Hz).
             assert (Hbo : b ∈ owned F) by (apply (str_owned F (y, dy) b Hdy (mi_own _ _ I _ Hdy)); by left).
             assert (Hbo' : b ∈ owned F') by (apply (str_owned F' (y, d') b Hd'F' Hown'); by left).
             split; [by apply (wf_owned_live _ _ W')|]. exists s. split; [|done].
             rewrite Hsame; [done|by apply Hne_nk|by apply Hkept].
          -- intros b Hb. change (rd_key d') with (Some nk) in Hb. injection Hb as <-.
             split; [by apply (wf_owned_live _ _ W')|]. exists (lit ++ [0]). split; [done|].
             rewrite existsb_app. cbn. by rewrite orb_true_r.
        * left. rewrite HD. by right.
      + intros b Hb' Hb. apply Hsame; [by apply Hne_nk|by apply Hkept]. }
    assert (Hlive' : forall b, b ∈ h_live h' <-> (b = nk \/ b ∈ h_live h) /\ b ∉ old_key dy).
    { intros b. unfold h', hb. cbn [h_live upd_maps]. rewrite free_all_live. cbn. set_solver. }
    assert (Hown'' : forall b, b <> nk -> h_own h' !! b = h_own h !! b).
    { intros b Hne. unfold h', hb. cbn [h_own upd_maps]. rewrite free_all_own. cbn. by rewrite lookup_insert_ne. }
    exists h'. split; [exact Hrun|]. split; [exact I'|]. split.
    - constructor.
      + intros b Hb. unfold lib_live in Hb. apply elem_of_filter in Hb as [Hb1 Hb2]. apply Hlive' in Hb2 as [Hb2 Hb3].
        destruct (decide (b = nk)) as [->|Hne]; [by left|]. rewrite (Hown'' b Hne) in Hb1.
        destruct Hb2 as [?|Hb2]; [done|].
        assert (Hbl : b ∈ lib_live h) by (by apply elem_of_filter).
        destruct (decide (b ∈ owned F)) as [Hin|Hnin]; [|by right].
        left. destruct (decide (b ∈ owned F')) as [|Hn]; [done|]. exfalso. apply Hb3. apply Hrel. by split.
      + intros b Hl Hn.
        assert (Hne : b <> nk) by (intros ->; pose proof (MInv_live_below _ _ I _ Hl); unfold nk in *; lia).
        assert (Hnk' : b ∉ old_key dy) by (intros Hin; by apply Hn, Hold_owned).
        split; [apply Hlive'; split; [by right|done]|]. split; [by apply Hown''|].
        intros s Hs. exists s. rewrite (Hsame b Hne Hnk'). done.
      + intros b Hb. destruct (decide (b = nk)) as [->|Hne]; [right; unfold nk; lia|left].
        rewrite owned_datas, HD' in Hb. rewrite owned_datas, HD. rewrite owned_of_cons in Hb |- *. cbn [fst snd] in *.
        apply elem_of_app in Hb as [Hb|Hb]; [|apply elem_of_app; by right]. apply elem_of_app. left.
        apply elem_of_cons in Hb as [->|Hb]; [by left|right].
        rewrite owned_strs_split in Hb |- *. apply elem_of_app in Hb as [Hb|Hb]; apply elem_of_app.
        * left. unfold d' in Hb. by rewrite is_ref_set_key_clear in Hb.
        * unfold old_key, d' in Hb. rewrite is_const_set_key_clear in Hb. cbn in Hb. apply elem_of_list_singleton in Hb. done.
      + intros b Hb Hb'. apply Hsame; [by apply Hne_nk|by apply Hkept].
      + unfold h', hb. cbn. rewrite free_all_next. cbn. lia.
    - destruct (reify_owned_key (h_str h') y dy csy nk (lit ++ [0]) Hnk) as [K1 _].
      fold d' in K1. rewrite K1. rewrite (cstr_app_zero lit []) by done.
      apply keyed_frame. intros b Hb.
      assert (Hocs : Forall owns_strings csy).
      { apply Forall_forall. intros c0 Hc0. apply (owns_strings_of_datas F c0 (mi_own _ _ I)).
        eapply TierBridgeForest.child_in_nodes; [exact Hyn|exact Hc0]. }
      destruct (add_hypothesis_of_owned h F p y d dy cs csy W Hx Hp
                  (owns_strings_of_datas F _ (mi_own _ _ I) Hpn) Hrefy Hocs b ltac:(apply elem_of_app; by right)) as [H1 H2].
      by apply Hsame.
  Qed.
End AddLit.

(** * cJSON_Duplicate(node of the forest, 1) *)
Lemma S_dup h F pp tp :
  MInv h F -> find_tree pp F = Some tp -> (height tp <= LIMIT)%nat ->
  exists tc h', cJSON_Duplicate nofail (Some pp) true h = Ret (Some (tid tc), h') /\
    MInv h' (F ++ [tc]) /\ Step [] h F h' (F ++ [tc]) /\
    PatchDefs.cJSON_Duplicate (reify (h_str h) tp) = Some (reify (h_str h') tc).
Proof.
  intros I Hp Hh. pose proof (mi_wf _ _ I) as W. pose proof Hp as Hp0. apply find_tree_Some in Hp0 as [Hn _].
  destruct (dup_copy nofail h F pp tp W (MInv_Closed _ _ I) Hp (MInv_strs_readable _ _ I _ Hn)
              (MInv_no_borrowed _ _ I _ Hn) Hh) as (r & h' & Hrun & [H|H]).
  { destruct H as (_ & _ & _ & _ & _ & _ & _ & _ & _ & _ & (j & _ & Hj)). discriminate Hj. }
  destruct H as (tc & -> & W' & _ & Hcp & Fr & _ & Hdis & Hnew & _).
  assert (K : KeepO h h' F).
  { intros b Hb. apply (xt_str _ _ _ _ Fr). intros Hs. apply (Hdis b Hb).
    rewrite TierBridgeE2E2.owned_singleton, owned_fl_split. apply elem_of_app. by right. }
  assert (I' : MInv h' (F ++ [tc])).
  { apply (MInv_build h h' F (F ++ [tc]) I W').
    + exact (Cons_ok _ _ _ _ (Cons_cJSON_Duplicate nofail _ _) Hrun (mi_ok _ _ I)).
    + intros e He. apply datas_elem_app in He as [He|He]; [by left|]. right.
      unfold datas in He. rewrite flat_singleton in He. apply elem_of_list_fmap in He as ([[i' d'] ks'] & -> & He).
      destruct (copy_of_flat _ _ _ Hcp i' d' ks' He) as (i & d & ks & Hsrc & Hdc).
      pose proof (flat_t_sub F tp _ Hn Hsrc) as HsF.
      assert (Hd : (i, d) ∈ datas F) by (unfold datas; apply elem_of_list_fmap; by exists (i, d, ks)).
      destruct (mi_own _ _ I _ Hd) as [_ Hc]. cbn in Hc. cbn [fdata fn_id fn_data fst snd].
      split; [by eapply data_copy_owns|by eapply data_copy_readable].
    + intros b _ Hb. by apply K. }
  exists tc, h'. split; [exact Hrun|]. split; [exact I'|]. split.
  - apply (Step_alloc [] h F _ _ I).
    + intros b Hlt. destruct (Ext_old_lt _ _ _ _ b Fr Hlt) as [Hn1 Hn2]. split; [by apply (xt_live _ _ _ _ Fr)|].
      split; [by apply (xt_own _ _ _ _ Fr)|by apply (xt_str _ _ _ _ Fr)].
    + apply Fr.
    + intros b Hb. by apply owned_snoc_in.
    + intros b Hb. rewrite owned_app in Hb. apply elem_of_app in Hb as [?|Hb]; [by left|right]. by destruct (Hnew b Hb).
    + intros b Hb Hge. unfold lib_live in Hb. apply elem_of_filter in Hb as [_ Hb].
      rewrite owned_app. apply elem_of_app. right. rewrite TierBridgeE2E2.owned_singleton, owned_fl_split.
      destruct (decide (b ∈ nids (flat_t tc))) as [?|Hn1]; [apply elem_of_app; by left|].
      destruct (decide (b ∈ sids (flat_t tc))) as [?|Hn2]; [apply elem_of_app; by right|].
      exfalso. apply (xt_live _ _ _ _ Fr b Hn1 Hn2) in Hb. pose proof (MInv_live_below _ _ I b Hb). lia.
  - destruct (bridge_duplicate h' tp tc Hcp) as (_ & _ & H3). destruct (H3 Hh) as [D2 _].
    rewrite (reify_keep h h' F tp (mi_own _ _ I) Hn K) in D2. exact D2.
Qed.

(** * cJSON_AddItemToArray(second-last root, last root) *)
Lemma S_add_arr h G x y d dy pcs csy :
  MInv h ((G ++ [T x d pcs]) ++ [T y dy csy]) ->
  let F := (G ++ [T x d pcs]) ++ [T y dy csy] in
  let F' := G ++ [T x d (pcs ++ [T y dy csy])] in
  exists h', add_item_to_array (Some x) (Some y) h = Ret (true, h') /\
    MInv h' F' /\ Step [] h F h' F' /\ h_str h' = h_str h /\ h_next h' = h_next h.
Proof.
  intros I F F'. pose proof (mi_wf _ _ I) as W. pose proof (wf_nodup _ _ W) as ND.
  destruct (last_root_fresh _ _ _ W) as [Hyr Hyi]. cbn [tid] in Hyr, Hyi.
  assert (ND1 : NoDup (ids (G ++ [T x d pcs]))).
  { rewrite ids_app in ND. by apply NoDup_app in ND as (? & _ & _). }
  assert (Hxi : x ∉ ids G).
  { rewrite ids_app in ND1. apply NoDup_app in ND1 as (_ & Hdis & _). intros Hin. apply (Hdis _ Hin).
    apply roots_subseteq_ids. cbn. by left. }
  assert (Hxy : x <> y).
  { intros ->. apply Hyi. rewrite ids_app. apply elem_of_app. right. apply roots_subseteq_ids. cbn. by left. }
  assert (Hr : find_root y F = Some (T y dy csy)) by (exact (find_root_last (G ++ [T x d pcs]) (T y dy csy) Hyr)).
  assert (Hrr : remove_root y F = G ++ [T x d pcs]) by (exact (CoreRefineReplace.remove_root_snoc (G ++ [T x d pcs]) (T y dy csy) Hyr)).
  assert (Hp : find_tree x (remove_root y F) = Some (T x d pcs)).
  { rewrite Hrr. exact (find_tree_last_nd G (T x d pcs) ND1). }
  assert (Hxn : T x d pcs ∈ nodes F).
  { unfold F. rewrite nodes_app. apply elem_of_app. left. rewrite nodes_app. apply elem_of_app. right.
    apply roots_in_nodes. by left. }
  destruct (mi_own _ _ I _ (datas_of_node F _ Hxn)) as [Href _]. cbn [snd tdata] in Href.
  destruct (add_item_to_array_sim h F x y (T y dy csy) d pcs W Hxy Hr Hp Href) as (_ & Hrun & W').
  rewrite Hrr, (set_children_last G x d pcs _ Hxi) in Hrun, W'. fold F' in Hrun, W'.
  assert (HD : datas F' ≡ₚ datas F).
  { pose proof (datas_move_root F y (T y dy csy) x d pcs (pcs ++ [T y dy csy]) ND Hr Hp ltac:(symmetry; apply Permutation_cons_append)) as HD.
    by rewrite Hrr, (set_children_last G x d pcs _ Hxi) in HD. }
  eexists. split; [exact Hrun|]. split; [|split; [|done]].
  - apply (PatchHeapSteps.MInv_relink h F F' _ _ I W'); [|exact HD].
    exact (Cons_ok _ _ _ _ (Cons_add_item_to_array _ _) Hrun (mi_ok _ _ I)).
  - apply Step_relink; try done. by apply owned_of_datas_perm.
Qed.
