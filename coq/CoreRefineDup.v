(** CoreRefineDup.v — simulation of [cJSON_Duplicate] (property C11; for every allocation
    oracle, hence also C08).

    [dup_rec_sim] (induction on the remaining depth budget [k], inner induction along the
    sibling chain in [dup_loop_sim]): on a closed heap [g] that READS as the tree [t]
    ([src_t g lf k t], see CoreRefineDupTree.v) the call returns — never an error outcome —
    * either NULL in a heap that differs from [g] only in the allocator's counters, the trace and
      the ownership tags of blocks that no longer exist ([Ext [] [] g g']), and then the
      source was cut off at the depth limit or some allocation request was refused;
    * or a new tree [tc], encoded in [g'] next to everything [g] contained
      ([Ext (nodes of tc) (strings of tc) g g'], [Chain_ok g' [tc] None]), which is a copy of
      [t] ([copy_of]), and then nothing was cut off and no request was refused. *)
From CJ Require Import Base Dbl Heap Forest ForestLemmas CoreSpec CoreDefs CoreRefineBase CoreRefine CoreRefineDelete
  CoreRefineDupBase CoreRefineDupTree CoreRefineDupNode CoreRefineDupLoop.
From CJ.gen Require Import Constants.
From stdpp Require Import gmap.
From Coq Require Import Lia.

Implicit Types (g h : heap) (i n b : positive) (d : rdata) (ts cs : list tree).

Lemma child_of_head_or d (ks : list positive) : (ks = [] -> rd_ref d = None) -> child_of d ks = head ks.
Proof. intros H. destruct ks; [by apply H|done]. Qed.

Lemma limit_nonneg : (0 <= c_CJSON_CIRCULAR_LIMIT)%Z.
Proof. unfold c_CJSON_CIRCULAR_LIMIT. lia. Qed.

Section Main.
  Variable oracle : nat -> bool.
  Notation ofail := (ofail oracle).
  Notation oclean := (oclean oracle).
  Notation Post := (Post oracle).

  Lemma ofail_same g g1 g' : ofail g g1 -> h_req g' = h_req g1 -> ofail g g'.
  Proof. intros (j & Hj & Ho) Hr. exists j. split; [lia|done]. Qed.

  Lemma dup_rec_sim k : forall df lf g t,
    k <= df -> Closed g -> src_t g lf k t ->
    exists r g',
      cJSON_Duplicate_rec oracle (S df) lf (Some (tid t)) (c_CJSON_CIRCULAR_LIMIT - Z.of_nat k) true g = Ret (r, g') /\
      Post g t r g'.
  Proof.
    induction k as [|k IH]; intros df lf g [i d cs] Hdf C Hsrc; rewrite dup_rec_S; cbn [tid is_null].
    - (* at the depth limit *)
      rewrite src_t_O in Hsrc. destruct Hsrc as [Hnode ->]. cbn [fmap list_fmap] in Hnode.
      set (depth := (c_CJSON_CIRCULAR_LIMIT - Z.of_nat 0)%Z).
      set (rec := fun c => cJSON_Duplicate_rec oracle df lf c (depth + 1) true).
      destruct (dup_prefix_sim oracle (fun newitem => dup_k3 rec lf (Some i) depth true newitem) g lf i d [] C Hnode)
        as [(g' & Hrun & Hfr & Hof)|(v & kk & gc & Hrun & P & Hcl & Hdc)].
      { exists None, g'. split; [exact Hrun|]. left. by split_and!. }
      set (n := h_next g) in *. set (d2 := cp_data d v kk) in *.
      cut (exists r g', dup_k3 rec lf (Some i) depth true (Some n) gc = Ret (r, g') /\ Post g (T i d []) r g').
      { intros (r & g' & H1 & H2). exists r, g'. split; [exact (eq_trans Hrun H1)|exact H2]. }
      unfold dup_k3. cbn [negb].
      pose proof (nd_at_frame _ _ _ _ _ _ (pa_frame _ _ _ _ _ P) (proj1 Hnode)) as Hi.
      rewrite (bindM_Ret _ _ _ _ _ (run_get_child_plain _ _ _ (proj1 Hi) (proj2 Hi))).
      change (nd_child (mk_dat d [])) with (rd_ref d).
      destruct lf as [|lf]; [destruct Hnode as (_ & Hlen & _); cbn in Hlen; lia|]. cbn [dup_loop].
      destruct (rd_ref d) as [c|] eqn:Eref; cbn [is_null].
      + assert (Hlim : (c_CJSON_CIRCULAR_LIMIT <=? depth)%Z = true) by (apply Z.leb_le; unfold depth; lia).
        rewrite Hlim. rewrite bindM_ret. cbn [negb].
        destruct (dup_fail_sim _ _ _ _ _ P) as (g' & Hrun' & Hfr & Hreq).
        exists None, g'. split; [exact Hrun'|]. left. split_and!; [done|done|].
        intros Hc. apply complete_root in Hc. congruence.
      + rewrite bindM_ret. cbn [negb].
        destruct (close_sim _ _ _ _ _ P) as (g2 & Hrun2 & Fr2 & C2 & Hs2 & Hreq2).
        destruct (Partial_done_facts _ _ _ _ _ P) as [ND2 R2].
        exists (Some n), g2. split; [exact Hrun2|]. right. exists (T n d2 []). split; [done|].
        split_and!; try done.
        * rewrite copy_of_unfold. split; [by eapply data_copy_mono|done].
        * apply complete_node; [done|constructor].
        * eapply oclean_same; [exact Hcl|exact Hreq2].
    - (* below the limit *)
      rewrite src_t_S in Hsrc. destruct Hsrc as (Hnode & Href & Hlist).
      set (depth := (c_CJSON_CIRCULAR_LIMIT - Z.of_nat (S k))%Z).
      destruct df as [|df]; [lia|].
      set (rec := fun c => cJSON_Duplicate_rec oracle (S df) lf c (depth + 1) true).
      assert (HRec : RecOK oracle rec lf k).
      { intros c g1 C1 Hc. unfold rec.
        replace (depth + 1)%Z with (c_CJSON_CIRCULAR_LIMIT - Z.of_nat k)%Z by (unfold depth; lia).
        apply IH; [lia|done|done]. }
      assert (Hd : (c_CJSON_CIRCULAR_LIMIT <=? depth)%Z = false) by (apply Z.leb_gt; unfold depth; lia).
      destruct (dup_prefix_sim oracle (fun newitem => dup_k3 rec lf (Some i) depth true newitem) g lf i d
                  (tid <$> cs) C Hnode)
        as [(g' & Hrun & Hfr & Hof)|(v & kk & gc & Hrun & P & Hcl & Hdc)].
      { exists None, g'. split; [exact Hrun|]. left. by split_and!. }
      set (n := h_next g) in *. set (d2 := cp_data d v kk) in *.
      cut (exists r g', dup_k3 rec lf (Some i) depth true (Some n) gc = Ret (r, g') /\ Post g (T i d cs) r g').
      { intros (r & g' & H1 & H2). exists r, g'. split; [exact (eq_trans Hrun H1)|exact H2]. }
      unfold dup_k3. cbn [negb].
      pose proof (nd_at_frame _ _ _ _ _ _ (pa_frame _ _ _ _ _ P) (proj1 Hnode)) as Hi.
      rewrite (bindM_Ret _ _ _ _ _ (run_get_child_plain _ _ _ (proj1 Hi) (proj2 Hi))).
      change (nd_child (mk_dat d (tid <$> cs))) with (child_of d (tid <$> cs)).
      rewrite child_of_head_or by (intros E; apply Href; by apply fmap_nil_inv in E).
      assert (Hlen : length cs < lf).
      { destruct Hnode as (_ & Hlen & _). by rewrite fmap_length in Hlen. }
      destruct (dup_loop_sim oracle rec lf k n d2 depth Hd HRec cs lf g gc [] Hlen P Hcl Hlist)
        as (ok & nc & g1 & Hrun1 & tcs & P1 & Hs1 & Hcase).
      cbn [app] in P1, Hcase.
      erewrite bindM_Ret; [|exact Hrun1].
      destruct Hcase as [(-> & -> & Hcp & Hcl1 & HF)|(-> & Hof)]; cbn [negb].
      + destruct (close_sim _ _ _ _ _ P1) as (g2 & Hrun2 & Fr2 & C2 & Hs2 & Hreq2).
        destruct (Partial_done_facts _ _ _ _ _ P1) as [ND2 R2].
        exists (Some n), g2. split; [exact Hrun2|]. right. exists (T n d2 tcs). split; [done|].
        split_and!; try done.
        * rewrite copy_of_unfold. split.
          -- eapply data_copy_mono; [|exact Hdc]. intros b s H. by apply Hs2, Hs1.
          -- by eapply copy_list_mono.
        * by apply complete_node.
        * eapply oclean_same; [exact Hcl1|exact Hreq2].
      + destruct (dup_fail_sim _ _ _ _ _ P1) as (g' & Hrun' & Hfr & Hreq).
        exists None, g'. split; [exact Hrun'|]. left. split_and!; [done|done|].
        intros Hc. apply complete_children in Hc. eapply ofail_same; [by apply Hof|done].
  Qed.

  (** the non-recursive duplicate: the node alone *)
  Lemma dup_rec_flat_sim df lf g i d (ks : list positive) depth :
    Closed g -> src_node g lf i d ks ->
    exists r g',
      cJSON_Duplicate_rec oracle (S df) lf (Some i) depth false g = Ret (r, g') /\
      ((r = None /\ Ext [] [] g g' /\ ofail g g') \/
       (exists d2, r = Some (h_next g) /\
          Ext (nids (flat_t (T (h_next g) d2 []))) (sids (flat_t (T (h_next g) d2 []))) g g' /\
          NoDup (nids (flat_t (T (h_next g) d2 [])) ++ sids (flat_t (T (h_next g) d2 []))) /\
          Chain_ok g' [T (h_next g) d2 []] None /\ Forall ref_ok (flat_t (T (h_next g) d2 [])) /\
          data_copy g' d d2 /\ oclean g g')).
  Proof.
    intros C Hnode. rewrite dup_rec_S. cbn [is_null].
    set (rec := fun c => cJSON_Duplicate_rec oracle df lf c (depth + 1) true).
    destruct (dup_prefix_sim oracle (fun newitem => dup_k3 rec lf (Some i) depth false newitem) g lf i d ks C Hnode)
      as [(g' & Hrun & Hfr & Hof)|(v & kk & gc & Hrun & P & Hcl & Hdc)].
    { exists None, g'. split; [exact Hrun|]. left. by split_and!. }
    exists (Some (h_next g)), gc. split; [exact Hrun|]. right. exists (cp_data d v kk). split; [done|].
    destruct (close_sim _ _ _ _ _ P) as (g2 & Hrun2 & Fr2 & C2 & Hs2 & Hreq2).
    assert (g2 = gc) as ->.
    { revert Hrun2. pose proof (pa_node _ _ _ _ _ P) as Hn.
      rewrite (bindM_Ret _ _ _ _ _ (run_get_child_plain _ _ _ (proj1 Hn) (proj2 Hn))).
      cbn. intros [= <-]. done. }
    destruct (Partial_done_facts _ _ _ _ _ P) as [ND2 R2]. by split_and!.
  Qed.

  (** * the entry point *)
  Theorem cJSON_Duplicate_sim h t :
    Closed h -> src_t h (Pos.to_nat (h_next h)) (Z.to_nat c_CJSON_CIRCULAR_LIMIT) t ->
    exists r h', cJSON_Duplicate oracle (Some (tid t)) true h = Ret (r, h') /\ Post h t r h'.
  Proof.
    intros C Hsrc. unfold cJSON_Duplicate, heap_fuel. unfold bindM at 1.
    pose proof limit_nonneg as HL.
    destruct (dup_rec_sim (Z.to_nat c_CJSON_CIRCULAR_LIMIT) (S (Z.to_nat c_CJSON_CIRCULAR_LIMIT))
                (Pos.to_nat (h_next h)) h t ltac:(lia) C Hsrc) as (r & h' & Hrun & HP).
    rewrite Z2Nat.id in Hrun by done. rewrite Z.sub_diag in Hrun. by exists r, h'.
  Qed.

  Theorem cJSON_Duplicate_flat_sim h i d (ks : list positive) :
    Closed h -> src_node h (Pos.to_nat (h_next h)) i d ks ->
    exists r h',
      cJSON_Duplicate oracle (Some i) false h = Ret (r, h') /\
      ((r = None /\ Ext [] [] h h' /\ ofail h h') \/
       (exists d2, r = Some (h_next h) /\
          Ext (nids (flat_t (T (h_next h) d2 []))) (sids (flat_t (T (h_next h) d2 []))) h h' /\
          NoDup (nids (flat_t (T (h_next h) d2 [])) ++ sids (flat_t (T (h_next h) d2 []))) /\
          Chain_ok h' [T (h_next h) d2 []] None /\ Forall ref_ok (flat_t (T (h_next h) d2 [])) /\
          data_copy h' d d2 /\ oclean h h')).
  Proof.
    intros C Hnode. unfold cJSON_Duplicate, heap_fuel. unfold bindM at 1.
    exact (dup_rec_flat_sim _ _ h i d ks 0%Z C Hnode).
  Qed.

  Theorem cJSON_Duplicate_null recurse h : cJSON_Duplicate oracle None recurse h = Ret (None, h).
  Proof. reflexivity. Qed.
End Main.
