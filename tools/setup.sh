#!/bin/sh
# setup.sh — builds the whole framework from files on disk only (offline):
# source facts from /repo, the full Coq development (.vo, no -vos), extraction, OCaml drivers.
set -e
cd "$(dirname "$0")/.."
python3 tools/gen_facts.py /repo coq/gen
sh tools/coqproject.sh
cd coq
timeout 5400 make -k -j16 COQC="timeout 1500 coqc" 2>&1 | grep -v "^COQC\|^COQDEP\|conda\|pyenv\|shims\|^Closed under\|^Axioms:" | tail -30
cd ..
for f in coq/Extract_*.v; do a=$(basename $f .v); a=${a#Extract_}; sh ocaml/build.sh $a || echo "driver $a failed"; done
echo "setup done"
