(** RoundTrip.v — property C04: printing a tree and parsing the text returns a tree of the same
    shape, member order, keys and string bytes, with every number equal up to compare_double
    (and == for integers below 10^15); printing the re-parsed tree gives the same bytes.

    Route: PrintStrict.render_rfc_value (the printed text is an RFC 8259 value denoting
    [val_of n]) ; ParseComplete.complete_value (an RFC 8259 value is decoded to exactly
    [tree_of strtod] of the value it denotes) ; here: [tree_of strtod (val_of n)] is related to
    [n] node by node, numbers through RoundTripNum.number_roundtrip.

    The C library enters through three contracts, all hypotheses (never axioms):
    [strtod_rfc] (ParseComplete.v), [LibcStrictSpec] (PrintStrict.v), [LibcRoundTripSpec]
    (RoundTripNum.v); [strtod_ok] (ParseDefs.v) in addition for the parser entry points. *)
From CJ Require Import Base Dbl Tree Grammar ParseDefs ParseSpec ParseComplete ParseCompleteEntry
  PrintDefs PrintStrict CompareProofs RoundTripNum.
Local Open Scope Z_scope.

(** * What is required of a tree beyond [PrintStrict.printable] *)

Definition present {A} (o : option A) : bool := match o with Some _ => true | None => false end.

(** numbers are finite well-formed doubles whose valueint is the saturated (int) valuedouble
    (what parse_number, cJSON_CreateNumber and cJSON_SetNumberHelper store); valuestring of a
    string and the names of object members are not NULL.  Boolean, so it can be evaluated.
    As in [printable], children of non-containers are not looked at. *)
Fixpoint rt_ok (n : node) : bool :=
  match n with
  | Node ty vs vi vd key ch =>
    let t := tymask ty in
    (if t =? c_cJSON_Number then is_finite vd && valid_binary prec emax vd && (vi =? sat_int vd) else true)
    && (if t =? c_cJSON_String then present vs else true)
    && (if t =? c_cJSON_Object then forallb (fun c => present (n_key c)) ch else true)
    && (if is_container t then forallb rt_ok ch else true)
  end.

Lemma rt_ok_eq ty vs vi vd key ch :
  rt_ok (Node ty vs vi vd key ch) =
    let t := tymask ty in
    (if t =? c_cJSON_Number then is_finite vd && valid_binary prec emax vd && (vi =? sat_int vd) else true)
    && (if t =? c_cJSON_String then present vs else true)
    && (if t =? c_cJSON_Object then forallb (fun c => present (n_key c)) ch else true)
    && (if is_container t then forallb rt_ok ch else true).
Proof. reflexivity. Qed.

(** * The relation between a tree and its re-parsed copy *)

(** [same_shape n n']: identical masked types, same children in the same order, same member
    names, same string bytes (as C strings: [str_bytes] is the part before the first zero
    byte), every number of n' compare_double-equal to the one of n, == when that is an integer
    below 10^15, valueint of n' its saturated truncation; n' has the clean form the parser
    builds (no children below scalars).  Names are compared for object members only; valueint
    / valuedouble / valuestring only where the type gives them a meaning. *)
Inductive same_shape : node -> node -> Prop :=
| ss_literal ty vs vi vd k ch ty' vs' vi' vd' k' :
    tymask ty = c_cJSON_NULL \/ tymask ty = c_cJSON_False \/ tymask ty = c_cJSON_True ->
    tymask ty' = tymask ty ->
    same_shape (Node ty vs vi vd k ch) (Node ty' vs' vi' vd' k' [])
| ss_number ty vs vi vd k ch ty' vs' vi' vd' k' :
    tymask ty = c_cJSON_Number -> tymask ty' = c_cJSON_Number ->
    compare_double vd' vd = true ->
    (int15 vd -> deq vd' vd = true) ->
    vi' = sat_int vd' ->
    same_shape (Node ty vs vi vd k ch) (Node ty' vs' vi' vd' k' [])
| ss_string ty vs vi vd k ch ty' vs' vi' vd' k' :
    tymask ty = c_cJSON_String -> tymask ty' = c_cJSON_String ->
    vs' = Some (str_bytes vs) ->
    same_shape (Node ty vs vi vd k ch) (Node ty' vs' vi' vd' k' [])
| ss_array ty vs vi vd k ch ty' vs' vi' vd' k' ch' :
    tymask ty = c_cJSON_Array -> tymask ty' = c_cJSON_Array ->
    Forall2 same_shape ch ch' ->
    same_shape (Node ty vs vi vd k ch) (Node ty' vs' vi' vd' k' ch')
| ss_object ty vs vi vd k ch ty' vs' vi' vd' k' ch' :
    tymask ty = c_cJSON_Object -> tymask ty' = c_cJSON_Object ->
    Forall2 (fun c c' => n_key c' = Some (str_bytes (n_key c)) /\ same_shape c c') ch ch' ->
    same_shape (Node ty vs vi vd k ch) (Node ty' vs' vi' vd' k' ch').

Lemma same_shape_set_key n n' k : same_shape n n' -> same_shape n (set_key k n').
Proof.
  intros H. destruct H; cbn [set_key].
  - apply ss_literal; assumption.
  - apply ss_number; assumption.
  - apply ss_string; assumption.
  - apply ss_array; assumption.
  - apply ss_object; assumption.
Qed.

(** * Small facts *)
Lemma cstr_idem b : cstr (cstr b) = cstr b.
Proof.
  induction b as [|c b IH]; [reflexivity|]. cbn [cstr].
  destruct (Z.eqb_spec c 0) as [E|E]; [reflexivity|].
  cbn [cstr]. destruct (Z.eqb_spec c 0); [contradiction|]. rewrite IH. reflexivity.
Qed.

Lemma cstr_str_bytes s : cstr (str_bytes s) = str_bytes s.
Proof. destruct s as [b|]; [apply cstr_idem|reflexivity]. Qed.

Lemma ty_cases t : ty_ok t = true ->
  t = c_cJSON_NULL \/ t = c_cJSON_False \/ t = c_cJSON_True \/ t = c_cJSON_Number \/
  t = c_cJSON_String \/ t = c_cJSON_Array \/ t = c_cJSON_Object.
Proof.
  unfold ty_ok. intro H. rewrite !orb_true_iff, !Z.eqb_eq in H. tauto.
Qed.

Ltac tysimpl :=
  cbv zeta;
  change (tymask c_cJSON_NULL) with c_cJSON_NULL; change (tymask c_cJSON_False) with c_cJSON_False;
  change (tymask c_cJSON_True) with c_cJSON_True; change (tymask c_cJSON_Number) with c_cJSON_Number;
  change (tymask c_cJSON_String) with c_cJSON_String; change (tymask c_cJSON_Array) with c_cJSON_Array;
  change (tymask c_cJSON_Object) with c_cJSON_Object;
  cbn [Z.eqb Pos.eqb c_cJSON_NULL c_cJSON_False c_cJSON_True c_cJSON_Number c_cJSON_String
       c_cJSON_Array c_cJSON_Object c_cJSON_Raw is_container ty_ok orb andb].
Ltac tysimpl_in H :=
  cbv zeta in H;
  cbn [Z.eqb Pos.eqb c_cJSON_NULL c_cJSON_False c_cJSON_True c_cJSON_Number c_cJSON_String
       c_cJSON_Array c_cJSON_Object c_cJSON_Raw is_container ty_ok orb andb] in H.

Lemma tree_of_arr strtod l :
  tree_of strtod (JArr l) = Node c_cJSON_Array None 0 dzero None (map (tree_of strtod) l).
Proof.
  reflexivity.
Qed.

Lemma tree_of_obj strtod m :
  tree_of strtod (JObj m) =
  Node c_cJSON_Object None 0 dzero None (map (fun kv => set_key (cstr (fst kv)) (tree_of strtod (snd kv))) m).
Proof.
  cbn [tree_of]. f_equal. induction m as [|[k x] m IH]; [reflexivity|]. cbn [map fst snd]. rewrite <- IH. reflexivity.
Qed.

Lemma n_key_set_key k n : n_key (set_key k n) = Some k.
Proof. destruct n; reflexivity. Qed.

(** * The re-parsed tree *)
Section RoundTrip.
  Variable strtod : bytes -> option (dbl * nat).
  Variable fmt_d : Z -> bytes.
  Variable fmt_g15 fmt_g17 : dbl -> bytes.
  Variable sscanf_lg : bytes -> option dbl.
  Hypothesis Hrfc : strtod_rfc strtod.
  Hypothesis L : LibcStrictSpec fmt_d fmt_g15 fmt_g17.
  Hypothesis R : LibcRoundTripSpec strtod fmt_d fmt_g15 fmt_g17 sscanf_lg.

  Notation number_text := (PrintDefs.number_text fmt_d fmt_g15 fmt_g17 sscanf_lg).
  Notation render := (PrintDefs.render fmt_d fmt_g15 fmt_g17 sscanf_lg).
  Notation val_of := (PrintStrict.val_of fmt_d fmt_g15 fmt_g17 sscanf_lg).

  (** the tree the parser builds from the text of [n] (by C02; see [roundtrip_text] below) *)
  Definition reparsed (n : node) : node := tree_of strtod (val_of n).

  Lemma render_set_key fmt depth k n : render fmt depth (set_key k n) = render fmt depth n.
  Proof. destruct n; reflexivity. Qed.

  Lemma val_of_set_key k n : val_of (set_key k n) = val_of n.
  Proof. destruct n; reflexivity. Qed.

  Lemma render_string_norm k : render_string (Some (cstr (str_bytes k))) = render_string k.
  Proof. rewrite !render_string_eq. cbn [str_bytes]. rewrite cstr_idem, cstr_str_bytes. reflexivity. Qed.

  Lemma members_text_norm fmt d ch : forall l,
    members_text fmt d (combine (map (fun c => Some (cstr (str_bytes (n_key c)))) ch) l) =
    members_text fmt d (combine (map n_key ch) l).
  Proof.
    induction ch as [|c ch IH]; intros [|x l]; try reflexivity.
    cbn [map combine members_text]. rewrite IH. f_equal.
    - unfold member_text. rewrite render_string_norm.
      destruct ch as [|c2 ch], l as [|x2 l]; reflexivity.
  Qed.

  (** the number case, from [number_roundtrip] *)
  Lemma reparsed_number ty vs vi vd key ch :
    tymask ty = c_cJSON_Number -> is_finite vd = true -> dbl_ok vd -> vi = sat_int vd ->
    exists d', reparsed (Node ty vs vi vd key ch) = Node c_cJSON_Number None (sat_int d') d' None [] /\
      is_finite d' = true /\ dbl_ok d' /\ compare_double d' vd = true /\ (int15 vd -> deq d' vd = true) /\
      number_text (sat_int d') d' = number_text vi vd.
  Proof.
    intros E Hf Hv Hvi.
    exists (read_back strtod (number_text vi vd)). split.
    - unfold reparsed. rewrite val_of_eq. tysimpl. rewrite E. tysimpl.
      rewrite (finite_nan_inf vd Hf). reflexivity.
    - exact (number_roundtrip strtod fmt_d fmt_g15 fmt_g17 sscanf_lg R vi vd Hf Hv Hvi).
  Qed.

  Lemma forallb_In {A} (f : A -> bool) l x : forallb f l = true -> In x l -> f x = true.
  Proof. intros H Hx. rewrite forallb_forall in H. exact (H x Hx). Qed.

  (** ** shape *)
  Theorem reparsed_same_shape : forall n, printable n = true -> rt_ok n = true -> same_shape n (reparsed n).
  Proof.
    induction n as [ty vs vi vd key ch IH] using node_ind'. intros Hp Ho.
    rewrite printable_eq in Hp. rewrite rt_ok_eq in Ho. cbv zeta in Hp, Ho.
    apply andb_true_iff in Hp as [Hp Pch]. apply andb_true_iff in Hp as [Hp Pkeys].
    apply andb_true_iff in Hp as [Hp Pstr]. apply andb_true_iff in Hp as [Pty Pint].
    apply andb_true_iff in Ho as [Ho Och]. apply andb_true_iff in Ho as [Ho Okeys].
    apply andb_true_iff in Ho as [Onum Ostr].
    destruct (ty_cases _ Pty) as [E|[E|[E|[E|[E|[E|E]]]]]].
    - unfold reparsed. rewrite val_of_eq. tysimpl. rewrite E. tysimpl. cbn [tree_of].
      apply ss_literal; [tauto|symmetry; exact E].
    - unfold reparsed. rewrite val_of_eq. tysimpl. rewrite E. tysimpl. cbn [tree_of].
      apply ss_literal; [tauto|symmetry; exact E].
    - unfold reparsed. rewrite val_of_eq. tysimpl. rewrite E. tysimpl. cbn [tree_of].
      apply ss_literal; [tauto|symmetry; exact E].
    - rewrite E in Onum. tysimpl_in Onum.
      apply andb_true_iff in Onum as [Ho Hvi]. apply andb_true_iff in Ho as [Hf Hv]. apply Z.eqb_eq in Hvi.
      destruct (reparsed_number ty vs vi vd key ch E Hf Hv Hvi) as [d' [Er [_ [_ [Hc [Hi _]]]]]].
      rewrite Er. apply ss_number; auto.
    - unfold reparsed. rewrite val_of_eq. tysimpl. rewrite E. tysimpl. cbn [tree_of].
      apply ss_string; [exact E|reflexivity|]. rewrite cstr_str_bytes. reflexivity.
    - unfold reparsed. rewrite val_of_eq. tysimpl. rewrite E. tysimpl. rewrite tree_of_arr.
      rewrite E in Pch, Och. tysimpl_in Pch. tysimpl_in Och.
      apply ss_array; [exact E|reflexivity|]. rewrite map_map.
      clear - IH Pch Och. induction ch as [|c ch IHch]; [constructor|].
      cbn [forallb] in Pch, Och. apply andb_true_iff in Pch as [Hc Hr]. apply andb_true_iff in Och as [Hc0 Hr0].
      inversion IH as [|? ? IHc IHr]; subst. cbn [map]. constructor.
      + apply IHc; assumption.
      + apply IHch; assumption.
    - unfold reparsed. rewrite val_of_eq. tysimpl. rewrite E. tysimpl. rewrite tree_of_obj.
      rewrite E in Pch, Och. tysimpl_in Pch. tysimpl_in Och.
      apply ss_object; [exact E|reflexivity|]. rewrite map_map. cbn [fst snd].
      clear - IH Pch Och. induction ch as [|c ch IHch]; [constructor|].
      cbn [forallb] in Pch, Och. apply andb_true_iff in Pch as [Hc Hr]. apply andb_true_iff in Och as [Hc0 Hr0].
      inversion IH as [|? ? IHc IHr]; subst. cbn [map]. constructor.
      + split; [rewrite n_key_set_key, cstr_str_bytes; reflexivity|].
        apply same_shape_set_key. apply IHc; assumption.
      + apply IHch; assumption.
  Qed.

  (** ** fixed point: the re-parsed tree prints to the same bytes, in either format at any depth *)
  Ltac split_hyps Hp Ho :=
    rewrite printable_eq in Hp; rewrite rt_ok_eq in Ho; cbv zeta in Hp, Ho;
    apply andb_true_iff in Hp as [Hp Pch]; apply andb_true_iff in Hp as [Hp Pkeys];
    apply andb_true_iff in Hp as [Hp Pstr]; apply andb_true_iff in Hp as [Pty Pint];
    apply andb_true_iff in Ho as [Ho Och]; apply andb_true_iff in Ho as [Ho Okeys];
    apply andb_true_iff in Ho as [Onum Ostr].

  Lemma children_map_eq {B} (f g : node -> B) (P : node -> Prop) ch :
    Forall (fun c => printable c = true -> rt_ok c = true -> f c = g c) ch ->
    forallb printable ch = true -> forallb rt_ok ch = true -> map f ch = map g ch.
  Proof.
    induction 1 as [|c ch Hc _ IH]; intros Hp Ho; [reflexivity|].
    cbn [forallb] in Hp, Ho. apply andb_true_iff in Hp as [Hp1 Hp2]. apply andb_true_iff in Ho as [Ho1 Ho2].
    cbn [map]. rewrite (Hc Hp1 Ho1), (IH Hp2 Ho2). reflexivity.
  Qed.

  Theorem reparsed_render : forall n, printable n = true -> rt_ok n = true ->
    forall fmt depth, render fmt depth (reparsed n) = render fmt depth n.
  Proof.
    induction n as [ty vs vi vd key ch IH] using node_ind'. intros Hp Ho fmt depth.
    split_hyps Hp Ho.
    destruct (ty_cases _ Pty) as [E|[E|[E|[E|[E|[E|E]]]]]].
    - unfold reparsed. rewrite val_of_eq. tysimpl. rewrite E. tysimpl. cbn [tree_of].
      rewrite !render_eq. tysimpl. rewrite E. reflexivity.
    - unfold reparsed. rewrite val_of_eq. tysimpl. rewrite E. tysimpl. cbn [tree_of].
      rewrite !render_eq. tysimpl. rewrite E. reflexivity.
    - unfold reparsed. rewrite val_of_eq. tysimpl. rewrite E. tysimpl. cbn [tree_of].
      rewrite !render_eq. tysimpl. rewrite E. reflexivity.
    - rewrite E in Onum. tysimpl_in Onum.
      apply andb_true_iff in Onum as [Ho' Hvi]. apply andb_true_iff in Ho' as [Hf Hv]. apply Z.eqb_eq in Hvi.
      destruct (reparsed_number ty vs vi vd key ch E Hf Hv Hvi) as [d' [Er [_ [_ [_ [_ Ht]]]]]].
      rewrite Er. rewrite !render_eq. tysimpl. rewrite E. tysimpl. rewrite Ht. reflexivity.
    - unfold reparsed. rewrite val_of_eq. tysimpl. rewrite E. tysimpl. cbn [tree_of].
      rewrite !render_eq. tysimpl. rewrite E. tysimpl. rewrite render_string_norm. reflexivity.
    - unfold reparsed. rewrite val_of_eq. tysimpl. rewrite E. tysimpl. rewrite tree_of_arr.
      rewrite E in Pch, Och. tysimpl_in Pch. tysimpl_in Och.
      rewrite !render_eq. tysimpl. rewrite E. tysimpl. rewrite !map_map.
      rewrite (children_map_eq (fun x => render fmt (depth + 1) (tree_of strtod (val_of x)))
                 (render fmt (depth + 1)) (fun _ => True) ch); [reflexivity| |exact Pch|exact Och].
      eapply Forall_impl; [|exact IH]. intros c Hc Hpc Hoc. exact (Hc Hpc Hoc fmt (depth + 1)).
    - unfold reparsed. rewrite val_of_eq. tysimpl. rewrite E. tysimpl. rewrite tree_of_obj.
      rewrite E in Pch, Och. tysimpl_in Pch. tysimpl_in Och.
      rewrite !render_eq. tysimpl. rewrite E. tysimpl. rewrite !map_map. cbn [fst snd].
      rewrite (children_map_eq
                 (fun x => render fmt (depth + 1) (set_key (cstr (str_bytes (n_key x))) (tree_of strtod (val_of x))))
                 (render fmt (depth + 1)) (fun _ => True) ch); [| |exact Pch|exact Och].
      + destruct (opt_all (map (render fmt (depth + 1)) ch)) as [l|]; [|reflexivity].
        rewrite (map_ext _ (fun c => Some (cstr (str_bytes (n_key c)))))
          by (intro c; apply n_key_set_key).
        rewrite members_text_norm. reflexivity.
      + eapply Forall_impl; [|exact IH]. intros c Hc Hpc Hoc. rewrite render_set_key.
        exact (Hc Hpc Hoc fmt (depth + 1)).
  Qed.

  (** ** the re-parsed tree denotes the same value (same literals, same strings), so parsing
      its text again returns the very same tree: the cycle is a fixed point on trees as well *)
  Theorem reparsed_val_of : forall n, printable n = true -> rt_ok n = true ->
    val_of (reparsed n) = val_of n.
  Proof.
    induction n as [ty vs vi vd key ch IH] using node_ind'. intros Hp Ho.
    split_hyps Hp Ho.
    destruct (ty_cases _ Pty) as [E|[E|[E|[E|[E|[E|E]]]]]].
    - unfold reparsed. rewrite val_of_eq. tysimpl. rewrite E. reflexivity.
    - unfold reparsed. rewrite val_of_eq. tysimpl. rewrite E. reflexivity.
    - unfold reparsed. rewrite val_of_eq. tysimpl. rewrite E. reflexivity.
    - rewrite E in Onum. tysimpl_in Onum.
      apply andb_true_iff in Onum as [Ho' Hvi]. apply andb_true_iff in Ho' as [Hf Hv]. apply Z.eqb_eq in Hvi.
      destruct (reparsed_number ty vs vi vd key ch E Hf Hv Hvi) as [d' [Er [Hf' [_ [_ [_ Ht]]]]]].
      rewrite Er. rewrite !val_of_eq. tysimpl. rewrite E. tysimpl.
      rewrite (finite_nan_inf _ Hf'), (finite_nan_inf _ Hf), Ht. reflexivity.
    - unfold reparsed. rewrite val_of_eq. tysimpl. rewrite E. tysimpl. cbn [tree_of].
      rewrite val_of_eq. tysimpl. cbn [str_bytes]. rewrite cstr_idem, cstr_str_bytes. reflexivity.
    - unfold reparsed. rewrite val_of_eq. tysimpl. rewrite E. tysimpl. rewrite tree_of_arr.
      rewrite E in Pch, Och. tysimpl_in Pch. tysimpl_in Och.
      rewrite val_of_eq. tysimpl. rewrite !map_map. f_equal.
      apply (children_map_eq _ _ (fun _ => True)); [|exact Pch|exact Och]. exact IH.
    - unfold reparsed. rewrite val_of_eq. tysimpl. rewrite E. tysimpl. rewrite tree_of_obj.
      rewrite E in Pch, Och. tysimpl_in Pch. tysimpl_in Och.
      rewrite val_of_eq. tysimpl. rewrite !map_map. cbn [fst snd]. f_equal.
      apply (children_map_eq _ _ (fun _ => True)); [|exact Pch|exact Och].
      eapply Forall_impl; [|exact IH]. intros c Hc Hpc Hoc. cbn beta.
      rewrite n_key_set_key, val_of_set_key. cbn [str_bytes]. rewrite cstr_idem, cstr_str_bytes.
      f_equal. exact (Hc Hpc Hoc).
  Qed.

  Corollary reparsed_idempotent n : printable n = true -> rt_ok n = true ->
    reparsed (reparsed n) = reparsed n.
  Proof. intros Hp Ho. unfold reparsed at 1. rewrite (reparsed_val_of n Hp Ho). reflexivity. Qed.

  (** ** the re-parsed tree satisfies the hypotheses again (the cycle can be repeated; a tree
      that came from parsing printed text is covered by the theorems) *)
  Lemma printable_set_key k n : printable (set_key k n) = printable n.
  Proof. destruct n; reflexivity. Qed.
  Lemma rt_ok_set_key k n : rt_ok (set_key k n) = rt_ok n.
  Proof. destruct n; reflexivity. Qed.
  Lemma cdepth_set_key k n : cdepth (set_key k n) = cdepth n.
  Proof. destruct n; reflexivity. Qed.

  Lemma forallb_map_children (f : node -> bool) (g : node -> node) ch :
    Forall (fun c => printable c = true -> rt_ok c = true -> f (g c) = true) ch ->
    forallb printable ch = true -> forallb rt_ok ch = true -> forallb f (map g ch) = true.
  Proof.
    induction 1 as [|c ch Hc _ IH]; intros Hp Ho; [reflexivity|].
    cbn [forallb] in Hp, Ho. apply andb_true_iff in Hp as [Hp1 Hp2]. apply andb_true_iff in Ho as [Ho1 Ho2].
    cbn [map forallb]. rewrite (Hc Hp1 Ho1), (IH Hp2 Ho2). reflexivity.
  Qed.

  Theorem reparsed_hyps : forall n, printable n = true -> rt_ok n = true ->
    printable (reparsed n) = true /\ rt_ok (reparsed n) = true /\ cdepth (reparsed n) = cdepth n.
  Proof.
    induction n as [ty vs vi vd key ch IH] using node_ind'. intros Hp Ho.
    split_hyps Hp Ho.
    destruct (ty_cases _ Pty) as [E|[E|[E|[E|[E|[E|E]]]]]].
    - unfold reparsed. rewrite val_of_eq, cdepth_eq. tysimpl. rewrite E. repeat split; reflexivity.
    - unfold reparsed. rewrite val_of_eq, cdepth_eq. tysimpl. rewrite E. repeat split; reflexivity.
    - unfold reparsed. rewrite val_of_eq, cdepth_eq. tysimpl. rewrite E. repeat split; reflexivity.
    - rewrite E in Onum. tysimpl_in Onum.
      apply andb_true_iff in Onum as [Ho' Hvi]. apply andb_true_iff in Ho' as [Hf Hv]. apply Z.eqb_eq in Hvi.
      destruct (reparsed_number ty vs vi vd key ch E Hf Hv Hvi) as [d' [Er [Hf' [Hv' _]]]].
      rewrite Er. rewrite printable_eq, rt_ok_eq, !cdepth_eq. tysimpl. rewrite E. tysimpl.
      rewrite (sat_int_range d' Hv'), Hf', Z.eqb_refl. unfold valid_dbl. unfold dbl_ok in Hv'. rewrite Hv'.
      repeat split; reflexivity.
    - unfold reparsed. rewrite val_of_eq. tysimpl. rewrite E. tysimpl. cbn [tree_of].
      rewrite printable_eq, rt_ok_eq, !cdepth_eq. tysimpl. rewrite E. tysimpl.
      rewrite E in Pstr. tysimpl_in Pstr.
      cbn [str_bytes present]. rewrite cstr_idem, cstr_str_bytes, Pstr. repeat split; reflexivity.
    - unfold reparsed. rewrite val_of_eq. tysimpl. rewrite E. tysimpl. rewrite tree_of_arr.
      rewrite E in Pch, Och. tysimpl_in Pch. tysimpl_in Och.
      rewrite printable_eq, rt_ok_eq, !cdepth_eq. tysimpl. rewrite E. tysimpl. rewrite !map_map.
      rewrite (forallb_map_children printable (fun x => tree_of strtod (val_of x)) ch);
        [| eapply Forall_impl; [|exact IH]; intros c Hc Hpc Hoc; exact (proj1 (Hc Hpc Hoc)) | exact Pch | exact Och].
      rewrite (forallb_map_children rt_ok (fun x => tree_of strtod (val_of x)) ch);
        [| eapply Forall_impl; [|exact IH]; intros c Hc Hpc Hoc; exact (proj1 (proj2 (Hc Hpc Hoc))) | exact Pch | exact Och].
      split; [reflexivity|]. split; [reflexivity|]. f_equal. f_equal.
      apply (children_map_eq _ _ (fun _ => True)); [|exact Pch|exact Och].
      eapply Forall_impl; [|exact IH]. intros c Hc Hpc Hoc. exact (proj2 (proj2 (Hc Hpc Hoc))).
    - unfold reparsed. rewrite val_of_eq. tysimpl. rewrite E. tysimpl. rewrite tree_of_obj.
      rewrite E in Pch, Och, Pkeys. tysimpl_in Pch. tysimpl_in Och. tysimpl_in Pkeys.
      rewrite map_map. cbn [fst snd].
      set (G := fun x : node => set_key (cstr (str_bytes (n_key x))) (tree_of strtod (val_of x))).
      rewrite printable_eq, rt_ok_eq, !cdepth_eq. tysimpl. rewrite E. tysimpl. rewrite map_map.
      rewrite (forallb_map_children (fun c => forallb is_byte (str_bytes (n_key c))) G ch); [| |exact Pch|exact Och].
      2:{ apply Forall_forall. intros c Hin _ _. unfold G. rewrite n_key_set_key. cbn [str_bytes].
          rewrite cstr_idem, cstr_str_bytes. exact (forallb_In _ _ _ Pkeys Hin). }
      rewrite (forallb_map_children (fun c => present (n_key c)) G ch); [| |exact Pch|exact Och].
      2:{ apply Forall_forall. intros c Hin _ _. unfold G. rewrite n_key_set_key. reflexivity. }
      rewrite (forallb_map_children printable G ch);
        [| eapply Forall_impl; [|exact IH]; intros c Hc Hpc Hoc; unfold G; rewrite printable_set_key; exact (proj1 (Hc Hpc Hoc)) | exact Pch | exact Och].
      rewrite (forallb_map_children rt_ok G ch);
        [| eapply Forall_impl; [|exact IH]; intros c Hc Hpc Hoc; unfold G; rewrite rt_ok_set_key; exact (proj1 (proj2 (Hc Hpc Hoc))) | exact Pch | exact Och].
      split; [reflexivity|]. split; [reflexivity|]. f_equal. f_equal.
      apply (children_map_eq _ _ (fun _ => True)); [|exact Pch|exact Och].
      eapply Forall_impl; [|exact IH]. intros c Hc Hpc Hoc. unfold G. rewrite cdepth_set_key.
      exact (proj2 (proj2 (Hc Hpc Hoc))).
  Qed.

  (** * Texts *)

  (** a bare RFC value (no leading or trailing whitespace) followed by anything that cannot
      extend a final number token: the parse ends exactly at the end of the value *)
  Lemma value_text_l t v tail :
    RFC_value nesting_limit t v -> jv_ok v -> nonnum_start tail ->
    text_l strtod (t ++ tail) false = Some (tree_of strtod v, tail).
  Proof.
    intros Hv Hok Htail. unfold text_l.
    destruct (value_starts _ t v Hv) as [c [t' [Et Hc]]].
    pose proof (bom_strip [] [] c (t' ++ tail) (or_introl eq_refl) eq_refl Hc) as Hb.
    cbn [app] in Hb. rewrite Et. cbn [app]. rewrite Hb.
    rewrite drop_ws_start by (apply value_start_gt; exact Hc).
    change (c :: t' ++ tail) with ((c :: t') ++ tail). rewrite <- Et.
    rewrite (complete_value strtod Hrfc nesting_limit t v Hv Hok (S (length (t ++ tail))) 0 tail); [reflexivity| | |exact Htail].
    - rewrite app_length. lia.
    - rewrite nesting_limit_Z. lia.
  Qed.

  Section Tree.
    Variable n : node.
    Hypothesis Hp : printable n = true.
    Hypothesis Ho : rt_ok n = true.
    Hypothesis Hd : (cdepth n <= nesting_limit)%nat.

    (** C04, first half, on the list-level specification of the parser: the text printed for n
        (formatted or not) is accepted, the parse ends at its last byte — with an exact-length
        buffer, with a terminating zero (termination required or not), with anything after it
        that cannot continue a number — and the tree has the same shape as n *)
    Theorem roundtrip_value fmt :
      exists txt t', render fmt 0 n = Some txt /\
        text_l strtod txt false = Some (t', []) /\
        (forall tail, nonnum_start tail -> text_l strtod (txt ++ tail) false = Some (t', tail)) /\
        (forall r rnt, text_l strtod (txt ++ 0 :: r) rnt = Some (t', 0 :: r)) /\
        t' = reparsed n /\ same_shape n t'.
    Proof.
      destruct (render_rfc_value fmt_d fmt_g15 fmt_g17 sscanf_lg L n Hp fmt 0 nesting_limit Hd) as [txt [Hr Hv]].
      pose proof (val_of_jv_ok fmt_d fmt_g15 fmt_g17 sscanf_lg L n Hp) as Hok.
      exists txt, (reparsed n). split; [exact Hr|].
      assert (Hopen : forall tail, nonnum_start tail ->
                text_l strtod (txt ++ tail) false = Some (reparsed n, tail)).
      { intros tail Ht. exact (value_text_l txt _ tail Hv Hok Ht). }
      split; [|split; [exact Hopen|split; [|split; [reflexivity|exact (reparsed_same_shape n Hp Ho)]]]].
      - pose proof (Hopen [] I) as H. rewrite app_nil_r in H. exact H.
      - intros r rnt. destruct rnt.
        + apply complete_text_zero_rnt; [exact Hrfc| |exact Hok].
          exists [], [], txt, []. rewrite app_nil_r. repeat split; auto.
        + apply Hopen. apply nonnum_start_byte. lia.
    Qed.

    (** C04, second half: printing the re-parsed tree gives byte-identical text (in both
        formats, whichever format the parsed text had), and parsing that again returns the
        very same tree *)
    Theorem print_fixed_point fmt fmt2 :
      exists txt t', render fmt 0 n = Some txt /\ text_l strtod txt false = Some (t', []) /\
        render fmt2 0 t' = render fmt2 0 n /\
        (forall txt2, render fmt2 0 t' = Some txt2 -> text_l strtod txt2 false = Some (t', [])).
    Proof.
      destruct (roundtrip_value fmt) as [txt [t' [Hr [Ht [_ [_ [Et _]]]]]]].
      exists txt, t'. split; [exact Hr|]. split; [exact Ht|].
      assert (Hre : render fmt2 0 t' = render fmt2 0 n) by (rewrite Et; apply reparsed_render; assumption).
      split; [exact Hre|].
      intros txt2 H2. rewrite Hre in H2.
      destruct (roundtrip_value fmt2) as [txt' [t'' [Hr' [Ht' [_ [_ [Et' _]]]]]]].
      rewrite Hr' in H2. injection H2 as <-. rewrite Et. rewrite <- Et'. exact Ht'.
    Qed.

    (** the same at the entry points of the transliterated parser (ParseDefs.v): cJSON_Parse,
        cJSON_ParseWithOpts, cJSON_ParseWithLength, cJSON_ParseWithLengthOpts on the printed
        text in an exact-length or zero-terminated buffer, whatever lies [beyond] *)
    Theorem roundtrip_entry_points fmt : strtod_ok strtod ->
      exists txt, render fmt 0 n = Some txt /\
      forall beyond rnt, exists r1 r2 r3 r4 r5,
        cJSON_Parse strtod never_fails (txt ++ 0 :: beyond) = Ok r1 /\
        cJSON_ParseWithOpts strtod never_fails (txt ++ 0 :: beyond) rnt = Ok r2 /\
        cJSON_ParseWithLength strtod never_fails (txt ++ beyond) (length txt) = Ok r3 /\
        cJSON_ParseWithLength strtod never_fails (txt ++ 0 :: beyond) (length txt + 1) = Ok r4 /\
        cJSON_ParseWithLengthOpts strtod never_fails (txt ++ 0 :: beyond) (length txt + 1) rnt = Ok r5 /\
        pr_tree r1 = Some (reparsed n) /\ pr_tree r2 = Some (reparsed n) /\
        pr_tree r3 = Some (reparsed n) /\ pr_tree r4 = Some (reparsed n) /\
        pr_tree r5 = Some (reparsed n) /\
        same_shape n (reparsed n) /\
        (forall fmt2 depth, render fmt2 depth (reparsed n) = render fmt2 depth n).
    Proof.
      intro Hsok.
      destruct (render_rfc_text fmt_d fmt_g15 fmt_g17 sscanf_lg L n fmt Hp Hd) as [txt [Hr Hv]].
      pose proof (val_of_jv_ok fmt_d fmt_g15 fmt_g17 sscanf_lg L n Hp) as Hok.
      exists txt. split; [exact Hr|]. intros beyond rnt.
      destruct (entry_points_complete strtod txt _ Hsok Hrfc Hv Hok beyond rnt)
        as (r1 & r2 & r3 & r4 & r5 & E1 & E2 & E3 & E4 & E5 & T1 & T2 & T3 & T4 & T5).
      exists r1, r2, r3, r4, r5.
      repeat (split; [assumption|]).
      split; [exact (reparsed_same_shape n Hp Ho)|]. intros fmt2 depth. apply reparsed_render; assumption.
    Qed.
  End Tree.
End RoundTrip.
