(** PatchOps.v — the JSON Patch model against RFC 6902, part 2: the steps of apply_patch
    (detach_path = RFC remove, the add step = RFC add, cJSON_Duplicate = an equal document). *)
From Coq Require Import Lia ZArith List Bool Permutation.
From CJ Require Import Base Dbl Tree PointerDefs PointerProofs CompareDefs PatchDefs PatchProofs PatchRobust Rfc6902 PatchConform.
Import ListNotations.
Local Open Scope Z_scope.

(** ---------- list facts ---------- *)
Lemma replace_nth_length {A} : forall i (x : A) l, length (replace_nth i x l) = length l.
Proof. intros i x l; revert i; induction l as [|y l IH]; intro i; [reflexivity|]. destruct i; cbn [replace_nth length]; [reflexivity | f_equal; apply IH]. Qed.
Lemma map_replace_same {A B} (f : A -> B) : forall i c c' l, nth_error l i = Some c -> f c' = f c ->
  map f (replace_nth i c' l) = map f l.
Proof.
  intros i c c' l; revert i; induction l as [|y l IH]; intros i N E; [destruct i; discriminate|].
  destruct i as [|i]; cbn [nth_error] in N; cbn [replace_nth map].
  - inversion N; subst. rewrite E. reflexivity.
  - f_equal. apply IH; assumption.
Qed.
Lemma map_remove_nth {A B} (f : A -> B) : forall i l, map f (remove_nth i l) = remove_nth i (map f l).
Proof. intros i l; revert i; induction l as [|y l IH]; intro i; [reflexivity|]. destruct i; cbn [remove_nth map]; [reflexivity | f_equal; apply IH]. Qed.
Lemma remove_nth_length_le {A} : forall i (l : list A), (length (remove_nth i l) <= length l)%nat.
Proof. intros i l; revert i; induction l as [|y l IH]; intro i; [cbn; lia|]. destruct i; cbn [remove_nth length]; [lia | specialize (IH i); lia]. Qed.
Lemma In_remove_nth {A} : forall i (l : list A) x, In x (remove_nth i l) -> In x l.
Proof.
  intros i l; revert i; induction l as [|y l IH]; intros i x H; [contradiction|].
  destruct i; cbn [remove_nth] in H; [right; exact H|]. destruct H as [H|H]; [left; exact H | right; eapply IH; exact H].
Qed.
Lemma NoDup_remove_nth {A} : forall i (l : list A), NoDup l -> NoDup (remove_nth i l).
Proof.
  intros i l; revert i; induction l as [|y l IH]; intros i H; [constructor|].
  inversion H; subst. destruct i; cbn [remove_nth]; [assumption|].
  constructor; [|apply IH; assumption]. intro Hin. apply In_remove_nth in Hin. contradiction.
Qed.
Lemma Forall2_insert_nth {A} (R : A -> A -> Prop) : forall i a b l,
  Forall2 R l l -> R a b -> Forall2 R (insert_nth i a l) (insert_nth i b l).
Proof.
  induction i as [|i IH]; intros a b l H Hab; cbn [insert_nth]; [constructor; assumption|].
  destruct l as [|y l]; [constructor; [assumption | constructor]|].
  inversion H; subst. constructor; [assumption | apply IH; assumption].
Qed.
Lemma Forall2_snoc {A} (R : A -> A -> Prop) l a b : Forall2 R l l -> R a b -> Forall2 R (l ++ [a]) (l ++ [b]).
Proof. intros H Hab. apply Forall2_app; [exact H | constructor; [exact Hab | constructor]]. Qed.
Lemma perm_remove_replace {A} : forall i (a : A) l, (i < length l)%nat ->
  Permutation (remove_nth i l ++ [a]) (replace_nth i a l).
Proof.
  intros i a l; revert i; induction l as [|y l IH]; intros i H; cbn [length] in H; [lia|].
  destruct i as [|i]; cbn [remove_nth replace_nth].
  - apply Permutation_sym. apply Permutation_cons_append.
  - cbn [app]. apply perm_skip. apply IH. lia.
Qed.
Lemma Exists_perm {A} (P : A -> Prop) l l' : Permutation l l' -> Exists P l -> Exists P l'.
Proof. intros Hp H. rewrite Exists_exists in *. destruct H as (x & Hx & Px). exists x. split; [eapply Permutation_in; eassumption | exact Px]. Qed.

Lemma Forall2_impl' {A B} (R R' : A -> B -> Prop) l1 l2 : (forall a b, R a b -> R' a b) -> Forall2 R l1 l2 -> Forall2 R' l1 l2.
Proof. intros H F. induction F; constructor; auto. Qed.

(** ---------- dwf is kept by replacing a subtree (same member name) and by removing a child ---------- *)
Lemma dwf_set_children_replace ty vs vi vd k cs i c c' :
  dwf (Node ty vs vi vd k cs) -> nth_error cs i = Some c -> dwf c' -> n_key c' = n_key c ->
  dwf (Node ty vs vi vd k (replace_nth i c' cs)).
Proof.
  rewrite !dwf_unfold. intros [(L & J & S & N & O) Hc] Nth Hc' K. split.
  - repeat split; try assumption.
    + rewrite replace_nth_length. exact L.
    + rewrite (map_replace_same n_key _ _ _ _ Nth K). apply O; assumption.
    + apply Forall_replace_nth; [|apply O; assumption].
      destruct (O H) as [_ Hk]. unfold keyed_children in Hk. rewrite Forall_forall in Hk.
      rewrite K. apply Hk. eapply nth_error_In; exact Nth.
  - apply Forall_replace_nth; assumption.
Qed.

Lemma dwf_put : forall pp d old new, dwf d -> subtree d pp = Some old -> dwf new -> n_key new = n_key old ->
  dwf (put_subtree d pp new).
Proof.
  induction pp as [|i p IH]; intros d old new Hd S Hn K; cbn [put_subtree]; [exact Hn|].
  cbn [subtree] in S. destruct (nth_error (n_children d) i) as [c|] eqn:N; [|discriminate].
  destruct d as [ty vs vi vd k cs]. cbn [n_children set_children] in *.
  eapply dwf_set_children_replace; [exact Hd | exact N | | ].
  - eapply IH; try eassumption. eapply Forall_nth_error; [apply (dwf_children _ Hd) | exact N].
  - eapply key_put; eassumption.
Qed.

Lemma dwf_remove_child par j : dwf par -> dwf (set_children par (remove_nth j (n_children par))).
Proof.
  destruct par as [ty vs vi vd k cs]. cbn [n_children set_children]. rewrite !dwf_unfold.
  intros [(L & J & S & N & O) Hc]. split.
  - repeat split; try assumption.
    + pose proof (remove_nth_length_le j cs). lia.
    + rewrite map_remove_nth. apply NoDup_remove_nth. apply O; assumption.
    + apply Forall_remove_nth. apply O; assumption.
  - apply Forall_remove_nth. exact Hc.
Qed.

(** ---------- doc_eq only looks at the masked type, the values and the children ---------- *)
Lemma doc_eq_fields_l a a' b :
  tymask (n_ty a') = tymask (n_ty a) -> n_vint a' = n_vint a -> n_vdbl a' = n_vdbl a -> n_vstr a' = n_vstr a ->
  n_children a' = n_children a -> doc_eq a b -> doc_eq a' b.
Proof.
  intros T I D S C E. inversion E; subst.
  - apply de_lit; rewrite T; assumption.
  - apply de_num; try rewrite T; try rewrite I; try rewrite D; assumption.
  - eapply de_str; try rewrite T; try rewrite S; eassumption.
  - apply de_arr; try rewrite T; try rewrite C; assumption.
  - apply de_obj; try rewrite T; try rewrite C; assumption.
Qed.
Lemma doc_eq_fields_r a b b' :
  tymask (n_ty b') = tymask (n_ty b) -> n_vint b' = n_vint b -> n_vdbl b' = n_vdbl b -> n_vstr b' = n_vstr b ->
  n_children b' = n_children b -> doc_eq a b -> doc_eq a b'.
Proof.
  intros T I D S C E. inversion E; subst.
  - apply de_lit; try rewrite T; assumption.
  - apply de_num; try rewrite T; try rewrite I; try rewrite D; assumption.
  - eapply de_str; try rewrite T; try rewrite S; eassumption.
  - apply de_arr; try rewrite T; try rewrite C; assumption.
  - apply de_obj; try rewrite T; try rewrite C; assumption.
Qed.

Lemma doc_eq_keyed a b k k' : doc_eq a b -> doc_eq (keyed a k) (with_key b k').
Proof.
  intro E. apply (doc_eq_fields_l a); try (destruct a; reflexivity).
  - destruct a as [ty vs vi vd key cs]. unfold keyed. cbn [set_ty set_key n_ty]. apply tymask_ldiff. reflexivity.
  - apply (doc_eq_fields_r _ b); try (destruct b; reflexivity). exact E.
Qed.
Lemma doc_eq_set_key a b k : doc_eq a b -> doc_eq (set_key a k) b.
Proof. intro E. apply (doc_eq_fields_l a); try (destruct a; reflexivity). exact E. Qed.
Lemma doc_eq_unnamed a b : doc_eq a b -> doc_eq (unnamed a) b.
Proof.
  intro E. apply (doc_eq_fields_l a); try (destruct a; reflexivity).
  - destruct a as [ty vs vi vd key cs]. unfold unnamed. cbn [set_ty set_key n_ty]. apply tymask_ldiff. reflexivity.
  - exact E.
Qed.

(** ---------- cJSON_Duplicate yields an equal document (below the circular limit) ---------- *)
Lemma doc_eq_dup : forall item depth x, dwf item -> dup_rec item depth = Some x -> doc_eq x item /\ n_key x = n_key item.
Proof.
  induction item as [ty vs vi vd k cs IH] using node_ind'. intros depth x Hd E.
  rewrite dup_rec_unfold in E. destruct (dup_list cs depth) as [cs'|] eqn:D; [|discriminate].
  inversion E; subst x. split; [|reflexivity].
  apply dwf_unfold in Hd. destruct Hd as [(L & J & S & N & O) Hc].
  assert (F2 : Forall2 (fun x y => doc_eq x y /\ n_key x = n_key y) cs' cs).
  { clear E L J S N O. revert cs' D. induction cs as [|c r IHr]; intros cs' D; cbn [dup_list] in D.
    - inversion D. constructor.
    - destruct (depth >=? c_CJSON_CIRCULAR_LIMIT); [discriminate|].
      destruct (dup_rec c (depth + 1)) as [c'|] eqn:Dc; [|discriminate].
      destruct (dup_list r depth) as [r'|] eqn:Dr; [|discriminate].
      inversion D; subst cs'. inversion IH; subst. inversion Hc; subst.
      constructor; [eapply H1; eassumption | apply IHr; auto]. }
  apply (doc_eq_fields_l (Node ty vs vi vd k cs')); try reflexivity.
  { cbn [n_ty]. apply tymask_ldiff. reflexivity. }
  apply doc_eq_head; try assumption.
  - intros _. eapply Forall2_impl'; [|exact F2]. intros a b [H _]. exact H.
  - intro Ht. destruct (O Ht) as [_ Hk].
    assert (F3 : Forall2 mrel cs' cs).
    { clear -F2 Hk. induction F2 as [|a b l1 l2 [H1 H2] F IHF]; [constructor|].
      inversion Hk as [|? ? (kk & Ek & _) Hk']; subst. constructor; [|apply IHF; assumption].
      split; [rewrite H2, Ek; discriminate | split; assumption]. }
    apply (Forall2_both mrel). exact F3.
Qed.

Lemma depth_pos' c : (1 <= node_depth c)%nat.
Proof. destruct c. rewrite node_depth_eq. lia. Qed.

Lemma dup_some : forall v depth, depth + Z.of_nat (node_depth v) <= c_CJSON_CIRCULAR_LIMIT + 1 ->
  exists v', dup_rec v depth = Some v'.
Proof.
  induction v as [ty vs vi vd k cs IH] using node_ind'. intros depth Hb.
  rewrite dup_rec_unfold. rewrite node_depth_eq in Hb.
  assert (G : exists cs', dup_list cs depth = Some cs').
  { induction cs as [|c r IHr]; [eexists; reflexivity|].
    cbn [dup_list]. cbn [depth_list] in Hb. inversion IH; subst.
    destruct (Z.geb_spec depth c_CJSON_CIRCULAR_LIMIT) as [Hge|Hlt].
    { pose proof (depth_pos' c). lia. }
    destruct (H1 (depth + 1)) as (c' & Ec); [lia|]. rewrite Ec.
    destruct IHr as (r' & Er); [assumption | lia |]. rewrite Er. eexists; reflexivity. }
  destruct G as (cs' & E). rewrite E. eexists; reflexivity.
Qed.

(** ---------- navigation shared by detach_path and the add step ---------- *)
Lemma nth_z_spec (l : list node) idx : 0 <= idx ->
  match nth_z l idx with
  | Some it => idx < Z.of_nat (length l) /\ nth_error l (Z.to_nat idx) = Some it
  | None => idx >= Z.of_nat (length l)
  end.
Proof.
  intro H0. unfold nth_z. destruct (Z.ltb_spec idx (Z.of_nat (length l))) as [Hlt|Hge].
  - replace (0 <=? idx) with true by (symmetry; apply Z.leb_le; exact H0). cbn [andb].
    destruct (nth_error l (Z.to_nat idx)) as [it|] eqn:N; [split; [exact Hlt | reflexivity]|].
    apply nth_error_None in N. lia.
  - rewrite andb_false_r. lia.
Qed.

Lemma parent_lookup doc pstr i ptoks : dwf doc -> nz pstr -> rfc_parse_pointer (firstn i pstr) = Some ptoks ->
  get_item_from_pointer doc (firstn i pstr) true = rfc_resolve doc ptoks.
Proof.
  intros Hd Hnz Hp.
  change (get_item_from_pointer doc (firstn i pstr) true) with (cJSONUtils_GetPointerCaseSensitive doc (firstn i pstr)).
  rewrite get_pointer_rfc; [|apply dwf_small; exact Hd | apply nz_firstn; exact Hnz].
  unfold rfc6901. rewrite Hp. reflexivity.
Qed.

Lemma get_snoc : forall a d t, get d (a ++ [t]) = match get d a with Some par => get par [t] | None => None end.
Proof.
  induction a as [|x a IH]; intros d t; cbn [app]; [cbn [get]; reflexivity|].
  cbn [get]. destruct (is_array d).
  - destruct (rfc_array_index x) as [i|]; [|reflexivity]. destruct (nth_z (n_children d) i); [apply IH | reflexivity].
  - destruct (is_object d); [|reflexivity]. destruct (find_key (n_children d) x 0%nat) as [[j c]|]; [apply IH | reflexivity].
Qed.

Lemma is_object_local par : dwf par -> is_object par = true ->
  NoDup (map n_key (n_children par)) /\ keyed_children (n_children par).
Proof.
  intros Hd Ho. destruct (dwf_local par Hd) as (_ & _ & _ & _ & O). apply O.
  unfold is_object, is_type in Ho. apply Z.eqb_eq in Ho. exact Ho.
Qed.

(** ---------- detach_path = RFC 6902 "remove" (the same document, not merely an equal one) ---------- *)
Lemma detach_conform doc pstr toks : dwf doc -> nz pstr -> rfc_parse_pointer pstr = Some toks ->
  match Rfc6902.remove doc toks with
  | Some d' => exists it, detach_path doc pstr true = Ok (Some (it, d')) /\ get doc toks = Some it
  | None => detach_path doc pstr true = Ok None
  end.
Proof.
  intros Hd Hnz Hp. destruct pstr as [|c0 p0].
  { cbn in Hp. inversion Hp; subst toks. reflexivity. }
  destruct (pointer_split (c0 :: p0) toks ltac:(discriminate) Hp) as (i & ptoks & t & Hls & Hpp & Hu & Ht & Hns).
  set (pstr := c0 :: p0) in *. subst toks.
  unfold Rfc6902.remove. rewrite split_last_snoc. rewrite at_location_resolve. rewrite get_snoc, get_resolve.
  unfold detach_path. rewrite Hls. rewrite (parent_lookup doc pstr i ptoks Hd Hnz Hpp).
  destruct (rfc_resolve doc ptoks) as [pp|] eqn:R; [|reflexivity].
  destruct (rfc_resolve_subtree _ _ _ R) as (par & Sp). rewrite Sp.
  assert (Hpar : dwf par) by (eapply dwf_subtree; eassumption).
  set (raw := skipn (S i) pstr) in *.
  assert (Hrnz : nz raw) by (apply nz_skipn; exact Hnz).
  unfold remove_member. cbn [get]. destruct (is_array par) eqn:Ea.
  - destruct (dwf_local par Hpar) as (L & _).
    pose proof (index_bridge raw t (length (n_children par)) Hrnz Hns Hu L) as B.
    destruct (decode_array_index_from_pointer raw) as [idx|].
    + destruct B as [B1 B2]. rewrite B1. pose proof (nth_z_spec (n_children par) idx B2) as Z.
      destruct (nth_z (n_children par) idx) as [it|].
      * destruct Z as [Z1 Z2]. destruct (Z.ltb_spec idx (Z.of_nat (length (n_children par)))); [|lia].
        exists it. rewrite remove_nth_del. split; reflexivity.
      * destruct (Z.ltb_spec idx (Z.of_nat (length (n_children par)))); [lia|]. reflexivity.
    + destruct (rfc_array_index t) as [j|]; [|reflexivity].
      destruct (Z.ltb_spec j (Z.of_nat (length (n_children par)))); [lia|]. reflexivity.
  - destruct (is_object par) eqn:Eo; [|reflexivity].
    destruct (decode_pointer_inplace_unescape raw t Hrnz Hu) as (b & Hb & Hc & _). rewrite Hb. cbn [bind]. rewrite Hc.
    destruct (is_object_local par Hpar Eo) as [_ Hk].
    rewrite get_object_item_member; [|exact Hk | eapply unescape_nz; eassumption].
    destruct (find_key (n_children par) t 0%nat) as [[j it]|]; [|reflexivity].
    exists it. rewrite remove_nth_del. split; reflexivity.
Qed.

(** ---------- the add step of apply_patch = RFC 6902 "add" ---------- *)
Lemma obj_add_existing cs j a b :
  (j < length cs)%nat -> (forall x, In x cs -> mrel x x) -> mrel a b ->
  Forall (fun x => Exists (fun y => mrel x y) (upd_nth j b cs)) (remove_nth j cs ++ [a]) /\
  Forall (fun y => Exists (fun x => mrel x y) (remove_nth j cs ++ [a])) (upd_nth j b cs).
Proof.
  intros Hj Hr Hab. rewrite <- (replace_nth_upd j b cs Hj).
  destruct (Forall2_both mrel _ _ (Forall2_replace_nth mrel j a b cs Hr Hab)) as [F1 F2].
  pose proof (perm_remove_replace j a cs Hj) as P. split.
  - eapply Forall_perm; [apply Permutation_sym; exact P | exact F1].
  - eapply Forall_impl; [|exact F2]. intros y Hy. eapply Exists_perm; [apply Permutation_sym; exact P | exact Hy].
Qed.

Lemma mrel_refl_children par : dwf par -> is_object par = true -> forall x, In x (n_children par) -> mrel x x.
Proof.
  intros Hd Ho x Hx. destruct (is_object_local par Hd Ho) as [_ Hk].
  split; [eapply keyed_key_some; eassumption|]. split; [reflexivity|]. apply doc_eq_refl.
  pose proof (dwf_children par Hd) as Hc. rewrite Forall_forall in Hc. apply Hc. exact Hx.
Qed.

Lemma finish_add_conform doc v v' pstr toks : dwf doc -> nz pstr -> pstr <> [] ->
  rfc_parse_pointer pstr = Some toks -> doc_eq v v' ->
  exists st doc', finish_add doc v pstr true = Ok (st, doc') /\
    match Rfc6902.add doc toks v' with
    | Some d' => st = 0 /\ doc_eq doc' d'
    | None => st <> 0 /\ doc' = doc
    end.
Proof.
  intros Hd Hnz Hne Hp Ev.
  destruct (pointer_split pstr toks Hne Hp) as (i & ptoks & t & Hls & Hpp & Hu & Ht & Hns). subst toks.
  unfold Rfc6902.add. rewrite split_last_snoc. rewrite at_location_resolve.
  unfold finish_add. destruct pstr as [|c0 p0]; [contradiction|]. set (pstr := c0 :: p0) in *.
  rewrite Hls. rewrite (parent_lookup doc pstr i ptoks Hd Hnz Hpp).
  destruct (rfc_resolve doc ptoks) as [pp|] eqn:R; [|do 2 eexists; split; [reflexivity | split; [discriminate | reflexivity]]].
  destruct (rfc_resolve_subtree _ _ _ R) as (par & Sp). rewrite Sp.
  assert (Hpar : dwf par) by (eapply dwf_subtree; eassumption).
  set (raw := skipn (S i) pstr) in *.
  assert (Hrnz : nz raw) by (apply nz_skipn; exact Hnz).
  assert (Hrefl : Forall2 doc_eq (n_children par) (n_children par)).
  { apply Forall2_refl_in. intros x Hx. apply doc_eq_refl. pose proof (dwf_children par Hpar) as Hc. rewrite Forall_forall in Hc. apply Hc. exact Hx. }
  (* the parent after the operation, on both sides, is the parent with new children *)
  assert (Hput : forall l1 l2,
            (is_array par = true -> Forall2 doc_eq l1 l2) ->
            (is_object par = true -> Forall (fun x => Exists (fun y => mrel x y) l2) l1 /\ Forall (fun y => Exists (fun x => mrel x y) l1) l2) ->
            doc_eq (put_subtree doc pp (set_children par l1)) (put_subtree doc pp (with_children par l2))).
  { intros l1 l2 HA HO. eapply doc_eq_put; [exact Hd | exact Sp | destruct par; reflexivity | destruct par; reflexivity |].
    destruct par as [ty vs vi vd k cs]. cbn [set_children with_children].
    destruct (dwf_local _ Hpar) as (L & J & S & N & O). cbn [n_ty n_vstr n_vdbl n_children] in *.
    apply doc_eq_head; try assumption.
    - intro Ha. apply HA. unfold is_array, is_type. cbn [n_ty]. apply Z.eqb_eq. exact Ha.
    - intro Ho. apply HO. unfold is_object, is_type. cbn [n_ty]. apply Z.eqb_eq. exact Ho. }
  unfold add_member. destruct (is_array par) eqn:Ea.
  - rewrite strcmp_eqb by (try exact Hrnz; repeat constructor; discriminate).
    rewrite (unescape_dash raw t Hu).
    destruct (bytes_eqb t [45]).
    { do 2 eexists. split; [reflexivity|]. split; [reflexivity|].
      apply Hput; [intros _; apply Forall2_snoc; assumption | intro Ho; unfold is_array, is_object, is_type in *; apply Z.eqb_eq in Ea; apply Z.eqb_eq in Ho; rewrite Ea in Ho; discriminate]. }
    destruct (dwf_local par Hpar) as (L & _).
    pose proof (index_bridge raw t (length (n_children par)) Hrnz Hns Hu L) as B.
    destruct (decode_array_index_from_pointer raw) as [idx|].
    + destruct B as [B1 B2]. rewrite B1.
      destruct (Z.gtb_spec idx (Z.of_nat (length (n_children par)))) as [Hgt|Hle].
      * destruct (Z.leb_spec idx (Z.of_nat (length (n_children par)))); [lia|].
        do 2 eexists. split; [reflexivity|]. split; [discriminate | reflexivity].
      * destruct (Z.leb_spec idx (Z.of_nat (length (n_children par)))); [|lia].
        do 2 eexists. split; [reflexivity|]. split; [reflexivity|].
        apply Hput.
        -- intros _. rewrite <- insert_nth_ins by lia. apply Forall2_insert_nth; assumption.
        -- intro Ho; unfold is_array, is_object, is_type in *; apply Z.eqb_eq in Ea; apply Z.eqb_eq in Ho; rewrite Ea in Ho; discriminate.
    + destruct (rfc_array_index t) as [j|].
      * destruct (Z.leb_spec j (Z.of_nat (length (n_children par)))); [lia|].
        do 2 eexists. split; [reflexivity|]. split; [discriminate | reflexivity].
      * do 2 eexists. split; [reflexivity|]. split; [discriminate | reflexivity].
  - destruct (is_object par) eqn:Eo; [|do 2 eexists; split; [reflexivity | split; [discriminate | reflexivity]]].
    destruct (decode_pointer_inplace_unescape raw t Hrnz Hu) as (b & Hb & Hc & _). rewrite Hb. cbn [bind]. rewrite Hc.
    destruct (is_object_local par Hpar Eo) as [_ Hk].
    assert (Htnz : nz t) by (eapply unescape_nz; eassumption).
    rewrite get_object_item_member; [|exact Hk | exact Htnz].
    assert (Hm : mrel (keyed v t) (with_key v' t)).
    { split; [destruct v; cbn; discriminate|]. split; [destruct v, v'; reflexivity|]. apply doc_eq_keyed. exact Ev. }
    destruct (find_key (n_children par) t 0%nat) as [[j it]|] eqn:K.
    + do 2 eexists. split; [reflexivity|]. split; [reflexivity|].
      apply Hput; [intro Ha; discriminate|]. intros _.
      apply obj_add_existing; [|apply mrel_refl_children; assumption | exact Hm].
      apply nth_error_Some. rewrite (find_key_nth _ _ _ _ K). discriminate.
    + do 2 eexists. split; [reflexivity|]. split; [reflexivity|].
      apply Hput; [intro Ha; discriminate|]. intros _.
      apply (Forall2_both mrel). apply Forall2_snoc; [|exact Hm].
      apply Forall2_refl_in. apply mrel_refl_children; assumption.
Qed.
