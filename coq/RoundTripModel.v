(** RoundTripModel.v — property C04: the libc contracts are JOINTLY SATISFIABLE.

    The theorems of C04 assume [strtod_ok], [strtod_rfc], [LibcStrictSpec] and
    [LibcRoundTripSpec] of the C library.  For the executable reference implementations only
    some clauses are proved (the "%g" round-trip facts are classical theorems about correctly
    rounded conversions that are out of reach here) — so, to be sure the conjunction of all
    the clauses is not contradictory (which would make the theorems vacuous), this file builds a
    small ARTIFICIAL C library and PROVES every clause for it:

    * "%d" is the reference [fmt_d];
    * "%1.15g" = "%1.17g" print an int-valued double in the int range like "%d", and every other
      finite double d = (-1)^s m 2^e as  [-]0.<16 digits of m>e<sign><4 digits of |e|>
      (an RFC 8259 number of at most 25 bytes that determines s, m, e);
    * strtod reads plain decimal integers (below 2^53) as (double) of the integer, the texts above
      back to (s, m, e), and any other RFC 8259 number as 0.0, always consuming the whole text.

    It is NOT a model of a real C library (its strtod is not correctly rounded), only a witness
    that the hypotheses can be satisfied together. *)
From CJ Require Import Base Dbl Tree LibcNum LibcPrint Grammar ParseDefs ParseComplete PrintDefs
  PrintStrict PrintStrictWs PrintStrictRef RoundTripNum RoundTripInt RoundTripRef.
Local Open Scope Z_scope.

(** * identical representation, decidably *)
Definition sf_same (a b : dbl) : bool :=
  match a, b with
  | S754_zero s, S754_zero s' => Bool.eqb s s'
  | S754_infinity s, S754_infinity s' => Bool.eqb s s'
  | S754_nan, S754_nan => true
  | S754_finite s m e, S754_finite s' m' e' => Bool.eqb s s' && (Z.pos m =? Z.pos m') && (e =? e')
  | _, _ => false
  end.

Lemma sf_same_eq a b : sf_same a b = true <-> a = b.
Proof.
  split.
  - destruct a as [s|s| |s m e], b as [s'|s'| |s' m' e']; cbn [sf_same]; intro H; try discriminate;
      try reflexivity.
    + apply Bool.eqb_prop in H. subst. reflexivity.
    + apply Bool.eqb_prop in H. subst. reflexivity.
    + apply andb_true_iff in H as [H He]. apply andb_true_iff in H as [Hs Hm].
      apply Bool.eqb_prop in Hs. apply Z.eqb_eq in Hm, He. injection Hm as Hm. subst. reflexivity.
  - intros <-. destruct a as [s|s| |s m e]; cbn [sf_same]; try reflexivity; try apply Bool.eqb_reflx.
    rewrite Bool.eqb_reflx, !Z.eqb_refl. reflexivity.
Qed.

(** * the artificial library *)

(** plain decimal integers: optional minus, at least one digit, nothing else *)
Definition parse_digits (neg : bool) (s : bytes) : option Z :=
  let '(v, n, rest) := take_digits s 0 0 in
  if (n =? 0)%nat then None
  else match rest with [] => Some (if neg then - v else v) | _ => None end.
Definition parse_int (t : bytes) : option Z :=
  match t with 45 :: r => parse_digits true r | _ => parse_digits false t end.

Lemma parse_int_nominus c r : c <> 45 -> parse_int (c :: r) = parse_digits false (c :: r).
Proof.
  intro H. unfold parse_int. destruct c as [|p|p]; try reflexivity.
  do 6 (destruct p as [p|p|]; try reflexivity). congruence.
Qed.

(** the text of a double that is not an int: sign, "0.", 16 digits of the mantissa, "e", sign and
    4 digits of the exponent *)
Definition enc_sme (s : bool) (m e : Z) : bytes :=
  (if s then [45] else []) ++ 48 :: 46 :: dec_fixed 16 m ++ 101 :: (if e <? 0 then 45 else 43) :: dec_fixed 4 (Z.abs e).
Definition enc (d : dbl) : bytes :=
  match d with
  | S754_zero s => enc_sme s 0 0
  | S754_finite s m e => enc_sme s (Zpos m) e
  | _ => [48]
  end.

Definition dec_body (s : bool) (r : bytes) : option dbl :=
  match r with
  | 48 :: 46 :: r1 =>
      let '(m, n1, r2) := take_digits r1 0 0 in
      match r2 with
      | 101 :: sg :: r3 =>
          let '(ev, n2, r4) := take_digits r3 0 0 in
          if (n1 =? 16)%nat && (n2 =? 4)%nat && ((sg =? 43) || (sg =? 45)) && match r4 with [] => true | _ => false end
          then
            let e := if sg =? 45 then - ev else ev in
            let d := if m =? 0 then (if e =? 0 then S754_zero s else S754_nan) else S754_finite s (Z.to_pos m) e in
            if valid_dbl d && is_finite d then Some d else None
          else None
      | _ => None
      end
  | _ => None
  end.
Definition dec (t : bytes) : option dbl :=
  match t with 45 :: r => dec_body true r | _ => dec_body false t end.

(** the int a double is (double) of, if any *)
Definition int_of (d : dbl) : option Z :=
  let z := sat_int d in if sf_same d (dbl_of_int z) then Some z else None.

Definition m_fmt_g (d : dbl) : bytes :=
  match int_of d with Some z => fmt_d z | None => enc d end.

Definition m_strtod (t : bytes) : option (dbl * nat) :=
  match parse_int t with
  | Some z => Some ((if Z.abs z <? 2 ^ 53 then dbl_of_int z else dzero), length t)
  | None =>
      match dec t with
      | Some d => Some (d, length t)
      | None => if rfc_number t then Some (dzero, length t) else None
      end
  end.

Definition m_sscanf (t : bytes) : option dbl :=
  match m_strtod t with Some (d, _) => Some d | None => None end.

(** * reading back what was written *)
Lemma parse_int_fmt_d z : int_range z = true -> parse_int (fmt_d z) = Some z.
Proof.
  intro Hr. unfold int_range in Hr. apply andb_true_iff in Hr as [Hlo Hhi].
  apply Z.leb_le in Hlo, Hhi. unfold c_INT_MIN in Hlo. unfold c_INT_MAX in Hhi.
  assert (H10 : 10 ^ 10 = 10000000000) by reflexivity.
  unfold fmt_d. destruct (Z.ltb_spec z 0) as [Hneg|Hpos].
  - destruct (take_digits_dec_nat (- z) ltac:(lia) ltac:(lia)) as [Et [Hlen _]].
    cbn [parse_int]. unfold parse_digits. rewrite Et.
    destruct (length (dec_nat (- z))) as [|k]; [lia|]. cbn [Nat.eqb]. f_equal. lia.
  - destruct (take_digits_dec_nat z Hpos ltac:(lia)) as [Et [Hlen _]].
    destruct (dec_nat_head z Hpos ltac:(lia)) as [d [ds [Ed Hd]]].
    rewrite Ed. rewrite parse_int_nominus by lia. rewrite <- Ed. unfold parse_digits. rewrite Et.
    destruct (length (dec_nat z)) as [|k]; [lia|]. reflexivity.
Qed.

Lemma parse_int_enc_sme s m e : parse_int (enc_sme s m e) = None.
Proof. unfold enc_sme, parse_int. destruct s; reflexivity. Qed.

Lemma nondigit_e r : nondigit_start (101 :: r).
Proof. reflexivity. Qed.

Lemma dec_enc_sme s m e : 0 <= m < 10 ^ 16 -> Z.abs e < 10 ^ 4 ->
  dec (enc_sme s m e) =
  (let d := if m =? 0 then (if e =? 0 then S754_zero s else S754_nan) else S754_finite s (Z.to_pos m) e in
   if valid_dbl d && is_finite d then Some d else None).
Proof.
  intros Hm He.
  assert (Hsplit : dec (enc_sme s m e) =
            dec_body s (48 :: 46 :: dec_fixed 16 m ++ 101 :: (if e <? 0 then 45 else 43) :: dec_fixed 4 (Z.abs e))).
  { unfold enc_sme. destruct s; reflexivity. }
  rewrite Hsplit. unfold dec_body.
  rewrite (take_digits_dec_fixed_app 16 _ (nondigit_e _) m 0 0 ltac:(lia)).
  rewrite (take_digits_dec_fixed 4 (Z.abs e) 0 0 ltac:(lia)).
  change (Z.of_nat 16) with 16. change (Z.of_nat 4) with 4.
  rewrite !Z.mul_0_l, !Z.add_0_l. rewrite (Z.mod_small m) by lia. rewrite (Z.mod_small (Z.abs e)) by lia.
  cbn [Nat.add Nat.eqb andb].
  destruct (Z.ltb_spec e 0) as [Hneg|Hpos].
  - change (45 =? 43) with false. change (45 =? 45) with true. cbn [orb andb].
    replace (- Z.abs e) with e by lia. reflexivity.
  - change (43 =? 43) with true. change (43 =? 45) with false. cbn [orb andb].
    replace (Z.abs e) with e by lia. reflexivity.
Qed.

Lemma pow53_lt : 2 ^ 53 < 10 ^ 16.
Proof. reflexivity. Qed.

Lemma bounded_exponent m e : bounded prec emax m e = true -> -1074 <= e <= 971.
Proof.
  unfold bounded, canonical_mantissa. intro H. apply andb_true_iff in H as [H1 H2].
  apply Zeq_bool_eq in H1. apply Z.leb_le in H2. unfold fexp, emin, prec, emax in *. lia.
Qed.

(** a well-formed finite double is recovered from its text *)
Lemma dec_enc d : is_finite d = true -> dbl_ok d -> dec (enc d) = Some d.
Proof.
  intros Hf Hv. destruct d as [s|s| |s m e]; try discriminate.
  - cbn [enc]. rewrite dec_enc_sme by (cbn; lia). reflexivity.
  - cbn [enc]. unfold dbl_ok in Hv. cbn [valid_binary] in Hv.
    pose proof (bounded_mantissa m e Hv) as Hm. pose proof (bounded_exponent m e Hv) as He.
    pose proof pow53_lt.
    rewrite dec_enc_sme by (change (10 ^ 4) with 10000; lia).
    cbv zeta. change (Z.pos m =? 0) with false. cbv iota. rewrite Pos2Z.id.
    unfold valid_dbl. cbn [valid_binary is_finite]. rewrite Hv. reflexivity.
Qed.

Lemma parse_int_enc d : is_finite d = true -> parse_int (enc d) = None.
Proof. destruct d; try discriminate; intros _; apply parse_int_enc_sme. Qed.

(** the text is an RFC 8259 number of at most 25 bytes *)
Lemma skip_digits_app ds rest : forallb digit ds = true -> nondigit_start rest -> skip_digits (ds ++ rest) = rest.
Proof.
  induction ds as [|c ds IH]; intros Hd Hr.
  - cbn [app]. destruct rest as [|c r]; [reflexivity|]. cbn [skip_digits]. cbn [nondigit_start] in Hr. rewrite Hr. reflexivity.
  - cbn [forallb] in Hd. apply andb_true_iff in Hd as [Hc Hds]. cbn [app skip_digits]. rewrite Hc. apply IH; assumption.
Qed.

Lemma enc_sme_strict s m e : 0 <= m -> 0 <= Z.abs e ->
  rfc_number (enc_sme s m e) = true /\ zlen (enc_sme s m e) <= c_NUMBER_BUFFER_SIZE - 1.
Proof.
  intros Hm He. split.
  - assert (H : rfc_number (48 :: 46 :: dec_fixed 16 m ++ 101 :: (if e <? 0 then 45 else 43) :: dec_fixed 4 (Z.abs e)) = true).
    { rewrite (dec_fixed_head 15 m Hm). rewrite (dec_fixed_head 3 (Z.abs e) He).
      set (h := 48 + (m / 10 ^ Z.of_nat 15) mod 10). set (h2 := 48 + (Z.abs e / 10 ^ Z.of_nat 3) mod 10).
      assert (Hh : digit h = true).
      { pose proof (dec_fixed_digits 16 m) as Hd. rewrite (dec_fixed_head 15 m Hm) in Hd. cbn [forallb] in Hd.
        apply andb_true_iff in Hd as [Hd _]. exact Hd. }
      assert (Hh2 : digit h2 = true).
      { pose proof (dec_fixed_digits 4 (Z.abs e)) as Hd. rewrite (dec_fixed_head 3 _ He) in Hd. cbn [forallb] in Hd.
        apply andb_true_iff in Hd as [Hd _]. exact Hd. }
      cbn [rfc_number rfc_frac app]. rewrite Hh. cbn [andb].
      rewrite (skip_digits_app _ _ (dec_fixed_digits 15 m) (nondigit_e _)).
      cbn [rfc_exp]. change ((101 =? 101) || (101 =? 69)) with true. cbv iota.
      assert (Hsg : ((if e <? 0 then 45 else 43) =? 43) || ((if e <? 0 then 45 else 43) =? 45) = true)
        by (destruct (e <? 0); reflexivity).
      rewrite Hsg. rewrite Hh2. cbn [andb]. rewrite (skip_digits_all _ (dec_fixed_digits 3 _)). reflexivity. }
    unfold enc_sme. destruct s; [|exact H]. cbn [app]. rewrite rfc_number_minus. exact H.
  - unfold enc_sme, zlen. rewrite !app_length. cbn [length]. rewrite app_length. cbn [length].
    rewrite !dec_fixed_length. destruct s; cbn [length]; unfold c_NUMBER_BUFFER_SIZE; lia.
Qed.

Lemma enc_strict d : is_finite d = true ->
  rfc_number (enc d) = true /\ zlen (enc d) <= c_NUMBER_BUFFER_SIZE - 1.
Proof.
  destruct d as [s|s| |s m e]; try discriminate; intros _; cbn [enc]; apply enc_sme_strict; lia.
Qed.

(** * the contracts *)
Lemma int_of_some d z : int_of d = Some z -> d = dbl_of_int z /\ z = sat_int d.
Proof.
  unfold int_of. destruct (sf_same d (dbl_of_int (sat_int d))) eqn:E; [|discriminate].
  intro H. injection H as <-. apply sf_same_eq in E. split; [exact E|reflexivity].
Qed.

Lemma m_strtod_fmt_d z : int_range z = true -> m_strtod (fmt_d z) = Some (dbl_of_int z, length (fmt_d z)).
Proof.
  intro Hr. unfold m_strtod. rewrite (parse_int_fmt_d z Hr).
  unfold int_range, c_INT_MIN, c_INT_MAX in Hr. apply andb_true_iff in Hr as [Hlo Hhi]. apply Z.leb_le in Hlo, Hhi.
  destruct (Z.ltb_spec (Z.abs z) (2 ^ 53)) as [_|H]; [reflexivity|].
  change (2 ^ 53) with 9007199254740992 in H. lia.
Qed.

(** reading back the "%g" text of a well-formed finite double gives the double itself *)
Lemma m_strtod_fmt_g d : is_finite d = true -> dbl_ok d ->
  m_strtod (m_fmt_g d) = Some (d, length (m_fmt_g d)).
Proof.
  intros Hf Hv. unfold m_fmt_g. destruct (int_of d) as [z|] eqn:Ei.
  - destruct (int_of_some d z Ei) as [Ed Ez].
    rewrite m_strtod_fmt_d by (rewrite Ez; apply sat_int_range, Hv). rewrite <- Ed. reflexivity.
  - unfold m_strtod. rewrite (parse_int_enc d Hf), (dec_enc d Hf Hv). reflexivity.
Qed.

Lemma m_fmt_g_strict d : is_finite d = true -> valid_dbl d = true ->
  rfc_number (m_fmt_g d) = true /\ zlen (m_fmt_g d) <= c_NUMBER_BUFFER_SIZE - 1.
Proof.
  intros Hf Hv. unfold m_fmt_g. destruct (int_of d) as [z|] eqn:Ei.
  - destruct (int_of_some d z Ei) as [_ Ez].
    destruct (ref_fmt_d_strict z) as [H1 [H2 _]]; [rewrite Ez; apply sat_int_range, Hv|]. split; assumption.
  - apply enc_strict, Hf.
Qed.

Theorem model_strtod_ok : strtod_ok m_strtod.
Proof.
  intros s d k H. unfold m_strtod in H.
  assert (Hk : k = length s).
  { destruct (parse_int s); [injection H as _ <-; reflexivity|].
    destruct (dec s); [injection H as _ <-; reflexivity|].
    destruct (rfc_number s); [injection H as _ <-; reflexivity|discriminate]. }
  subst k. destruct s as [|c s]; [|cbn [length]; lia].
  vm_compute in H. discriminate.
Qed.

Theorem model_strtod_rfc : strtod_rfc m_strtod.
Proof.
  intros t Hn _. unfold m_strtod. destruct (parse_int t); [eexists; reflexivity|].
  destruct (dec t); [eexists; reflexivity|]. rewrite Hn. eexists. reflexivity.
Qed.

Theorem model_strict : LibcStrictSpec fmt_d m_fmt_g m_fmt_g.
Proof.
  constructor.
  - intros z Hz. apply ref_fmt_d_strict, Hz.
  - intros d Hf Hv. apply m_fmt_g_strict; assumption.
  - intros d Hf Hv. apply m_fmt_g_strict; assumption.
  - intros z Hz. apply ref_fmt_d_strict, Hz.
  - intros d Hf Hv. apply m_fmt_g_strict; assumption.
  - intros d Hf Hv. apply m_fmt_g_strict; assumption.
  - intros z Hz. apply ref_fmt_d_strict, Hz.
Qed.

Lemma dec_body_valid s r d : dec_body s r = Some d -> dbl_ok d.
Proof.
  unfold dec_body.
  destruct r as [|c0 r]; [discriminate|].
  destruct c0 as [|p|p]; try discriminate.
  do 6 (destruct p as [p|p|]; try discriminate).
  destruct r as [|c1 r]; [discriminate|].
  destruct c1 as [|p|p]; try discriminate.
  do 6 (destruct p as [p|p|]; try discriminate).
  destruct (take_digits r 0 0) as [[m n1] r2].
  destruct r2 as [|c2 r2]; [discriminate|].
  destruct c2 as [|p|p]; try discriminate.
  do 7 (destruct p as [p|p|]; try discriminate).
  destruct r2 as [|sg r3]; [discriminate|].
  destruct (take_digits r3 0 0) as [[ev n2] r4].
  destruct ((n1 =? 16)%nat && (n2 =? 4)%nat && ((sg =? 43) || (sg =? 45)) && match r4 with [] => true | _ => false end);
    [|discriminate].
  cbv zeta.
  set (d0 := if m =? 0 then _ else _).
  destruct (valid_dbl d0 && is_finite d0) eqn:E; [|discriminate].
  intro H. injection H as <-. apply andb_true_iff in E as [E _]. exact E.
Qed.

Lemma dec_valid t d : dec t = Some d -> dbl_ok d.
Proof.
  unfold dec. destruct t as [|c t]; [apply dec_body_valid|].
  destruct c as [|p|p]; try apply dec_body_valid.
  do 6 (destruct p as [p|p|]; try apply dec_body_valid).
Qed.

Theorem model_roundtrip : LibcRoundTripSpec m_strtod fmt_d m_fmt_g m_fmt_g m_sscanf.
Proof.
  constructor.
  - (* S *)
    intros t d. unfold m_sscanf. destruct (m_strtod t) as [[d0 k0]|]; split.
    + intros H. injection H as <-. exists k0. reflexivity.
    + intros [k H]. injection H as <- _. reflexivity.
    + discriminate.
    + intros [k H]. discriminate.
  - (* V *)
    intros t d k H. unfold m_strtod in H. destruct (parse_int t) as [z|].
    + destruct (Z.abs z <? 2 ^ 53) eqn:Ez; injection H as <- _; [|reflexivity].
      apply Z.ltb_lt in Ez. apply (dbl_of_int_exact z Ez).
    + destruct (dec t) as [d0|] eqn:Ed.
      * injection H as <- _. exact (dec_valid t d0 Ed).
      * destruct (rfc_number t); [injection H as <- _; reflexivity|discriminate].
  - (* N2 *)
    intros z Hz. eexists. apply m_strtod_fmt_d, Hz.
  - (* N3 *)
    intros d Hf Hv. eexists. apply m_strtod_fmt_g; assumption.
  - (* N4 *)
    intros d t k Hf Hv H _. rewrite (m_strtod_fmt_g d Hf Hv) in H. injection H as <- _. reflexivity.
  - (* N4z *)
    intros d t k Hf Hv H _ Hz. rewrite (m_strtod_fmt_g d Hf Hv) in H. injection H as <- _. exact Hz.
  - (* N5a *)
    intros z Hz. unfold m_fmt_g, int_of. rewrite (sat_int_of_int z Hz).
    rewrite (proj2 (sf_same_eq _ _) eq_refl). reflexivity.
  - (* N5b *)
    intros z Hz.
    assert (Hz53 : Z.abs z < 2 ^ 53) by (change (10 ^ 15) with 1000000000000000 in Hz; change (2 ^ 53) with 9007199254740992; lia).
    destruct (dbl_of_int_exact z Hz53) as [Hv [Hf _]].
    eexists. apply m_strtod_fmt_g; assumption.
Qed.

(** all four contracts of the C04 theorems hold of one C library *)
Theorem contracts_satisfiable :
  exists strtod fmt_d fmt_g15 fmt_g17 sscanf_lg,
    strtod_ok strtod /\ strtod_rfc strtod /\ LibcStrictSpec fmt_d fmt_g15 fmt_g17 /\
    LibcRoundTripSpec strtod fmt_d fmt_g15 fmt_g17 sscanf_lg.
Proof.
  exists m_strtod, fmt_d, m_fmt_g, m_fmt_g, m_sscanf.
  split; [exact model_strtod_ok|]. split; [exact model_strtod_rfc|].
  split; [exact model_strict|exact model_roundtrip].
Qed.
