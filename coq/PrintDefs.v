(** PrintDefs.v — the printer of cJSON.c, twice.

    1. [render fmt depth n : option bytes]: the text (without terminator) that the printing
       functions produce for a tree, [None] where the C code returns false.  A short
       declarative definition: layout, escaping, the number formatting decision.

    2. The BUFFER-LEVEL transliteration of printbuffer / ensure / update_offset /
       print_number / print_string_ptr / print_string / print_value / print_array /
       print_object / print / cJSON_Print / cJSON_PrintUnformatted / cJSON_PrintBuffered /
       cJSON_PrintPreallocated: same control flow, same guards, same order of writes,
       allocations and frees.  The output buffer is a list of bytes with ARBITRARY initial
       contents; every write and every read of it (the strlen of update_offset, the memcpy
       of the manual reallocation) is bounds-checked against the actual block and yields
       [OOB].  Allocation requests are numbered, [oracle k] says whether request k fails,
       [live] counts the blocks owned by the call, fresh memory has the contents [junk].

    Both are stated inside a [Section] over the four C library conversions the printer calls
    (sprintf "%d", "%1.15g", "%1.17g", sscanf "%lg"), so theorems are of the form
    [forall libc, LibcPrintSpec libc -> ...].  No proofs here. *)
From CJ Require Import Base Dbl Tree.
Local Open Scope Z_scope.

Definition zlen {A} (l : list A) : Z := Z.of_nat (length l).

(** ------------------------------------------------------------------ byte constants *)
Definition ch_quote : Z := 34.      (* double quote *)
Definition ch_bslash : Z := 92.     (* backslash *)
Definition ch_tab : Z := 9.
Definition ch_nl : Z := 10.
Definition ch_comma : Z := 44.
Definition ch_colon : Z := 58.
Definition ch_space : Z := 32.
Definition ch_lbrack : Z := 91.
Definition ch_rbrack : Z := 93.
Definition ch_lbrace : Z := 123.
Definition ch_rbrace : Z := 125.
Definition lit_null : bytes := [110; 117; 108; 108].
Definition lit_true : bytes := [116; 114; 117; 101].
Definition lit_false : bytes := [102; 97; 108; 115; 101].

(** ------------------------------------------------------------------ strings *)
(** lower-case hexadecimal digit, as sprintf "%x" prints it *)
Definition hex_digit (v : Z) : Z := if v <? 10 then 48 + v else 87 + v.

(** the escape sequence print_string_ptr emits for one input byte *)
Definition escape_byte (c : Z) : bytes :=
  if c =? ch_quote then [ch_bslash; ch_quote]
  else if c =? ch_bslash then [ch_bslash; ch_bslash]
  else if c =? 8 then [ch_bslash; 98]
  else if c =? 12 then [ch_bslash; 102]
  else if c =? 10 then [ch_bslash; 110]
  else if c =? 13 then [ch_bslash; 114]
  else if c =? 9 then [ch_bslash; 116]
  else if c <? 32 then [ch_bslash; 117; 48; 48; hex_digit ((c / 16) mod 16); hex_digit (c mod 16)]
  else [c].

Definition escape_body (s : bytes) : bytes := flat_map escape_byte s.

(** text of a string / key: NULL prints as the empty string; a C string ends at its first zero *)
Definition render_string (s : option bytes) : bytes :=
  match s with
  | None => [ch_quote; ch_quote]
  | Some s => ch_quote :: escape_body (cstr s) ++ [ch_quote]
  end.

(** ------------------------------------------------------------------ layout helpers *)
Definition tabs (d : Z) : bytes := repeat ch_tab (Z.to_nat d).

Fixpoint opt_all {A} (l : list (option A)) : option (list A) :=
  match l with
  | [] => Some []
  | None :: _ => None
  | Some x :: r => match opt_all r with Some r' => Some (x :: r') | None => None end
  end.

Fixpoint join (sep : bytes) (l : list bytes) : bytes :=
  match l with
  | [] => []
  | [x] => x
  | x :: r => x ++ sep ++ join sep r
  end.

(** one member of an object, given the text of its value; [last] = no member follows *)
Definition member_text (fmt : bool) (depth : Z) (key : option bytes) (v : bytes) (last : bool) : bytes :=
  (if fmt then tabs depth else []) ++ render_string key ++ [ch_colon] ++ (if fmt then [ch_tab] else []) ++ v
  ++ (if last then [] else [ch_comma]) ++ (if fmt then [ch_nl] else []).

Fixpoint members_text (fmt : bool) (depth : Z) (l : list (option bytes * bytes)) : bytes :=
  match l with
  | [] => []
  | (k, v) :: r => member_text fmt depth k v (match r with [] => true | _ => false end) ++ members_text fmt depth r
  end.

Section Printer.
  (** the C library (external calls) *)
  Variable fmt_d : Z -> bytes.                  (* sprintf(buf, "%d", i) *)
  Variable fmt_g15 : dbl -> bytes.              (* sprintf(buf, "%1.15g", d), d finite *)
  Variable fmt_g17 : dbl -> bytes.              (* sprintf(buf, "%1.17g", d), d finite *)
  Variable sscanf_lg : bytes -> option dbl.     (* sscanf(buf, "%lg", &test) == 1 ? Some test : None *)

  (** the text print_number chooses (before the length check against the scratch buffer) *)
  Definition number_text (vint : Z) (d : dbl) : bytes :=
    if is_nan d || is_inf d then lit_null
    else if deq d (dbl_of_int vint) then fmt_d vint
    else
      let t15 := fmt_g15 d in
      match sscanf_lg t15 with
      | Some test => if compare_double test d then t15 else fmt_g17 d
      | None => fmt_g17 d
      end.

  (** ---------------------------------------------------------------- 1. the renderer *)
  Fixpoint render (fmt : bool) (depth : Z) (n : node) {struct n} : option bytes :=
    match n with
    | Node ty vs vi vd key ch =>
        let t := tymask ty in
        if t =? c_cJSON_NULL then Some lit_null
        else if t =? c_cJSON_False then Some lit_false
        else if t =? c_cJSON_True then Some lit_true
        else if t =? c_cJSON_Number then
          let txt := number_text vi vd in
          if c_NUMBER_BUFFER_SIZE - 1 <? zlen txt then None else Some txt
        else if t =? c_cJSON_Raw then
          match vs with None => None | Some s => Some (cstr s) end
        else if t =? c_cJSON_String then Some (render_string vs)
        else if t =? c_cJSON_Array then
          match opt_all (map (render fmt (depth + 1)) ch) with
          | None => None
          | Some l => Some ([ch_lbrack] ++ join (if fmt then [ch_comma; ch_space] else [ch_comma]) l ++ [ch_rbrack])
          end
        else if t =? c_cJSON_Object then
          match opt_all (map (render fmt (depth + 1)) ch) with
          | None => None
          | Some l =>
              Some ([ch_lbrace] ++ (if fmt then [ch_nl] else [])
                    ++ members_text fmt (depth + 1) (combine (map n_key ch) l)
                    ++ (if fmt then tabs depth else []) ++ [ch_rbrace])
          end
        else None
    end.

  (** ---------------------------------------------------------------- 2. the buffer level *)
  Variable oracle : nat -> bool.     (* allocation failure schedule: request k (0-based) fails *)
  Variable junk : nat -> Z.          (* contents of fresh memory at index i *)

  Record printbuffer : Type := mkpb {
    pb_buf : option bytes;    (* buffer: NULL, or the contents of the memory block it points to
                                 (the block is exactly as long as the list) *)
    pb_length : Z;            (* length *)
    pb_offset : Z;            (* offset *)
    pb_depth : Z;             (* depth *)
    pb_noalloc : bool;        (* noalloc *)
    pb_format : bool;         (* format *)
    pb_realloc : bool;        (* hooks.reallocate != NULL *)
    pb_req : nat;             (* allocator: requests made so far *)
    pb_live : Z               (* allocator: blocks owned by this call *)
  }.
  Definition set_buf (p : printbuffer) (b : option bytes) : printbuffer :=
    mkpb b (pb_length p) (pb_offset p) (pb_depth p) (pb_noalloc p) (pb_format p) (pb_realloc p) (pb_req p) (pb_live p).
  Definition set_length (p : printbuffer) (l : Z) : printbuffer :=
    mkpb (pb_buf p) l (pb_offset p) (pb_depth p) (pb_noalloc p) (pb_format p) (pb_realloc p) (pb_req p) (pb_live p).
  Definition set_offset (p : printbuffer) (o : Z) : printbuffer :=
    mkpb (pb_buf p) (pb_length p) o (pb_depth p) (pb_noalloc p) (pb_format p) (pb_realloc p) (pb_req p) (pb_live p).
  Definition set_depth (p : printbuffer) (d : Z) : printbuffer :=
    mkpb (pb_buf p) (pb_length p) (pb_offset p) d (pb_noalloc p) (pb_format p) (pb_realloc p) (pb_req p) (pb_live p).
  Definition set_alloc (p : printbuffer) (r : nat) (l : Z) : printbuffer :=
    mkpb (pb_buf p) (pb_length p) (pb_offset p) (pb_depth p) (pb_noalloc p) (pb_format p) (pb_realloc p) r l.

  (** checked accesses with C (Z) indices *)
  Definition wrz (b : bytes) (i : Z) (v : Z) : res bytes :=
    if i <? 0 then OOB else wr b (Z.to_nat i) v.
  (* consecutive byte writes, each one checked *)
  Fixpoint wr_bytes (b : bytes) (i : Z) (l : bytes) : res bytes :=
    match l with
    | [] => Ok b
    | v :: r => b' <- wrz b i v ;; wr_bytes b' (i + 1) r
    end.
  (* strlen on actual memory: the number of bytes before the first zero; running off the block is OOB *)
  Fixpoint strlen_l (l : bytes) : res Z :=
    match l with
    | [] => OOB
    | c :: r => if c =? 0 then Ok 0 else k <- strlen_l r ;; Ok (k + 1)
    end.
  Definition strlen_at (b : bytes) (i : Z) : res Z :=
    if i <? 0 then OOB else strlen_l (skipn (Z.to_nat i) b).
  (* memcpy(dst, src, k): k bytes read from src[0..k) and written to dst[0..k) *)
  Definition memcpy0 (dst src : bytes) (k : Z) : res bytes :=
    if k <=? 0 then Ok dst
    else if zlen src <? k then OOB
    else wr_bytes dst 0 (firstn (Z.to_nat k) src).

  (** the allocator.  [fresh n]: a new block of n bytes with arbitrary ([junk]) contents *)
  Definition fresh (n : Z) : bytes := map junk (seq 0 (Z.to_nat n)).
  (* hooks.allocate(size) *)
  Definition allocate (p : printbuffer) (size : Z) : option bytes * printbuffer :=
    if oracle (pb_req p) then (None, set_alloc p (S (pb_req p)) (pb_live p))
    else (Some (fresh size), set_alloc p (S (pb_req p)) (pb_live p + 1)).
  (* hooks.reallocate(block, size): on failure the old block stays allocated *)
  Definition reallocate (p : printbuffer) (old : bytes) (size : Z) : option bytes * printbuffer :=
    if oracle (pb_req p) then (None, set_alloc p (S (pb_req p)) (pb_live p))
    else (Some (firstn (Z.to_nat size) old ++ skipn (length old) (fresh size)), set_alloc p (S (pb_req p)) (pb_live p)).
  (* hooks.deallocate(pointer): free(NULL) is a no-op *)
  Definition deallocate (p : printbuffer) (block : option bytes) : printbuffer :=
    match block with None => p | Some _ => set_alloc p (pb_req p) (pb_live p - 1) end.

  (** ensure(p, needed): (true, p') = a pointer to p'.buffer + p'.offset, (false, p') = NULL *)
  Definition ensure (p : printbuffer) (needed : Z) : res (bool * printbuffer) :=
    match pb_buf p with
    | None => Ok (false, p)
    | Some buf =>
        if (0 <? pb_length p) && (pb_length p <=? pb_offset p) then Ok (false, p)   (* offset invalid *)
        else if c_INT_MAX <? needed then Ok (false, p)
        else
          let needed := needed + pb_offset p + 1 in
          if needed <=? pb_length p then Ok (true, p)
          else if pb_noalloc p then Ok (false, p)
          else if (c_INT_MAX / 2 <? needed) && negb (needed <=? c_INT_MAX) then Ok (false, p)
          else
            let newsize := if c_INT_MAX / 2 <? needed then c_INT_MAX else needed * 2 in
            if pb_realloc p then
              let '(nb, p1) := reallocate p buf newsize in
              match nb with
              | None =>
                  let p2 := deallocate p1 (Some buf) in
                  Ok (false, set_buf (set_length p2 0) None)
              | Some newbuffer => Ok (true, set_buf (set_length p1 newsize) (Some newbuffer))
              end
            else
              let '(nb, p1) := allocate p newsize in
              match nb with
              | None =>
                  let p2 := deallocate p1 (Some buf) in
                  Ok (false, set_buf (set_length p2 0) None)
              | Some newbuffer =>
                  newbuffer' <- (if 0 <? pb_length p then memcpy0 newbuffer buf (pb_offset p + 1)
                                 else Ok newbuffer) ;;
                  let p2 := deallocate p1 (Some buf) in
                  Ok (true, set_buf (set_length p2 newsize) (Some newbuffer'))
              end
    end.

  (** the manual-growth branch of ensure as the pinned tree had it (finding F19: the memcpy of
      offset + 1 bytes was not guarded by length > 0, so growing an EMPTY buffer —
      cJSON_PrintBuffered(item, 0, fmt) with custom hooks — read one byte from a 0-byte block) *)
  Definition ensure_grow_manual_pinned (p : printbuffer) (buf : bytes) (newsize : Z) : res (bool * printbuffer) :=
    let '(nb, p1) := allocate p newsize in
    match nb with
    | None => let p2 := deallocate p1 (Some buf) in Ok (false, set_buf (set_length p2 0) None)
    | Some newbuffer =>
        newbuffer' <- memcpy0 newbuffer buf (pb_offset p + 1) ;;
        let p2 := deallocate p1 (Some buf) in
        Ok (true, set_buf (set_length p2 newsize) (Some newbuffer'))
    end.

  (** update_offset *)
  Definition update_offset (p : printbuffer) : res printbuffer :=
    match pb_buf p with
    | None => Ok p
    | Some buf => k <- strlen_at buf (pb_offset p) ;; Ok (set_offset p (pb_offset p + k))
    end.

  (* writes through the pointer ensure returned: buffer + offset + i *)
  Definition put (p : printbuffer) (i : Z) (l : bytes) : res printbuffer :=
    match pb_buf p with
    | None => OOB       (* not reachable: ensure returned non-NULL *)
    | Some buf => buf' <- wr_bytes buf (pb_offset p + i) l ;; Ok (set_buf p (Some buf'))
    end.

  (* sprintf into unsigned char number_buffer[26]: the text and its terminator *)
  Definition sprintf_number_buffer (txt : bytes) : res bytes :=
    if c_NUMBER_BUFFER_SIZE <? zlen txt + 1 then OOB else Ok txt.

  (** print_number.  The copy loop replaces the locale's decimal point by '.'; in the C locale
      (the only one considered, DESIGN section 8) that is the identity. *)
  Definition print_number (vint : Z) (d : dbl) (p : printbuffer) : res (bool * printbuffer) :=
    txt <- (if is_nan d || is_inf d then sprintf_number_buffer lit_null
            else if deq d (dbl_of_int vint) then sprintf_number_buffer (fmt_d vint)
            else
              t15 <- sprintf_number_buffer (fmt_g15 d) ;;
              match sscanf_lg t15 with
              | Some test => if compare_double test d then Ok t15 else sprintf_number_buffer (fmt_g17 d)
              | None => sprintf_number_buffer (fmt_g17 d)
              end) ;;
    let length := zlen txt in
    if c_NUMBER_BUFFER_SIZE - 1 <? length then Ok (false, p)
    else
      '(ok, p1) <- ensure p (length + 1) ;;
      if negb ok then Ok (false, p1)
      else
        p2 <- put p1 0 (txt ++ [0]) ;;
        Ok (true, set_offset p2 (pb_offset p2 + length)).

  (** print_string_ptr *)
  (* first pass: additional characters needed for escaping *)
  Definition escape_extra (c : Z) : Z :=
    if (c =? ch_quote) || (c =? ch_bslash) || (c =? 8) || (c =? 12) || (c =? 10) || (c =? 13) || (c =? 9) then 1
    else if c <? 32 then 5 else 0.
  Fixpoint escape_characters (s : bytes) : Z :=
    match s with [] => 0 | c :: r => escape_extra c + escape_characters r end.
  (* second pass: the copy loop; [op] is output_pointer as an index into the block *)
  Fixpoint copy_escaped (buf : bytes) (op : Z) (s : bytes) : res (bytes * Z) :=
    match s with
    | [] => Ok (buf, op)
    | c :: r =>
        if (31 <? c) && negb (c =? ch_quote) && negb (c =? ch_bslash) then
          buf1 <- wrz buf op c ;; copy_escaped buf1 (op + 1) r
        else
          buf1 <- wrz buf op ch_bslash ;;
          let op := op + 1 in
          if c =? ch_bslash then buf2 <- wrz buf1 op ch_bslash ;; copy_escaped buf2 (op + 1) r
          else if c =? ch_quote then buf2 <- wrz buf1 op ch_quote ;; copy_escaped buf2 (op + 1) r
          else if c =? 8 then buf2 <- wrz buf1 op 98 ;; copy_escaped buf2 (op + 1) r
          else if c =? 12 then buf2 <- wrz buf1 op 102 ;; copy_escaped buf2 (op + 1) r
          else if c =? 10 then buf2 <- wrz buf1 op 110 ;; copy_escaped buf2 (op + 1) r
          else if c =? 13 then buf2 <- wrz buf1 op 114 ;; copy_escaped buf2 (op + 1) r
          else if c =? 9 then buf2 <- wrz buf1 op 116 ;; copy_escaped buf2 (op + 1) r
          else
            (* sprintf(output_pointer, "u%04x", c): five characters and a terminator *)
            buf2 <- wr_bytes buf1 op [117; 48; 48; hex_digit ((c / 16) mod 16); hex_digit (c mod 16); 0] ;;
            copy_escaped buf2 (op + 4 + 1) r
    end.

  Definition print_string_ptr (input : option bytes) (p : printbuffer) : res (bool * printbuffer) :=
    match input with
    | None =>
        '(ok, p1) <- ensure p 3 ;;
        if negb ok then Ok (false, p1)
        else p2 <- put p1 0 [ch_quote; ch_quote; 0] ;; Ok (true, p2)
    | Some s0 =>
        let s := cstr s0 in                         (* the loops stop at the first zero *)
        let escape_chars := escape_characters s in
        let output_length := zlen s + escape_chars in
        '(ok, p1) <- ensure p (output_length + 3) ;;
        if negb ok then Ok (false, p1)
        else if escape_chars =? 0 then
          p2 <- put p1 0 [ch_quote] ;;
          p3 <- put p2 1 (firstn (Z.to_nat output_length) s) ;;      (* memcpy(output + 1, input, output_length) *)
          p4 <- put p3 (output_length + 1) [ch_quote] ;;
          p5 <- put p4 (output_length + 2) [0] ;;
          Ok (true, p5)
        else
          p2 <- put p1 0 [ch_quote] ;;
          match pb_buf p2 with
          | None => OOB
          | Some buf =>
              '(buf', _) <- copy_escaped buf (pb_offset p2 + 1) s ;;
              let p3 := set_buf p2 (Some buf') in
              p4 <- put p3 (output_length + 1) [ch_quote] ;;
              p5 <- put p4 (output_length + 2) [0] ;;
              Ok (true, p5)
          end
    end.

  (* ensure(n) followed by strcpy of a literal (print_value: null, false, true) *)
  Definition print_literal (p : printbuffer) (needed : Z) (lit : bytes) : res (bool * printbuffer) :=
    '(ok, p1) <- ensure p needed ;;
    if negb ok then Ok (false, p1)
    else p2 <- put p1 0 (lit ++ [0]) ;; Ok (true, p2).

  (** the loops of print_array and print_object over the sibling chain, parameterised by
      print_value (tied below) *)
  Section Loops.
    Variable print_value : node -> printbuffer -> res (bool * printbuffer).

    Fixpoint print_array_elements (l : list node) (p : printbuffer) : res (bool * printbuffer) :=
      match l with
      | [] => Ok (true, p)
      | current_element :: next =>
          '(ok, p1) <- print_value current_element p ;;
          if negb ok then Ok (false, p1)
          else
            p2 <- update_offset p1 ;;
            match next with
            | [] => print_array_elements next p2
            | _ :: _ =>
                let length := if pb_format p2 then 2 else 1 in
                '(ok, p3) <- ensure p2 (length + 1) ;;
                if negb ok then Ok (false, p3)
                else
                  p4 <- put p3 0 ([ch_comma] ++ (if pb_format p3 then [ch_space] else []) ++ [0]) ;;
                  print_array_elements next (set_offset p4 (pb_offset p4 + length))
            end
      end.

    Definition print_array (children : list node) (p : printbuffer) : res (bool * printbuffer) :=
      '(ok, p1) <- ensure p 1 ;;
      if negb ok then Ok (false, p1)
      else
        p2 <- put p1 0 [ch_lbrack] ;;
        let p3 := set_depth (set_offset p2 (pb_offset p2 + 1)) (pb_depth p2 + 1) in
        '(ok, p4) <- print_array_elements children p3 ;;
        if negb ok then Ok (false, p4)
        else
          '(ok, p5) <- ensure p4 2 ;;
          if negb ok then Ok (false, p5)
          else
            p6 <- put p5 0 [ch_rbrack; 0] ;;
            Ok (true, set_depth p6 (pb_depth p6 - 1)).

    Fixpoint print_object_members (l : list node) (p : printbuffer) : res (bool * printbuffer) :=
      match l with
      | [] => Ok (true, p)
      | current_item :: next =>
          (* indentation *)
          r0 <- (if pb_format p then
                   '(ok, p1) <- ensure p (pb_depth p) ;;
                   if negb ok then Ok (false, p1)
                   else
                     p2 <- put p1 0 (tabs (pb_depth p1)) ;;
                     Ok (true, set_offset p2 (pb_offset p2 + pb_depth p2))
                 else Ok (true, p)) ;;
          let '(ok, p3) := r0 in
          if negb ok then Ok (false, p3)
          else
            (* key *)
            '(ok, p4) <- print_string_ptr (n_key current_item) p3 ;;
            if negb ok then Ok (false, p4)
            else
              p5 <- update_offset p4 ;;
              let length := if pb_format p5 then 2 else 1 in
              '(ok, p6) <- ensure p5 length ;;
              if negb ok then Ok (false, p6)
              else
                p7 <- put p6 0 ([ch_colon] ++ (if pb_format p6 then [ch_tab] else [])) ;;
                let p8 := set_offset p7 (pb_offset p7 + length) in
                (* value *)
                '(ok, p9) <- print_value current_item p8 ;;
                if negb ok then Ok (false, p9)
                else
                  p10 <- update_offset p9 ;;
                  let has_next := match next with [] => false | _ => true end in
                  let length := (if pb_format p10 then 1 else 0) + (if has_next then 1 else 0) in
                  '(ok, p11) <- ensure p10 (length + 1) ;;
                  if negb ok then Ok (false, p11)
                  else
                    p12 <- put p11 0 ((if has_next then [ch_comma] else []) ++ (if pb_format p11 then [ch_nl] else []) ++ [0]) ;;
                    print_object_members next (set_offset p12 (pb_offset p12 + length))
      end.

    Definition print_object (children : list node) (p : printbuffer) : res (bool * printbuffer) :=
      let length := if pb_format p then 2 else 1 in
      '(ok, p1) <- ensure p (length + 1) ;;
      if negb ok then Ok (false, p1)
      else
        p2 <- put p1 0 ([ch_lbrace] ++ (if pb_format p1 then [ch_nl] else [])) ;;
        let p3 := set_offset (set_depth p2 (pb_depth p2 + 1)) (pb_offset p2 + length) in
        '(ok, p4) <- print_object_members children p3 ;;
        if negb ok then Ok (false, p4)
        else
          '(ok, p5) <- ensure p4 (if pb_format p4 then pb_depth p4 + 1 else 2) ;;
          if negb ok then Ok (false, p5)
          else
            p6 <- put p5 0 ((if pb_format p5 then tabs (pb_depth p5 - 1) else []) ++ [ch_rbrace; 0]) ;;
            Ok (true, set_depth p6 (pb_depth p6 - 1)).
  End Loops.

  (** print_value *)
  Fixpoint print_value (n : node) (p : printbuffer) {struct n} : res (bool * printbuffer) :=
    match n with
    | Node ty vs vi vd key ch =>
        let t := tymask ty in
        if t =? c_cJSON_NULL then print_literal p 5 lit_null
        else if t =? c_cJSON_False then print_literal p 6 lit_false
        else if t =? c_cJSON_True then print_literal p 5 lit_true
        else if t =? c_cJSON_Number then print_number vi vd p
        else if t =? c_cJSON_Raw then
          match vs with
          | None => Ok (false, p)
          | Some s0 =>
              let s := cstr s0 in
              let raw_length := zlen s + 1 in
              '(ok, p1) <- ensure p raw_length ;;
              if negb ok then Ok (false, p1)
              else p2 <- put p1 0 (s ++ [0]) ;; Ok (true, p2)
          end
        else if t =? c_cJSON_String then print_string_ptr vs p
        else if t =? c_cJSON_Array then print_array print_value ch p
        else if t =? c_cJSON_Object then print_object print_value ch p
        else Ok (false, p)
    end.

  (** ---------------------------------------------------------------- entry points *)
  (** allocating entry points: the returned block (NULL = None), blocks still owned by the
      call when it returns (the returned block included), allocation requests made *)
  Record print_result : Type := mkprr {
    prr_block : option bytes;
    prr_live : Z;
    prr_requests : nat
  }.
  Definition result_of (block : option bytes) (p : printbuffer) : print_result :=
    mkprr block (pb_live p) (pb_req p).

  (* print(item, format, hooks) *)
  Definition print (item : node) (format : bool) (have_realloc : bool) : res print_result :=
    let p0 := mkpb None 0 0 0 false format have_realloc 0 0 in
    let '(b, p1) := allocate p0 c_DEFAULT_BUFFER_SIZE in
    let p2 := set_length (set_buf p1 b) c_DEFAULT_BUFFER_SIZE in
    match b with
    | None => Ok (result_of None p2)                                   (* goto fail; nothing to release *)
    | Some _ =>
        '(ok, p3) <- print_value item p2 ;;
        if negb ok then Ok (result_of None (deallocate p3 (pb_buf p3)))
        else
          p4 <- update_offset p3 ;;
          match pb_buf p4 with
          | None => OOB      (* not reachable: print_value succeeded *)
          | Some buf =>
              if have_realloc then
                let '(printed, p5) := reallocate p4 buf (pb_offset p4 + 1) in
                match printed with
                | None => Ok (result_of None (deallocate p5 (Some buf)))
                | Some pr => Ok (result_of (Some pr) p5)
                end
              else
                let '(printed, p5) := allocate p4 (pb_offset p4 + 1) in
                match printed with
                | None => Ok (result_of None (deallocate p5 (Some buf)))
                | Some pr =>
                    pr1 <- memcpy0 pr buf (Z.min (pb_length p5) (pb_offset p5 + 1)) ;;
                    pr2 <- wrz pr1 (pb_offset p5) 0 ;;
                    Ok (result_of (Some pr2) (deallocate p5 (Some buf)))
                end
          end
    end.

  Definition cJSON_Print (item : node) (have_realloc : bool) := print item true have_realloc.
  Definition cJSON_PrintUnformatted (item : node) (have_realloc : bool) := print item false have_realloc.

  Definition cJSON_PrintBuffered (item : node) (prebuffer : Z) (fmt : bool) (have_realloc : bool) : res print_result :=
    let p0 := mkpb None 0 0 0 false fmt have_realloc 0 0 in
    if prebuffer <? 0 then Ok (result_of None p0)
    else
      let '(b, p1) := allocate p0 prebuffer in
      match b with
      | None => Ok (result_of None p1)
      | Some _ =>
          let p2 := set_length (set_buf p1 b) prebuffer in
          '(ok, p3) <- print_value item p2 ;;
          if negb ok then Ok (result_of None (deallocate p3 (pb_buf p3)))
          else Ok (result_of (pb_buf p3) p3)
      end.

  (** cJSON_PrintPreallocated(item, buffer, length, format): the flag and the caller's buffer
      afterwards.  [buffer] is the caller's memory: exactly as long as the list. *)
  Record prealloc_result : Type := mkpar {
    par_flag : bool;
    par_buffer : option bytes;
    par_live : Z;
    par_requests : nat
  }.
  Definition cJSON_PrintPreallocated (item : node) (buffer : option bytes) (length : Z) (format : bool)
             (have_realloc : bool) : res prealloc_result :=
    match buffer with
    | None => Ok (mkpar false None 0 0)
    | Some _ =>
        if length <? 0 then Ok (mkpar false buffer 0 0)
        else
          let p := mkpb buffer length 0 0 true format have_realloc 0 0 in
          '(ok, p1) <- print_value item p ;;
          Ok (mkpar ok (pb_buf p1) (pb_live p1) (pb_req p1))
    end.
End Printer.

(** the returned text as the caller reads it (strlen on the returned block) *)
Fixpoint cstr_checked (b : bytes) : res bytes :=
  match b with
  | [] => OOB
  | c :: r => if c =? 0 then Ok [] else t <- cstr_checked r ;; Ok (c :: t)
  end.

(** ------------------------------------------------------------------ the libc contract *)
(** What the proofs assume about the C library conversions (external functions): their
    outputs — for the arguments print_number passes: an int, a finite IEEE binary64 double — are C strings
    (no zero byte) that fit the 26-byte scratch buffer of print_number with its terminator. *)
Definition int_range (z : Z) : bool := (c_INT_MIN <=? z) && (z <=? c_INT_MAX).
(* a double is an IEEE binary64 value: SpecFloat's own validity predicate at precision 53, emax 1024 *)
Definition valid_dbl (d : dbl) : bool := valid_binary prec emax d.
(* the scalar fields of every node are C values: valueint an int, valuedouble a double *)
Fixpoint fields_ok (n : node) : bool :=
  match n with Node _ _ vi vd _ ch => int_range vi && valid_dbl vd && forallb fields_ok ch end.

Record LibcPrintSpec (fmt_d : Z -> bytes) (fmt_g15 fmt_g17 : dbl -> bytes) : Prop := {
  lps_d_zero_free : forall z, int_range z = true -> Forall (fun c => c <> 0) (fmt_d z);
  lps_g15_zero_free : forall d, is_finite d = true -> valid_dbl d = true -> Forall (fun c => c <> 0) (fmt_g15 d);
  lps_g17_zero_free : forall d, is_finite d = true -> valid_dbl d = true -> Forall (fun c => c <> 0) (fmt_g17 d);
  lps_d_len : forall z, int_range z = true -> zlen (fmt_d z) <= c_NUMBER_BUFFER_SIZE - 1;
  lps_g15_len : forall d, is_finite d = true -> valid_dbl d = true -> zlen (fmt_g15 d) <= c_NUMBER_BUFFER_SIZE - 1;
  lps_g17_len : forall d, is_finite d = true -> valid_dbl d = true -> zlen (fmt_g17 d) <= c_NUMBER_BUFFER_SIZE - 1
}.
