(** ParseSoundIncl.v — C03: RFC 8259 is contained in the lenient dialect (number literals of at
    most 63 bytes, under the contract [strtod_rfc] that the C library converts every RFC number
    literal completely), hence the derivations the two dialects share are exactly the RFC ones:
    the dialects differ only in the three leaf predicates.  Uses the number-literal lemmas of
    ParseComplete.v. *)
From CJ Require Import Base Dbl Tree LibcNum ParseDefs ParseSpec Grammar ParseComplete ParseSoundGrammar.
Local Open Scope Z_scope.

Lemma rfc_number_len_num_tok strtod t :
  strtod_rfc strtod -> rfc_number t = true -> (length t <= 63)%nat -> len_num_tok strtod t.
Proof.
  intros Hs Hn Hl. unfold len_num_tok. split; [|split; [|split]].
  - destruct (rfc_number_first t Hn) as (c & r & -> & Hc). exists c, r. split; [reflexivity|].
    unfold digit. destruct Hc as [->|Hc]; [reflexivity|].
    apply orb_true_iff. right. apply andb_true_iff. split; apply Z.leb_le; lia.
  - exact (rfc_number_nb t Hn).
  - exact Hl.
  - exact (Hs t Hn Hl).
Qed.

Definition short_nums (v : jv) : Prop := jv_nums (fun t => (length t <= 63)%nat) v.

(** every RFC 8259 text (number literals <= 63 bytes) is a text of the lenient dialect, of the same value *)
Theorem rfc_sub_lenient strtod txt v :
  strtod_rfc strtod -> RFC_text txt v -> short_nums v -> LEN_text strtod txt v.
Proof.
  intros Hs Ht Hv.
  apply (text_mono_rel rfc_ws len_ws rfc_raw len_raw rfc_num_tok (len_num_tok strtod)
           (fun _ => True) (fun t => (length t <= 63)%nat)) with (n := nesting_limit) (txt := txt) (v := v).
  - intros c _. apply rfc_ws_len_ws.
  - reflexivity.
  - intros t Hl Hn. apply rfc_number_len_num_tok; assumption.
  - exact Ht.
  - apply Forall_forall. trivial.
  - exact Hv.
Qed.

(** ... and moreover a STRICT one: RFC texts are exactly the lenient texts that use none of the leniencies *)
Theorem rfc_sub_strict strtod txt v :
  strtod_rfc strtod -> RFC_text txt v -> short_nums v -> STRICT_text strtod txt v.
Proof.
  intros Hs Ht Hv.
  apply (text_mono_rel rfc_ws strict_ws rfc_raw strict_raw rfc_num_tok (strict_num strtod)
           (fun _ => True) (fun t => (length t <= 63)%nat)) with (n := nesting_limit) (txt := txt) (v := v).
  - intros c _ H. unfold strict_ws. rewrite H, (rfc_ws_len_ws c H). reflexivity.
  - intros c _ H. unfold strict_raw. rewrite H. reflexivity.
  - intros t Hl Hn. split; [apply rfc_number_len_num_tok; assumption|exact Hn].
  - exact Ht.
  - apply Forall_forall. trivial.
  - exact Hv.
Qed.

Theorem strict_iff_rfc strtod txt v :
  strtod_rfc strtod -> short_nums v -> (STRICT_text strtod txt v <-> RFC_text txt v).
Proof.
  intros Hs Hv. split.
  - apply only_leniencies.
  - intro Ht. apply rfc_sub_strict; assumption.
Qed.

(** the reference strtod satisfies the contract *)
Theorem strtod_ref_rfc_contract : strtod_rfc strtod_ref.
Proof. exact strtod_ref_rfc. Qed.
