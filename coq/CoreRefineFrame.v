(** CoreRefineFrame.v — what a call leaves alone, beyond [WF]:
    * [datas F]: the (id, data) pairs of a forest — invariant (as a multiset) under every edit
      that only relinks ([datas_move_root], [datas_detach], [datas_replace]), split off by a
      deletion ([datas_remove_root]); [owned F = owned_of (datas F)];
    * [Frame h h' F F']: strings are untouched except those of released blocks (owned by [F],
      not by [F']), live blocks stay live unless released, ownership tags are stable, the
      allocator counter grows, and every node of [F'] is a node of [F] with the same data or a
      freshly allocated keyless one;
    * [Frame_free_all] (an [upd_maps] step followed by the release of the blocks of some nodes),
      [Frame_upd_maps], [Frame_refl], [Frame_grow]. *)
From CJ Require Import Base Dbl Heap Forest ForestLemmas CoreSpec CoreDefs CoreRefineBase CoreRefine
  CoreRefineDelete CoreRefineReplace CoreRefineMore.
From stdpp Require Import gmap.
Implicit Types (h : heap) (F : forest) (p x y r : positive) (d : rdata).
Local Open Scope Z_scope.

(** * the (id, data) pairs of a forest: what survives every edit *)
Definition fdata (e : fnode) : positive * rdata := (fn_id e, fn_data e).
Definition datas (F : forest) : list (positive * rdata) := fdata <$> flat F.
Definition owned_of (ds : list (positive * rdata)) : list positive := ds ≫= fun e => e.1 :: owned_strs e.2.

Global Instance datas_proper : Proper ((≡ₚ) ==> (≡ₚ)) datas.
Proof. intros F F' H. unfold datas. by rewrite H. Qed.
Global Instance owned_of_proper : Proper ((≡ₚ) ==> (≡ₚ)) owned_of.
Proof. intros F F' H. unfold owned_of. by rewrite H. Qed.
Lemma owned_datas F : owned F = owned_of (datas F).
Proof.
  unfold owned, owned_fl, owned_of, datas. induction (flat F) as [|e FL IH]; [done|].
  rewrite fmap_cons, !bind_cons, IH. reflexivity.
Qed.
Lemma datas_app F1 F2 : datas (F1 ++ F2) = datas F1 ++ datas F2.
Proof. unfold datas. by rewrite flat_app, fmap_app. Qed.
Lemma owned_of_app a b : owned_of (a ++ b) = owned_of a ++ owned_of b.
Proof. unfold owned_of. apply bind_app. Qed.

Lemma datas_flat_focus F F' p d (ks ks' : list positive) FL :
  flat F ≡ₚ (p, d, ks) :: FL -> flat F' ≡ₚ (p, d, ks') :: FL -> datas F' ≡ₚ datas F.
Proof. intros H H'. unfold datas. by rewrite H, H'. Qed.

Lemma datas_move_root F x tx p d cs cs' :
  NoDup (ids F) -> find_root x F = Some tx -> find_tree p (remove_root x F) = Some (T p d cs) ->
  cs' ≡ₚ tx :: cs -> datas (set_children p cs' (remove_root x F)) ≡ₚ datas F.
Proof.
  intros ND Hx Hp Hcs'. destruct (focus_root_container _ _ _ _ _ _ ND Hx Hp) as (FL0 & Htx & ND0 & HFp & E1 & E2).
  eapply datas_flat_focus; [exact E1|]. rewrite E2. apply Permutation_skip.
  rewrite Hcs', flat_cons. rewrite !app_assoc. apply Permutation_app_tail. apply Permutation_app_comm.
Qed.
Lemma datas_detach F p d cs (k : nat) tx :
  NoDup (ids F) -> find_tree p F = Some (T p d cs) -> cs !! k = Some tx ->
  datas (set_children p (delete k cs) F ++ [tx]) ≡ₚ datas F.
Proof.
  intros ND Hp Hk. destruct (focus_container _ _ _ _ ND Hp) as (FL0 & E1 & E2).
  eapply datas_flat_focus; [exact E1|]. rewrite flat_app, flat_singleton, E2. cbn. apply Permutation_skip.
  rewrite (delete_Permutation cs k tx Hk) at 2. rewrite flat_cons.
  rewrite <- !app_assoc. rewrite (Permutation_app_comm (flat_t tx)). by rewrite <- !app_assoc.
Qed.
Lemma datas_remove_root F x tx :
  NoDup (ids F) -> find_root x F = Some tx -> datas F ≡ₚ datas [tx] ++ datas (remove_root x F).
Proof.
  intros ND Hx. destruct (find_root_split _ _ _ (NoDup_roots _ ND) Hx) as (F1 & F2 & HF & HF0).
  rewrite HF0, HF. rewrite <- datas_app. apply datas_proper. cbn. by rewrite Permutation_middle.
Qed.
Lemma datas_snoc_root (G : forest) t : datas (G ++ [t]) ≡ₚ datas [t] ++ datas G.
Proof. rewrite datas_app. apply Permutation_app_comm. Qed.

(** * what a call leaves alone (beyond [WF]): strings, liveness, ownership tags *)
Definition released (F F' : forest) (b : positive) : Prop := b ∈ owned F /\ b ∉ owned F'.
Global Instance released_dec F F' b : Decision (released F F' b).
Proof. unfold released. apply _. Defined.

Record Frame (h h' : heap) (F F' : forest) : Prop := mkFrame {
  fr_str : forall b, h_str h' !! b = if decide (released F F' b) then None else h_str h !! b;
  fr_live : forall b, b ∈ h_live h -> ~ released F F' b -> b ∈ h_live h';
  fr_own : forall b, b <> h_next h -> h_own h' !! b = h_own h !! b;
  fr_next : (h_next h <= h_next h')%positive;
  fr_data : forall e, e ∈ datas F' -> e ∈ datas F \/ (e.1 = h_next h /\ rd_key e.2 = None)
}.

Lemma free_all_str_lookup bs h i : i ∉ bs -> h_str (free_all bs h) !! i = h_str h !! i.
Proof.
  revert h. induction bs as [|b bs IH]; intros h Hi; [done|]. apply not_elem_of_cons in Hi as [H1 H2].
  rewrite free_all_cons, IH by done. cbn. by rewrite lookup_delete_ne.
Qed.
Lemma free_all_str_lookup_in bs h i : i ∈ bs -> h_str (free_all bs h) !! i = None.
Proof.
  revert h. induction bs as [|b bs IH]; intros h Hi; [by apply elem_of_nil in Hi|].
  rewrite free_all_cons. destruct (decide (i ∈ bs)) as [Hin|Hnin]; [by apply IH|].
  apply elem_of_cons in Hi as [->|Hi]; [|done]. rewrite free_all_str_lookup by done. cbn. by rewrite lookup_delete.
Qed.

(** the generic frame: an [upd_maps] step followed by the release of the blocks of [dT] *)
Lemma Frame_free_all h F F' L D bs dT :
  WF h F -> datas F ≡ₚ dT ++ datas F' -> bs ≡ₚ owned_of dT ->
  Frame h (free_all bs (upd_maps h L D)) F F'.
Proof.
  intros W HD Hbs.
  assert (Hown : owned F ≡ₚ bs ++ owned F') by (by rewrite !owned_datas, HD, owned_of_app, Hbs).
  pose proof (wf_owned_nodup _ _ W) as NDo. rewrite Hown in NDo. apply NoDup_app in NDo as (N1 & N12 & N2).
  assert (Hrel : forall b, released F F' b <-> b ∈ bs).
  { intros b. unfold released. rewrite Hown, elem_of_app. split.
    - intros [[?|?] ?]; done.
    - intros Hb. split; [by left|by apply N12]. }
  constructor.
  - intros b. destruct (decide (released F F' b)) as [Hr|Hr].
    + apply free_all_str_lookup_in. by apply Hrel.
    + rewrite free_all_str_lookup; [done|]. intros Hin. by apply Hr, Hrel.
  - intros b Hb Hr. apply free_all_live. split; [done|]. intros Hin. by apply Hr, Hrel.
  - intros b _. by rewrite free_all_own.
  - by rewrite free_all_next.
  - intros e He. left. rewrite HD. apply elem_of_app. by right.
Qed.
Lemma Frame_upd_maps h F F' L D : WF h F -> datas F' ≡ₚ datas F -> Frame h (upd_maps h L D) F F'.
Proof.
  intros W HD. apply (Frame_free_all h F F' L D [] []); [done| |done]. by rewrite HD.
Qed.
Lemma Frame_refl h F : WF h F -> Frame h h F F.
Proof. intros W. rewrite <- (upd_maps_id h) at 2. by apply Frame_upd_maps. Qed.

Lemma Frame_grow h h' F F' :
  (forall b, b ∈ owned F -> b ∈ owned F') ->
  h_str h' = h_str h ->
  (forall b, b ∈ h_live h -> b ∈ h_live h') ->
  (forall b, b <> h_next h -> h_own h' !! b = h_own h !! b) ->
  (h_next h <= h_next h')%positive ->
  (forall e, e ∈ datas F' -> e ∈ datas F \/ (e.1 = h_next h /\ rd_key e.2 = None)) ->
  Frame h h' F F'.
Proof.
  intros Hsub Hstr Hlive Hown Hnext Hdata. constructor; try done.
  - intros b. rewrite Hstr. destruct (decide (released F F' b)) as [[H1 H2]|_]; [|done]. by apply Hsub in H1.
  - intros b Hb _. by apply Hlive.
Qed.

Lemma datas_replace h F p y r tr ty d cs (k : nat) :
  WF h F -> find_root r F = Some tr ->
  find_tree p (remove_root r F) = Some (T p d cs) -> cs !! k = Some ty -> tid ty = y ->
  datas (set_children p (<[k := tr]> cs) (remove_root r F) ++ [ty]) ≡ₚ datas F.
Proof.
  intros W Hr Hp Hk Hy.
  destruct (replace_relink_focus h F p y r tr ty d cs k W Hr Hp Hk Hy) as (FL & _ & E1 & _ & E2 & _).
  by eapply datas_flat_focus.
Qed.

Lemma free_order_datas (ts : list tree) : free_order ts ≡ₚ owned_of (datas ts).
Proof. rewrite free_order_owned. change (owned_fl (flat ts)) with (owned ts). by rewrite owned_datas. Qed.
