(** PrintHeapParse.v — composing with ParseUsable: parse -> heap tree -> print_h.

    The parser model returns a value-level tree [t]; [ParseUsableHeap.mat t] builds its heap image (one node
    block per node, one string block per valuestring / key, children linked by add_item_to_array) in ANY
    heap that encodes a forest; [mat_sim] says the result encodes [F ++ [forest_of t (h_next h)]].

    * [mat_heap_value]: for a tree without flag bits whose strings are C strings ([plain], [cstrings]: every
      parsed tree), the image READS AS [t]: [heap_value h' (h_next h) t] — in particular
      [reify (h_str h') (forest_of t (h_next h)) = t] ([reify_forest_of]), every string of the image is
      readable, no borrowed child pointer.
    * [parsed_prints_heap]: every tree returned by cJSON_ParseWithLengthOpts (any allocation schedule of the
      parse), materialised in any well-formed heap, is printed by the heap-level cJSON_Print_h /
      cJSON_PrintUnformatted_h — under every allocation schedule of the print — as nothing but ONE RFC 8259
      text denoting its value, returned when no allocation fails; the heap is unchanged.
    * [C04_print_parse_mat_print_heap_proof]: print a heap value (pointer [p] in [h]) with the heap-level
      entry point, parse the returned block with cJSON_Parse, materialise the result in any well-formed heap,
      print it again through the heap-level entry point: the SAME bytes. *)
From CJ Require Import Base Dbl Tree LibcNum LibcPrint Grammar ParseDefs ParseSpec ParseRefine ParseComplete ParseListStrtod
  PrintDefs PrintLemmas PrintProofs PrintStrict PrintStrictWs PrintStrictVariants RoundTripNum RoundTripInt RoundTrip
  RoundTripPrint RoundTripRefValid ParseUsable ParseUsableOracle.
From CJ Require Import Heap Forest ForestLemmas CoreSpec CoreDefs CoreRefineBase CoreRefine CoreRefineDupTree CoreRefineDupLoop
  CoreRefineDupValue CoreRefineDupForest CoreRefineDupUnroll SortDefs ParseUsableHeap ParseUsableWalk ParseUsableAll
  PrintHeapDefs PrintHeapRefine PrintHeapForest PrintHeapTransfer.
From CJ.gen Require Import Constants.
From stdpp Require Import gmap.
From Coq Require Import Lia.
Local Open Scope Z_scope.

(** * the nodes of the image *)
Definition node_ok (L : list (positive * bytes)) (e : fnode) : Prop :=
  rd_ref (fn_data e) = None /\ is_ref (fn_data e) = false /\ is_const (fn_data e) = false /\
  (forall b, rd_vstr (fn_data e) = Some b -> exists s : bytes, (b, s ++ [0]) ∈ L) /\
  (forall b, rd_key (fn_data e) = Some b -> exists s : bytes, (b, s ++ [0]) ∈ L).

Lemma node_ok_mono L L' e : (forall x, x ∈ L -> x ∈ L') -> node_ok L e -> node_ok L' e.
Proof.
  intros Hs (H1 & H2 & H3 & H4 & H5). split_and!; try done.
  - intros b Hb. destruct (H4 b Hb) as [s Hin]. exists s. by apply Hs.
  - intros b Hb. destruct (H5 b Hb) as [s Hin]. exists s. by apply Hs.
Qed.

Lemma opt_id_entry (o : option bytes) n b : opt_id o n = Some b -> exists s : bytes, (b, s ++ [0]) ∈ opt_entry o n.
Proof. destruct o as [s|]; cbn; [|done]. intros [= <-]. exists s. by left. Qed.

Lemma forest_of_nodes : forall t n, plain t = true ->
  forall e : fnode, e ∈ flat_t (forest_of t n) -> node_ok (strs_of t n) e.
Proof.
  induction t as [ty vs vi vd key ch IH] using node_ind'. intros n Hpl e He.
  rewrite plain_unfold in Hpl. apply andb_true_iff in Hpl as [Hpl Hplc]. apply andb_true_iff in Hpl as [Hf1 Hf2].
  rewrite forest_of_unfold in He. rewrite strs_of_unfold. cbv zeta in *.
  set (n1 := Pos.succ n) in *. set (n2 := opt_cnt vs n1) in *. set (n3 := opt_cnt key n2) in *.
  rewrite flat_t_unfold in He. apply elem_of_cons in He as [->|He].
  - unfold node_ok. cbn [fn_data fst snd rd_ref rd_vstr rd_key]. split_and!.
    + done.
    + by apply is_ref_false.
    + by apply is_const_false.
    + intros b Hb. destruct (opt_id_entry vs n1 b Hb) as [s Hs]. exists s. apply elem_of_app. by left.
    + intros b Hb. destruct (opt_id_entry key n2 b Hb) as [s Hs]. exists s. apply elem_of_app. right. apply elem_of_app. by left.
  - apply (node_ok_mono (strs_list strs_of ch n3)).
    { intros x Hx. apply elem_of_app. right. apply elem_of_app. by right. }
    clearbody n3. clear -IH Hplc He. revert n3 He. induction ch as [|c r IHr]; intros m He.
    + cbn in He. by apply elem_of_nil in He.
    + cbn [map_acc] in He. rewrite flat_cons in He. cbn [strs_list].
      apply Forall_cons in IH as [IHc IH]. cbn [forallb] in Hplc. apply andb_true_iff in Hplc as [Hc Hr].
      apply elem_of_app in He as [He|He].
      * apply (node_ok_mono (strs_of c m)); [intros x Hx; apply elem_of_app; by left|]. by apply IHc.
      * apply (node_ok_mono (strs_list strs_of r (m + nblocks c)%positive)); [intros x Hx; apply elem_of_app; by right|].
        by apply IHr.
Qed.

(** * reifying the image gives the tree back *)
Lemma cstr_of_opt_id (S : gmap positive bytes) (o : option bytes) n :
  nz_opt o = true -> (forall s : bytes, o = Some s -> S !! n = Some (s ++ [0])) -> cstr_of S (opt_id o n) = o.
Proof.
  intros Hz H. destruct o as [s|]; cbn [opt_id cstr_of]; [|done]. unfold bytes in *. rewrite (H s eq_refl). cbn.
  f_equal. by apply cstr_app_zero_nz.
Qed.

Lemma reify_forest_of (S : gmap positive bytes) : forall t n,
  cstrings t = true -> (forall b (s : bytes), (b, s) ∈ strs_of t n -> S !! b = Some s) ->
  reify S (forest_of t n) = t.
Proof.
  induction t as [ty vs vi vd key ch IH] using node_ind'. intros n Hz HS.
  rewrite cstrings_unfold in Hz. apply andb_true_iff in Hz as [Hz Hzc]. apply andb_true_iff in Hz as [Hz1 Hz2].
  rewrite forest_of_unfold. rewrite strs_of_unfold in HS. cbv zeta in *.
  set (n1 := Pos.succ n) in *. set (n2 := opt_cnt vs n1) in *. set (n3 := opt_cnt key n2) in *.
  cbn [reify rd_type rd_vstr rd_vint rd_vdbl rd_key]. f_equal.
  - apply cstr_of_opt_id; [done|]. intros s ->. apply HS. apply elem_of_app. left. cbn. by left.
  - apply cstr_of_opt_id; [done|]. intros s ->. apply HS. apply elem_of_app. right. apply elem_of_app. left. cbn. by left.
  - assert (HSc : forall b (s : bytes), (b, s) ∈ strs_list strs_of ch n3 -> S !! b = Some s).
    { intros b s Hin. apply HS. apply elem_of_app. right. apply elem_of_app. by right. }
    clearbody n3. clear -IH Hzc HSc. revert n3 HSc. induction ch as [|c r IHr]; intros m HSc; [done|].
    apply Forall_cons in IH as [IHc IH]. cbn [forallb] in Hzc. apply andb_true_iff in Hzc as [Hc Hr].
    cbn [map_acc map strs_list] in *. f_equal.
    + apply IHc; [done|]. intros b s Hin. apply HSc. apply elem_of_app. by left.
    + apply IHr; [done|done|]. intros b s Hin. apply HSc. apply elem_of_app. by right.
Qed.

(** * the image reads as the tree *)
Lemma existsb_zero_snoc (s : bytes) : existsb (Z.eqb 0) (s ++ [0]) = true.
Proof. rewrite existsb_app. cbn. by rewrite orb_true_r. Qed.

Theorem mat_heap_value t h F :
  plain t = true -> cstrings t = true -> WF h F ->
  exists h', mat t h = Ret (Some (h_next h), h') /\ WF h' (F ++ [forest_of t (h_next h)]) /\
             reify (h_str h') (forest_of t (h_next h)) = t /\
             no_borrowed (forest_of t (h_next h)) /\ tree_readable h' (forest_of t (h_next h)) /\
             heap_value h' (h_next h) t.
Proof.
  intros Hpl Hz W. destruct (mat_sim t h F Hpl W) as (h' & Hrun & W' & Hnext & Hlive & Hframe & Hstr).
  set (p := h_next h) in *. set (tr := forest_of t p) in *.
  assert (Hn : tr ∈ nodes (F ++ [tr])).
  { apply roots_in_nodes. apply elem_of_app. right. by left. }
  assert (Hreify : reify (h_str h') tr = t).
  { apply reify_forest_of; [done|]. intros b s Hin. by destruct (Hstr b s Hin). }
  assert (NB : no_borrowed tr).
  { intros i d ks He. by destruct (forest_of_nodes t p Hpl _ He) as (H1 & _). }
  assert (TR : tree_readable h' tr).
  { intros i d ks He. destruct (forest_of_nodes t p Hpl _ He) as (_ & H2 & H3 & H4 & H5). cbn [fn_data fst snd] in *.
    assert (HeF : (i, d, ks) ∈ flat (F ++ [tr])) by (by eapply flat_t_in_flat).
    assert (Hown : forall b, b ∈ owned_strs d -> b ∈ h_live h').
    { intros b Hb. apply (wf_owned_live _ _ W'). unfold owned. apply elem_of_owned_fl. exists (i, d, ks).
      split; [done|]. unfold owned_fn. cbn [fn_id fn_data fst snd]. by right. }
    unfold owned_strs in Hown. rewrite H2, H3 in Hown. split.
    - intros b Hb. destruct (H4 b Hb) as [s Hin]. destruct (Hstr b _ Hin) as [Hs _]. exists (s ++ [0]). split.
      + split; [|done]. apply Hown. apply elem_of_app. left. rewrite Hb. cbn. by left.
      + apply existsb_zero_snoc.
    - intros b Hb. destruct (H5 b Hb) as [s Hin]. destruct (Hstr b _ Hin) as [Hs _]. exists (s ++ [0]). split.
      + split; [|done]. apply Hown. apply elem_of_app. right. rewrite Hb. cbn. by left.
      + apply existsb_zero_snoc. }
  exists h'. split; [done|]. split; [done|]. split; [done|]. split; [done|]. split; [done|].
  exists (Pos.to_nat (h_next h')), (height tr), tr. split_and!.
  - apply (src_t_of_WF h' _ W' tr (height tr) Hn); [by apply tree_readable_strs|done|done].
  - by apply no_borrowed_complete.
  - by apply tree_readable_keys.
  - apply tid_forest_of.
  - done.
  - by apply (height_lt_fuel h' _ tr W').
  - done.
Qed.

Section Compose.
  Variable strtod : bytes -> option (dbl * nat).
  Variable fmt_d : Z -> bytes.
  Variable fmt_g15 : dbl -> bytes.
  Variable fmt_g17 : dbl -> bytes.
  Variable sscanf_lg : bytes -> option dbl.
  Hypothesis L : LibcStrictSpec fmt_d fmt_g15 fmt_g17.
  Hypothesis Hsok : strtod_ok strtod.

  Notation render := (PrintDefs.render fmt_d fmt_g15 fmt_g17 sscanf_lg).
  Notation cJSON_Print_fmt_h := (PrintHeapTransfer.cJSON_Print_fmt_h fmt_d fmt_g15 fmt_g17 sscanf_lg).

  (** a tree of an accepted text has no flag bits and C strings only *)
  Lemma text_plain_cstrings l rnt t rest : text_l strtod l rnt = Some (t, rest) -> plain t = true /\ cstrings t = true.
  Proof.
    intros H.
    assert (Hs : shape (fun _ => True) (fun _ => True) false nesting_limit t).
    { apply (text_l_shape strtod (fun _ => True) (fun _ => True) (fun _ _ => I) (fun _ _ _ _ => I) l rnt t rest); [|exact H].
      apply List.Forall_forall. intros; exact I. }
    split; [by eapply shape_plain|by eapply shape_cstrings].
  Qed.

  (** parse (any schedule), materialise (any well-formed heap), print on the heap (any schedule) *)
  Theorem parsed_prints_heap :
    strtod_valid strtod ->
    forall parse_oracle content len rnt r t,
      (len <= length content)%nat -> Forall (fun c => is_byte c = true) (firstn len content) ->
      cJSON_ParseWithLengthOpts strtod parse_oracle content len rnt = Ok r -> pr_tree r = Some t ->
      forall h F, WF h F ->
      exists h', mat t h = Ret (Some (h_next h), h') /\ WF h' (F ++ [forest_of t (h_next h)]) /\
        heap_value h' (h_next h) t /\
        forall fmt, exists txt,
          render fmt 0 t = Some txt /\ RFC_text txt (val_of fmt_d fmt_g15 fmt_g17 sscanf_lg t) /\
          forall oracle junk, exists pr,
            cJSON_Print_fmt_h oracle junk fmt (Some (h_next h)) h' = Ret (pr, h') /\
            (forall block, prr_block pr = Some block -> block = txt ++ [0]) /\
            ((forall i, oracle i = false) -> zlen txt + 2 <= c_INT_MAX -> prr_block pr = Some (txt ++ [0])).
  Proof.
    intros Hvalid parse_oracle content len rnt r t Hlen HB Hr Ht h F W.
    destruct (parsed_any_oracle_prints strtod fmt_d fmt_g15 fmt_g17 sscanf_lg L Hsok Hvalid parse_oracle content len rnt r t
                Hlen HB Hr Ht) as (Hp & Hf & Hd & _).
    pose proof (parsed_tree_shape_any_oracle strtod (fun _ => True) (fun _ => True) (fun _ _ => I) (fun _ _ _ _ => I) Hsok
                  parse_oracle content len rnt r t Hlen ltac:(apply List.Forall_forall; intros; exact I) Hr Ht) as Hs.
    destruct (mat_heap_value t h F ltac:(by eapply shape_plain) ltac:(by eapply shape_cstrings) W)
      as (h' & Hrun & W' & _ & _ & _ & HV).
    exists h'. split; [done|]. split; [done|]. split; [done|]. intros fmt.
    exact (C05_strict_heap_proof fmt_d fmt_g15 fmt_g17 sscanf_lg L h' (h_next h) t HV Hp Hf fmt Hd).
  Qed.

  (** print on the heap, parse, materialise, print on the heap again: the same bytes *)
  Theorem C04_print_parse_mat_print_heap_proof :
    strtod_rfc strtod -> LibcRoundTripSpec strtod fmt_d fmt_g15 fmt_g17 sscanf_lg ->
    forall h p n fmt, heap_value h p n ->
    printable n = true -> rt_ok n = true -> (cdepth n <= nesting_limit)%nat -> fields_ok n = true ->
    (forall txt, render fmt 0 n = Some txt -> zlen txt + 2 <= c_INT_MAX) ->
    exists txt, render fmt 0 n = Some txt /\
    forall junk, exists r pr t',
      cJSON_Print_fmt_h no_failure junk fmt (Some p) h = Ret (r, h) /\ prr_block r = Some (txt ++ [0]) /\
      cJSON_Parse strtod never_fails (txt ++ [0]) = Ok pr /\ pr_tree pr = Some t' /\ same_shape n t' /\
      forall h2 F2, WF h2 F2 ->
        exists h3, mat t' h2 = Ret (Some (h_next h2), h3) /\ WF h3 (F2 ++ [forest_of t' (h_next h2)]) /\
          heap_value h3 (h_next h2) t' /\
          forall junk2, exists r3,
            cJSON_Print_fmt_h no_failure junk2 fmt (Some (h_next h2)) h3 = Ret (r3, h3) /\
            prr_block r3 = Some (txt ++ [0]).
  Proof.
    intros Hrfc R h p n fmt HV Hp Ho Hd Hf Hsz.
    destruct (C04_print_parse_heap_proof fmt_d fmt_g15 fmt_g17 sscanf_lg strtod Hsok Hrfc L R h p n HV fmt Hp Ho Hd Hf Hsz)
      as (txt & Hr & H).
    exists txt. split; [done|]. intros junk. destruct (H junk) as (r & pr & E & B & Ep & Tp & Sh & Again).
    set (t' := reparsed strtod fmt_d fmt_g15 fmt_g17 sscanf_lg n) in *.
    exists r, pr, t'. split; [done|]. split; [done|]. split; [done|]. split; [done|]. split; [done|].
    intros h2 F2 W2.
    (* the shape of the re-parsed tree, from the list-level specification *)
    destruct (roundtrip_value strtod fmt_d fmt_g15 fmt_g17 sscanf_lg Hrfc L R n Hp Ho Hd fmt)
      as (txt0 & t0 & Hr0 & Htxt & _ & _ & Et0 & _).
    rewrite Hr in Hr0. injection Hr0 as <-. fold t' in Et0. subst t0.
    destruct (text_plain_cstrings _ _ _ _ Htxt) as [Hpl Hcs].
    destruct (mat_heap_value t' h2 F2 Hpl Hcs W2) as (h3 & Hrun & W3 & _ & _ & _ & HV3).
    exists h3. split; [done|]. split; [done|]. split; [done|]. intros junk2.
    destruct (Again (hr_of h3) junk2) as (r3 & E3 & B3). exists r3. split; [|done].
    rewrite (heap_Print_fmt fmt_d fmt_g15 fmt_g17 sscanf_lg no_failure junk2 h3 (h_next h2) t' HV3). by apply lift_Ok.
  Qed.
End Compose.
