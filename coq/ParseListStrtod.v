(** ParseListStrtod.v — the reference strtod of LibcNum.v satisfies the contract
    ([strtod_ok], [strtod_stable]) that the parse_number proofs assume of the C library. *)
From CJ Require Import Base Dbl Tree LibcNum ParseDefs.
Local Open Scope Z_scope.

(** * Phases of [strtod_ref] as separate functions *)

Definition sign_split (s : bytes) : bool * bytes * nat :=
  match s with
  | 45 :: r => (true, r, 1%nat)
  | 43 :: r => (false, r, 1%nat)
  | _ => (false, s, 0%nat)
  end.

Definition frac_split (ip : Z) (nint : nat) (s2 : bytes) : Z * nat * bytes * nat :=
  match s2 with
  | 46 :: r => let '(m', nf, r') := take_digits r ip 0 in
               if (nint =? 0)%nat && (nf =? 0)%nat then (ip, 0%nat, s2, 0%nat) else (m', nf, r', 1%nat)
  | _ => (ip, 0%nat, s2, 0%nat)
  end.

Definition exp_split (s3 : bytes) : Z * nat :=
  match s3 with
  | c :: r =>
      if (c =? 101) || (c =? 69) then
        let '(eneg, r1, nes) := sign_split r in
        let '(ev, ne, _) := take_digits r1 0 0 in
        if (ne =? 0)%nat then (0, 0%nat)
        else ((if eneg then - (Z.min ev 100000) else Z.min ev 100000), (1 + nes + ne)%nat)
      else (0, 0%nat)
  | [] => (0, 0%nat)
  end.

Definition strtod_alt (s : bytes) : option (dbl * nat) :=
  let '(neg, s1, nsign) := sign_split s in
  let '(ip, nint, s2) := take_digits s1 0 0 in
  let '(m, nfrac, s3, ndot) := frac_split ip nint s2 in
  if (nint + nfrac =? 0)%nat then None
  else
    let '(e, nexp) := exp_split s3 in
    Some (dec_to_dbl_exact neg m (e - Z.of_nat nfrac), (nsign + nint + ndot + nfrac + nexp)%nat).

Lemma strtod_ref_alt s : strtod_ref s = strtod_alt s.
Proof. reflexivity. Qed.

(** the literal patterns, as tests *)
Lemma sign_split_spec s :
  sign_split s =
  match s with
  | [] => (false, s, 0%nat)
  | x :: r => if x =? 45 then (true, r, 1%nat) else if x =? 43 then (false, r, 1%nat) else (false, s, 0%nat)
  end.
Proof.
  destruct s as [|x r]; [reflexivity|].
  destruct x as [|p|p]; try reflexivity.
  do 6 (destruct p as [p|p|]; try reflexivity).
Qed.

Lemma frac_split_spec ip nint s2 :
  frac_split ip nint s2 =
  match s2 with
  | [] => (ip, 0%nat, s2, 0%nat)
  | x :: r =>
      if x =? 46 then
        let '(m', nf, r') := take_digits r ip 0 in
        if (nint =? 0)%nat && (nf =? 0)%nat then (ip, 0%nat, s2, 0%nat) else (m', nf, r', 1%nat)
      else (ip, 0%nat, s2, 0%nat)
  end.
Proof.
  destruct s2 as [|x r]; [reflexivity|].
  destruct x as [|p|p]; try reflexivity.
  do 6 (destruct p as [p|p|]; try reflexivity).
Qed.

(** * Digit runs *)

Definition nondigit_head (r : bytes) : Prop :=
  match r with [] => True | c :: _ => is_digit c = false end.

Lemma nondigit_head_firstn j r : nondigit_head r -> nondigit_head (firstn j r).
Proof. destruct j as [|j]; destruct r as [|c r]; cbn; auto. Qed.

Lemma take_digits_nd y acc n : nondigit_head y -> take_digits y acc n = (acc, n, y).
Proof.
  destruct y as [|c y]; cbn [take_digits nondigit_head]; intros H; [reflexivity|].
  rewrite H. reflexivity.
Qed.

Lemma take_digits_spec : forall s acc n0 v n' r,
  take_digits s acc n0 = (v, n', r) ->
  exists ds, s = ds ++ r /\ n' = (n0 + length ds)%nat /\ nondigit_head r /\
    forall y, nondigit_head y -> take_digits (ds ++ y) acc n0 = (v, n', y).
Proof.
  induction s as [|c s IH]; intros acc n0 v n' r H.
  - cbn [take_digits] in H. inversion H; subst. exists []. cbn [app length nondigit_head].
    repeat split; [lia|]. intros y Hy. apply take_digits_nd; exact Hy.
  - cbn [take_digits] in H. destruct (is_digit c) eqn:Ec.
    + apply IH in H. destruct H as [ds [Hs [Hn [Hr Hy]]]].
      exists (c :: ds). cbn [app length]. repeat split.
      * rewrite Hs at 1. reflexivity.
      * lia.
      * exact Hr.
      * intros y Hnd. cbn [take_digits]. rewrite Ec. apply Hy; exact Hnd.
    + inversion H; subst. exists []. cbn [app length nondigit_head].
      repeat split; [lia|exact Ec|]. intros y Hy. apply take_digits_nd; exact Hy.
Qed.

Lemma take_digits_firstn s acc n0 v n' r :
  take_digits s acc n0 = (v, n', r) ->
  exists d, n' = (n0 + d)%nat /\ length s = (d + length r)%nat /\ nondigit_head r /\
    forall j, take_digits (firstn (d + j) s) acc n0 = (v, n', firstn j r).
Proof.
  intros H. apply take_digits_spec in H. destruct H as [ds [Hs [Hn [Hr Hy]]]].
  exists (length ds). repeat split; try assumption.
  - rewrite Hs, app_length. reflexivity.
  - intros j. rewrite Hs, firstn_app_2. apply Hy. apply nondigit_head_firstn; exact Hr.
Qed.

(** * Sign *)

Lemma sign_split_firstn s neg s1 n :
  sign_split s = (neg, s1, n) ->
  length s = (n + length s1)%nat /\
  forall j, sign_split (firstn (n + j) s) = (neg, firstn j s1, n).
Proof.
  rewrite sign_split_spec. destruct s as [|x r].
  - intros H; inversion H; subst. split; [reflexivity|]. intros j.
    rewrite !firstn_nil. reflexivity.
  - destruct (x =? 45) eqn:E45; [|destruct (x =? 43) eqn:E43]; intros H; inversion H; subst.
    + split; [reflexivity|]. intros j. cbn [Nat.add firstn]. rewrite sign_split_spec, E45. reflexivity.
    + split; [reflexivity|]. intros j. cbn [Nat.add firstn]. rewrite sign_split_spec, E45, E43. reflexivity.
    + split; [reflexivity|]. intros j. cbn [Nat.add]. destruct j as [|j]; cbn [firstn]; [reflexivity|].
      rewrite sign_split_spec, E45, E43. reflexivity.
Qed.

(* any truncation: the remainder is a truncation of the remainder *)
Lemma sign_split_firstn_any s neg s1 n :
  sign_split s = (neg, s1, n) ->
  forall j, exists neg' j' n', sign_split (firstn j s) = (neg', firstn j' s1, n').
Proof.
  rewrite sign_split_spec. destruct s as [|x r].
  - intros H; inversion H; subst. intros j. exists false, 0%nat, 0%nat. rewrite !firstn_nil. reflexivity.
  - intros H j. destruct j as [|j].
    + exists false, 0%nat, 0%nat. reflexivity.
    + cbn [firstn]. rewrite sign_split_spec.
      destruct (x =? 45) eqn:E45; [|destruct (x =? 43) eqn:E43]; inversion H; subst.
      * exists true, j, 1%nat. reflexivity.
      * exists false, j, 1%nat. reflexivity.
      * exists false, (S j), 0%nat. reflexivity.
Qed.

(** * Fraction *)

Lemma frac_split_firstn ip nint s2 m nfrac s3 ndot :
  frac_split ip nint s2 = (m, nfrac, s3, ndot) ->
  length s2 = (ndot + nfrac + length s3)%nat /\
  forall j, frac_split ip nint (firstn (ndot + nfrac + j) s2) = (m, nfrac, firstn j s3, ndot).
Proof.
  rewrite frac_split_spec. destruct s2 as [|x r].
  - intros H; inversion H; subst. split; [reflexivity|]. intros j. rewrite !firstn_nil. reflexivity.
  - destruct (x =? 46) eqn:E46.
    + destruct (take_digits r ip 0) as [[m' nf] r'] eqn:Etd.
      apply take_digits_spec in Etd. destruct Etd as [ds [Hs [Hnf [Hnd Hy]]]].
      cbn [Nat.add] in Hnf. subst nf.
      destruct ((nint =? 0)%nat && (length ds =? 0)%nat) eqn:Ez; intros H; inversion H; subst.
      * split; [reflexivity|]. intros j. cbn [Nat.add]. destruct j as [|j]; cbn [firstn]; [reflexivity|].
        rewrite frac_split_spec, E46.
        apply andb_true_iff in Ez. destruct Ez as [E0 Ed]. apply Nat.eqb_eq in Ed.
        destruct ds as [|c ds]; [|discriminate Ed]. cbn [app].
        rewrite (take_digits_nd _ _ 0%nat (nondigit_head_firstn j _ Hnd)).
        rewrite E0. reflexivity.
      * split; [cbn [length]; rewrite app_length; lia|]. intros j.
        match goal with |- context [firstn ?n (x :: ds ++ s3)] => replace n with (S (length ds + j)) by lia end. cbn [firstn].
        rewrite frac_split_spec, E46, firstn_app_2, (Hy _ (nondigit_head_firstn j _ Hnd)), Ez. reflexivity.
    + intros H; inversion H; subst. split; [reflexivity|]. intros j. cbn [Nat.add].
      destruct j as [|j]; cbn [firstn]; [reflexivity|]. rewrite frac_split_spec, E46. reflexivity.
Qed.

(** * Exponent *)

Lemma exp_split_firstn s3 e nexp :
  exp_split s3 = (e, nexp) ->
  (nexp <= length s3)%nat /\
  forall j, exp_split (firstn (nexp + j) s3) = (e, nexp).
Proof.
  destruct s3 as [|c r]; cbn [exp_split].
  - intros H; inversion H; subst. split; [cbn; lia|]. intros j. rewrite firstn_nil. reflexivity.
  - destruct ((c =? 101) || (c =? 69)) eqn:Ee.
    + destruct (sign_split r) as [[eneg r1] nes] eqn:Esg.
      destruct (take_digits r1 0 0) as [[ev ne] r2] eqn:Etd.
      apply take_digits_spec in Etd. destruct Etd as [ds [Hs [Hne [Hnd Hy]]]].
      cbn [Nat.add] in Hne. subst ne.
      destruct (length ds =? 0)%nat eqn:Ez; intros H; inversion H; subst e nexp.
      * split; [cbn; lia|]. intros j. cbn [Nat.add]. destruct j as [|j]; cbn [firstn exp_split]; [reflexivity|].
        rewrite Ee.
        destruct (sign_split_firstn_any _ _ _ _ Esg j) as [neg' [j' [n' Hsg']]]. rewrite Hsg'.
        apply Nat.eqb_eq in Ez. destruct ds as [|c0 ds]; [|discriminate Ez]. cbn [app] in Hs. subst r1.
        rewrite (take_digits_nd _ 0 0%nat (nondigit_head_firstn j' _ Hnd)). reflexivity.
      * apply sign_split_firstn in Esg. destruct Esg as [Hlen Hsg].
        split; [cbn [length]; rewrite Hlen, Hs, app_length; lia|]. intros j.
        match goal with |- context [firstn ?n (c :: r)] => replace n with (S (nes + (length ds + j))) by lia end.
        cbn [firstn exp_split]. rewrite Ee, Hsg, Hs, firstn_app_2, (Hy _ (nondigit_head_firstn j _ Hnd)), Ez.
        reflexivity.
    + intros H; inversion H; subst. split; [cbn; lia|]. intros j. cbn [Nat.add].
      destruct j as [|j]; cbn [firstn exp_split]; [reflexivity|]. rewrite Ee. reflexivity.
Qed.

(** * The contract *)

Lemma strtod_ref_both s d k :
  strtod_ref s = Some (d, k) -> (0 < k <= length s)%nat /\ strtod_ref (firstn k s) = Some (d, k).
Proof.
  rewrite (strtod_ref_alt s). unfold strtod_alt at 1.
  destruct (sign_split s) as [[neg s1] nsign] eqn:Esg.
  destruct (take_digits s1 0 0) as [[ip nint] s2] eqn:Etd.
  destruct (frac_split ip nint s2) as [[[m nfrac] s3] ndot] eqn:Efr.
  destruct (nint + nfrac =? 0)%nat eqn:Ez; [discriminate|].
  destruct (exp_split s3) as [e nexp] eqn:Eex.
  intros H. injection H as Hd Hk.
  assert (Hnz : (nint + nfrac)%nat <> 0%nat) by (apply Nat.eqb_neq; exact Ez).
  apply sign_split_firstn in Esg. destruct Esg as [Ls Hsg].
  apply take_digits_firstn in Etd. destruct Etd as [dd [Hdd [L1 [_ Htd]]]].
  cbn [Nat.add] in Hdd. subst dd.
  apply frac_split_firstn in Efr. destruct Efr as [L2 Hfr].
  apply exp_split_firstn in Eex. destruct Eex as [L3 Hex].
  split; [lia|].
  assert (Hfn : firstn k s = firstn (nsign + (nint + (ndot + nfrac + (nexp + 0)))) s)
    by (f_equal; lia).
  rewrite (strtod_ref_alt (firstn k s)). unfold strtod_alt.
  rewrite Hfn, Hsg, Htd, Hfr, Hex, Ez, Hd, Hk. reflexivity.
Qed.

Lemma strtod_ref_ok : strtod_ok strtod_ref.
Proof. intros s d k H. apply (strtod_ref_both s d k H). Qed.

Lemma strtod_ref_stable : strtod_stable strtod_ref.
Proof. intros s d k H. apply (strtod_ref_both s d k H). Qed.

Lemma strtod_ref_contract : strtod_ok strtod_ref /\ strtod_stable strtod_ref.
Proof. split; [exact strtod_ref_ok | exact strtod_ref_stable]. Qed.

(* non-vacuity: "-1.5e+2x" converts, consuming 7 bytes; "1e+" consumes only the "1" *)
Example strtod_ref_example :
  (exists d, strtod_ref [45;49;46;53;101;43;50;120] = Some (d, 7%nat)) /\
  (exists d, strtod_ref [49;101;43] = Some (d, 1%nat)) /\
  strtod_ref [46;101;53] = None.
Proof. repeat split; try eexists; vm_compute; reflexivity. Qed.

Print Assumptions strtod_ref_contract.
