(** CoreHistoryAllRefuse.v — REFUSED calls of the alphabet leave the abstract state unchanged
    (the whole state: forest, allocator counters, string heap, caller blocks), and the names of
    the alphabet are the public API functions ([api_names], by conversion). *)
From CJ Require Import Base Dbl Heap Forest ForestLemmas CoreSpec CoreDefs CoreRefineBase CoreRefine
  CoreRefineDelete CoreRefineReplace CoreRefineMore CoreRefineFrame CoreRefineHistory CoreRefineObject
  CoreRefineByKey CoreRefineAddObject CoreRefineHistoryObj CoreRefineHistoryObjEx CoreRefineCreate
  CoreLedgerGen CoreHistoryAllSteps CoreHistoryAllNull CoreHistoryAll.
From CJ.gen Require Import Constants.
From stdpp Require Import gmap.
Implicit Types (h : heap) (F : forest) (d : rdata).
Local Open Scope Z_scope.


(** a call of the array alphabet whose list model keeps the forest keeps the whole state *)
Lemma s2_arr_unchanged S o r :
  spec_step nv (a_st S) o = (a_st S, r) -> spec_step3 S (O2 (OArr o)) = (S, R r).
Proof.
  intros H. cbn [spec_step3]. unfold s2, spec_step2. rewrite H. cbn [fst snd]. unfold a_forest. rewrite strs_gc_refl.
  by destruct S.
Qed.

(** NULL argument / the container itself as item *)
Lemma refused_add_to_array S a i :
  a = None \/ i = None \/ a = i -> spec_step3 S (O2 (OArr (OAdd a i))) = (S, R (RBool false)).
Proof.
  intros H. apply s2_arr_unchanged. cbn [spec_step].
  destruct (add_item_to_array_refused (as_forest (a_st S)) a i empty_heap H) as [-> _]. by rewrite keep_same.
Qed.
(** negative index, NULL item, INSERTING A CONTAINER INTO ITSELF *)
Lemma refused_insert S a w n :
  w < 0 \/ n = None \/ a = n -> spec_step3 S (O2 (OArr (OInsert a w n))) = (S, R (RBool false)).
Proof.
  intros H. apply s2_arr_unchanged. cbn [spec_step].
  destruct (cJSON_InsertItemInArray_refused (as_forest (a_st S)) a w n empty_heap H) as [-> _]. by rewrite keep_same.
Qed.
Lemma refused_detach_null S pa it :
  pa = None \/ it = None -> spec_step3 S (O2 (OArr (ODetach pa it))) = (S, R (RPtr None)).
Proof.
  intros H. apply s2_arr_unchanged. cbn [spec_step].
  destruct (cJSON_DetachItemViaPointer_null (as_forest (a_st S)) pa it empty_heap H) as [-> _]. by rewrite keep_same.
Qed.
(** INDEX OUT OF RANGE *)
Lemma refused_detach_index h S p dp cs w :
  Abs3 h S -> find_tree p (a_forest S) = Some (T p dp cs) -> is_ref dp = false ->
  w < 0 \/ (length cs <= Z.to_nat w)%nat ->
  spec_step3 S (O2 (OArr (ODetachIdx (Some p) w))) = (S, R (RPtr None)).
Proof.
  intros [((W & _) & _) _] Hp Hr H. apply s2_arr_unchanged. cbn [spec_step].
  destruct (cJSON_DetachItemFromArray_refused h _ p dp cs w W Hp Hr H) as [-> _]. by rewrite keep_same.
Qed.
Lemma refused_replace S pa it rp h dp cs p :
  Abs3 h S -> pa = Some p -> find_tree p (a_forest S) = Some (T p dp cs) -> is_ref dp = false ->
  cs = [] \/ it = None \/ rp = None ->
  spec_step3 S (O2 (OArr (OReplace pa it rp))) = (S, R (RBool false)).
Proof.
  intros [((W & _) & _) _] -> Hp Hr H. apply s2_arr_unchanged. cbn [spec_step].
  destruct (cJSON_ReplaceItemViaPointer_refused h _ p dp cs it rp W Hp Hr H) as [-> _]. by rewrite keep_same.
Qed.
Lemma refused_add_to_object S ob n i ck :
  ob = None \/ n = None \/ i = None \/ ob = i ->
  spec_step3 S (O2 (OAddObj ob n i ck)) = (S, R (RBool false)).
Proof.
  intros H. cbn [spec_step3]. unfold s2. cbn [spec_step2].
  destruct ob as [p|], n as [nb|], i as [x|]; try done.
  destruct H as [?|[?|[?|Heq]]]; try done. injection Heq as ->. by rewrite decide_True.
Qed.
(** MISSING KEY: lookup NULL, detach / delete refused *)
Lemma refused_detach_missing_key S ob n cs :
  spec_get_key (a_str S) (a_forest S) ob n cs = None ->
  spec_step3 S (O2 (ODetachKey ob n cs)) = (S, R (RPtr None)) /\
  spec_step3 S (O2 (ODeleteKey ob n cs)) = (S, R RUnit).
Proof.
  intros H. cbn [spec_step3]. unfold s2. cbn [spec_step2]. unfold spec_delete_key, spec_detach_key. rewrite H.
  assert (E : spec_detach (a_forest S) ob None = (a_forest S, None)) by (unfold spec_detach; by destruct ob).
  rewrite E. cbn [spec_delete fst snd]. unfold with_forest. rewrite strs_gc_refl. unfold a_forest. rewrite keep_same.
  by destruct S.
Qed.
Lemma refused_replace_in_object S ob n r cs :
  r = None \/ n = None -> spec_step3 S (OReplaceItemInObject ob n r cs) = (S, R (RBool false)).
Proof.
  intros H. cbn [spec_step3]. unfold spec_replace_key3. destruct ob, n, r; try done; by destruct H.
Qed.
Lemma refused_add_reference S (i ob n : ptr) :
  spec_step3 S (OAddItemReferenceToArray None i) = (S, R (RBool false)) /\
  (ob = None \/ n = None -> spec_step3 S (OAddItemReferenceToObject ob n i) = (S, R (RBool false))).
Proof.
  split; [done|]. intros H. cbn [spec_step3]. destruct ob, n; try done; by destruct H.
Qed.
Lemma refused_bulk S c :
  spec_step3 S (OCreateIntArray None c) = (S, R (RPtr None)) /\
  spec_step3 S (OCreateStringArray None c) = (S, R (RPtr None)) /\
  (forall l, c < 0 -> spec_step3 S (OCreateDoubleArray (Some l) c) = (S, R (RPtr None))).
Proof.
  split; [done|]. split; [done|]. intros l Hc. cbn [spec_step3]. unfold spec_bulk.
  destruct (Z.ltb_spec c 0); [done|lia].
Qed.

(** * the names of the alphabet ARE the public API functions (definitional) *)
Lemma api_names :
  (forall ty, run_op3 (O2 (OArr (OCreate ty))) = (r <~ (q <~ create_with_type nv ty ;; ret (RPtr q)) ;; ret (R r))) /\
  cJSON_CreateNull nv = create_with_type nv c_cJSON_NULL /\
  cJSON_CreateTrue nv = create_with_type nv c_cJSON_True /\
  cJSON_CreateFalse nv = create_with_type nv c_cJSON_False /\
  (forall b, cJSON_CreateBool nv b = create_with_type nv (if b then c_cJSON_True else c_cJSON_False)) /\
  cJSON_CreateArray nv = create_with_type nv c_cJSON_Array /\
  cJSON_CreateObject nv = create_with_type nv c_cJSON_Object /\
  (forall a i, run_op3 (O2 (OArr (OAdd a i))) = (r <~ (b <~ cJSON_AddItemToArray a i ;; ret (RBool b)) ;; ret (R r))) /\
  (forall ob n i, run_op3 (O2 (OAddObj ob n i false)) = (r <~ (b <~ cJSON_AddItemToObject nv ob n i ;; ret (RBool b)) ;; ret (R r))) /\
  (forall ob n i, run_op3 (O2 (OAddObj ob n i true)) = (r <~ (b <~ cJSON_AddItemToObjectCS nv ob n i ;; ret (RBool b)) ;; ret (R r))) /\
  (forall ob n, run_op3 (O2 (OGetKey ob n false)) = (r <~ (q <~ cJSON_GetObjectItem ob n ;; ret (RPtr q)) ;; ret (R r))) /\
  (forall ob n, run_op3 (O2 (OGetKey ob n true)) = (r <~ (q <~ cJSON_GetObjectItemCaseSensitive ob n ;; ret (RPtr q)) ;; ret (R r))) /\
  (forall ob n, run_op3 (O2 (ODetachKey ob n false)) = (r <~ (q <~ cJSON_DetachItemFromObject ob n ;; ret (RPtr q)) ;; ret (R r))) /\
  (forall ob n, run_op3 (O2 (ODetachKey ob n true)) =
                (r <~ (q <~ cJSON_DetachItemFromObjectCaseSensitive ob n ;; ret (RPtr q)) ;; ret (R r))) /\
  (forall ob n, run_op3 (O2 (ODeleteKey ob n false)) = (r <~ (cJSON_DeleteItemFromObject ob n ;;; ret RUnit) ;; ret (R r))) /\
  (forall ob n, run_op3 (O2 (ODeleteKey ob n true)) =
                (r <~ (cJSON_DeleteItemFromObjectCaseSensitive ob n ;;; ret RUnit) ;; ret (R r))) /\
  (forall ob n i, run_op3 (OReplaceItemInObject ob n i false) = (b <~ cJSON_ReplaceItemInObject nv ob n i ;; ret (R (RBool b)))) /\
  (forall ob n i, run_op3 (OReplaceItemInObject ob n i true) =
                  (b <~ cJSON_ReplaceItemInObjectCaseSensitive nv ob n i ;; ret (R (RBool b)))) /\
  (forall ob n, run_op3 (OAddToObject KNull ob n) = (q <~ cJSON_AddNullToObject nv ob n ;; ret (R (RPtr q)))) /\
  (forall ob n s, run_op3 (OAddToObject (KString s) ob n) = (q <~ cJSON_AddStringToObject nv ob n s ;; ret (R (RPtr q)))).
Proof. repeat split. Qed.

(** every represented heap encodes the forest of its abstract state *)
Lemma Abs3_WF h S : Abs3 h S -> WF h (a_forest S).
Proof. intros HA. exact (proj1 (proj1 (proj1 HA))). Qed.
