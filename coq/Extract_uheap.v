(** Extract_uheap.v — extraction of the HEAP-LEVEL transliterations of the cJSON_Utils entry points (area
    "uheap"): they are executed on the memory model of Heap.v against the real library, comparing results,
    resulting trees and the allocator ledger.  Only ExtrOcamlBasic is used; Z, positive, nat, spec_float and
    std++'s gmap stay extracted Coq datatypes.  Monolithic extraction: one file, no module aliases (name
    clashes between files are resolved by the extraction itself; ocaml/h_uheap.ml uses the names of
    model_uheap.mli). *)
Require Import ExtrOcamlBasic.
From CJ Require Import Base Dbl Tree Heap CoreDefs CoreOps.
From CJ Require SortDefs MergeHeapDefs GenMergeHeapDefs PatchHeapDefs PatchHeapApplyDefs GenPatchHeapDefs PointerHeapDefs CompareHeapDefs.
Extraction Language OCaml.
Extraction "model_uheap.ml"
  Base.cstr Dbl.sf_of_bits Dbl.bits_of_sf Tree.node_size
  (* the memory model: building trees block by block (as harness/impl_driver.c's build_node does), reading them back, the ledger *)
  Heap.empty_heap Heap.alloc_node Heap.alloc_bytes Heap.foreign_bytes Heap.st_dat Heap.st_lnk Heap.ld_cstr Heap.lib_live
  CoreDefs.heap_fuel CoreDefs.cJSON_Delete CoreDefs.cJSON_free
  CoreOps.dump_node CoreOps.dump_depth CoreOps.live_count CoreOps.err_name
  MergeHeapDefs.nofail
  (* the heap-level utility entry points *)
  SortDefs.cJSONUtils_SortObject SortDefs.cJSONUtils_SortObjectCaseSensitive
  MergeHeapDefs.cJSONUtils_MergePatch MergeHeapDefs.cJSONUtils_MergePatchCaseSensitive
  GenMergeHeapDefs.cJSONUtils_GenerateMergePatch GenMergeHeapDefs.cJSONUtils_GenerateMergePatchCaseSensitive
  PatchHeapApplyDefs.cJSONUtils_ApplyPatches PatchHeapApplyDefs.cJSONUtils_ApplyPatchesCaseSensitive
  GenPatchHeapDefs.cJSONUtils_GeneratePatches GenPatchHeapDefs.cJSONUtils_GeneratePatchesCaseSensitive
  PatchHeapDefs.cJSONUtils_GetPointer PatchHeapDefs.cJSONUtils_GetPointerCaseSensitive
  PointerHeapDefs.cJSONUtils_FindPointerFromObjectTo
  CompareHeapDefs.cJSON_Compare.
