(** CoreHistoryFailHist.v — C08 FOR HISTORIES: for EVERY allocation schedule [o : nat -> bool] and every
    finite history accepted step by step by the (unchanged) rule checker [pre_ok3b] against the
    abstract state actually reached,

    * running the transliterated code from the empty heap never yields an error outcome (no memory
      error, no fuel exhaustion): [run_ops3o o ops empty_heap = Ret (...)];
    * every call returns the list model's result, and the model's step is one of TWO:
      the NORMAL step of the never-failing list model, taken iff the schedule grants every request the
      failure-free call makes, or the REFUSED step: documented failure value, abstract forest, string
      heap and caller blocks unchanged ([step_branch], from [CoreHistoryFailSpec.spec_step3o_fail]);
    * the representation [Abs3] and the exact ledger (live library blocks = blocks owned by the
      forest) hold after every call; over a refused call the node maps, the string map and the set
      of live library blocks of the heap are EQUAL to what they were before the call (nothing
      allocated during the call remains allocated, no pre-existing tree is modified);
    * deleting the remaining roots ends with no live library block.

    [fail_kth] corollary, and a concrete 19-call history under a schedule that refuses two requests. *)
From CJ Require Import Base Dbl Heap Forest ForestLemmas CoreSpec CoreDefs CoreRefineBase CoreRefine
  CoreRefineDelete CoreRefineReplace CoreRefineMore CoreRefineFrame CoreRefineHistory CoreRefineObject
  CoreRefineByKey CoreRefineAddObject CoreRefineHistoryObj CoreRefineHistoryObjEx CoreRefineReplaceKey
  CoreRefineReplaceKeyAbs CoreRefineCreate CoreRefineSet CoreRefineRef CoreRefineArray CoreLedgerGen CoreHistoryAllSteps
  CoreHistoryAllArr CoreHistoryAllArrStep CoreHistoryAllNull CoreHistoryAll CoreLedgerAll CoreHistoryAllEx
  CoreHistoryFailSteps CoreHistoryFailArr CoreHistoryFail CoreHistoryFailSpec.
From CJ Require CoreOps.
From CJ.gen Require Import Constants.
From Coq Require Import Floats.SpecFloat.
From stdpp Require Import gmap.
Implicit Types (h : heap) (F : forest) (d : rdata).
Local Open Scope Z_scope.

(** which of the two steps the model takes *)
Definition step_branch (o : nat -> bool) (S : astate2) (op : op3) (S' : astate2) (r : res3) : Prop :=
  match first_refusal o (req S) (nreq3 S op) with
  | None => (S', r) = spec_step3 S op
  | Some j => S' = refused_state S j /\ r = fail_res3 op
  end.

(** the refused state: only the counters differ *)
Lemma refused_state_same S j :
  a_forest (refused_state S j) = a_forest S /\ a_str (refused_state S j) = a_str S /\
  a_foreign (refused_state S j) = a_foreign S /\ req (refused_state S j) = Datatypes.S j.
Proof. done. Qed.

(** two heaps that represent the same forest and strings agree on nodes, strings and the ledger *)
Lemma refused_heap_unchanged h h' S j :
  Abs3 h S -> Abs3 h' (refused_state S j) ->
  h_lnk h' = h_lnk h /\ h_dat h' = h_dat h /\ h_str h' = h_str h /\ lib_live h' = lib_live h.
Proof.
  intros HA HA'. pose proof HA as [((W & _) & Hs & _) _]. pose proof HA' as [((W' & _) & Hs' & _) _].
  split_and!.
  - rewrite (wf_lnk _ _ W'), (wf_lnk _ _ W). done.
  - rewrite (wf_dat _ _ W'), (wf_dat _ _ W). done.
  - by rewrite Hs', Hs.
  - apply set_eq. intros b. rewrite (Abs3_ledger _ _ HA'), (Abs3_ledger _ _ HA). done.
Qed.

Section Hist.
  Variable o : nat -> bool.

  (** ONE call from any represented state *)
  Theorem call_fail h S op :
    Abs3 h S -> pre_ok3 S op ->
    let S' := (spec_step3o o S op).1 in let r := (spec_step3o o S op).2 in
    exists h',
      run_op3o o op h = Ret (r, h') /\ Abs3 h' S' /\
      (forall b, b ∈ lib_live h' <-> b ∈ owned (a_forest S')) /\
      step_branch o S op S' r /\
      (forall j, first_refusal o (req S) (nreq3 S op) = Some j ->
         h_lnk h' = h_lnk h /\ h_dat h' = h_dat h /\ h_str h' = h_str h /\ lib_live h' = lib_live h).
  Proof.
    intros HA Hpre S' r. destruct (step_sim3o o h S op HA Hpre) as (h' & E & HA'). exists h'.
    pose proof (spec_step3o_fail o h S op HA Hpre) as Hf. unfold spec_step_fail in Hf.
    split_and!; [done|done|by apply Abs3_ledger| |].
    - unfold step_branch, S', r. revert Hf. destruct (first_refusal o (req S) (nreq3 S op)) as [j|]; intros ->; [done|].
      by destruct (spec_step3 S op).
    - intros j Hj. rewrite Hj in Hf. apply (refused_heap_unchanged h h' S j HA). unfold S' in HA'. by rewrite Hf in HA'.
  Qed.

  (** EVERY call of an accepted history *)
  Theorem history_fail_every_call ops1 op ops2 :
    pre_ok_all3o o S0 (ops1 ++ op :: ops2) ->
    let S := spec_run3o o S0 ops1 in
    let S' := (spec_step3o o S op).1 in let r := (spec_step3o o S op).2 in
    exists h h',
      run_ops3o o ops1 empty_heap = Ret (spec_results3o o S0 ops1, h) /\ Abs3 h S /\
      run_op3o o op h = Ret (r, h') /\ Abs3 h' S' /\
      (forall b, b ∈ lib_live h' <-> b ∈ owned (a_forest S')) /\
      step_branch o S op S' r /\
      (forall j, first_refusal o (req S) (nreq3 S op) = Some j ->
         h_lnk h' = h_lnk h /\ h_dat h' = h_dat h /\ h_str h' = h_str h /\ lib_live h' = lib_live h).
  Proof.
    intros Hpre S S' r. destruct (pre_ok_all3o_app o _ _ _ Hpre) as [H1 [H2 _]].
    destruct (history3o_from_empty o ops1 H1) as (h & E & HA). fold S in HA, H2.
    destruct (call_fail h S op HA H2) as (h' & H'). exists h, h'. split; [exact E|]. split; [exact HA|]. exact H'.
  Qed.

  Corollary history_fail_every_call_checked ops1 op ops2 :
    pre_ok_all3ob o S0 (ops1 ++ op :: ops2) = true ->
    let S := spec_run3o o S0 ops1 in
    let S' := (spec_step3o o S op).1 in let r := (spec_step3o o S op).2 in
    exists h h',
      run_ops3o o ops1 empty_heap = Ret (spec_results3o o S0 ops1, h) /\ Abs3 h S /\
      run_op3o o op h = Ret (r, h') /\ Abs3 h' S' /\
      (forall b, b ∈ lib_live h' <-> b ∈ owned (a_forest S')) /\
      step_branch o S op S' r /\
      (forall j, first_refusal o (req S) (nreq3 S op) = Some j ->
         h_lnk h' = h_lnk h /\ h_dat h' = h_dat h /\ h_str h' = h_str h /\ lib_live h' = lib_live h).
  Proof. intros H. apply (history_fail_every_call ops1 op ops2). by apply pre_ok_all3ob_sound. Qed.

  (** the whole history, then the clean-up *)
  Theorem history_fail_balanced ops :
    pre_ok_all3ob o S0 ops = true ->
    let S1 := spec_run3o o S0 ops in
    exists h1 h2,
      run_ops3o o ops empty_heap = Ret (spec_results3o o S0 ops, h1) /\
      Abs3 h1 S1 /\
      (forall b, b ∈ lib_live h1 <-> b ∈ owned (a_forest S1)) /\
      delete_roots (roots (a_forest S1)) h1 = Ret (tt, h2) /\
      lib_live h2 = ∅ /\ lib_live empty_heap = ∅ /\
      (forall b, h_own h1 !! b = Some Foreign -> b ∈ h_live h1 -> b ∈ h_live h2 /\ h_str h2 !! b = h_str h1 !! b).
  Proof.
    intros Hpre S1. destruct (history3o_checked o ops Hpre) as (h1 & E1 & HA1). fold S1 in HA1.
    destruct (delete_roots_sim (a_forest S1) S1 h1 eq_refl HA1) as (h2 & S2 & E2 & HA2 & _ & HL2).
    exists h1, h2. refine (conj E1 (conj HA1 (conj _ (conj E2 (conj HL2 (conj lib_live_empty _)))))).
    - by apply Abs3_ledger.
    - intros b Ho Hl. apply (cp_foreign _ _ (Cons_delete_roots _ _ _ _ E2 (proj2 HA1)) b Ho Hl).
  Qed.
End Hist.

(** * a single failing request: [CoreOps.fail_kth k] refuses request number k - 1 (k = 0: none) *)
Lemma first_refusal_kth k a n :
  first_refusal (CoreOps.fail_kth (Datatypes.S k)) a n = if (a <=? k)%nat && (k <? a + n)%nat then Some k else None.
Proof.
  revert a. induction n as [|n IH]; intros a; cbn [first_refusal].
  - destruct (Nat.leb_spec a k), (Nat.ltb_spec k (a + 0)); try done. lia.
  - cbn [CoreOps.fail_kth]. destruct (Nat.eqb_spec a k) as [->|Hne].
    + rewrite Nat.leb_refl. destruct (Nat.ltb_spec k (k + Datatypes.S n)); [done|lia].
    + rewrite IH. destruct (Nat.leb_spec (Datatypes.S a) k), (Nat.leb_spec a k), (Nat.ltb_spec k (Datatypes.S a + n)),
        (Nat.ltb_spec k (a + Datatypes.S n)); try done; lia.
Qed.
Lemma first_refusal_kth0 a n : first_refusal (CoreOps.fail_kth 0) a n = None.
Proof. by apply first_refusal_None. Qed.

(** the call during which request [k] would be made is refused at [k]; every other call is normal *)
Corollary step_fail_kth h S op k :
  Abs3 h S -> pre_ok3 S op ->
  spec_step3o (CoreOps.fail_kth (Datatypes.S k)) S op =
  if (req S <=? k)%nat && (k <? req S + nreq3 S op)%nat then (refused_state S k, fail_res3 op) else spec_step3 S op.
Proof.
  intros HA Hpre. rewrite (spec_step3o_fail _ h S op HA Hpre). unfold spec_step_fail. rewrite first_refusal_kth.
  by destruct (_ && _).
Qed.
Corollary history_fail_kth k ops :
  pre_ok_all3ob (CoreOps.fail_kth k) S0 ops = true ->
  let o := CoreOps.fail_kth k in
  let S1 := spec_run3o o S0 ops in
  exists h1 h2,
    run_ops3o o ops empty_heap = Ret (spec_results3o o S0 ops, h1) /\ Abs3 h1 S1 /\
    (forall b, b ∈ lib_live h1 <-> b ∈ owned (a_forest S1)) /\
    delete_roots (roots (a_forest S1)) h1 = Ret (tt, h2) /\ lib_live h2 = ∅.
Proof.
  intros Hpre o S1. destruct (history_fail_balanced o ops Hpre) as (h1 & h2 & H1 & H2 & H3 & H4 & H5 & _).
  exists h1, h2. done.
Qed.

(** * non-vacuity: a history of 19 calls under a schedule that refuses requests 4 and 9 *)
Definition ex8 : list op3 :=
  [O2 (OForeign str_k1);                                    (* 1: caller string "k1" *)
   O2 (OForeign str_K1);                                    (* 2: caller string "K1" *)
   A (OCreate 64);                                          (* request 0: object 3 *)
   OCreateString (Some 1);                                  (* requests 1, 2: string node 4, copy 5 *)
   O2 (OAddObj (Some 3) (Some 1) (Some 4) false);           (* request 3: owned key 6: {"k1": "k1"} *)
   OAddToObject (KNumber (dbl_of_int 1)) (Some 3) (Some 2); (* request 4 REFUSED: the number node; NULL, nothing changes *)
   OAddToObject (KNumber (dbl_of_int 1)) (Some 3) (Some 2); (* requests 5, 6: node 7, key copy 8: "K1": 1 *)
   A (OCreate 2);                                           (* request 7: true, node 9 *)
   O2 (OAddObj (Some 3) (Some 2) (Some 9) true);            (* constant key: block 2 itself *)
   OAddItemReferenceToObject (Some 3) (Some 1) (Some 9);    (* request 8: reference node 10; request 9 REFUSED: the copy
                                                               of the name — the node is deleted again; false *)
   OAddItemReferenceToObject (Some 3) (Some 1) (Some 9);    (* requests 10, 11: reference 11 to node 9, key copy 12 *)
   OCreateString (Some 2);                                  (* requests 12, 13: string node 13, copy 14 *)
   OReplaceItemInObject (Some 3) (Some 2) (Some 13) true;   (* request 14: key copy 15; replaces the first member "K1" (node 7, deleted) *)
   OSetValuestring (Some 4) (Some 2);                       (* "K1" fits into "k1": in place, no request *)
   O2 (OForeign [108; 111; 110; 103; 101; 114; 0]%Z);         (* 16: caller string "longer" *)
   OSetValuestring (Some 4) (Some 16);                      (* request 15: grows: new block 17, old block 5 released *)
   OCreateIntArray (Some [1; 2]%Z) 2;                       (* requests 16-18: array 18, elements 19 20 *)
   O2 (OGetKey (Some 3) (Some 2) true);                     (* exact "K1": the replacement 13 *)
   A (OSize (Some 3))]%positive.

Definition ex8_oracle : nat -> bool := fun k => Nat.eqb k 4 || Nat.eqb k 9.

Lemma ex8_accepted : pre_ok_all3ob ex8_oracle S0 ex8 = true.
Proof. vm_compute. reflexivity. Qed.

(** the model's results: NULL at the refused helper, false at the refused reference, the normal results elsewhere *)
Lemma ex8_results :
  spec_results3o ex8_oracle S0 ex8 =
  [R (RPtr (Some 1)); R (RPtr (Some 2)); R (RPtr (Some 3)); R (RPtr (Some 4)); R (RBool true);
   R (RPtr None); R (RPtr (Some 7)); R (RPtr (Some 9)); R (RBool true);
   R (RBool false); R (RBool true); R (RPtr (Some 13)); R (RBool true); R (RPtr (Some 5));
   R (RPtr (Some 16)); R (RPtr (Some 17)); R (RPtr (Some 18)); R (RPtr (Some 13)); R (RInt 4)]%positive.
Proof. vm_compute. reflexivity. Qed.

(** both branches occur: which call is refused at which request *)
Fixpoint branches (o : nat -> bool) (S : astate2) (ops : list op3) : list (option nat) :=
  match ops with
  | [] => []
  | op :: r => first_refusal o (req S) (nreq3 S op) :: branches o (spec_step3o o S op).1 r
  end.
Lemma ex8_branches :
  branches ex8_oracle S0 ex8 =
  [None; None; None; None; None; Some 4%nat; None; None; None; Some 9%nat; None; None; None; None; None; None; None; None; None].
Proof. vm_compute. reflexivity. Qed.

(** the refused calls leave the abstract forest and the strings as they were *)
Lemma ex8_refused_unchanged :
  let S5 := spec_run3o ex8_oracle S0 (take 5 ex8) in let S6 := spec_run3o ex8_oracle S0 (take 6 ex8) in
  let S9 := spec_run3o ex8_oracle S0 (take 9 ex8) in let S10 := spec_run3o ex8_oracle S0 (take 10 ex8) in
  a_forest S6 = a_forest S5 /\ map_to_list (a_str S6) = map_to_list (a_str S5) /\
  a_forest S10 = a_forest S9 /\ map_to_list (a_str S10) = map_to_list (a_str S9) /\
  (nxt S5, req S5, nxt S6, req S6) = (7%positive, 4%nat, 7%positive, 5%nat) /\
  (nxt S9, req S9, nxt S10, req S10) = (10%positive, 8%nat, 11%positive, 10%nat).
Proof. vm_compute. done. Qed.

(** the transliterated code, RUN under the schedule: the results are the model's *)
Definition results_of {X} (m : M X) (h : heap) : option X := match m h with Ret (x, _) => Some x | Err _ => None end.
Lemma ex8_run_results : results_of (run_ops3o ex8_oracle ex8) empty_heap = Some (spec_results3o ex8_oracle S0 ex8).
Proof. vm_compute. reflexivity. Qed.

Lemma ex8_roots : roots (a_forest (spec_run3o ex8_oracle S0 ex8)) = [3; 18]%positive.
Proof. vm_compute. reflexivity. Qed.
(** … and after cJSON_Delete of the two remaining roots no library block is live; the three caller strings are *)
Lemma ex8_run_balanced :
  ledger_after (run_ops3o ex8_oracle ex8 ;;; delete_roots [3; 18]%positive) empty_heap = Some ([], [1; 2; 16]%positive).
Proof. vm_compute. reflexivity. Qed.

Corollary ex8_history :
  exists h1 h2,
    run_ops3o ex8_oracle ex8 empty_heap = Ret (spec_results3o ex8_oracle S0 ex8, h1) /\
    Abs3 h1 (spec_run3o ex8_oracle S0 ex8) /\
    (forall b, b ∈ lib_live h1 <-> b ∈ owned (a_forest (spec_run3o ex8_oracle S0 ex8))) /\
    delete_roots (roots (a_forest (spec_run3o ex8_oracle S0 ex8))) h1 = Ret (tt, h2) /\
    lib_live h2 = ∅ /\ lib_live empty_heap = ∅ /\
    (forall b, h_own h1 !! b = Some Foreign -> b ∈ h_live h1 -> b ∈ h_live h2 /\ h_str h2 !! b = h_str h1 !! b).
Proof. apply history_fail_balanced, ex8_accepted. Qed.
