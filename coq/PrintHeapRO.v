(** PrintHeapRO.v — READ-ONLY: the heap-level print functions (PrintHeapDefs.v) never change the heap.

    [RO m]: whenever the computation [m] returns (whatever the value), the heap it returns is the heap
    it was started in — every component: link map, data map, string blocks, ownership tags, liveness,
    allocator counters, hooks, trace.  The predicate is compositional ([RO_bind]); the leaves are the
    checked loads of Heap.v and the lifted buffer-level steps of PrintDefs.v (which do not see the heap);
    the loops go by induction on their fuel.  There is no hypothesis on the heap: the statement holds for
    EVERY heap (well-formed or not, cyclic or not), every item pointer, every fuel, every print buffer,
    every allocation oracle, and for the error-free outcomes as a whole (an [Err] outcome carries no heap).

    (The print buffer and its allocator are PrintDefs' own state, not heap blocks: see PrintHeapDefs.v.) *)
From CJ Require Import Base Dbl Tree PrintDefs Heap CoreDefs PrintHeapDefs.
From CJ.gen Require Import Constants.
From stdpp Require Import gmap.
Local Open Scope Z_scope.

Definition RO {A} (m : M A) : Prop := forall h a h', m h = Ret (a, h') -> h' = h.

Lemma RO_ret {A} (a : A) : RO (ret a).
Proof. intros h a' h' H. unfold ret in H. by injection H as _ <-. Qed.
Lemma RO_fail {A} e : RO (@fail A e).
Proof. intros h a h' H. discriminate H. Qed.
Lemma RO_lift {A} (r : res A) : RO (lift r).
Proof. intros h a h' H. unfold lift in H. destruct r; [by injection H as _ <-|discriminate H|discriminate H]. Qed.
Lemma RO_bind {A B} (m : M A) (f : A -> M B) : RO m -> (forall a, RO (f a)) -> RO (bindM m f).
Proof.
  intros Hm Hf h b h' H. unfold bindM in H. destruct (m h) as [[a h1]|e] eqn:E; [|discriminate H].
  apply Hm in E as ->. by apply (Hf a) in H.
Qed.

Lemma RO_chk p : RO (chk p).
Proof.
  intros h a h' H. unfold chk in H. destruct p as [id|]; [|discriminate H].
  destruct (decide (id ∈ h_live h)); [by injection H as _ <-|discriminate H].
Qed.
Lemma RO_ld_dat p : RO (ld_dat p).
Proof.
  unfold ld_dat. apply RO_bind; [apply RO_chk|]. intros id h a h' H.
  destruct (h_dat h !! id); [by injection H as _ <-|discriminate H].
Qed.
Lemma RO_ld_lnk p : RO (ld_lnk p).
Proof.
  unfold ld_lnk. apply RO_bind; [apply RO_chk|]. intros id h a h' H.
  destruct (h_lnk h !! id); [by injection H as _ <-|discriminate H].
Qed.
Lemma RO_ld_str p : RO (ld_str p).
Proof.
  unfold ld_str. apply RO_bind; [apply RO_chk|]. intros id h a h' H.
  destruct (h_str h !! id); [by injection H as _ <-|discriminate H].
Qed.
Lemma RO_ld_cstr p : RO (ld_cstr p).
Proof.
  unfold ld_cstr. apply RO_bind; [apply RO_ld_str|]. intros s.
  destruct (existsb (Z.eqb 0) s); [apply RO_ret|apply RO_fail].
Qed.
Lemma RO_ld_opt_cstr p : RO (ld_opt_cstr p).
Proof.
  unfold ld_opt_cstr. destruct (is_null p); [apply RO_ret|].
  apply RO_bind; [apply RO_ld_cstr|]. intros c. apply RO_ret.
Qed.
Lemma RO_get_next p : RO (get_next p).
Proof. unfold get_next. apply RO_bind; [apply RO_ld_lnk|]. intros l. apply RO_ret. Qed.
Lemma RO_get_child p : RO (get_child p).
Proof. unfold get_child. apply RO_bind; [apply RO_ld_dat|]. intros l. apply RO_ret. Qed.
Lemma RO_get_type p : RO (get_type p).
Proof. unfold get_type. apply RO_bind; [apply RO_ld_dat|]. intros l. apply RO_ret. Qed.
Lemma RO_get_vstr p : RO (get_vstr p).
Proof. unfold get_vstr. apply RO_bind; [apply RO_ld_dat|]. intros l. apply RO_ret. Qed.
Lemma RO_get_key p : RO (get_key p).
Proof. unfold get_key. apply RO_bind; [apply RO_ld_dat|]. intros l. apply RO_ret. Qed.
Lemma RO_get_vint p : RO (get_vint p).
Proof. unfold get_vint. apply RO_bind; [apply RO_ld_dat|]. intros l. apply RO_ret. Qed.
Lemma RO_get_vdbl p : RO (get_vdbl p).
Proof. unfold get_vdbl. apply RO_bind; [apply RO_ld_dat|]. intros l. apply RO_ret. Qed.
Lemma RO_get_hooks : RO get_hooks.
Proof. intros h a h' H. unfold get_hooks in H. by injection H as _ <-. Qed.
Lemma RO_heap_fuel : RO heap_fuel.
Proof. intros h a h' H. unfold heap_fuel in H. by injection H as _ <-. Qed.

Global Hint Resolve RO_ret RO_fail RO_lift RO_ld_cstr RO_ld_opt_cstr RO_get_next RO_get_child RO_get_type RO_get_vstr
  RO_get_key RO_get_vint RO_get_vdbl RO_get_hooks RO_heap_fuel : ro.

(** one structural step: a leaf, a bind, or a case split on the scrutinee of a [match] / [if] / [let '(_, _)] *)
Ltac ro_step :=
  first
    [ solve [auto with ro]
    | apply RO_bind; [|intros ?]
    | match goal with |- RO (match ?x with _ => _ end) => destruct x end ].
Ltac ro := repeat ro_step.

Section PrinterRO.
  Variable fmt_d : Z -> bytes.
  Variable fmt_g15 : dbl -> bytes.
  Variable fmt_g17 : dbl -> bytes.
  Variable sscanf_lg : bytes -> option dbl.
  Variable oracle : nat -> bool.
  Variable junk : nat -> Z.

  Notation print_value_h := (print_value_h fmt_d fmt_g15 fmt_g17 sscanf_lg oracle junk).
  Notation print_h := (print_h fmt_d fmt_g15 fmt_g17 sscanf_lg oracle junk).
  Notation cJSON_PrintBuffered_fuel := (cJSON_PrintBuffered_fuel fmt_d fmt_g15 fmt_g17 sscanf_lg oracle junk).
  Notation cJSON_PrintPreallocated_fuel := (cJSON_PrintPreallocated_fuel fmt_d fmt_g15 fmt_g17 sscanf_lg oracle junk).
  Notation cJSON_Print_h := (cJSON_Print_h fmt_d fmt_g15 fmt_g17 sscanf_lg oracle junk).
  Notation cJSON_PrintUnformatted_h := (cJSON_PrintUnformatted_h fmt_d fmt_g15 fmt_g17 sscanf_lg oracle junk).
  Notation cJSON_PrintBuffered_h := (cJSON_PrintBuffered_h fmt_d fmt_g15 fmt_g17 sscanf_lg oracle junk).
  Notation cJSON_PrintPreallocated_h := (cJSON_PrintPreallocated_h fmt_d fmt_g15 fmt_g17 sscanf_lg oracle junk).

  Section Loops.
    Variable pv : ptr -> printbuffer -> M (bool * printbuffer).
    Hypothesis pv_RO : forall c p, RO (pv c p).

    Lemma print_array_loop_h_RO : forall lfuel c p, RO (print_array_loop_h oracle junk pv lfuel c p).
    Proof.
      induction lfuel as [|lf IH]; intros c p; cbn [print_array_loop_h]; [apply RO_fail|].
      destruct (is_null c); [apply RO_ret|].
      apply RO_bind; [apply pv_RO|]. intros [ok p1]. destruct (negb ok); [apply RO_ret|].
      apply RO_bind; [apply RO_lift|]. intros p2.
      apply RO_bind; [apply RO_get_next|]. intros nx.
      apply RO_bind.
      { destruct (negb (is_null nx)); [|apply RO_ret]. ro. }
      intros [ok5 p5]. destruct (negb ok5); [apply RO_ret|].
      apply RO_bind; [apply RO_get_next|]. intros nx'. apply IH.
    Qed.

    Lemma print_array_h_RO lfuel item p : RO (print_array_h oracle junk pv lfuel item p).
    Proof.
      unfold print_array_h.
      apply RO_bind; [apply RO_get_child|]. intros c.
      apply RO_bind; [apply RO_lift|]. intros [ok p1]. destruct (negb ok); [apply RO_ret|].
      apply RO_bind; [apply RO_lift|]. intros p2.
      apply RO_bind; [apply print_array_loop_h_RO|]. intros [ok4 p4]. destruct (negb ok4); [apply RO_ret|].
      ro.
    Qed.

    Lemma print_object_loop_h_RO : forall lfuel c p, RO (print_object_loop_h oracle junk pv lfuel c p).
    Proof.
      induction lfuel as [|lf IH]; intros c p; cbn [print_object_loop_h]; [apply RO_fail|].
      destruct (is_null c); [apply RO_ret|].
      apply RO_bind.
      { destruct (pb_format p); [|apply RO_ret]. ro. }
      intros [ok3 p3]. destruct (negb ok3); [apply RO_ret|].
      apply RO_bind; [apply RO_get_key|]. intros k.
      apply RO_bind; [apply RO_ld_opt_cstr|]. intros key.
      apply RO_bind; [apply RO_lift|]. intros [ok4 p4]. destruct (negb ok4); [apply RO_ret|].
      apply RO_bind; [apply RO_lift|]. intros p5.
      apply RO_bind; [apply RO_lift|]. intros [ok6 p6]. destruct (negb ok6); [apply RO_ret|].
      apply RO_bind; [apply RO_lift|]. intros p7.
      apply RO_bind; [apply pv_RO|]. intros [ok9 p9]. destruct (negb ok9); [apply RO_ret|].
      apply RO_bind; [apply RO_lift|]. intros p10.
      apply RO_bind; [apply RO_get_next|]. intros nx1.
      apply RO_bind; [apply RO_lift|]. intros [ok11 p11]. destruct (negb ok11); [apply RO_ret|].
      apply RO_bind; [apply RO_get_next|]. intros nx2.
      apply RO_bind; [apply RO_lift|]. intros p12.
      apply RO_bind; [apply RO_get_next|]. intros nx3. apply IH.
    Qed.

    Lemma print_object_h_RO lfuel item p : RO (print_object_h oracle junk pv lfuel item p).
    Proof.
      unfold print_object_h.
      apply RO_bind; [apply RO_get_child|]. intros c.
      apply RO_bind; [apply RO_lift|]. intros [ok p1]. destruct (negb ok); [apply RO_ret|].
      apply RO_bind; [apply RO_lift|]. intros p2.
      apply RO_bind; [apply print_object_loop_h_RO|]. intros [ok4 p4]. destruct (negb ok4); [apply RO_ret|].
      ro.
    Qed.
  End Loops.

  (** print_value never changes the heap *)
  Theorem print_value_h_RO : forall dfuel lfuel item p, RO (print_value_h dfuel lfuel item p).
  Proof.
    induction dfuel as [|df IH]; intros lfuel item p; cbn [PrintHeapDefs.print_value_h]; [apply RO_fail|].
    destruct (is_null item); [apply RO_ret|].
    apply RO_bind; [apply RO_get_type|]. intros ty. cbv zeta.
    destruct (tymask ty =? c_cJSON_NULL); [apply RO_lift|].
    destruct (tymask ty =? c_cJSON_False); [apply RO_lift|].
    destruct (tymask ty =? c_cJSON_True); [apply RO_lift|].
    destruct (tymask ty =? c_cJSON_Number); [ro|].
    destruct (tymask ty =? c_cJSON_Raw); [ro|].
    destruct (tymask ty =? c_cJSON_String); [ro|].
    destruct (tymask ty =? c_cJSON_Array); [apply print_array_h_RO; intros c q; apply IH|].
    destruct (tymask ty =? c_cJSON_Object); [apply print_object_h_RO; intros c q; apply IH|].
    apply RO_ret.
  Qed.

  Theorem print_h_RO dfuel lfuel item format : RO (print_h dfuel lfuel item format).
  Proof.
    unfold PrintHeapDefs.print_h. apply RO_bind; [apply RO_get_hooks|]. intros hk. cbv zeta.
    destruct (allocate oracle junk _ c_DEFAULT_BUFFER_SIZE) as [b p1]. destruct b as [b|]; [|apply RO_ret].
    apply RO_bind; [apply print_value_h_RO|]. intros [ok p3]. destruct (negb ok); [apply RO_ret|].
    apply RO_bind; [apply RO_lift|]. intros p4. destruct (pb_buf p4) as [buf|]; [|apply RO_fail].
    destruct (hooks_realloc_available hk).
    - destruct (reallocate oracle junk p4 buf (pb_offset p4 + 1)) as [[pr|] p5]; apply RO_ret.
    - destruct (allocate oracle junk p4 (pb_offset p4 + 1)) as [[pr|] p5]; [|apply RO_ret]. ro.
  Qed.

  Theorem cJSON_PrintBuffered_fuel_RO dfuel lfuel item prebuffer fmt :
    RO (cJSON_PrintBuffered_fuel dfuel lfuel item prebuffer fmt).
  Proof.
    unfold PrintHeapDefs.cJSON_PrintBuffered_fuel. destruct (prebuffer <? 0); [apply RO_ret|].
    apply RO_bind; [apply RO_get_hooks|]. intros hk. cbv zeta.
    destruct (allocate oracle junk _ prebuffer) as [b p1]. destruct b as [b|]; [|apply RO_ret].
    apply RO_bind; [apply print_value_h_RO|]. intros [ok p3]. destruct (negb ok); apply RO_ret.
  Qed.

  Theorem cJSON_PrintPreallocated_fuel_RO dfuel lfuel item buffer length format :
    RO (cJSON_PrintPreallocated_fuel dfuel lfuel item buffer length format).
  Proof.
    unfold PrintHeapDefs.cJSON_PrintPreallocated_fuel. destruct buffer as [b|]; [|apply RO_ret].
    destruct (length <? 0); [apply RO_ret|].
    apply RO_bind; [apply RO_get_hooks|]. intros hk. cbv zeta.
    apply RO_bind; [apply print_value_h_RO|]. intros [ok p1]. apply RO_ret.
  Qed.

  (** the public entry points *)
  Theorem cJSON_Print_h_RO item : RO (cJSON_Print_h item).
  Proof. unfold PrintHeapDefs.cJSON_Print_h. apply RO_bind; [apply RO_heap_fuel|]. intros f. apply print_h_RO. Qed.
  Theorem cJSON_PrintUnformatted_h_RO item : RO (cJSON_PrintUnformatted_h item).
  Proof. unfold PrintHeapDefs.cJSON_PrintUnformatted_h. apply RO_bind; [apply RO_heap_fuel|]. intros f. apply print_h_RO. Qed.
  Theorem cJSON_PrintBuffered_h_RO item prebuffer fmt : RO (cJSON_PrintBuffered_h item prebuffer fmt).
  Proof.
    unfold PrintHeapDefs.cJSON_PrintBuffered_h. apply RO_bind; [apply RO_heap_fuel|]. intros f.
    apply cJSON_PrintBuffered_fuel_RO.
  Qed.
  Theorem cJSON_PrintPreallocated_h_RO item buffer length format :
    RO (cJSON_PrintPreallocated_h item buffer length format).
  Proof.
    unfold PrintHeapDefs.cJSON_PrintPreallocated_h. apply RO_bind; [apply RO_heap_fuel|]. intros f.
    apply cJSON_PrintPreallocated_fuel_RO.
  Qed.

  (** the statement in plain words, for the four public functions: for EVERY heap and EVERY outcome that
      returns, the link map, the data map and the string blocks — and everything else — are unchanged *)
  Theorem print_entry_points_read_only (item : ptr) (h : heap) :
    (forall r h', cJSON_Print_h item h = Ret (r, h') -> h' = h) /\
    (forall r h', cJSON_PrintUnformatted_h item h = Ret (r, h') -> h' = h) /\
    (forall prebuffer fmt r h', cJSON_PrintBuffered_h item prebuffer fmt h = Ret (r, h') -> h' = h) /\
    (forall buffer length format r h', cJSON_PrintPreallocated_h item buffer length format h = Ret (r, h') -> h' = h).
  Proof.
    split; [|split; [|split]].
    - intros r h'. apply cJSON_Print_h_RO.
    - intros r h'. apply cJSON_PrintUnformatted_h_RO.
    - intros pre fmt r h'. apply cJSON_PrintBuffered_h_RO.
    - intros b l f r h'. apply cJSON_PrintPreallocated_h_RO.
  Qed.

  Corollary print_entry_points_maps_unchanged (item : ptr) (h : heap) :
    (forall r h', cJSON_Print_h item h = Ret (r, h') ->
       h_lnk h' = h_lnk h /\ h_dat h' = h_dat h /\ h_str h' = h_str h /\ h_live h' = h_live h /\ h_own h' = h_own h) /\
    (forall r h', cJSON_PrintUnformatted_h item h = Ret (r, h') ->
       h_lnk h' = h_lnk h /\ h_dat h' = h_dat h /\ h_str h' = h_str h /\ h_live h' = h_live h /\ h_own h' = h_own h) /\
    (forall prebuffer fmt r h', cJSON_PrintBuffered_h item prebuffer fmt h = Ret (r, h') ->
       h_lnk h' = h_lnk h /\ h_dat h' = h_dat h /\ h_str h' = h_str h /\ h_live h' = h_live h /\ h_own h' = h_own h) /\
    (forall buffer length format r h', cJSON_PrintPreallocated_h item buffer length format h = Ret (r, h') ->
       h_lnk h' = h_lnk h /\ h_dat h' = h_dat h /\ h_str h' = h_str h /\ h_live h' = h_live h /\ h_own h' = h_own h).
  Proof.
    destruct (print_entry_points_read_only item h) as (H1 & H2 & H3 & H4).
    split; [|split; [|split]].
    - intros r h' E. by rewrite (H1 r h' E).
    - intros r h' E. by rewrite (H2 r h' E).
    - intros pre fmt r h' E. by rewrite (H3 pre fmt r h' E).
    - intros b l f r h' E. by rewrite (H4 b l f r h' E).
  Qed.
End PrinterRO.
