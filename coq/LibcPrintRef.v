(** LibcPrintRef.v — the two printer contracts PROVED for the reference C library of LibcPrint.v
    itself, for every C int and EVERY finite well-formed double (no guard, no table):

      [ref_strict_spec] : LibcStrictSpec fmt_d fmt_g15 fmt_g17     (PrintStrict.v, property C05)
      [ref_print_spec]  : LibcPrintSpec  fmt_d fmt_g15 fmt_g17     (PrintDefs.v, properties C08 / C09)

    The "%d" clauses are [PrintStrictRef.ref_fmt_d_strict].  The "%g" clauses: for 1 <= P <= 17 and
    a finite double with [valid_dbl d = true], [fmt_g P d] is an RFC 8259 number of at most 25 bytes
    ([fmt_g_ok]), hence also zero-free.  Proof: a signed zero prints "0" / "-0"; for (s, m, e) with
    [bounded 53 1024 m e] the scaled fraction satisfies dS <= nS < 10 dS with -324 <= X <= 308
    ([LibcG15Scale.g_scale_spec], [LibcG15Stable.scaled_X_range]), the rounded significand has
    exactly P digits, 10^(P-1) <= D < 10^P, with X' = X or X + 1 ([LibcG15Scale.g_round_spec]), and
    every text [g_text P s D X'] of such D, X' is an RFC number of at most 25 bytes
    ([LibcPrintRefText.g_text_ok]).  Integer arithmetic only.

    Then the theorems of C05 / C09 that are stated for every libc satisfying a contract, at the
    reference library, without a libc hypothesis ([ref_*]). *)
From Coq Require Import ZArith List Bool Lia Floats.SpecFloat.
From CJ Require Import Base Dbl Tree Grammar LibcNum LibcPrint PrintDefs PrintLemmas PrintProofs PrintStrict PrintStrictWs
  PrintStrictRef PrintStrictVariants PrintFail PrintFailExt RoundTripNum LibcG15Scale LibcG15Stable LibcPrintRefText.
Import ListNotations.
Local Open Scope Z_scope.

(** * everything [fmt_g P] computes for a well-formed finite double, any precision P >= 1 *)
Lemma g_round_X P nS dS X D X' : g_round P nS dS X = (D, X') -> X <= X' <= X + 1.
Proof.
  unfold g_round. intro E.
  destruct (g_q' (nS * 10 ^ (P - 1)) dS =? 10 ^ P); injection E as _ <-; lia.
Qed.

Lemma gP_shape P m e : 1 <= P -> SpecFloat.bounded Dbl.prec Dbl.emax m e = true ->
  exists D X', (forall s, fmt_g P (S754_finite s m e) = g_text P s D X') /\
               10 ^ (P - 1) <= D < 10 ^ P /\ -324 <= X' <= 309.
Proof.
  intros HP Hb. destruct (bounded_frac m e Hb) as (Hn & Hd & Hl).
  destruct (g_scale_spec (g_num m e) (g_den e) ltac:(lia) ltac:(lia) Hl) as (nS & dS & X & Es & Hsc).
  destruct (g_round P nS dS X) as [D X'] eqn:Er.
  exists D, X'.
  split. { intro s. rewrite fmt_g_finite, Es, Er. reflexivity. }
  pose proof Hsc as (PdS & Hr & Hf).
  destruct (g_round_spec P nS dS X D X' HP PdS Hr Er) as [HD _].
  pose proof (scaled_X_range _ _ _ _ _ Hn Hd Hsc) as HX.
  pose proof (g_round_X _ _ _ _ _ _ Er) as HX'.
  split; [exact HD|lia].
Qed.

(** * "%1.<P>g" of the reference library: RFC 8259 number, at most 25 bytes *)
Theorem fmt_g_ok P d : 1 <= P <= 17 -> is_finite d = true -> valid_dbl d = true ->
  rfc_number (fmt_g P d) = true /\ zlen (fmt_g P d) <= c_NUMBER_BUFFER_SIZE - 1.
Proof.
  intros HP Hf Hv. change (c_NUMBER_BUFFER_SIZE - 1) with 25.
  destruct d as [s|s| |s m e]; try discriminate Hf.
  - destruct s; split; vm_compute; try reflexivity; discriminate.
  - unfold valid_dbl in Hv. cbn [valid_binary] in Hv.
    destruct (gP_shape P m e ltac:(lia) Hv) as (D & X' & Efmt & HD & HX).
    rewrite Efmt. apply g_text_ok; [exact HP|exact HD|lia].
Qed.

Corollary fmt_g15_ok d : is_finite d = true -> valid_dbl d = true ->
  rfc_number (fmt_g15 d) = true /\ zlen (fmt_g15 d) <= c_NUMBER_BUFFER_SIZE - 1.
Proof. apply (fmt_g_ok 15). lia. Qed.

Corollary fmt_g17_ok d : is_finite d = true -> valid_dbl d = true ->
  rfc_number (fmt_g17 d) = true /\ zlen (fmt_g17 d) <= c_NUMBER_BUFFER_SIZE - 1.
Proof. apply (fmt_g_ok 17). lia. Qed.

(** * the contracts *)
Theorem ref_strict_spec : LibcStrictSpec fmt_d fmt_g15 fmt_g17.
Proof.
  constructor.
  - intros z Hz. apply (ref_fmt_d_strict z Hz).
  - intros d Hf Hv. apply (fmt_g15_ok d Hf Hv).
  - intros d Hf Hv. apply (fmt_g17_ok d Hf Hv).
  - intros z Hz. apply (ref_fmt_d_strict z Hz).
  - intros d Hf Hv. apply (fmt_g15_ok d Hf Hv).
  - intros d Hf Hv. apply (fmt_g17_ok d Hf Hv).
  - intros z Hz. apply (ref_fmt_d_strict z Hz).
Qed.

Theorem ref_print_spec : LibcPrintSpec fmt_d fmt_g15 fmt_g17.
Proof. exact (strict_spec_print_spec _ _ _ ref_strict_spec). Qed.

(** the run-time guards of the earlier satisfiability instances never fire: on every finite
    well-formed double the guarded conversions ARE the reference conversions *)
Theorem sguard_never_fires d : is_finite d = true -> valid_dbl d = true ->
  sg_fmt_g15 d = fmt_g15 d /\ sg_fmt_g17 d = fmt_g17 d.
Proof.
  intros Hf Hv. unfold sg_fmt_g15, sg_fmt_g17, sguard.
  destruct (fmt_g15_ok d Hf Hv) as [R15 L15]. destruct (fmt_g17_ok d Hf Hv) as [R17 L17].
  apply Z.leb_le in L15, L17. rewrite R15, L15, R17, L17. split; reflexivity.
Qed.

(** * the C05 / C09 theorems at the reference library: no libc hypothesis left *)
Notation rrender := (render fmt_d fmt_g15 fmt_g17 sscanf_lg).
Notation rval_of := (val_of fmt_d fmt_g15 fmt_g17 sscanf_lg).

Theorem ref_strict_value :
  forall n, printable n = true -> forall fmt depth d, (cdepth n <= d)%nat ->
  exists txt, rrender fmt depth n = Some txt /\ RFC_value d txt (rval_of n).
Proof. exact (render_rfc_value fmt_d fmt_g15 fmt_g17 sscanf_lg ref_strict_spec). Qed.

Theorem ref_strict :
  forall n fmt, printable n = true -> (cdepth n <= nesting_limit)%nat ->
  exists txt, rrender fmt 0 n = Some txt /\ RFC_text txt (rval_of n).
Proof. exact (render_rfc_text fmt_d fmt_g15 fmt_g17 sscanf_lg ref_strict_spec). Qed.

Theorem ref_value_ok : forall n, printable n = true -> jv_ok (rval_of n).
Proof. exact (val_of_jv_ok fmt_d fmt_g15 fmt_g17 sscanf_lg ref_strict_spec). Qed.

Theorem ref_strip :
  forall n depth, printable n = true -> option_map strip_ws (rrender true depth n) = rrender false depth n.
Proof. exact (strip_ws_render fmt_d fmt_g15 fmt_g17 sscanf_lg ref_strict_spec). Qed.

Theorem ref_variants :
  forall oracle junk (t : node) (fmt : bool),
  printable t = true -> fields_ok t = true -> (forall i, oracle i = false) ->
  exists txt,
    rrender fmt 0 t = Some txt /\ nz txt /\
    (zlen txt + 2 <= c_INT_MAX ->
       (forall hr, exists r, print fmt_d fmt_g15 fmt_g17 sscanf_lg oracle junk t fmt hr = Ok r /\
                             prr_block r = Some (txt ++ [0])) /\
       (forall hr prebuffer, 0 <= prebuffer ->
          exists r rest, cJSON_PrintBuffered fmt_d fmt_g15 fmt_g17 sscanf_lg oracle junk t prebuffer fmt hr = Ok r /\
                         prr_block r = Some (txt ++ 0 :: rest))) /\
    (forall hr buf, zlen txt + 2 <= zlen buf -> zlen buf <= c_INT_MAX ->
       exists r rest, cJSON_PrintPreallocated fmt_d fmt_g15 fmt_g17 sscanf_lg oracle junk t (Some buf) (zlen buf) fmt hr = Ok r /\
                      par_flag r = true /\ par_buffer r = Some (txt ++ 0 :: rest)).
Proof. exact (variants_agree fmt_d fmt_g15 fmt_g17 sscanf_lg ref_strict_spec). Qed.

Theorem ref_no_overflow :
  forall oracle junk (t : node) (buf : bytes) (fmt hr : bool),
    fields_ok t = true ->
    exists r, cJSON_PrintPreallocated fmt_d fmt_g15 fmt_g17 sscanf_lg oracle junk t (Some buf) (zlen buf) fmt hr = Ok r.
Proof. exact (C09_no_overflow_proof fmt_d fmt_g15 fmt_g17 sscanf_lg ref_print_spec). Qed.

Theorem ref_caller_block :
  forall oracle junk (t : node) (buf : bytes) (fmt hr : bool) r,
    fields_ok t = true ->
    cJSON_PrintPreallocated fmt_d fmt_g15 fmt_g17 sscanf_lg oracle junk t (Some buf) (zlen buf) fmt hr = Ok r ->
    par_live r = 0 /\ par_requests r = 0%nat /\ exists b', par_buffer r = Some b' /\ zlen b' = zlen buf.
Proof. exact (C09_caller_block_proof fmt_d fmt_g15 fmt_g17 sscanf_lg ref_print_spec). Qed.

Theorem ref_content :
  forall oracle junk (t : node) (buf : bytes) (fmt hr : bool) r,
    fields_ok t = true ->
    cJSON_PrintPreallocated fmt_d fmt_g15 fmt_g17 sscanf_lg oracle junk t (Some buf) (zlen buf) fmt hr = Ok r ->
    par_flag r = true ->
    exists txt rest, rrender fmt 0 t = Some txt /\
                     par_buffer r = Some (txt ++ 0 :: rest) /\ zlen (txt ++ 0 :: rest) = zlen buf.
Proof. exact (C09_content_proof fmt_d fmt_g15 fmt_g17 sscanf_lg ref_print_spec). Qed.

Theorem ref_threshold :
  forall oracle junk (t : node) (buf : bytes) (fmt hr : bool) r,
    fields_ok t = true -> zlen buf <= c_INT_MAX ->
    cJSON_PrintPreallocated fmt_d fmt_g15 fmt_g17 sscanf_lg oracle junk t (Some buf) (zlen buf) fmt hr = Ok r ->
    (par_flag r = true <-> exists txt, rrender fmt 0 t = Some txt /\ zlen txt + 2 <= zlen buf).
Proof. exact (C09_threshold_proof fmt_d fmt_g15 fmt_g17 sscanf_lg ref_print_spec). Qed.

Theorem ref_print_refines_render :
  forall oracle junk (t : node) (fmt hr : bool),
    fields_ok t = true ->
    exists r, print fmt_d fmt_g15 fmt_g17 sscanf_lg oracle junk t fmt hr = Ok r /\
      (forall block, prr_block r = Some block -> exists txt, rrender fmt 0 t = Some txt /\ block = txt ++ [0]) /\
      ((forall i, oracle i = false) -> forall txt, rrender fmt 0 t = Some txt ->
         zlen txt + 2 <= c_INT_MAX -> prr_block r = Some (txt ++ [0])).
Proof. exact (print_spec fmt_d fmt_g15 fmt_g17 sscanf_lg ref_print_spec). Qed.

(** C08 (clean failure of the allocating printers), at the reference library *)
Theorem ref_print_clean :
  forall oracle junk (t : node) (fmt hr : bool),
    fields_ok t = true ->
    exists r, print fmt_d fmt_g15 fmt_g17 sscanf_lg oracle junk t fmt hr = Ok r /\
      (prr_block r = None -> prr_live r = 0) /\
      (forall block, prr_block r = Some block ->
         prr_live r = 1 /\ exists txt, rrender fmt 0 t = Some txt /\ block = txt ++ [0]).
Proof. exact (print_ledger fmt_d fmt_g15 fmt_g17 sscanf_lg ref_print_spec). Qed.

Theorem ref_print_buffered_clean :
  forall oracle junk (t : node) (prebuffer : Z) (fmt hr : bool),
    fields_ok t = true -> 0 <= prebuffer ->
    exists r, cJSON_PrintBuffered fmt_d fmt_g15 fmt_g17 sscanf_lg oracle junk t prebuffer fmt hr = Ok r /\
      (prr_block r = None -> prr_live r = 0) /\
      (forall block, prr_block r = Some block ->
         prr_live r = 1 /\ exists txt rest, rrender fmt 0 t = Some txt /\ block = txt ++ 0 :: rest).
Proof. exact (print_buffered_ledger fmt_d fmt_g15 fmt_g17 sscanf_lg ref_print_spec). Qed.

Theorem ref_print_failure_has_cause :
  forall oracle junk (t : node) (fmt hr : bool) r txt,
    fields_ok t = true -> print fmt_d fmt_g15 fmt_g17 sscanf_lg oracle junk t fmt hr = Ok r ->
    rrender fmt 0 t = Some txt -> zlen txt + 2 <= c_INT_MAX ->
    prr_block r = None -> exists k, (k < prr_requests r)%nat /\ oracle k = true.
Proof. exact (print_failure_has_cause fmt_d fmt_g15 fmt_g17 sscanf_lg ref_print_spec). Qed.

(** * non-vacuity: doubles of all three layouts, both precisions, extremes of the exponent range *)
Definition ref_ex_min : dbl := S754_finite true 1 (-1074).                       (* -4.94e-324 *)
Definition ref_ex_max : dbl := S754_finite true 9007199254740991 971.            (* -DBL_MAX *)
Definition ref_ex_small : dbl := S754_finite true 6917529027641082 (-63).        (* -0.00075 *)
Definition ref_ex_1e20 : dbl := S754_finite false 6103515625000000 14.           (* 1e+20 *)

Lemma ref_examples :
  (valid_dbl ref_ex_min = true /\ valid_dbl ref_ex_max = true /\ valid_dbl ref_ex_small = true /\
   valid_dbl ref_ex_1e20 = true) /\
  (* "-4.9406564584124654e-324": 24 bytes, the longest text *)
  fmt_g17 ref_ex_min = [45; 52; 46; 57; 52; 48; 54; 53; 54; 52; 53; 56; 52; 49; 50; 52; 54; 53; 52; 101; 45; 51; 50; 52] /\
  (* "-1.7976931348623157e+308" *)
  fmt_g17 ref_ex_max = [45; 49; 46; 55; 57; 55; 54; 57; 51; 49; 51; 52; 56; 54; 50; 51; 49; 53; 55; 101; 43; 51; 48; 56] /\
  (* "-0.00075" and the 17-digit "-0.00075000000000000002": 23 bytes, the longest %f-style text *)
  fmt_g15 ref_ex_small = [45; 48; 46; 48; 48; 48; 55; 53] /\
  fmt_g17 ref_ex_small = [45; 48; 46; 48; 48; 48; 55; 53; 48; 48; 48; 48; 48; 48; 48; 48; 48; 48; 48; 48; 48; 48; 50] /\
  (* "1e+20": all trailing zeros and the point removed *)
  fmt_g15 ref_ex_1e20 = [49; 101; 43; 50; 48] /\ fmt_g17 ref_ex_1e20 = [49; 101; 43; 50; 48] /\
  fmt_g17 (S754_zero true) = [45; 48].
Proof. repeat split; vm_compute; reflexivity. Qed.
