(** Extract_core.v — extraction of the executable DOM model (area "core") to OCaml.  Only
    ExtrOcamlBasic is used; Z, positive, nat, spec_float, std++ gmap stay extracted Coq datatypes. *)
Require Import ExtrOcamlBasic.
From CJ Require Import Base Dbl Tree Heap CoreDefs CoreOps.
From CJ Require CoreOpsBridgeOwned CoreOpsBridgeDupDefs CoreOpsBridgeRefDefs.
Extraction Language OCaml.
Extraction "model_core.ml"
  Base.cstr Base.rd Dbl.sf_of_bits Dbl.bits_of_sf Dbl.sat_int Dbl.dbl_of_int Tree.node_size
  Heap.empty_heap Heap.lib_live
  CoreOps.run_op CoreOps.run_ops CoreOps.empty_state CoreOps.dump_state CoreOps.dump_node CoreOps.dump_depth
  CoreOps.owned_blocks CoreOps.share_blocks CoreOps.live_count CoreOps.fail_kth CoreOps.fail_mask CoreOps.err_name
  CoreOps.item_of CoreOps.live_roots
  (* the boolean acceptance of C06_history_extracted / C06_history_extractedD (with cJSON_Duplicate): the driver reports which generated histories fall under the theorem *)
  CoreOpsBridgeOwned.accepted_rules CoreOpsBridgeDupDefs.accepted_rulesD CoreOpsBridgeRefDefs.accepted_rulesR.
