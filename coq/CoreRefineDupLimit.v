(** CoreRefineDupLimit.v — [cJSON_Duplicate] on an ARBITRARY closed heap whose [next] chains
    are finite (the [child] graph may be over-deep or cyclic): the call terminates (the fuel
    supplied by the entry point suffices: never [Err NoFuel], nor any other error outcome),
    it returns NULL when a descending path of more than CJSON_CIRCULAR_LIMIT [child] steps
    exists below the item, and whenever it returns NULL the heap is as before up to the
    allocator's counters (everything allocated by the call was released, nothing else touched). *)
From CJ Require Import Base Dbl Heap Forest ForestLemmas CoreSpec CoreDefs CoreRefineBase CoreRefine CoreRefineDelete
  CoreRefineDupBase CoreRefineDupTree CoreRefineDupNode CoreRefineDupLoop CoreRefineDup.
From CJ.gen Require Import Constants.
From stdpp Require Import gmap.
From Coq Require Import Lia.

Implicit Types (g h : heap) (i n b : positive) (d : rdata) (ts cs : list tree).

(** a finite [next] chain starting at [p] *)
Inductive chain h : ptr -> list positive -> Prop :=
| chain_nil : chain h None []
| chain_cons i nx pv l : lk_at h i (nx, pv) -> chain h nx l -> chain h (Some i) (i :: l).

Lemma chain_fun h p l l' : chain h p l -> chain h p l' -> l = l'.
Proof.
  intros H. revert l'. induction H as [|i nx pv l Hl Hc IH]; intros l' H'; inversion H' as [|i' nx' pv' l2 Hl' Hc']; subst.
  - done.
  - pose proof (lk_at_fun _ _ _ _ Hl Hl') as E. injection E as <- <-. f_equal. by apply IH.
Qed.
Lemma chain_head h p l : chain h p l -> p = head l.
Proof. by intros [|]. Qed.
Lemma chain_suffix h p l1 i l2 : chain h p (l1 ++ i :: l2) -> chain h (Some i) (i :: l2).
Proof.
  revert p. induction l1 as [|a l1 IH]; intros p H.
  - cbn in H. pose proof (chain_head _ _ _ H) as ->. exact H.
  - cbn in H. inversion H; subst. by eapply IH.
Qed.
Lemma chain_NoDup h p l : chain h p l -> NoDup l.
Proof.
  induction 1 as [|i nx pv l Hl Hc IH]; [constructor|]. apply NoDup_cons. split; [|done].
  intros Hin. apply elem_of_list_split in Hin as (l1 & l2 & ->).
  pose proof (chain_suffix _ _ _ _ _ Hc) as Hs.
  pose proof (chain_fun _ _ _ _ (chain_cons h i nx pv _ Hl Hc) Hs) as E.
  apply (f_equal length) in E. cbn in E. rewrite app_length in E. cbn in E. lia.
Qed.
Lemma chain_live h p l : chain h p l -> forall x, x ∈ l -> x ∈ h_live h.
Proof.
  induction 1 as [|i nx pv l Hl Hc IH]; intros x Hx; [by apply elem_of_nil in Hx|].
  apply elem_of_cons in Hx as [->|Hx]; [apply Hl|by apply IH].
Qed.
Lemma chain_length h p l : Closed h -> chain h p l -> length l < Pos.to_nat (h_next h).
Proof.
  intros C Hc. apply NoDup_length_lt_pos; [by eapply chain_NoDup|].
  intros x Hx. apply Closed_live; [done|]. by eapply chain_live.
Qed.

(** the strings of a node are readable C strings (valuestring; key unless constant) *)
Definition nd_readable h (nd : ndata) : Prop :=
  (forall b, nd_vstr nd = Some b -> readable h b) /\
  (forall b, nd_key nd = Some b -> has_flag (nd_type nd) c_cJSON_StringIsConst = false -> readable h b).

(** [R] is a set of nodes closed under [child]/[next], all of them readable, all chains finite *)
Definition Walkable h (R : positive -> Prop) : Prop :=
  forall i, R i -> exists nd l, nd_at h i nd /\ nd_readable h nd /\ chain h (nd_child nd) l /\ Forall R l.

(** a descending path of [k + 1] child steps exists below [i] *)
Fixpoint deep h (k : nat) (i : positive) : Prop :=
  exists nd, nd_at h i nd /\
    match k with
    | O => nd_child nd <> None
    | S k' => exists l c, chain h (nd_child nd) l /\ c ∈ l /\ deep h k' c
    end.

Definition rd_of (nd : ndata) (ref : ptr) : rdata :=
  mkRD (nd_type nd) (nd_vstr nd) (nd_vint nd) (nd_vdbl nd) (nd_key nd) ref.

Lemma src_list_of_chain h lf k p ts :
  chain h p (tid <$> ts) -> Forall (src_t h lf k) ts -> src_list h lf k ts.
Proof.
  revert p. induction ts as [|c r IH]; intros p Hc HF; [done|]. apply Forall_cons in HF as [H1 H2].
  cbn [fmap list_fmap] in Hc. inversion Hc as [|i nx pv l Hl Hc']; subst.
  rewrite src_list_cons. split; [|split; [done|by eapply IH]].
  exists pv. by rewrite <- (chain_head _ _ _ Hc').
Qed.
Lemma src_list_chain h lf k ts : src_list h lf k ts -> chain h (head (tid <$> ts)) (tid <$> ts).
Proof.
  induction ts as [|c r IH]; intros H; [constructor|]. rewrite src_list_cons in H. destruct H as ((pv & Hl) & _ & Hr).
  cbn [fmap list_fmap head]. econstructor; [exact Hl|by apply IH].
Qed.

Lemma unroll_exists h R : Closed h -> Walkable h R ->
  forall k i, R i -> exists t, tid t = i /\ src_t h (Pos.to_nat (h_next h)) k t.
Proof.
  intros C HW. set (lf := Pos.to_nat (h_next h)). induction k as [|k IH]; intros i Hi.
  - destruct (HW i Hi) as (nd & l & Hn & (Hv & Hk) & Hc & HF).
    exists (T i (rd_of nd (nd_child nd)) []). split; [done|]. rewrite src_t_O. split; [|done].
    split_and!; [by destruct nd|apply Pos2Nat.is_pos|exact Hv|exact Hk].
  - destruct (HW i Hi) as (nd & l & Hn & (Hv & Hk) & Hc & HF).
    assert (Hts : exists ts, tid <$> ts = l /\ Forall (src_t h lf k) ts).
    { clear Hc. induction l as [|c l IHl]; [by exists []|]. apply Forall_cons in HF as [Hc HF].
      destruct (IH c Hc) as (tc & <- & Htc). destruct (IHl HF) as (ts & <- & Hts).
      exists (tc :: ts). split; [done|by constructor]. }
    destruct Hts as (ts & <- & Hts).
    exists (T i (rd_of nd None) ts). split; [done|]. rewrite src_t_S. split_and!.
    + split_and!.
      * pose proof (chain_head _ _ _ Hc) as Hh. destruct Hn as [H1 H2]. split; [done|]. rewrite H2. f_equal.
        destruct nd as [ty vs vi vd ky ch]. unfold mk_dat, rd_of. cbn in *. f_equal. rewrite Hh.
        by destruct (tid <$> ts).
      * by eapply chain_length.
      * exact Hv.
      * exact Hk.
    + done.
    + by eapply src_list_of_chain.
Qed.

Lemma nd_at_fun h i nd nd' : nd_at h i nd -> nd_at h i nd' -> nd = nd'.
Proof. intros [_ H1] [_ H2]. congruence. Qed.

Lemma deep_not_complete h lf k : forall t, src_t h lf k t -> deep h k (tid t) -> ~ complete t.
Proof.
  induction k as [|k IH]; intros [i d cs] Hsrc Hdeep Hcomp; cbn [tid] in Hdeep.
  - rewrite src_t_O in Hsrc. destruct Hsrc as [(Hn & _) ->]. destruct Hdeep as (nd & Hn' & Hch).
    pose proof (nd_at_fun _ _ _ _ Hn Hn') as <-. apply Hch. cbn. by apply complete_root in Hcomp.
  - rewrite src_t_S in Hsrc. destruct Hsrc as ((Hn & _) & Href & Hlist).
    destruct Hdeep as (nd & Hn' & l & c & Hc & Hin & Hd).
    pose proof (nd_at_fun _ _ _ _ Hn Hn') as <-.
    pose proof (src_list_chain _ _ _ _ Hlist) as Hc'.
    assert (Hhead : nd_child (mk_dat d (tid <$> cs)) = head (tid <$> cs)).
    { cbn. apply child_of_head_or. intros E. apply Href. by apply fmap_nil_inv in E. }
    rewrite Hhead in Hc. pose proof (chain_fun _ _ _ _ Hc Hc') as ->.
    apply elem_of_list_fmap in Hin as (tc & -> & Htc).
    assert (Hsrc_c : src_t h lf k tc).
    { clear -Hlist Htc. induction cs as [|a r IHr]; [by apply elem_of_nil in Htc|].
      rewrite src_list_cons in Hlist. destruct Hlist as (_ & Ha & Hr).
      apply elem_of_cons in Htc as [->|Htc]; [done|by apply IHr]. }
    apply (IH tc Hsrc_c Hd). apply complete_children in Hcomp. rewrite Forall_forall in Hcomp. by apply Hcomp.
Qed.

(** * property C11, the depth limit *)
Theorem dup_limit (oracle : nat -> bool) h R p :
  Closed h -> Walkable h R -> R p ->
  exists r h',
    cJSON_Duplicate oracle (Some p) true h = Ret (r, h') /\
    (deep h (Z.to_nat c_CJSON_CIRCULAR_LIMIT) p -> r = None) /\
    (r = None -> Ext [] [] h h') /\
    (forall c, r = Some c ->
       exists t tc, tid t = p /\ tid tc = c /\ src_t h (Pos.to_nat (h_next h)) (Z.to_nat c_CJSON_CIRCULAR_LIMIT) t /\
                    Done oracle h t tc h').
Proof.
  intros C HW Hp.
  destruct (unroll_exists h R C HW (Z.to_nat c_CJSON_CIRCULAR_LIMIT) p Hp) as (t & <- & Hsrc).
  destruct (cJSON_Duplicate_sim oracle h t C Hsrc) as (r & h' & Hrun & HP).
  exists r, h'. split; [done|]. destruct HP as [(-> & Fr & _)|(tc & -> & HD)].
  - split; [done|]. split; [done|]. intros c Hc. discriminate.
  - split; [|split; [intros Hc; discriminate|]].
    + intros Hdeep. exfalso. destruct HD as (_ & _ & _ & _ & _ & Hcomp & _).
      by apply (deep_not_complete _ _ _ t Hsrc Hdeep).
    + intros c [= <-]. by exists t, tc.
Qed.

(** what [Ext [] [] h h'] says: see [CoreRefineDupForest.Ext_nil_eq] — all of [h_lnk],
    [h_dat], [h_str], [h_live], [h_hooks] and the ledger [lib_live] are equal. *)
