(** Forest.v — the abstract state of the DOM API (properties C06/C07/C11/C19): forests of
    id-labelled ordered trees, and the canonical encoding of a forest into the two node maps
    of [Heap.heap] ([h_lnk]: sibling links, [h_dat]: the other fields).  Definitions and the
    induction principle only; all lemmas are in ForestLemmas.v.

    OVERVIEW (read this first when you build on this file)

    * [tree] = [T id d children]; [d : rdata] = the fields of struct cJSON that are neither a
      sibling link nor the child pointer: type, valuestring block, valueint, valuedouble, key
      block, PLUS [rd_ref]: the (borrowed) child pointer of a reference node made by
      [create_reference] (memcpy of a node that has children: the copy's [child] points into
      another tree).  For every ordinary node [rd_ref = None].
    * [forest] = list of root trees (detached items and document roots).  The order of the roots
      has no meaning ([heap_lnk_of]/[heap_dat_of] are invariant under permutation of roots).
    * [nodes F] = all nodes (each as the subtree rooted there) in preorder; [ids F] their ids;
      [roots F] the ids of the root trees.
    * The FLAT VIEW: [flat F : list fnode], one entry [(id, d, ids of the children)] per node.
      Everything the heap encoding needs is a function of [(roots F, flat F)] and is invariant
      under permutation of both lists when ids are distinct:
          [heap_lnk_of F = lnk_of (roots F) (flat F)],  [heap_dat_of F = dat_of (flat F)].
      All reasoning about an API call goes through this view: the call FOCUSES on one parent
      [p] whose flat entry changes from [(p,d,cs)] to [(p,d,cs')], all other entries stay
      (ForestLemmas: [flat_set_children], [heap_lnk_of_focus], [heap_dat_of_focus]).
    * [links l] = the sibling links of a children chain [l] by the cJSON convention: next =
      following sibling (NULL at the end), prev = preceding sibling, and the HEAD's prev
      designates the LAST sibling (a single child has prev = itself).
    * [WF h F] = heap [h] encodes forest [F]: a record of separately named parts. *)
From CJ Require Import Base Dbl Heap.
From CJ.gen Require Import Constants.
From stdpp Require Import gmap.
Local Open Scope Z_scope.

(** * Trees *)

(** the fields of struct cJSON other than next/prev/child; [rd_ref] is the child pointer of a
    node WITHOUT own children (None, except for reference nodes that share a foreign chain) *)
Record rdata : Type := mkRD {
  rd_type : Z;
  rd_vstr : ptr;
  rd_vint : Z;
  rd_vdbl : dbl;
  rd_key : ptr;
  rd_ref : ptr
}.
Definition rd0 : rdata := mkRD 0 None 0 dzero None None.    (* a node fresh from cJSON_New_Item *)

Inductive tree : Type := T (id : positive) (d : rdata) (children : list tree).
Definition forest := list tree.

Definition tid (t : tree) : positive := let 'T i _ _ := t in i.
Definition tdata (t : tree) : rdata := let 'T _ d _ := t in d.
Definition tchildren (t : tree) : list tree := let 'T _ _ cs := t in cs.
Definition cids (t : tree) : list positive := tid <$> tchildren t.

(** induction principle that reaches through the children list *)
Section TreeInd.
  Variable P : tree -> Prop.
  Hypothesis H : forall i d cs, Forall P cs -> P (T i d cs).
  Fixpoint tree_ind' (t : tree) : P t :=
    match t with
    | T i d cs =>
        H i d cs ((fix go (l : list tree) : Forall P l :=
                     match l with
                     | [] => @List.Forall_nil _ P
                     | c :: r => @List.Forall_cons _ P c r (tree_ind' c) (go r)
                     end) cs)
    end.
End TreeInd.

(** all nodes of a tree / forest in preorder, each as the subtree rooted there *)
Fixpoint nodes_t (t : tree) : list tree :=
  match t with T _ _ cs => t :: (cs ≫= nodes_t) end.
Definition nodes (F : forest) : list tree := F ≫= nodes_t.
Definition ids_t (t : tree) : list positive := tid <$> nodes_t t.
Definition ids (F : forest) : list positive := tid <$> nodes F.
Definition roots (F : forest) : list positive := tid <$> F.

(** the flat view: one entry (id, data, child ids) per node *)
Definition fnode : Type := positive * rdata * list positive.
Definition fn_id (n : fnode) : positive := n.1.1.
Definition fn_data (n : fnode) : rdata := n.1.2.
Definition fn_cids (n : fnode) : list positive := n.2.
Definition flat_of (t : tree) : fnode := (tid t, tdata t, cids t).
Definition flat_t (t : tree) : list fnode := flat_of <$> nodes_t t.
Definition flat (F : forest) : list fnode := flat_of <$> nodes F.

(** * Sibling links of one children chain (DESIGN Appendix A) *)

Definition link_at (l : list positive) (k : nat) : ptr * ptr :=      (* (next, prev) *)
  (l !! S k, match k with S k' => l !! k' | O => last l end).         (* head.prev = tail *)
Definition chain_entries (l : list positive) : list (positive * (ptr * ptr)) :=
  imap (fun k x => (x, link_at l k)) l.
Definition links (l : list positive) : gmap positive (ptr * ptr) :=
  list_to_map (chain_entries l).

(** * Canonical encoding *)

Definition root_entries (R : list positive) : list (positive * (ptr * ptr)) :=
  (fun r => (r, (None, None))) <$> R.
Definition lnk_entries (R : list positive) (FL : list fnode) : list (positive * (ptr * ptr)) :=
  root_entries R ++ (FL ≫= fun n => chain_entries (fn_cids n)).
Definition lnk_of (R : list positive) (FL : list fnode) : gmap positive (ptr * ptr) :=
  list_to_map (lnk_entries R FL).

(** [child] = the first child; without children: the borrowed pointer of a reference node *)
Definition child_of (d : rdata) (cs : list positive) : ptr :=
  match cs with c :: _ => Some c | [] => rd_ref d end.
Definition mk_dat (d : rdata) (cs : list positive) : ndata :=
  mkND (rd_type d) (rd_vstr d) (rd_vint d) (rd_vdbl d) (rd_key d) (child_of d cs).
Definition dat_entries (FL : list fnode) : list (positive * ndata) :=
  (fun n => (fn_id n, mk_dat (fn_data n) (fn_cids n))) <$> FL.
Definition dat_of (FL : list fnode) : gmap positive ndata := list_to_map (dat_entries FL).

Definition heap_lnk_of (F : forest) : gmap positive (ptr * ptr) := lnk_of (roots F) (flat F).
Definition heap_dat_of (F : forest) : gmap positive ndata := dat_of (flat F).

(** * Ownership, as cJSON_Delete reads the two flag bits *)

Definition is_ref (d : rdata) : bool := negb (Z.land (rd_type d) c_cJSON_IsReference =? 0).
Definition is_const (d : rdata) : bool := negb (Z.land (rd_type d) c_cJSON_StringIsConst =? 0).
Definition opt_list {A} (o : option A) : list A := match o with Some a => [a] | None => [] end.
(** the string blocks [cJSON_Delete] releases together with a node *)
Definition owned_strs (d : rdata) : list positive :=
  (if is_ref d then [] else opt_list (rd_vstr d)) ++ (if is_const d then [] else opt_list (rd_key d)).
Definition owned_fn (n : fnode) : list positive := fn_id n :: owned_strs (fn_data n).
(** every block owned by a flat node list / a forest: node blocks and owned string blocks *)
Definition owned_fl (FL : list fnode) : list positive := FL ≫= owned_fn.
Definition owned (F : forest) : list positive := owned_fl (flat F).

(** * Well-formedness: heap [h] encodes forest [F] *)

(** reference nodes ([create_reference]) have no children of their own, and only they may
    carry a borrowed child pointer *)
Definition ref_ok (n : fnode) : Prop :=
  (is_ref (fn_data n) = true -> fn_cids n = []) /\ (rd_ref (fn_data n) <> None -> is_ref (fn_data n) = true).

Record WF (h : heap) (F : forest) : Prop := mkWF {
  wf_nodup : NoDup (ids F);                          (* node ids pairwise distinct *)
  wf_lnk : h_lnk h = heap_lnk_of F;                  (* the link map is exactly the canonical one *)
  wf_dat : h_dat h = heap_dat_of F;                  (* the data map is exactly the canonical one *)
  wf_owned_nodup : NoDup (owned F);                  (* node blocks and owned strings pairwise distinct *)
  wf_owned_live : forall b, b ∈ owned F -> b ∈ h_live h;
  wf_owned_lib : forall b, b ∈ owned F -> h_own h !! b = Some Lib;
  wf_fresh : forall b, b ∈ owned F -> (b < h_next h)%positive;   (* identities come from the allocator *)
  wf_ref : Forall ref_ok (flat F)
}.

(** the other half of the ledger invariant (C07): nothing but the forest is live library memory *)
Definition NoLeak (h : heap) (F : forest) : Prop :=
  forall b, b ∈ lib_live h -> b ∈ owned F.

(** key strings are readable C strings (needed by the by-key queries only) *)
Definition KeysReadable (h : heap) (F : forest) : Prop :=
  forall n b, n ∈ flat F -> rd_key (fn_data n) = Some b ->
    b ∈ h_live h /\ exists s, h_str h !! b = Some s /\ existsb (Z.eqb 0) s = true.

(** * Navigation and the structural edit primitives of the specification (CoreSpec.v) *)

(** the node with id [p] (first in preorder; unique when ids are distinct) *)
Definition find_tree (p : positive) (F : forest) : option tree :=
  List.find (fun n => bool_decide (tid n = p)) (nodes F).
(** the root tree with id [x] *)
Definition find_root (x : positive) (F : forest) : option tree :=
  List.find (fun t => bool_decide (tid t = x)) F.
Definition remove_root (x : positive) (F : forest) : forest :=
  List.filter (fun t => negb (bool_decide (tid t = x))) F.

(** replace the children list of node [p] *)
Fixpoint set_children_t (p : positive) (cs' : list tree) (t : tree) : tree :=
  match t with
  | T i d cs => if decide (i = p) then T i d cs' else T i d (set_children_t p cs' <$> cs)
  end.
Definition set_children (p : positive) (cs' : list tree) (F : forest) : forest :=
  set_children_t p cs' <$> F.

(** replace the data of node [p] *)
Fixpoint set_data_t (p : positive) (d' : rdata) (t : tree) : tree :=
  match t with
  | T i d cs => if decide (i = p) then T i d' cs else T i d (set_data_t p d' <$> cs)
  end.
Definition set_data (p : positive) (d' : rdata) (F : forest) : forest := set_data_t p d' <$> F.

(** insertion before position [k] *)
Definition insert_at {A} (k : nat) (a : A) (l : list A) : list A := take k l ++ a :: drop k l.

(** position of id [x] in a list of ids *)
Fixpoint index_of (x : positive) (l : list positive) : option nat :=
  match l with
  | [] => None
  | y :: r => if decide (y = x) then Some O else S <$> index_of x r
  end.

Definition is_root (F : forest) (x : positive) : Prop := x ∈ roots F.
