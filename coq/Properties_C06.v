(** Properties_C06.v — C06: any sequence of tree edits behaves like the ordered-list model.

    THE OBJECTS.  [op3] (CoreHistoryAll.v) is the public edit/query API as an operation alphabet;
    [run_op3 o] is the TRANSLITERATED C code of call [o] (CoreDefs.v: same guards, same order of
    loads, stores, allocations, releases) on the heap of Heap.v, whose error outcomes are the
    memory-safety violations; [spec_step3 S o] is the list model of the call on the abstract state
    [S] (a forest of id-labelled ordered trees = every container with its children IN ORDER and
    their keys, the allocator counters, the string heap, the caller-owned blocks);
    [pre_ok3b S o] is the CHECKER of the documented ownership rules on the abstract state: an
    added / inserted item or a replacement is a detached root and the container is not inside
    it; containers handed to a call are not reference nodes; names are readable C strings;
    constant keys and referenced strings are caller memory; count <= length of the caller's
    array.  NULL arguments, negative or too large indices, missing keys and INSERTING A CONTAINER
    INTO ITSELF are not rule violations: they are accepted by the checker and REFUSED by the
    call (result false / NULL, state unchanged: section 3).

    [Abs3 h S]: heap [h] represents [S] — [WF] (the node maps ARE the canonical encoding of the
    forest: next forward ending in NULL, prev backward, head.prev = last, roots without links;
    owned blocks distinct, live, library-tagged), [NoLeak], allocator counters, string heap
    agreement, readable keys, [HeapOK] (contains live_below).

    1. the history theorem      2. one simulation theorem per API call group (WF level, with the
    explicit result heap)       3. refusals    4. queries    5. links    6. non-vacuity. *)
From CJ Require Import Base Dbl Heap Forest ForestLemmas CoreSpec CoreDefs CoreRefineBase CoreRefine
  CoreRefineDelete CoreRefineReplace CoreRefineMore CoreRefineFrame CoreRefineHistory CoreRefineObject
  CoreRefineByKey CoreRefineAddObject CoreRefineHistoryObj CoreRefineHistoryObjEx CoreRefineReplaceKey
  CoreRefineReplaceKeyAbs CoreRefineCreate CoreRefineSet CoreRefineRef CoreRefineArray CoreRefineLinks
  CoreLedgerGen CoreHistoryAllSteps CoreHistoryAllArr CoreHistoryAllArrStep CoreHistoryAllNull CoreHistoryAll CoreHistoryAllQ
  CoreHistoryAllRefuse CoreHistoryAllEx CoreRefineDupBase CoreRefineDupTree CoreRefineDupNode CoreRefineDupForest
  CoreLedgerAll CoreLedgerDup CoreHistoryAllIter.
From CJ.gen Require Import Constants.
From Coq Require Import Floats.SpecFloat.
From stdpp Require Import gmap.
Local Open Scope Z_scope.

(** ------------------------------------------------------------------ 1. histories *)

(** EVERY finite history of public calls that the checker accepts, run from the empty heap: no call
    ends in an error outcome (no use after free, double free, foreign free / write, NULL
    dereference, wrong block kind, out-of-bounds, no loop out of fuel), every call returns
    exactly what the list model returns, and the final heap represents the model's final state —
    every container holds the items the model predicts, in the same order, with the same keys. *)
Theorem C06_history : forall ops,
  pre_ok_all3b S0 ops = true ->
  exists h', run_ops3 ops empty_heap = Ret (spec_results3 S0 ops, h') /\ Abs3 h' (spec_run3 S0 ops).
Proof. exact history3_checked. Qed.
Print Assumptions C06_history.

(** the same from any represented state, with the rules as a predicate *)
Theorem C06_history_from_any_state : forall ops h S,
  Abs3 h S -> pre_ok_all3 S ops ->
  exists h', run_ops3 ops h = Ret (spec_results3 S ops, h') /\ Abs3 h' (spec_run3 S ops).
Proof. exact history_sim3. Qed.
Print Assumptions C06_history_from_any_state.

(** one call *)
Theorem C06_step : forall h S o,
  Abs3 h S -> pre_ok3 S o ->
  exists h', run_op3 o h = Ret ((spec_step3 S o).2, h') /\ Abs3 h' (spec_step3 S o).1.
Proof. exact step_sim3. Qed.
Print Assumptions C06_step.

(** the boolean checker decides (a sufficient condition of) the rules *)
Theorem C06_checker_sound : forall S o, pre_ok3b S o = true -> pre_ok3 S o.
Proof. exact pre_ok3b_sound. Qed.
Theorem C06_checker_all_sound : forall ops S, pre_ok_all3b S ops = true -> pre_ok_all3 S ops.
Proof. exact pre_ok_all3b_sound. Qed.

(** the theorem speaks about every moment of a history: the rules are prefix-closed *)
Theorem C06_history_prefixes : forall ops1 S ops2,
  pre_ok_all3 S (ops1 ++ ops2) -> pre_ok_all3 S ops1 /\ pre_ok_all3 (spec_run3 S ops1) ops2.
Proof. exact pre_ok_all3_app. Qed.

(** the names of the alphabet are the public functions *)
Theorem C06_alphabet_is_the_api :
  (forall ty, run_op3 (O2 (OArr (OCreate ty))) = (r <~ (q <~ create_with_type nv ty ;; ret (RPtr q)) ;; ret (R r))) /\
  cJSON_CreateNull nv = create_with_type nv c_cJSON_NULL /\
  cJSON_CreateTrue nv = create_with_type nv c_cJSON_True /\
  cJSON_CreateFalse nv = create_with_type nv c_cJSON_False /\
  (forall b, cJSON_CreateBool nv b = create_with_type nv (if b then c_cJSON_True else c_cJSON_False)) /\
  cJSON_CreateArray nv = create_with_type nv c_cJSON_Array /\
  cJSON_CreateObject nv = create_with_type nv c_cJSON_Object /\
  (forall a i, run_op3 (O2 (OArr (OAdd a i))) = (r <~ (b <~ cJSON_AddItemToArray a i ;; ret (RBool b)) ;; ret (R r))) /\
  (forall ob n i, run_op3 (O2 (OAddObj ob n i false)) = (r <~ (b <~ cJSON_AddItemToObject nv ob n i ;; ret (RBool b)) ;; ret (R r))) /\
  (forall ob n i, run_op3 (O2 (OAddObj ob n i true)) = (r <~ (b <~ cJSON_AddItemToObjectCS nv ob n i ;; ret (RBool b)) ;; ret (R r))) /\
  (forall ob n, run_op3 (O2 (OGetKey ob n false)) = (r <~ (q <~ cJSON_GetObjectItem ob n ;; ret (RPtr q)) ;; ret (R r))) /\
  (forall ob n, run_op3 (O2 (OGetKey ob n true)) = (r <~ (q <~ cJSON_GetObjectItemCaseSensitive ob n ;; ret (RPtr q)) ;; ret (R r))) /\
  (forall ob n, run_op3 (O2 (ODetachKey ob n false)) = (r <~ (q <~ cJSON_DetachItemFromObject ob n ;; ret (RPtr q)) ;; ret (R r))) /\
  (forall ob n, run_op3 (O2 (ODetachKey ob n true)) =
                (r <~ (q <~ cJSON_DetachItemFromObjectCaseSensitive ob n ;; ret (RPtr q)) ;; ret (R r))) /\
  (forall ob n, run_op3 (O2 (ODeleteKey ob n false)) = (r <~ (cJSON_DeleteItemFromObject ob n ;;; ret RUnit) ;; ret (R r))) /\
  (forall ob n, run_op3 (O2 (ODeleteKey ob n true)) =
                (r <~ (cJSON_DeleteItemFromObjectCaseSensitive ob n ;;; ret RUnit) ;; ret (R r))) /\
  (forall ob n i, run_op3 (OReplaceItemInObject ob n i false) = (b <~ cJSON_ReplaceItemInObject nv ob n i ;; ret (R (RBool b)))) /\
  (forall ob n i, run_op3 (OReplaceItemInObject ob n i true) =
                  (b <~ cJSON_ReplaceItemInObjectCaseSensitive nv ob n i ;; ret (R (RBool b)))) /\
  (forall ob n, run_op3 (OAddToObject KNull ob n) = (q <~ cJSON_AddNullToObject nv ob n ;; ret (R (RPtr q)))) /\
  (forall ob n s, run_op3 (OAddToObject (KString s) ob n) = (q <~ cJSON_AddStringToObject nv ob n s ;; ret (R (RPtr q)))).
Proof. exact api_names. Qed.

(** ------------------------------------------------------------------ 2. one theorem per call group
    (heap level: [WF h F] before, the explicit result heap, [WF] after; [spec_*] is the list model) *)

Theorem C06_add_to_array : forall h F p x tx d cs,
  WF h F -> p <> x -> find_root x F = Some tx -> find_tree p (remove_root x F) = Some (T p d cs) -> is_ref d = false ->
  let F' := set_children p (cs ++ [tx]) (remove_root x F) in
  spec_add_to_array F (Some p) (Some x) = (F', true) /\
  cJSON_AddItemToArray (Some p) (Some x) h = Ret (true, upd_maps h (heap_lnk_of F') (heap_dat_of F')) /\
  WF (upd_maps h (heap_lnk_of F') (heap_dat_of F')) F'.
Proof. exact cJSON_AddItemToArray_sim. Qed.
Print Assumptions C06_add_to_array.

Theorem C06_detach_via_pointer : forall h F p x d cs (k : nat) tx,
  WF h F -> find_tree p F = Some (T p d cs) -> cs !! k = Some tx -> tid tx = x ->
  let F' := set_children p (delete k cs) F ++ [tx] in
  spec_detach F (Some p) (Some x) = (F', Some x) /\
  cJSON_DetachItemViaPointer (Some p) (Some x) h = Ret (Some x, upd_maps h (heap_lnk_of F') (heap_dat_of F')) /\
  WF (upd_maps h (heap_lnk_of F') (heap_dat_of F')) F'.
Proof. exact cJSON_DetachItemViaPointer_sim. Qed.
Print Assumptions C06_detach_via_pointer.

Theorem C06_detach_from_array : forall h F p d cs which tx,
  WF h F -> find_tree p F = Some (T p d cs) -> is_ref d = false -> 0 <= which -> cs !! Z.to_nat which = Some tx ->
  let F' := set_children p (delete (Z.to_nat which) cs) F ++ [tx] in
  spec_detach_index F (Some p) which = (F', Some (tid tx)) /\
  cJSON_DetachItemFromArray (Some p) which h = Ret (Some (tid tx), upd_maps h (heap_lnk_of F') (heap_dat_of F')) /\
  WF (upd_maps h (heap_lnk_of F') (heap_dat_of F')) F'.
Proof. exact cJSON_DetachItemFromArray_sim. Qed.

Theorem C06_insert_before : forall h F p x tx d cs which,
  WF h F -> p <> x -> find_root x F = Some tx -> find_tree p (remove_root x F) = Some (T p d cs) -> is_ref d = false ->
  0 <= which -> (Z.to_nat which < length cs)%nat ->
  let F' := set_children p (insert_at (Z.to_nat which) tx cs) (remove_root x F) in
  spec_insert F (Some p) which (Some x) = (F', true) /\
  cJSON_InsertItemInArray (Some p) which (Some x) h = Ret (true, upd_maps h (heap_lnk_of F') (heap_dat_of F')) /\
  WF (upd_maps h (heap_lnk_of F') (heap_dat_of F')) F'.
Proof. exact cJSON_InsertItemInArray_sim_before. Qed.
Print Assumptions C06_insert_before.
Theorem C06_insert_past_the_end : forall h F p x tx d cs which,
  WF h F -> p <> x -> find_root x F = Some tx -> find_tree p (remove_root x F) = Some (T p d cs) -> is_ref d = false ->
  0 <= which -> (length cs <= Z.to_nat which)%nat ->
  let F' := set_children p (cs ++ [tx]) (remove_root x F) in
  spec_insert F (Some p) which (Some x) = (F', true) /\
  cJSON_InsertItemInArray (Some p) which (Some x) h = Ret (true, upd_maps h (heap_lnk_of F') (heap_dat_of F')) /\
  WF (upd_maps h (heap_lnk_of F') (heap_dat_of F')) F'.
Proof. exact cJSON_InsertItemInArray_sim_append. Qed.

Theorem C06_replace_via_pointer : forall h F p y r tr ty d cs (k : nat),
  WF h F -> find_root r F = Some tr -> find_tree p (remove_root r F) = Some (T p d cs) -> cs !! k = Some ty -> tid ty = y ->
  let F0 := remove_root r F in
  let F1 := set_children p (<[k := tr]> cs) F0 ++ [ty] in
  let F' := set_children p (<[k := tr]> cs) F0 in
  let h1 := upd_maps h (heap_lnk_of F1) (heap_dat_of F1) in
  let h' := free_all (free_order [ty]) h1 in
  spec_replace F (Some p) (Some y) (Some r) = (F', true) /\
  cJSON_ReplaceItemViaPointer (Some p) (Some y) (Some r) h = Ret (true, h') /\ WF h' F' /\ (NoLeak h F -> NoLeak h' F').
Proof. exact cJSON_ReplaceItemViaPointer_sim. Qed.
Print Assumptions C06_replace_via_pointer.
Theorem C06_replace_in_array : forall h F p r tr ty d cs which,
  WF h F -> find_root r F = Some tr -> find_tree p (remove_root r F) = Some (T p d cs) -> 0 <= which ->
  cs !! Z.to_nat which = Some ty ->
  let k := Z.to_nat which in
  let F0 := remove_root r F in
  let F1 := set_children p (<[k := tr]> cs) F0 ++ [ty] in
  let F' := set_children p (<[k := tr]> cs) F0 in
  let h' := free_all (free_order [ty]) (upd_maps h (heap_lnk_of F1) (heap_dat_of F1)) in
  spec_replace_index F (Some p) which (Some r) = (F', true) /\
  cJSON_ReplaceItemInArray (Some p) which (Some r) h = Ret (true, h') /\ WF h' F' /\ (NoLeak h F -> NoLeak h' F').
Proof. exact cJSON_ReplaceItemInArray_sim. Qed.
(** replace by key = give the replacement an owned copy of the name, look the member up BY THE COPY
    (case-sensitive or folded), replace via pointer; at the level of the representation *)
Theorem C06_replace_in_object : forall S object name replacement cs,
  pre_replace_key S object name replacement ->
  Step (replace_item_in_object nv object name replacement cs) S
       (spec_replace_key3 S object name replacement cs).1 (spec_replace_key3 S object name replacement cs).2.
Proof. exact Step_replace_key. Qed.
Print Assumptions C06_replace_in_object.

Theorem C06_delete : forall h F x tx,
  WF h F -> find_root x F = Some tx ->
  let F' := remove_root x F in
  let h' := free_all (free_order [tx]) h in
  spec_delete F (Some x) = F' /\ cJSON_Delete (Some x) h = Ret (tt, h') /\ WF h' F' /\ (NoLeak h F -> NoLeak h' F').
Proof. exact cJSON_Delete_sim. Qed.
Print Assumptions C06_delete.
Theorem C06_delete_from_array : forall h F p d cs which tx,
  WF h F -> find_tree p F = Some (T p d cs) -> is_ref d = false -> 0 <= which -> cs !! Z.to_nat which = Some tx ->
  let F1 := set_children p (delete (Z.to_nat which) cs) F ++ [tx] in
  let F' := set_children p (delete (Z.to_nat which) cs) F in
  let h' := free_all (free_order [tx]) (upd_maps h (heap_lnk_of F1) (heap_dat_of F1)) in
  spec_delete_index F (Some p) which = F' /\
  cJSON_DeleteItemFromArray (Some p) which h = Ret (tt, h') /\ WF h' F' /\ (NoLeak h F -> NoLeak h' F').
Proof. exact cJSON_DeleteItemFromArray_sim. Qed.

(** add to object: the key is a fresh copy of the name (made BEFORE the item's old key is released) *)
Theorem C06_add_to_object_owned_key : forall (oracle : nat -> bool) h F p x sb d dp cs csp,
  WF h F -> p <> x -> find_root x F = Some (T x d cs) -> find_tree p (remove_root x F) = Some (T p dp csp) ->
  is_ref dp = false ->
  forall s : bytes, CoreRefineObject.Readable h sb -> h_str h !! sb = Some s -> oracle (h_req h) = false ->
  let nk := h_next h in
  let d' := rd_owned_key d nk in
  let F' := set_children p (csp ++ [T x d' cs]) (remove_root x F) in
  let hb := free_all (old_key d) (alloc_str h (cstr s ++ [0])) in
  spec_add_to_object F (Some p) (Some sb) (Some x) false (Some nk) = (F', true) /\
  add_item_to_object oracle (Some p) (Some sb) (Some x) false h = Ret (true, upd_maps hb (heap_lnk_of F') (heap_dat_of F')) /\
  WF (upd_maps hb (heap_lnk_of F') (heap_dat_of F')) F'.
Proof. exact add_item_to_object_sim_owned. Qed.
Print Assumptions C06_add_to_object_owned_key.
(** … or the caller's block itself (cJSON_AddItemToObjectCS) *)
Theorem C06_add_to_object_constant_key : forall (oracle : nat -> bool) h F p x sb d dp cs csp,
  WF h F -> p <> x -> find_root x F = Some (T x d cs) -> find_tree p (remove_root x F) = Some (T p dp csp) ->
  is_ref dp = false ->
  let d' := rd_const_key d sb in
  let F' := set_children p (csp ++ [T x d' cs]) (remove_root x F) in
  let hb := free_all (old_key d) h in
  spec_add_to_object F (Some p) (Some sb) (Some x) true None = (F', true) /\
  add_item_to_object oracle (Some p) (Some sb) (Some x) true h = Ret (true, upd_maps hb (heap_lnk_of F') (heap_dat_of F')) /\
  WF (upd_maps hb (heap_lnk_of F') (heap_dat_of F')) F'.
Proof. exact add_item_to_object_sim_const. Qed.
(** the cJSON_Add{Null,…,Array}ToObject helpers: create, add, delete again on refusal *)
Theorem C06_add_helpers : forall S k,
  pre_created S k -> Step (run_created k) S (spec_created S k).1 (spec_created S k).2.
Proof. exact Step_created. Qed.
Theorem C06_add_helpers_tail : forall S1 item object name (yes no : ptr),
  pre_add_or_delete S1 item object name ->
  Step (ok <~ add_item_to_object nv object name item false ;; if ok then ret yes else cJSON_Delete item ;;; ret no)
       S1 (spec_add_or_delete S1 item object name yes no).1 (spec_add_or_delete S1 item object name yes no).2.
Proof. exact (@Step_add_or_delete ptr). Qed.
Print Assumptions C06_add_helpers_tail.

(** by key: lookup / detach / delete, both case variants *)
Theorem C06_by_key_get : forall h F p d cs nb (sn : bytes),
  WF h F -> KeysReadable h F -> find_tree p F = Some (T p d cs) -> nb ∈ h_live h -> h_str h !! nb = Some sn ->
  existsb (Z.eqb 0) sn = true ->
  forall case_sensitive : bool, is_ref d = false ->
  get_object_item (Some p) (Some nb) case_sensitive h = Ret (spec_get_key (h_str h) F (Some p) (Some nb) case_sensitive, h).
Proof. exact get_object_item_sim. Qed.
Print Assumptions C06_by_key_get.
Theorem C06_by_key_detach : forall h F p d cs nb (sn : bytes),
  WF h F -> KeysReadable h F -> find_tree p F = Some (T p d cs) -> is_ref d = false -> nb ∈ h_live h ->
  h_str h !! nb = Some sn -> existsb (Z.eqb 0) sn = true ->
  forall case_sensitive : bool,
  let '(F', r) := spec_detach_key (h_str h) F (Some p) (Some nb) case_sensitive in
  exists h', (to_detach <~ get_object_item (Some p) (Some nb) case_sensitive ;; cJSON_DetachItemViaPointer (Some p) to_detach) h
               = Ret (r, h') /\
             WF h' F' /\ (NoLeak h F -> NoLeak h' F') /\ Frame h h' F F' /\ h_next h' = h_next h /\ h_req h' = h_req h.
Proof. exact detach_by_key_sim. Qed.
Theorem C06_by_key_delete : forall h F p d cs nb (sn : bytes),
  WF h F -> KeysReadable h F -> find_tree p F = Some (T p d cs) -> is_ref d = false -> nb ∈ h_live h ->
  h_str h !! nb = Some sn -> existsb (Z.eqb 0) sn = true ->
  forall case_sensitive : bool,
  exists h', (it <~ (to_detach <~ get_object_item (Some p) (Some nb) case_sensitive ;;
                     cJSON_DetachItemViaPointer (Some p) to_detach) ;; cJSON_Delete it) h = Ret (tt, h') /\
             WF h' (spec_delete_key (h_str h) F (Some p) (Some nb) case_sensitive) /\
             (NoLeak h F -> NoLeak h' (spec_delete_key (h_str h) F (Some p) (Some nb) case_sensitive)) /\
             Frame h h' F (spec_delete_key (h_str h) F (Some p) (Some nb) case_sensitive) /\
             h_next h' = h_next h /\ h_req h' = h_req h.
Proof. exact delete_by_key_sim. Qed.

(** constructors (representation level: [Step m S S' r] = from every heap that represents [S], [m]
    returns [r] in a heap that represents [S']) *)
Theorem C06_create_number : forall S n,
  Step (cJSON_CreateNumber nv n) S (spec_new_node S (rd_number n)).1 (spec_new_node S (rd_number n)).2.
Proof. exact Step_CreateNumber. Qed.
Theorem C06_create_string_raw : forall S ty sb,
  Z.land ty c_cJSON_IsReference = 0 -> Z.land ty c_cJSON_StringIsConst = 0 -> sb = None \/ name_ok S sb ->
  Step (create_string_like nv ty sb) S (spec_new_string S ty sb).1 (spec_new_string S ty sb).2.
Proof. exact Step_create_string_like. Qed.
Print Assumptions C06_create_string_raw.
Theorem C06_create_typed : forall S o, pre_ok2 S o -> Step (run_op2 nv o) S (spec_step2 nv S o).1 (spec_step2 nv S o).2.
Proof. exact Step_op2. Qed.
Theorem C06_create_string_reference : forall S s,
  Step (cJSON_CreateStringReference nv s) S (spec_new_node S (rd_string_ref s)).1 (spec_new_node S (rd_string_ref s)).2.
Proof. exact Step_CreateStringReference. Qed.
Theorem C06_create_object_reference : forall S c,
  Step (cJSON_CreateObjectReference nv c) S (spec_new_node S (rd_container_ref c_cJSON_Object c)).1
       (spec_new_node S (rd_container_ref c_cJSON_Object c)).2.
Proof. exact Step_CreateObjectReference. Qed.
Theorem C06_create_array_reference : forall S c,
  Step (cJSON_CreateArrayReference nv c) S (spec_new_node S (rd_container_ref c_cJSON_Array c)).1
       (spec_new_node S (rd_container_ref c_cJSON_Array c)).2.
Proof. exact Step_CreateArrayReference. Qed.

(** references: a reference to node [y] is a new root without children, data [rd_reference] *)
Theorem C06_references : forall S item,
  ref_target S item -> Step (create_reference nv item) S (spec_create_ref S item).1 (spec_create_ref S item).2.
Proof. exact Step_create_reference. Qed.
Print Assumptions C06_references.
Theorem C06_add_reference_to_array : forall h F p dp cs y d csy,
  WF h F -> live_below h -> find_tree p F = Some (T p dp cs) -> is_ref dp = false -> find_tree y F = Some (T y d csy) ->
  let F' := set_children p (cs ++ [T (h_next h) (rd_reference d (tid <$> csy)) []]) F in
  let h' := upd_maps (new_node h (rd_reference d (tid <$> csy))) (heap_lnk_of F') (heap_dat_of F') in
  cJSON_AddItemReferenceToArray nv (Some p) (Some y) h = Ret (true, h') /\ WF h' F'.
Proof. exact cJSON_AddItemReferenceToArray_total. Qed.
Theorem C06_add_reference_to_object : forall h F p dp csp y d csy sb (s : bytes),
  WF h F -> live_below h -> find_tree p F = Some (T p dp csp) -> is_ref dp = false -> find_tree y F = Some (T y d csy) ->
  CoreRefineCreate.Readable h sb -> h_str h !! sb = Some s ->
  let r := h_next h in
  let F' := set_children p (csp ++ [T r (rd_owned_key (rd_reference d (tid <$> csy)) (Pos.succ r)) []]) F in
  let h' := upd_maps (alloc_str (new_node h (rd_reference d (tid <$> csy))) (cstr s ++ [0])) (heap_lnk_of F') (heap_dat_of F') in
  cJSON_AddItemReferenceToObject nv (Some p) (Some sb) (Some y) h = Ret (true, h') /\ WF h' F'.
Proof. exact cJSON_AddItemReferenceToObject_total. Qed.

(** setters *)
Theorem C06_set_number : forall S object n,
  node_or_null S object -> Step (cJSON_SetNumberValue object n) S (spec_set_number3 S object n) n.
Proof. exact Step_SetNumberValue. Qed.
Theorem C06_set_int : forall S object z,
  node_or_null S object -> Step (cJSON_SetIntValue object z) S (spec_set_int3 S object z) z.
Proof. exact Step_SetIntValue. Qed.
Theorem C06_set_bool : forall S object bv,
  node_or_null S object -> Step (cJSON_SetBoolValue object bv) S (spec_set_bool3 S object bv).1 (spec_set_bool3 S object bv).2.
Proof. exact Step_SetBoolValue. Qed.
(** cJSON_SetValuestring, every exit: refused (not a string / a reference / no valuestring / NULL),
    the argument is the node's own valuestring (refused), copied in place, reallocated *)
Theorem C06_set_valuestring : forall S object v,
  pre_set_valuestring S object v ->
  Step (cJSON_SetValuestring nv object v) S (spec_set_valuestring3 S object v).1 (spec_set_valuestring3 S object v).2.
Proof. exact Step_SetValuestring. Qed.
Print Assumptions C06_set_valuestring.

(** bulk array constructors: the array node [nxt S], its elements [nxt S + 1 …] in the order of the
    caller's array, [head.prev = last] — as a step of the representation *)
Theorem C06_bulk_arrays_numbers : forall (A : Type) (conv : A -> dbl) S (l : list A) count,
  0 <= count -> (Z.to_nat count <= length l)%nat ->
  Step (create_array_of nv (fun j : Z => v <~ rd_arr l j ;; cJSON_CreateNumber nv (conv v)) false count) S
       (spec_number_array S (conv <$> l) count).1 (spec_number_array S (conv <$> l) count).2.
Proof. exact (@Step_number_array). Qed.
Print Assumptions C06_bulk_arrays_numbers.
Theorem C06_bulk_arrays_strings : forall S (l : list ptr) count,
  0 <= count -> (Z.to_nat count <= length l)%nat -> strings_ok S l count ->
  Step (cJSON_CreateStringArray nv (Some l) count) S (spec_string_array S l count).1 (spec_string_array S l count).2.
Proof. exact Step_string_array. Qed.
Print Assumptions C06_bulk_arrays_strings.
Theorem C06_bulk_arrays_refused : forall oracle mk arg_is_null count h,
  count < 0 \/ arg_is_null = true -> create_array_of oracle mk arg_is_null count h = Ret (None, h).
Proof. exact create_array_of_refused. Qed.

(** ------------------------------------------------------------------ 3. refused calls: false / NULL, heap
    and abstract state unchanged *)

Theorem C06_refused_add_to_array : forall F array item h,
  array = None \/ item = None \/ array = item ->
  spec_add_to_array F array item = (F, false) /\ add_item_to_array array item h = Ret (false, h).
Proof. exact add_item_to_array_refused. Qed.
(** negative index, NULL item, INSERTING A CONTAINER INTO ITSELF *)
Theorem C06_refused_insert : forall F array which newitem h,
  which < 0 \/ newitem = None \/ array = newitem ->
  spec_insert F array which newitem = (F, false) /\ cJSON_InsertItemInArray array which newitem h = Ret (false, h).
Proof. exact cJSON_InsertItemInArray_refused. Qed.
Theorem C06_refused_detach_null : forall F parent item h,
  parent = None \/ item = None ->
  spec_detach F parent item = (F, None) /\ cJSON_DetachItemViaPointer parent item h = Ret (None, h).
Proof. exact cJSON_DetachItemViaPointer_null. Qed.
(** an item that is not in a chain (a detached root) *)
Theorem C06_refused_detach_not_attached : forall h F p x d cs,
  WF h F -> find_tree p F = Some (T p d cs) -> is_ref d = false -> x ∈ roots F ->
  spec_detach F (Some p) (Some x) = (F, None) /\ cJSON_DetachItemViaPointer (Some p) (Some x) h = Ret (None, h).
Proof. exact cJSON_DetachItemViaPointer_refused. Qed.
(** INDEX OUT OF RANGE *)
Theorem C06_refused_index_out_of_range : forall h F p d cs which,
  WF h F -> find_tree p F = Some (T p d cs) -> is_ref d = false -> which < 0 \/ (length cs <= Z.to_nat which)%nat ->
  spec_detach_index F (Some p) which = (F, None) /\ cJSON_DetachItemFromArray (Some p) which h = Ret (None, h).
Proof. exact cJSON_DetachItemFromArray_refused. Qed.
Theorem C06_refused_replace : forall h F p d cs item replacement,
  WF h F -> find_tree p F = Some (T p d cs) -> is_ref d = false -> cs = [] \/ item = None \/ replacement = None ->
  spec_replace F (Some p) item replacement = (F, false) /\
  cJSON_ReplaceItemViaPointer (Some p) item replacement h = Ret (false, h).
Proof. exact cJSON_ReplaceItemViaPointer_refused. Qed.
Theorem C06_refused_replace_null_parent : forall F item replacement h,
  spec_replace F None item replacement = (F, false) /\ cJSON_ReplaceItemViaPointer None item replacement h = Ret (false, h).
Proof. exact cJSON_ReplaceItemViaPointer_null. Qed.
Theorem C06_refused_add_to_object : forall oracle F object string item ck copy h,
  object = None \/ string = None \/ item = None \/ object = item ->
  spec_add_to_object F object string item ck copy = (F, false) /\
  add_item_to_object oracle object string item ck h = Ret (false, h).
Proof. exact add_item_to_object_refused. Qed.
Theorem C06_refused_replace_in_object : forall oracle strs F object string replacement cs copy h,
  replacement = None \/ string = None ->
  spec_replace_key strs F object string replacement cs copy = (F, false) /\
  replace_item_in_object oracle object string replacement cs h = Ret (false, h).
Proof. exact replace_item_in_object_refused. Qed.

(** the same on the ABSTRACT STATE of the history theorem: the whole state is unchanged *)
Theorem C06_refused_state_add : forall S a i,
  a = None \/ i = None \/ a = i -> spec_step3 S (O2 (OArr (OAdd a i))) = (S, R (RBool false)).
Proof. exact refused_add_to_array. Qed.
Theorem C06_refused_state_insert : forall S a w n,
  w < 0 \/ n = None \/ a = n -> spec_step3 S (O2 (OArr (OInsert a w n))) = (S, R (RBool false)).
Proof. exact refused_insert. Qed.
Theorem C06_refused_state_detach_null : forall S pa it,
  pa = None \/ it = None -> spec_step3 S (O2 (OArr (ODetach pa it))) = (S, R (RPtr None)).
Proof. exact refused_detach_null. Qed.
Theorem C06_refused_state_index : forall h S p dp cs w,
  Abs3 h S -> find_tree p (a_forest S) = Some (T p dp cs) -> is_ref dp = false -> w < 0 \/ (length cs <= Z.to_nat w)%nat ->
  spec_step3 S (O2 (OArr (ODetachIdx (Some p) w))) = (S, R (RPtr None)).
Proof. exact refused_detach_index. Qed.
Theorem C06_refused_state_replace : forall S pa it rp h dp cs p,
  Abs3 h S -> pa = Some p -> find_tree p (a_forest S) = Some (T p dp cs) -> is_ref dp = false ->
  cs = [] \/ it = None \/ rp = None -> spec_step3 S (O2 (OArr (OReplace pa it rp))) = (S, R (RBool false)).
Proof. exact refused_replace. Qed.
Theorem C06_refused_state_add_to_object : forall S ob n i ck,
  ob = None \/ n = None \/ i = None \/ ob = i -> spec_step3 S (O2 (OAddObj ob n i ck)) = (S, R (RBool false)).
Proof. exact refused_add_to_object. Qed.
(** MISSING KEY *)
Theorem C06_refused_state_missing_key : forall S ob n cs,
  spec_get_key (a_str S) (a_forest S) ob n cs = None ->
  spec_step3 S (O2 (ODetachKey ob n cs)) = (S, R (RPtr None)) /\ spec_step3 S (O2 (ODeleteKey ob n cs)) = (S, R RUnit).
Proof. exact refused_detach_missing_key. Qed.
Theorem C06_refused_state_replace_in_object : forall S ob n r cs,
  r = None \/ n = None -> spec_step3 S (OReplaceItemInObject ob n r cs) = (S, R (RBool false)).
Proof. exact refused_replace_in_object. Qed.

(** further refusals: a NULL array for detach / insert / replace / delete by index, a negative or
    too large index or a NULL replacement for replace / delete by index, a NULL object or name for
    the by-key lookup / detach / delete ([refused2]): the failure value, heap and state unchanged *)
Theorem C06_refused_more : forall S o, refused2 S o -> Step (run_op2 nv o) S (s2 S o).1 (s2 S o).2.
Proof. exact Step_refused2. Qed.
Print Assumptions C06_refused_more.
Theorem C06_refused_more_state : forall h S o, Abs3 h S -> refused2 S o -> (s2 S o).1 = S.
Proof. exact refused2_unchanged. Qed.
(** cJSON_ReplaceItemInObject(NULL, name, replacement): the C code gives the replacement its new key
    (a copy of the name; the old owned key is released) BEFORE it finds nothing to replace: false,
    every container unchanged, the detached replacement re-keyed *)
Theorem C06_refused_replace_in_null_object : forall S nb r cs,
  is_Some (find_tree r (a_forest S)) -> name_ok S (Some nb) ->
  Step (replace_item_in_object nv None (Some nb) (Some r) cs) S (spec_rekey_only S nb r) false.
Proof. exact Step_replace_null_object. Qed.
Print Assumptions C06_refused_replace_in_null_object.

(** ------------------------------------------------------------------ 4. queries *)

(** size = length of the children list; index k = the k-th child, NULL outside *)
Theorem C06_queries_size : forall h F p d cs,
  WF h F -> find_tree p F = Some (T p d cs) -> is_ref d = false ->
  cJSON_GetArraySize (Some p) h = Ret (spec_get_size F (Some p), h).
Proof. exact cJSON_GetArraySize_sim. Qed.
Theorem C06_queries_index : forall h F p d cs index,
  WF h F -> find_tree p F = Some (T p d cs) -> is_ref d = false ->
  cJSON_GetArrayItem (Some p) index h = Ret (spec_get_array_item F (Some p) index, h).
Proof. exact cJSON_GetArrayItem_sim. Qed.
Print Assumptions C06_queries_index.
(** case-sensitive lookup = the FIRST child whose key is exactly the name (the search stops at a
    child without key) *)
Theorem C06_queries_case_sensitive : forall strs name cs x,
  find_key_cs strs name cs = Some x <->
  exists (k : nat) c, cs !! k = Some c /\ tid c = x /\ key_string strs c = Some name /\
    forall (j : nat) c', (j < k)%nat -> cs !! j = Some c' -> exists kj, key_string strs c' = Some kj /\ kj <> name.
Proof. exact find_key_cs_first. Qed.
Print Assumptions C06_queries_case_sensitive.
(** case-insensitive lookup = the FIRST child whose key equals the name after ASCII case folding *)
Theorem C06_queries_case_insensitive : forall strs name cs x,
  find_key_ci strs name cs = Some x <->
  exists (k : nat) c, cs !! k = Some c /\ tid c = x /\ folded_match strs name c /\
    forall (j : nat) c', (j < k)%nat -> cs !! j = Some c' -> ~ folded_match strs name c'.
Proof. exact find_key_ci_first. Qed.
Print Assumptions C06_queries_case_insensitive.
(** iteration (cJSON_ArrayForEach: child, then next until NULL) visits exactly the children list, in order *)
Theorem C06_queries_iteration : forall h F p d cs,
  WF h F -> find_tree p F = Some (T p d cs) -> is_ref d = false ->
  CoreOps.array_for_each (Some p) h = Ret ((fun c => rd_type (tdata c)) <$> cs, h).
Proof. exact array_for_each_sim. Qed.
Print Assumptions C06_queries_iteration.
Theorem C06_queries_iteration_ids : forall h F p d cs (k : nat) c,
  WF h F -> find_tree p F = Some (T p d cs) -> (tid <$> cs) !! k = Some c ->
  get_next (Some c) h = Ret ((tid <$> cs) !! S k, h).
Proof. exact array_for_each_ids. Qed.
(** value queries *)
Theorem C06_queries_string_value : forall S item,
  node_or_null S item -> Step (cJSON_GetStringValue item) S S (spec_get_string_value S item).
Proof. exact Step_GetStringValue. Qed.
Theorem C06_queries_number_value : forall S item,
  node_or_null S item -> Step (cJSON_GetNumberValue item) S S (spec_get_number_value S item).
Proof. exact Step_GetNumberValue. Qed.

(** ------------------------------------------------------------------ 5. the sibling chain
    in every heap that encodes a forest — by C06_history every heap a rule-obeying history
    reaches ([Abs3 h S] contains [WF h (a_forest S)]).  [(p, d, ks) ∈ flat F]: node [p] has the
    children [ks], in this order: iteration (cJSON_ArrayForEach: child, then next until NULL)
    visits exactly [ks] in order. *)
Theorem C06_reached_states_are_wf : forall h S, Abs3 h S -> WF h (a_forest S).
Proof. exact Abs3_WF. Qed.

(** detached items and document roots have no sibling links *)
Theorem C06_links_root : forall h F, WF h F -> forall x, x ∈ roots F -> h_lnk h !! x = Some (None, None).
Proof. exact links_root. Qed.
(** [child] designates the first child *)
Theorem C06_links_child : forall h F, WF h F -> forall p d (ks : list positive),
  (p, d, ks) ∈ flat F -> is_ref d = false -> nd_child <$> h_dat h !! p = Some (ks !! 0%nat).
Proof. exact links_child. Qed.
(** forward links follow the children list and end in NULL *)
Theorem C06_links_next : forall h F, WF h F -> forall p d (ks : list positive),
  (p, d, ks) ∈ flat F -> forall (k : nat) c, ks !! k = Some c -> exists pv : ptr, h_lnk h !! c = Some ((ks !! S k : ptr), pv).
Proof. exact links_next. Qed.
Theorem C06_links_last_next : forall h F, WF h F -> forall p d (ks : list positive),
  (p, d, ks) ∈ flat F -> forall c, last ks = Some c -> exists pv : ptr, h_lnk h !! c = Some ((None : ptr), pv).
Proof. exact links_last_next. Qed.
(** each backward link mirrors a forward link *)
Theorem C06_links_prev : forall h F, WF h F -> forall p d (ks : list positive),
  (p, d, ks) ∈ flat F -> forall (k : nat) c c', ks !! k = Some c -> ks !! S k = Some c' ->
  exists nx : ptr, h_lnk h !! c' = Some (nx, (Some c : ptr)).
Proof. exact links_prev. Qed.
(** the first child's backward link designates the last child *)
Theorem C06_links_head_prev : forall h F, WF h F -> forall p d (ks : list positive),
  (p, d, ks) ∈ flat F -> forall c, ks !! 0%nat = Some c -> exists nx : ptr, h_lnk h !! c = Some (nx, (last ks : ptr)).
Proof. exact links_head_prev. Qed.
(** no cycles, no sharing *)
Theorem C06_links_nodup : forall h F, WF h F -> forall p d (ks : list positive), (p, d, ks) ∈ flat F -> NoDup ks.
Proof. exact links_nodup. Qed.
Print Assumptions C06_links_head_prev.
(** a DUPLICATED item has no sibling links (the copy theorem itself is C11) *)
Theorem C06_links_duplicated : forall h S p t,
  Abs3 h S -> find_tree p (a_forest S) = Some t ->
  vals_readable S t -> no_borrowed t -> (height t <= Z.to_nat c_CJSON_CIRCULAR_LIMIT)%nat ->
  exists tc h', cJSON_Duplicate nv (Some p) true h = Ret (Some (tid tc), h') /\ h_lnk h' !! tid tc = Some (None, None).
Proof. exact dup_root_no_links. Qed.
Print Assumptions C06_links_duplicated.

(** ------------------------------------------------------------------ 6. non-vacuity *)

(** a concrete 31-call history (arrays, objects with owned and constant keys, the helpers, a
    reference, a refused self-insertion, both lookups, replace by key, the setters, queries,
    out-of-range / negative indices, a NULL object) is
    accepted by the checker … *)
Theorem C06_nonvacuous_accepted : pre_ok_all3b S0 ex6 = true.
Proof. exact ex6_accepted. Qed.
(** … its results are these … *)
Theorem C06_nonvacuous_results :
  spec_results3 S0 ex6 =
  [R (RPtr (Some 1)); R (RPtr (Some 2)); R (RPtr (Some 3)); R (RPtr (Some 4)); R (RPtr (Some 5)); R (RBool true);
   R (RPtr (Some 6)); R (RBool true); R (RBool false); R (RBool true); R (RPtr (Some 9)); R (RPtr (Some 11));
   R (RPtr (Some 13)); R (RBool true); R (RBool true); R (RPtr (Some 4)); R (RPtr (Some 9)); R (RPtr (Some 15));
   R (RBool true); RDbl (dbl_of_int 9); R (RInt 513); R (RPtr (Some 7)); R (RBool true); RDbl (dbl_of_int 9);
   R (RInt 3); R (RPtr (Some 14)); R (RPtr None); R RUnit; R (RBool false); R (RPtr None); R RUnit]%positive.
Proof. exact ex6_results. Qed.
(** … and the theorem applies to it *)
Theorem C06_nonvacuous :
  exists h', run_ops3 ex6 empty_heap = Ret (spec_results3 S0 ex6, h') /\ Abs3 h' (spec_run3 S0 ex6).
Proof. exact ex6_history. Qed.
Print Assumptions C06_nonvacuous.

(** ------------------------------------------------------------------ 7. the EXTRACTED interpreter

    The theorems above speak about [run_op3], which takes block identities as arguments.  The
    correspondence check extracts and RUNS another interpreter against the C library:
    [CoreOps.run_op oracle st o] (CoreOps.v), whose operations [CoreOps.op] name their arguments by
    HANDLES into two pools [st] (items, caller strings), which pushes every returned [cJSON *] as a
    new handle and clears the handles of released blocks after every call.  Both interpreters call
    the same functions of CoreDefs.v.  This section transports sections 1 and 6 (and the ledger
    of C07) to that interpreter (CoreOpsBridge.v, CoreOpsBridgeHist.v, CoreOpsBridgeOwned.v).

    [tr V st o] translates a correspondence-level operation, in the pools [st] and a view [V] of what
    the caller can observe (the identity the next caller string gets, item->string,
    item->valuestring), into the caller strings it declares ([t_pre]), the proof-level call on the
    identities the handles denote ([t_main]; handle k = [nth k (st_items st)], NULL = [None]), the
    pools after the declarations ([t_st]) and the kind of its result ([t_kind]).  Without
    counterpart ([tr] = None): OInitHooks, OMalloc, OFree, OSetChildRaw, OSetLinksRaw, OChain,
    OChildDepth, ODuplicate.  OArrayForEach is the caller's loop (no call; kind [KEach]). *)
From CJ Require CoreOps CoreOpsBridgeEx.
From CJ Require Import CoreOpsBridge CoreOpsBridgeHist CoreOpsBridgeOwned.

(** THE COMMUTATION LEMMA: for every translatable operation, one step of the extracted interpreter
    (allocator that never refuses) IS the translated operations run by [run_ops3] — the same
    CoreDefs call on the same arguments, hence the same heap and the same error outcome if any —,
    then the result encoding [finish] (the returned identity is pushed exactly for the kind
    [KPush]), then the sweep of the pools.  No invariant, no rule is assumed. *)
Theorem C06_extracted_commutes : forall V st o t h,
  view_ok V h -> tr V st o = Some t ->
  CoreOps.run_op nv st o h =
  (rs <~ run_ops3 (tr_ops t) ;; x <~ finish (t_kind t) (t_st t) (main_res t rs) ;;
   st' <~ CoreOps.sweep (snd x) ;; ret (fst x, st')) h.
Proof. exact run_op_commutes. Qed.
Print Assumptions C06_extracted_commutes.
(** the same, explicit: same heap [h'], the proof-level result in the correspondence-level result type,
    the old pools extended by the returned identity, swept in [h'] *)
Theorem C06_extracted_commutes_ret : forall V st o t h rs h',
  view_ok V h -> tr V st o = Some t -> pure_kind (t_kind t) -> run_ops3 (tr_ops t) h = Ret (rs, h') ->
  CoreOps.run_op nv st o h =
  Ret ((enc (t_kind t) (main_res t rs), sweep_st h' (new_pools (t_kind t) (t_st t) (main_res t rs))), h').
Proof. exact run_op_commutes_Ret. Qed.
Theorem C06_extracted_commutes_err : forall V st o t h e,
  view_ok V h -> tr V st o = Some t -> run_ops3 (tr_ops t) h = Err e -> CoreOps.run_op nv st o h = Err e.
Proof. exact run_op_commutes_Err. Qed.
(** the new pools are the old pools extended by the identities the proof-level run returned: the
    declared caller strings to the string pool, the returned item (kind [KPush]) to the item pool *)
Theorem C06_extracted_pools : forall V st o t h rs h',
  view_ok V h -> tr V st o = Some t -> run_ops3 (tr_ops t) h = Ret (rs, h') ->
  CoreOps.st_strs (t_st t) = CoreOps.st_strs st ++ (res_ptr3 <$> take (length (t_pre t)) rs) /\
  CoreOps.st_items (new_pools (t_kind t) (t_st t) (main_res t rs)) =
    CoreOps.st_items (t_st t) ++ match t_kind t with KPush => [res_ptr3 (main_res t rs)] | _ => [] end.
Proof. exact pools_after_call. Qed.
(** the view that reads the heap itself is right; so is the view computed from the abstract state *)
Theorem C06_extracted_view_heap : forall h, view_ok (hview h) h.
Proof. exact view_ok_hview. Qed.
Theorem C06_extracted_view_model : forall h S, Abs3 h S -> view_ok (sview S) h.
Proof. exact view_ok_sview. Qed.
(** the decoders of the result encoding never see a result of another shape *)
Theorem C06_extracted_result_shape : forall V st o t m h r h',
  tr V st o = Some t -> t_main t = Some m -> run_op3 m h = Ret (r, h') -> shape (t_kind t) r.
Proof. exact tr_shape. Qed.

(** ACCEPTANCE of a correspondence-level call in pools [st] and model state [S] ([stepR], computed
    WITHOUT any heap): its translation passes the checker [pre_ok_all3b] of the documented ownership
    rules; the result is the list model's ([spec_results3] on the translated operations), the next
    model state is the list model's, the next pools are the old ones extended by the returned
    identity and swept against the blocks the model owns.  ([post_rules]: the caller reads a
    returned [char *] only if it is NULL or a readable string, and iterates only over NULL or a
    container that is not a reference node.) *)
Theorem C06_extracted_acceptance : forall st S o x st1 S1,
  stepR st S o = Some (x, st1, S1) <->
  exists t, tr (sview S) st o = Some t /\
    pre_ok_all3b S (tr_ops t) = true /\
    S1 = spec_run3 S (tr_ops t) /\
    post_rules (t_kind t) S1 (main_res t (spec_results3 S (tr_ops t))) = true /\
    x = encS (t_kind t) S1 (main_res t (spec_results3 S (tr_ops t))) /\
    st1 = sweepS S1 (new_pools (t_kind t) (t_st t) (main_res t (spec_results3 S (tr_ops t)))).
Proof. exact stepR_spec. Qed.

(** ONE STEP of the extracted interpreter from a heap that represents [S], with sane pools *)
Theorem C06_extracted_step : forall h st S o x st1 S1,
  Abs3 h S -> PoolsOK h st S -> stepR st S o = Some (x, st1, S1) ->
  exists h', CoreOps.run_op nv st o h = Ret ((x, st1), h') /\
             run_ops3 (step_ops st S o) h = Ret (spec_results3 S (step_ops st S o), h') /\
             S1 = spec_run3 S (step_ops st S o) /\ Abs3 h' S1 /\ PoolsOK h' st1 S1.
Proof. exact stepR_sim. Qed.
Print Assumptions C06_extracted_step.

(** C06_history FOR THE INTERPRETER THAT IS EXTRACTED AND EXECUTED.  Every accepted correspondence-level
    history ([runR]: [stepR] at every step, through the evolving pools and model state), run by
    [CoreOps.run_ops] from the empty heap with empty pools: every call RETURNS (no memory-error
    outcome), the per-call results [xs] are those of the list model, the heap reached is the heap
    [run_ops3] reaches on the translated history, and it represents the model's final state. *)
Theorem C06_history_extracted : forall ops xs st' S',
  runR CoreOps.empty_state S0 ops = Some (xs, st', S') ->
  exists h', CoreOps.run_ops nv CoreOps.empty_state ops empty_heap = Ret ((xs, st'), h') /\
             run_ops3 (tr_hist CoreOps.empty_state S0 ops) empty_heap =
               Ret (spec_results3 S0 (tr_hist CoreOps.empty_state S0 ops), h') /\
             S' = spec_run3 S0 (tr_hist CoreOps.empty_state S0 ops) /\ Abs3 h' S'.
Proof. exact history_extracted_rules. Qed.
Print Assumptions C06_history_extracted.
Theorem C06_history_extracted_from_any_state : forall ops h st S xs st2 S2,
  Abs3 h S -> PoolsOK h st S -> runR st S ops = Some (xs, st2, S2) ->
  exists h', CoreOps.run_ops nv st ops h = Ret ((xs, st2), h') /\
             run_ops3 (tr_hist st S ops) h = Ret (spec_results3 S (tr_hist st S ops), h') /\
             S2 = spec_run3 S (tr_hist st S ops) /\ Abs3 h' S2 /\ PoolsOK h' st2 S2.
Proof. exact runR_sim. Qed.
(** every moment: acceptance is prefix-closed *)
Theorem C06_history_extracted_prefixes : forall ops1 st S ops2 xs st2 S2,
  runR st S (ops1 ++ ops2) = Some (xs, st2, S2) ->
  exists xs1 st1 S1 xs2, runR st S ops1 = Some (xs1, st1, S1) /\ runR st1 S1 ops2 = Some (xs2, st2, S2) /\ xs = xs1 ++ xs2.
Proof. exact runR_app. Qed.
(** the item a call returns is a node of the model's forest: pushed handles denote owned blocks *)
Theorem C06_extracted_pushed_results : forall h S st o t x,
  Abs3 h S -> tr (sview S) st o = Some t -> t_kind t = KPush -> pre_ok_all3 S (tr_ops t) ->
  res_ptr3 (main_res t (spec_results3 S (tr_ops t))) = Some x -> x ∈ owned (a_forest (spec_run3 S (tr_ops t))).
Proof. exact push_owned_tr. Qed.
(** the driver's oracle for "no allocation failure" *)
Theorem C06_extracted_oracle : CoreOps.fail_kth 0 = nv.
Proof. exact fail_kth_0_never. Qed.

(** the ledger of C07 for the extracted interpreter: after every accepted history the live library
    blocks are exactly the blocks the model owns (the driver's [L<n>] = their number); deleting
    the remaining roots empties the ledger; caller memory is live and bit-identical *)
Theorem C07_balanced_extracted : forall ops xs st' S',
  runR CoreOps.empty_state S0 ops = Some (xs, st', S') ->
  exists h1 h2,
    CoreOps.run_ops nv CoreOps.empty_state ops empty_heap = Ret ((xs, st'), h1) /\ Abs3 h1 S' /\
    (forall b, b ∈ lib_live h1 <-> b ∈ owned (a_forest S')) /\
    CoreOps.live_count h1 = length (owned (a_forest S')) /\
    delete_roots (roots (a_forest S')) h1 = Ret (tt, h2) /\ lib_live h2 = ∅ /\ CoreOps.live_count h2 = 0%nat /\
    (forall b, h_own h1 !! b = Some Foreign -> b ∈ h_live h1 -> b ∈ h_live h2 /\ h_str h2 !! b = h_str h1 !! b).
Proof. exact ledger_extracted_rules. Qed.
Print Assumptions C07_balanced_extracted.

(** non-vacuity: a 31-call history in the syntax of the extracted interpreter (handles, string
    literals, pool strings; arrays, objects with owned and constant keys, a helper, both lookups,
    replace by key, setters, a returned string that is read, a dead handle, iteration, detach /
    delete by index and by key) is accepted … *)
Theorem C06_extracted_nonvacuous_accepted : accepted_rules CoreOpsBridgeEx.exB = true.
Proof. exact CoreOpsBridgeEx.exB_accepted. Qed.
(** … the list model's results and final pools are these … *)
Theorem C06_extracted_nonvacuous_model :
  match runR CoreOps.empty_state S0 CoreOpsBridgeEx.exB with
  | Some (xs, st, S') => Some (xs, st, a_forest S') | None => None end =
  Some (CoreOpsBridgeEx.exB_results, CoreOpsBridgeEx.exB_pools, []).
Proof. exact CoreOpsBridgeEx.exB_model. Qed.
(** … the extracted interpreter, RUN ([vm_compute]) from the empty heap, returns exactly these … *)
Theorem C06_extracted_nonvacuous_run :
  match CoreOps.run_ops nv CoreOps.empty_state CoreOpsBridgeEx.exB empty_heap with
  | Ret ((xs, st), h) => Some (xs, st, CoreOps.live_count h)
  | Err _ => None
  end = Some (CoreOpsBridgeEx.exB_results, CoreOpsBridgeEx.exB_pools, 0%nat).
Proof. exact CoreOpsBridgeEx.exB_run. Qed.
(** … both interpreters, RUN on its first 29 calls (= 31 proof-level operations), end in the same heap … *)
Theorem C06_extracted_nonvacuous_same_heap :
  CoreOpsBridgeEx.final_obs (CoreOps.run_ops nv CoreOps.empty_state (take 29 CoreOpsBridgeEx.exB)) =
  CoreOpsBridgeEx.final_obs (run_ops3 (tr_hist CoreOps.empty_state S0 (take 29 CoreOpsBridgeEx.exB))) /\
  is_Some (CoreOpsBridgeEx.final_obs (CoreOps.run_ops nv CoreOps.empty_state (take 29 CoreOpsBridgeEx.exB))) /\
  length (tr_hist CoreOps.empty_state S0 (take 29 CoreOpsBridgeEx.exB)) = 31%nat.
Proof. exact CoreOpsBridgeEx.exB_same_heap. Qed.
(** … and the case lines of corpus/C06 and corpus/C07 (those without allocation failure / printer
    calls), transcribed op by op, are accepted *)
Theorem C06_extracted_corpus_cases_accepted :
  accepted_rules CoreOpsBridgeEx.case_C06_f4_insert_self_1 = true /\
  accepted_rules CoreOpsBridgeEx.case_C06_f4_insert_self_2 = true /\
  accepted_rules CoreOpsBridgeEx.case_C06_f4_insert_self_3 = true /\
  accepted_rules CoreOpsBridgeEx.case_C06_first_folded_match_1 = true /\
  accepted_rules CoreOpsBridgeEx.case_C06_first_folded_match_2 = true /\
  accepted_rules CoreOpsBridgeEx.case_C06_single_child_replace_then_append_1 = true /\
  accepted_rules CoreOpsBridgeEx.case_C06_single_child_replace_then_append_2 = true /\
  accepted_rules CoreOpsBridgeEx.case_C06_single_child_replace_then_append_3 = true /\
  accepted_rules CoreOpsBridgeEx.case_C07_f5_replace_key_alias_1 = true /\
  accepted_rules CoreOpsBridgeEx.case_C07_f5_replace_key_alias_2 = true /\
  accepted_rules CoreOpsBridgeEx.case_C07_f5_replace_key_alias_3 = true /\
  accepted_rules CoreOpsBridgeEx.case_C07_key_ownership_change_1 = true /\
  accepted_rules CoreOpsBridgeEx.case_C07_key_ownership_change_2 = true.
Proof. exact CoreOpsBridgeEx.corpus_cases_accepted. Qed.

(** ------------------------------------------------------------------ 8. cJSON_Duplicate under the history
    theorem of the EXTRACTED interpreter

    Section 7 leaves [CoreOps.ODuplicate] without counterpart: C11 describes the copy by a relation.
    But the allocator of Heap.v is deterministic (a request obtains block [h_next], which then
    advances by one), so with the allocator that never refuses the copy — the identities of its
    blocks included — is a FUNCTION of the source and of the allocator counter
    (CoreOpsBridgeDupDefs.v): [dupm t a] numbers the blocks of the copy of the source [t] from [a] in
    the order of the C code's requests (node, valuestring, key unless cJSON_StringIsConst, then the
    children left to right, each completely before the next) and returns the counter after the
    call; it returns no copy when the walk meets a node that was cut off at CJSON_CIRCULAR_LIMIT
    (the call then releases what it built and returns NULL; the counters have advanced by the
    requests made so far).  The source of a recursive call is the unrolling
    [unroll F CJSON_CIRCULAR_LIMIT t] of C11 (below a reference node: the chain its child pointer
    designates), so the copy of a reference OWNS copies; a constant key is the same block.
    [spec_dup S item recurse] is the resulting list model of the call on the abstract state;
    [dup_okb S item] the rule: the item is NULL / a dead handle, or a node of the model's forest and
    every reference node of the forest designates a node of the forest and every valuestring is
    a readable string.  [stepRD] / [runRD] / [accepted_rulesD] extend [stepR] / [runR] /
    [accepted_rules] by this step (CoreOpsBridgeDupHist.v); [accepted_rulesD] is what the
    extracted driver evaluates to decide whether a generated history falls under the theorem. *)
From CJ Require Import CoreRefineDupLoop CoreRefineDupUnroll CoreOpsBridgeDupDefs CoreOpsBridgeDupSim CoreOpsBridgeDupStep
  CoreOpsBridgeDupHist.
From CJ Require CoreOpsBridgeDupEx.

(** THE EXACT SIMULATION (heap level, any closed heap; strengthens C11_copy_heap for the allocator
    that never refuses).  [PostX h t h']: [h_next h' = (dupm t (h_next h)).2]; the request counter
    advanced by as much as [h_next] ([ctr] = their difference); and EITHER [dupm] yields the copy
    [tc] and [Done never h t tc h'] — the frame [Ext], [tc] encoded as a detached tree,
    [copy_of h' t tc], nothing cut off — OR it yields no copy and [Ext [] [] h h'].
    [resX t a] is [Some a] (the root of the copy is the first block requested) or NULL. *)
Theorem C06_duplicate_exact : forall h t,
  Closed h -> src_t h (Pos.to_nat (h_next h)) (Z.to_nat c_CJSON_CIRCULAR_LIMIT) t ->
  exists h', cJSON_Duplicate never (Some (tid t)) true h = Ret (resX t (h_next h), h') /\ PostX h t h'.
Proof. exact cJSON_DuplicateX. Qed.
Print Assumptions C06_duplicate_exact.
(** the non-recursive call copies the node alone; it cannot be refused *)
Theorem C06_duplicate_flat_exact : forall h i d (ks : list positive),
  Closed h -> src_node h (Pos.to_nat (h_next h)) i d ks ->
  let tc := T (h_next h) (dup_data d (h_next h)) [] in
  exists h',
    cJSON_Duplicate never (Some i) false h = Ret (Some (h_next h), h') /\
    h_next h' = after_key d (h_next h) /\ ctr h' = ctr h /\
    Ext (nids (flat_t tc)) (sids (flat_t tc)) h h' /\ NoDup (nids (flat_t tc) ++ sids (flat_t tc)) /\
    Chain_ok h' [tc] None /\ Forall ref_ok (flat_t tc) /\ data_copy h' d (dup_data d (h_next h)).
Proof. exact cJSON_Duplicate_flatX. Qed.
Print Assumptions C06_duplicate_flat_exact.
(** the checker computes [dupm] of the unrolling in one pass with the early exit of the C code
    (the unrolling of a cyclic structure is never built) *)
Theorem C06_duplicate_one_pass : forall F k t a, dupw F k t a = dupm (unroll F k t) a.
Proof. exact dupw_unroll. Qed.

(** THE STEP OF THE LIST MODEL.  From every heap that represents [S], for every item the rule
    accepts, recursive or not: the call returns (no error outcome) the pointer the model computes
    from [S] alone, in a heap that represents the model's next state — after a success the forest
    extended by the copy, the string heap by the copy's strings; after a refusal at the depth limit
    the same forest and strings; in both cases the allocator counters the model predicts. *)
Theorem C06_duplicate_step : forall h S item recurse,
  Abs3 h S -> dup_okb S item = true ->
  exists h', cJSON_Duplicate nv item recurse h = Ret ((spec_dup S item recurse).2, h') /\
             Abs3 h' (spec_dup S item recurse).1.
Proof. exact dup_step. Qed.
Print Assumptions C06_duplicate_step.
(** the returned item is a block the model owns (so the pushed handle denotes an owned block) *)
Theorem C06_duplicate_result_owned : forall S item recurse x,
  (spec_dup S item recurse).2 = Some x -> x ∈ owned (a_forest (spec_dup S item recurse).1).
Proof. exact spec_dup_owned. Qed.

(** ACCEPTANCE with duplicate calls: every other operation is decided as in section 7 … *)
Theorem C06_extracted_acceptanceD_other : forall st S o, is_dup o = false -> stepRD st S o = stepR st S o.
Proof. exact stepRD_other. Qed.
(** … and a duplicate call is accepted exactly when [dup_okb] holds of the item its handle denotes;
    result, next model state and next pools are then these *)
Theorem C06_extracted_acceptanceD_dup : forall st S i recurse x st1 S1,
  stepRD st S (CoreOps.ODuplicate i recurse) = Some (x, st1, S1) <->
  dup_okb S (CoreOps.item_of st i) = true /\
  x = CoreOps.RPtr (spec_dup S (CoreOps.item_of st i) recurse).2 /\
  S1 = (spec_dup S (CoreOps.item_of st i) recurse).1 /\
  st1 = sweepS S1 (CoreOps.push_item st (spec_dup S (CoreOps.item_of st i) recurse).2).
Proof. exact stepRD_dup_spec. Qed.
(** the extension is conservative: what section 7 accepts is accepted, with the same results *)
Theorem C06_extracted_acceptanceD_conservative : forall ops st S y, runR st S ops = Some y -> runRD st S ops = Some y.
Proof. exact runR_runRD. Qed.
Theorem C06_extracted_accepted_rules_D : forall ops, accepted_rules ops = true -> accepted_rulesD ops = true.
Proof. exact accepted_rules_D. Qed.

(** ONE STEP of the extracted interpreter, duplicate calls included *)
Theorem C06_extracted_stepD : forall h st S o x st1 S1,
  Abs3 h S -> PoolsOK h st S -> stepRD st S o = Some (x, st1, S1) ->
  exists h', CoreOps.run_op nv st o h = Ret ((x, st1), h') /\ Abs3 h' S1 /\ PoolsOK h' st1 S1.
Proof. exact stepRD_sim. Qed.
Print Assumptions C06_extracted_stepD.

(** C06_history FOR THE EXTRACTED INTERPRETER, DUPLICATE CALLS INCLUDED.  Every history accepted by the
    boolean checker ([runRD]: [stepRD] at every step) — duplicate calls, recursive or not, on any
    item of the model's forest: roots, inner nodes, reference nodes, nodes with constant keys —
    run by [CoreOps.run_ops] from the empty heap with empty pools: every call RETURNS (no memory-error
    outcome), the per-call results [xs] and the final pools are those the list model computes, and
    the heap reached represents the model's final state. *)
Theorem C06_history_extractedD : forall ops xs st' S',
  runRD CoreOps.empty_state S0 ops = Some (xs, st', S') ->
  exists h', CoreOps.run_ops nv CoreOps.empty_state ops empty_heap = Ret ((xs, st'), h') /\ Abs3 h' S'.
Proof. exact history_extractedD. Qed.
Print Assumptions C06_history_extractedD.
Theorem C06_history_extractedD_accepted : forall ops,
  accepted_rulesD ops = true ->
  exists xs st' S' h', runRD CoreOps.empty_state S0 ops = Some (xs, st', S') /\
    CoreOps.run_ops nv CoreOps.empty_state ops empty_heap = Ret ((xs, st'), h') /\ Abs3 h' S'.
Proof. exact history_extractedD_accepted. Qed.
Theorem C06_history_extractedD_from_any_state : forall ops h st S xs st2 S2,
  Abs3 h S -> PoolsOK h st S -> runRD st S ops = Some (xs, st2, S2) ->
  exists h', CoreOps.run_ops nv st ops h = Ret ((xs, st2), h') /\ Abs3 h' S2 /\ PoolsOK h' st2 S2.
Proof. exact runRD_sim. Qed.
Theorem C06_history_extractedD_prefixes : forall ops1 st S ops2 xs st2 S2,
  runRD st S (ops1 ++ ops2) = Some (xs, st2, S2) ->
  exists xs1 st1 S1 xs2, runRD st S ops1 = Some (xs1, st1, S1) /\ runRD st1 S1 ops2 = Some (xs2, st2, S2) /\ xs = xs1 ++ xs2.
Proof. exact runRD_app. Qed.

(** the ledger of C07: after every accepted history the live library blocks are exactly the blocks
    the model owns — the blocks of every copy among them —, deleting the remaining roots empties
    the ledger, caller memory (constant keys, referenced strings) is live and bit-identical *)
Theorem C07_balanced_extractedD : forall ops xs st' S',
  runRD CoreOps.empty_state S0 ops = Some (xs, st', S') ->
  exists h1 h2,
    CoreOps.run_ops nv CoreOps.empty_state ops empty_heap = Ret ((xs, st'), h1) /\ Abs3 h1 S' /\
    (forall b, b ∈ lib_live h1 <-> b ∈ owned (a_forest S')) /\
    CoreOps.live_count h1 = length (owned (a_forest S')) /\
    delete_roots (roots (a_forest S')) h1 = Ret (tt, h2) /\ lib_live h2 = ∅ /\ CoreOps.live_count h2 = 0%nat /\
    (forall b, h_own h1 !! b = Some Foreign -> b ∈ h_live h1 -> b ∈ h_live h2 /\ h_str h2 !! b = h_str h1 !! b).
Proof. exact ledger_extractedD. Qed.
Print Assumptions C07_balanced_extractedD.

(** non-vacuity: a 33-call history that builds an object with an owned key, a constant key, a string
    reference and an array reference, duplicates it recursively and non-recursively, queries the
    copies, deletes the source, duplicates the copy / a dead handle / NULL / an inner node, and
    deletes everything, is accepted (and was not by section 7's checker) … *)
Theorem C06_extractedD_nonvacuous_accepted :
  accepted_rulesD CoreOpsBridgeDupEx.exD = true /\ accepted_rules CoreOpsBridgeDupEx.exD = false.
Proof. exact (conj CoreOpsBridgeDupEx.exD_accepted CoreOpsBridgeDupEx.exD_not_accepted_before). Qed.
(** … the list model's results, final pools, forest and allocator counters are these … *)
Theorem C06_extractedD_nonvacuous_model :
  match runRD CoreOps.empty_state S0 CoreOpsBridgeDupEx.exD with
  | Some (xs, st, S') => Some (xs, st, a_forest S', nxt S', req S') | None => None end =
  Some (CoreOpsBridgeDupEx.exD_results, CoreOpsBridgeDupEx.exD_pools, [], 43%positive, 37%nat).
Proof. exact CoreOpsBridgeDupEx.exD_model. Qed.
(** … the extracted interpreter, RUN ([vm_compute]) from the empty heap, returns exactly these … *)
Theorem C06_extractedD_nonvacuous_run :
  match CoreOps.run_ops nv CoreOps.empty_state CoreOpsBridgeDupEx.exD empty_heap with
  | Ret ((xs, st), h) => Some (xs, st, CoreOps.live_count h, h_next h, h_req h)
  | Err _ => None
  end = Some (CoreOpsBridgeDupEx.exD_results, CoreOpsBridgeDupEx.exD_pools, 0%nat, 43%positive, 37%nat).
Proof. exact CoreOpsBridgeDupEx.exD_run. Qed.
(** … before the first deletion the heap reached IS the encoding of the model's state (link map,
    data map, string heap, counters, size of the ledger; 23 owned blocks), and the copy in the
    model has cleared reference bits, own strings, the shared constant key … *)
Theorem C06_extractedD_nonvacuous_same_state :
  match runRD CoreOps.empty_state S0 (take 21 CoreOpsBridgeDupEx.exD) with
  | Some (_, _, S') => Some (CoreOpsBridgeDupEx.model_obs S') | None => None end =
  match CoreOps.run_ops nv CoreOps.empty_state (take 21 CoreOpsBridgeDupEx.exD) empty_heap with
  | Ret (_, h) => Some (CoreOpsBridgeDupEx.heap_obsD h) | Err _ => None end /\
  match runRD CoreOps.empty_state S0 (take 21 CoreOpsBridgeDupEx.exD) with
  | Some (_, _, S') => length (owned (a_forest S')) | None => 0%nat end = 23%nat.
Proof. exact CoreOpsBridgeDupEx.exD_same_state. Qed.
Theorem C06_extractedD_nonvacuous_copy :
  match runRD CoreOps.empty_state S0 (take 14 CoreOpsBridgeDupEx.exD) with
  | Some (_, _, S') => last (a_forest S') | None => None end = Some CoreOpsBridgeDupEx.exD_copy.
Proof. exact CoreOpsBridgeDupEx.exD_copy_in_model. Qed.
(** … and the depth limit: a cyclic structure built with the public API alone (an array that holds a
    reference to its own chain) is accepted; its duplication is refused after 20001 requests; the
    model computes NULL and the identities 20005, 20006 of the items created afterwards; what the
    extracted interpreter returns follows FROM THE THEOREM *)
Theorem C06_extractedD_nonvacuous_limit :
  accepted_rulesD CoreOpsBridgeDupEx.exC = true /\
  exists h', CoreOps.run_ops nv CoreOps.empty_state CoreOpsBridgeDupEx.exC empty_heap =
               Ret ((CoreOpsBridgeDupEx.exC_results, CoreOpsBridgeDupEx.exC_pools), h') /\
             lib_live h' = ∅ /\ h_next h' = 20007%positive /\ Z.of_nat (h_req h') = 20006.
Proof. exact (conj CoreOpsBridgeDupEx.exC_accepted CoreOpsBridgeDupEx.exC_history). Qed.
Print Assumptions C06_extractedD_nonvacuous_limit.

(** ------------------------------------------------------------------ 9. READ-ONLY QUERIES THROUGH REFERENCE NODES
    under the history theorem of the EXTRACTED interpreter

    The checker [pre_ok3b] of sections 1 – 8 rejects every query whose container argument is a
    reference node (cJSON_CreateObjectReference / cJSON_CreateArrayReference / cJSON_AddItemReferenceTo…):
    such a node has no children of its own; its [child] field is the BORROWED pointer [rd_ref], the
    identity [c] of an element of ANOTHER tree, and cJSON_GetArraySize, cJSON_GetArrayItem,
    cJSON_GetObjectItem[CaseSensitive], cJSON_HasObjectItem and the caller's loop cJSON_ArrayForEach read,
    through it, [c] and its following siblings AS THEY ARE NOW.

    THE LIST MODEL (CoreOpsBridgeRefDefs.v): [ref_chain F a] = what the reference node [a] denotes in
    the forest [F] = [chain_from F c]: while [c] is the [j]-th child of a node of the forest, the
    children of that node from position [j] on — for the first child: ALL the current children of
    the referenced container, so items appended later are visible —; when [c] has been detached
    (a root: no sibling links), [c] alone.  It is defined EXACTLY while [c] is a node of the model's
    forest, i.e. while its block has not been released (block identities are never reused): the
    referenced element outlives the use of the reference.  After cJSON_Delete of the referenced tree,
    cJSON_DeleteItemFrom… or a replace of [c], the pointer dangles, [ref_chain] is undefined and the
    checker REJECTS the query (the extracted interpreter, run there, ends in use-after-free).
    [ref_answer S m]: size = length of the chain, index [k] = its [k]-th element, by key = first
    match in the chain (both case modes); [stepRR] / [runRR] / [accepted_rulesR] extend [stepRD] / [runRD] /
    [accepted_rulesD] by these steps (a step that [stepRD] accepts is decided by [stepRD]);
    [accepted_rulesR] is what the extracted driver evaluates. *)
From CJ Require Import CoreOpsBridgeRefDefs CoreOpsBridgeRefSim CoreOpsBridgeRefHist.
From CJ Require CoreOpsBridgeRefEx.

(** what a reference node denotes: defined iff the node the borrowed pointer designates is a node of
    the forest; a reference without child pointer denotes the empty chain *)
Theorem C06_reference_denotes : forall F a us,
  ref_chain F a = Some us <->
  exists p d, a = Some p /\ find_tree p F = Some (T p d []) /\ is_ref d = true /\
    ((rd_ref d = None /\ us = []) \/ (exists c, rd_ref d = Some c /\ c ∈ ids F /\ us = chain_from F c)).
Proof. exact ref_chain_spec. Qed.
(** the borrowed pointer designates the FIRST child of a container [q] of the forest: the reference
    denotes the CURRENT children list of [q] *)
Theorem C06_reference_denotes_container : forall F p d c q dq csq,
  NoDup (ids F) -> find_tree p F = Some (T p d []) -> is_ref d = true -> rd_ref d = Some c ->
  find_tree q F = Some (T q dq csq) -> head (tid <$> csq) = Some c ->
  ref_chain F (Some p) = Some csq.
Proof. exact ref_chain_container. Qed.
Print Assumptions C06_reference_denotes_container.
(** the designated node has been released: undefined *)
Theorem C06_reference_dangles : forall F p d c,
  find_tree p F = Some (T p d []) -> rd_ref d = Some c -> c ∉ ids F -> ref_chain F (Some p) = None.
Proof. exact ref_chain_released. Qed.
(** the elements of the chain are nodes of the forest *)
Theorem C06_reference_chain_in_forest : forall F a us x,
  NoDup (ids F) -> ref_chain F a = Some us -> x ∈ us -> x ∈ nodes F.
Proof. exact ref_chain_nodes. Qed.

(** THE SIMULATION, heap level: on every well-formed heap the query through the reference node returns
    the list model's answer on the chain, and the heap is unchanged *)
Theorem C06_reference_queries_size : forall h F, WF h F -> forall a us,
  ref_chain F a = Some us -> cJSON_GetArraySize a h = Ret (Z.of_nat (length us), h).
Proof. exact ref_size_sim. Qed.
Print Assumptions C06_reference_queries_size.
Theorem C06_reference_queries_index : forall h F, WF h F -> forall a us index,
  ref_chain F a = Some us ->
  cJSON_GetArrayItem a index h = Ret (if index <? 0 then None else (tid <$> us) !! Z.to_nat index, h).
Proof. exact ref_item_sim. Qed.
Theorem C06_reference_queries_key : forall h F, WF h F -> forall a us nb (sn : bytes) (case_sensitive : bool),
  KeysReadable h F -> ref_chain F a = Some us ->
  nb ∈ h_live h -> h_str h !! nb = Some sn -> existsb (Z.eqb 0) sn = true ->
  get_object_item a (Some nb) case_sensitive h = Ret (find_key case_sensitive (h_str h) (cstr sn) us, h).
Proof. exact ref_key_sim. Qed.
Print Assumptions C06_reference_queries_key.
Theorem C06_reference_queries_has : forall h F, WF h F -> forall a us nb (sn : bytes),
  KeysReadable h F -> ref_chain F a = Some us ->
  nb ∈ h_live h -> h_str h !! nb = Some sn -> existsb (Z.eqb 0) sn = true ->
  cJSON_HasObjectItem a (Some nb) h = Ret (negb (is_null (find_key false (h_str h) (cstr sn) us)), h).
Proof. exact ref_has_sim. Qed.
Theorem C06_reference_queries_iteration : forall h F, WF h F -> forall a us,
  ref_chain F a = Some us -> CoreOps.array_for_each a h = Ret (chain_types us, h).
Proof. exact ref_each_sim. Qed.
Print Assumptions C06_reference_queries_iteration.
(** [find_key] is the lookup of section 4 (first exact match / first folded match) on the chain *)
Theorem C06_reference_queries_find_key : forall cs strs name us,
  find_key cs strs name us = if cs then find_key_cs strs name us else find_key_ci strs name us.
Proof. exact (fun cs strs name us => eq_refl). Qed.

(** THE STEP OF THE LIST MODEL: from every heap that represents [S], a query the model answers returns
    exactly that answer and leaves the heap (hence the represented state) unchanged *)
Theorem C06_reference_query_step : forall h S m r,
  Abs3 h S -> ref_answer S m = Some r -> run_op3 m h = Ret (r, h).
Proof. exact ref_answer_sim. Qed.
Print Assumptions C06_reference_query_step.
(** a returned item is a node of the model's forest (the pushed handle denotes an owned block) *)
Theorem C06_reference_query_result_in_forest : forall S m r x,
  NoDup (ids (a_forest S)) -> ref_answer S m = Some r -> res_ptr3 r = Some x -> x ∈ ids (a_forest S).
Proof. exact ref_answer_ids. Qed.

(** ACCEPTANCE: what [stepRD] accepts is decided by [stepRD]; what it rejects may be a query through a
    reference node … *)
Theorem C06_extracted_acceptanceR : forall st S o y,
  stepRR st S o = Some y <-> stepRD st S o = Some y \/ (stepRD st S o = None /\ stepQ st S o = Some y).
Proof. exact stepRR_spec. Qed.
(** … which is accepted exactly when the model defines its answer: the chain is defined (and, by key,
    the name is a readable string).  The result is the model's answer, the model state changes only
    by the caller strings the call declares ([declared]), the returned item is pushed, the pools
    are swept against the blocks the model owns *)
Theorem C06_extracted_acceptanceR_query : forall st S o x st1 S1,
  stepQ st S o = Some (x, st1, S1) <->
  exists t, tr (sview S) st o = Some t /\ S1 = declared S t /\
    ((exists m r, t_main t = Some m /\ (t_kind t = KPush \/ t_kind t = KFlag \/ t_kind t = KInt) /\
        ref_answer S1 m = Some r /\ x = enc (t_kind t) r /\ st1 = sweepS S1 (new_pools (t_kind t) (t_st t) r)) \/
     (exists a us, t_main t = None /\ t_kind t = KEach a /\ ref_chain (a_forest S1) a = Some us /\
        x = CoreOps.RInts (chain_types us) /\ st1 = sweepS S1 (t_st t))).
Proof. exact stepQ_spec. Qed.
(** the extension is conservative: what section 8 accepts is accepted, with the same results *)
Theorem C06_extracted_acceptanceR_conservative : forall ops st S y, runRD st S ops = Some y -> runRR st S ops = Some y.
Proof. exact runRD_runRR. Qed.
Theorem C06_extracted_accepted_rules_R : forall ops, accepted_rulesD ops = true -> accepted_rulesR ops = true.
Proof. exact accepted_rules_D_R. Qed.

(** ONE STEP of the extracted interpreter, queries through reference nodes included *)
Theorem C06_extracted_stepR : forall h st S o x st1 S1,
  Abs3 h S -> PoolsOK h st S -> stepRR st S o = Some (x, st1, S1) ->
  exists h', CoreOps.run_op nv st o h = Ret ((x, st1), h') /\ Abs3 h' S1 /\ PoolsOK h' st1 S1.
Proof. exact stepRR_sim. Qed.
Print Assumptions C06_extracted_stepR.

(** C06_history FOR THE EXTRACTED INTERPRETER, DUPLICATE CALLS AND QUERIES THROUGH REFERENCE NODES INCLUDED.
    Every history accepted by the boolean checker ([runRR]: [stepRR] at every step), run by
    [CoreOps.run_ops] from the empty heap with empty pools: every call RETURNS (no memory-error
    outcome — in particular no read of a released node through a borrowed pointer), the per-call
    results [xs] and the final pools are those the list model computes, and the heap reached
    represents the model's final state. *)
Theorem C06_history_extractedR : forall ops xs st' S',
  runRR CoreOps.empty_state S0 ops = Some (xs, st', S') ->
  exists h', CoreOps.run_ops nv CoreOps.empty_state ops empty_heap = Ret ((xs, st'), h') /\ Abs3 h' S'.
Proof. exact history_extractedR. Qed.
Print Assumptions C06_history_extractedR.
Theorem C06_history_extractedR_accepted : forall ops,
  accepted_rulesR ops = true ->
  exists xs st' S' h', runRR CoreOps.empty_state S0 ops = Some (xs, st', S') /\
    CoreOps.run_ops nv CoreOps.empty_state ops empty_heap = Ret ((xs, st'), h') /\ Abs3 h' S'.
Proof. exact history_extractedR_accepted. Qed.
Theorem C06_history_extractedR_from_any_state : forall ops h st S xs st2 S2,
  Abs3 h S -> PoolsOK h st S -> runRR st S ops = Some (xs, st2, S2) ->
  exists h', CoreOps.run_ops nv st ops h = Ret ((xs, st2), h') /\ Abs3 h' S2 /\ PoolsOK h' st2 S2.
Proof. exact runRR_sim. Qed.
Theorem C06_history_extractedR_prefixes : forall ops1 st S ops2 xs st2 S2,
  runRR st S (ops1 ++ ops2) = Some (xs, st2, S2) ->
  exists xs1 st1 S1 xs2, runRR st S ops1 = Some (xs1, st1, S1) /\ runRR st1 S1 ops2 = Some (xs2, st2, S2) /\ xs = xs1 ++ xs2.
Proof. exact runRR_app. Qed.

(** the ledger of C07 under the larger acceptance *)
Theorem C07_balanced_extractedR : forall ops xs st' S',
  runRR CoreOps.empty_state S0 ops = Some (xs, st', S') ->
  exists h1 h2,
    CoreOps.run_ops nv CoreOps.empty_state ops empty_heap = Ret ((xs, st'), h1) /\ Abs3 h1 S' /\
    (forall b, b ∈ lib_live h1 <-> b ∈ owned (a_forest S')) /\
    CoreOps.live_count h1 = length (owned (a_forest S')) /\
    delete_roots (roots (a_forest S')) h1 = Ret (tt, h2) /\ lib_live h2 = ∅ /\ CoreOps.live_count h2 = 0%nat /\
    (forall b, h_own h1 !! b = Some Foreign -> b ∈ h_live h1 -> b ∈ h_live h2 /\ h_str h2 !! b = h_str h1 !! b).
Proof. exact ledger_extractedR. Qed.
Print Assumptions C07_balanced_extractedR.

(** non-vacuity: a 46-call history — an array reference and an object reference queried with size / by
    index / by key in both case modes / has-item / for-each, BEFORE and AFTER an item is appended to
    each referenced container (the appended items are visible: sizes 2 then 3), a reference node
    made by cJSON_AddItemReferenceToArray fetched out of its array and queried — is accepted (and was
    not by section 8's checker: rejected at call 12, the first query through a reference) … *)
Theorem C06_extractedR_nonvacuous_accepted :
  accepted_rulesR CoreOpsBridgeRefEx.exR = true /\
  (accepted_rulesD CoreOpsBridgeRefEx.exR = false /\ accepted_rulesD (take 12 CoreOpsBridgeRefEx.exR) = true /\
   accepted_rulesD (take 13 CoreOpsBridgeRefEx.exR) = false).
Proof. exact (conj CoreOpsBridgeRefEx.exR_accepted CoreOpsBridgeRefEx.exR_not_accepted_before). Qed.
(** … the list model's results, final pools and (empty) forest are these … *)
Theorem C06_extractedR_nonvacuous_model :
  match runRR CoreOps.empty_state S0 CoreOpsBridgeRefEx.exR with
  | Some (xs, st, S') => Some (xs, st, a_forest S') | None => None end =
  Some (CoreOpsBridgeRefEx.exR_results, CoreOpsBridgeRefEx.exR_pools, []).
Proof. exact CoreOpsBridgeRefEx.exR_model. Qed.
(** … the extracted interpreter, RUN ([vm_compute]) from the empty heap, returns exactly these … *)
Theorem C06_extractedR_nonvacuous_run :
  match CoreOps.run_ops nv CoreOps.empty_state CoreOpsBridgeRefEx.exR empty_heap with
  | Ret ((xs, st), h) => Some (xs, st, CoreOps.live_count h)
  | Err _ => None
  end = Some (CoreOpsBridgeRefEx.exR_results, CoreOpsBridgeRefEx.exR_pools, 0%nat).
Proof. exact CoreOpsBridgeRefEx.exR_run. Qed.
(** … before the deletions the heap reached IS the encoding of the model's state … *)
Theorem C06_extractedR_nonvacuous_same_state :
  match runRR CoreOps.empty_state S0 (take 41 CoreOpsBridgeRefEx.exR) with
  | Some (_, _, S') => Some (CoreOpsBridgeDupEx.model_obs S') | None => None end =
  match CoreOps.run_ops nv CoreOps.empty_state (take 41 CoreOpsBridgeRefEx.exR) empty_heap with
  | Ret (_, h) => Some (CoreOpsBridgeDupEx.heap_obsD h) | Err _ => None end.
Proof. exact CoreOpsBridgeRefEx.exR_same_state. Qed.
(** … after the appends the two references denote the CURRENT children of the array (block 1) and of
    the object (block 4) … *)
Theorem C06_extractedR_nonvacuous_chains :
  match runRR CoreOps.empty_state S0 (take 28 CoreOpsBridgeRefEx.exR) with
  | Some (_, st, S') =>
      Some (option_map (fmap tid) (ref_chain (a_forest S') (CoreOps.item_of st (CoreOps.IH 6))),
            option_map (fmap tid) (ref_chain (a_forest S') (CoreOps.item_of st (CoreOps.IH 7))),
            option_map (fmap tid) (children_of (a_forest S') 1), option_map (fmap tid) (children_of (a_forest S') 4))
  | None => None
  end = Some (Some [2; 3; 15], Some [5; 6; 17], Some [2; 3; 15], Some [5; 6; 17])%positive.
Proof. exact CoreOpsBridgeRefEx.exR_chains. Qed.
(** … and the theorem applies *)
Theorem C06_extractedR_nonvacuous :
  exists h', CoreOps.run_ops nv CoreOps.empty_state CoreOpsBridgeRefEx.exR empty_heap =
               Ret ((CoreOpsBridgeRefEx.exR_results, CoreOpsBridgeRefEx.exR_pools), h') /\ lib_live h' = ∅.
Proof. exact CoreOpsBridgeRefEx.exR_history. Qed.
Print Assumptions C06_extractedR_nonvacuous.

(** THE DANGLING REFERENCE.  [exX]: the first child of the referenced array is DETACHED — the reference
    then denotes the detached item alone; accepted, model and interpreter agree (size 1) — and then
    RELEASED … *)
Theorem C06_extractedR_dangling_before :
  accepted_rulesR CoreOpsBridgeRefEx.exX = true /\
  match runRR CoreOps.empty_state S0 CoreOpsBridgeRefEx.exX with
  | Some (xs, st, _) => Some (xs, CoreOps.st_items st) | None => None end =
    Some (CoreOpsBridgeRefEx.exX_results, [CoreOpsBridgeEx.P 1; None; CoreOpsBridgeEx.P 3; CoreOpsBridgeEx.P 4; None]) /\
  match CoreOps.run_ops nv CoreOps.empty_state CoreOpsBridgeRefEx.exX empty_heap with
  | Ret ((xs, st), _) => Some (xs, CoreOps.st_items st) | Err _ => None end =
    Some (CoreOpsBridgeRefEx.exX_results, [CoreOpsBridgeEx.P 1; None; CoreOpsBridgeEx.P 3; CoreOpsBridgeEx.P 4; None]).
Proof. exact CoreOpsBridgeRefEx.exX_prefix_accepted. Qed.
(** … from then on the model does not define what the reference denotes, and each of the seven
    queries ([exX_queries]: size, index 0, index 1, by key folded, by key exact, has-item, for-each) is
    REJECTED by the checker … *)
Theorem C06_extractedR_dangling_rejected :
  match runRR CoreOps.empty_state S0 CoreOpsBridgeRefEx.exX with
  | Some (_, st, S') => Some (ref_chain (a_forest S') (CoreOps.item_of st (CoreOps.IH 3))) | None => None end = Some None /\
  (fun q => accepted_rulesR (CoreOpsBridgeRefEx.exX ++ [q])) <$> CoreOpsBridgeRefEx.exX_queries =
  [false; false; false; false; false; false; false].
Proof. exact (conj CoreOpsBridgeRefEx.exX_no_chain CoreOpsBridgeRefEx.exX_rejected). Qed.
(** … and the extracted interpreter, RUN there, reads the released node: use-after-free (index 0
    returns the dangling pointer, block 2, without reading it) *)
Theorem C06_extractedR_dangling_interpreter :
  (fun q => CoreOpsBridgeRefEx.outcome (CoreOpsBridgeRefEx.exX ++ [q])) <$> CoreOpsBridgeRefEx.exX_queries =
  [inr UAF; inl (Some (CoreOps.RPtr (CoreOpsBridgeEx.P 2))); inr UAF; inr UAF; inr UAF; inr UAF; inr UAF].
Proof. exact CoreOpsBridgeRefEx.exX_interpreter. Qed.
(** the same when the first child is detached and released by ONE call (cJSON_DeleteItemFromArray(a, 0)) or
    replaced (cJSON_ReplaceItemInArray(a, 0, x)); deleting the SECOND child leaves the reference
    intact (it then denotes the first child alone): (accepted up to the call, the following query
    accepted?, what the interpreter returns) *)
Theorem C06_extractedR_dangling_one_call :
  (fun k => (accepted_rulesR (take 8 (CoreOpsBridgeRefEx.exX2 k)), accepted_rulesR (CoreOpsBridgeRefEx.exX2 k),
             CoreOpsBridgeRefEx.outcome (CoreOpsBridgeRefEx.exX2 k))) <$> CoreOpsBridgeRefEx.exX_kills =
  [(true, false, inr UAF); (true, false, inr UAF); (true, true, inl (Some (CoreOps.RInt 1)))].
Proof. exact CoreOpsBridgeRefEx.exX2_rejected. Qed.
(** a 90-call history with 66 queries through reference nodes is accepted (cost of the checker on it:
    0.65 s by [vm_compute], 9 ms extracted to OCaml) *)
Theorem C06_extractedR_ninety_calls :
  accepted_rulesR CoreOpsBridgeRefEx.exR90 = true /\ length CoreOpsBridgeRefEx.exR90 = 90%nat.
Proof. exact CoreOpsBridgeRefEx.exR90_accepted. Qed.
