(** PatchSeq2Round.v — C17 through the model's own apply_patch: the patch generated for (from, to),
    applied by cJSONUtils_ApplyPatchesCaseSensitive to 'from' (a copy taken before generation, members
    in their original order) and to 'from' as generation leaves it (members sorted), returns 0 and
    yields a document equal to 'to'. *)
From Coq Require Import Lia ZArith List Bool Permutation.
From CJ Require Import Base Dbl Tree PointerDefs PointerProofs CompareDefs PatchDefs PatchProofs PatchRobust Rfc6902
  PatchConform PatchOps PatchApply PatchSort PatchTest PatchMove PatchSeq PatchGen PatchEq PatchRound PatchObj PatchRoundAll
  PatchExact PatchSeq2Rfc PatchSeq2Op PatchSeqAll PatchSeq2Fit PatchSeq2Gen.
Import ListNotations.
Local Open Scope Z_scope.

(** ---------- generation leaves 'from' the same document (any case mode, any trees) ---------- *)
Lemma cp_arr_keeps2 rec path : forall lf lt ps index ps' lf' lt',
  (forall ps p x y ps' x' y', In x lf -> rec ps p x y = Ok (ps', x', y') -> same2 x' x) ->
  cp_arr rec path ps index lf lt = Ok (ps', lf', lt') -> Forall2 same2 lf' lf.
Proof.
  induction lf as [|x lf IH]; intros lt ps index ps' lf' lt' H E.
  - destruct lt; cbn [cp_arr] in E; inversion E; subst; constructor.
  - destruct lt as [|y lt]; cbn [cp_arr] in E.
    + inversion E; subst. apply same2_refl_list.
    + destruct (rec ps (path ++ [47] ++ print_lu index) x y) as [[[ps1 x1] y1]| |] eqn:Er; cbn [bind] in E; try discriminate.
      destruct (cp_arr rec path ps1 (index + 1) lf lt) as [[[ps2 lf2] lt2]| |] eqn:Ec; cbn [bind] in E; try discriminate.
      inversion E; subst. constructor; [eapply H; [left; reflexivity | exact Er]|].
      eapply IH; [|exact Ec]. intros ps0 p0 x0 y0 ps0' x0' y0' Hx0. apply H. right. exact Hx0.
Qed.

Lemma cp_walk_keeps2 rec path cs : forall g lf lt ps ps' lf' lt',
  (forall ps p x y ps' x' y', In x lf -> rec ps p x y = Ok (ps', x', y') -> same2 x' x) ->
  cp_walk rec path cs g ps lf lt = Ok (ps', lf', lt') -> Forall2 same2 lf' lf.
Proof.
  induction g as [|g IH]; intros lf lt ps ps' lf' lt' H E; cbn [cp_walk] in E; [discriminate|].
  destruct lf as [|x lf]; destruct lt as [|y lt].
  - inversion E; subst. constructor.
  - cbn [Z.eqb Z.ltb Z.compare] in E.
    destruct (cp_walk rec path cs g (compose_patch ps s_add path (n_key y) (Some y)) [] lt) as [[[ps2 lf2] lt2]| |] eqn:Ec; cbn [bind] in E; try discriminate.
    inversion E; subst. eapply IH; [|exact Ec]. intros ps0 p0 x0 y0 ps0' x0' y0' [].
  - cbn [Z.eqb Z.ltb Z.compare] in E.
    destruct (cp_walk rec path cs g (compose_patch ps s_remove path (n_key x) None) lf []) as [[[ps2 lf2] lt2]| |] eqn:Ec; cbn [bind] in E; try discriminate.
    inversion E; subst. constructor; [apply same2_refl|]. eapply IH; [|exact Ec].
    intros ps0 p0 x0 y0 ps0' x0' y0' Hx0. apply H. right. exact Hx0.
  - destruct (compare_strings (n_key x) (n_key y) cs =? 0).
    + destruct (n_key x) as [kx|]; [|discriminate].
      destruct (rec ps (path ++ [47] ++ encode_string_as_pointer kx) x y) as [[[ps1 x1] y1]| |] eqn:Er; cbn [bind] in E; try discriminate.
      destruct (cp_walk rec path cs g ps1 lf lt) as [[[ps2 lf2] lt2]| |] eqn:Ec; cbn [bind] in E; try discriminate.
      inversion E; subst. constructor; [eapply H; [left; reflexivity | exact Er]|].
      eapply IH; [|exact Ec]. intros ps0 p0 x0 y0 ps0' x0' y0' Hx0. apply H. right. exact Hx0.
    + destruct (compare_strings (n_key x) (n_key y) cs <? 0).
      * destruct (cp_walk rec path cs g (compose_patch ps s_remove path (n_key x) None) lf (y :: lt)) as [[[ps2 lf2] lt2]| |] eqn:Ec; cbn [bind] in E; try discriminate.
        inversion E; subst. constructor; [apply same2_refl|]. eapply IH; [|exact Ec].
        intros ps0 p0 x0 y0 ps0' x0' y0' Hx0. apply H. right. exact Hx0.
      * destruct (cp_walk rec path cs g (compose_patch ps s_add path (n_key y) (Some y)) (x :: lf) lt) as [[[ps2 lf2] lt2]| |] eqn:Ec; cbn [bind] in E; try discriminate.
        inversion E; subst. eapply IH; [|exact Ec]. exact H.
Qed.

Theorem create_patches_keeps : forall fuel ps path from to cs ps' f' t',
  create_patches fuel ps path from to cs = Ok (ps', f', t') -> same2 f' from.
Proof.
  induction fuel as [|f IH]; intros ps path from to cs ps' f' t' E; cbn [create_patches] in E; [discriminate|].
  destruct (negb (tymask (n_ty from) =? tymask (n_ty to))); [inversion E; subst; apply same2_refl|].
  destruct (tymask (n_ty from) =? c_cJSON_Number).
  { destruct (negb (n_vint from =? n_vint to) || negb (compare_double (n_vdbl from) (n_vdbl to))); inversion E; subst; apply same2_refl. }
  destruct (tymask (n_ty from) =? c_cJSON_String).
  { destruct (n_vstr from) as [x|]; [|discriminate]. destruct (n_vstr to) as [y|]; [|discriminate].
    destruct (negb (strcmp x y =? 0)); inversion E; subst; apply same2_refl. }
  destruct (Z.eqb_spec (tymask (n_ty from)) c_cJSON_Array) as [Ea|Ea].
  { destruct (cp_arr (fun ps p x y => create_patches f ps p x y cs) path ps 0 (n_children from) (n_children to)) as [[[ps1 fc] tc]| |] eqn:C;
      cbn [bind] in E; try discriminate.
    inversion E; subst. split; [|apply set_children_key].
    apply same_set_children; [|intro Ho; rewrite Ea in Ho; discriminate Ho]. intros _.
    eapply Forall2_impl'; [|eapply cp_arr_keeps2; [|exact C]].
    - intros x y [H _]. exact H.
    - intros ps0 p0 x y ps0' x' y' _ Er. eapply IH; exact Er. }
  destruct (Z.eqb_spec (tymask (n_ty from)) c_cJSON_Object) as [Eo|Eo]; [|inversion E; subst; apply same2_refl].
  destruct (sort_object_ok from cs) as (ra & Hra & Pa). destruct (sort_object_ok to cs) as (rb & Hrb & Pb).
  rewrite Hra in E. cbn [bind] in E. rewrite Hrb in E. cbn [bind] in E. rewrite !n_children_set in E.
  destruct (cp_walk (fun ps p x y => create_patches f ps p x y cs) path cs (S (length ra + length rb)) ps ra rb) as [[[ps1 fc] tc]| |] eqn:C;
    cbn [bind] in E; try discriminate.
  inversion E; subst. rewrite set_children_twice. split; [|apply set_children_key].
  apply same_set_children; [intro Hn; contradiction|]. intros _.
  eapply osame_trans; [|apply osame_sym; apply osame_perm; exact Pa].
  apply osame_of_F2. eapply Forall2_impl'; [|eapply cp_walk_keeps2; [|exact C]].
  - intros x y [H K]. split; assumption.
  - intros ps0 p0 x y ps0' x' y' _ Er. eapply IH; exact Er.
Qed.

(** ---------- the generated operations, decoded ---------- *)
Lemma gen_ops W : forall new ops, Forall (gen_ok W) new -> Forall2 (fun p o => op_of p = Some o) new ops ->
  Forall2 op_ok new ops /\ Forall no_copy ops /\ (opsw ops <= W)%nat.
Proof.
  induction new as [|p new IH]; intros ops G F; inversion F as [|? o ? ops' Ho F']; subst.
  - split; [constructor|]. split; [constructor | cbn; lia].
  - inversion G as [|? ? (Hw & o' & Ho' & Hg & Hn & Hwd) G']; subst.
    rewrite Ho in Ho'. inversion Ho'; subst o'.
    destruct (IH ops' G' F') as (I1 & I2 & I3).
    split; [constructor; [split; [exact Hw|]; split; [exact Ho | exact Hg] | exact I1]|].
    split; [constructor; assumption | cbn [opsw]; lia].
Qed.

(** ---------- the round trip through the model ---------- *)
Theorem roundtrip_model from to : dwf from -> dwf to -> shallow to ->
  2 * Z.of_nat (node_size from + node_size to) <= SIZE_MAX ->
  exists patches f' t',
    cJSONUtils_GeneratePatchesCaseSensitive from to = Ok (patches, f', t') /\
    doc_same f' from /\
    (exists d p1, cJSONUtils_ApplyPatchesCaseSensitive from patches = Ok (0, d, p1) /\ doc_eq d to) /\
    (exists d p2, cJSONUtils_ApplyPatchesCaseSensitive f' patches = Ok (0, d, p2) /\ doc_eq d to).
Proof.
  intros Hf Ht Hs Hsz.
  destruct (roundtrip_all from to Hf Ht Hs) as (patches & f' & t' & ops & d & Eg & Eo & Ev & Dd).
  exists patches, f', t'. split; [exact Eg|].
  unfold cJSONUtils_GeneratePatchesCaseSensitive, generate_patches in Eg.
  destruct (create_patches (node_depth from) [] [] from to true) as [[[new f1] t1]| |] eqn:C; cbn [bind] in Eg; try discriminate.
  inversion Eg; subst patches f1 t1. clear Eg.
  destruct (create_patches_keeps _ _ _ _ _ _ _ _ _ C) as [Sf _].
  assert (Hp0 : pathok []) by (split; [constructor | exists []; reflexivity]).
  destruct (create_patches_gen (width to) _ _ _ _ _ _ _ _ Hf (conj Ht (conj Hs (le_n _))) Hp0 C) as (new0 & En & Gn & Ln).
  cbn [app] in En. subst new0.
  destruct (ops_of_Forall2 _ _ Eo) as [Ha F]. cbn [set_children create_array n_children] in F.
  destruct (gen_ops (width to) new ops Gn F) as (Fok & Fnc & Fw).
  assert (Hfit : fits from ops).
  { apply fits_of_width; [apply copies_ok_no_copy; exact Fnc|].
    pose proof (width_le_size from). pose proof (width_le_size to).
    rewrite <- (Forall2_len _ _ _ F). lia. }
  assert (Hf' : dwf f') by (eapply doc_same_dwf; [exact Hf | apply doc_same_sym; exact Sf]).
  split; [exact Sf|]. split.
  - destruct (apply_loop_same new ops from from Hf Hf (doc_same_refl from) Fok Hfit) as (st & d1 & ps' & E & R).
    rewrite Ev in R. destruct R as (-> & Sd & _ & _).
    exists d1, (set_children (set_children create_array new) ps'). split.
    + unfold cJSONUtils_ApplyPatchesCaseSensitive, apply_patches. rewrite Ha. cbn [negb set_children create_array n_children]. rewrite E. reflexivity.
    + eapply doc_eq_same_l; [apply doc_same_sym; exact Sd | exact Dd].
  - destruct (apply_loop_same new ops f' from Hf' Hf Sf Fok Hfit) as (st & d1 & ps' & E & R).
    rewrite Ev in R. destruct R as (-> & Sd & _ & _).
    exists d1, (set_children (set_children create_array new) ps'). split.
    + unfold cJSONUtils_ApplyPatchesCaseSensitive, apply_patches. rewrite Ha. cbn [negb set_children create_array n_children]. rewrite E. reflexivity.
    + eapply doc_eq_same_l; [apply doc_same_sym; exact Sd | exact Dd].
Qed.

(** the example of Properties_C17 (the witness of finding F14), through the model *)
Lemma gen_example_model :
  dwf g_from /\ dwf g_to /\ shallow g_to /\ 2 * Z.of_nat (node_size g_from + node_size g_to) <= SIZE_MAX /\
  exists patches f' t' d p1,
    cJSONUtils_GeneratePatchesCaseSensitive g_from g_to = Ok (patches, f', t') /\ f' <> g_from /\
    cJSONUtils_ApplyPatchesCaseSensitive g_from patches = Ok (0, d, p1) /\ doc_eqb d g_to = true /\
    exists d2 p2, cJSONUtils_ApplyPatchesCaseSensitive f' patches = Ok (0, d2, p2) /\ doc_eqb d2 g_to = true /\ d2 <> d.
Proof.
  split; [apply dwfb_sound; vm_compute; reflexivity|]. split; [apply dwfb_sound; vm_compute; reflexivity|].
  split; [apply shallowb_sound; vm_compute; reflexivity|]. split; [vm_compute; discriminate|].
  do 5 eexists. split; [vm_compute; reflexivity|]. split; [intro X; discriminate X|].
  split; [vm_compute; reflexivity|]. split; [vm_compute; reflexivity|].
  do 2 eexists. split; [vm_compute; reflexivity|]. split; [vm_compute; reflexivity | intro X; discriminate X].
Qed.
