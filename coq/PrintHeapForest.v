(** PrintHeapForest.v — the refinement of PrintHeapRefine.v stated for heaps that encode a forest
    ([Forest.WF h F], the C06 invariant).

    Hypotheses on strings ("readable", MInv-style): [forest_readable h F] — every valuestring and every key
    pointer of every node of [F] designates a live string block that contains a terminator (owned,
    constant and referenced strings alike; the printer reads them all) — or [tree_readable h t] for the
    subtree printed.

    * [print_value_h_plain] and the entry points [*_plain]: the printed tree [t] (found at [p] in [F]) has
      no borrowed child pointer ([no_borrowed t]: no node made by create_reference from a container):
      the heap-level printer on [p] equals PrintDefs' printer on [reify (h_str h) t], for every buffer
      state, whenever [height t < dfuel] and [h_next h <= lfuel]; the PUBLIC entry points (fuel from the
      heap) satisfy this always ([height_lt_fuel]) — no fuel hypothesis is left.
    * [print_value_h_forest] and [*_forest]: reference nodes allowed, every reference target a node of
      [F] ([refs_in], i.e. its block has not been released): the printer on [p] equals PrintDefs' printer
      on [reify (unroll F k t)] — [unroll] replaces the (empty) children list of a reference node by the
      chain its child pointer designates now, [k] levels deep — provided the unrolling is [complete]
      (nothing left below level [k]: the structure is finite below [p]) and [k < dfuel].
      [unroll_plain]: for a tree without borrowed pointers of height <= k the unrolling is the tree itself. *)
From CJ Require Import Base Dbl Tree PrintDefs Heap Forest ForestLemmas CoreSpec CoreDefs CoreRefineBase CoreRefine
  CoreRefineObject CoreRefineDupBase CoreRefineDupTree CoreRefineDupLoop CoreRefineDupValue CoreRefineDupForest
  CoreRefineDupUnroll MergeHeapDefs MergeHeapProofs PrintHeapDefs PrintHeapRefine.
From CJ.gen Require Import Constants.
From stdpp Require Import gmap.
From Coq Require Import Lia.
Local Open Scope Z_scope.

(** * readable strings *)
Definition data_readable h (d : rdata) : Prop :=
  (forall b, rd_vstr d = Some b -> readable h b) /\ (forall b, rd_key d = Some b -> readable h b).
Definition tree_readable h (t : tree) : Prop :=
  forall i d (ks : list positive), (i, d, ks) ∈ flat_t t -> data_readable h d.
Definition forest_readable h (F : forest) : Prop :=
  forall i d (ks : list positive), (i, d, ks) ∈ flat F -> data_readable h d.

Lemma nodes_t_trans t : forall n m, n ∈ nodes_t t -> m ∈ nodes_t n -> m ∈ nodes_t t.
Proof.
  induction t as [i d cs IH] using tree_ind'. intros n m Hn Hm. rewrite nodes_t_unfold in Hn.
  apply elem_of_cons in Hn as [->|Hn]; [done|]. rewrite nodes_t_unfold. right.
  apply elem_of_nodes in Hn as (c & Hc & Hnc). apply elem_of_nodes. exists c. split; [done|].
  rewrite Forall_forall in IH. by apply (IH c Hc n m).
Qed.
Lemma flat_t_in_flat F t (e : fnode) : t ∈ nodes F -> e ∈ flat_t t -> e ∈ flat F.
Proof.
  intros Ht He. apply elem_of_list_fmap in He as (m & -> & Hm). apply elem_of_flat.
  apply elem_of_nodes in Ht as (r & Hr & Htr). apply elem_of_nodes. exists r. split; [done|].
  by apply (nodes_t_trans r t m).
Qed.

Lemma forest_readable_tree h F t : forest_readable h F -> t ∈ nodes F -> tree_readable h t.
Proof. intros H Ht i d ks He. apply (H i d ks). by eapply flat_t_in_flat. Qed.
Lemma forest_readable_all h F : forest_readable h F -> all_readable h F.
Proof. intros H i d ks He. destruct (H i d ks He) as [H1 H2]. split; [done|]. intros b Hb _. by apply H2. Qed.
Lemma tree_readable_strs h t : tree_readable h t -> strs_readable h t.
Proof. intros H i d ks He. destruct (H i d ks He) as [H1 H2]. split; [done|]. intros b Hb _. by apply H2. Qed.
Lemma tree_readable_keys h t : tree_readable h t -> keys_readable h t.
Proof. intros H i d ks He. by destruct (H i d ks He). Qed.

(** * the fuel the public entry points take from the heap always covers the height of a subtree *)
Lemma height_lt_tsize t : (height t < tsize t)%nat.
Proof.
  induction t as [i d cs IH] using tree_ind'. unfold tsize. rewrite nodes_t_unfold, height_unfold. cbn [length].
  assert (H : (height_list cs <= length (nodes cs))%nat); [|lia].
  induction cs as [|c r IHr]; [done|]. apply Forall_cons in IH as [Hc Hr]. rewrite nodes_cons, app_length. cbn [height_list].
  specialize (IHr Hr). unfold tsize in Hc. lia.
Qed.
Lemma height_lt_fuel h F t : WF h F -> t ∈ nodes F -> (height t < Pos.to_nat (h_next h))%nat.
Proof. intros W Ht. pose proof (tsize_fuel h F t W Ht). pose proof (height_lt_tsize t). lia. Qed.

(** * the nodes of the unrolling carry the strings of nodes of the forest *)
Lemma kids_nodes F t :
  NoDup (ids F) -> refs_in F -> t ∈ nodes F -> Forall (fun x : tree => x ∈ nodes F) (kids F t).
Proof.
  intros ND RI Hn. destruct t as [i d cs]. destruct cs as [|c0 cs0].
  2:{ cbn [kids]. apply Forall_forall. intros c Hc. by eapply nodes_child. }
  cbn [kids]. destruct (rd_ref d) as [c|] eqn:Er; [|constructor].
  assert (He : (i, d, tid <$> []) ∈ flat F) by (apply (elem_of_flat F (T i d [])); done).
  pose proof (RI _ _ _ _ He Er) as Hc.
  destruct (chain_from_cases F c ND Hc) as [(p & dp & csp & j & Hp & Hj & ->)|(r & Hr & Hrc & ->)].
  - apply Forall_forall. intros x Hx. eapply nodes_child; [exact Hp|].
    rewrite <- (take_drop j csp). apply elem_of_app. by right.
  - apply Forall_singleton. by apply roots_in_nodes.
Qed.

Lemma unroll_readable h F k :
  NoDup (ids F) -> refs_in F -> forest_readable h F ->
  forall t, t ∈ nodes F -> tree_readable h (unroll F k t).
Proof.
  intros ND RI FR. induction k as [|k IH]; intros [i0 d0 cs0] Hn i d ks He.
  - cbn [unroll] in He. rewrite flat_t_unfold in He. cbn in He. apply elem_of_list_singleton in He.
    injection He as -> -> ->. apply (FR i0 d0 (tid <$> cs0)). by apply (elem_of_flat F (T i0 d0 cs0)).
  - cbn [unroll] in He. rewrite flat_t_unfold in He. apply elem_of_cons in He as [He|He].
    + injection He as -> -> ->. apply (FR i0 d0 (tid <$> cs0)). by apply (elem_of_flat F (T i0 d0 cs0)).
    + apply elem_of_flat_list in He as (c' & Hc' & He). apply elem_of_list_fmap in Hc' as (c & -> & Hc).
      pose proof (kids_nodes F _ ND RI Hn) as HK. rewrite Forall_forall in HK. by apply (IH c (HK c Hc) i d ks).
Qed.

(** without borrowed child pointers the unrolling is the tree itself *)
Lemma cut_data_nil d : rd_ref d = None -> cut_data d [] = d.
Proof. intros E. destruct d. cbn in *. by rewrite E. Qed.
Lemma no_borrowed_child i d cs c : no_borrowed (T i d cs) -> c ∈ cs -> no_borrowed c.
Proof. intros H Hc i' d' ks' He. apply (H i' d' ks'). by eapply flat_t_child. Qed.
Lemma no_borrowed_root i d cs : no_borrowed (T i d cs) -> rd_ref d = None.
Proof. intros H. apply (H i d (tid <$> cs)). rewrite flat_t_unfold. by left. Qed.

Lemma unroll_plain F : forall k t, no_borrowed t -> (height t <= k)%nat -> unroll F k t = t.
Proof.
  induction k as [|k IH]; intros [i d cs] Hb Hh; rewrite height_unfold in Hh.
  - destruct cs as [|c r]; [|cbn in Hh; lia]. cbn [unroll fmap list_fmap]. by rewrite (cut_data_nil d (no_borrowed_root _ _ _ Hb)).
  - cbn [unroll]. f_equal.
    assert (Hk : kids F (T i d cs) = cs).
    { destruct cs as [|c r]; [|done]. cbn [kids]. by rewrite (no_borrowed_root _ _ _ Hb). }
    rewrite Hk. clear Hk.
    assert (HF : Forall (fun c => no_borrowed c /\ (height c <= k)%nat) cs).
    { apply Forall_forall. intros c Hc. split; [by eapply no_borrowed_child|].
      pose proof (height_list_elem c cs Hc). lia. }
    clear Hb Hh. induction HF as [|c r [Hc1 Hc2] _ IHr]; [done|]. cbn [fmap list_fmap]. f_equal; [by apply IH|done].
Qed.

Section ForestLevel.
  Variable fmt_d : Z -> bytes.
  Variable fmt_g15 : dbl -> bytes.
  Variable fmt_g17 : dbl -> bytes.
  Variable sscanf_lg : bytes -> option dbl.
  Variable oracle : nat -> bool.
  Variable junk : nat -> Z.

  Notation print_value_h := (PrintHeapDefs.print_value_h fmt_d fmt_g15 fmt_g17 sscanf_lg oracle junk).
  Notation print_value := (PrintDefs.print_value fmt_d fmt_g15 fmt_g17 sscanf_lg oracle junk).
  Notation print_h := (PrintHeapDefs.print_h fmt_d fmt_g15 fmt_g17 sscanf_lg oracle junk).
  Notation print := (PrintDefs.print fmt_d fmt_g15 fmt_g17 sscanf_lg oracle junk).
  Notation cJSON_PrintBuffered_fuel := (PrintHeapDefs.cJSON_PrintBuffered_fuel fmt_d fmt_g15 fmt_g17 sscanf_lg oracle junk).
  Notation cJSON_PrintBuffered := (PrintDefs.cJSON_PrintBuffered fmt_d fmt_g15 fmt_g17 sscanf_lg oracle junk).
  Notation cJSON_PrintPreallocated_fuel := (PrintHeapDefs.cJSON_PrintPreallocated_fuel fmt_d fmt_g15 fmt_g17 sscanf_lg oracle junk).
  Notation cJSON_PrintPreallocated := (PrintDefs.cJSON_PrintPreallocated fmt_d fmt_g15 fmt_g17 sscanf_lg oracle junk).
  Notation cJSON_Print_h := (PrintHeapDefs.cJSON_Print_h fmt_d fmt_g15 fmt_g17 sscanf_lg oracle junk).
  Notation cJSON_PrintUnformatted_h := (PrintHeapDefs.cJSON_PrintUnformatted_h fmt_d fmt_g15 fmt_g17 sscanf_lg oracle junk).
  Notation cJSON_PrintBuffered_h := (PrintHeapDefs.cJSON_PrintBuffered_h fmt_d fmt_g15 fmt_g17 sscanf_lg oracle junk).
  Notation cJSON_PrintPreallocated_h := (PrintHeapDefs.cJSON_PrintPreallocated_h fmt_d fmt_g15 fmt_g17 sscanf_lg oracle junk).
  Notation cJSON_Print := (PrintDefs.cJSON_Print fmt_d fmt_g15 fmt_g17 sscanf_lg oracle junk).
  Notation cJSON_PrintUnformatted := (PrintDefs.cJSON_PrintUnformatted fmt_d fmt_g15 fmt_g17 sscanf_lg oracle junk).

  Variable h : heap.
  Variable F : forest.
  Hypothesis W : WF h F.
  Notation St := (h_str h).
  Notation hfuel := (Pos.to_nat (h_next h)).

  (** ** trees without borrowed child pointers *)
  Section Plain.
    Variables (p : positive) (t : tree).
    Hypothesis Hp : find_tree p F = Some t.
    Hypothesis NB : no_borrowed t.
    Hypothesis TR : tree_readable h t.

    Lemma plain_src k : (height t <= k)%nat -> src_t h hfuel k t /\ complete t /\ keys_readable h t /\ tid t = p.
    Proof.
      intros Hk. apply find_tree_Some in Hp as [Hn Hid]. split_and!.
      - apply (src_t_of_WF h F W t k Hn); [by apply tree_readable_strs|done|done].
      - by apply no_borrowed_complete.
      - by apply tree_readable_keys.
      - done.
    Qed.

    Theorem print_value_h_plain df lfuel : (height t < df)%nat -> (hfuel <= lfuel)%nat -> forall pb,
      print_value_h df lfuel (Some p) pb h = lift (print_value (reify St t) pb) h.
    Proof.
      intros Hdf Hlf pb. destruct (plain_src (height t) ltac:(lia)) as (Hs & Hc & Hk & <-).
      exact (print_value_h_src fmt_d fmt_g15 fmt_g17 sscanf_lg oracle junk h hfuel (height t) t Hs Hc Hk df lfuel Hdf Hlf pb).
    Qed.

    (** the public entry points: no fuel hypothesis *)
    Lemma plain_pv_fuel : forall pb, print_value_h hfuel hfuel (Some p) pb h = lift (print_value (reify St t) pb) h.
    Proof.
      apply print_value_h_plain; [|lia]. apply find_tree_Some in Hp as [Hn _]. by apply (height_lt_fuel h F).
    Qed.

    Theorem cJSON_Print_h_plain :
      cJSON_Print_h (Some p) h = lift (cJSON_Print (reify St t) (hr_of h)) h.
    Proof.
      unfold PrintHeapDefs.cJSON_Print_h. change (bindM heap_fuel ?f h) with (f hfuel h). cbv beta.
      apply print_h_of_value, plain_pv_fuel.
    Qed.
    Theorem cJSON_PrintUnformatted_h_plain :
      cJSON_PrintUnformatted_h (Some p) h = lift (cJSON_PrintUnformatted (reify St t) (hr_of h)) h.
    Proof.
      unfold PrintHeapDefs.cJSON_PrintUnformatted_h. change (bindM heap_fuel ?f h) with (f hfuel h). cbv beta.
      apply print_h_of_value, plain_pv_fuel.
    Qed.
    Theorem cJSON_PrintBuffered_h_plain prebuffer fmt :
      cJSON_PrintBuffered_h (Some p) prebuffer fmt h = lift (cJSON_PrintBuffered (reify St t) prebuffer fmt (hr_of h)) h.
    Proof.
      unfold PrintHeapDefs.cJSON_PrintBuffered_h. change (bindM heap_fuel ?f h) with (f hfuel h). cbv beta.
      apply buffered_of_value, plain_pv_fuel.
    Qed.
    Theorem cJSON_PrintPreallocated_h_plain buffer length format :
      cJSON_PrintPreallocated_h (Some p) buffer length format h
      = lift (cJSON_PrintPreallocated (reify St t) buffer length format (hr_of h)) h.
    Proof.
      unfold PrintHeapDefs.cJSON_PrintPreallocated_h. change (bindM heap_fuel ?f h) with (f hfuel h). cbv beta.
      apply prealloc_of_value, plain_pv_fuel.
    Qed.
  End Plain.

  (** ** reference nodes whose targets are nodes of the forest *)
  Section Refs.
    Hypothesis RI : refs_in F.
    Hypothesis FR : forest_readable h F.
    Variables (p : positive) (t : tree) (k : nat).
    Hypothesis Hp : find_tree p F = Some t.
    Hypothesis Hcomp : complete (unroll F k t).

    Lemma forest_src : src_t h hfuel k (unroll F k t) /\ keys_readable h (unroll F k t) /\ tid (unroll F k t) = p.
    Proof.
      apply find_tree_Some in Hp as [Hn Hid]. split_and!.
      - exact (src_t_unroll h F W RI (forest_readable_all _ _ FR) k t Hn).
      - apply tree_readable_keys. by apply (unroll_readable h F k (wf_nodup _ _ W) RI FR).
      - by rewrite tid_unroll.
    Qed.

    Theorem print_value_h_forest df lfuel : (k < df)%nat -> (hfuel <= lfuel)%nat -> forall pb,
      print_value_h df lfuel (Some p) pb h = lift (print_value (reify St (unroll F k t)) pb) h.
    Proof.
      intros Hdf Hlf pb. destruct forest_src as (Hs & Hk & <-).
      exact (print_value_h_src fmt_d fmt_g15 fmt_g17 sscanf_lg oracle junk h hfuel k _ Hs Hcomp Hk df lfuel Hdf Hlf pb).
    Qed.

    Theorem print_h_forest df lfuel format : (k < df)%nat -> (hfuel <= lfuel)%nat ->
      print_h df lfuel (Some p) format h = lift (print (reify St (unroll F k t)) format (hr_of h)) h.
    Proof. intros Hdf Hlf. apply print_h_of_value. by apply print_value_h_forest. Qed.
    Theorem buffered_fuel_forest df lfuel prebuffer fmt : (k < df)%nat -> (hfuel <= lfuel)%nat ->
      cJSON_PrintBuffered_fuel df lfuel (Some p) prebuffer fmt h
      = lift (cJSON_PrintBuffered (reify St (unroll F k t)) prebuffer fmt (hr_of h)) h.
    Proof. intros Hdf Hlf. apply buffered_of_value. by apply print_value_h_forest. Qed.
    Theorem prealloc_fuel_forest df lfuel buffer length format : (k < df)%nat -> (hfuel <= lfuel)%nat ->
      cJSON_PrintPreallocated_fuel df lfuel (Some p) buffer length format h
      = lift (cJSON_PrintPreallocated (reify St (unroll F k t)) buffer length format (hr_of h)) h.
    Proof. intros Hdf Hlf. apply prealloc_of_value. by apply print_value_h_forest. Qed.

    (** the public entry points, when the structure below [p] is finite within the heap's fuel *)
    Hypothesis Hk : (k < hfuel)%nat.
    Theorem cJSON_Print_h_forest :
      cJSON_Print_h (Some p) h = lift (cJSON_Print (reify St (unroll F k t)) (hr_of h)) h.
    Proof.
      unfold PrintHeapDefs.cJSON_Print_h. change (bindM heap_fuel ?f h) with (f hfuel h). cbv beta.
      by apply print_h_forest.
    Qed.
    Theorem cJSON_PrintUnformatted_h_forest :
      cJSON_PrintUnformatted_h (Some p) h = lift (cJSON_PrintUnformatted (reify St (unroll F k t)) (hr_of h)) h.
    Proof.
      unfold PrintHeapDefs.cJSON_PrintUnformatted_h. change (bindM heap_fuel ?f h) with (f hfuel h). cbv beta.
      by apply print_h_forest.
    Qed.
    Theorem cJSON_PrintBuffered_h_forest prebuffer fmt :
      cJSON_PrintBuffered_h (Some p) prebuffer fmt h
      = lift (cJSON_PrintBuffered (reify St (unroll F k t)) prebuffer fmt (hr_of h)) h.
    Proof.
      unfold PrintHeapDefs.cJSON_PrintBuffered_h. change (bindM heap_fuel ?f h) with (f hfuel h). cbv beta.
      by apply buffered_fuel_forest.
    Qed.
    Theorem cJSON_PrintPreallocated_h_forest buffer length format :
      cJSON_PrintPreallocated_h (Some p) buffer length format h
      = lift (cJSON_PrintPreallocated (reify St (unroll F k t)) buffer length format (hr_of h)) h.
    Proof.
      unfold PrintHeapDefs.cJSON_PrintPreallocated_h. change (bindM heap_fuel ?f h) with (f hfuel h). cbv beta.
      by apply prealloc_fuel_forest.
    Qed.
  End Refs.
End ForestLevel.
