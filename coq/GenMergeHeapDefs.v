(** GenMergeHeapDefs.v — HEAP-LEVEL transliteration of the JSON Merge Patch GENERATION of cJSON_Utils.c:
    [compare_json], [generate_merge_patch], [cJSONUtils_GenerateMergePatch], [cJSONUtils_GenerateMergePatchCaseSensitive]
    on the memory model of Heap.v, calling the heap-level functions the C code calls: cJSON_IsObject,
    cJSON_CreateNull, cJSON_Duplicate(to, 1), cJSON_CreateObject, cJSON_AddItemToObject (result ignored),
    cJSON_Delete (CoreDefs.v) and [sort_object] / [compare_strings] (SortDefs.v, the heap-level sort of C19).
    MergeDefs.v is the VALUE-level model of the same C functions; GenMergeHeapCompare.v / GenMergeHeapProofs.v prove
    that this code refines it.

    compare_json, statement by statement as the C text:

        if ((a == NULL) || (b == NULL) || ((a->type & 0xFF) != (b->type & 0xFF))) return false;
        switch (a->type & 0xFF) {
          case cJSON_Number: if ((a->valueint != b->valueint) || (!compare_double(a->valuedouble, b->valuedouble))) return false; else return true;
          case cJSON_String: if (strcmp(a->valuestring, b->valuestring) != 0) return false; else return true;
          case cJSON_Array:
            for ((void)(a = a->child), b = b->child; (a != NULL) && (b != NULL); (void)(a = a->next), b = b->next)
              { cJSON_bool identical = compare_json(a, b, case_sensitive); if (!identical) return false; }
            if ((a != NULL) || (b != NULL)) return false; else return true;
          case cJSON_Object:
            sort_object(a, case_sensitive); sort_object(b, case_sensitive);
            for (... same header ...)
              { if (compare_strings(a->string, b->string, case_sensitive)) return false;
                identical = compare_json(a, b, case_sensitive); if (!identical) return false; }
            if ((a != NULL) || (b != NULL)) return false; else return true;
          default: break; }
        return true;

    generate_merge_patch:

        if (to == NULL) return cJSON_CreateNull();
        if (!cJSON_IsObject(to) || !cJSON_IsObject(from)) return cJSON_Duplicate(to, 1);
        sort_object(from, case_sensitive); sort_object(to, case_sensitive);
        from_child = from->child; to_child = to->child;
        patch = cJSON_CreateObject(); if (patch == NULL) return NULL;
        while (from_child || to_child) {
            if (from_child != NULL) { if (to_child != NULL) diff = strcmp(from_child->string, to_child->string); else diff = -1; }
            else diff = 1;
            if (diff < 0)      { cJSON_AddItemToObject(patch, from_child->string, cJSON_CreateNull()); from_child = from_child->next; }
            else if (diff > 0) { cJSON_AddItemToObject(patch, to_child->string, cJSON_Duplicate(to_child, 1)); to_child = to_child->next; }
            else { if (!compare_json(from_child, to_child, case_sensitive))
                     cJSON_AddItemToObject(patch, to_child->string, generate_merge_patch(from_child, to_child, case_sensitive));
                   from_child = from_child->next; to_child = to_child->next; } }
        if (patch->child == NULL) { cJSON_Delete(patch); return NULL; }
        return patch;

    (The arguments of cJSON_AddItemToObject are evaluated left to right here: the key pointer is read before the
    item is made.  C leaves the order unspecified; the two orders cannot be told apart, because none of
    cJSON_CreateNull, cJSON_Duplicate and generate_merge_patch writes a [string] field of an existing node.)

    Recursions run on [dfuel] (one unit per nesting level), every sibling loop and the heap-level sort on
    [lfuel]; the public entry points take both from the heap they are called in ([heap_fuel], as every entry
    point of CoreDefs.v).  No proofs here. *)
From stdpp Require Import gmap.
From CJ Require Import Base Dbl Heap CoreDefs Forest MergeHeapDefs.
From CJ Require SortDefs.
From CJ.gen Require Import Constants.
Local Open Scope Z_scope.

(** [strcmp(s1, s2)] on two string blocks (a NULL argument is a NULL dereference) *)
Definition c_strcmp (s1 s2 : ptr) : M Z :=
  x <~ ld_cstr s1 ;;
  y <~ ld_cstr s2 ;;
  ret (strcmp x y).

Section GenMergeHeap.
  Variable oracle : nat -> bool.

  Fixpoint compare_json_fuel (dfuel lfuel : nat) (a b : ptr) (case_sensitive : bool) {struct dfuel} : M bool :=
    match dfuel with
    | O => fail NoFuel
    | S df =>
        if is_null a || is_null b then ret false else
        ta <~ get_type a ;;
        tb <~ get_type b ;;
        if negb (Z.land ta 255 =? Z.land tb 255) then ret false else        (* mismatched type *)
        sw <~ get_type a ;;                                                  (* switch (a->type & 0xFF) *)
        let k := Z.land sw 255 in
        if k =? c_cJSON_Number then
          ia <~ get_vint a ;;
          ib <~ get_vint b ;;
          if negb (ia =? ib) then ret false else
          da <~ get_vdbl a ;;
          db <~ get_vdbl b ;;
          ret (compare_double da db)
        else if k =? c_cJSON_String then
          sa <~ get_vstr a ;;
          sb <~ get_vstr b ;;
          c <~ c_strcmp sa sb ;;
          ret (c =? 0)
        else if k =? c_cJSON_Array then
          a1 <~ get_child a ;;
          b1 <~ get_child b ;;
          let fix loop (lf : nat) (a b : ptr) {struct lf} : M bool :=
            match lf with
            | O => fail NoFuel
            | S lf' =>
                if is_null a || is_null b then ret (is_null a && is_null b) else   (* size mismatch? *)
                identical <~ compare_json_fuel df lfuel a b case_sensitive ;;
                if negb identical then ret false else
                a' <~ get_next a ;;
                b' <~ get_next b ;;
                loop lf' a' b'
            end in
          loop lfuel a1 b1
        else if k =? c_cJSON_Object then
          SortDefs.sort_object lfuel a case_sensitive ;;;
          SortDefs.sort_object lfuel b case_sensitive ;;;
          a1 <~ get_child a ;;
          b1 <~ get_child b ;;
          let fix loop (lf : nat) (a b : ptr) {struct lf} : M bool :=
            match lf with
            | O => fail NoFuel
            | S lf' =>
                if is_null a || is_null b then ret (is_null a && is_null b) else   (* length mismatch? *)
                ka <~ get_key a ;;
                kb <~ get_key b ;;
                c <~ SortDefs.compare_strings ka kb case_sensitive ;;        (* compare object keys *)
                if negb (c =? 0) then ret false else                         (* missing member *)
                identical <~ compare_json_fuel df lfuel a b case_sensitive ;;
                if negb identical then ret false else
                a' <~ get_next a ;;
                b' <~ get_next b ;;
                loop lf' a' b'
            end in
          loop lfuel a1 b1
        else ret true                                                        (* null, true or false *)
    end.

  Fixpoint generate_merge_patch_fuel (dfuel lfuel : nat) (from to : ptr) (case_sensitive : bool) {struct dfuel} : M ptr :=
    match dfuel with
    | O => fail NoFuel
    | S df =>
        if is_null to then cJSON_CreateNull oracle else                      (* patch to delete everything *)
        nonobj <~ (to_o <~ cJSON_IsObject to ;;
                   if negb to_o then ret true else
                   from_o <~ cJSON_IsObject from ;; ret (negb from_o)) ;;
        if (nonobj : bool) then cJSON_Duplicate oracle to true else
        SortDefs.sort_object lfuel from case_sensitive ;;;
        SortDefs.sort_object lfuel to case_sensitive ;;;
        from_child <~ get_child from ;;
        to_child <~ get_child to ;;
        patch <~ cJSON_CreateObject oracle ;;
        if is_null patch then ret None else
        (* while (from_child || to_child) *)
        let fix loop (lf : nat) (from_child to_child : ptr) {struct lf} : M unit :=
          match lf with
          | O => fail NoFuel
          | S lf' =>
              if is_null from_child && is_null to_child then ret tt else
              diff <~ (if negb (is_null from_child) then
                         if negb (is_null to_child) then
                           k1 <~ get_key from_child ;;
                           k2 <~ get_key to_child ;;
                           c_strcmp k1 k2
                         else ret (-1)
                       else ret 1) ;;
              if diff <? 0 then
                (* from has a value that to doesn't have -> remove *)
                k <~ get_key from_child ;;
                n <~ cJSON_CreateNull oracle ;;
                cJSON_AddItemToObject oracle patch k n ;;;                   (* result ignored *)
                nx <~ get_next from_child ;;
                loop lf' nx to_child
              else if 0 <? diff then
                (* to has a value that from doesn't have -> add to patch *)
                k <~ get_key to_child ;;
                d <~ cJSON_Duplicate oracle to_child true ;;
                cJSON_AddItemToObject oracle patch k d ;;;                   (* result ignored *)
                nx <~ get_next to_child ;;
                loop lf' from_child nx
              else
                (* object key exists in both objects *)
                same <~ compare_json_fuel lfuel lfuel from_child to_child case_sensitive ;;
                (if negb same then
                   (* not identical --> generate a patch *)
                   k <~ get_key to_child ;;
                   sub <~ generate_merge_patch_fuel df lfuel from_child to_child case_sensitive ;;
                   cJSON_AddItemToObject oracle patch k sub ;;;              (* result ignored *)
                   ret tt
                 else ret tt) ;;;
                (* next key in the object *)
                nf <~ get_next from_child ;;
                nt <~ get_next to_child ;;
                loop lf' nf nt
          end in
        loop lfuel from_child to_child ;;;
        pc <~ get_child patch ;;
        if is_null pc then
          (* no patch generated *)
          cJSON_Delete patch ;;;
          ret None
        else ret patch
    end.

  (** static cJSON_bool compare_json(a, b, case_sensitive), with the fuel of the heap it is called in *)
  Definition compare_json (a b : ptr) (case_sensitive : bool) : M bool :=
    fuel <~ heap_fuel ;;
    compare_json_fuel fuel fuel a b case_sensitive.

  Definition generate_merge_patch (from to : ptr) (case_sensitive : bool) : M ptr :=
    fuel <~ heap_fuel ;;
    generate_merge_patch_fuel fuel fuel from to case_sensitive.

  Definition cJSONUtils_GenerateMergePatch (from to : ptr) : M ptr := generate_merge_patch from to false.
  Definition cJSONUtils_GenerateMergePatchCaseSensitive (from to : ptr) : M ptr := generate_merge_patch from to true.
End GenMergeHeap.
