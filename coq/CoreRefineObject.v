(** CoreRefineObject.v — by-key queries (C06_queries).

    * strings: [strcmp_zero_iff], [strcasecmp_zero_iff] (on C strings, i.e. without zero bytes,
      the two comparison loops of cJSON.c decide equality / equality after ASCII case folding);
      [Readable h b]: block [b] is a live, terminated C string; [run_ld_cstr];
    * [get_object_item_sim]: on a well-formed heap with readable keys, [get_object_item]
      (both branches) returns [CoreSpec.spec_get_key]: case-sensitive = first exact match, the
      search stopping at a child without key; case-insensitive = first ASCII-folded match,
      children without key skipped — and leaves the heap unchanged. *)
From CJ Require Import Base Dbl Heap Forest ForestLemmas CoreSpec CoreDefs CoreRefineBase CoreRefine CoreRefineMore.
From stdpp Require Import gmap.
Implicit Types (h : heap) (F : forest) (p x y r : positive) (d : rdata).
Local Open Scope Z_scope.

(** * strings *)
Lemma cstr_nonzero (s : bytes) : Forall (fun c => c <> 0) (cstr s).
Proof.
  induction s as [|c s IH]; cbn; [constructor|]. destruct (Z.eqb_spec c 0); [constructor|].
  by constructor.
Qed.

Lemma strcmp_zero_iff (a b : bytes) :
  Forall (fun c => c <> 0) a -> Forall (fun c => c <> 0) b -> strcmp a b = 0 <-> a = b.
Proof.
  revert b. induction a as [|x a IH]; intros [|y b] Ha Hb; cbn.
  - done.
  - apply Forall_cons in Hb as [Hy _]. split; [lia|done].
  - apply Forall_cons in Ha as [Hx _]. split; [lia|done].
  - apply Forall_cons in Ha as [Hx Ha]. apply Forall_cons in Hb as [Hy Hb].
    destruct (Z.eqb_spec x y) as [->|Hne].
    + rewrite (IH b Ha Hb). split; [by intros ->|by intros [= ->]].
    + split; [lia|by intros [= -> _]].
Qed.

Lemma tolower_zero c : tolower c = 0 <-> c = 0.
Proof. unfold tolower. destruct ((65 <=? c) && (c <=? 90)) eqn:E; [|done]. lia. Qed.

Lemma strcasecmp_zero_iff (a b : bytes) :
  Forall (fun c => c <> 0) a -> Forall (fun c => c <> 0) b ->
  strcasecmp_c a b = 0 <-> tolower <$> a = tolower <$> b.
Proof.
  revert b. induction a as [|x a IH]; intros [|y b] Ha Hb; cbn.
  - done.
  - apply Forall_cons in Hb as [Hy _]. pose proof (tolower_zero y). split; [lia|done].
  - apply Forall_cons in Ha as [Hx _]. pose proof (tolower_zero x). split; [lia|done].
  - apply Forall_cons in Ha as [Hx Ha]. apply Forall_cons in Hb as [Hy Hb].
    destruct (Z.eqb_spec (tolower x) (tolower y)) as [He|Hne].
    + rewrite (IH b Ha Hb). rewrite He. split; [by intros ->|by intros [= ->]].
    + split; [lia|by intros [= ? _]].
Qed.

(** a readable C string block *)
Definition Readable h (b : positive) : Prop :=
  b ∈ h_live h /\ exists s : bytes, h_str h !! b = Some s /\ existsb (Z.eqb 0) s = true.

Lemma run_ld_cstr h (b : positive) (s : bytes) :
  b ∈ h_live h -> h_str h !! b = Some s -> existsb (Z.eqb 0) s = true ->
  ld_cstr (Some b) h = Ret (cstr s, h).
Proof.
  intros H1 H2 H3. unfold ld_cstr, ld_str, chk, bindM. rewrite decide_True by done. cbn. rewrite H2. by rewrite H3.
Qed.

(** * get_object_item *)

(** the post-check of get_object_item *)
Definition goi_post (current_element : ptr) : M ptr :=
  if is_null current_element then ret None else
  k <~ get_key current_element ;;
  if is_null k then ret None else ret current_element.

Lemma drop_lookup_cons {A} (l : list A) (k : nat) (a : A) : l !! k = Some a -> drop k l = a :: drop (S k) l.
Proof. intros H. by rewrite (drop_S _ _ _ H). Qed.

Lemma child_in_nodes_t t n c : n ∈ nodes_t t -> c ∈ tchildren n -> c ∈ nodes_t t.
Proof.
  induction t as [i d0 cs0 IH] using tree_ind'. intros Hn Hc. rewrite nodes_t_unfold in *.
  apply elem_of_cons in Hn as [->|Hin].
  - right. apply elem_of_nodes. exists c. split; [done|apply nodes_t_self].
  - right. apply elem_of_nodes in Hin as (t' & Ht' & Hin). apply elem_of_nodes. exists t'. split; [done|].
    rewrite Forall_forall in IH. by apply IH.
Qed.
Lemma child_in_nodes F n c : n ∈ nodes F -> c ∈ tchildren n -> c ∈ nodes F.
Proof.
  intros Hn Hc. apply elem_of_nodes in Hn as (t & Ht & Hn). apply elem_of_nodes. exists t. split; [done|].
  by eapply child_in_nodes_t.
Qed.

Section GOI.
  Context (h : heap) (F : forest) (p : positive) (d : rdata) (cs : list tree) (nb : positive) (sn : bytes).
  Hypothesis W : WF h F.
  Hypothesis KR : KeysReadable h F.
  Hypothesis Hp : find_tree p F = Some (T p d cs).
  Hypothesis Hnl : nb ∈ h_live h.
  Hypothesis Hns : h_str h !! nb = Some sn.
  Hypothesis Hnz : existsb (Z.eqb 0) sn = true.

  Let Hn : (p, d, tid <$> cs) ∈ flat F := find_tree_flat _ _ _ _ Hp.

  (** facts about the k-th child *)
  Lemma goi_child k c :
    cs !! k = Some c ->
    tid c ∈ h_live h /\ h_dat h !! tid c = Some (mk_dat (tdata c) (cids c)) /\
    get_next (Some (tid c)) h = Ret (tid <$> cs !! S k, h) /\
    (forall b, rd_key (tdata c) = Some b -> Readable h b).
  Proof.
    intros Hk.
    assert (Hkid : (tid <$> cs) !! k = Some (tid c)) by (by rewrite list_lookup_fmap, Hk).
    assert (Hc : c ∈ nodes F).
    { destruct (find_tree_Some _ _ _ Hp) as [Hpn _]. eapply child_in_nodes; [exact Hpn|].
      cbn. by eapply elem_of_list_lookup_2. }
    pose proof (elem_of_flat _ _ Hc) as Hfc. unfold flat_of in Hfc.
    split_and!.
    - apply (WF_ids_live _ _ _ W). by apply elem_of_list_fmap_1.
    - by apply (WF_lookup_dat _ _ _ _ _ W Hfc).
    - rewrite (chain_get_next _ _ _ _ _ _ _ W Hn Hkid). by rewrite list_lookup_fmap.
    - intros b Hb. by apply (KR _ _ Hfc Hb).
  Qed.

  Lemma get_object_item_loop_cs_sim fuel k :
    (length cs - k < fuel)%nat ->
    (cur <~ get_object_item_loop_cs fuel (tid <$> cs !! k) (Some nb) ;; goi_post cur) h =
    Ret (find_key_cs (h_str h) (cstr sn) (drop k cs), h).
  Proof.
    revert k. induction fuel as [|fuel IH]; intros k Hf; [lia|].
    cbn [get_object_item_loop_cs]. destruct (cs !! k) as [c|] eqn:Hk; cbn [fmap option_fmap option_map is_null].
    2:{ apply lookup_ge_None in Hk. by rewrite drop_ge by lia. }
    destruct (goi_child k c Hk) as (Hlc & Hdc & Hnext & Hkr).
    rewrite (drop_lookup_cons _ _ _ Hk). cbn [find_key_cs]. unfold key_string.
    rewrite !bindM_assoc. rewrite (bindM_Ret _ _ _ _ _ (run_get_key_plain _ _ _ Hlc Hdc)).
    change (nd_key (mk_dat (tdata c) (cids c))) with (rd_key (tdata c)).
    destruct (rd_key (tdata c)) as [b|] eqn:Hkey; cbn [is_null mbind option_bind].
    2:{ rewrite bindM_ret. unfold goi_post. cbn [is_null].
        rewrite (bindM_Ret _ _ _ _ _ (run_get_key_plain _ _ _ Hlc Hdc)). cbn. by rewrite Hkey. }
    destruct (Hkr b eq_refl) as (Hbl & sb & Hbs & Hbz). rewrite Hbs. cbn [mbind option_bind].
    rewrite !bindM_assoc. rewrite (bindM_Ret _ _ _ _ _ (run_ld_cstr _ _ _ Hnl Hns Hnz)).
    rewrite !bindM_assoc. rewrite (bindM_Ret _ _ _ _ _ (run_ld_cstr _ _ _ Hbl Hbs Hbz)).
    destruct (Z.eqb_spec (strcmp (cstr sn) (cstr sb)) 0) as [He|Hne]; cbn [negb].
    - apply strcmp_zero_iff in He; [|apply cstr_nonzero..]. rewrite bool_decide_eq_true_2 by done.
      rewrite bindM_ret. unfold goi_post. cbn [is_null].
      rewrite (bindM_Ret _ _ _ _ _ (run_get_key_plain _ _ _ Hlc Hdc)). cbn. by rewrite Hkey.
    - rewrite bool_decide_eq_false_2 by (intros He; apply Hne; apply strcmp_zero_iff; [apply cstr_nonzero..|done]).
      rewrite !bindM_assoc. rewrite (bindM_Ret _ _ _ _ _ Hnext).
      apply lookup_lt_Some in Hk. apply IH. lia.
  Qed.

  Lemma get_object_item_loop_ci_sim fuel k :
    (length cs - k < fuel)%nat ->
    (cur <~ get_object_item_loop_ci fuel (tid <$> cs !! k) (Some nb) ;; goi_post cur) h =
    Ret (find_key_ci (h_str h) (cstr sn) (drop k cs), h).
  Proof.
    revert k. induction fuel as [|fuel IH]; intros k Hf; [lia|].
    cbn [get_object_item_loop_ci]. destruct (cs !! k) as [c|] eqn:Hk; cbn [fmap option_fmap option_map is_null].
    2:{ apply lookup_ge_None in Hk. by rewrite drop_ge by lia. }
    destruct (goi_child k c Hk) as (Hlc & Hdc & Hnext & Hkr).
    rewrite (drop_lookup_cons _ _ _ Hk). cbn [find_key_ci]. unfold key_string.
    rewrite !bindM_assoc. rewrite (bindM_Ret _ _ _ _ _ (run_get_key_plain _ _ _ Hlc Hdc)).
    change (nd_key (mk_dat (tdata c) (cids c))) with (rd_key (tdata c)).
    unfold case_insensitive_strcmp.
    destruct (rd_key (tdata c)) as [b|] eqn:Hkey; cbn [is_null orb mbind option_bind].
    2:{ rewrite !bindM_assoc, bindM_ret. cbn. rewrite !bindM_assoc. rewrite (bindM_Ret _ _ _ _ _ Hnext).
        apply lookup_lt_Some in Hk. apply IH. lia. }
    destruct (Hkr b eq_refl) as (Hbl & sb & Hbs & Hbz). rewrite Hbs. cbn [mbind option_bind].
    assert (Hfound : goi_post (Some (tid c)) h = Ret (Some (tid c), h)).
    { unfold goi_post. cbn [is_null]. rewrite (bindM_Ret _ _ _ _ _ (run_get_key_plain _ _ _ Hlc Hdc)). cbn. by rewrite Hkey. }
    cbn [ptr_eqb]. destruct (Pos.eqb_spec nb b) as [->|Hnbb].
    - (* the same block *)
      rewrite !bindM_assoc, bindM_ret. cbn [Z.eqb negb]. rewrite bindM_ret.
      assert (sb = sn) as -> by congruence. by rewrite bool_decide_eq_true_2.
    - rewrite !bindM_assoc. rewrite (bindM_Ret _ _ _ _ _ (run_ld_cstr _ _ _ Hnl Hns Hnz)).
      rewrite !bindM_assoc. rewrite (bindM_Ret _ _ _ _ _ (run_ld_cstr _ _ _ Hbl Hbs Hbz)).
      rewrite bindM_ret.
      destruct (Z.eqb_spec (strcasecmp_c (cstr sn) (cstr sb)) 0) as [He|Hne]; cbn [negb].
      + apply strcasecmp_zero_iff in He; [|apply cstr_nonzero..]. rewrite bool_decide_eq_true_2 by done.
        by rewrite bindM_ret.
      + rewrite bool_decide_eq_false_2 by (intros He; apply Hne; apply strcasecmp_zero_iff; [apply cstr_nonzero..|done]).
        rewrite !bindM_assoc. rewrite (bindM_Ret _ _ _ _ _ Hnext).
        apply lookup_lt_Some in Hk. apply IH. lia.
  Qed.

  Lemma get_object_item_sim (case_sensitive : bool) :
    is_ref d = false ->
    get_object_item (Some p) (Some nb) case_sensitive h =
    Ret (spec_get_key (h_str h) F (Some p) (Some nb) case_sensitive, h).
  Proof.
    intros Href. destruct (WF_live_dat _ _ _ _ _ W Hp) as [Hlp Hdp].
    unfold spec_get_key, children_of. rewrite Hp, Hns. cbn [fmap option_fmap option_map tchildren].
    unfold get_object_item. cbn [is_null orb].
    rewrite (bindM_Ret _ _ _ _ _ (run_get_child_plain _ _ _ Hlp Hdp)).
    change (nd_child (mk_dat d (tid <$> cs))) with (child_of d (tid <$> cs)).
    rewrite (ref_ok_child_of _ _ _ _ (wf_ref _ _ W) Hn Href). rewrite list_lookup_fmap.
    unfold heap_fuel. unfold bindM at 1.
    pose proof (chain_fuel _ _ _ _ _ W Hn) as Hfuel. rewrite fmap_length in Hfuel.
    destruct case_sensitive.
    - rewrite <- (drop_0 cs) at 2. apply (get_object_item_loop_cs_sim _ 0%nat). lia.
    - rewrite <- (drop_0 cs) at 2. apply (get_object_item_loop_ci_sim _ 0%nat). lia.
  Qed.
End GOI.
