"""C07 — every allocation is released exactly once; borrowed memory is never freed or modified."""
import random
from .common import Case, load_corpus, is_crash
from . import coregen

AREA = 'core'
MODEL_FILES = 'Heap.v (allocator, liveness, ownership, error outcomes), CoreDefs.v, CoreOps.v'
RULE = ('the C06 histories with the ownership features weighted up: reference nodes (string/object/array references, AddItemReference*), constant keys, items moved between '
        'containers, SetValuestring in place / reallocating / on its own value, duplicates, bulk constructors, and key arguments that are pointers into existing items — in '
        'particular cJSON_AddItemToObject(o, item->string, item) and cJSON_ReplaceItemInObject(o, repl->string, repl); print calls (all variants, text released with cJSON_free) '
        'interleaved, and a family printing > 256 bytes with the k-th request of the print call failing (custom hooks: manual buffer growth); directed histories through calls outside the heap model, judged by the verdict alone: every print entry point on a NULL item '
        '(a print that fails for a reason other than the allocator) and JSON Patch add / replace / move / copy onto the WHOLE document with a value that carries a constant key; every history ends by deleting all remaining roots; '
        'implementation under ASan + tracking allocator + canaries around caller strings; observables: ledger after every call and at the end, double / foreign release, '
        'canaries; verdict: ledger equals the list model after every call, zero after the final deletes, no allocator complaint, no sanitizer report')
ASSUMPTIONS = ['histories respect the documented ownership rules (a referenced tree outlives its references; constant keys and referenced strings outlive the items)',
               'hand-written transliteration validated by this differential run']

def corpus(ctx): return load_corpus(ctx['verif'], 'C07')

def aliasing_cases():
    """the key argument IS the key of the item that moves (both owners of the key: library and caller)"""
    out = []
    for cs in ('', 'cs'):
        for const in (False, True):
            mk = lambda h: ('addcs:0:x6b6579:%d' if const else 'addo:0:x6b6579:%d') % h
            # an item detached from one object is added to another under its own key
            out.append('obj;obj;str:x76;%s;deto:0:x6b6579;addo:1:k2:2;size:1;geto:1:x4b4559;del:0;del:1' % mk(2))
            # replace by key where the key argument is the key of the member that is being replaced
            out.append('obj;str:x6f6c64;%s;str:x6e6577;repo%s:0:k1:2;size:0;each:0;del:0' % (mk(1), cs))
            # replace by key where the key argument is the replacement's own key
            out.append('obj;str:x6f6c64;%s;str:x6e6577;%s;detp:0:2;repo%s:0:k2:2;size:0;geto:0:x6b6579;del:0' % (mk(1), mk(2), cs))
            # moved back and forth under its own key
            out.append('obj;null;%s;deta:0:0;arr;addo:3:k1:1;deta:3:0;addo:0:k1:1;del:3;del:0' % mk(1))
    res = [Case('hist DX 0 ' + o, {'tags': ['directed', 'key-aliases-own-key']}) for o in out]
    res += coregen.setbool_cases()
    return res

def borrowed_elsewhere_cases():
    """directed histories through the calls OUTSIDE the heap model (judged by the verdict: ledger, foreign releases):
    printing that fails for a reason other than the allocator (no item), with every print entry point, and a JSON Patch that
    replaces the WHOLE document by a value that carries a constant key (cJSON_Duplicate shares constant keys)"""
    hx = lambda b: b.hex()
    out = ['obj;astr:0:x6b:x76;printbuf:-:10:1;printbuf:-:10:0;printbuf:-:0:1;printbuf:-:300:0;print:-:1;print:-:0;printpre:-:50:1;size:0']
    for cs in ('', 'cs'):
        for opname in (b'add', b'replace'):
            out.append(';'.join(['parse:' + hx(b'{"a":1}'), 'arr', 'obj', 'astr:2:x6f70:x' + hx(opname), 'astr:2:x70617468:x', 'str:x76',
                                 'addcs:2:x76616c7565:5', 'add:1:2', 'applypatch%s:0:1' % cs, 'print:0:0', 'del:1']))
        for opname in (b'move', b'copy'):
            out.append(';'.join(['obj', 'str:x76', 'addcs:0:x6b6579:1', 'arr', 'obj', 'astr:3:x6f70:x' + hx(opname), 'astr:3:x66726f6d:x' + hx(b'/key'),
                                 'astr:3:x70617468:x', 'add:2:3', 'applypatch%s:0:2' % cs, 'print:0:0', 'del:2']))
    res = [Case('hist XS 0 ' + o, {'tags': ['directed', 'borrowed-memory-outside-heap-model']}) for o in out]
    return res

def generate(ctx):
    rng = random.Random(ctx['seed'] * 104729 + 7)
    quick = ctx['tier'] == 'quick'
    cases = aliasing_cases() + coregen.print_failure_cases() + borrowed_elsewhere_cases()
    # parsing inside histories: accepted texts join the pool and are deleted at the end; rejected ones (malformed, or a complete value
    # followed by a trailer when termination is required) must leave the ledger exactly as it was
    texts = [b'{"name":"x","list":[1,2,3]}', b'[[],{},"s",null,true,1.5]', b'"just a string"', b'{"a":{"b":{"c":[1,{"d":"e"}]}}}', b'[1,2', b'{"a":1,', b'{"k":"v"} trailer',
             b'"s"]', b'[1,2,3] x', b'{"a":[1,2,{"b":"c"}]}}', b'[{"x":"y"},"z"]junk', b'nul', b'{"a":tru}', b'["\\ud800"]', b'[1,2,3]   ', b'{"k":"v"}\x00junk']
    for t in texts:
        for rnt in (0, 1):
            for op in ('parseo', 'parsel', 'parse'):
                if op == 'parse' and rnt: continue
                o = ('parse:' + t.hex()) if op == 'parse' else ('%s:%d:%s' % (op, rnt, t.hex()))
                # S: the heap model does not cover the parser (its ledger is ParseDefs'); these cases are judged by the verdict
                cases.append(Case('hist XS 0 obj;astr:0:x6b:x76;%s;size:0;%s;anull:0:x6e' % (o, o), {'tags': ['parse-in-history', op, 'rnt%d' % rnt]}))
    n = 400 if quick else 1500
    for i in range(n):
        nops = 40 if quick else rng.choice([20, 40, 80, 200])
        cases.append(coregen.history_case(rng, 'own' if i % 5 else 'dup', nops, 'DX', with_print=True))
    return cases

def project(c, out): return '' if 'S' in c.line.split(' ')[1] else coregen.ledger_only(out)

def verdict(c, out, ctx):
    hp = coregen.health_problem(out)
    if hp: return hp
    if ' X live=' in out and ' X live=0' not in out: return 'blocks remain allocated after deleting every root: ' + out[out.index(' X live='):][:40]
    ops = [x for x in c.line.split(' ')[3].split(';') if x]
    segs = out.split(' ; ')
    def live_after(i):
        for t in segs[i].split(' '):
            if t.startswith('L') and t[1:].isdigit(): return int(t[1:])
    for i, o in enumerate(ops):     # a parse that returns NULL leaves the ledger as it was
        if o.startswith('parse') and 0 < i < len(segs) and segs[i].split(' ')[0] == '-' and live_after(i) != live_after(i - 1):
            return 'rejected parse (call %d) changed the ledger: %s -> %s blocks' % (i, live_after(i - 1), live_after(i))
    for i, o in enumerate(ops):     # printing (successful or not) leaves the ledger as it was
        if o.startswith('print') and 0 < i < len(segs) and live_after(i) != live_after(i - 1):
            return 'ledger changed across call %d (%s): %s -> %s blocks' % (i, o, live_after(i - 1), live_after(i))
    exp = coregen.expected(c.line)
    if exp is None: return None
    a, b = coregen.ledger_only(out).split(' '), coregen.ledger_only(exp).split(' ')
    if a != b:
        ops = [x for x in c.line.split(' ')[3].split(';') if x]
        for i in range(min(len(a), len(b))):
            if a[i] != b[i]: return 'ledger after call %d (%s): %s blocks live, the ownership model says %s' % (i, ops[i] if i < len(ops) else 'end', a[i], b[i])
        return 'ledger trace differs in length'
    return None

def nontrivial(c, out):
    return not is_crash(out) and c.line.count(';') >= 4
