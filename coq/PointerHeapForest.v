(** PointerHeapForest.v — property C15 AT HEAP LEVEL.

    Lookup.  [cJSONUtils_GetPointer] / [cJSONUtils_GetPointerCaseSensitive] of PatchHeapDefs.v are
    [get_item_from_pointer] with the flag fixed; [get_pointer_refines] / [get_pointer_rfc6901] transfer
    C15_resolve: on [MInv h F], for a node of the forest and a readable pointer text, the heap-level call
    returns — heap untouched — the node RFC 6901 designates in the reified document, NULL for everything else.

    Construction.  [find_pointer_refines]: the heap-level [cJSONUtils_FindPointerFromObjectTo]
    (PointerHeapDefs.v), for the never-failing allocator and ANY contents of fresh memory, on a node [troot]
    of a well-formed forest with readable strings and a target that is the node at path [tp] below it:
    returns NULL or a fresh block; which of the two, and the C string the block reads as, is
    [PointerDefs.cJSONUtils_FindPointerFromObjectTo (reify troot) tp]; the trees are not written; every
    temporary is released ([FPost]; the ledger: [find_pointer_ledger]).  [find_pointer_absent]: a target
    that is not in the tree.  [find_then_free]: releasing the result restores the memory.

    Inversion.  [find_then_get]: under the hypotheses of C15_construct on the reified document, the block
    handed back resolves, through the HEAP-LEVEL case-sensitive lookup run in the heap the search left
    behind, to the target node itself — and is the pointer RFC 6901 assigns to it. *)
From CJ Require Import Base Dbl Heap Forest ForestLemmas CoreSpec CoreDefs CoreRefineBase CoreRefine CoreRefineMore CoreRefineObject
  CoreRefineFrame CoreRefineDupBase CoreRefineDupTree CoreRefineDupLoop CoreRefineDupValue CoreRefineDupForest CoreLedgerGen CoreLedgerDup.
From CJ Require Import TierBridgeDefs TierBridgeForest TierBridgeLemmas MergeHeapDefs MergeHeapInv GenMergeHeapForest PatchHeapDefs PatchHeapPath PatchHeapPointer.
From CJ Require Import CompareHeapViewDefs CompareHeapProofs CompareHeapForest PointerHeapDefs PointerHeapProofs.
From CJ Require Tree PointerDefs PointerProofs SortSpec.
From CJ.gen Require Import Constants.
From stdpp Require Import gmap.
From Coq Require Import Lia.

(** * lookup: the entry points *)
Theorem get_pointer_refines h F t c nm :
  MInv h F -> t ∈ nodes F -> CsReads h c nm ->
  cJSONUtils_GetPointer (Some (tid t)) c h =
    Ret (tid <$> (PointerDefs.cJSONUtils_GetPointer (reify (h_str h) t) nm ≫= subtree_t t), h) /\
  cJSONUtils_GetPointerCaseSensitive (Some (tid t)) c h =
    Ret (tid <$> (PointerDefs.cJSONUtils_GetPointerCaseSensitive (reify (h_str h) t) nm ≫= subtree_t t), h).
Proof. intros I Ht Hc. split; by apply (get_item_from_pointer_refines h F I). Qed.

(** C15_resolve transferred: the case-sensitive heap-level lookup follows RFC 6901 *)
Theorem get_pointer_rfc6901 h F t c nm :
  MInv h F -> t ∈ nodes F -> CsReads h c nm -> PointerDefs.small_arrays (reify (h_str h) t) ->
  cJSONUtils_GetPointerCaseSensitive (Some (tid t)) c h =
    Ret (tid <$> (PointerDefs.rfc6901 (reify (h_str h) t) nm ≫= subtree_t t), h).
Proof.
  intros I Ht Hc Hs. rewrite (proj2 (get_pointer_refines h F t c nm I Ht Hc)).
  by rewrite (PointerProofs.get_pointer_rfc _ nm Hs (CsReads_zfree _ _ _ Hc)).
Qed.

(** NULL arguments *)
Lemma get_pointer_null_pointer object flag h : get_item_from_pointer object CNull flag h = Ret (None, h).
Proof. reflexivity. Qed.
Lemma get_pointer_null_object h c nm flag : CsReads h c nm -> get_item_from_pointer None c flag h = Ret (None, h).
Proof.
  intros Hc. unfold get_item_from_pointer. rewrite (CsReads_not_null _ _ _ Hc).
  destruct (run_cs_fuel _ _ _ Hc) as (sf & Hsf & Hlt). stp Hsf. unfold heap_fuel. unfold bindM at 1.
  destruct sf as [|sf]; [lia|]. cbn [get_item_from_pointer_loop]. stp (run_ld_byte0 _ _ _ Hc). cbn [is_null negb].
  by rewrite andb_false_r.
Qed.

(** * the tree-level search is the value-level search *)
Lemma find_ptr_t_none St : forall x q, q ∉ ids_t x -> find_ptr_t St x q = None.
Proof.
  induction x as [i d cs IH] using tree_ind'. intros q Hq. rewrite find_ptr_t_unfold. rewrite ids_t_unfold in Hq.
  rewrite decide_False by (intros ->; apply Hq; by left).
  assert (Hqc : q ∉ ids cs) by (intros Hin; apply Hq; by right). clear Hq.
  generalize 0. induction IH as [|c r Hc _ IHr]; intros idx; [done|]. cbn [fpt_go]. rewrite ids_cons in Hqc.
  rewrite Hc by (intros Hin; apply Hqc, elem_of_app; by left). apply IHr. intros Hin. apply Hqc, elem_of_app. by right.
Qed.

Lemma fpt_result_value St ty idx c tp :
  fpt_result St ty idx c tp = PointerProofs.fp_result ty idx (reify St c) tp.
Proof. unfold fpt_result, PointerProofs.fp_result. by rewrite reify_key. Qed.

Lemma find_ptr_t_value St : forall x, NoDup (ids_t x) -> forall here rel tq,
  subtree_t x rel = Some tq ->
  find_ptr_t St x (tid tq) = PointerDefs.find_pointer (reify St x) here (here ++ rel).
Proof.
  induction x as [i d cs IH] using tree_ind'. intros ND here rel tq Hsub.
  rewrite find_ptr_t_unfold, reify_unfold, PointerProofs.find_pointer_unfold.
  destruct rel as [|j rel'].
  - cbn in Hsub. injection Hsub as <-. cbn [tid]. rewrite decide_True by done. rewrite app_nil_r.
    destruct (List.list_eq_dec PeanoNat.Nat.eq_dec here here) as [_|X]; [done|by destruct X].
  - cbn [subtree_t tchildren] in Hsub. destruct (cs !! j) as [cj|] eqn:Ej; [|done].
    assert (Hne : tid tq <> i).
    { apply (child_nodes_ne i d cs tq ND). apply elem_of_nodes. exists cj. split; [by eapply elem_of_list_lookup_2|by eapply subtree_t_nodes]. }
    rewrite decide_False by (intros E; by apply Hne).
    destruct (List.list_eq_dec PeanoNat.Nat.eq_dec here (here ++ j :: rel')) as [X|_].
    { exfalso. rewrite <- (app_nil_r here) in X at 1. apply app_inv_head in X. discriminate X. }
    assert (NDc : NoDup (ids cs)) by (rewrite ids_t_unfold in ND; by apply NoDup_cons in ND as [_ ?]).
    assert (Hq : tid tq ∈ ids_t cj).
    { apply elem_of_list_fmap. exists tq. split; [done|by eapply subtree_t_nodes]. }
    (* the loop, from any position *)
    assert (G : forall l (s : nat), (forall k c, l !! k = Some c -> cs !! (s + k) = Some c) ->
              fpt_go St (rd_type d) (tid tq) l s =
              PointerProofs.fp_go (rd_type d) here (here ++ j :: rel') (map (reify St) l) s).
    { induction l as [|c r IHr]; intros s Hl; [done|]. cbn [fpt_go map PointerProofs.fp_go].
      pose proof (Hl 0 c eq_refl) as Hc0. rewrite Nat.add_0_r in Hc0.
      assert (Hrest : forall k c', r !! k = Some c' -> cs !! (S s + k) = Some c').
      { intros k c' Hk. replace (S s + k) with (s + S k) by lia. by apply Hl. }
      destruct (decide (s = j)) as [->|Hsj].
      - assert (c = cj) as -> by congruence.
        rewrite Forall_forall in IH.
        rewrite (IH cj ltac:(by eapply elem_of_list_lookup_2) (NoDup_ids_child i d cs j cj ND Ej) (here ++ [j]) rel' tq Hsub).
        rewrite <- app_assoc. cbn [app].
        destruct (PointerDefs.find_pointer (reify St cj) (here ++ [j]) (here ++ j :: rel')) as [tp|]; [apply fpt_result_value|].
        by apply IHr.
      - rewrite (find_ptr_t_none St c (tid tq)).
        2:{ apply (ids_lookup_disjoint cs j s cj c (tid tq) NDc Ej Hc0); [by intros ->|done]. }
        rewrite PointerProofs.find_pointer_none.
        2:{ intros rel0 E. rewrite <- app_assoc in E. apply app_inv_head in E. cbn in E. injection E as E _. by apply Hsj. }
        by apply IHr. }
    apply (G cs 0). intros k c Hk. exact Hk.
Qed.

(** * hypotheses on the tree from the value-level hypotheses of C15_construct *)
Lemma small_nodes_of_value St x : PointerDefs.small_arrays (reify St x) -> small_nodes x.
Proof.
  induction x as [i d cs IH] using tree_ind'. rewrite reify_unfold. intros Hs. apply PointerProofs.small_arrays_unfold in Hs as [Hlen Hcs].
  intros n Hn. rewrite nodes_t_unfold in Hn. apply elem_of_cons in Hn as [->|Hn].
  - cbn [tchildren]. rewrite map_length in Hlen. exact Hlen.
  - apply elem_of_nodes in Hn as (c & Hc & Hn). rewrite Forall_forall in IH. rewrite Forall_forall in Hcs.
    apply (IH c Hc); [|done]. apply Hcs. apply elem_of_list_fmap. by exists c.
Qed.

Lemma members_named_of_value St x : PointerDefs.keys_ok (reify St x) -> members_named x.
Proof.
  induction x as [i d cs IH] using tree_ind'. rewrite reify_unfold. intros Hk. apply PointerProofs.keys_ok_unfold in Hk as [Hobj Hcs].
  intros n Hn. rewrite nodes_t_unfold in Hn. apply elem_of_cons in Hn as [->|Hn].
  - cbn [tdata tchildren]. intros E c Hc. destruct (Hobj E) as [_ Hkeys]. rewrite Forall_forall in Hkeys.
    destruct (Hkeys (reify St c)) as (k & Hkk & _); [apply elem_of_list_fmap; by exists c|].
    rewrite reify_key in Hkk. unfold key_string in Hkk. intros E0. by rewrite E0 in Hkk.
  - apply elem_of_nodes in Hn as (c & Hc & Hn). rewrite Forall_forall in IH. rewrite Forall_forall in Hcs.
    apply (IH c Hc); [|done]. apply Hcs. apply elem_of_list_fmap. by exists c.
Qed.

(** * construction *)
Section Find.
  Context (h : heap) (F : forest) (junk : nat -> bytes).
  Hypothesis W : WF h F.
  Hypothesis SR : strings_readable h F.
  Hypothesis C : Closed h.
  Hypothesis Hjunk : forall n, length (junk n) = n.

  Lemma fview_of_node t k : t ∈ nodes F -> no_borrowed t -> height t <= k -> fview h (Pos.to_nat (h_next h)) k t.
  Proof. intros Ht Hb Hk. exact (view_of_node h F t k W SR Ht Hb Hk). Qed.

  (** the search from a node of the forest, for an arbitrary target identity: the tree-level search *)
  Theorem find_pointer_tree troot (q : positive) :
    troot ∈ nodes F -> no_borrowed troot -> members_named troot -> small_nodes troot ->
    exists res h',
      cJSONUtils_FindPointerFromObjectTo nofail junk (Some (tid troot)) (Some q) h = Ret (res, h') /\
      FPost h h' res (find_ptr_t (h_str h) troot q) /\ Closed h'.
  Proof.
    intros Ht Hb Hm Hs. unfold cJSONUtils_FindPointerFromObjectTo, heap_fuel. unfold bindM at 1.
    pose proof (height_lt_next h F troot W Ht) as Hh.
    exact (fp_view junk Hjunk q (Pos.to_nat (h_next h)) (Pos.to_nat (h_next h)) ltac:(lia) (height troot) (Pos.to_nat (h_next h)) troot Hh h
             (fview_of_node troot (height troot) Ht Hb (le_n _)) Hm Hs C).
  Qed.

  (** THE REFINEMENT: the target is the node at path [tp] below [troot] *)
  Theorem find_pointer_refines troot tp tq :
    troot ∈ nodes F -> no_borrowed troot -> members_named troot -> small_nodes troot ->
    subtree_t troot tp = Some tq ->
    exists res h',
      cJSONUtils_FindPointerFromObjectTo nofail junk (Some (tid troot)) (Some (tid tq)) h = Ret (res, h') /\
      FPost h h' res (PointerDefs.cJSONUtils_FindPointerFromObjectTo (reify (h_str h) troot) tp) /\ Closed h'.
  Proof.
    intros Ht Hb Hm Hs Hsub. destruct (find_pointer_tree troot (tid tq) Ht Hb Hm Hs) as (res & h' & Hrun & P & C').
    exists res, h'. split; [done|]. split; [|done].
    rewrite (find_ptr_t_value (h_str h) troot (NoDup_ids_t_node F troot (wf_nodup _ _ W) Ht) [] tp tq Hsub) in P. exact P.
  Qed.

  (** a target that is not in the tree: NULL, nothing stays allocated *)
  Theorem find_pointer_absent troot (q : positive) :
    troot ∈ nodes F -> no_borrowed troot -> members_named troot -> small_nodes troot -> q ∉ ids_t troot ->
    exists h', cJSONUtils_FindPointerFromObjectTo nofail junk (Some (tid troot)) (Some q) h = Ret (None, h') /\
      FPost h h' None None.
  Proof.
    intros Ht Hb Hm Hs Hq. destruct (find_pointer_tree troot q Ht Hb Hm Hs) as (res & h' & Hrun & P & C').
    rewrite (find_ptr_t_none _ _ _ Hq) in P. pose proof P as [_ _ _ _ _ (-> & _)]. by exists h'.
  Qed.
End Find.

(** NULL arguments: NULL, the heap untouched, on every heap *)
Lemma find_pointer_null oracle junk object target h :
  cJSONUtils_FindPointerFromObjectTo oracle junk None target h = Ret (None, h) /\
  cJSONUtils_FindPointerFromObjectTo oracle junk object None h = Ret (None, h).
Proof.
  unfold cJSONUtils_FindPointerFromObjectTo, heap_fuel. unfold bindM.
  destruct (Pos.to_nat (h_next h)) as [|df] eqn:Ef; [pose proof (Pos2Nat.is_pos (h_next h)); lia|].
  rewrite !FindPointer_fuel_S. split; [done|]. by destruct object.
Qed.

(** * the ledger *)
Lemma Closed_live_lt g b : Closed g -> b ∈ h_live g -> (b < h_next g)%positive.
Proof. apply Closed_live. Qed.

Theorem find_pointer_ledger g g' res v : Closed g -> FPost g g' res v ->
  match res with
  | Some r => r ∉ h_live g /\ lib_live g' = {[r]} ∪ lib_live g        (* exactly one new block: the result *)
  | None => lib_live g' = lib_live g                                   (* or none *)
  end.
Proof.
  intros C [_ _ _ _ A5 A6]. destruct v as [p|].
  - destruct A6 as (r & blk & -> & R1 & R2 & R3 & R4 & R5 & _). destruct (C r R1) as (N1 & _). split; [done|].
    apply set_eq. intros x. unfold lib_live. rewrite elem_of_union, !elem_of_filter, R4, elem_of_union, elem_of_singleton.
    split.
    + intros [Ho [->|Hx]]; [by left|]. right. split; [|done]. rewrite <- A5; [done|by apply Closed_live].
    + intros [->|[Ho Hx]]; [split; [done|by left]|]. split; [|by right]. rewrite A5; [done|by apply Closed_live].
  - destruct A6 as (-> & _ & R2). apply set_eq. intros x. unfold lib_live. rewrite !elem_of_filter, R2.
    split; intros [Ho Hx]; (split; [|done]); [rewrite <- A5|rewrite A5]; try done; by apply Closed_live.
Qed.

(** the result is the caller's: releasing it restores the memory *)
Theorem find_then_free g g' r p : Closed g -> FPost g g' (Some r) (Some p) -> Closed g' ->
  cJSON_free (Some r) g' = Ret (tt, free1 r g') /\ FPost g (free1 r g') None None.
Proof.
  intros C P C'. pose proof P as [_ _ _ _ _ (r0 & blk & E & R1 & R2 & R3 & R4 & R5 & _)]. injection E as <-.
  split; [apply run_free_block; [rewrite R4; set_solver|done]|]. exact (proj1 (drop_block_post g g' r p C P C')).
Qed.

(** * the invariant survives the search, and the inversion *)
Lemma MInv_after_find h h' F res v : MInv h F -> FPost h h' res v -> Closed h' -> MInv h' F.
Proof.
  intros I P C'. pose proof (MInv_Closed _ _ I) as C. pose proof (mi_wf _ _ I) as W. pose proof (FPost_pt _ _ _ _ C P) as PT.
  pose proof P as [A1 A2 A3 A4 A5 A6].
  assert (Hlive : forall b, b ∈ h_live h -> b ∈ h_live h').
  { intros b Hb. destruct v as [p|]; [destruct A6 as (r & blk & _ & _ & _ & _ & R4 & _); rewrite R4; set_solver|].
    destruct A6 as (_ & _ & R2). by rewrite R2. }
  constructor.
  - constructor.
    + apply W.
    + rewrite A1. apply W.
    + rewrite A2. apply W.
    + apply W.
    + intros b Hb. apply Hlive. by apply (wf_owned_live _ _ W).
    + intros b Hb. rewrite A5; [by apply (wf_owned_lib _ _ W)|by apply (wf_fresh _ _ W)].
    + intros b Hb. pose proof (wf_fresh _ _ W b Hb). lia.
    + apply W.
  - pose proof (mi_ok _ _ I) as K. constructor.
    + intros b Hb. destruct (Pos.ltb_spec b (h_next h')) as [|Hge]; [done|]. by destruct (C' b Hge) as [? _].
    + intros b [s Hs]. destruct v as [p|].
      * destruct A6 as (r & blk & _ & R1 & _ & R3 & R4 & _). rewrite R3 in Hs. rewrite R4, A2.
        destruct (decide (b = r)) as [->|Hne].
        -- split; [set_solver|]. by destruct (C r R1) as (_ & _ & ? & _).
        -- rewrite lookup_insert_ne in Hs by done. destruct (hk_str _ K b ltac:(eauto)) as [H1 H2]. split; [set_solver|done].
      * destruct A6 as (_ & R1 & R2). rewrite R1 in Hs. rewrite R2, A2. exact (hk_str _ K b ltac:(eauto)).
    + intros b Hb. rewrite A2 in Hb. pose proof (hk_dat _ K b Hb). lia.
  - apply I.
  - intros e He. destruct (mi_read _ _ I e He) as [R1 R2].
    assert (Hok : forall b, str_ok h b -> str_ok h' b).
    { intros b (Hl & s & Hs & Hz). destruct (proj2 (proj2 PT) b s (conj Hl Hs)) as [Hl' Hs']. split; [done|]. by exists s. }
    split; intros b Hb; apply Hok; auto.
Qed.

Theorem find_then_get h F junk troot tp tq :
  MInv h F -> (forall n, length (junk n) = n) -> troot ∈ nodes F -> subtree_t troot tp = Some tq ->
  PointerDefs.small_arrays (reify (h_str h) troot) -> PointerDefs.keys_ok (reify (h_str h) troot) ->
  PointerDefs.containers_ok (reify (h_str h) troot) ->
  exists (r : positive) h' p,
    cJSONUtils_FindPointerFromObjectTo nofail junk (Some (tid troot)) (Some (tid tq)) h = Ret (Some r, h') /\
    FPost h h' (Some r) (Some p) /\ MInv h' F /\ CsReads h' (CAt r 0) p /\
    PointerDefs.cJSONUtils_FindPointerFromObjectTo (reify (h_str h) troot) tp = Some p /\
    PointerDefs.rfc6901 (reify (h_str h) troot) p = Some tp /\
    cJSONUtils_GetPointerCaseSensitive (Some (tid troot)) (CAt r 0) h' = Ret (Some (tid tq), h').
Proof.
  intros I Hjunk Ht Hsub Hsm Hko Hco. pose proof (mi_wf _ _ I) as W. pose proof (MInv_Closed _ _ I) as C.
  destruct (find_pointer_refines h F junk W (MInv_strings_readable _ _ I) C Hjunk troot tp tq Ht (MInv_no_borrowed _ _ I _ Ht)
              (members_named_of_value _ _ Hko) (small_nodes_of_value _ _ Hsm) Hsub) as (res & h' & Hrun & P & C').
  assert (Hvsub : Tree.subtree (reify (h_str h) troot) tp = Some (reify (h_str h) tq)) by (by rewrite reify_subtree, Hsub).
  destruct (PointerProofs.find_pointer_roundtrip _ tp _ Hsm Hko Hco Hvsub) as (p & Hfind & Hnz & Hget & Hrfc).
  rewrite Hfind in P. pose proof P as [_ _ _ _ _ (r & blk & -> & R1 & R2 & R3 & R4 & R5 & R6 & R7)].
  pose proof (MInv_after_find h h' F _ _ I P C') as I'.
  assert (Hcs : CsReads h' (CAt r 0) p).
  { rewrite <- R6. apply CsReads_block; [rewrite R4; set_solver|rewrite R3; by rewrite lookup_insert|done]. }
  assert (Hreify : reify (h_str h') troot = reify (h_str h) troot).
  { apply reify_frame. intros b Hb. rewrite R3. apply lookup_insert_ne. intros <-.
    pose proof (str_blocks_in_owned F troot r (mi_own _ _ I) Ht Hb) as Ho. pose proof (wf_fresh _ _ W r Ho). lia. }
  exists r, h', p. split; [done|]. split; [done|]. split; [done|]. split; [done|]. split; [done|]. split; [done|].
  rewrite (proj2 (get_pointer_refines h' F troot (CAt r 0) p I' Ht Hcs)). rewrite Hreify, Hget. cbn. by rewrite Hsub.
Qed.
