(** Properties_C19.v — property C19: sorting an object yields a sorted permutation of the same
    member nodes and a healthy container.  Only statements closed by [exact].

    Reading guide.  [children_of h o l] (SortProofs.v) says: object node [o] is live, its [child]
    field is the head of [l], the ids [l] are pairwise distinct, the link map of the heap agrees on
    [l] with the canonical links [slinks l] of the cJSON sibling convention (next forward, prev
    backward, head.prev = tail, tail.next = NULL; [slinks = Forest.links], SortForest.v) — these
    four are [children_shape] — and the [l] are live nodes whose keys are live zero-terminated
    string blocks ([node_ok]).  [keyof h x] is the C string that is the
    key of node [x]; [key_le cs] is "compare_strings <= 0" for the variant ([cs = true]: byte order,
    [cs = false]: ASCII-case-folded order); [sort_spec cs] is the stable insertion sort of
    (node, key) pairs by that order.  [sort_object fuel (Some o) cs] is the transliteration of
    cJSON_Utils.c [sort_object] (calling [sort_list], [compare_strings]); the public entry points
    are [cJSONUtils_SortObject = sort_object _ _ false] and [...CaseSensitive = sort_object _ _ true]. *)
From CJ Require Import Base Dbl Tree Heap SortDefs SortSpec SortChain SortLoops SortProofs.
From stdpp Require Import gmap sorting.
Local Open Scope Z_scope.

(** For every heap, every object, every children list of any length and any key multiset, both
    variants, and any fuel >= length + 2: the call returns normally (no NULL dereference, no access
    to a dead block, no read past a key's terminator, fuel suffices); afterwards the children of
    [o] are [l'], which is [sort_spec] of the children before — a permutation of the same nodes,
    sorted for the variant's key order, members with equal keys in their original order; the heap
    encodes [l'] canonically again; links of nodes outside the chain, all other fields of all
    nodes, all strings, liveness, ownership, allocator state and the event trace are unchanged
    (so all subtrees are untouched: same ids, same data, same descendants). *)
Theorem C19_sorted_perm : forall h o l cs fuel,
  children_of h o l -> (sort_fuel (length l) <= fuel)%nat ->
  exists h' l' d,
    sort_object fuel (Some o) cs h = Ret (tt, h') /\
    l' = map fst (sort_spec cs (map (fun x => (x, keyof h x)) l)) /\
    Permutation l' l /\
    StronglySorted (fun x y => key_le cs (keyof h x) (keyof h y) = true) l' /\
    (forall k, let same := fun x => bytes_eqb (key_fold cs (keyof h x)) (key_fold cs k) in
               List.filter same l' = List.filter same l) /\
    children_of h' o l' /\
    (forall z, z ∉ l -> h_lnk h' !! z = h_lnk h !! z) /\
    h_dat h !! o = Some d /\
    h' = mkHeap (h_lnk h') (<[o := nd_set_child d (head l')]> (h_dat h)) (h_str h) (h_own h) (h_live h)
                (h_next h) (h_req h) (h_hooks h) (h_trace h).
Proof. exact sort_object_sorted_perm. Qed.
Print Assumptions C19_sorted_perm.

(** Sorting a sorted object changes nothing: the second call returns the very same heap. *)
Theorem C19_idempotent : forall h o l cs fuel h1,
  children_of h o l -> (sort_fuel (length l) <= fuel)%nat ->
  sort_object fuel (Some o) cs h = Ret (tt, h1) ->
  sort_object fuel (Some o) cs h1 = Ret (tt, h1).
Proof. exact sort_object_idempotent. Qed.
Print Assumptions C19_idempotent.

(** Health: the heap the call returns is the canonical encoding of the sorted children list
    (so head.prev designates the tail again and every statement about well-formed containers —
    append, insert, detach, replace, print, delete — applies to the sorted object), and nothing
    outside the chain's links and the object's child field was written. *)
Theorem C19_healthy : forall h o l cs fuel h',
  children_of h o l -> (sort_fuel (length l) <= fuel)%nat ->
  sort_object fuel (Some o) cs h = Ret (tt, h') ->
  children_of h' o (isort (hle h cs) l) /\
  (forall z, z ∉ l -> h_lnk h' !! z = h_lnk h !! z) /\
  (forall z, z <> o -> h_dat h' !! z = h_dat h !! z) /\
  h_str h' = h_str h /\ h_live h' = h_live h /\ h_own h' = h_own h /\ h_trace h' = h_trace h.
Proof. exact sort_object_healthy. Qed.
Print Assumptions C19_healthy.

(** The inner function: [sort_list] turns any NULL-terminated chain (prev of the head arbitrary)
    of distinct nodes with readable keys into the chain of the sorted ids and writes no link
    outside it. *)
Theorem C19_sort_list : forall h cs fuel l m,
  (length l + 2 <= fuel)%nat -> chain m l -> NoDup l -> (forall x, x ∈ l -> node_ok h x) ->
  exists m', sort_list fuel (head l) cs (with_lnk h m) = Ret (head (isort (hle h cs) l), with_lnk h m') /\
             chain m' (isort (hle h cs) l) /\
             (forall z, z ∉ l -> m' !! z = m !! z).
Proof. exact sort_list_correct. Qed.
Print Assumptions C19_sort_list.

(** Members whose key is NULL (put into the object with the array API): [children_of0] is
    [children_of] with "key is NULL or a readable string".  The call still returns normally, the
    children afterwards are a permutation of the same nodes, and the heap encodes them canonically,
    so the object stays a healthy container.  (Sortedness and idempotence are NOT claimed: see
    C19_null_key_alternates.) *)
Theorem C19_any_keys_safe_healthy : forall h o l cs fuel,
  children_of0 h o l -> (sort_fuel (length l) <= fuel)%nat ->
  exists h' l' d,
    sort_object fuel (Some o) cs h = Ret (tt, h') /\
    Permutation l' l /\
    children_of0 h' o l' /\
    (forall z, z ∉ l -> h_lnk h' !! z = h_lnk h !! z) /\
    h_dat h !! o = Some d /\
    h' = mkHeap (h_lnk h') (<[o := nd_set_child d (head l')]> (h_dat h)) (h_str h) (h_own h) (h_live h)
                (h_next h) (h_req h) (h_hooks h) (h_trace h).
Proof. exact sort_object_any_keys. Qed.
Print Assumptions C19_any_keys_safe_healthy.

(** The hypothesis "keys are strings" of C19_sorted_perm / C19_idempotent is necessary: on the
    object {NULL:0, "a":1} (member nodes 2 and 3) every call swaps the two members, because
    compare_strings answers 1 whenever a side is NULL.  (A finite computation on the model.) *)
Theorem C19_null_key_alternates :
  exists r, run_sort_case true ex_null_obj = Ret r /\
            sr_before r = [2; 3]%positive /\ sr_after r = [3; 2]%positive /\ sr_after2 r = [2; 3]%positive /\
            sr_healthy r = true /\ sr_healthy2 r = true.
Proof. exact ex_null_key_alternates. Qed.
Print Assumptions C19_null_key_alternates.

(** The specification itself: a permutation, sorted, stable, idempotent. *)
Theorem C19_spec_perm : forall cs l, Permutation (sort_spec cs l) l.
Proof. exact sort_spec_perm. Qed.
Print Assumptions C19_spec_perm.

Theorem C19_spec_sorted : forall cs l,
  Sorted (fun a b => key_le cs (snd a) (snd b) = true) (sort_spec cs l).
Proof. exact sort_spec_sorted. Qed.
Print Assumptions C19_spec_sorted.

Theorem C19_spec_stable : forall cs k l,
  let same := fun m : positive * bytes => bytes_eqb (key_fold cs (snd m)) (key_fold cs k) in
  List.filter same (sort_spec cs l) = List.filter same l.
Proof. exact sort_spec_stable. Qed.
Print Assumptions C19_spec_stable.

Theorem C19_spec_idempotent : forall cs l, sort_spec cs (sort_spec cs l) = sort_spec cs l.
Proof. exact sort_spec_idem. Qed.
Print Assumptions C19_spec_idempotent.

(** The merge of [sort_list] (on ties take from the first run) of the two sorted halves is the
    stable sort of the whole, for any total and transitive order. *)
Theorem C19_merge_halves : forall (A : Type) (le : A -> A -> bool),
  (forall a b, le a b = true \/ le b a = true) ->
  (forall a b c, le a b = true -> le b c = true -> le a c = true) ->
  forall l1 l2, merge_runs le (isort le l1) (isort le l2) = isort le (l1 ++ l2).
Proof. exact @merge_isort. Qed.
Print Assumptions C19_merge_halves.

(** Non-vacuity: the heap built for {"c":0,"a":1,"b":2,"A":3} (object node 1, member nodes 2 4 6 8)
    satisfies the hypotheses; the case-insensitive sort yields a A b c (4 8 6 2: "a" stays in front
    of "A"), the case-sensitive one A a b c (8 4 6 2), and both results are healthy containers. *)
Theorem C19_nonvacuous :
  children_of ex_heap 1%positive ex_l /\
  (exists h', sort_object (sort_fuel 4) (Some 1%positive) false ex_heap = Ret (tt, h') /\
              children_of h' 1%positive [4; 8; 6; 2]%positive) /\
  (exists h', sort_object (sort_fuel 4) (Some 1%positive) true ex_heap = Ret (tt, h') /\
              children_of h' 1%positive [8; 4; 6; 2]%positive).
Proof. exact ex_sorted. Qed.
Print Assumptions C19_nonvacuous.
