"""C12 — Compare decides semantic equality of JSON values."""
import random, copy, sys
sys.setrecursionlimit(30000)
from .common import *

MODEL_FILES = 'CompareDefs.v (cJSON_Compare, get_object_item, case_insensitive_strcmp), Dbl.v (compare_double)'
RULE = ('random trees (distinct keys per object; distinct after ASCII folding when comparing case-insensitively) each against itself (same pointer), '
        'an equal copy, every kind of single-point mutation (type, one ulp / 2 ulp / sign / inf / nan of a number, one byte of a string or key, '
        'element added/removed, member renamed by case, member added) and member permutations; one member removed at EVERY position of every object of the tree (strict sub-objects, both orders, shuffled); a sample of all cases with both operands in READ-ONLY memory during the calls (arena allocator + mprotect: any store faults); both argument orders, both case modes, '
        'ownership flags set at random, NULL and invalid-type arguments; verdict = python implementation of the declarative equality; '
        'non-trivial = distinct pair that is not (NULL, x)')
ASSUMPTIONS = ['C locale (tolower)', 'hand-written transliteration validated by this differential run', 'python float arithmetic is IEEE binary64 (used by the verdict)']
EPS = 2.220446049250313e-16
CKEYS = ['a', 'b', 'c', 'key', 'K2', 'x y', '', 'é', 'zz', 'q', 'a[0]', 'k_1', '@', 'z^', 'Z\\']

def num_eq(a, b):
    a = float(a); b = float(b)
    if a != a or b != b: return False
    m = max(abs(a), abs(b))
    if m == float('inf'): return a == b
    return abs(a - b) <= m * EPS

def fold(k, cs): return k if cs else ''.join(chr(ord(c) + 32) if 'A' <= c <= 'Z' else c for c in k)

class Num:
    """a number node with explicit double (python float, may be inf/nan)"""
    def __init__(self, d): self.d = d
class Raw(str): pass
class Invalid: pass

def sem_eq(a, b, cs):
    if type(a) is not type(b) and not (isinstance(a, (int, float, Num)) and isinstance(b, (int, float, Num)) and not isinstance(a, bool) and not isinstance(b, bool)): return False
    if isinstance(a, Invalid): return False
    if a is None or isinstance(a, bool): return a is b or a == b
    if isinstance(a, (int, float, Num)):
        return num_eq(a.d if isinstance(a, Num) else a, b.d if isinstance(b, Num) else b)
    if isinstance(a, str): return a == b
    if isinstance(a, Obj):
        da = {fold(k, cs): v for k, v in a}; db = {fold(k, cs): v for k, v in b}
        return da.keys() == db.keys() and all(sem_eq(da[k], db[k], cs) for k in da)
    return len(a) == len(b) and all(sem_eq(x, y, cs) for x, y in zip(a, b))

def toks(v, rng, key=None):
    fl = rng.choice([0, 0, 0, F_REF, F_CONST, F_REF | F_CONST]) if rng else 0
    if isinstance(v, Invalid): return node_tokens(0 | fl, key=key)
    if isinstance(v, Num): return node_tokens(T_NUMBER | fl, vi=sat_int(v.d), vd=v.d, key=key)
    if isinstance(v, Raw): return node_tokens(T_RAW | fl, vs=str(v), key=key)
    if v is None: return node_tokens(T_NULL | fl, key=key)
    if v is True: return node_tokens(T_TRUE | fl, key=key)
    if v is False: return node_tokens(T_FALSE | fl, key=key)
    if isinstance(v, (int, float)): return node_tokens(T_NUMBER | fl, vi=sat_int(v), vd=float(v), key=key)
    if isinstance(v, str): return node_tokens(T_STRING | fl, vs=v, key=key)
    if isinstance(v, Obj): return node_tokens(T_OBJECT | (fl & ~F_REF), key=key, children=[toks(e, rng, key=k) for k, e in v])
    return node_tokens(T_ARRAY | (fl & ~F_REF), key=key, children=[toks(e, rng) for e in v])

def mutate(v, rng, cs):
    """one single-point mutation somewhere in v (returns a new value)"""
    v = copy.deepcopy(v)
    nodes = []
    def walk(x, setter):
        nodes.append((x, setter))
        if isinstance(x, Obj):
            for i, (k, e) in enumerate(x): walk(e, (lambda nv, x=x, i=i: x.__setitem__(i, (x[i][0], nv))))
        elif isinstance(x, list):
            for i, e in enumerate(x): walk(e, (lambda nv, x=x, i=i: x.__setitem__(i, nv)))
    box = [v]
    walk(v, lambda nv: box.__setitem__(0, nv))
    x, setter = rng.choice(nodes)
    if isinstance(x, Obj) and x and rng.random() < 0.7:
        k = rng.randrange(8 if cs else 6); i = rng.randrange(len(x))
        if k == 5 and x[i][0]:
            # flip bit 0x20 of one character of a key: a case change for letters, a DIFFERENT key for punctuation ([ vs {, @ vs `, ^ vs ~, _ vs DEL)
            kk = x[i][0]; j = rng.randrange(len(kk)); ch = ord(kk[j])
            nk = kk[:j] + (chr(ch ^ 0x20) if 0x40 <= ch <= 0x7f else kk[j] + '{') + kk[j + 1:]
            if fold(nk, cs) not in [fold(k2, cs) for k2, _ in x]: x[i] = (nk, x[i][1])
            else: x[i] = (kk + 'x', x[i][1])
        elif k == 5: x[i] = ('[', x[i][1])
        elif k >= 6:
            # case-sensitive mode only: add a member whose key differs from an existing one only by ASCII case
            nk = x[i][0].swapcase()
            if nk != x[i][0] and nk not in [kk for kk, _ in x]: x.append((nk, copy.deepcopy(x[i][1]) if k == 5 else 7))
            else: x.append(('new' + str(len(x)), 1))
        elif k == 0: del x[i]
        elif k == 1: x.append(('new' + str(len(x)), 1))
        elif k == 2: x[i] = (x[i][0] + 'x', x[i][1])
        elif k == 3: x[i] = (x[i][0].swapcase() if x[i][0].swapcase() != x[i][0] else x[i][0] + 'Q', x[i][1])
        else: rng.shuffle(x)
    elif isinstance(x, list) and not isinstance(x, Obj) and x and rng.random() < 0.7:
        k = rng.randrange(3)
        if k == 0: del x[rng.randrange(len(x))]
        elif k == 1: x.append(None)
        elif len(x) > 1: i = rng.randrange(len(x) - 1); x[i], x[i + 1] = x[i + 1], x[i]
    elif isinstance(x, (int, float, Num)) and not isinstance(x, bool):
        d = x.d if isinstance(x, Num) else float(x)
        k = rng.randrange(8)
        try: u = dbl_bits(d)
        except Exception: u = 0
        if k == 0: nd = bits_dbl((u + 1) & (2**64 - 1))
        elif k == 1: nd = bits_dbl((u + 2) & (2**64 - 1))
        elif k == 2: nd = -d
        elif k == 3: nd = float('inf')
        elif k == 4: nd = float('nan')
        elif k == 5: nd = d * (1 + 3e-16)
        elif k == 6: nd = d + 1
        else: nd = bits_dbl((u - 1) & (2**64 - 1)) if u else 5e-324
        setter(Num(nd))
    elif isinstance(x, str):
        k = rng.randrange(3)
        setter(x + 'x' if k == 0 else (x[:-1] if x and k == 1 else x.swapcase() + ('' if x.swapcase() != x else '!')))
    else:
        setter(rng.choice([None, True, False, 0, '', [], Obj(), Raw('x'), Invalid()]))
    return box[0]

def corpus(ctx): return load_corpus(ctx['verif'], 'C12')

def generate(ctx):
    rng = random.Random(ctx['seed'] * 15485863 + 12)
    quick = ctx['tier'] == 'quick'
    cases = []
    def distinct_ok(x):
        # the property quantifies over objects with distinct keys (distinct after folding when case-insensitive)
        if isinstance(x, Obj):
            ks = [fold(k, cs_cur[0]) for k, _ in x]
            return len(ks) == len(set(ks)) and all(distinct_ok(e) for _, e in x)
        if isinstance(x, list): return all(distinct_ok(e) for e in x)
        return True
    cs_cur = [1]
    def add(a, b, cs, same, tag):
        cs_cur[0] = cs
        if not all(distinct_ok(x) for x in (a, b) if x != 'NULLARG'): return
        ta = 'NULL' if a == 'NULLARG' else ' '.join(toks(a, rng))
        tb = '' if same else ('NULL' if b == 'NULLARG' else ' '.join(toks(b, rng)))
        cases.append(Case(('compare %d %d %s %s' % (cs, 1 if same else 0, ta, tb)).strip(), {'tags': [tag, 'cs' if cs else 'ci'], 'a': a, 'b': (a if same else b), 'cs': cs, 'same': same}))
    n = 150 if quick else 3000
    for i in range(n):
        cs = rng.choice([1, 1, 0])
        keys = CKEYS if not cs else CKEYS + ['A', 'KEY', 'B']
        v = rand_json_value(rng, depth=rng.choice([1, 2, 3, 4]), keys=keys)
        if rng.random() < 0.2: v = mutate(v, rng, cs)       # seeds inf / nan / raw / invalid into the base tree sometimes
        add(v, v, cs, True, 'same-pointer')
        add(v, copy.deepcopy(v), cs, False, 'equal-copy')
        for _ in range(6 if quick else 10):
            add(v, mutate(v, rng, cs), cs, False, 'mutation')
        w = copy.deepcopy(v)
        def shuf(x):
            if isinstance(x, Obj): rng.shuffle(x); [shuf(e) for _, e in x]
            elif isinstance(x, list): [shuf(e) for e in x]
        shuf(w); add(v, w, cs, False, 'permutation')
        if not cs:
            def recase(x):
                if isinstance(x, Obj): return Obj([(k.swapcase(), recase(e)) for k, e in x])
                if isinstance(x, list): return [recase(e) for e in x]
                return x
            add(v, recase(v), 0, False, 'recased-keys'); add(v, recase(v), 1, False, 'recased-keys')
    # strict sub-objects in both argument orders: one member of an object (anywhere in the tree) removed at EVERY position — an extra
    # member at the front or in the middle of the other operand must be noticed just like one at the end, in either direction
    def objects_in(x, path=()):
        if isinstance(x, Obj):
            yield path
            for i, (_, e) in enumerate(x): yield from objects_in(e, path + (i,))
        elif isinstance(x, list):
            for i, e in enumerate(x): yield from objects_in(e, path + (i,))
    def at(x, path):
        for i in path: x = x[i][1] if isinstance(x, Obj) else x[i]
        return x
    for i in range(40 if quick else 400):
        cs = rng.choice([1, 0])
        v = rand_json_value(rng, depth=rng.choice([1, 2, 3]), keys=CKEYS)
        if not isinstance(v, Obj): v = Obj([('host', v), ('port', 1), ('user', [v])])
        for path in list(objects_in(v))[:6]:
            o = at(v, path)
            for j in range(len(o)):
                w = copy.deepcopy(v); del at(w, path)[j]
                add(w, v, cs, False, 'sub-object'); add(v, w, cs, False, 'sub-object')
                ws = copy.deepcopy(w); rng.shuffle(at(ws, path)); add(ws, v, cs, False, 'sub-object')
    for v in [None, 1, Invalid(), Raw('x'), 'x', Obj(), []]:
        add('NULLARG', v, 1, False, 'null-arg'); add(v, 'NULLARG', 1, False, 'null-arg'); add(v, Invalid(), 1, False, 'invalid')
        add(Invalid(), Invalid(), 1, True, 'invalid-same')
    # exhaustive sweep over the case split of the ASCII fold: every key byte against its 0x20-flipped twin
    for c in range(0x21, 0x7f):
        for pre in ('', 'k'):
            k1 = pre + chr(c); k2 = pre + chr(c ^ 0x20)
            if c ^ 0x20 < 0x21 or c ^ 0x20 > 0x7e: continue
            for cs in (0, 1):
                add(Obj([(k1, 1)]), Obj([(k2, 1)]), cs, False, 'fold-sweep')
    # values nested about as deep as the parser accepts (and deeper, as the construction API allows): equality has no depth limit
    if ctx.get('seed_index', 0) == 0:
        NL = nesting_limit(ctx['repo'])
        for depth in (NL - 2, NL - 1, NL, NL + 1, NL + 200):
            v = 1; w = 2
            for _ in range(depth): v = [v]; w = [w]
            add(v, copy.deepcopy(v), 1, False, 'deep'); add(v, w, 1, False, 'deep'); add(v, v, 1, True, 'deep')
    specials = [float('inf'), float('-inf'), float('nan'), 1.7976931348623157e308, 0.0, -0.0, 5e-324, 1.0, 1.0000000000000002, 0.9999999999999999, 1e308, 2.2250738585072014e-308, 4503599627370496.0, 4503599627370497.0]
    for x in specials:
        for y in specials:
            add(Num(x), Num(y), 1, False, 'number-grid')
    # "never modifies its arguments", literally: a sample of all of the above with both operands in READ-ONLY memory during the calls
    for c in rng.sample(cases, min(len(cases), 300 if quick else 2000)):
        t = c.line.split(' ', 3)
        if len(t) < 4: continue
        info = dict(c.info); info['tags'] = list(info['tags']) + ['read-only-operands']
        cases.append(Case('compare %s %d %s' % (t[1], int(t[2]) + 2, t[3]), info))
    return cases

def project(c, out): return strip_suffix(out)

def verdict(c, out, ctx):
    if is_crash(out): return 'crash / memory error: ' + out
    ap = alloc_problem(out)
    if ap: return ap
    o = strip_suffix(out).split()
    if len(o) < 3: return 'malformed output'
    if o[2] != 'U': return 'cJSON_Compare modified its arguments'
    a, b, cs = c.info.get('a'), c.info.get('b'), c.info.get('cs')
    if a is None and 'a' not in c.info: return None
    if a == 'NULLARG' or b == 'NULLARG': exp = False
    elif c.info.get('same'): exp = not isinstance(a, Invalid)
    else: exp = sem_eq(a, b, bool(cs))
    e = '1' if exp else '0'
    if o[0] != e: return 'Compare(a,b) = %s but the values are %s' % (o[0], 'equal' if exp else 'different')
    if o[1] != e: return 'Compare(b,a) = %s but the values are %s (symmetry)' % (o[1], 'equal' if exp else 'different')
    return None

def nontrivial(c, out):
    return 'NULL' not in c.line and not is_crash(out)


# ---------------------------------------------------------------------------------------------------------------------------------
# The HEAP-LEVEL transliterations the companion file Properties_C12_Heap.v is about are executed against the library too
# (area uheap, tools/props/uheap.py): same operand trees, results, operand trees afterwards and allocator ledger compared.
from . import uheap as _UH
AREAS = ['base', 'uheap']
MODEL_FILES = MODEL_FILES + '; heap-level: ' + _UH.MODEL_FILES
RULE = RULE + ' || area uheap (heap-level transliterations, kinds %s): ' % '/'.join(_UH.KINDS_OF['C12']) + _UH.RULE
_generate0, _project0, _verdict0, _nontrivial0 = generate, project, verdict, nontrivial
def generate(ctx): return _generate0(ctx) + _UH.generate(ctx, kinds=_UH.KINDS_OF['C12'])
def project(c, out): return _UH.project(c, out) if c.info.get('area') == 'uheap' else _project0(c, out)
def verdict(c, out, ctx): return _UH.verdict(c, out, ctx) if c.info.get('area') == 'uheap' else _verdict0(c, out, ctx)
def nontrivial(c, out): return _UH.nontrivial(c, out) if c.info.get('area') == 'uheap' else _nontrivial0(c, out)
