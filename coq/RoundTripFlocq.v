(** RoundTripFlocq.v — property C04, helper: SpecFloat's rounding functions (the ones Dbl.v uses)
    are Flocq's with rounding mode nearest-even, at precision 53 / emax 1024.  (The same bridge
    exists in Flocq's PrimFloat.v; it is re-proved here in a few lines so that the development
    does not load Coq's primitive-float axioms, which it does not use.) *)
From Coq Require Import ZArith Floats.SpecFloat.
From Flocq Require Import IEEE754.BinarySingleNaN.
Local Open Scope Z_scope.

Notation P := 53%Z.
Notation E := 1024%Z.
Notation bf := (binary_float P E).
#[export] Instance Hp53 : FLX.Prec_gt_0 P := eq_refl.
#[export] Instance Hm1024 : Prec_lt_emax P E := eq_refl.

Lemma rne_equiv s m l : round_nearest_even m l = choice_mode mode_NE s m l.
Proof.
  destruct l as [|c]; [reflexivity|]. destruct c; try reflexivity.
  cbn. unfold Round.cond_incr. destruct (Z.even m); reflexivity.
Qed.

Lemma round_aux_equiv sx mx ex lx :
  SpecFloat.binary_round_aux P E sx mx ex lx = binary_round_aux P E mode_NE sx mx ex lx.
Proof.
  unfold SpecFloat.binary_round_aux, binary_round_aux.
  destruct (shr_fexp P E mx ex lx) as [mrs' e']. cbn.
  rewrite (rne_equiv sx). reflexivity.
Qed.

Lemma round_equiv s m e :
  SpecFloat.binary_round P E s m e = binary_round P E mode_NE s m e.
Proof.
  unfold SpecFloat.binary_round, binary_round, shl_align_fexp.
  destruct (shl_align m e (fexp P E (Z.pos (digits2_pos m) + e))) as [mz ez].
  apply round_aux_equiv.
Qed.

Lemma normalize_equiv m e szero :
  SpecFloat.binary_normalize P E m e szero = B2SF (binary_normalize P E Hp53 Hm1024 mode_NE m e szero).
Proof.
  destruct m as [|p|p].
  - reflexivity.
  - cbn. rewrite B2SF_SF2B. apply round_equiv.
  - cbn. rewrite B2SF_SF2B. apply round_equiv.
Qed.
