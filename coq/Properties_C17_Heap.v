(** Properties_C17_Heap.v (companion of Properties_C17.v) — property C17 for the HEAP-LEVEL code of the JSON Patch
    GENERATION.  Only statements closed by [exact].

    Properties_C17.v is about PatchDefs.v, the VALUE-level transliteration of [create_patches], [compose_patch] and
    [cJSONUtils_GeneratePatches[CaseSensitive]] (DESIGN 5.6, Tier B), which presupposes that the cJSON.c primitives act
    on values like list functions and that the path texts built with sprintf / encode_string_as_pointer in
    cJSON_malloc'ed blocks are just byte lists.  Here neither is presupposed: GenPatchHeapDefs.v transliterates
    [pointer_encoded_length], [encode_string_as_pointer], [compose_patch], [create_patches] and the two entry points of
    cJSON_Utils.c statement by statement on the memory model of Heap.v — byte loops with checked loads and stores, the
    cJSON_malloc'ed [full_path] / [new_path] blocks (filled with non-zero junk) and their cJSON_free, the libc
    [sprintf] calls as one checked store of the bytes of the path, '/', the decimal digits ([PointerDefs.print_lu], the
    "%lu" of the value-level model) and the terminator — and the theorems below say that this code REFINES the
    value-level model.

    Reading guide.  [h] heap, [F] forest, [MInv h F] the invariant of Properties_C18_Heap.v (well-formed heap [WF],
    structural sanity [HeapOK], every node owns its strings, every string a live NUL-terminated block).
    [cstring] = a [const char *] argument: NULL, block + offset, or a literal; [CsReads h c nm]: [c] designates the
    readable C string [nm] in [h] (Properties_C16_Heap.v).  [reify St t] reads a forest tree as a [Tree.node].
    [wrB h B buf]: the heap [h] with the contents of the byte block [B] replaced by [buf], nothing else changed.
    [Step V h F h' F']: the frame rule of the generation, which runs with temporary path blocks alive
    ([C17_heap_step_is]).  [nofail] = the allocator that never fails (the C code does not test the result of the
    cJSON_malloc calls in compose_patch / create_patches: DESIGN 11.6). *)
From CJ Require Import Base Dbl Heap Forest ForestLemmas CoreDefs CoreRefineBase CoreRefineAddObject CoreRefineDupValue CoreRefineDupForest CoreLedgerGen.
From CJ Require Import TierBridgeDefs MergeHeapDefs MergeHeapInv MergeHeapEx GenMergeHeapDefs GenMergeHeapForest GenMergeHeapEx
  PatchHeapDefs PatchHeapPointer PatchHeapSteps.
From CJ Require Import PatchHeapApplyDefs PatchHeapTest GenPatchHeapDefs GenPatchHeapBytes GenPatchHeapSteps GenPatchHeapCompose GenPatchHeapProofs
  GenPatchHeapEntry GenPatchHeapRound GenPatchHeapEx.
From CJ Require Tree CoreOps PointerDefs PatchDefs SortSpec CoreRefineFrame Rfc6902 PatchConform PatchApply PatchExact PatchHeapLoop GenPatchHeapValue.
From CJ.gen Require Import Constants.
From stdpp Require Import gmap.
Local Open Scope Z_scope.

(** ------------------------------------------------------------------ 1. the byte loops and sprintf *)

Theorem C17_heap_wrB_is : forall h B buf,
  wrB h B buf = mkHeap (h_lnk h) (h_dat h) (<[B := buf]> (h_str h)) (h_own h) (h_live h) (h_next h) (h_req h) (h_hooks h) (h_trace h).
Proof. exact (fun h B buf => eq_refl). Qed.

(** STAGE 1a.  [pointer_encoded_length(string)] on a readable string argument: returns normally, leaves the heap
    untouched, and returns the length of the value-level encoding *)
Theorem C17_heap_pointer_encoded_length : forall h c nm, CsReads h c nm ->
  pointer_encoded_length c h = Ret (PointerDefs.pointer_encoded_length nm, h).
Proof. exact pointer_encoded_length_refines. Qed.
Print Assumptions C17_heap_pointer_encoded_length.

(** STAGE 1b.  [encode_string_as_pointer(B + off, source)]: [B] a live library block holding [buf], the source a
    readable string outside [B].  When the encoding and its terminator fit behind [off], the run returns normally and
    the block holds: the bytes before [off], the value-level encoding, the terminator, the old bytes behind it;
    nothing else in the heap changes. *)
Theorem C17_heap_encode_string_as_pointer : forall h B (buf : bytes) (off : nat) src nm,
  B ∈ h_live h -> h_own h !! B = Some Lib -> h_str h !! B = Some buf ->
  CsReads h src nm -> (forall o, src <> CAt B o) ->
  let enc := PointerDefs.encode_string_as_pointer nm in
  (off + length enc + 1 <= length buf)%nat ->
  encode_string_as_pointer (CAt B off) src h =
  Ret (tt, wrB h B (take off buf ++ enc ++ 0 :: drop (off + length enc + 1) buf)).
Proof. exact encode_string_as_pointer_refines. Qed.
Print Assumptions C17_heap_encode_string_as_pointer.

(** … and the bound is exact: one byte less and the run ends in [OutOfBounds] (the checked store of the last
    encoded byte or of the terminator) — the blocks compose_patch and create_patches allocate are exactly
    [strlen(path) + pointer_encoded_length(name) + sizeof("/")] bytes *)
Theorem C17_heap_encode_overflow : forall h B (buf : bytes) (off : nat) src nm,
  B ∈ h_live h -> h_own h !! B = Some Lib -> h_str h !! B = Some buf ->
  CsReads h src nm -> (forall o, src <> CAt B o) -> (off <= length buf)%nat ->
  (length buf < off + length (PointerDefs.encode_string_as_pointer nm) + 1)%nat ->
  encode_string_as_pointer (CAt B off) src h = Err OutOfBounds.
Proof. exact encode_string_as_pointer_overflow. Qed.
Print Assumptions C17_heap_encode_overflow.

(** the three [sprintf] forms (libc, modelled as one checked store; the texts are those of the value-level model) *)
Theorem C17_heap_sprintf_s_slash : forall h B (buf : bytes) path pnm,
  B ∈ h_live h -> h_own h !! B = Some Lib -> h_str h !! B = Some buf ->
  CsReads h path pnm -> (length pnm + 2 <= length buf)%nat ->
  sprintf_s_slash (CAt B 0) path h = Ret (tt, wrB h B (pnm ++ [47; 0] ++ drop (length pnm + 2) buf)).
Proof. exact run_sprintf_s_slash. Qed.
Theorem C17_heap_sprintf_s_slash_lu : forall h B (buf : bytes) path pnm index,
  B ∈ h_live h -> h_own h !! B = Some Lib -> h_str h !! B = Some buf ->
  CsReads h path pnm -> (length pnm + 1 + length (PointerDefs.print_lu index) + 1 <= length buf)%nat ->
  sprintf_s_slash_lu (CAt B 0) path index h =
  Ret (tt, wrB h B ((pnm ++ [47] ++ PointerDefs.print_lu index) ++ 0 :: drop (length pnm + 1 + length (PointerDefs.print_lu index) + 1) buf)).
Proof. exact run_sprintf_s_slash_lu. Qed.
Theorem C17_heap_sprintf_lu : forall h B (buf : bytes) index,
  B ∈ h_live h -> h_own h !! B = Some Lib -> h_str h !! B = Some buf ->
  (length (PointerDefs.print_lu index) + 1 <= length buf)%nat ->
  sprintf_lu (CAt B 0) index h =
  Ret (tt, wrB h B (PointerDefs.print_lu index ++ 0 :: drop (length (PointerDefs.print_lu index) + 1) buf)).
Proof. exact run_sprintf_lu. Qed.
(** "%lu" of a size_t has at most 20 digits — the "+ 20" of [strlen(path) + 20 + sizeof("/")] *)
Theorem C17_heap_print_lu_length : forall n, 0 <= n <= PointerDefs.SIZE_MAX -> (length (PointerDefs.print_lu n) <= 20)%nat.
Proof. exact print_lu_length. Qed.
Print Assumptions C17_heap_print_lu_length.

(** non-vacuity: the member name "k/~" (block 109 of [gx_heap]) — length, encoding into a fresh 6-byte block, and the
    two overflows (a 5-byte block; offset 1 of the 6-byte block), run by [vm_compute]; the hypotheses of
    [C17_heap_encode_string_as_pointer] hold on that heap *)
Theorem C17_heap_stage1_example_runs :
  out_val (pointer_encoded_length (CAt 109 0) gx_heap) = Some (PointerDefs.pointer_encoded_length gx_key) /\
  PointerDefs.pointer_encoded_length gx_key = 5%nat /\
  out_val ((encode_string_as_pointer (CAt 1000 0) (CAt 109 0) ;;; ld_str (Some 1000%positive)) gx_h1) =
    Some (PointerDefs.encode_string_as_pointer gx_key ++ [0]) /\
  PointerDefs.encode_string_as_pointer gx_key = [107; 126; 49; 126; 48] /\
  out_err (encode_string_as_pointer (CAt 1000 0) (CAt 109 0) (alloc_str gx_heap (repeat junk 5))) = Some OutOfBounds /\
  out_err (encode_string_as_pointer (CAt 1000 1) (CAt 109 0) gx_h1) = Some OutOfBounds.
Proof. exact gx_stage1_runs. Qed.
Theorem C17_heap_stage1_nonvacuous :
  1000%positive ∈ h_live gx_h1 /\ h_own gx_h1 !! 1000%positive = Some Lib /\ h_str gx_h1 !! 1000%positive = Some (repeat junk 6) /\
  CsReads gx_h1 (CAt 109 0) gx_key /\ (forall o, CAt 109 0 <> CAt 1000 o) /\
  (0 + length (PointerDefs.encode_string_as_pointer gx_key) + 1 <= length (repeat junk 6))%nat.
Proof. exact gx_stage1_hypotheses. Qed.
Print Assumptions C17_heap_stage1_nonvacuous.

(** ------------------------------------------------------------------ 2. the frame rule, compose_patch *)

(** [Step V h F h' F']: (leak) every live library block of [h'] is owned by [F'] or was live in [h] and outside [F];
    (out) every live block of [h] outside [F] — temporaries, borrowed memory — is still live with the same owner tag and
    size and, unless it is one of the volatile blocks [V], the same contents; (new) whatever [F'] owns was owned by [F] or
    is newer than [h]; (keep) a block owned before and after keeps its contents; identities only grow *)
Theorem C17_heap_step_is : forall V h F h' F',
  Step V h F h' F' <->
  (forall b, b ∈ lib_live h' -> b ∈ owned F' \/ (b ∈ lib_live h /\ b ∉ owned F)) /\
  (forall b, b ∈ h_live h -> b ∉ owned F ->
     b ∈ h_live h' /\ h_own h' !! b = h_own h !! b /\
     (forall s : bytes, h_str h !! b = Some s ->
        exists s' : bytes, h_str h' !! b = Some s' /\ length s' = length s /\ (b ∉ V -> s' = s))) /\
  (forall b, b ∈ owned F' -> b ∈ owned F \/ (h_next h <= b)%positive) /\
  (forall b, b ∈ owned F -> b ∈ owned F' -> h_str h' !! b = h_str h !! b) /\
  (h_next h <= h_next h')%positive.
Proof.
  exact (fun V h F h' F' =>
    conj (fun S => conj (sp_leak _ _ _ _ _ S) (conj (sp_out _ _ _ _ _ S) (conj (sp_new _ _ _ _ _ S) (conj (sp_keep _ _ _ _ _ S) (sp_next _ _ _ _ _ S)))))
         (fun H => mkStep _ _ _ _ _ (proj1 H) (proj1 (proj2 H)) (proj1 (proj2 (proj2 H))) (proj1 (proj2 (proj2 (proj2 H)))) (proj2 (proj2 (proj2 (proj2 H)))))).
Qed.
(** steps compose, and the ledger statement [NoLeak] of C07 transfers across a step *)
Theorem C17_heap_step_trans : forall V h F h1 F1 h2 F2,
  MInv h F -> Step V h F h1 F1 -> Step V h1 F1 h2 F2 -> Step V h F h2 F2.
Proof. exact Step_trans. Qed.
Theorem C17_heap_step_noleak : forall V h F h' F', Step V h F h' F' -> NoLeak h F -> NoLeak h' F'.
Proof. exact Step_NoLeak. Qed.
Print Assumptions C17_heap_step_noleak.

(** [cs_good A F c]: the string argument [c] is a literal, NULL, a block owned by the part [A] of the forest that
    the call does not touch (the name of a member of an operand), or a block outside the forest (a temporary) *)
Theorem C17_heap_cs_good_is : forall A F c,
  cs_good A F c <-> (forall b off, c = CAt b off -> b ∈ owned A \/ b ∉ owned F).
Proof. exact (fun A F c => conj (fun H => H) (fun H => H)). Qed.

(** STAGE 2.  [compose_patch(patches, operation, path, suffix, value)]: the patches array is the LAST root
    [T x d pcs]; [operation], [path] readable, [suffix] NULL ([sfx = None]) or readable; [value] NULL or a node of
    [A] nested at most CJSON_CIRCULAR_LIMIT deep; never-failing allocator.  The run returns normally; the array has
    one more element [m]; the invariant holds again; the call is a [Step] with no volatile block — in particular the
    cJSON_malloc'ed [full_path] has been released and the caller's path block is untouched —; and [m] reifies to the
    operation object of the value-level model, whatever list [ps] it is appended to. *)
Theorem C17_heap_compose_patch : forall h A x d pcs (operation path suffix : cstring) (opnm pnm : bytes) (sfx : option bytes) (value : option tree),
  MInv h (A ++ [T x d pcs]) ->
  CsReads h operation opnm -> CsReads h path pnm ->
  match sfx with None => suffix = CNull | Some s => CsReads h suffix s end ->
  cs_good A (A ++ [T x d pcs]) operation -> cs_good A (A ++ [T x d pcs]) path -> cs_good A (A ++ [T x d pcs]) suffix ->
  (forall tv, value = Some tv -> find_tree (tid tv) A = Some tv /\ (height tv <= Z.to_nat c_CJSON_CIRCULAR_LIMIT)%nat) ->
  exists h' m,
    compose_patch nofail (Some x) operation path suffix (tid <$> value) h = Ret (tt, h') /\
    MInv h' (A ++ [T x d (pcs ++ [m])]) /\
    Step [] h (A ++ [T x d pcs]) h' (A ++ [T x d (pcs ++ [m])]) /\
    forall ps, PatchDefs.compose_patch ps opnm pnm sfx (reify (h_str h) <$> value) = ps ++ [reify (h_str h') m].
Proof. exact compose_patch_sim. Qed.
Print Assumptions C17_heap_compose_patch.

(** cJSONUtils_AddPatchToArray is compose_patch without suffix *)
Theorem C17_heap_add_patch_to_array : forall oracle array operation path value,
  cJSONUtils_AddPatchToArray oracle array operation path value = compose_patch oracle array operation path CNull value.
Proof. exact (fun _ _ _ _ _ => eq_refl). Qed.

(** non-vacuity: compose_patch(arr, "add", "/a", "k/~", node 25) RUN on [gx_heap] (forest [from; to; arr], [arr] an
    empty array): the array, read back by the structural walk, holds exactly the value-level operation object
    {"op":"add","path":"/a/k~1~0","value":{"z":2,"w":[true]}}; 14 new blocks, none of the old ones released, the
    [full_path] block 1004 gone *)
Theorem C17_heap_compose_example_runs :
  out_val gx_compose_run = Some tt /\
  out_val (CoreOps.dump_node 50 (Some 50%positive) gx_compose_after) =
    Some (Some (PatchDefs.set_children PatchDefs.create_array
                  (PatchDefs.compose_patch [] PatchDefs.s_add [47; 97] (Some gx_key) (Some (reify gx_St gx_t25))), true)) /\
  length (elements (lib_live gx_compose_after ∖ lib_live gx_heap)) = 14%nat /\
  elements (lib_live gx_heap ∖ lib_live gx_compose_after) = [] /\
  forallb (fun b => bool_decide (b ∉ h_live gx_compose_after)) [1004]%positive = true.
Proof. exact gx_stage2_runs. Qed.
Theorem C17_heap_compose_example_is :
  gx_compose_run = compose_patch nofail (Some 50%positive) (CLit PatchDefs.s_add) (CLit [47; 97]) (CAt 109 0) (Some 25%positive) gx_heap /\
  gx_compose_after = out_heap gx_compose_run gx_heap /\ MInv gx_heap gx_F /\ NoLeak gx_heap gx_F /\ gx_F = gx_A ++ [gx_arr].
Proof. exact (conj eq_refl (conj eq_refl (conj gx_MInv (conj gx_NoLeak eq_refl)))). Qed.
Print Assumptions C17_heap_compose_example_is.

(** ------------------------------------------------------------------ 3.-5. create_patches *)

(** vocabulary: [path_ok V F c]: the string argument [c] is a literal, or a block outside the forest that is not one
    of the volatile blocks [V] (the caller's [new_path]); [treord], [Frame], [gdoc], [tdisj] as in Properties_C18_Heap.v *)
Theorem C17_heap_path_ok_is : forall V F c,
  path_ok V F c <-> (forall b off, c = CAt b off -> b ∉ owned F /\ b ∉ V).
Proof. exact (fun V F c => conj (fun H => H) (fun H => H)). Qed.

(** STAGES 3-5, MAIN THEOREM.  [create_patches(patches, path, from, to, case_sensitive)] at EVERY level of the recursion
    and for any sufficient fuel ([df] bounds the nesting of [from], [lf] the sibling chains and the heap-level sort):
    the patches array is the LAST root [T x d pcs] of the forest [(G ++ X) ++ [T x d pcs]] ([X] a passive part);
    [from] and [to] nodes of [G] with disjoint subtrees, JSON documents in the sense of [gdoc], [to] nested at most
    CJSON_CIRCULAR_LIMIT deep (cJSON_Duplicate), [from] with at most SIZE_MAX nodes (array indices are [size_t]);
    [path] a readable literal or a block outside the forest (the caller's [new_path]); never-failing allocator.  Then
      - the run returns normally (no memory-error outcome: in particular every [sprintf] and every byte written by
        [encode_string_as_pointer] lies inside its cJSON_malloc'ed block, every [strcmp] reads terminated strings);
      - the array has new elements [pnew]; the invariant holds for [(G' ++ X) ++ [T x d (pcs ++ pnew)]];
      - the call is a [Step] WITHOUT volatile blocks: every [new_path] / [full_path] block has been released, the
        caller's path block and every string the forest owned are untouched, every live library block is owned by the
        new forest or was live and outside the forest before ([C17_heap_step_is]);
      - [G'] differs from [G] only inside [from] and [to] ([Frame]), which are reorderings of themselves ([treord]);
      - whatever list [ps] the value-level model is run with, it appends exactly the reified [pnew] and returns the
        reified operands: type mismatch / numbers / strings -> "replace"; arrays -> the index loop, "remove" at the
        index of the first surplus element for every surplus element of [from], "add" at "-"; objects -> both sorted in
        place, the merge walk, recursion under "path/encoded-name". *)
Theorem C17_heap_create_patches : forall (df lf : nat) (flag : bool) tf tu h G X x d pcs path pnm,
  (tsize tf <= df)%nat ->
  MInv h ((G ++ X) ++ [T x d pcs]) -> find_tree (tid tf) G = Some tf -> find_tree (tid tu) G = Some tu -> tdisj tf tu ->
  (tsize tf + tsize tu < lf)%nat -> gdoc tf -> gdoc tu -> (height tu <= Z.to_nat c_CJSON_CIRCULAR_LIMIT)%nat ->
  Z.of_nat (tsize tf) <= PointerDefs.SIZE_MAX ->
  CsReads h path pnm -> path_ok [] ((G ++ X) ++ [T x d pcs]) path ->
  exists h' G' pnew tf' tu',
    create_patches_fuel nofail df lf (Some x) path (Some (tid tf)) (Some (tid tu)) flag h = Ret (tt, h') /\
    MInv h' ((G' ++ X) ++ [T x d (pcs ++ pnew)]) /\
    Step [] h ((G ++ X) ++ [T x d pcs]) h' ((G' ++ X) ++ [T x d (pcs ++ pnew)]) /\
    Frame G G' (ids_t tf ++ ids_t tu) /\
    find_tree (tid tf) G' = Some tf' /\ find_tree (tid tu) G' = Some tu' /\ treord tf tf' /\ treord tu tu' /\
    forall fv ps, (height tf < fv)%nat ->
      PatchDefs.create_patches fv ps pnm (reify (h_str h) tf) (reify (h_str h) tu) flag =
      Ok (ps ++ map (reify (h_str h')) pnew, reify (h_str h) tf', reify (h_str h) tu').
Proof.
  exact (fun df lf flag tf tu h G X x d pcs path pnm Hdf I Hf Ht Hd Hlf Gf Gt Hh Hm Hp Hok =>
           create_rec df lf flag tf tu h G X x d pcs path pnm Hdf
             (conj I (conj Hf (conj Ht (conj Hd (conj Hlf (conj Gf (conj Gt (conj Hh (conj Hm (conj Hp Hok))))))))))).
Qed.
Print Assumptions C17_heap_create_patches.

(** the pieces: [case cJSON_Array] — the three loops with the temporary [new_path] = block [B] of [|path| + 22] bytes
    alive ([AState]: invariant, readable path outside [B], [B] a live library block of that size outside the forest);
    the result heap is the heap [h2] before the final cJSON_free(new_path), with [B] released.  The "remove" loop uses
    the index of the first surplus element for EVERY surplus element ([vremoves] folds over the elements without
    advancing it): after each removal the next surplus element has moved down to that index. *)
Theorem C17_heap_array_state_is : forall X x d path pnm B h G pcs,
  AState X x d path pnm B h G pcs <->
  MInv h ((G ++ X) ++ [T x d pcs]) /\ CsReads h path pnm /\ path_ok [B] ((G ++ X) ++ [T x d pcs]) path /\
  Tmp h ((G ++ X) ++ [T x d pcs]) B (length pnm + 20 + 2).
Proof. exact (fun X x d path pnm B h G pcs => conj (fun H => H) (fun H => H)). Qed.
Theorem C17_heap_tmp_is : forall h F B n,
  Tmp h F B n <-> B ∈ h_live h /\ h_own h !! B = Some Lib /\ B ∉ owned F /\ exists s : bytes, h_str h !! B = Some s /\ length s = n.
Proof. exact (fun h F B n => conj (fun H => H) (fun H => H)). Qed.

Theorem C17_heap_remove_loop : forall X x d f fd path pnm B rest_f pre_f (nfuel : nat) index h G pcs,
  0 <= index <= PointerDefs.SIZE_MAX -> (length rest_f < nfuel)%nat -> AState X x d path pnm B h G pcs ->
  find_tree f G = Some (T f fd (pre_f ++ rest_f)) ->
  exists h' pnew,
    cp_remove_loop nofail (Some x) path (Some B) nfuel index ((tid <$> (pre_f ++ rest_f)) !! length pre_f) h = Ret (Some tt, h') /\
    AState X x d path pnm B h' G (pcs ++ pnew) /\
    Step [B] h ((G ++ X) ++ [T x d pcs]) h' ((G ++ X) ++ [T x d (pcs ++ pnew)]) /\
    forall ps (l : list Tree.node), length l = length rest_f -> vremoves pnm ps index l = ps ++ map (reify (h_str h')) pnew.
Proof. exact remove_loop_sim. Qed.
Print Assumptions C17_heap_remove_loop.
Theorem C17_heap_vremoves_is : forall path ps index lf,
  vremoves path ps index lf =
  fold_left (fun acc _ => PatchDefs.compose_patch acc PatchDefs.s_remove path (Some (PointerDefs.print_lu index)) None) lf ps.
Proof. exact (fun _ _ _ _ => eq_refl). Qed.

Theorem C17_heap_add_loop : forall X x d t td path pnm B rest_t pre_t (nfuel : nat) index h G pcs,
  (length rest_t < nfuel)%nat -> AState X x d path pnm B h G pcs ->
  find_tree t G = Some (T t td (pre_t ++ rest_t)) ->
  (forall c, c ∈ rest_t -> (height c <= Z.to_nat c_CJSON_CIRCULAR_LIMIT)%nat) ->
  exists h' pnew,
    cp_add_loop nofail (Some x) path nfuel index ((tid <$> (pre_t ++ rest_t)) !! length pre_t) h = Ret (tt, h') /\
    AState X x d path pnm B h' G (pcs ++ pnew) /\
    Step [] h ((G ++ X) ++ [T x d pcs]) h' ((G ++ X) ++ [T x d (pcs ++ pnew)]) /\
    forall ps, vadds pnm ps (map (reify (h_str h)) rest_t) = ps ++ map (reify (h_str h')) pnew.
Proof. exact add_loop_sim. Qed.
Print Assumptions C17_heap_add_loop.

(** the heap-level sort of one operand, as create_patches uses it: in place, a [Step], the value-level sort_object *)
Theorem C17_heap_sort_operand : forall h G X o dd cs (flag : bool) (fuel : nat),
  MInv h (G ++ X) -> find_tree o G = Some (T o dd cs) ->
  (forall c, c ∈ cs -> rd_key (tdata c) <> None) -> (length cs + 2 <= fuel)%nat ->
  let cs' := TierBridgeDefs.sort_children (h_str h) flag cs in
  let G' := set_children o cs' G in
  exists h', SortDefs.sort_object fuel (Some o) flag h = Ret (tt, h') /\
    MInv h' (G' ++ X) /\ Step [] h (G ++ X) h' (G' ++ X) /\ h_str h' = h_str h /\
    find_tree o G' = Some (T o dd cs') /\ Frame G G' [o] /\ cs' ≡ₚ cs /\
    PatchDefs.sort_object (reify (h_str h) (T o dd cs)) flag = Ok (reify (h_str h) (T o dd cs')).
Proof. exact step_sort_p. Qed.
Print Assumptions C17_heap_sort_operand.

(** non-vacuity of stages 3-5: create_patches(arr, "/x", a, b, true) RUN on [gx_heap] for pairs of nodes of the two
    documents; the array read back by the structural walk is the array the value-level model builds *)
Theorem C17_heap_stage3_example_runs :
  gx_cp_dump gx_p 2 26 = gx_cp_model gx_p 2 26 /\ gx_cp_count gx_p 2 26 = Some 1%nat /\
  gx_cp_dump gx_p 2 22 = gx_cp_model gx_p 2 22 /\ gx_cp_count gx_p 2 22 = Some 0%nat /\
  gx_cp_dump gx_p 7 22 = gx_cp_model gx_p 7 22 /\ gx_cp_count gx_p 7 22 = Some 1%nat /\
  gx_cp_dump gx_p 10 30 = gx_cp_model gx_p 10 30 /\ gx_cp_count gx_p 10 30 = Some 1%nat /\
  gx_cp_dump gx_p 7 24 = gx_cp_model gx_p 7 24 /\ gx_cp_count gx_p 7 24 = Some 1%nat /\
  gx_cp_dump gx_p 28 30 = gx_cp_model gx_p 28 30 /\ gx_cp_count gx_p 28 30 = Some 0%nat.
Proof. exact gx_stage3_runs. Qed.
Theorem C17_heap_stage4_example_runs :
  gx_cp_dump gx_p 3 21 = gx_cp_model gx_p 3 21 /\ gx_cp_count gx_p 3 21 = Some 2%nat /\
  gx_cp_dump gx_p 21 3 = gx_cp_model gx_p 21 3 /\ gx_cp_count gx_p 21 3 = Some 2%nat /\
  gx_cp_dump gx_p 3 27 = gx_cp_model gx_p 3 27 /\ gx_cp_count gx_p 3 27 = Some 3%nat /\
  forallb (fun b => bool_decide (b ∉ h_live (out_heap (gx_cp gx_p 3 27) gx_heap))) [1000; 1014; 1022]%positive = true /\
  elements (lib_live gx_heap ∖ lib_live (out_heap (gx_cp gx_p 3 27) gx_heap)) = [].
Proof. exact gx_stage4_runs. Qed.
Theorem C17_heap_stage5_example_runs :
  gx_cp_dump gx_p 8 25 = gx_cp_model gx_p 8 25 /\ gx_cp_count gx_p 8 25 = Some 2%nat /\
  gx_cp_dump [] 1 20 = gx_cp_model [] 1 20 /\ gx_cp_count [] 1 20 = Some 8%nat /\
  (match PatchDefs.create_patches (Tree.node_depth (gx_node gx_F 1)) [] [] (gx_node gx_F 1) (gx_node gx_F 20) true with
   | Ok (_, f', t') =>
       out_val (CoreOps.dump_node 50 (Some 1%positive) (out_heap (gx_cp [] 1 20) gx_heap)) = Some (Some (f', true)) /\
       out_val (CoreOps.dump_node 50 (Some 20%positive) (out_heap (gx_cp [] 1 20) gx_heap)) = Some (Some (t', true)) /\
       f' <> gx_node gx_F 1
   | _ => False
   end) /\
  elements (lib_live gx_heap ∖ lib_live (out_heap (gx_cp [] 1 20) gx_heap)) = [].
Proof. exact gx_stage5_runs. Qed.
Theorem C17_heap_stage345_example_is : forall path a b,
  gx_cp path a b = create_patches nofail (Some 50%positive) (CLit path) (Some a) (Some b) true gx_heap /\
  gx_cp_dump path a b = out_val (CoreOps.dump_node 50 (Some 50%positive) (out_heap (gx_cp path a b) gx_heap)) /\
  gx_cp_model path a b =
    match PatchDefs.create_patches (Tree.node_depth (gx_node gx_F a)) [] path (gx_node gx_F a) (gx_node gx_F b) true with
    | Ok (ps, _, _) => Some (Some (PatchDefs.set_children PatchDefs.create_array ps, true))
    | _ => None
    end.
Proof. exact (fun path a b => conj eq_refl (conj eq_refl eq_refl)). Qed.

(** ------------------------------------------------------------------ 6. the entry points, the ledger, the round trip *)

(** STAGE 6a.  [cJSONUtils_GeneratePatches[CaseSensitive](from, to)] with the fuel the entry points take from the heap,
    for two non-NULL nodes with disjoint subtrees that are [gdoc], [to] nested at most LIMIT deep, [from] with at most
    SIZE_MAX nodes: no memory-error outcome; the result is a NEW last root [res] of a well-formed forest [F' ++ [res]];
    [F'] differs from [F] only inside [from] and [to] ([Frame]), which are reorderings of themselves; the whole call is a
    [Step] without volatile blocks (every temporary path block released, borrowed memory untouched); the reified
    result and operands are exactly what the value-level model of C17 computes — so every theorem of Properties_C17.v
    speaks about this run; [NoLeak] is preserved and no string of the old forest is touched. *)
Theorem C17_heap_refines : forall (flag : bool) h F f t tf tu,
  MInv h F -> find_tree f F = Some tf -> find_tree t F = Some tu -> tdisj tf tu ->
  gdoc tf -> gdoc tu -> (height tu <= Z.to_nat c_CJSON_CIRCULAR_LIMIT)%nat -> Z.of_nat (tsize tf) <= PointerDefs.SIZE_MAX ->
  exists h' F' res tf' tu',
    generate_patches nofail (Some f) (Some t) flag h = Ret (Some (tid res), h') /\
    MInv h' (F' ++ [res]) /\ Step [] h F h' (F' ++ [res]) /\
    Frame F F' (ids_t tf ++ ids_t tu) /\
    find_tree f F' = Some tf' /\ find_tree t F' = Some tu' /\ treord tf tf' /\ treord tu tu' /\
    PatchDefs.generate_patches (reify (h_str h) tf) (reify (h_str h) tu) flag =
      Ok (reify (h_str h') res, reify (h_str h') tf', reify (h_str h') tu') /\
    (NoLeak h F -> NoLeak h' (F' ++ [res])) /\ KeepO h h' F.
Proof. exact generate_patches_refines. Qed.
Print Assumptions C17_heap_refines.

Theorem C17_heap_entry_points : forall oracle from to,
  GenPatchHeapDefs.cJSONUtils_GeneratePatches oracle from to = generate_patches oracle from to false /\
  GenPatchHeapDefs.cJSONUtils_GeneratePatchesCaseSensitive oracle from to = generate_patches oracle from to true.
Proof. exact generate_patches_entry_points. Qed.
Theorem C17_value_entry_points :
  PatchDefs.cJSONUtils_GeneratePatches = (fun from to => PatchDefs.generate_patches from to false) /\
  PatchDefs.cJSONUtils_GeneratePatchesCaseSensitive = (fun from to => PatchDefs.generate_patches from to true).
Proof. exact (conj eq_refl eq_refl). Qed.

(** NULL arguments, for EVERY allocator: NULL is returned and nothing is touched *)
Theorem C17_heap_null_arguments : forall oracle (from to : ptr) flag h,
  from = None \/ to = None -> generate_patches oracle from to flag h = Ret (None, h).
Proof. exact generate_patches_null. Qed.

(** "a NEW last root" *)
Theorem C17_heap_result_is_new_root : forall h G r,
  MInv h (G ++ [r]) -> find_root (tid r) (G ++ [r]) = Some r /\ tid r ∉ ids G.
Proof. exact result_is_new_root. Qed.

(** THE LEDGER, exactly: before the call the live library blocks are those of the forest; afterwards those of the
    forest and of the result, and the two sets are disjoint — the blocks of the result are the only new ones, every
    [new_path] / [full_path] block and every superseded name copy has been released; the strings of the forest keep
    their contents; live blocks outside the forest (borrowed memory) are still live with the same contents *)
Theorem C17_heap_ledger : forall (flag : bool) h F f t tf tu,
  MInv h F -> NoLeak h F -> find_tree f F = Some tf -> find_tree t F = Some tu -> tdisj tf tu ->
  gdoc tf -> gdoc tu -> (height tu <= Z.to_nat c_CJSON_CIRCULAR_LIMIT)%nat -> Z.of_nat (tsize tf) <= PointerDefs.SIZE_MAX ->
  exists h' F' res,
    generate_patches nofail (Some f) (Some t) flag h = Ret (Some (tid res), h') /\
    WF h' (F' ++ [res]) /\ NoLeak h' (F' ++ [res]) /\
    (forall b, b ∈ lib_live h <-> b ∈ owned F) /\
    (forall b, b ∈ lib_live h' <-> b ∈ owned F \/ b ∈ owned [res]) /\
    (forall b, b ∈ owned F -> b ∉ owned [res]) /\
    (forall b, b ∈ owned F -> h_str h' !! b = h_str h !! b) /\
    (forall b (s : bytes), b ∈ h_live h -> b ∉ owned F -> h_str h !! b = Some s -> b ∈ h_live h' /\ h_str h' !! b = Some s).
Proof. exact generate_patches_ledger. Qed.
Print Assumptions C17_heap_ledger.

(** JSON documents in the sense of C16/C17 ([dwf]: JSON types, C strings, no NaN, distinct member names) satisfy the
    hypotheses of the heap-level theorems *)
Theorem C17_heap_side_conditions_from_C17 : forall St t,
  (PatchConform.dwf (reify St t) -> gdoc t) /\
  (PatchApply.shallow (reify St t) -> (height t <= Z.to_nat c_CJSON_CIRCULAR_LIMIT)%nat) /\
  Tree.node_size (reify St t) = tsize t.
Proof. exact (fun St t => conj (dwf_gdoc St t) (conj (shallow_height St t) (node_size_reify St t))). Qed.
Print Assumptions C17_heap_side_conditions_from_C17.

(** the value-level facts the round trip needs beyond Properties_C17.v: the generated operation objects are keyed;
    a conforming successful run of the model's loop is [run_ok] (the hypothesis of [C16_heap_apply_patches]) —
    derived from the well-formedness of the documents, not decided by running; and [C17_roundtrip_model] for ANY
    well-formed document that is [from] up to member order *)
Theorem C17_value_generated_keyed : forall fuel ps path from to cs ps' f' t',
  PatchConform.dwf to -> Forall PatchHeapLoop.vkeyed ps -> PatchDefs.create_patches fuel ps path from to cs = Ok (ps', f', t') ->
  Forall PatchHeapLoop.vkeyed ps'.
Proof. exact GenPatchHeapValue.create_patches_vk. Qed.
Theorem C17_value_roundtrip_any : forall from to v, PatchConform.dwf from -> PatchConform.dwf to -> PatchApply.shallow to ->
  2 * Z.of_nat (Tree.node_size from + Tree.node_size to) <= PointerDefs.SIZE_MAX ->
  PatchConform.dwf v -> PatchExact.doc_same v from ->
  exists patches f' t',
    PatchDefs.cJSONUtils_GeneratePatchesCaseSensitive from to = Ok (patches, f', t') /\
    PatchExact.doc_same f' from /\ Tree.is_array patches = true /\
    (exists d p1, PatchDefs.cJSONUtils_ApplyPatchesCaseSensitive v patches = Ok (0, d, p1) /\ Rfc6902.doc_eq d to /\ PatchConform.dwf d) /\
    PatchHeapLoop.run_ok v (Tree.n_children patches) true.
Proof. exact GenPatchHeapValue.roundtrip_any. Qed.
Print Assumptions C17_value_roundtrip_any.

(** STAGE 6b, TRANSFER COROLLARY.  For two disjoint nodes of the forest that are JSON documents in the sense of
    C16/C17, both nested at most CJSON_CIRCULAR_LIMIT deep, together below 2^63 nodes:
      (1) the heap-level cJSONUtils_GeneratePatchesCaseSensitive(from, to) returns a new last root [res] (the patch
          array); [from] — re-ordered in place — is still the same document ([doc_same]);
      (2) cJSON_Duplicate(from, 1), run in the heap the generation ended in, returns a new root [dup], the same
          document as [from];
      (3) the heap-level cJSONUtils_ApplyPatchesCaseSensitive(dup, res) of PatchHeapApplyDefs.v returns 0; the duplicate
          ([docT], same identity) now reads back as a document EQUAL to [to] ([Rfc6902.doc_eq]: arrays in order, objects
          as name/value sets) and well-formed; [to] is still the tree generation left; the invariant holds; nothing leaked.
    [F2 A [] [] doc rb = A ++ [rb; doc]]. *)
Theorem C17_heap_roundtrip : forall h F f t tf tu,
  MInv h F -> find_tree f F = Some tf -> find_tree t F = Some tu -> tdisj tf tu ->
  let vf := reify (h_str h) tf in
  let vt := reify (h_str h) tu in
  PatchConform.dwf vf -> PatchConform.dwf vt -> PatchApply.shallow vf -> PatchApply.shallow vt ->
  2 * Z.of_nat (Tree.node_size vf + Tree.node_size vt) <= PointerDefs.SIZE_MAX ->
  exists h1 F1 res tf' tu',
    GenPatchHeapDefs.cJSONUtils_GeneratePatchesCaseSensitive nofail (Some f) (Some t) h = Ret (Some (tid res), h1) /\
    MInv h1 (F1 ++ [res]) /\ (NoLeak h F -> NoLeak h1 (F1 ++ [res])) /\
    find_tree f F1 = Some tf' /\ find_tree t F1 = Some tu' /\ treord tf tf' /\ treord tu tu' /\
    PatchExact.doc_same (reify (h_str h1) tf') vf /\
    exists h2 dup,
      cJSON_Duplicate nofail (Some f) true h1 = Ret (Some (tid dup), h2) /\
      MInv h2 (F2 F1 [] [] dup res) /\ (NoLeak h F -> NoLeak h2 (F2 F1 [] [] dup res)) /\
      PatchExact.doc_same (reify (h_str h2) dup) vf /\
      exists h3 docT arrT,
        PatchHeapApplyDefs.cJSONUtils_ApplyPatchesCaseSensitive nofail (Some (tid dup)) (Some (tid res)) h2 = Ret (0, h3) /\
        MInv h3 (F2 F1 [] [] docT arrT) /\ tid docT = tid dup /\ tid arrT = tid res /\
        (NoLeak h F -> NoLeak h3 (F2 F1 [] [] docT arrT)) /\
        find_tree t (F2 F1 [] [] docT arrT) = Some tu' /\
        Rfc6902.doc_eq (reify (h_str h3) docT) vt /\ PatchConform.dwf (reify (h_str h3) docT).
Proof. exact generate_then_apply. Qed.
Print Assumptions C17_heap_roundtrip.

(** non-vacuity of stage 6.  [gx_heap2] = the forest [from; to] of [gx_heap] without the array.  Every hypothesis of
    [C17_heap_refines], [C17_heap_ledger] and [C17_heap_roundtrip] holds on it. *)
Theorem C17_heap_nonvacuous_hypotheses :
  MInv gx_heap2 gx_A /\ NoLeak gx_heap2 gx_A /\
  find_tree 1%positive gx_A = Some gx_from /\ find_tree 20%positive gx_A = Some gx_to /\ tdisj gx_from gx_to /\
  gdoc gx_from /\ gdoc gx_to /\ (height gx_to <= Z.to_nat c_CJSON_CIRCULAR_LIMIT)%nat /\ Z.of_nat (tsize gx_from) <= PointerDefs.SIZE_MAX /\
  PatchConform.dwf (reify (h_str gx_heap2) gx_from) /\ PatchConform.dwf (reify (h_str gx_heap2) gx_to) /\
  PatchApply.shallow (reify (h_str gx_heap2) gx_from) /\ PatchApply.shallow (reify (h_str gx_heap2) gx_to) /\
  2 * Z.of_nat (Tree.node_size (reify (h_str gx_heap2) gx_from) + Tree.node_size (reify (h_str gx_heap2) gx_to)) <= PointerDefs.SIZE_MAX.
Proof. exact gx_hypotheses. Qed.
Print Assumptions C17_heap_nonvacuous_hypotheses.

(** The heap-level code RUN on it ([vm_compute]): the entry point returns the new root 1000; the patch array (8
    operations), [from] and [to] read back by the structural walk are exactly what the value-level model returns; NULL
    arguments return NULL with the heap untouched; no block of the operands was released; then the duplicate of [from]
    and the heap-level cJSONUtils_ApplyPatchesCaseSensitive on it: status 0, the duplicate reads back equal to [to]
    (both directions of the executable document equality), [to] reads back unchanged *)
Theorem C17_heap_nonvacuous_run :
  out_val gx_gen_run = Some (Some 1000%positive) /\
  (match PatchDefs.cJSONUtils_GeneratePatchesCaseSensitive gx_vfrom gx_vto with
   | Ok (patches, f', t') =>
       out_val (CoreOps.dump_node 50 (Some 1000%positive) gx_gen_after) = Some (Some (patches, true)) /\
       out_val (CoreOps.dump_node 50 (Some 1%positive) gx_gen_after) = Some (Some (f', true)) /\
       out_val (CoreOps.dump_node 50 (Some 20%positive) gx_gen_after) = Some (Some (t', true)) /\
       length (Tree.n_children patches) = 8%nat
   | _ => False
   end) /\
  GenPatchHeapDefs.cJSONUtils_GeneratePatchesCaseSensitive nofail None (Some 20%positive) gx_heap2 = Ret (None, gx_heap2) /\
  GenPatchHeapDefs.cJSONUtils_GeneratePatches nofail (Some 1%positive) None gx_heap2 = Ret (None, gx_heap2) /\
  elements (lib_live gx_heap2 ∖ lib_live gx_gen_after) = [] /\
  out_val gx_apply_run = Some 0 /\
  (match out_val (CoreOps.dump_node 50 gx_dup_id gx_apply_after) with
   | Some (Some (d, true)) => Rfc6902.doc_eqb d gx_vto = true /\ Rfc6902.doc_eqb gx_vto d = true
   | _ => False
   end) /\
  out_val (CoreOps.dump_node 50 (Some 20%positive) gx_apply_after) = out_val (CoreOps.dump_node 50 (Some 20%positive) gx_gen_after).
Proof. exact gx_stage6_runs. Qed.
Print Assumptions C17_heap_nonvacuous_run.
Theorem C17_heap_nonvacuous_run_is :
  gx_gen_run = GenPatchHeapDefs.cJSONUtils_GeneratePatchesCaseSensitive nofail (Some 1%positive) (Some 20%positive) gx_heap2 /\
  gx_gen_after = out_heap gx_gen_run gx_heap2 /\
  gx_dup_run = cJSON_Duplicate nofail (Some 1%positive) true gx_gen_after /\ gx_dup_after = out_heap gx_dup_run gx_gen_after /\
  gx_apply_run = PatchHeapApplyDefs.cJSONUtils_ApplyPatchesCaseSensitive nofail gx_dup_id (Some 1000%positive) gx_dup_after /\
  gx_apply_after = out_heap gx_apply_run gx_dup_after /\
  gx_vfrom = reify gx_St gx_from /\ gx_vto = reify gx_St gx_to.
Proof. exact (conj eq_refl (conj eq_refl (conj eq_refl (conj eq_refl (conj eq_refl (conj eq_refl (conj eq_refl eq_refl))))))). Qed.

(** … [C17_heap_refines] and [C17_heap_roundtrip] instantiated on that heap *)
Theorem C17_heap_nonvacuous_instance :
  exists h' F' res tf' tu',
    generate_patches nofail (Some 1%positive) (Some 20%positive) true gx_heap2 = Ret (Some (tid res), h') /\
    MInv h' (F' ++ [res]) /\ NoLeak h' (F' ++ [res]) /\
    find_tree 1%positive F' = Some tf' /\ find_tree 20%positive F' = Some tu' /\ treord gx_from tf' /\ treord gx_to tu' /\
    PatchDefs.generate_patches (reify (h_str gx_heap2) gx_from) (reify (h_str gx_heap2) gx_to) true =
      Ok (reify (h_str h') res, reify (h_str h') tf', reify (h_str h') tu').
Proof. exact gx_refines_instance. Qed.
Print Assumptions C17_heap_nonvacuous_instance.
Theorem C17_heap_nonvacuous_roundtrip_instance :
  exists h1 F1 res h2 dup h3 docT arrT,
    GenPatchHeapDefs.cJSONUtils_GeneratePatchesCaseSensitive nofail (Some 1%positive) (Some 20%positive) gx_heap2 = Ret (Some (tid res), h1) /\
    MInv h1 (F1 ++ [res]) /\ NoLeak h1 (F1 ++ [res]) /\
    cJSON_Duplicate nofail (Some 1%positive) true h1 = Ret (Some (tid dup), h2) /\
    PatchHeapApplyDefs.cJSONUtils_ApplyPatchesCaseSensitive nofail (Some (tid dup)) (Some (tid res)) h2 = Ret (0, h3) /\
    MInv h3 (F2 F1 [] [] docT arrT) /\ NoLeak h3 (F2 F1 [] [] docT arrT) /\ tid docT = tid dup /\
    Rfc6902.doc_eq (reify (h_str h3) docT) (reify (h_str gx_heap2) gx_to).
Proof. exact gx_roundtrip_instance. Qed.
Print Assumptions C17_heap_nonvacuous_roundtrip_instance.

(** ------------------------------------------------------------------ 7. the hypothesis [gdoc] *)

(** Two string nodes WITHOUT a valuestring under the same name (not a JSON value): create_patches calls
    strcmp(from->valuestring, to->valuestring) — a NULL dereference in the model.  (On /repo: SEGV in strcmp called from
    create_patches, cJSON_Utils.c:1241, confirmed with an ASan probe.) *)
Theorem C17_heap_string_without_value_null_deref :
  MInv gx_heap3 [gx_from3; gx_to3] /\
  out_err (GenPatchHeapDefs.cJSONUtils_GeneratePatchesCaseSensitive nofail (Some 1%positive) (Some 10%positive) gx_heap3) = Some NullDeref.
Proof. exact gx_string_without_value_null_deref. Qed.
Print Assumptions C17_heap_string_without_value_null_deref.

(** A member of [to] WITHOUT a name (what cJSON_AddItemToArray(object, item) builds; not a JSON value; the heap-level
    sort theorem of C19 does not cover it): compare_strings answers 1 for a NULL name and compose_patch is called with
    suffix NULL.  No memory error; heap-level code, value-level model and /repo (probe) agree on the outcome — the single
    operation {"op":"add","path":"","value":5}, which would replace the whole document. *)
Theorem C17_heap_keyless_member_observed :
  MInv gx_heap4 [gx_from4; gx_to4] /\ ~ gdoc gx_to4 /\
  out_val gx_run4 = Some (Some 1000%positive) /\
  (match PatchDefs.cJSONUtils_GeneratePatchesCaseSensitive (reify gx_St4 gx_from4) (reify gx_St4 gx_to4) with
   | Ok (patches, _, _) =>
       out_val (CoreOps.dump_node 50 (Some 1000%positive) (out_heap gx_run4 gx_heap4)) = Some (Some (patches, true)) /\
       patches = PatchDefs.set_children PatchDefs.create_array
                   (PatchDefs.compose_patch [] PatchDefs.s_add [] None (Some (Tree.Node c_cJSON_Number None 5 (dbl_of_int 5) None [])))
   | _ => False
   end).
Proof. exact gx_keyless_member_observed. Qed.
Print Assumptions C17_heap_keyless_member_observed.
