(** CoreHistoryAllArrStep.v — the bulk array constructors as STEPS of the history theorem
    ([CoreHistoryAllSteps.Step]): explicit list model ([spec_number_array], [spec_string_array])
    and preservation of the representation [Abs3]. *)
From CJ Require Import Base Dbl Heap Forest ForestLemmas CoreSpec CoreDefs CoreRefineBase CoreRefine
  CoreRefineDelete CoreRefineReplace CoreRefineMore CoreRefineFrame CoreRefineHistory CoreRefineObject
  CoreRefineByKey CoreRefineAddObject CoreRefineHistoryObj CoreRefineCreate CoreRefineArray
  CoreLedgerGen CoreHistoryAllSteps CoreHistoryAllArr.
From CJ.gen Require Import Constants.
From stdpp Require Import gmap.
Implicit Types (h : heap) (F : forest) (d : rdata).
Local Open Scope Z_scope.

(** * childless leaves *)
Definition leafy (leaves : list tree) : Prop := forall t, t ∈ leaves -> exists x d, t = T x d [].

Lemma flat_leafy leaves : leafy leaves -> flat leaves = (fun t => (tid t, tdata t, [])) <$> leaves.
Proof.
  induction leaves as [|t ts IH]; intros HL; [done|]. rewrite flat_cons, fmap_cons.
  destruct (HL t ltac:(by left)) as (x & d & ->). rewrite flat_t_unfold, flat_nil. cbn.
  f_equal. apply IH. intros u Hu. apply HL. by right.
Qed.
Lemma Inv_leafy h F Q Hc leaves : Inv h F Q Hc leaves -> leafy leaves.
Proof.
  intros I t Ht. apply elem_of_list_lookup in Ht as [j Hj]. destruct (inv_q _ _ _ _ _ I j t Hj) as (x & d & -> & _). eauto.
Qed.

(** a string block of the result heap above the old [h_next] is an owned string of some element *)
Lemma bulk_new_str h F Q Hc leaves b :
  live_below h -> HeapOK Hc -> Inv h F Q Hc leaves -> (h_next h <= b)%positive -> is_Some (h_str Hc !! b) ->
  exists t, t ∈ leaves /\ b ∈ owned_strs (tdata t).
Proof.
  intros LB K I Hb Hs. destruct (hk_str _ K b Hs) as [Hl Hd].
  pose proof (Inv_leafy _ _ _ _ _ I) as HL.
  apply (ext_live _ _ _ (inv_ext _ _ _ _ _ I)) in Hl as [Hl|Hl]; [pose proof (LB b Hl); lia|].
  apply elem_of_owned_fl in Hl as (e & He & Hbe).
  assert (He' : e ∈ flat (F ++ [T (h_next h) arr leaves])) by (rewrite flat_app; apply elem_of_app; by right).
  apply elem_of_cons in Hbe as [->|Hbe].
  { destruct e as [[i d] ks]. cbn in Hd. rewrite (WF_lookup_dat _ _ _ _ _ (inv_wf _ _ _ _ _ I) He') in Hd. done. }
  rewrite flat_singleton, flat_t_unfold in He. apply elem_of_cons in He as [->|He].
  { cbn in Hbe. unfold arr in Hbe. rewrite owned_strs_of_type in Hbe. by apply elem_of_nil in Hbe. }
  rewrite (flat_leafy _ HL) in He. apply elem_of_list_fmap in He as (t & -> & Ht). exists t. done.
Qed.

(** the data pairs of an array of leaves *)
Lemma datas_array (a : positive) leaves e :
  leafy leaves -> e ∈ datas [T a arr leaves] -> e = (a, arr) \/ exists t, t ∈ leaves /\ e = (tid t, tdata t).
Proof.
  intros HL He. unfold datas in He. rewrite flat_singleton, flat_t_unfold, (flat_leafy _ HL) in He.
  rewrite fmap_cons in He. apply elem_of_cons in He as [->|He]; [by left|right].
  apply elem_of_list_fmap in He as (e' & -> & He'). apply elem_of_list_fmap in He' as (t & -> & Ht). by exists t.
Qed.

(** the representation after a bulk constructor *)
Lemma bulk_Abs2 h S Q Hc leaves (str' : gmap positive bytes) :
  Abs3 h S -> Cons_post h Hc -> Inv h (a_forest S) Q Hc leaves ->
  NoLeak Hc (a_forest S ++ [T (h_next h) arr leaves]) ->
  (forall t, t ∈ leaves -> rd_key (tdata t) = None) ->
  h_str Hc = str' -> (forall b, (b < h_next h)%positive -> str' !! b = a_str S !! b) ->
  Abs2 Hc (mk3 (a_forest S ++ [T (h_next h) arr leaves]) (h_next Hc) (h_req Hc) str' (a_foreign S)).
Proof.
  intros HA CP I NL Hkeys Hstr Hold. pose proof HA as [HA2 K].
  pose proof HA2 as ((W & NL0 & Hnext & Hreq) & Hs & [SI1 SI2] & KO).
  apply (Abs2_build h); try done; [apply I|].
  intros e b He Hb. rewrite datas_app in He. apply elem_of_app in He as [He|He].
  - destruct (KO e b He Hb) as [(s & Hs' & Hz) Hc']. split; [|done]. exists s. split; [|done].
    rewrite Hold; [done|]. by apply (SI1 _ _ Hs').
  - destruct (datas_array _ _ _ (Inv_leafy _ _ _ _ _ I) He) as [->|(t & Ht & ->)]; cbn in Hb; [done|].
    rewrite (Hkeys t Ht) in Hb. done.
Qed.

(** * number arrays *)
Fixpoint number_leaves (x : positive) (vs : list dbl) : list tree :=
  match vs with
  | [] => []
  | v :: r => T x (rd_number v) [] :: number_leaves (Pos.succ x) r
  end.
Definition num_dk (vals : list dbl) (k : nat) (_ : positive) : rdata :=
  match vals !! k with Some v => rd_number v | None => rd0 end.

Lemma leaves_from_numbers vals rem : forall x k,
  leaves_from 1 (num_dk vals) x k rem = number_leaves x (take rem (drop k vals)) \/ (length vals < k + rem)%nat.
Proof.
  induction rem as [|rem IH]; intros x k; [left; by rewrite take_0|].
  destruct (vals !! k) as [v|] eqn:E.
  - destruct (IH (x + 1)%positive (S k)) as [IH'|IH']; [|right; lia]. left.
    cbn [leaves_from]. rewrite (drop_S _ _ _ E). cbn [take number_leaves]. unfold num_dk at 1. rewrite E.
    f_equal. rewrite IH'. by rewrite Pos.add_1_r.
  - right. apply lookup_ge_None in E. lia.
Qed.

Definition spec_number_array (S : astate2) (vals : list dbl) (count : Z) : astate2 * ptr :=
  let n := Z.to_nat count in
  let a := nxt S in
  (mk3 (a_forest S ++ [T a arr (number_leaves (Pos.succ a) (take n vals))])
       (a + Pos.of_succ_nat n)%positive (Datatypes.S (req S) + n)%nat (a_str S) (a_foreign S),
   Some a).

Lemma number_leaves_keyless x vs t : t ∈ number_leaves x vs -> rd_key (tdata t) = None /\ owned_strs (tdata t) = [].
Proof.
  revert x. induction vs as [|v r IH]; intros x Ht; [by apply elem_of_nil in Ht|].
  cbn in Ht. apply elem_of_cons in Ht as [->|Ht]; [done|]. by apply (IH _ Ht).
Qed.

Lemma Step_number_array {A} (conv : A -> dbl) S (l : list A) count :
  0 <= count -> (Z.to_nat count <= length l)%nat ->
  Step (create_array_of nv (fun j : Z => v <~ rd_arr l j ;; cJSON_CreateNumber nv (conv v)) false count) S
       (spec_number_array S (conv <$> l) count).1 (spec_number_array S (conv <$> l) count).2.
Proof.
  intros Hc Hlen.
  assert (HC : Cons (create_array_of nv (fun j : Z => v <~ rd_arr l j ;; cJSON_CreateNumber nv (conv v)) false count)).
  { apply Cons_create_array_of. intros i. cons; auto with cons. }
  apply Step_intro; [done|]. intros h HA. pose proof HA as [HA2 K].
  pose proof HA2 as ((W & NL & Hnext & Hreq) & Hs & [SI1 SI2] & KO).
  set (Q := fun (k : nat) (_ : heap) (d : rdata) => d = num_dk (conv <$> l) k 1%positive).
  set (mk := fun j : Z => v <~ rd_arr l j ;; cJSON_CreateNumber nv (conv v)) in *.
  assert (Hmk : forall k Hck leaves, (k < Z.to_nat count)%nat -> length leaves = k -> Inv h (a_forest S) Q Hck leaves ->
    Zpos (h_next Hck) = Zpos (h_next h) + 1 + 1 * Z.of_nat k ->
    exists H', mk (Z.of_nat k) (act Hck leaves) = Ret (Some (h_next Hck), H') /\
      grows_leaf (act Hck leaves) H' (h_next Hck) (num_dk (conv <$> l) k (h_next Hck)) /\ Q k H' (num_dk (conv <$> l) k (h_next Hck)) /\
      h_next H' = (h_next Hck + 1)%positive /\ h_req H' = (h_req Hck + Pos.to_nat 1)%nat).
  { intros k Hck leaves Hk Hl I Hpos. destruct (lookup_lt_is_Some_2 l k ltac:(lia)) as [x Hx].
    exists (new_node (act Hck leaves) (rd_number (conv x))).
    assert (Hd : num_dk (conv <$> l) k (h_next Hck) = rd_number (conv x)) by (unfold num_dk; by rewrite list_lookup_fmap, Hx).
    rewrite Hd. split_and!.
    - unfold mk. rewrite (rd_arr_in_range l k x _ _ Hx). exact (run_CreateNumber (conv x) (act Hck leaves)).
    - exact (grows_number (conv x) (act Hck leaves)).
    - unfold Q, num_dk. by rewrite list_lookup_fmap, Hx.
    - cbn. lia.
    - cbn. lia. }
  destruct (bulk_array_of h _ W (hk_live _ K) Q ltac:(done) ltac:(done) mk (Z.to_nat count) 1%positive (num_dk (conv <$> l)) Hmk
              count Hc eq_refl) as (Hc' & E & I & LBc & NLc & Hnx & Hrq).
  cbn zeta in E, I, NLc. exists Hc'. unfold spec_number_array. cbn [fst snd]. unfold nxt, req. rewrite <- Hnext, <- Hreq.
  split; [exact E|].
  destruct (leaves_from_numbers (conv <$> l) (Z.to_nat count) (Pos.succ (h_next h)) 0) as [Hlv|Hbad];
    [|rewrite fmap_length in Hbad; lia].
  rewrite drop_0 in Hlv. rewrite Hlv in I, NLc.
  replace (h_next h + Pos.of_succ_nat (Z.to_nat count))%positive with (h_next Hc') by lia.
  replace (Datatypes.S (h_req h) + Z.to_nat count)%nat with (h_req Hc') by lia.
  pose proof (HC _ _ _ E K) as CP.
  apply (bulk_Abs2 h S Q); try done.
  - by apply NLc.
  - intros t Ht. by destruct (number_leaves_keyless _ _ _ Ht).
  - rewrite <- Hs. apply map_eq. intros b. destruct (Pos.ltb_spec b (h_next h)) as [Hb|Hb].
    + by destruct (ext_below _ _ _ (inv_ext _ _ _ _ _ I) b Hb).
    + destruct (h_str Hc' !! b) as [s|] eqn:Eb.
      * destruct (bulk_new_str h _ Q Hc' _ b (hk_live _ K) (cp_ok _ _ CP) I Hb ltac:(eauto)) as (t & Ht & Hbt).
        destruct (number_leaves_keyless _ _ _ Ht) as [_ Hno]. rewrite Hno in Hbt. by apply elem_of_nil in Hbt.
      * destruct (h_str h !! b) as [s|] eqn:Eb'; [|done].
        destruct (hk_str _ K b ltac:(eauto)) as [Hl _]. pose proof (hk_live _ K b Hl). lia.
Qed.

(** * string arrays *)
Fixpoint string_leaves (x : positive) (ss : list bytes) : list tree :=
  match ss with
  | [] => []
  | _ :: r => T x (rd_string c_cJSON_String (Pos.succ x)) [] :: string_leaves (x + 2)%positive r
  end.
Fixpoint add_strings (x : positive) (ss : list bytes) (m : gmap positive bytes) : gmap positive bytes :=
  match ss with
  | [] => m
  | s :: r => <[Pos.succ x := s ++ [0]]> (add_strings (x + 2)%positive r m)
  end.
Fixpoint str_new (x : positive) (ss : list bytes) (b : positive) : option bytes :=
  match ss with
  | [] => None
  | s :: r => if decide (b = Pos.succ x) then Some (s ++ [0]) else str_new (x + 2)%positive r b
  end.
Definition str_dk (k : nat) (x : positive) : rdata := rd_string c_cJSON_String (Pos.succ x).

Lemma add_strings_lookup ss : forall x m b,
  add_strings x ss m !! b = match str_new x ss b with Some v => Some v | None => m !! b end.
Proof.
  induction ss as [|s r IH]; intros x m b; [done|]. cbn [add_strings str_new].
  destruct (decide (b = Pos.succ x)) as [->|Hne]; [by rewrite lookup_insert|].
  rewrite lookup_insert_ne by done. apply IH.
Qed.
Lemma str_new_Some ss : forall x b v,
  str_new x ss b = Some v -> exists (k : nat) s, ss !! k = Some s /\ Zpos b = Zpos x + 1 + 2 * Z.of_nat k /\ v = s ++ [0].
Proof.
  induction ss as [|s r IH]; intros x b v H; [done|]. cbn [str_new] in H.
  destruct (decide (b = Pos.succ x)) as [->|Hne].
  - injection H as <-. exists O, s. split; [done|]. split; [lia|done].
  - destruct (IH _ _ _ H) as (k & s' & H1 & H2 & H3). exists (S k), s'. split; [done|]. split; [lia|done].
Qed.
Lemma str_new_at ss : forall x (k : nat) s b,
  ss !! k = Some s -> Zpos b = Zpos x + 1 + 2 * Z.of_nat k -> str_new x ss b = Some (s ++ [0]).
Proof.
  induction ss as [|s0 r IH]; intros x k s b Hk Hb; [done|]. cbn [str_new]. destruct k as [|k].
  - injection Hk as ->. rewrite decide_True; [done|lia].
  - rewrite decide_False by lia. apply (IH _ k); [done|lia].
Qed.
Lemma string_leaves_lookup ss : forall x (k : nat) t,
  string_leaves x ss !! k = Some t ->
  exists xk s, t = T xk (rd_string c_cJSON_String (Pos.succ xk)) [] /\ Zpos xk = Zpos x + 2 * Z.of_nat k /\ ss !! k = Some s.
Proof.
  induction ss as [|s0 r IH]; intros x k t H; [done|]. destruct k as [|k]; cbn in H.
  - injection H as <-. exists x, s0. split; [done|]. split; [lia|done].
  - destruct (IH _ _ _ H) as (xk & s & H1 & H2 & H3). exists xk, s. split; [done|]. split; [lia|done].
Qed.
Lemma string_leaves_length ss : forall x, length (string_leaves x ss) = length ss.
Proof. induction ss as [|s r IH]; intros x; [done|]. cbn. by rewrite IH. Qed.
Lemma leaves_from_strings ss : forall x k, leaves_from 2 str_dk x k (length ss) = string_leaves x ss.
Proof. induction ss as [|s r IH]; intros x k; [done|]. cbn [length leaves_from string_leaves]. by rewrite IH. Qed.
Lemma string_leaves_keyless x ss t : t ∈ string_leaves x ss -> rd_key (tdata t) = None.
Proof.
  revert x. induction ss as [|v r IH]; intros x Ht; [by apply elem_of_nil in Ht|].
  cbn in Ht. apply elem_of_cons in Ht as [->|Ht]; [done|]. by apply (IH _ Ht).
Qed.

(** the C strings of a caller array of string pointers *)
Definition cstr_of (S : astate2) (q : ptr) : bytes :=
  match q with
  | Some sb => match a_str S !! sb with Some s => cstr s | None => [] end
  | None => []
  end.
Definition spec_string_array (S : astate2) (l : list ptr) (count : Z) : astate2 * ptr :=
  let n := Z.to_nat count in
  let a := nxt S in
  let ss := cstr_of S <$> take n l in
  (mk3 (a_forest S ++ [T a arr (string_leaves (Pos.succ a) ss)])
       (a + Pos.of_succ_nat (2 * n))%positive (Datatypes.S (req S) + 2 * n)%nat
       (add_strings (Pos.succ a) ss (a_str S)) (a_foreign S),
   Some a).
Definition strings_ok (S : astate2) (l : list ptr) (count : Z) : Prop :=
  forall (k : nat) q, (k < Z.to_nat count)%nat -> l !! k = Some q -> name_ok S q.

Lemma Step_string_array S (l : list ptr) count :
  0 <= count -> (Z.to_nat count <= length l)%nat -> strings_ok S l count ->
  Step (cJSON_CreateStringArray nv (Some l) count) S (spec_string_array S l count).1 (spec_string_array S l count).2.
Proof.
  intros Hc Hlen Hok. apply Step_intro; [auto with cons|]. intros h HA. pose proof HA as [HA2 K].
  pose proof HA2 as ((W & NL & Hnext & Hreq) & Hs & [SI1 SI2] & KO).
  set (n := Z.to_nat count). set (ss := cstr_of S <$> take n l).
  assert (Hssl : length ss = n) by (unfold ss; rewrite fmap_length, take_length; lia).
  set (Q := fun (k : nat) (H : heap) (d : rdata) =>
              exists (sb : positive) (s : bytes), ss !! k = Some s /\ d = rd_string c_cJSON_String sb /\
                Zpos sb = Zpos (h_next h) + 2 + 2 * Z.of_nat k /\ (sb < h_next H)%positive /\ h_str H !! sb = Some (s ++ [0])).
  assert (Q_upd : forall k H d L D, Q k H d -> Q k (upd_maps H L D) d) by (intros k H d L D HQ; exact HQ).
  assert (Q_ext : forall k H H' N d, Q k H d -> Ext H H' N -> Q k H' d).
  { intros k H H' N d (sb & s & H1 & H2 & H3 & H4 & H5) E. exists sb, s. split_and!; try done.
    - pose proof (ext_next _ _ _ E). lia.
    - destruct (ext_below _ _ _ E sb H4) as [E1 _]. etransitivity; [exact E1|exact H5]. }
  set (mk := fun j : Z => x <~ rd_arr l j ;; cJSON_CreateString nv x).
  assert (Hmk : forall k Hck leaves, (k < n)%nat -> length leaves = k -> Inv h (a_forest S) Q Hck leaves ->
    Zpos (h_next Hck) = Zpos (h_next h) + 1 + 2 * Z.of_nat k ->
    exists H', mk (Z.of_nat k) (act Hck leaves) = Ret (Some (h_next Hck), H') /\
      grows_leaf (act Hck leaves) H' (h_next Hck) (str_dk k (h_next Hck)) /\ Q k H' (str_dk k (h_next Hck)) /\
      h_next H' = (h_next Hck + 2)%positive /\ h_req H' = (h_req Hck + Pos.to_nat 2)%nat).
  { intros k Hck leaves Hk Hl I Hpos. destruct (lookup_lt_is_Some_2 l k ltac:(lia)) as [q Hq].
    destruct (name_ok_Readable h S q HA (Hok k q Hk Hq)) as (sb & s0 & -> & HR & Hs1 & Hs2 & Hz & Hat & Hlt).
    pose proof (Readable_act h _ (hk_live _ K) Q _ _ sb I HR) as HRa.
    assert (Hata : str_at (act Hck leaves) sb = cstr s0).
    { rewrite (str_at_act h _ (hk_live _ K) Q _ _ sb I); [done|]. by destruct HR. }
    exists (new_string (act Hck leaves) c_cJSON_String (cstr s0 ++ [0])). split_and!.
    - unfold mk. rewrite (rd_arr_in_range l k (Some sb) _ _ Hq). rewrite <- Hata. exact (run_CreateString (act Hck leaves) sb HRa).
    - exact (grows_string (act Hck leaves) _).
    - exists (Pos.succ (h_next Hck)), (cstr s0). split_and!.
      + unfold ss. rewrite list_lookup_fmap, lookup_take by done. rewrite Hq. cbn. by rewrite Hs1.
      + done.
      + lia.
      + cbn. lia.
      + cbn. by rewrite lookup_insert.
    - cbn. lia.
    - cbn. lia. }
  destruct (bulk_array_of h _ W (hk_live _ K) Q Q_upd Q_ext mk n 2%positive str_dk Hmk count Hc eq_refl)
    as (Hc' & E & I & LBc & NLc & Hnx & Hrq).
  cbn zeta in E, I, NLc. rewrite <- Hssl in I, NLc. rewrite leaves_from_strings in I, NLc.
  exists Hc'. unfold spec_string_array. cbn [fst snd]. fold n. fold ss. unfold nxt, req. rewrite <- Hnext, <- Hreq.
  split; [exact E|].
  replace (h_next h + Pos.of_succ_nat (2 * n))%positive with (h_next Hc') by lia.
  replace (Datatypes.S (h_req h) + 2 * n)%nat with (h_req Hc') by lia.
  pose proof (Cons_cJSON_CreateStringArray nv (Some l) count _ _ _ E K) as CP.
  apply (bulk_Abs2 h S Q); try done.
  - by apply NLc.
  - intros t Ht. by apply (string_leaves_keyless _ _ _ Ht).
  - apply map_eq. intros b. rewrite add_strings_lookup.
    destruct (str_new (Pos.succ (h_next h)) ss b) as [v|] eqn:En.
    + destruct (str_new_Some _ _ _ _ En) as (k & s & Hk & Hb & ->).
      destruct (lookup_lt_is_Some_2 (string_leaves (Pos.succ (h_next h)) ss) k) as [t Ht].
      { rewrite string_leaves_length. by apply lookup_lt_Some in Hk. }
      destruct (inv_q _ _ _ _ _ I k t Ht) as (x & d & -> & sb & s' & H1 & H2 & H3 & H4 & H5).
      assert (sb = b) by lia. subst sb. pose proof (eq_trans (eq_sym H1) Hk) as Hss. injection Hss as ->. exact H5.
    + destruct (Pos.ltb_spec b (h_next h)) as [Hb|Hb].
      * rewrite <- Hs. by destruct (ext_below _ _ _ (inv_ext _ _ _ _ _ I) b Hb).
      * destruct (h_str Hc' !! b) as [s|] eqn:Eb.
        -- destruct (bulk_new_str h _ Q Hc' _ b (hk_live _ K) (cp_ok _ _ CP) I Hb ltac:(eauto)) as (t & Ht & Hbt).
           apply elem_of_list_lookup in Ht as [k Hk].
           destruct (string_leaves_lookup _ _ _ _ Hk) as (xk & s' & -> & Hx & Hsk). cbn in Hbt.
           apply elem_of_list_singleton in Hbt as ->.
           rewrite (str_new_at ss _ k s' (Pos.succ xk) Hsk) in En; [done|lia].
        -- destruct (a_str S !! b) as [s|] eqn:Eb'; [|done]. destruct (SI1 _ _ Eb'). lia.
  - intros b Hb. rewrite add_strings_lookup.
    destruct (str_new (Pos.succ (h_next h)) ss b) as [v|] eqn:En; [|done].
    destruct (str_new_Some _ _ _ _ En) as (k & s & _ & Hbk & _). lia.
Qed.
