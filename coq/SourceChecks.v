(** SourceChecks.v — decidable checks over the facts that tools/gen_facts.py regenerates from
    /repo's sources on every run (coq/gen/SourceFacts.v), and the expectations the properties
    C14 and C20 place on them.  A change of the C sources that adds a mutable object with
    static storage duration, a new writer or reader of the documented globals, a direct call of
    the C allocator, or a call to a library function outside the list below changes the
    generated terms, and the [reflexivity] obligations of Properties_C14.v / Properties_C20.v
    stop checking. *)
From Coq Require Import String List Bool.
From CJ.gen Require Import SourceFacts.
Import ListNotations.
Local Open Scope string_scope.

Definition mem (x : string) (l : list string) : bool := existsb (String.eqb x) l.
Definition incl_b (a b : list string) : bool := forallb (fun x => mem x b) a.
Definition lookup (k : string) (m : list (string * list string)) : list string :=
  match find (fun p => String.eqb k (fst p)) m with Some p => snd p | None => [] end.
Definition pair_mem (p : string * string) (l : list (string * string)) : bool :=
  existsb (fun q => String.eqb (fst p) (fst q) && String.eqb (snd p) (snd q)) l.
Definition pairs_incl_b (a b : list (string * string)) : bool := forallb (fun p => pair_mem p b) a.

(** --- C20: shared state ------------------------------------------------------------------ *)
(** the only objects with static storage duration that are ever written *)
Definition documented_globals : list string := ["cJSON_Version.version"; "global_error"; "global_hooks"].
(** who may write them: the parser publishes the error position, InitHooks installs hooks,
    cJSON_Version formats its static text *)
Definition allowed_writers : list (string * list string) :=
  [("global_error", ["cJSON_ParseWithLengthOpts"]); ("global_hooks", ["cJSON_InitHooks"]);
   ("cJSON_Version.version", ["cJSON_Version"])].
(** the global error position flows nowhere but to cJSON_GetErrorPtr *)
Definition allowed_error_readers : list string := ["cJSON_GetErrorPtr"].

(** "only reachable from": [f] is one of the [allowed] functions, or a function with internal linkage (static)
    all of whose users — callers and functions that take its address, transitively — are.  A helper that an
    allowed writer calls is thereby as good as the writer itself (moving the store of the error position into
    a static function called by cJSON_ParseWithLengthOpts changes nothing for other threads), while a function
    that any other public entry point can reach is not.  Worklist over the reference graph; every function is
    expanded at most once, the fuel covers every edge. *)
Definition users (calls : list (string * list string)) (f : string) : list string :=
  map fst (filter (fun p => mem f (snd p)) calls).
Fixpoint climb (fuel : nat) (internal : list string) (calls : list (string * list string)) (allowed : list string)
               (todo visited : list string) : bool :=
  match todo with
  | [] => true
  | f :: rest =>
      match fuel with
      | O => false
      | S k =>
          if mem f allowed || mem f visited then climb k internal calls allowed rest visited
          else if mem f internal then climb k internal calls allowed (users calls f ++ rest) (f :: visited)
          else false
      end
  end.
Definition only_from (internal : list string) (calls : list (string * list string)) (allowed : list string) (f : string) : bool :=
  climb (length (concat (map snd calls)) + length calls + 2) internal calls allowed [f] [].

Definition statics_ok : bool :=
  incl_b core_mutable_statics documented_globals && incl_b utils_mutable_statics [].
Definition writers_ok : bool :=
  forallb (fun g => forallb (only_from core_internal core_calls (lookup g allowed_writers)) (lookup g core_static_writers)) core_mutable_statics.
Definition error_readers_ok : bool :=
  forallb (only_from core_internal core_calls allowed_error_readers) (lookup "global_error" core_static_readers).
(** no function of either file calls (or takes the address of) cJSON_GetErrorPtr *)
Definition error_ptr_unused : bool :=
  forallb (fun p => negb (mem "cJSON_GetErrorPtr" (snd p))) (core_calls ++ utils_calls).

(** C library functions the two files may use: all of them are required by POSIX to be
    thread-safe (localeconv and the locale-dependent conversions under the documented
    condition that the locale is not changed while the library runs) *)
Definition thread_safe_libc : list string :=
  ["fabs"; "floor"; "ceil"; "fmod"; "pow"; "sqrt"; "log10"; "modf"; "frexp"; "ldexp"; "trunc"; "round"; "isnan"; "isinf"; "isfinite";
   "free"; "malloc"; "realloc"; "calloc"; "localeconv";
   "memcpy"; "memset"; "memmove"; "memcmp"; "memchr";
   "sprintf"; "snprintf"; "vsprintf"; "vsnprintf"; "sscanf";
   "strcmp"; "strncmp"; "strcpy"; "strncpy"; "strcat"; "strncat"; "strlen"; "strnlen"; "strchr"; "strrchr"; "strstr"; "strspn"; "strcspn"; "strpbrk";
   "strtod"; "strtof"; "strtol"; "strtoul"; "strtoll"; "strtoull"; "atoi"; "atol"; "atof"; "abs"; "labs";
   "tolower"; "toupper"; "isdigit"; "isxdigit"; "isspace"; "isalpha"; "isalnum"; "isupper"; "islower"; "isprint"; "iscntrl"].
(** compiler builtins (isnan/isinf/nan expansions) have no state *)
Definition is_builtin (f : string) : bool := String.prefix "__builtin_" f.
Definition safe_external (f : string) : bool := is_builtin f || mem f thread_safe_libc.
Definition externals_ok : bool :=
  forallb safe_external core_externals &&
  forallb (fun f => safe_external f || mem f core_defined) utils_externals.

(** --- C14: allocation sites -------------------------------------------------------------- *)
(** the C allocator is mentioned only where the default hooks are set up: the initialiser of
    global_hooks and cJSON_InitHooks (and the MSVC wrapper functions when they exist) *)
Definition allowed_alloc_sites : list string :=
  ["<file scope>"; "cJSON_InitHooks"; "internal_malloc"; "internal_free"; "internal_realloc"].
Definition alloc_sites_ok : bool :=
  forallb (fun p => only_from core_internal core_calls allowed_alloc_sites (fst p)) core_direct_alloc_refs &&
  match utils_direct_alloc_refs with [] => true | _ => false end.
(** functions that read global_hooks, i.e. that allocate or release through the hooks: none of
    them may be outside cJSON.c, and cJSON_Utils.c reaches the allocator only through
    cJSON_malloc / cJSON_free and the public constructors *)
Definition utils_allocates_through_core : bool :=
  negb (mem "malloc" utils_externals) && negb (mem "free" utils_externals) && negb (mem "realloc" utils_externals)
  && negb (mem "calloc" utils_externals) && negb (mem "strdup" utils_externals).
