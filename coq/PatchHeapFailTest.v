(** PatchHeapFailTest.v — the [test] operation of the heap-level [apply_patch] under an ARBITRARY allocation-failure
    schedule: it makes no request, so [PatchHeapTest.apply_patch_test_refines] holds verbatim for every [oracle] (and
    with the hypothesis on the patch object weakened to its "value" member, as in PatchHeapDupTest.v).  The proof is
    that of PatchHeapTest.v. *)
From CJ Require Import Base Dbl Heap Forest ForestLemmas CoreSpec CoreDefs CoreRefineBase CoreRefine CoreRefineMore
  CoreRefineDelete CoreRefineReplace CoreRefineObject CoreRefineByKey CoreRefineFrame CoreRefineHistory CoreRefineAddObject
  CoreRefineHistoryObj CoreRefineCreate CoreRefineDupValue CoreRefineDupForest CoreLedgerGen CoreLedgerDup.
From CJ Require Import TierBridgeDefs TierBridgeForest TierBridgeLemmas TierBridgeSort TierBridgeSortHeap TierBridgeUtilsDefs TierBridgeUtils
  TierBridgeE2E2 TierBridgeEndToEndStr TierBridgeOverwriteDefs TierBridgeOverwrite
  MergeHeapDefs MergeHeapInv MergeHeapProofs PatchHeapDefs PatchHeapPath PatchHeapPointer PatchHeapStr PatchHeapSteps
  PatchHeapDetach PatchHeapApplyDefs PatchHeapOps PatchHeapFinish PatchHeapApply PatchHeapTest.
From CJ Require Tree PointerDefs PatchDefs CompareDefs MergeDefs SortDefs SortSpec PatchProofs.
From CJ.gen Require Import Constants.
From stdpp Require Import gmap.
From Coq Require Import Lia.
Local Open Scope Z_scope.

Section TestO.
  Variable oracle : nat -> bool.
  Context (h : heap) (A B : forest) (doc rb : tree) (ppt : Tree.path) (pid : positive) (dpt : rdata) (cpt : list tree) (flag : bool).
  Notation F := (F2 A B [] doc rb).
  Notation St := (h_str h).
  Notation pt := (T pid dpt cpt).
  Hypothesis I : MInv h F.
  Hypothesis Hpt : subtree_t rb ppt = Some pt.
  Hypothesis Hkd : all_keyed St doc.
  Hypothesis Hkv : forall vi m, found_member St flag PatchDefs.s_value cpt = Some (vi, m) -> all_keyed St m.

  Theorem apply_patch_test_refines_o :
    PatchDefs.decode_patch_operation (reify St pt) flag = Ok PatchDefs.TEST ->
    test_post h A B doc rb ppt pid dpt cpt (apply_patch oracle (Some (tid doc)) (Some pid) flag h) (PatchDefs.apply_patch (reify St doc) (reify St pt) flag).
  Proof.
    intros Edec. pose proof (F2_node_b A B [] doc rb ppt _ Hpt) as HptF.
    assert (HdocF : doc ∈ nodes F) by (exact (F2_node_a A B [] doc rb [] doc eq_refl)).
    unfold apply_patch, PatchDefs.apply_patch.
    destruct (run_member h F I pid dpt cpt PatchDefs.s_path flag HptF zf_path) as [Hrun Hval]. rewrite Hval. stp Hrun.
    destruct (found_member St flag PatchDefs.s_path cpt) as [[j pathn]|] eqn:Efm; cbn [fmap option_fmap option_map fst snd].
    2:{ unfold cJSON_IsString. cbn [is_null]. rewrite bindM_ret. cbn [negb]. rewrite cleanup_none. apply (test_post_unchanged h A B doc rb ppt pid dpt cpt I Hpt). }
    destruct pathn as [pn dpn cpn]. cbn [tid].
    destruct (member_node h F pid dpt cpt _ _ _ _ HptF Efm) as [HpnF _].
    stp (run_is_string h F I pn dpn cpn HpnF).
    destruct (Tree.is_string (reify St (T pn dpn cpn))); cbn [negb]; [|rewrite cleanup_none; apply (test_post_unchanged h A B doc rb ppt pid dpt cpt I Hpt)].
    rewrite Edec. cbn [bind]. stp (run_decode h F I pid dpt cpt flag _ HptF Edec).
    destruct (node_vstr h F I pn dpn cpn HpnF) as (Hgv & Hsome & Hnone). stp Hgv.
    destruct (run_member h F I pid dpt cpt PatchDefs.s_value flag HptF zf_value) as [Hrunv Hvalv]. rewrite Hvalv.
    assert (Hnull : forall a0 b0 : ptr, is_null a0 || is_null b0 = true ->
              test_post h A B doc rb ppt pid dpt cpt ((r <~ compare_json a0 b0 flag ;; cleanup None None (if r then 0 else 1)) h) (Ok (1, reify St doc, reify St pt))).
    { intros a0 b0 Hn. rewrite (bindM_Ret _ _ _ _ _ (compare_json_null a0 b0 flag h Hn)). rewrite cleanup_none. apply (test_post_unchanged h A B doc rb ppt pid dpt cpt I Hpt). }
    destruct (rd_vstr dpn) as [pb|] eqn:Evs.
    2:{ rewrite (Hnone eq_refl). cbn [cs_of_ptr]. unfold get_item_from_pointer at 1. cbn [cs_is_null]. rewrite bindM_ret. stp Hrunv.
        by apply Hnull. }
    destruct (Hsome pb eq_refl) as (sp & Hpl & Hps & Hpz & Hv). rewrite Hv. cbn [cs_of_ptr].
    stp (get_item_from_pointer_refines h F I doc (CAt pb 0) (cstr sp) flag HdocF (CsReads_block h pb sp Hpl Hps Hpz)).
    stp Hrunv.
    destruct (PointerDefs.get_item_from_pointer (reify St doc) (cstr sp) flag) as [tp|] eqn:Egip; cbn [mbind option_bind].
    2:{ cbn [fmap option_fmap option_map]. by apply Hnull. }
    destruct (get_item_loop_subtree h flag _ _ _ _ Egip) as [n Hn]. rewrite Hn. cbn [fmap option_fmap option_map].
    destruct (found_member St flag PatchDefs.s_value cpt) as [[vi m]|] eqn:Efv; cbn [fmap option_fmap option_map fst snd].
    2:{ apply Hnull. apply orb_true_r. }
    rewrite reify_subtree, Hn. cbn [fmap option_fmap option_map].
    pose proof (found_member_lookup _ _ _ _ _ _ Efv) as Hvi.
    assert (Hmb : subtree_t rb (ppt ++ [vi]) = Some m) by (by rewrite (subtree_t_snoc _ _ _ _ _ vi Hpt)).
    destruct (PatchDefs.compare_json (Tree.node_depth (reify St n)) (reify St n) (reify St m) flag) as [[[r a'] v']| |] eqn:Ecmp; cbn [bind]; [|done|done].
    pose proof (F2_node_a A B [] doc rb tp n Hn) as HnF.
    assert (Hhn : (height n < Pos.to_nat (h_next h))%nat).
    { pose proof (tsize_fuel h F n (mi_wf _ _ I) HnF). pose proof (height_lt_tsize n). lia. }
    destruct (compare_rec flag n h A B [] doc rb tp (ppt ++ [vi]) m (Pos.to_nat (h_next h)) (Pos.to_nat (h_next h)) _ r a' v' I Hn Hmb
                (all_keyed_sub St doc n Hkd (subtree_t_nodes _ _ _ Hn))
                (Hkv vi m eq_refl) Hhn ltac:(lia) Ecmp)
      as (h' & ta' & tb' & Hcr & I' & Es & El & Eo & En & Hra & Hrb & Hta & Htb & Hda & Hdb & HDD).
    assert (Hcj : compare_json (Some (tid n)) (Some (tid m)) flag h = Ret (r, h')).
    { unfold compare_json, heap_fuel. unfold bindM at 1. exact Hcr. }
    stp Hcj. rewrite cleanup_none.
    rewrite (put_t_snoc rb ppt pid dpt cpt vi m tb' Hpt Hvi) in I', HDD.
    exists h', (put_t doc tp ta'), (T pid dpt (<[vi := tb']> cpt)).
    split; [done|]. split; [exact I'|]. split; [|split; [done|split; [done|split]]].
    - destruct tp as [|i0 tp0]; [cbn in Hn |- *; injection Hn as <-; done|by apply tid_put_t].
    - cbn [tchildren]. rewrite list_fmap_insert, Htb. apply list_insert_id. by rewrite list_lookup_fmap, Hvi.
    - split; [by rewrite <- reify_put, Hra|]. split.
      + rewrite replace_nth_insert, reify_children. cbn [tchildren]. rewrite <- Hrb, <- map_list_insert. symmetry. apply reify_set_children.
      + split; [done|]. split; [done|]. split; [|exact HDD].
        intros NL b Hb. rewrite (lib_live_same h h' El Eo) in Hb. rewrite (owned_of_datas_perm _ _ HDD). by apply NL.
  Qed.
End TestO.
