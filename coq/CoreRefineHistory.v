(** CoreRefineHistory.v — constructors, and the HISTORY theorem (C06_history shape).

    * [create_with_type_ok/_fail], [WF_alloc_typed]: the constructors without payload
      (cJSON_CreateNull/True/False/Bool/Array/Object) under an arbitrary failure oracle;
    * [op], [run_op], [spec_step], [pre_ok]: an alphabet of 11 public calls, their heap-level
      code, their list model and the documented ownership rules as a predicate on the
      abstract state;
    * [step_sim]: one call — never an error outcome, the result the model predicts, and the
      representation invariant [Abs] ([WF] + [NoLeak] + allocator counters) re-established;
    * [history_sim], [history_from_empty]: any history obeying the rules, by induction on the
      list of calls. *)
From CJ Require Import Base Dbl Heap Forest ForestLemmas CoreSpec CoreDefs CoreRefineBase CoreRefine
  CoreRefineDelete CoreRefineReplace CoreRefineMore CoreRefineFrame.
From stdpp Require Import gmap.
Implicit Types (h : heap) (F : forest) (p x y r : positive) (d : rdata).
Local Open Scope Z_scope.

(** * constructors without payload: cJSON_CreateNull/True/False/Bool/Array/Object *)

Definition rd_typed (ty : Z) : rdata := mkRD ty None 0 dzero None None.

(** the heap after a successful allocation of node [id := h_next h] with type [ty] *)
Definition alloc_typed (h : heap) (ty : Z) : heap :=
  let id := h_next h in
  mkHeap (<[id := (None, None)]> (h_lnk h)) (<[id := mk_dat (rd_typed ty) []]> (h_dat h)) (h_str h)
         (<[id := Lib]> (h_own h)) ({[id]} ∪ h_live h) (Pos.succ id) (S (h_req h)) (h_hooks h)
         (EvAlloc id (via_malloc h) :: h_trace h).

Lemma owned_strs_typed ty : owned_strs (rd_typed ty) = [].
Proof. unfold owned_strs. cbn. by destruct (is_ref _), (is_const _). Qed.

Lemma WF_bump h F : WF h F -> WF (bump h) F.
Proof. intros [H1 H2 H3 H4 H5 H6 H7 H8]. by constructor. Qed.
Lemma NoLeak_bump h F : NoLeak h F -> NoLeak (bump h) F.
Proof. intros NL b Hb. by apply NL. Qed.

Lemma create_with_type_fail oracle ty h :
  oracle (h_req h) = true -> create_with_type oracle ty h = Ret (None, bump h).
Proof. intros Ho. unfold create_with_type, cJSON_New_Item, alloc_node, bindM. by rewrite Ho. Qed.

Lemma create_with_type_ok oracle ty h :
  oracle (h_req h) = false -> create_with_type oracle ty h = Ret (Some (h_next h), alloc_typed h ty).
Proof.
  intros Ho. unfold create_with_type, cJSON_New_Item, alloc_node. unfold bindM at 1. rewrite Ho.
  cbn [is_null negb when].
  match goal with |- bindM _ _ ?h1 = _ => set (H1 := h1) end.
  assert (Hl : h_next h ∈ h_live H1) by (unfold H1; cbn; set_solver).
  assert (Hd : h_dat H1 !! h_next h = Some nd0) by (unfold H1; cbn; by rewrite lookup_insert).
  rewrite (bindM_Ret _ _ _ _ _ (run_set_type_plain _ _ _ ty Hl Hd)).
  unfold ret, bindM. do 2 f_equal. unfold H1, set_dat, upd_maps, alloc_typed. cbn. f_equal.
  by rewrite insert_insert.
Qed.

Lemma WF_alloc_typed h F ty :
  WF h F -> WF (alloc_typed h ty) (spec_create F (h_next h) (rd_typed ty)).
Proof.
  intros W. set (id := h_next h). set (d := rd_typed ty). unfold spec_create.
  assert (Hfresh : id ∉ owned F).
  { intros Hin. exact (Pos.lt_irrefl _ (wf_fresh _ _ W _ Hin)). }
  assert (Hidn : id ∉ ids F) by (intros Hin; by apply Hfresh, ids_subseteq_owned).
  assert (Hflat : flat (F ++ [T id d []]) ≡ₚ (id, d, []) :: flat F).
  { rewrite flat_app, flat_singleton. cbn. by rewrite <- Permutation_cons_append. }
  assert (Hroots : roots (F ++ [T id d []]) ≡ₚ id :: roots F).
  { rewrite roots_app. cbn. by rewrite <- Permutation_cons_append. }
  assert (Hids : ids (F ++ [T id d []]) ≡ₚ id :: ids F) by (by rewrite !ids_flat, Hflat).
  assert (ND' : NoDup (ids (F ++ [T id d []]))).
  { rewrite Hids. apply NoDup_cons. split; [done|apply W]. }
  assert (Hown : owned (F ++ [T id d []]) ≡ₚ id :: owned F).
  { unfold owned. rewrite Hflat, owned_fl_cons. unfold owned_fn. cbn [fn_id fn_data fst snd]. unfold d. by rewrite owned_strs_typed. }
  constructor.
  - done.
  - destruct (heap_lnk_of_focus _ _ _ _ _ _ ND' Hroots Hflat) as [-> _].
    rewrite links_nil, (left_id_L ∅ (∪)). rewrite lnk_of_cons_root. cbn. by rewrite (wf_lnk _ _ W).
  - destruct (heap_dat_of_focus _ _ _ _ _ ND' Hflat) as [-> _]. cbn. by rewrite (wf_dat _ _ W).
  - rewrite Hown. apply NoDup_cons. split; [done|apply W].
  - intros b Hb. rewrite Hown in Hb. cbn. apply elem_of_cons in Hb as [->|Hb]; [set_solver|].
    apply elem_of_union. right. by apply (wf_owned_live _ _ W).
  - intros b Hb. rewrite Hown in Hb. cbn. apply elem_of_cons in Hb as [->|Hb]; [by rewrite lookup_insert|].
    rewrite lookup_insert_ne; [by apply (wf_owned_lib _ _ W)|]. intros <-. done.
  - intros b Hb. rewrite Hown in Hb. cbn. apply elem_of_cons in Hb as [->|Hb]; [apply Pos.lt_succ_diag_r|].
    pose proof (wf_fresh _ _ W _ Hb). apply Pos.lt_lt_succ. done.
  - rewrite Hflat. apply Forall_cons. split; [|apply W]. split; cbn; done.
Qed.

Lemma NoLeak_alloc_typed h F ty :
  NoLeak h F -> NoLeak (alloc_typed h ty) (spec_create F (h_next h) (rd_typed ty)).
Proof.
  intros NL b Hb. unfold lib_live in Hb. apply elem_of_filter in Hb as [Hb1 Hb2]. cbn in Hb1, Hb2.
  unfold spec_create, owned. rewrite flat_app, owned_fl_app. apply elem_of_app.
  destruct (decide (b = h_next h)) as [->|Hne].
  - right. rewrite flat_singleton. cbn. by left.
  - left. apply NL. apply elem_of_filter. rewrite lookup_insert_ne in Hb1 by done. split; [done|]. set_solver.
Qed.

(** * ownership is invariant under the edits that move a root below a container *)
Lemma owned_move_root F x tx p d cs cs' :
  NoDup (ids F) -> find_root x F = Some tx -> find_tree p (remove_root x F) = Some (T p d cs) ->
  cs' ≡ₚ tx :: cs -> owned (set_children p cs' (remove_root x F)) ≡ₚ owned F.
Proof.
  intros ND Hx Hp Hcs'. destruct (focus_root_container _ _ _ _ _ _ ND Hx Hp) as (FL0 & Htx & ND0 & HFp & E1 & E2).
  unfold owned. rewrite E2, E1. rewrite !owned_fl_cons, !owned_fl_app.
  change (owned_fn (p, d, tid <$> cs')) with (owned_fn (p, d, tid <$> cs)).
  apply Permutation_app_head.
  assert (H : owned_fl (flat cs') ≡ₚ owned_fl (flat_t tx) ++ owned_fl (flat cs)).
  { rewrite <- owned_fl_app, <- flat_cons. by apply owned_fl_proper, flat_proper. }
  rewrite H. rewrite <- !app_assoc. rewrite (Permutation_app_swap_app (owned_fl (flat_t tx))). done.
Qed.

Lemma NoLeak_upd_maps h F F' L D : owned F' ≡ₚ owned F -> NoLeak h F -> NoLeak (upd_maps h L D) F'.
Proof. intros HP NL b Hb. rewrite HP. by apply NL. Qed.

(** * histories *)

Inductive op : Type :=
| OCreate (ty : Z)                                   (* cJSON_CreateNull/True/False/Bool/Array/Object *)
| OAdd (array item : ptr)                            (* cJSON_AddItemToArray *)
| ODetach (parent item : ptr)                        (* cJSON_DetachItemViaPointer *)
| ODetachIdx (array : ptr) (which : Z)               (* cJSON_DetachItemFromArray *)
| OInsert (array : ptr) (which : Z) (newitem : ptr)  (* cJSON_InsertItemInArray *)
| OReplace (parent item replacement : ptr)           (* cJSON_ReplaceItemViaPointer *)
| OReplaceIdx (array : ptr) (which : Z) (newitem : ptr) (* cJSON_ReplaceItemInArray *)
| ODelete (item : ptr)                               (* cJSON_Delete *)
| ODeleteIdx (array : ptr) (which : Z)               (* cJSON_DeleteItemFromArray *)
| OSize (array : ptr)                                (* cJSON_GetArraySize *)
| OGet (array : ptr) (index : Z).                    (* cJSON_GetArrayItem *)

Inductive res : Type := RPtr (p : ptr) | RBool (b : bool) | RInt (z : Z) | RUnit.

Section History.
  Variable oracle : nat -> bool.

  (** the heap-level code of one call *)
  Definition run_op (o : op) : M res :=
    match o with
    | OCreate ty => p <~ create_with_type oracle ty ;; ret (RPtr p)
    | OAdd a i => b <~ cJSON_AddItemToArray a i ;; ret (RBool b)
    | ODetach pa it => p <~ cJSON_DetachItemViaPointer pa it ;; ret (RPtr p)
    | ODetachIdx a w => p <~ cJSON_DetachItemFromArray a w ;; ret (RPtr p)
    | OInsert a w n => b <~ cJSON_InsertItemInArray a w n ;; ret (RBool b)
    | OReplace pa it rp => b <~ cJSON_ReplaceItemViaPointer pa it rp ;; ret (RBool b)
    | OReplaceIdx a w n => b <~ cJSON_ReplaceItemInArray a w n ;; ret (RBool b)
    | ODelete it => cJSON_Delete it ;;; ret RUnit
    | ODeleteIdx a w => cJSON_DeleteItemFromArray a w ;;; ret RUnit
    | OSize a => z <~ cJSON_GetArraySize a ;; ret (RInt z)
    | OGet a i => p <~ cJSON_GetArrayItem a i ;; ret (RPtr p)
    end.

  (** the abstract state: the forest and the two allocator counters *)
  Record astate : Type := mkAS { as_forest : forest; as_next : positive; as_req : nat }.

  (** the list model of one call *)
  Definition spec_step (S : astate) (o : op) : astate * res :=
    let F := as_forest S in
    let keep (Fr : forest) := mkAS Fr (as_next S) (as_req S) in
    match o with
    | OCreate ty =>
        if oracle (as_req S) then (mkAS F (as_next S) (Datatypes.S (as_req S)), RPtr None)
        else (mkAS (spec_create F (as_next S) (rd_typed ty)) (Pos.succ (as_next S)) (Datatypes.S (as_req S)),
              RPtr (Some (as_next S)))
    | OAdd a i => let '(F', b) := spec_add_to_array F a i in (keep F', RBool b)
    | ODetach pa it => let '(F', p) := spec_detach F pa it in (keep F', RPtr p)
    | ODetachIdx a w => let '(F', p) := spec_detach_index F a w in (keep F', RPtr p)
    | OInsert a w n => let '(F', b) := spec_insert F a w n in (keep F', RBool b)
    | OReplace pa it rp => let '(F', b) := spec_replace F pa it rp in (keep F', RBool b)
    | OReplaceIdx a w n => let '(F', b) := spec_replace_index F a w n in (keep F', RBool b)
    | ODelete it => (keep (spec_delete F it), RUnit)
    | ODeleteIdx a w => (keep (spec_delete_index F a w), RUnit)
    | OSize a => (S, RInt (spec_get_size F a))
    | OGet a i => (S, RPtr (spec_get_array_item F a i))
    end.

  (** the documented ownership rules (plus: containers are not reference nodes) *)
  Definition movable_into (F : forest) (p x : positive) : Prop :=
    p <> x /\ exists tx d cs, find_root x F = Some tx /\
      find_tree p (remove_root x F) = Some (T p d cs) /\ is_ref d = false.
  Definition plain_container (F : forest) (a : ptr) : Prop :=
    a = None \/ exists p d cs, a = Some p /\ find_tree p F = Some (T p d cs) /\ is_ref d = false.

  Definition pre_ok (S : astate) (o : op) : Prop :=
    let F := as_forest S in
    match o with
    | OCreate _ => True
    | OAdd a i =>
        (a = None \/ i = None \/ a = i) \/ exists p x, a = Some p /\ i = Some x /\ movable_into F p x
    | ODetach pa it =>
        (pa = None \/ it = None) \/
        exists p x d cs, pa = Some p /\ it = Some x /\ find_tree p F = Some (T p d cs) /\
          ((exists k tx, cs !! k = Some tx /\ tid tx = x) \/ (is_ref d = false /\ x ∈ roots F))
    | ODetachIdx a w => exists p d cs, a = Some p /\ find_tree p F = Some (T p d cs) /\ is_ref d = false
    | OInsert a w n =>
        (w < 0 \/ n = None \/ a = n) \/ exists p x, a = Some p /\ n = Some x /\ 0 <= w /\ movable_into F p x
    | OReplace pa it rp =>
        pa = None \/
        (exists p d cs, pa = Some p /\ find_tree p F = Some (T p d cs) /\ is_ref d = false /\
           (cs = [] \/ it = None \/ rp = None \/ (cs <> [] /\ it = rp /\ it <> None))) \/
        (exists p y r tr ty d cs k, pa = Some p /\ it = Some y /\ rp = Some r /\ find_root r F = Some tr /\
           find_tree p (remove_root r F) = Some (T p d cs) /\ cs !! k = Some ty /\ tid ty = y)
    | OReplaceIdx a w n =>
        exists p r tr ty d cs, a = Some p /\ n = Some r /\ 0 <= w /\ find_root r F = Some tr /\
          find_tree p (remove_root r F) = Some (T p d cs) /\ cs !! Z.to_nat w = Some ty
    | ODelete it => it = None \/ exists x tx, it = Some x /\ find_root x F = Some tx
    | ODeleteIdx a w =>
        exists p d cs tx, a = Some p /\ find_tree p F = Some (T p d cs) /\ is_ref d = false /\
          0 <= w /\ cs !! Z.to_nat w = Some tx
    | OSize a => plain_container F a
    | OGet a i => plain_container F a
    end.

  (** heap [h] represents abstract state [S] *)
  Definition Abs (h : heap) (S : astate) : Prop :=
    WF h (as_forest S) /\ NoLeak h (as_forest S) /\ h_next h = as_next S /\ h_req h = as_req S.

  Lemma free_all_req bs h : h_req (free_all bs h) = h_req h.
  Proof. revert h. induction bs as [|c bs IH]; intros h; [done|]. by rewrite free_all_cons, IH. Qed.

  Lemma cJSON_Delete_null h : cJSON_Delete None h = Ret (tt, h).
  Proof.
    unfold cJSON_Delete, heap_fuel, bindM. destruct (Pos.to_nat (h_next h)) eqn:E; [|done].
    pose proof (Pos2Nat.is_pos (h_next h)). lia.
  Qed.

  (** ONE STEP: the code returns what the model returns and re-establishes the representation *)
  Lemma step_sim h S o :
    Abs h S -> pre_ok S o ->
    exists h', run_op o h = Ret ((spec_step S o).2, h') /\ Abs h' (spec_step S o).1 /\
               Frame h h' (as_forest S) (as_forest (spec_step S o).1).
  Proof.
    intros (W & NL & Hnext & Hreq) Hpre. destruct S as [F nx rq]. cbn in W, NL, Hnext, Hreq.
    pose proof (wf_nodup _ _ W) as ND.
    assert (Hsame : forall r : res, exists h', ret r h = Ret (r, h') /\ Abs h' (mkAS F nx rq) /\ Frame h h' F F).
    { intros r. exists h. split; [done|]. split; [by unfold Abs|by apply Frame_refl]. }
    destruct o as [ty|a i|pa it|a w|a w n|pa it rp|a w n|it|a w|a|a i]; cbn [pre_ok as_forest] in Hpre;
      cbn [run_op spec_step as_forest as_next as_req].
    - (* create *)
      subst. destruct (oracle (h_req h)) eqn:Ho.
      + exists (bump h). rewrite (bindM_Ret _ _ _ _ _ (create_with_type_fail _ _ _ Ho)). cbn [fst snd].
        split; [done|]. unfold Abs. cbn [as_forest as_next as_req].
        split_and!; [by apply WF_bump|by apply NoLeak_bump|done|done|].
        apply Frame_grow; cbn; try done. by left.
      + exists (alloc_typed h ty). rewrite (bindM_Ret _ _ _ _ _ (create_with_type_ok _ _ _ Ho)). cbn [fst snd].
        split; [done|]. unfold Abs. cbn [as_forest as_next as_req].
        split_and!; [by apply WF_alloc_typed|by apply NoLeak_alloc_typed|done|done|].
        apply Frame_grow; cbn.
        * intros b Hb. unfold spec_create, owned. rewrite flat_app, owned_fl_app. apply elem_of_app. by left.
        * done.
        * intros b Hb. set_solver.
        * intros b Hb. by rewrite lookup_insert_ne.
        * lia.
        * intros e He. unfold spec_create in He. rewrite datas_app in He. apply elem_of_app in He as [He|He]; [by left|].
          right. cbn in He. apply elem_of_list_singleton in He as ->. done.
    - (* add *)
      destruct Hpre as [Href|(p & x & -> & -> & Hpx & tx & d & cs & Hx & Hp & Hr)].
      + destruct (add_item_to_array_refused F a i h Href) as [-> Hrun].
        unfold cJSON_AddItemToArray. rewrite (bindM_Ret _ _ _ _ _ Hrun). cbn [fst snd as_forest]; apply Hsame.
      + destruct (cJSON_AddItemToArray_sim h F p x tx d cs W Hpx Hx Hp Hr) as (-> & Hrun & W').
        eexists. rewrite (bindM_Ret _ _ _ _ _ Hrun). split; [done|].
        assert (HD : datas (set_children p (cs ++ [tx]) (remove_root x F)) ≡ₚ datas F).
        { eapply datas_move_root; eauto. by rewrite <- Permutation_cons_append. }
        split; [|by apply Frame_upd_maps]. split_and!; [done| |done|done].
        apply (NoLeak_upd_maps h F); [|done]. by rewrite !owned_datas, HD.
    - (* detach *)
      destruct Hpre as [Hnull|(p & x & d & cs & -> & -> & Hp & [(k & tx & Hk & Htx)|[Hr Hx]])].
      + destruct (cJSON_DetachItemViaPointer_null F pa it h Hnull) as [-> Hrun].
        rewrite (bindM_Ret _ _ _ _ _ Hrun). cbn [fst snd as_forest]; apply Hsame.
      + destruct (cJSON_DetachItemViaPointer_sim h F p x d cs k tx W Hp Hk Htx) as (-> & Hrun & W').
        eexists. rewrite (bindM_Ret _ _ _ _ _ Hrun). split; [done|].
        pose proof (datas_detach F p d cs k tx ND Hp Hk) as HD.
        split; [|by apply Frame_upd_maps]. split_and!; [done| |done|done].
        apply (NoLeak_upd_maps h F); [|done]. by rewrite !owned_datas, HD.
      + destruct (cJSON_DetachItemViaPointer_refused h F p x d cs W Hp Hr Hx) as [-> Hrun].
        rewrite (bindM_Ret _ _ _ _ _ Hrun). cbn [fst snd as_forest]; apply Hsame.
    - (* detach by index *)
      destruct Hpre as (p & d & cs & -> & Hp & Hr).
      destruct (decide (w < 0 \/ (length cs <= Z.to_nat w)%nat)) as [Hout|Hin].
      + destruct (cJSON_DetachItemFromArray_refused h F p d cs w W Hp Hr Hout) as [-> Hrun].
        rewrite (bindM_Ret _ _ _ _ _ Hrun). cbn [fst snd as_forest]; apply Hsame.
      + destruct (cs !! Z.to_nat w) as [tx|] eqn:Hk; [|apply lookup_ge_None in Hk; lia].
        destruct (cJSON_DetachItemFromArray_sim h F p d cs w tx W Hp Hr ltac:(lia) Hk) as (-> & Hrun & W').
        eexists. rewrite (bindM_Ret _ _ _ _ _ Hrun). split; [done|].
        pose proof (datas_detach F p d cs _ tx ND Hp Hk) as HD.
        split; [|by apply Frame_upd_maps]. split_and!; [done| |done|done].
        apply (NoLeak_upd_maps h F); [|done]. by rewrite !owned_datas, HD.
    - (* insert *)
      destruct Hpre as [Href|(p & x & -> & -> & Hw & Hpx & tx & d & cs & Hx & Hp & Hr)].
      + destruct (cJSON_InsertItemInArray_refused F a w n h Href) as [-> Hrun].
        rewrite (bindM_Ret _ _ _ _ _ Hrun). cbn [fst snd as_forest]; apply Hsame.
      + destruct (decide (Z.to_nat w < length cs)%nat) as [Hlt|Hge].
        * destruct (cJSON_InsertItemInArray_sim_before h F p x tx d cs w W Hpx Hx Hp Hr Hw Hlt) as (-> & Hrun & W').
          eexists. rewrite (bindM_Ret _ _ _ _ _ Hrun). split; [done|].
          assert (HD : datas (set_children p (insert_at (Z.to_nat w) tx cs) (remove_root x F)) ≡ₚ datas F).
          { eapply datas_move_root; eauto. apply insert_at_perm. }
          split; [|by apply Frame_upd_maps]. split_and!; [done| |done|done].
          apply (NoLeak_upd_maps h F); [|done]. by rewrite !owned_datas, HD.
        * destruct (cJSON_InsertItemInArray_sim_append h F p x tx d cs w W Hpx Hx Hp Hr Hw ltac:(lia)) as (-> & Hrun & W').
          eexists. rewrite (bindM_Ret _ _ _ _ _ Hrun). split; [done|].
          assert (HD : datas (set_children p (cs ++ [tx]) (remove_root x F)) ≡ₚ datas F).
          { eapply datas_move_root; eauto. by rewrite <- Permutation_cons_append. }
          split; [|by apply Frame_upd_maps]. split_and!; [done| |done|done].
          apply (NoLeak_upd_maps h F); [|done]. by rewrite !owned_datas, HD.
    - (* replace *)
      destruct Hpre as [->|[(p & d & cs & -> & Hp & Hr & Hcase)|(p & y & r & tr & ty & d & cs & k & -> & -> & -> & Hrt & Hp & Hk & Hy)]].
      + cbn [fst snd as_forest]; apply Hsame.
      + destruct (decide (cs = [] \/ it = None \/ rp = None)) as [Hrf|Hnrf].
        * destruct (cJSON_ReplaceItemViaPointer_refused h F p d cs it rp W Hp Hr Hrf) as [-> Hrun].
          rewrite (bindM_Ret _ _ _ _ _ Hrun). cbn [fst snd as_forest]; apply Hsame.
        * destruct Hcase as [?|[?|[?|(Hne & <- & Hit)]]]; try tauto. destruct it as [y|]; [|done].
          destruct (cJSON_ReplaceItemViaPointer_same h F p d cs y W Hp Hr Hne) as [-> Hrun].
          rewrite (bindM_Ret _ _ _ _ _ Hrun). cbn [fst snd as_forest]; apply Hsame.
      + destruct (cJSON_ReplaceItemViaPointer_sim h F p y r tr ty d cs k W Hrt Hp Hk Hy) as (-> & Hrun & W' & NL').
        eexists. rewrite (bindM_Ret _ _ _ _ _ Hrun). split; [done|].
        split; [split_and!; [done|by apply NL'|by rewrite free_all_next|by rewrite free_all_req]|].
        apply (Frame_free_all h F _ _ _ _ (datas [ty])); [done| |apply free_order_datas].
        rewrite <- datas_snoc_root. symmetry. by eapply datas_replace.
    - (* replace by index *)
      destruct Hpre as (p & r & tr & ty & d & cs & -> & -> & Hw & Hrt & Hp & Hk).
      destruct (cJSON_ReplaceItemInArray_sim h F p r tr ty d cs w W Hrt Hp Hw Hk) as (-> & Hrun & W' & NL').
      eexists. rewrite (bindM_Ret _ _ _ _ _ Hrun). split; [done|].
      split; [split_and!; [done|by apply NL'|by rewrite free_all_next|by rewrite free_all_req]|].
      apply (Frame_free_all h F _ _ _ _ (datas [ty])); [done| |apply free_order_datas].
      rewrite <- datas_snoc_root. symmetry. by eapply datas_replace.
    - (* delete *)
      destruct Hpre as [->|(x & tx & -> & Hx)].
      + rewrite (bindM_Ret _ _ _ _ _ (cJSON_Delete_null h)). cbn [fst snd as_forest]; apply Hsame.
      + destruct (cJSON_Delete_sim h F x tx W Hx) as (_ & Hrun & W' & NL').
        eexists. rewrite (bindM_Ret _ _ _ _ _ Hrun). split; [done|].
        split; [split_and!; [done|by apply NL'|by rewrite free_all_next|by rewrite free_all_req]|].
        rewrite <- (upd_maps_id h) at 2.
        apply (Frame_free_all h F _ _ _ _ (datas [tx])); [done| |apply free_order_datas].
        by apply datas_remove_root.
    - (* delete by index *)
      destruct Hpre as (p & d & cs & tx & -> & Hp & Hr & Hw & Hk).
      destruct (cJSON_DeleteItemFromArray_sim h F p d cs w tx W Hp Hr Hw Hk) as (-> & Hrun & W' & NL').
      eexists. rewrite (bindM_Ret _ _ _ _ _ Hrun). split; [done|].
      split; [split_and!; [done|by apply NL'|by rewrite free_all_next|by rewrite free_all_req]|].
      apply (Frame_free_all h F _ _ _ _ (datas [tx])); [done| |apply free_order_datas].
      rewrite <- datas_snoc_root. symmetry. by eapply datas_detach.
    - (* size *)
      destruct Hpre as [->|(p & d & cs & -> & Hp & Hr)].
      + cbn [fst snd as_forest]; apply Hsame.
      + rewrite (bindM_Ret _ _ _ _ _ (cJSON_GetArraySize_sim h F p d cs W Hp Hr)). cbn [fst snd as_forest]; apply Hsame.
    - (* get *)
      destruct Hpre as [->|(p & d & cs & -> & Hp & Hr)].
      + assert (cJSON_GetArrayItem None i h = Ret (spec_get_array_item F None i, h)) as Hrun.
        { unfold cJSON_GetArrayItem, spec_get_array_item. cbn. by destruct (i <? 0). }
        rewrite (bindM_Ret _ _ _ _ _ Hrun). cbn [fst snd as_forest]; apply Hsame.
      + rewrite (bindM_Ret _ _ _ _ _ (cJSON_GetArrayItem_sim h F p d cs i W Hp Hr)). cbn [fst snd as_forest]; apply Hsame.
  Qed.

  (** histories *)
  Fixpoint run_ops (ops : list op) : M (list res) :=
    match ops with
    | [] => ret []
    | o :: r => x <~ run_op o ;; xs <~ run_ops r ;; ret (x :: xs)
    end.
  Definition spec_run (S : astate) (ops : list op) : astate := fold_left (fun S o => (spec_step S o).1) ops S.
  Fixpoint spec_results (S : astate) (ops : list op) : list res :=
    match ops with [] => [] | o :: r => (spec_step S o).2 :: spec_results (spec_step S o).1 r end.
  Fixpoint pre_ok_all (S : astate) (ops : list op) : Prop :=
    match ops with [] => True | o :: r => pre_ok S o /\ pre_ok_all (spec_step S o).1 r end.

  Theorem history_sim ops : forall h S,
    Abs h S -> pre_ok_all S ops ->
    exists h', run_ops ops h = Ret (spec_results S ops, h') /\ Abs h' (spec_run S ops).
  Proof.
    induction ops as [|o r IH]; intros h S HA Hpre.
    - exists h. by split.
    - destruct Hpre as [Hp Hr]. destruct (step_sim h S o HA Hp) as (h1 & Hrun & HA1 & _).
      destruct (IH h1 _ HA1 Hr) as (h2 & Hrun2 & HA2). exists h2. split; [|exact HA2].
      cbn [run_ops spec_results]. rewrite (bindM_Ret _ _ _ _ _ Hrun). by rewrite (bindM_Ret _ _ _ _ _ Hrun2).
  Qed.

  (** from the empty heap *)
  Lemma Abs_empty : Abs empty_heap (mkAS [] 1%positive 0%nat).
  Proof.
    split_and!; [|intros b Hb; by apply elem_of_filter in Hb as [_ ?%elem_of_empty]|done|done].
    constructor; cbn; try done; try apply NoDup_nil_2; intros b Hb; by apply elem_of_nil in Hb.
  Qed.

  Corollary history_from_empty ops :
    pre_ok_all (mkAS [] 1%positive 0%nat) ops ->
    exists h', run_ops ops empty_heap = Ret (spec_results (mkAS [] 1%positive 0%nat) ops, h') /\
               Abs h' (spec_run (mkAS [] 1%positive 0%nat) ops).
  Proof. apply history_sim, Abs_empty. Qed.
End History.

(** * the ownership rules as a BOOLEAN on the abstract state (for generators and non-vacuity) *)
Definition movableb (F : forest) (p x : positive) : bool :=
  negb (bool_decide (p = x)) &&
  match find_root x F with
  | Some _ => match find_tree p (remove_root x F) with Some n => negb (is_ref (tdata n)) | None => false end
  | None => false
  end.
Definition plainb (F : forest) (a : ptr) : bool :=
  match a with
  | None => true
  | Some p => match find_tree p F with Some n => negb (is_ref (tdata n)) | None => false end
  end.
Definition is_none {A} (o : option A) : bool := match o with None => true | Some _ => false end.
Definition is_nil {A} (l : list A) : bool := match l with [] => true | _ => false end.

Definition replace_acceptedb (F : forest) (p : positive) (it rp : ptr) : bool :=
  match it, rp with
  | Some y, Some r =>
      match find_root r F with
      | Some _ => match find_tree p (remove_root r F) with
                  | Some n => bool_decide (y ∈ cids n)
                  | None => false end
      | None => false
      end
  | _, _ => false
  end.

Definition pre_okb (S : astate) (o : op) : bool :=
  let F := as_forest S in
  match o with
  | OCreate _ => true
  | OAdd a i =>
      match a, i with
      | Some p, Some x => bool_decide (p = x) || movableb F p x
      | _, _ => true
      end
  | ODetach pa it =>
      match pa, it with
      | Some p, Some x =>
          match find_tree p F with
          | Some n => bool_decide (x ∈ cids n) || (negb (is_ref (tdata n)) && bool_decide (x ∈ roots F))
          | None => false
          end
      | _, _ => true
      end
  | ODetachIdx a w => match a with Some _ => plainb F a | None => false end
  | OInsert a w n =>
      (w <? 0) ||
      match n with
      | None => true
      | Some x => bool_decide (a = Some x) || match a with Some p => movableb F p x | None => false end
      end
  | OReplace pa it rp =>
      match pa with
      | None => true
      | Some p =>
          match find_tree p F with
          | Some n => negb (is_ref (tdata n)) &&
                      (is_nil (tchildren n) || is_none it || is_none rp || bool_decide (it = rp))
          | None => false
          end || replace_acceptedb F p it rp
      end
  | OReplaceIdx a w n =>
      (0 <=? w) &&
      match a, n with
      | Some p, Some r =>
          match find_root r F with
          | Some _ => match find_tree p (remove_root r F) with
                      | Some n => bool_decide (Z.to_nat w < length (tchildren n))%nat
                      | None => false end
          | None => false
          end
      | _, _ => false
      end
  | ODelete it => match it with None => true | Some x => bool_decide (x ∈ roots F) end
  | ODeleteIdx a w =>
      (0 <=? w) &&
      match a with
      | Some p => match find_tree p F with
                  | Some n => negb (is_ref (tdata n)) && bool_decide (Z.to_nat w < length (tchildren n))%nat
                  | None => false end
      | None => false
      end
  | OSize a => plainb F a
  | OGet a i => plainb F a
  end.

Lemma find_tree_shape p F n : find_tree p F = Some n -> n = T p (tdata n) (tchildren n).
Proof. intros H. apply find_tree_Some in H as [_ <-]. by destruct n. Qed.

Lemma find_root_is_Some x F : x ∈ roots F -> is_Some (find_root x F).
Proof.
  intros H. apply elem_of_list_fmap in H as (t & -> & Ht).
  destruct (find_root (tid t) F) eqn:E; [eauto|]. exfalso.
  unfold find_root in E. apply elem_of_list_In in Ht.
  pose proof (find_none _ _ E _ Ht) as H. cbn in H. by apply bool_decide_eq_false in H.
Qed.

Lemma movableb_sound F p x : movableb F p x = true -> movable_into F p x.
Proof.
  unfold movableb. intros H. apply andb_true_iff in H as [H1 H2].
  apply negb_true_iff, bool_decide_eq_false in H1. split; [done|].
  destruct (find_root x F) as [tx|] eqn:Hx; [|done].
  destruct (find_tree p (remove_root x F)) as [n|] eqn:Hp; [|done].
  apply negb_true_iff in H2. exists tx, (tdata n), (tchildren n). split_and!; [done| |done].
  by rewrite <- (find_tree_shape _ _ _ Hp).
Qed.
Lemma plainb_sound F a : plainb F a = true -> plain_container F a.
Proof.
  unfold plainb, plain_container. destruct a as [p|]; [|by left]. intros H. right.
  destruct (find_tree p F) as [n|] eqn:Hp; [|done]. apply negb_true_iff in H.
  exists p, (tdata n), (tchildren n). split_and!; [done| |done]. by rewrite <- (find_tree_shape _ _ _ Hp).
Qed.

Lemma pre_okb_sound S o : pre_okb S o = true -> pre_ok S o.
Proof.
  destruct S as [F nx rq]. destruct o as [ty|a i|pa it|a w|a w n|pa it rp|a w n|it|a w|a|a i];
    cbn [pre_okb pre_ok as_forest]; intros H.
  - done.
  - destruct a as [p|], i as [x|]; try (left; auto; fail).
    apply orb_true_iff in H as [H|H].
    + apply bool_decide_eq_true in H. subst. left. auto.
    + right. exists p, x. split_and!; [done..|by apply movableb_sound].
  - destruct pa as [p|], it as [x|]; try (left; auto; fail). right.
    destruct (find_tree p F) as [n|] eqn:Hp; [|done].
    exists p, x, (tdata n), (tchildren n). split_and!; [done|done|by rewrite <- (find_tree_shape _ _ _ Hp)|].
    apply orb_true_iff in H as [H|H].
    + left. apply bool_decide_eq_true in H. unfold cids in H. apply elem_of_list_fmap in H as (tx & -> & Htx).
      apply elem_of_list_lookup in Htx as [k Hk]. eauto.
    + right. apply andb_true_iff in H as [H1 H2]. apply negb_true_iff in H1. by apply bool_decide_eq_true in H2.
  - destruct a as [p|]; [|done]. apply plainb_sound in H as [?|(p' & d & cs & Heq & Hp & Hr)]; [done|].
    injection Heq as <-. by exists p, d, cs.
  - apply orb_true_iff in H as [H|H]; [left; left; by apply Z.ltb_lt|].
    destruct n as [x|]; [|left; auto]. apply orb_true_iff in H as [H|H].
    + apply bool_decide_eq_true in H. left. auto.
    + destruct a as [p|]; [|done]. destruct (Z.ltb_spec w 0); [left; auto|].
      right. exists p, x. split_and!; [done..|by apply movableb_sound].
  - destruct pa as [p|]; [|by left]. right. apply orb_true_iff in H as [H|H].
    + left. destruct (find_tree p F) as [n|] eqn:Hp; [|done]. apply andb_true_iff in H as [H1 H2].
      apply negb_true_iff in H1. exists p, (tdata n), (tchildren n).
      split_and!; [done|by rewrite <- (find_tree_shape _ _ _ Hp)|done|].
      destruct (tchildren n) as [|c cs'] eqn:Ecs; [by left|]. right.
      destruct it as [y|]; [|by left]. right. destruct rp as [r|]; [|by left]. right.
      cbn in H2. apply bool_decide_eq_true in H2. done.
    + right. unfold replace_acceptedb in H. destruct it as [y|], rp as [r|]; try done.
      destruct (find_root r F) as [tr|] eqn:Hr; [|done].
      destruct (find_tree p (remove_root r F)) as [n|] eqn:Hp; [|done].
      apply bool_decide_eq_true in H. unfold cids in H. apply elem_of_list_fmap in H as (ty & -> & Hty).
      apply elem_of_list_lookup in Hty as [k Hk].
      exists p, (tid ty), r, tr, ty, (tdata n), (tchildren n), k.
      split_and!; try done. by rewrite <- (find_tree_shape _ _ _ Hp).
  - apply andb_true_iff in H as [Hw H]. apply Z.leb_le in Hw.
    destruct a as [p|], n as [r|]; try done.
    destruct (find_root r F) as [tr|] eqn:Hr; [|done].
    destruct (find_tree p (remove_root r F)) as [nd|] eqn:Hp; [|done].
    apply bool_decide_eq_true in H. apply lookup_lt_is_Some_2 in H as [ty Hty].
    exists p, r, tr, ty, (tdata nd), (tchildren nd). split_and!; try done. by rewrite <- (find_tree_shape _ _ _ Hp).
  - destruct it as [x|]; [|by left]. right. apply bool_decide_eq_true in H.
    destruct (find_root_is_Some _ _ H) as [tx Htx]. eauto.
  - apply andb_true_iff in H as [Hw H]. apply Z.leb_le in Hw. destruct a as [p|]; [|done].
    destruct (find_tree p F) as [n|] eqn:Hp; [|done]. apply andb_true_iff in H as [H1 H2].
    apply negb_true_iff in H1. apply bool_decide_eq_true in H2. apply lookup_lt_is_Some_2 in H2 as [tx Htx].
    exists p, (tdata n), (tchildren n), tx. split_and!; try done. by rewrite <- (find_tree_shape _ _ _ Hp).
  - by apply plainb_sound.
  - by apply plainb_sound.
Qed.

Section B.
  Variable oracle : nat -> bool.
  Fixpoint pre_ok_allb (S : astate) (ops : list op) : bool :=
    match ops with [] => true | o :: r => pre_okb S o && pre_ok_allb (spec_step oracle S o).1 r end.
  Lemma pre_ok_allb_sound ops : forall S, pre_ok_allb S ops = true -> pre_ok_all oracle S ops.
  Proof.
    induction ops as [|o r IH]; intros S H; [done|]. cbn in H. apply andb_true_iff in H as [H1 H2].
    split; [by apply pre_okb_sound|by apply IH].
  Qed.
End B.

(** * non-vacuity: a concrete history that obeys the rules *)
Definition example_ops : list op :=
  [OCreate 32; OCreate 2; OCreate 4; OAdd (Some 1) (Some 2); OAdd (Some 1) (Some 3); OSize (Some 1);
   OGet (Some 1) 1; ODetachIdx (Some 1) 0; OInsert (Some 1) 0 (Some 2); OCreate 1;
   OReplace (Some 1) (Some 3) (Some 4); OSize (Some 1); OGet (Some 1) 1; ODeleteIdx (Some 1) 0;
   ODetach (Some 1) (Some 4); OAdd (Some 1) (Some 4); ODelete (Some 1)]%positive.

Lemma example_ops_ok : pre_ok_all (fun _ => false) (mkAS [] 1%positive 0%nat) example_ops.
Proof. apply pre_ok_allb_sound. vm_compute. reflexivity. Qed.

Lemma example_results :
  spec_results (fun _ => false) (mkAS [] 1%positive 0%nat) example_ops =
  [RPtr (Some 1); RPtr (Some 2); RPtr (Some 3); RBool true; RBool true; RInt 2; RPtr (Some 3);
   RPtr (Some 2); RBool true; RPtr (Some 4); RBool true; RInt 2; RPtr (Some 4); RUnit;
   RPtr (Some 4); RBool true; RUnit]%positive.
Proof. vm_compute. reflexivity. Qed.

Corollary example_history :
  exists h', run_ops (fun _ => false) example_ops empty_heap =
               Ret (spec_results (fun _ => false) (mkAS [] 1%positive 0%nat) example_ops, h') /\
             Abs h' (spec_run (fun _ => false) (mkAS [] 1%positive 0%nat) example_ops).
Proof. apply history_from_empty, example_ops_ok. Qed.
