"""C08 — Any single allocation failure makes the call fail cleanly.

Composed from three areas: the parser (base), the printers (print) and the tree API (core, tools/props/C08core.py).
Every scenario is run with the k-th allocation request OF THE SCENARIO CALL failing, for k = 1 .. (requests of the
failure-free call) + 1, under custom hooks (tracking allocator) and — for the printers — also under the default
allocator with realloc (link-time interposition)."""
import random
from .common import *
from . import parsegen as G
from . import printgen as P
from . import C08core

AREAS = ['base', 'print', 'core']
IMPL_FLAGS = {'base': '', 'print': P.IMPL_FLAGS, 'core': ''}
MODEL_FILES = ('ParseDefs.v (parser with allocation oracle and ledger), PrintDefs.v (buffer-level printers with allocation oracle and ledger), '
               'CoreDefs.v / CoreOps.v on Heap.v (tree API with allocation oracle), CoreRefine*.v')
RULE = ('scenario x k: parse (length and string entry points, with and without return_parse_end) of texts with every token kind; cJSON_Print / PrintUnformatted / '
        'PrintBuffered(prebuffer 0, 3, 200, 300) under custom hooks and under the default allocator with realloc, on trees whose text needs 0..5 growth steps; '
        '52 tree-API calls (create*, add helpers, add reference, duplicate, replace by key, set valuestring, bulk array constructors) after a fixed setup history '
        'with owned keys, constant keys and references; k from 1 to the number of requests of the failure-free call + 1; verdict: NULL/false => ledger as before the '
        'call and every pre-existing tree dumps identically; otherwise the normal result; follow-up edit + delete-all balances; non-trivial = a case whose k-th request exists')
ASSUMPTIONS = ['C locale', 'hand-written transliterations validated by this differential run',
               'the failure-free request count of a scenario is taken from the implementation-independent oracle (list model / python renderer) and cross-checked: k = requests + 1 must complete normally']
TRUSTED_EXTRA = ['link-time interposition (--wrap=malloc,realloc,free) for the default-allocator configuration']

PARSE_TEXTS = [b'null', b'[]', b'{}', b'"str"', b'[1,2,3]', b'{"a":1,"b":[true,false,null],"c":{"d":"e"}}', b'[[[[1]]]]', b'{"k":"\\u00e9\\ud83d\\ude00\\n"}',
               b' [ "a" , { "b" : [ ] } ] ', b'\xef\xbb\xbf{"bom":1.5e3}', b'["a","b","c","d"]', b'{"a":{"b":{"c":{}}}}', b'[1', b'{"a":1,', b'["x",', b'{"a"', b'[1,2,}']


def _parse_requests(text):
    """upper bound on the allocation requests of a parse: one per value node + one per string/key (the check runs k up to this + 1)"""
    return 2 + sum(text.count(c) for c in b'[{,:"') + 2

def corpus(ctx):
    out = []
    for c in G.parse_corpus(ctx, 'C08'):
        c.info.setdefault('area', 'core' if c.line.startswith('hist') else 'print' if c.line.startswith('print') else 'base'); out.append(c)
    return out

def generate(ctx):
    rng = random.Random(ctx['seed'] * 7919 + 8)
    quick = ctx['tier'] == 'quick'
    cases = []
    # ---- parser
    texts = list(PARSE_TEXTS)
    for _ in range(6 if quick else 120):
        v = G.rand_rfc_value(rng, rng.choice([1, 2, 3])); texts.append(G.weave_rfc(G.rfc_tokens(v, rng), rng))
    for t in texts:
        for e in (('L', 'P') if quick else ('L', 'l', 'W', 'O', 'P')):
            for k in range(1, min(_parse_requests(t), 40) + 1):
                if e in 'LlW': c = G.pcase(e, 0, len(t), t, {'tags': ['parse-failure', 'k'], 'area': 'base', 'k': k}, failk=k)
                else: c = G.pcase(e, 0, 0, t + b'\0', {'tags': ['parse-failure', 'k'], 'area': 'base', 'k': k}, failk=k)
                cases.append(c)
    # ---- printers
    trees = [P.PN(T_ARRAY, ch=[P.PN(T_STRING, vs=b'a"\x01\n\xff'), P.PN(T_NUMBER, vi=1, vd=1.5), P.PN(T_OBJECT, ch=[P.PN(T_ARRAY, key=b'k'), P.PN(T_OBJECT, key=b'')])]),
             P.PN(T_OBJECT, ch=[P.PN(T_STRING, vs=b'x' * 250, key=b'long'), P.PN(T_NUMBER, vi=0, vd=1e-5, key=b'n')]),
             P.PN(T_STRING, vs=bytes(range(1, 0x100))), P.PN(T_NULL), P.PN(T_ARRAY), P.PN(T_ARRAY, ch=[P.PN(T_STRING, vs=b'y' * 254)]),
             P.PN(T_ARRAY, ch=[P.PN(T_STRING, vs=b'z' * 700), P.PN(T_STRING, vs=b'w' * 1500)]),
             P.PN(T_ARRAY, ch=[P.PN(T_NUMBER, vi=-1234567, vd=-1234567.8901234567)] * 40)]
    if not quick: trees += [P.rand_tree(rng, depth=3) for _ in range(40)]
    for t in trees:
        line = P.pline(t)
        for al in ('hooks', 'realloc'):
            for e, fmt, pre in (('P', 1, 0), ('U', 0, 0), ('B', 1, 0), ('B', 0, 3), ('B', 1, 200), ('B', 0, 300)):
                for k in range(1, 9 if quick else 13):
                    cases.append(Case('print %s %d %d %s %d %s' % (e, fmt, pre, al, k, line),
                                      {'tags': ['print-failure', al, 'entry:' + e], 'area': 'print', 'tree': t, 'fmt': fmt, 'failk': k}))
    # ---- tree API
    for c in C08core.generate_core(ctx):
        c.info['area'] = 'core'; cases.append(c)
    return cases

def project(c, out):
    a = c.info.get('area', 'base')
    if a == 'core': return C08core.project_core(c, out)
    if a == 'print': return ' '.join(t for t in out.split(' ') if t != 'SPECDIFF')
    return G.project_fields(out, ['live'])

def verdict(c, out, ctx):
    a = c.info.get('area', 'base')
    if is_crash(out): return 'crash / memory error while an allocation request fails: ' + out
    if a == 'core': return C08core.verdict_core(c, out, ctx)
    if a == 'print':
        for t in out.split(' '):
            if t.startswith('LEAK') or t.startswith('DOUBLEFREE') or t.startswith('FOREIGNFREE'): return 'allocator misuse / leak on a failing print: ' + t
        tree = c.info.get('tree')
        if tree is None: return None
        o = out.split(' '); got = None if o[0] == 'NULL' else unhx(o[0]); exp = P.py_render(tree, bool(c.info.get('fmt')))
        if got is None: return None if 'live=0' in o else 'failed print left blocks allocated (%s)' % out[-40:]
        if got != exp: return 'print with a failing allocation returned a wrong text'
        return None if 'live=1' in o else 'successful print owns %s' % [t for t in o if t.startswith('live=')]
    # parser
    tree, kv = G.fields(out)
    if 'DOUBLEFREE' in kv or 'FOREIGNFREE' in kv: return 'allocator misuse during a failing parse'
    if tree == 'NULL':
        if kv.get('live') != '0': return 'failed parse leaves %s block(s) allocated' % kv.get('live')
    else:
        if 'LINKS=BAD' in out or 'ROOTLINKS' in out: return 'tree returned under allocation failure cannot be walked'
        if kv.get('live2') != '0': return 'deleting the returned tree leaves %s block(s)' % kv.get('live2')
    return None

def nontrivial(c, out):
    a = c.info.get('area', 'base')
    if a == 'core': return C08core.nontrivial_core(c, out) if hasattr(C08core, 'nontrivial_core') else not is_crash(out)
    if is_crash(out): return False
    # the k-th request exists: the call reported failure
    return out.startswith('NULL')
