(** CoreRefineDupValue.v — the copy made by [cJSON_Duplicate] at the value level (Tree.node):
    reifying the copy gives the reified source with the [cJSON_IsReference] bits cleared
    ([copy_reify]); hence [cJSON_Compare] of source and copy is true (NaN-free JSON values,
    [dup_compare_equal]) and both print to the same text ([render_clear_refs]). *)
From CJ Require Import Base Dbl Heap Forest ForestLemmas CoreRefineDupBase CoreRefineDupTree.
From CJ Require Tree CompareDefs CompareProofs PrintDefs.
From CJ.gen Require Import Constants.
From stdpp Require Import gmap.
From Coq Require Import Lia.

(** the C string held in a block *)
Definition cstr_of (S : gmap positive bytes) (p : ptr) : option bytes :=
  match p with None => None | Some b => cstr <$> (S !! b) end.

(** a forest tree as a value: the fields of every node, strings read from the string blocks [S] *)
Fixpoint reify (S : gmap positive bytes) (t : tree) : Tree.node :=
  match t with
  | T _ d cs =>
      Tree.Node (rd_type d) (cstr_of S (rd_vstr d)) (rd_vint d) (rd_vdbl d) (cstr_of S (rd_key d)) (map (reify S) cs)
  end.

Fixpoint clear_refs (n : Tree.node) : Tree.node :=
  match n with
  | Tree.Node ty vs vi vd k ch =>
      Tree.Node (Z.land ty (Z.lnot c_cJSON_IsReference)) vs vi vd k (map clear_refs ch)
  end.

Lemma cstr_cstr_app (s r : bytes) : cstr (cstr s ++ 0%Z :: r) = cstr s.
Proof.
  induction s as [|c s IH]; [reflexivity|]. cbn [cstr]. destruct (c =? 0)%Z eqn:E; [reflexivity|].
  cbn [app cstr]. rewrite E. by rewrite IH.
Qed.

Lemma str_copy_str_of h b b' : str_copy h b b' -> cstr_of (h_str h) (Some b') = cstr_of (h_str h) (Some b).
Proof. intros (s & [_ H1] & [_ H2]). cbn. rewrite H1, H2. cbn. by rewrite cstr_cstr_app. Qed.

Lemma copy_reify h t : forall tc, copy_of h t tc -> reify (h_str h) tc = clear_refs (reify (h_str h) t).
Proof.
  induction t as [i d cs IH] using tree_ind'. intros [i' d' cs']. rewrite copy_of_unfold.
  intros [(H1 & H2 & H3 & H4 & H5 & H6) Hl]. cbn [reify clear_refs]. f_equal.
  - exact H1.
  - destruct (rd_vstr d) as [b|]; [|by rewrite H5]. destruct H5 as (b' & -> & Hc). by apply str_copy_str_of.
  - done.
  - done.
  - destruct (rd_key d) as [b|]; [|by rewrite H6]. destruct (is_const d); [by rewrite H6|].
    destruct H6 as (b' & -> & Hc). by apply str_copy_str_of.
  - revert cs' Hl. induction cs as [|a r IHr]; intros [|a' r'] Hl; try done.
    rewrite copy_list_cons in Hl. destruct Hl as [Ha Hr]. apply Forall_cons in IH as [IHa IH].
    cbn [map]. f_equal; [by apply IHa|by apply IHr].
Qed.

(** ** comparison *)
Lemma tymask_clear t : Tree.tymask (Z.land t (Z.lnot c_cJSON_IsReference)) = Tree.tymask t.
Proof.
  unfold Tree.tymask. rewrite <- Z.land_assoc.
  by replace (Z.land (Z.lnot c_cJSON_IsReference) 255) with 255%Z by reflexivity.
Qed.

Lemma strip_clear_refs n : CompareDefs.strip_flags (clear_refs n) = CompareDefs.strip_flags n.
Proof.
  induction n as [t s i d k cs IH] using Tree.node_ind'. cbn [clear_refs CompareDefs.strip_flags].
  rewrite tymask_clear. f_equal. rewrite map_map. apply map_ext_in. intros a Ha.
  rewrite List.Forall_forall in IH. by apply IH.
Qed.

Theorem dup_compare_equal cs a :
  CompareDefs.cmp_wf cs a -> CompareDefs.json_shape a -> CompareDefs.no_nan a ->
  CompareDefs.cJSON_Compare (Some a) (Some (clear_refs a)) false cs = Some true /\
  CompareDefs.cJSON_Compare (Some (clear_refs a)) (Some a) false cs = Some true.
Proof.
  intros W J N. pose proof (proj2 (CompareProofs.compare_reflexive cs a) W J N) as H.
  rewrite CompareProofs.compare_flags in H. split.
  - by rewrite CompareProofs.compare_flags, strip_clear_refs.
  - by rewrite CompareProofs.compare_flags, strip_clear_refs.
Qed.

(** ** printing *)
Section Render.
  Variable fmt_d : Z -> bytes.
  Variable fmt_g15 : dbl -> bytes.
  Variable fmt_g17 : dbl -> bytes.
  Variable sscanf_lg : bytes -> option dbl.
  Notation render := (PrintDefs.render fmt_d fmt_g15 fmt_g17 sscanf_lg).

  Lemma key_clear_refs n : Tree.n_key (clear_refs n) = Tree.n_key n.
  Proof. by destruct n. Qed.

  Lemma render_clear_refs fmt n : forall depth, render fmt depth (clear_refs n) = render fmt depth n.
  Proof.
    induction n as [t s i d k cs IH] using Tree.node_ind'. intros depth.
    assert (Hmap : forall dp, map (render fmt dp) (map clear_refs cs) = map (render fmt dp) cs).
    { intros dp. rewrite map_map. apply map_ext_in. intros a Ha. rewrite List.Forall_forall in IH. by apply IH. }
    assert (Hkeys : map Tree.n_key (map clear_refs cs) = map Tree.n_key cs).
    { rewrite map_map. apply map_ext. intros a. apply key_clear_refs. }
    cbn [clear_refs PrintDefs.render]. rewrite tymask_clear, Hmap, Hkeys. reflexivity.
  Qed.
End Render.
