(** CoreRefineByKey.v — the by-key wrappers: [cJSON_GetObjectItem], [cJSON_GetObjectItemCaseSensitive],
    [cJSON_HasObjectItem], [cJSON_DetachItemFromObject[CaseSensitive]],
    [cJSON_DeleteItemFromObject[CaseSensitive]] on a well-formed heap with readable keys:
    lookup by [CoreRefineObject.get_object_item_sim], then the by-pointer simulation lemmas. *)
From CJ Require Import Base Dbl Heap Forest ForestLemmas CoreSpec CoreDefs CoreRefineBase CoreRefine
  CoreRefineDelete CoreRefineReplace CoreRefineMore CoreRefineFrame CoreRefineHistory CoreRefineObject.
From stdpp Require Import gmap.
Implicit Types (h : heap) (F : forest) (p x y r : positive) (d : rdata).
Local Open Scope Z_scope.

(** * by-key wrappers *)
Lemma find_key_cs_child strs name cs x :
  find_key_cs strs name cs = Some x -> exists k tx, cs !! k = Some tx /\ tid tx = x.
Proof.
  induction cs as [|c cs IH]; [done|]. cbn. destruct (key_string strs c) as [kk|]; [|done].
  destruct (bool_decide (name = kk)).
  - intros [= <-]. by exists 0%nat, c.
  - intros H. destruct (IH H) as (k & tx & Hk & Ht). by exists (S k), tx.
Qed.
Lemma find_key_ci_child strs name cs x :
  find_key_ci strs name cs = Some x -> exists k tx, cs !! k = Some tx /\ tid tx = x.
Proof.
  induction cs as [|c cs IH]; [done|]. cbn.
  assert (Hrec : find_key_ci strs name cs = Some x -> exists k tx, (c :: cs) !! k = Some tx /\ tid tx = x).
  { intros H. destruct (IH H) as (k & tx & Hk & Ht). by exists (S k), tx. }
  destruct (key_string strs c) as [kk|]; [|done].
  destruct (bool_decide (tolower <$> name = tolower <$> kk)); [|done].
  intros [= <-]. by exists 0%nat, c.
Qed.

Section ByKey.
  Context (h : heap) (F : forest) (p : positive) (d : rdata) (cs : list tree) (nb : positive) (sn : bytes).
  Hypothesis W : WF h F.
  Hypothesis KR : KeysReadable h F.
  Hypothesis Hp : find_tree p F = Some (T p d cs).
  Hypothesis Href : is_ref d = false.
  Hypothesis Hnl : nb ∈ h_live h.
  Hypothesis Hns : h_str h !! nb = Some sn.
  Hypothesis Hnz : existsb (Z.eqb 0) sn = true.

  Let GOI := get_object_item_sim h F p d cs nb sn W KR Hp Hnl Hns Hnz.

  Lemma cJSON_GetObjectItem_sim :
    cJSON_GetObjectItem (Some p) (Some nb) h = Ret (spec_get_key (h_str h) F (Some p) (Some nb) false, h).
  Proof. by apply GOI. Qed.
  Lemma cJSON_GetObjectItemCaseSensitive_sim :
    cJSON_GetObjectItemCaseSensitive (Some p) (Some nb) h = Ret (spec_get_key (h_str h) F (Some p) (Some nb) true, h).
  Proof. by apply GOI. Qed.
  Lemma cJSON_HasObjectItem_sim :
    cJSON_HasObjectItem (Some p) (Some nb) h =
    Ret (negb (is_null (spec_get_key (h_str h) F (Some p) (Some nb) false)), h).
  Proof. unfold cJSON_HasObjectItem. by rewrite (bindM_Ret _ _ _ _ _ cJSON_GetObjectItem_sim). Qed.

  Lemma spec_get_key_child case_sensitive x :
    spec_get_key (h_str h) F (Some p) (Some nb) case_sensitive = Some x ->
    exists k tx, cs !! k = Some tx /\ tid tx = x.
  Proof.
    unfold spec_get_key, children_of. rewrite Hp, Hns. cbn.
    destruct case_sensitive; [apply find_key_cs_child|apply find_key_ci_child].
  Qed.

  (** detach by key: found ⇒ as detach via pointer; not found ⇒ refused, unchanged *)
  Lemma detach_by_key_sim (case_sensitive : bool) :
    let '(F', r) := spec_detach_key (h_str h) F (Some p) (Some nb) case_sensitive in
    exists h',
      (to_detach <~ get_object_item (Some p) (Some nb) case_sensitive ;;
       cJSON_DetachItemViaPointer (Some p) to_detach) h = Ret (r, h') /\ WF h' F' /\
      (NoLeak h F -> NoLeak h' F') /\ Frame h h' F F' /\ h_next h' = h_next h /\ h_req h' = h_req h.
  Proof.
    unfold spec_detach_key.
    destruct (spec_get_key (h_str h) F (Some p) (Some nb) case_sensitive) as [x|] eqn:Hg.
    - destruct (spec_get_key_child _ _ Hg) as (k & tx & Hk & Htx).
      destruct (cJSON_DetachItemViaPointer_sim h F p x d cs k tx W Hp Hk Htx) as (-> & Hrun & W').
      eexists. rewrite (bindM_Ret _ _ _ _ _ (GOI case_sensitive Href)). rewrite Hg.
      pose proof (datas_detach F p d cs k tx (wf_nodup _ _ W) Hp Hk) as HD.
      split; [exact Hrun|]. split; [exact W'|]. split; [|split; [by apply Frame_upd_maps|done]].
      intros NL. apply (NoLeak_upd_maps h F); [|done]. by rewrite !owned_datas, HD.
    - destruct (cJSON_DetachItemViaPointer_null F (Some p) None h (or_intror eq_refl)) as [-> Hrun].
      exists h. rewrite (bindM_Ret _ _ _ _ _ (GOI case_sensitive Href)). rewrite Hg.
      split; [done|]. split; [done|]. split; [done|]. split; [by apply Frame_refl|done].
  Qed.

  Lemma cJSON_DetachItemFromObject_sim :
    let '(F', r) := spec_detach_key (h_str h) F (Some p) (Some nb) false in
    exists h', cJSON_DetachItemFromObject (Some p) (Some nb) h = Ret (r, h') /\ WF h' F' /\
      (NoLeak h F -> NoLeak h' F') /\ Frame h h' F F' /\ h_next h' = h_next h /\ h_req h' = h_req h.
  Proof. exact (detach_by_key_sim false). Qed.
  Lemma cJSON_DetachItemFromObjectCaseSensitive_sim :
    let '(F', r) := spec_detach_key (h_str h) F (Some p) (Some nb) true in
    exists h', cJSON_DetachItemFromObjectCaseSensitive (Some p) (Some nb) h = Ret (r, h') /\ WF h' F' /\
      (NoLeak h F -> NoLeak h' F') /\ Frame h h' F F' /\ h_next h' = h_next h /\ h_req h' = h_req h.
  Proof. exact (detach_by_key_sim true). Qed.

  (** delete by key *)
  Lemma delete_by_key_sim (case_sensitive : bool) :
    exists h',
      (it <~ (to_detach <~ get_object_item (Some p) (Some nb) case_sensitive ;;
              cJSON_DetachItemViaPointer (Some p) to_detach) ;; cJSON_Delete it) h = Ret (tt, h') /\
      WF h' (spec_delete_key (h_str h) F (Some p) (Some nb) case_sensitive) /\
      (NoLeak h F -> NoLeak h' (spec_delete_key (h_str h) F (Some p) (Some nb) case_sensitive)) /\
      Frame h h' F (spec_delete_key (h_str h) F (Some p) (Some nb) case_sensitive) /\
      h_next h' = h_next h /\ h_req h' = h_req h.
  Proof.
    unfold spec_delete_key, spec_detach_key. rewrite !bindM_assoc.
    rewrite (bindM_Ret _ _ _ _ _ (GOI case_sensitive Href)).
    destruct (spec_get_key (h_str h) F (Some p) (Some nb) case_sensitive) as [x|] eqn:Hg.
    - destruct (spec_get_key_child _ _ Hg) as (k & tx & Hk & Htx).
      destruct (cJSON_DetachItemViaPointer_sim h F p x d cs k tx W Hp Hk Htx) as (-> & Hrun & W1).
      rewrite (bindM_Ret _ _ _ _ _ Hrun). cbn [spec_delete]. subst x.
      set (G := set_children p (delete k cs) F) in *.
      assert (Hynot : tid tx ∉ roots G).
      { pose proof (wf_nodup _ _ W1) as ND1. apply NoDup_roots in ND1.
        rewrite roots_app in ND1. apply NoDup_app in ND1 as (_ & H & _). intros Hin. apply (H _ Hin). cbn. by left. }
      assert (Hyr : find_root (tid tx) (G ++ [tx]) = Some tx).
      { rewrite find_root_app_r by done. unfold find_root. cbn. by rewrite bool_decide_eq_true_2. }
      destruct (cJSON_Delete_sim _ _ _ _ W1 Hyr) as (_ & Hdel & Wdel & NLdel).
      rewrite (remove_root_snoc G tx Hynot) in *.
      pose proof (datas_detach F p d cs k tx (wf_nodup _ _ W) Hp Hk) as HD. fold G in HD.
      eexists. split; [exact Hdel|]. split; [exact Wdel|]. split; [|split].
      + intros NL. apply NLdel. apply (NoLeak_upd_maps h F); [|done]. by rewrite !owned_datas, HD.
      + apply (Frame_free_all h F _ _ _ _ (datas [tx])); [done| |apply free_order_datas].
        rewrite <- datas_snoc_root. by symmetry.
      + by rewrite free_all_next, free_all_req.
    - destruct (cJSON_DetachItemViaPointer_null F (Some p) None h (or_intror eq_refl)) as [-> Hrun].
      rewrite (bindM_Ret _ _ _ _ _ Hrun). cbn [spec_delete]. exists h.
      split; [apply cJSON_Delete_null|]. split; [done|]. split; [done|]. split; [by apply Frame_refl|done].
  Qed.
  Lemma cJSON_DeleteItemFromObject_sim :
    exists h', cJSON_DeleteItemFromObject (Some p) (Some nb) h = Ret (tt, h') /\
      WF h' (spec_delete_key (h_str h) F (Some p) (Some nb) false) /\
      (NoLeak h F -> NoLeak h' (spec_delete_key (h_str h) F (Some p) (Some nb) false)).
  Proof. destruct (delete_by_key_sim false) as (h' & H1 & H2 & H3 & _). eauto. Qed.
  Lemma cJSON_DeleteItemFromObjectCaseSensitive_sim :
    exists h', cJSON_DeleteItemFromObjectCaseSensitive (Some p) (Some nb) h = Ret (tt, h') /\
      WF h' (spec_delete_key (h_str h) F (Some p) (Some nb) true) /\
      (NoLeak h F -> NoLeak h' (spec_delete_key (h_str h) F (Some p) (Some nb) true)).
  Proof. destruct (delete_by_key_sim true) as (h' & H1 & H2 & H3 & _). eauto. Qed.
End ByKey.
