(* h_uheap.ml — handlers of area "uheap": the extracted HEAP-LEVEL transliterations of the cJSON_Utils entry points
   (MergeHeapDefs / GenMergeHeapDefs / PatchHeapApplyDefs / GenPatchHeapDefs / PatchHeapDefs / PointerHeapDefs /
   CompareHeapDefs / SortDefs) executed on the memory model of Heap.v with the allocator that never fails.

   Every case starts from the empty heap; the operand trees are built block by block exactly as harness/impl_driver.c's
   build_node does (one node block per node, one library byte block per valuestring / key, caller memory for constant keys
   and referenced strings), the entry point is run, the trees are read back with CoreOps.dump_node and the ledger
   (CoreOps.live_count = live blocks owned by the library) is read after the call and after deleting everything.

   case kinds and result lines (harness/h_uheap.inc prints the identical line from the real library):
     umerge <cs> <target tree|NULL> <patch tree>   ->  <result tree|NULL> | <patch afterwards> call=<live> live=<live at the end>
     ugenmerge <cs> <from tree> <to tree>          ->  <patch tree|NULL> | <from afterwards> | <to afterwards> call=.. live=..
     uapply <cs> <doc tree> <patch tree>           ->  <status> | <doc afterwards> | <patch afterwards> call=.. live=..
     ugenpatch <cs> <from tree> <to tree>          ->  <patches tree|NULL> | <from afterwards> | <to afterwards> call=.. live=..
     ufind <P-path|-> <doc tree>                   ->  <hex pointer text|NULL> back=<P-path the text resolves to|NULL> | <doc afterwards> call=.. live=..
                                                       (- = the target is a node outside the document; the result block counts as 1 until freed)
     ugetptr <cs> <hex pointer> <doc tree>         ->  <P-path|NULL> | <doc afterwards> call=.. live=..
     ucompare <cs> <a tree> <b tree>               ->  <0|1> | <a afterwards> | <b afterwards> call=.. live=..
     usort <cs> <tree>                             ->  <tree afterwards> call=.. live=..
   On an error outcome of the model (use after free, double free, NULL dereference, out of bounds, fuel) the line is
   MODELERR=<name>. *)
open Model
open Driver

exception Model_err of string

let err_str (e : err) : string =
  match e with UAF -> "UAF" | DoubleFree -> "DoubleFree" | ForeignFree -> "ForeignFree" | ForeignWrite -> "ForeignWrite"
             | NullDeref -> "NullDeref" | BadBlock -> "BadBlock" | OutOfBounds -> "OutOfBounds" | NoFuel -> "NoFuel"

(* the heap of the current case *)
let heap : heap ref = ref empty_heap
let run : 'b. 'b m -> 'b = fun m ->
  match m !heap with
  | Ret (x, h') -> heap := h'; x
  | Err e -> raise (Model_err (err_str e))
let live () : int = int_of_nat (live_count !heap)

(* fresh memory of n bytes: the tracking allocator of the implementation driver fills blocks with 0xA5 *)
let junk (n : nat) : bytes = List.init (int_of_nat n) (fun _ -> z_of_int 0xA5)

(* ---- building a tree from the tokens "N ty vs vi vd key k child..." ---- *)
let rec build (a : string array) (pos : int ref) : ptr =
  if a.(!pos) <> "N" then failwith ("bad tree token at " ^ string_of_int !pos);
  let tyi = int_of_string a.(!pos + 1) in
  let vs = opt_bytes_of_hex a.(!pos + 2) in
  let vi = z_of_int (int_of_string a.(!pos + 3)) in
  let vd = dbl_of_tok a.(!pos + 4) in
  let key = opt_bytes_of_hex a.(!pos + 5) in
  let k = int_of_string a.(!pos + 6) in
  pos := !pos + 7;
  let p = run (alloc_node nofail) in
  let str (borrowed : bool) (o : bytes option) : ptr =
    match o with
    | None -> None
    | Some b -> if borrowed then run (foreign_bytes (b @ [Z0])) else run (alloc_bytes nofail (b @ [Z0])) in
  let vsp = str (tyi land 256 <> 0) vs in
  let keyp = str (tyi land 512 <> 0) key in
  let ch = Array.init k (fun _ -> None) in
  for i = 0 to k - 1 do ch.(i) <- build a pos done;
  for i = 0 to k - 1 do
    let next = if i + 1 < k then ch.(i + 1) else None in
    let prev = if i = 0 then ch.(k - 1) else ch.(i - 1) in
    run (st_lnk ch.(i) (next, prev))
  done;
  run (st_dat p { nd_type = z_of_int tyi; nd_vstr = vsp; nd_vint = vi; nd_vdbl = vd; nd_key = keyp;
                  nd_child = (if k > 0 then ch.(0) else None) });
  p
let build_or_null a pos : ptr = if a.(!pos) = "NULL" then (incr pos; None) else build a pos

(* ---- reading a tree back ---- *)
let dump (p : ptr) : string =
  match p with
  | None -> "NULL"
  | Some _ ->
      (match run (Model.dump_node dump_depth p) with
       | None -> "CYCLE"
       | Some (n, ok) ->
           let (nx, pv) = run (ld_lnk p) in
           Driver.dump_node n ^ (if nx <> None || pv <> None then " ROOTLINKS" else "") ^ (if ok then "" else " LINKS=BAD"))

(* children of a node, by identity *)
let children (p : ptr) : ptr list =
  let rec go c acc n = if c = None || n > 100000 then List.rev acc else go (fst (run (ld_lnk c))) (c :: acc) (n + 1) in
  go (run (ld_dat p)).nd_child [] 0
let node_at (root : ptr) (spec : string) : ptr =
  List.fold_left (fun cur i -> match cur with None -> None | Some _ -> (try List.nth (children cur) (int_of_nat i) with _ -> None)) root (path_of_str spec)
let rec path_of (root : ptr) (target : ptr) : int list option =
  if root = target then Some [] else
  if (int_of_z (run (ld_dat root)).nd_type) land 256 <> 0 then None else
  let rec go i = function
    | [] -> None
    | c :: r -> (match path_of c target with Some l -> Some (i :: l) | None -> go (i + 1) r) in
  go 0 (children root)
let put_path (root : ptr) (target : ptr) : string =
  match target with
  | None -> "NULL"
  | Some _ -> (match path_of root target with
               | None -> "FOREIGNNODE"
               | Some l -> "P" ^ String.concat "." (List.map string_of_int l))

let ledger () : string = Printf.sprintf " call=%d" (live ())
let finish (b : Buffer.t) (roots : ptr list) : string =
  List.iter (fun r -> run (cJSON_Delete r)) roots;
  Buffer.add_string b (Printf.sprintf " live=%d" (live ()));
  Buffer.contents b

let case (f : string array -> string) (a : string array) : string =
  heap := empty_heap;
  try f a with Model_err e -> "MODELERR=" ^ e

let h_umerge = case (fun a ->
  let cs = a.(1) = "1" in
  let pos = ref 2 in
  let target = build_or_null a pos in
  let patch = build_or_null a pos in
  let r = run ((if cs then cJSONUtils_MergePatchCaseSensitive else cJSONUtils_MergePatch) nofail target patch) in
  let b = Buffer.create 1024 in
  Buffer.add_string b (dump r); Buffer.add_string b " | "; Buffer.add_string b (dump patch);
  Buffer.add_string b (ledger ());
  finish b [r; patch])

let h_ugenmerge = case (fun a ->
  let cs = a.(1) = "1" in
  let pos = ref 2 in
  let from = build_or_null a pos in
  let to_ = build_or_null a pos in
  let p = run ((if cs then cJSONUtils_GenerateMergePatchCaseSensitive else cJSONUtils_GenerateMergePatch) nofail from to_) in
  let b = Buffer.create 1024 in
  Buffer.add_string b (String.concat " | " [dump p; dump from; dump to_]);
  Buffer.add_string b (ledger ());
  finish b [p; from; to_])

let h_uapply = case (fun a ->
  let cs = a.(1) = "1" in
  let pos = ref 2 in
  let doc = build_or_null a pos in
  let patch = build_or_null a pos in
  let st = run ((if cs then cJSONUtils_ApplyPatchesCaseSensitive else cJSONUtils_ApplyPatches) nofail doc patch) in
  let b = Buffer.create 1024 in
  Buffer.add_string b (String.concat " | " [string_of_int (int_of_z st); dump doc; dump patch]);
  Buffer.add_string b (ledger ());
  finish b [doc; patch])

let h_ugenpatch = case (fun a ->
  let cs = a.(1) = "1" in
  let pos = ref 2 in
  let from = build_or_null a pos in
  let to_ = build_or_null a pos in
  let ps = run ((if cs then cJSONUtils_GeneratePatchesCaseSensitive else cJSONUtils_GeneratePatches) nofail from to_) in
  let b = Buffer.create 1024 in
  Buffer.add_string b (String.concat " | " [dump ps; dump from; dump to_]);
  Buffer.add_string b (ledger ());
  finish b [ps; from; to_])

let h_ufind = case (fun a ->
  let pos = ref 2 in
  let doc = build a pos in
  let outside = if a.(1) = "-" then
      (let p = run (alloc_node nofail) in
       run (st_dat p { nd_type = z_of_int 4; nd_vstr = None; nd_vint = Z0; nd_vdbl = dbl_of_tok "0000000000000000"; nd_key = None; nd_child = None }); p)
    else None in
  let target = if a.(1) = "-" then outside else node_at doc a.(1) in
  let r = run (cJSONUtils_FindPointerFromObjectTo nofail junk doc target) in
  let b = Buffer.create 1024 in
  (match r with
   | None -> Buffer.add_string b "NULL back=NULL"
   | Some blk ->
       Buffer.add_string b (hex_of_bytes (run (ld_cstr r)));
       let back = run (cJSONUtils_GetPointerCaseSensitive doc (CAt (blk, O))) in
       Buffer.add_string b (" back=" ^ put_path doc back));
  Buffer.add_string b " | "; Buffer.add_string b (dump doc);
  Buffer.add_string b (ledger ());
  (match r with None -> () | Some _ -> run (cJSON_free r));
  finish b [doc; outside])

let h_ugetptr = case (fun a ->
  let cs = a.(1) = "1" in
  let text = bytes_of_hex a.(2) in
  let pos = ref 3 in
  let doc = build a pos in
  (* the pointer text is caller memory: a borrowed block with its terminator *)
  let s = (match run (foreign_bytes (text @ [Z0])) with Some blk -> CAt (blk, O) | None -> CNull) in
  let r = run ((if cs then cJSONUtils_GetPointerCaseSensitive else cJSONUtils_GetPointer) doc s) in
  let b = Buffer.create 1024 in
  Buffer.add_string b (put_path doc r);
  Buffer.add_string b " | "; Buffer.add_string b (dump doc);
  Buffer.add_string b (ledger ());
  finish b [doc])

let h_ucompare = case (fun a ->
  let cs = a.(1) = "1" in
  let pos = ref 2 in
  let x = build_or_null a pos in
  let y = build_or_null a pos in
  let r = run (cJSON_Compare x y cs) in
  let b = Buffer.create 1024 in
  Buffer.add_string b (String.concat " | " [(if r then "1" else "0"); dump x; dump y]);
  Buffer.add_string b (ledger ());
  finish b [x; y])

let h_usort = case (fun a ->
  let cs = a.(1) = "1" in
  let pos = ref 2 in
  let x = build_or_null a pos in
  let fuel = S (S (run heap_fuel)) in
  run ((if cs then cJSONUtils_SortObjectCaseSensitive else cJSONUtils_SortObject) fuel x);
  let b = Buffer.create 1024 in
  Buffer.add_string b (dump x);
  Buffer.add_string b (ledger ());
  finish b [x])

let handlers : (string * (string array -> string)) list = [
  ("umerge", h_umerge); ("ugenmerge", h_ugenmerge); ("uapply", h_uapply); ("ugenpatch", h_ugenpatch);
  ("ufind", h_ufind); ("ugetptr", h_ugetptr); ("ucompare", h_ucompare); ("usort", h_usort);
]
