(** CompareHeapForest.v — property C12 AT HEAP LEVEL: under [WF h F] with readable strings, the heap-level
    [cJSON_Compare] (CompareHeapDefs.v), called on ANY two nodes of the forest — the same node, a node and
    one of its descendants, nodes of different roots: nothing is written, so no disjointness is needed —
    returns, in the unchanged heap, exactly what the value-level [CompareDefs.cJSON_Compare] returns on the
    reified operands ([compare_refines]); the recursion bound the entry point takes from the heap always
    suffices (no [NoFuel], no memory-error outcome).  Hence every theorem of Properties_C12.v transfers
    ([heap_compare_spec], [_symmetric], [_reflexive], [_flags_ignored], [_null], [_invalid]).

    Operands: no node with a BORROWED child pointer ([no_borrowed]: reference nodes made from a container;
    string references and nodes that merely carry the cJSON_IsReference bit are allowed).  The version
    with such reference nodes is CompareHeapRefs.v.

    This file produces the views of CompareHeapProofs.v from the forest:
      [view_of_node]     a node of a well-formed forest reads as itself
      [forest_okpair]    two DISTINCT nodes of a forest never meet the pointer shortcut in the recursion
                         (a child has one parent)
      [height_lt_next]   a branch of distinct blocks is shorter than the allocator pointer *)
From CJ Require Import Base Dbl Heap Forest ForestLemmas CoreSpec CoreDefs CoreRefineBase CoreRefine CoreRefineMore CoreRefineObject CoreRefineFrame
  CoreRefineDupBase CoreRefineDupTree CoreRefineDupLoop CoreRefineDupValue CoreRefineDupForest CoreLedgerDup.
From CJ Require Import TierBridgeDefs TierBridgeForest TierBridgeLemmas GenMergeHeapDefs GenMergeHeapForest MergeHeapInv.
From CJ Require Import CompareHeapDefs CompareHeapRO CompareHeapViewDefs CompareHeapProofs.
From CJ Require Tree CompareDefs CompareProofs.
From CJ.gen Require Import Constants.
From stdpp Require Import gmap.
From Coq Require Import Lia.

(** * views from the forest *)
Lemma flat_t_in_flat_F F t (e : fnode) : t ∈ nodes F -> e ∈ flat_t t -> e ∈ flat F.
Proof.
  intros Ht He. apply elem_of_list_fmap in He as (m & -> & Hm). apply elem_of_flat.
  by eapply nodes_t_in_nodes.
Qed.

Lemma view_of_node h F t k :
  WF h F -> strings_readable h F -> t ∈ nodes F -> no_borrowed t -> height t <= k -> cmp_view h k t.
Proof.
  intros W SR Ht Hb Hk. split_and!.
  - apply (src_t_of_WF h F W t k Ht); [|done|done].
    intros i d ks He. destruct (SR i d ks (flat_t_in_flat_F F t _ Ht He)) as [H1 H2]. split; [done|]. intros b Hb' _. by apply H2.
  - by apply no_borrowed_complete.
  - intros i d ks He b Hb'. destruct (SR i d ks (flat_t_in_flat_F F t _ Ht He)) as [_ H2]. by apply H2.
Qed.

(** * a child has one parent *)
Lemma NoDup_bind_inj {A B} (f : A -> list B) (l : list A) e1 e2 c :
  NoDup (l ≫= f) -> e1 ∈ l -> e2 ∈ l -> c ∈ f e1 -> c ∈ f e2 -> e1 = e2.
Proof.
  induction l as [|e r IH]; intros ND H1 H2 C1 C2; [by apply elem_of_nil in H1|].
  cbn in ND. apply NoDup_app in ND as (_ & Hdis & NDr).
  apply elem_of_cons in H1 as [->|H1]; apply elem_of_cons in H2 as [->|H2].
  - done.
  - exfalso. apply (Hdis c C1). apply elem_of_list_bind. by exists e2.
  - exfalso. apply (Hdis c C2). apply elem_of_list_bind. by exists e1.
  - by apply IH.
Qed.

Lemma one_parent F x y c :
  NoDup (ids F) -> x ∈ nodes F -> y ∈ nodes F -> c ∈ cids x -> c ∈ cids y -> tid x = tid y.
Proof.
  intros ND Hx Hy Cx Cy. rewrite <- lnk_keys_ids in ND. unfold lnk_keys in ND. apply NoDup_app in ND as (_ & _ & ND).
  pose proof (NoDup_bind_inj fn_cids (flat F) (flat_of x) (flat_of y) c ND (elem_of_flat _ _ Hx) (elem_of_flat _ _ Hy) Cx Cy) as E.
  unfold flat_of in E. by injection E.
Qed.

Lemma forest_okpair St cs F : NoDup (ids F) ->
  forall x y, x ∈ nodes F -> y ∈ nodes F -> tid x <> tid y -> okpair St cs x y.
Proof.
  intros ND x. induction x as [i d xs IH] using tree_ind'. intros y Hx Hy Hne.
  apply okp_diff; [done|]. intros cx cy Hcx Hcy. cbn [tchildren] in Hcx.
  rewrite Forall_forall in IH. apply (IH cx Hcx cy).
  - eapply CoreRefineObject.child_in_nodes; [exact Hx|done].
  - eapply CoreRefineObject.child_in_nodes; [exact Hy|done].
  - intros E. apply Hne. apply (one_parent F (T i d xs) y (tid cx) ND Hx Hy).
    + unfold cids. cbn [tchildren]. apply elem_of_list_fmap. by exists cx.
    + rewrite E. unfold cids. apply elem_of_list_fmap. by exists cy.
Qed.

(** * depth against the allocator pointer *)
Lemma height_lt_nodes : forall t, height t < length (nodes_t t).
Proof.
  induction t as [i d cs IH] using tree_ind'. rewrite height_unfold, nodes_t_unfold. cbn [length].
  apply Nat.lt_succ_r. induction IH as [|c r Hc _ IHr]; [done|].
  cbn [height_list]. rewrite nodes_cons, app_length. lia.
Qed.

Lemma height_lt_next h F t : WF h F -> t ∈ nodes F -> height t < Pos.to_nat (h_next h).
Proof.
  intros W Ht. pose proof (height_lt_nodes t) as H1.
  assert (H2 : length (ids_t t) < Pos.to_nat (h_next h)).
  { apply NoDup_length_lt_pos.
    - apply (NoDup_ids_t_node F); [apply W|done].
    - intros c Hc. apply (WF_ids_fresh _ _ _ W). unfold ids_t in Hc. apply elem_of_list_fmap in Hc as (n & -> & Hn).
      apply elem_of_list_fmap. exists n. split; [done|]. by eapply nodes_t_in_nodes. }
  unfold ids_t in H2. rewrite fmap_length in H2. lia.
Qed.

(** * the entry point *)

(** the same block on both sides: the answer is decided by the type alone *)
Lemma compare_same_block h i nd df lf cs :
  nd_at h i nd ->
  cJSON_Compare_fuel (S df) lf (Some i) (Some i) cs h = Ret (CompareDefs.valid_type (Z.land (nd_type nd) 255), h).
Proof.
  intros [Hl Hd]. rewrite cJSON_Compare_fuel_S. cbn [is_null orb].
  pose proof (run_get_type_plain _ _ _ Hl Hd) as Rt. stp Rt. stp Rt. rewrite Z.eqb_refl. cbn [negb]. stp Rt.
  unfold type_case_valid. destruct (CompareDefs.valid_type (Z.land (nd_type nd) 255)); cbn [negb]; [|done].
  cbn [ptr_eqb]. by rewrite Pos.eqb_refl.
Qed.

(** the value-level entry point, for distinct pointers, is the recursion with the entry point's fuel *)
Lemma value_entry a b cs :
  CompareDefs.cJSON_Compare (Some a) (Some b) false cs =
  CompareDefs.compare_rec (Tree.node_depth a + Tree.node_depth b) a b cs.
Proof.
  cbn [CompareDefs.cJSON_Compare]. pose proof (CompareProofs.depth_pos a).
  destruct (Tree.node_depth a + Tree.node_depth b) as [|f] eqn:E; [lia|].
  destruct (Z.eqb_spec (Tree.tymask (Tree.n_ty a)) (Tree.tymask (Tree.n_ty b))) as [Hab|Hab]; cbn [negb].
  2:{ by rewrite CompareProofs.cr_neq. }
  destruct (CompareDefs.valid_type (Tree.tymask (Tree.n_ty a))) eqn:Hv; cbn [negb]; [done|].
  by rewrite CompareProofs.cr_invalid.
Qed.

Lemma value_same a cs :
  CompareDefs.cJSON_Compare (Some a) (Some a) true cs = Some (CompareDefs.valid_type (Tree.tymask (Tree.n_ty a))).
Proof.
  cbn [CompareDefs.cJSON_Compare]. rewrite Z.eqb_refl. cbn [negb].
  by destruct (CompareDefs.valid_type (Tree.tymask (Tree.n_ty a))).
Qed.

Section Entry.
  Context (h : heap) (F : forest).
  Hypothesis W : WF h F.
  Hypothesis SR : strings_readable h F.
  Notation St := (h_str h).

  Lemma node_eq_of_tid x y : x ∈ nodes F -> y ∈ nodes F -> tid x = tid y -> x = y.
  Proof.
    intros Hx Hy E. pose proof (find_tree_unique (tid x) F x (wf_nodup _ _ W) Hx eq_refl) as H1.
    pose proof (find_tree_unique (tid x) F y (wf_nodup _ _ W) Hy (eq_sym E)) as H2. congruence.
  Qed.

  (** THE REFINEMENT THEOREM *)
  Theorem compare_refines cs ta tb :
    ta ∈ nodes F -> tb ∈ nodes F -> no_borrowed ta -> no_borrowed tb ->
    exists r : bool,
      cJSON_Compare (Some (tid ta)) (Some (tid tb)) cs h = Ret (r, h) /\
      CompareDefs.cJSON_Compare (Some (reify St ta)) (Some (reify St tb)) (bool_decide (tid ta = tid tb)) cs = Some r.
  Proof.
    intros Ha Hb Ba Bb. unfold cJSON_Compare, heap_fuel. unfold bindM at 1.
    destruct (decide (tid ta = tid tb)) as [E|Hne].
    - pose proof (node_eq_of_tid _ _ Ha Hb E) as <-. rewrite bool_decide_eq_true_2 by done.
      destruct ta as [i d cs0]. cbn [tid].
      destruct (WF_live_dat _ _ _ _ _ W (find_tree_unique i F _ (wf_nodup _ _ W) Ha eq_refl)) as [Hl Hd].
      destruct (Pos.to_nat (h_next h)) as [|df] eqn:Ef; [pose proof (Pos2Nat.is_pos (h_next h)); lia|].
      exists (CompareDefs.valid_type (Z.land (rd_type d) 255)). split.
      + rewrite <- Ef. rewrite Ef at 1. by rewrite (compare_same_block h i _ df _ cs (conj Hl Hd)).
      + by rewrite value_same.
    - rewrite bool_decide_eq_false_2 by done. rewrite value_entry.
      set (k := Nat.max (height ta) (height tb)).
      pose proof (height_lt_next h F ta W Ha) as Hha. pose proof (height_lt_next h F tb W Hb) as Hhb.
      apply (compare_fuel_view h (Pos.to_nat (h_next h)) cs ltac:(lia) k ta tb).
      + apply (view_of_node h F ta k W SR Ha Ba). unfold k. lia.
      + apply (view_of_node h F tb k W SR Hb Bb). unfold k. lia.
      + by apply (forest_okpair St cs F (wf_nodup _ _ W)).
      + unfold k. lia.
      + rewrite !node_depth_reify. unfold k. lia.
  Qed.

  (** no error outcome, and the heap is the heap before *)
  Corollary compare_safe cs ta tb :
    ta ∈ nodes F -> tb ∈ nodes F -> no_borrowed ta -> no_borrowed tb ->
    exists r : bool, cJSON_Compare (Some (tid ta)) (Some (tid tb)) cs h = Ret (r, h).
  Proof. intros Ha Hb Ba Bb. destruct (compare_refines cs ta tb Ha Hb Ba Bb) as (r & Hr & _). by exists r. Qed.

  (** ** the theorems of Properties_C12.v, for the heap-level code *)

  (** decides semantic equality *)
  Theorem heap_compare_spec cs ta tb :
    ta ∈ nodes F -> tb ∈ nodes F -> no_borrowed ta -> no_borrowed tb -> tid ta <> tid tb ->
    CompareDefs.cmp_wf cs (reify St ta) -> CompareDefs.cmp_wf cs (reify St tb) ->
    exists r : bool, cJSON_Compare (Some (tid ta)) (Some (tid tb)) cs h = Ret (r, h) /\
      (r = true <-> CompareDefs.sem_eq cs (reify St ta) (reify St tb)).
  Proof.
    intros Ha Hb Ba Bb Hne Wa Wb. destruct (compare_refines cs ta tb Ha Hb Ba Bb) as (r & Hr & Hv).
    rewrite bool_decide_eq_false_2 in Hv by done. exists r. split; [done|].
    rewrite <- (CompareProofs.compare_spec cs _ _ Wa Wb), Hv. split; [by intros ->|by intros [= ->]].
  Qed.

  (** symmetric: the two argument orders give the same outcome *)
  Theorem heap_compare_symmetric cs ta tb :
    ta ∈ nodes F -> tb ∈ nodes F -> no_borrowed ta -> no_borrowed tb ->
    CompareDefs.cmp_wf cs (reify St ta) -> CompareDefs.cmp_wf cs (reify St tb) ->
    cJSON_Compare (Some (tid ta)) (Some (tid tb)) cs h = cJSON_Compare (Some (tid tb)) (Some (tid ta)) cs h.
  Proof.
    intros Ha Hb Ba Bb Wa Wb.
    destruct (decide (tid ta = tid tb)) as [E|Hne]; [by rewrite E|].
    destruct (compare_refines cs ta tb Ha Hb Ba Bb) as (r & Hr & Hv).
    destruct (compare_refines cs tb ta Hb Ha Bb Ba) as (r' & Hr' & Hv').
    rewrite bool_decide_eq_false_2 in Hv by done. rewrite bool_decide_eq_false_2 in Hv' by (intros E; by apply Hne).
    rewrite (CompareProofs.compare_symmetric cs _ _ Wa Wb), Hv' in Hv. injection Hv as ->. by rewrite Hr, Hr'.
  Qed.

  (** reflexive: on the same node for any valid type; on two nodes holding the same value when that value is
      a JSON value with distinct member names and no NaN *)
  Theorem heap_compare_reflexive cs ta :
    ta ∈ nodes F ->
    (CompareDefs.valid_type (Tree.tymask (rd_type (tdata ta))) = true ->
       cJSON_Compare (Some (tid ta)) (Some (tid ta)) cs h = Ret (true, h)) /\
    (forall tb, tb ∈ nodes F -> no_borrowed ta -> no_borrowed tb -> reify St tb = reify St ta -> refl_ok cs (reify St ta) ->
       cJSON_Compare (Some (tid ta)) (Some (tid tb)) cs h = Ret (true, h)).
  Proof.
    intros Ha. split.
    - intros Hv. unfold cJSON_Compare, heap_fuel. unfold bindM at 1. destruct ta as [i d cs0]. cbn [tid tdata] in *.
      destruct (WF_live_dat _ _ _ _ _ W (find_tree_unique i F _ (wf_nodup _ _ W) Ha eq_refl)) as [Hl Hd].
      destruct (Pos.to_nat (h_next h)) as [|df] eqn:Ef; [pose proof (Pos2Nat.is_pos (h_next h)); lia|].
      rewrite <- Ef. rewrite Ef at 1. rewrite (compare_same_block h i _ df _ cs (conj Hl Hd)). cbn [nd_type mk_dat].
      unfold Tree.tymask in Hv. by rewrite Hv.
    - intros tb Hb Ba Bb E (Wa & Ja & Na). destruct (compare_refines cs ta tb Ha Hb Ba Bb) as (r & Hr & Hv).
      rewrite Hr. do 2 f_equal. rewrite E in Hv.
      destruct (decide (tid ta = tid tb)) as [Et|Hne].
      + rewrite bool_decide_eq_true_2 in Hv by done. rewrite value_same in Hv. injection Hv as <-.
        apply CompareProofs.json_shape_eq in Ja. by destruct Ja as [-> _].
      + rewrite bool_decide_eq_false_2 in Hv by done.
        rewrite (proj2 (CompareProofs.compare_reflexive cs (reify St ta)) Wa Ja Na) in Hv. by injection Hv.
  Qed.

  (** the ownership flags of the nodes (cJSON_IsReference, cJSON_StringIsConst: any bit above the low byte)
      do not matter *)
  Theorem heap_compare_flags_ignored cs ta tb :
    ta ∈ nodes F -> tb ∈ nodes F -> no_borrowed ta -> no_borrowed tb ->
    exists r : bool,
      cJSON_Compare (Some (tid ta)) (Some (tid tb)) cs h = Ret (r, h) /\
      CompareDefs.cJSON_Compare (Some (CompareDefs.strip_flags (reify St ta))) (Some (CompareDefs.strip_flags (reify St tb)))
        (bool_decide (tid ta = tid tb)) cs = Some r.
  Proof.
    intros Ha Hb Ba Bb. destruct (compare_refines cs ta tb Ha Hb Ba Bb) as (r & Hr & Hv). exists r. split; [done|].
    by rewrite <- CompareProofs.compare_flags.
  Qed.

  (** a node whose type is none of the eight JSON types compares false with everything *)
  Theorem heap_compare_invalid cs ta tb :
    ta ∈ nodes F -> tb ∈ nodes F -> no_borrowed ta -> no_borrowed tb ->
    CompareDefs.valid_type (Tree.tymask (rd_type (tdata ta))) = false ->
    cJSON_Compare (Some (tid ta)) (Some (tid tb)) cs h = Ret (false, h) /\
    cJSON_Compare (Some (tid tb)) (Some (tid ta)) cs h = Ret (false, h).
  Proof.
    intros Ha Hb Ba Bb Hv.
    assert (Hva : CompareDefs.valid_type (Tree.tymask (Tree.n_ty (reify St ta))) = false) by (by destruct ta).
    split.
    - destruct (compare_refines cs ta tb Ha Hb Ba Bb) as (r & Hr & Hval).
      rewrite (proj2 (proj2 (CompareProofs.compare_null_invalid (Some (reify St ta)) (Some (reify St tb)) _ cs)) _ eq_refl Hva) in Hval.
      injection Hval as <-. exact Hr.
    - destruct (compare_refines cs tb ta Hb Ha Bb Ba) as (r & Hr & Hval).
      rewrite Hr. do 2 f_equal. cbn [CompareDefs.cJSON_Compare] in Hval.
      destruct (Z.eqb_spec (Tree.tymask (Tree.n_ty (reify St tb))) (Tree.tymask (Tree.n_ty (reify St ta)))) as [E|Hne];
        cbn [negb] in Hval; [|by injection Hval].
      rewrite E, Hva in Hval. cbn [negb] in Hval. by injection Hval.
  Qed.
End Entry.

(** NULL arguments: false, on every heap, without reading anything *)
Theorem heap_compare_null a b cs h :
  cJSON_Compare None b cs h = Ret (false, h) /\ cJSON_Compare a None cs h = Ret (false, h).
Proof.
  unfold cJSON_Compare, heap_fuel. unfold bindM.
  destruct (Pos.to_nat (h_next h)) as [|df] eqn:Ef; [pose proof (Pos2Nat.is_pos (h_next h)); lia|].
  rewrite !cJSON_Compare_fuel_S. split; [done|]. by destruct a.
Qed.

(** under the invariant of the Utils proofs ([MInv]: every node owns its strings) all side conditions hold *)
Lemma MInv_strings_readable h F : MInv h F -> strings_readable h F.
Proof.
  intros I i d ks He. assert (Hd : (i, d) ∈ datas F).
  { unfold datas. apply elem_of_list_fmap. by exists (i, d, ks). }
  destruct (mi_read _ _ I _ Hd) as [H1 H2]. cbn in H1, H2.
  split; intros b Hb; [destruct (H1 b Hb) as (Hl & s & Hs & Hz)|destruct (H2 b Hb) as (Hl & s & Hs & Hz)]; by exists s.
Qed.

Theorem compare_refines_MInv h F cs ta tb :
  MInv h F -> ta ∈ nodes F -> tb ∈ nodes F ->
  exists r : bool,
    cJSON_Compare (Some (tid ta)) (Some (tid tb)) cs h = Ret (r, h) /\
    CompareDefs.cJSON_Compare (Some (reify (h_str h) ta)) (Some (reify (h_str h) tb)) (bool_decide (tid ta = tid tb)) cs = Some r.
Proof.
  intros I Ha Hb. apply (compare_refines h F (mi_wf _ _ I) (MInv_strings_readable _ _ I)); try done.
  - by apply (MInv_no_borrowed h F I).
  - by apply (MInv_no_borrowed h F I).
Qed.
