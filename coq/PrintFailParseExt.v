(** PrintFailParseExt.v — C08 for the parser, the "completes normally" half made exact.

    A parse consults the failure schedule only at the indices of the requests it actually makes: if
    two schedules agree below the number of requests the call made under the first, the call returns
    the same result under the second ([parse_length_ext], [parse_string_ext_entry]).  Consequences:
      * the outcome of a call none of whose requests was refused is the outcome of the failure-free
        run (the subject of C02/C03/C10) — in particular "the k-th request fails" with k beyond the
        requests of the failure-free run;
      * a call whose result differs from the failure-free run's was refused one of the requests it
        made.
    Proofs only. *)
From CJ Require Import Base Dbl Tree LibcNum ParseDefs ParseSafe PrintFail PrintFailExt.
From Coq Require Import Lia ZArith List Bool.
Import ListNotations.
Local Open Scope Z_scope.

Section Ext.
  Variable strtod : bytes -> option (dbl * nat).
  Variable o1 o2 : nat -> bool.
  Variable content : bytes.
  Variable len : nat.

  Definition agree_below (N : nat) : Prop := forall k, (k < N)%nat -> o2 k = o1 k.

  Definition pext {A} (f1 f2 : pst -> res (A * pst)) : Prop :=
    forall s a s', f1 s = Ok (a, s') ->
      (req s <= req s')%nat /\
      (forall N, agree_below N -> (req s' <= N)%nat -> f2 s = Ok (a, s')).

  Ltac req_lia := cbn [req set_off add_off set_dep release] in *; lia.

  Ltac replay N A :=
    repeat (cbn [bind negb];
            match goal with
            | T : _ |- _ => rewrite (T N A) by req_lia
            | H : _ = Ok _ |- _ => rewrite H
            | H : _ = true |- _ => rewrite H
            | H : _ = false |- _ => rewrite H
            | H : _ = Some _ |- _ => rewrite H
            | H : _ = None |- _ => rewrite H
            end);
    cbn [bind negb]; reflexivity.
  Ltac finish unf := split; [req_lia|]; let N := fresh "N" in let A := fresh "A" in let HN := fresh "HN" in
                     intros N A HN; unf; replay N A.

  (** the steps that never call the allocator leave the request counter alone *)
  Lemma skip_ws_loop_req fuel : forall s s', skip_ws_loop content len fuel s = Ok s' -> req s' = req s.
  Proof.
    induction fuel as [|f IH]; intros s s' E; cbn [skip_ws_loop] in E; [discriminate|].
    destruct (can_access len s 0); [|injection E as <-; reflexivity].
    bind_inv E c Ec. destruct (c <=? 32); [|injection E as <-; reflexivity].
    rewrite (IH _ _ E). reflexivity.
  Qed.
  Lemma bsw_req s s' : buffer_skip_whitespace content len s = Ok s' -> req s' = req s.
  Proof.
    unfold buffer_skip_whitespace. destruct (negb (can_access len s 0)); [intros [= <-]; reflexivity|].
    intros E. bind_inv E s1 E1. apply skip_ws_loop_req in E1.
    destruct (off s1 =? len)%nat; injection E as <-; cbn; exact E1.
  Qed.
  Lemma bom_req s s' : skip_utf8_bom content len s = Ok s' -> req s' = req s.
  Proof.
    unfold skip_utf8_bom. destruct (can_access len s 2); [|intros [= <-]; reflexivity].
    intros E. bind_inv E m Em. destruct m; injection E as <-; reflexivity.
  Qed.
  Lemma rnt_skip_req fuel : forall s s', rnt_skip content len fuel s = Ok s' -> req s' = req s.
  Proof.
    induction fuel as [|f IH]; intros s s' E; cbn [rnt_skip] in E; [discriminate|].
    destruct (can_access len s 0); [|injection E as <-; reflexivity].
    bind_inv E c Ec. destruct (negb (c =? 0) && (c <=? 32)); [|injection E as <-; reflexivity].
    rewrite (IH _ _ E). reflexivity.
  Qed.
  Lemma parse_number_req s r s' : parse_number strtod content len s = Ok (r, s') -> req s' = req s.
  Proof.
    unfold parse_number. intros E. bind_inv E copy Ec.
    destruct (strtod copy) as [(d & consumed)|]; injection E as <- <-; reflexivity.
  Qed.

  (** the allocator: one request, consulted at its own index *)
  Lemma alloc_ext s ok s1 : alloc o1 s = (ok, s1) ->
    req s1 = S (req s) /\ (forall N, agree_below N -> (req s1 <= N)%nat -> alloc o2 s = (ok, s1)).
  Proof.
    unfold alloc. destruct (o1 (req s)) eqn:O1; intros [= <- <-]; (split; [reflexivity|]);
      intros N A HN; cbn in HN; rewrite (A (req s)) by lia; rewrite O1; reflexivity.
  Qed.

  Lemma parse_string_ext : pext (parse_string o1 content len) (parse_string o2 content len).
  Proof.
    intros s r s' E. unfold parse_string in E.
    bind_inv E c0 Ec0. destruct (negb (c0 =? 34)) eqn:Hq.
    { injection E as <- <-. finish ltac:(unfold parse_string). }
    bind_inv E sc Esc. destruct sc as [(input_end & skipped)|].
    2: { injection E as <- <-. finish ltac:(unfold parse_string). }
    destruct (alloc o1 s) as (ok & s1) eqn:Ea. destruct (alloc_ext _ _ _ Ea) as (Ra & Ta).
    destruct ok; cbn [negb] in E.
    2: { injection E as <- <-. finish ltac:(unfold parse_string). }
    bind_inv E d Ed. destruct d as [out|ip]; injection E as <- <-; finish ltac:(unfold parse_string).
  Qed.

  Section Containers.
    Variable pv1 pv2 : pst -> res (option node * pst).
    Hypothesis Hpv : pext pv1 pv2.

    Lemma array_loop_ext fuel : forall acc,
      pext (fun s => array_loop o1 content len pv1 fuel s acc) (fun s => array_loop o2 content len pv2 fuel s acc).
    Proof.
      induction fuel as [|f IH]; intros acc s r s' E; cbn beta in *; cbn [array_loop] in E; [discriminate|].
      destruct (alloc o1 s) as (ok & s1) eqn:Ea. destruct (alloc_ext _ _ _ Ea) as (Ra & Ta).
      destruct ok; cbn [negb] in E.
      2: { injection E as <- <-. finish ltac:(cbn [array_loop]). }
      bind_inv E s2 E2. pose proof (bsw_req _ _ E2) as R2.
      bind_inv E x E3. destruct x as (rv & s3). destruct (Hpv _ _ _ E3) as (L3 & T3).
      destruct rv as [v|].
      2: { injection E as <- <-. finish ltac:(cbn [array_loop]). }
      bind_inv E s4 E4. pose proof (bsw_req _ _ E4) as R4.
      destruct (can_access len s4 0) eqn:Hca.
      2: { injection E as <- <-. finish ltac:(cbn [array_loop]). }
      bind_inv E c Ec.
      destruct (c =? 44) eqn:H44.
      { destruct (IH _ _ _ _ E) as (L5 & T5). cbn beta in T5. finish ltac:(cbn [array_loop]). }
      destruct (c =? 93) eqn:H93; injection E as <- <-; finish ltac:(cbn [array_loop]).
    Qed.

    Lemma parse_array_ext : pext (parse_array o1 content len pv1) (parse_array o2 content len pv2).
    Proof.
      intros s r s' E. unfold parse_array in E.
      destruct (c_CJSON_NESTING_LIMIT <=? dep s) eqn:Hd.
      { injection E as <- <-. finish ltac:(unfold parse_array). }
      bind_inv E c0 Ec0. destruct (negb (c0 =? 91)) eqn:Hb.
      { injection E as <- <-. finish ltac:(unfold parse_array). }
      bind_inv E s1 E1. pose proof (bsw_req _ _ E1) as R1.
      destruct (can_access len s1 0) eqn:Hca.
      2: { injection E as <- <-. finish ltac:(unfold parse_array). }
      bind_inv E c Ec. destruct (c =? 93) eqn:H93.
      { injection E as <- <-. finish ltac:(unfold parse_array). }
      bind_inv E x E2. destruct x as (ritems & s2).
      destruct (array_loop_ext _ _ _ _ _ E2) as (L2 & T2). cbn beta in T2.
      destruct ritems as [items|]; injection E as <- <-; finish ltac:(unfold parse_array).
    Qed.

    Lemma object_loop_ext fuel : forall acc,
      pext (fun s => object_loop o1 content len pv1 fuel s acc) (fun s => object_loop o2 content len pv2 fuel s acc).
    Proof.
      induction fuel as [|f IH]; intros acc s r s' E; cbn beta in *; cbn [object_loop] in E; [discriminate|].
      destruct (alloc o1 s) as (ok & s1) eqn:Ea. destruct (alloc_ext _ _ _ Ea) as (Ra & Ta).
      destruct ok; cbn [negb] in E.
      2: { injection E as <- <-. finish ltac:(cbn [object_loop]). }
      destruct (negb (can_access len s1 1)) eqn:Hc1.
      { injection E as <- <-. finish ltac:(cbn [object_loop]). }
      bind_inv E s2 E2. pose proof (bsw_req _ _ E2) as R2.
      bind_inv E x E3. destruct x as (rk & s3). destruct (parse_string_ext _ _ _ E3) as (L3 & T3).
      destruct rk as [key|].
      2: { injection E as <- <-. finish ltac:(cbn [object_loop]). }
      bind_inv E s4 E4. pose proof (bsw_req _ _ E4) as R4.
      destruct (negb (can_access len s4 0)) eqn:Hc4.
      { injection E as <- <-. finish ltac:(cbn [object_loop]). }
      bind_inv E c Ec. destruct (negb (c =? 58)) eqn:Hcol.
      { injection E as <- <-. finish ltac:(cbn [object_loop]). }
      bind_inv E s5 E5. pose proof (bsw_req _ _ E5) as R5.
      bind_inv E y E6. destruct y as (rv & s6). destruct (Hpv _ _ _ E6) as (L6 & T6).
      destruct rv as [v0|].
      2: { injection E as <- <-. finish ltac:(cbn [object_loop]). }
      bind_inv E s7 E7. pose proof (bsw_req _ _ E7) as R7.
      destruct (can_access len s7 0) eqn:Hc7.
      2: { injection E as <- <-. finish ltac:(cbn [object_loop]). }
      bind_inv E c2 Ec2.
      destruct (c2 =? 44) eqn:H44.
      { destruct (IH _ _ _ _ E) as (L8 & T8). cbn beta in T8. finish ltac:(cbn [object_loop]). }
      destruct (c2 =? 125) eqn:H125; injection E as <- <-; finish ltac:(cbn [object_loop]).
    Qed.

    Lemma parse_object_ext : pext (parse_object o1 content len pv1) (parse_object o2 content len pv2).
    Proof.
      intros s r s' E. unfold parse_object in E.
      destruct (c_CJSON_NESTING_LIMIT <=? dep s) eqn:Hd.
      { injection E as <- <-. finish ltac:(unfold parse_object). }
      destruct (negb (can_access len (set_dep s (dep s + 1)) 0)) eqn:Hc0.
      { injection E as <- <-. finish ltac:(unfold parse_object). }
      bind_inv E c0 Ec0. destruct (negb (c0 =? 123)) eqn:Hb.
      { injection E as <- <-. finish ltac:(unfold parse_object). }
      bind_inv E s1 E1. pose proof (bsw_req _ _ E1) as R1.
      destruct (can_access len s1 0) eqn:Hca.
      2: { injection E as <- <-. finish ltac:(unfold parse_object). }
      bind_inv E c Ec. destruct (c =? 125) eqn:H125.
      { injection E as <- <-. finish ltac:(unfold parse_object). }
      bind_inv E x E2. destruct x as (ritems & s2).
      destruct (object_loop_ext _ _ _ _ _ E2) as (L2 & T2). cbn beta in T2.
      destruct ritems as [items|]; injection E as <- <-; finish ltac:(unfold parse_object).
    Qed.
  End Containers.

  Lemma parse_value_ext : forall fuel, pext (parse_value strtod o1 content len fuel) (parse_value strtod o2 content len fuel).
  Proof.
    induction fuel as [|f IH]; intros s r s' E; cbn [parse_value] in E; [discriminate|].
    bind_inv E m1 Em1. destruct m1.
    { injection E as <- <-. finish ltac:(cbn [parse_value]). }
    bind_inv E m2 Em2. destruct m2.
    { injection E as <- <-. finish ltac:(cbn [parse_value]). }
    bind_inv E m3 Em3. destruct m3.
    { injection E as <- <-. finish ltac:(cbn [parse_value]). }
    destruct (negb (can_access len s 0)) eqn:Hca.
    { injection E as <- <-. finish ltac:(cbn [parse_value]). }
    bind_inv E c Ec.
    destruct (c =? 34) eqn:H34.
    { bind_inv E x E1. destruct x as (rs & s1). destruct (parse_string_ext _ _ _ E1) as (L1 & T1).
      injection E as <- <-. finish ltac:(cbn [parse_value]). }
    destruct ((c =? 45) || ((48 <=? c) && (c <=? 57))) eqn:Hnum.
    { pose proof (parse_number_req _ _ _ E) as Rn. finish ltac:(cbn [parse_value]). }
    destruct (c =? 91) eqn:H91.
    { destruct (parse_array_ext _ _ (IH) _ _ _ E) as (L1 & T1). finish ltac:(cbn [parse_value]). }
    destruct (c =? 123) eqn:H123.
    { destruct (parse_object_ext _ _ (IH) _ _ _ E) as (L1 & T1). finish ltac:(cbn [parse_value]). }
    injection E as <- <-. finish ltac:(cbn [parse_value]).
  Qed.

  Theorem parse_length_ext rnt r :
    cJSON_ParseWithLengthOpts strtod o1 content len rnt = Ok r ->
    forall N, agree_below N -> (pr_requests r <= N)%nat ->
    cJSON_ParseWithLengthOpts strtod o2 content len rnt = Ok r.
  Proof.
    intros E N A. unfold cJSON_ParseWithLengthOpts in *.
    destruct (len =? 0)%nat; [intros _; exact E|].
    destruct (alloc o1 (mkpst 0 0 0 0)) as (ok & s1) eqn:Ea. destruct (alloc_ext _ _ _ Ea) as (Ra & Ta).
    destruct ok; cbn [negb] in E.
    2: { injection E as <-. cbn [pr_requests fail_result]. intros HN. rewrite (Ta N A HN). reflexivity. }
    bind_inv E s2 E2. pose proof (bom_req _ _ E2) as R2.
    bind_inv E s3 E3. pose proof (bsw_req _ _ E3) as R3.
    bind_inv E x E4. destruct x as (rv & s4). destruct (parse_value_ext _ _ _ _ E4) as (L4 & T4).
    destruct rv as [v|].
    2: { injection E as <-. cbn [pr_requests fail_result release req]. intros HN.
         rewrite (Ta N A ltac:(lia)). cbn [negb]. rewrite E2. cbn [bind]. rewrite E3. cbn [bind].
         rewrite (T4 N A HN). reflexivity. }
    destruct rnt.
    - bind_inv E s5 E5. pose proof (rnt_skip_req _ _ _ E5) as R5.
      assert (HN' : (pr_requests r <= N)%nat -> (req s4 <= N)%nat).
      { destruct (negb (can_access len s5 0)); [injection E as <-; cbn; lia|].
        bind_inv E c Ec. destruct (negb (c =? 0)); injection E as <-; cbn; lia. }
      intros HN. specialize (HN' HN).
      rewrite (Ta N A ltac:(lia)). cbn [negb]. rewrite E2. cbn [bind]. rewrite E3. cbn [bind].
      rewrite (T4 N A HN'). cbn [bind]. rewrite E5. cbn [bind]. exact E.
    - injection E as <-. cbn [pr_requests]. intros HN.
      rewrite (Ta N A ltac:(lia)). cbn [negb]. rewrite E2. cbn [bind]. rewrite E3. cbn [bind].
      rewrite (T4 N A HN). reflexivity.
  Qed.
End Ext.

Theorem parse_string_ext_entry strtod o1 o2 content rnt r :
  cJSON_ParseWithOpts strtod o1 content rnt = Ok r ->
  forall N, (forall k, (k < N)%nat -> o2 k = o1 k) -> (pr_requests r <= N)%nat ->
  cJSON_ParseWithOpts strtod o2 content rnt = Ok r.
Proof.
  unfold cJSON_ParseWithOpts. intros E N A HN. bind_inv E n En. rewrite En. cbn [bind].
  exact (parse_length_ext strtod o1 o2 content (n + 1) rnt r E N A HN).
Qed.

(** none of the requests the call made was refused => the result is the failure-free run's *)
Lemma parse_length_unrefused strtod oracle content len rnt r :
  cJSON_ParseWithLengthOpts strtod oracle content len rnt = Ok r ->
  (forall k, (k < pr_requests r)%nat -> oracle k = false) ->
  cJSON_ParseWithLengthOpts strtod never_fails content len rnt = Ok r.
Proof.
  intros E NF. apply (parse_length_ext strtod oracle never_fails content len rnt r E (pr_requests r)); [|lia].
  intros k Hk. symmetry. apply NF. exact Hk.
Qed.

Lemma parse_string_unrefused strtod oracle content rnt r :
  cJSON_ParseWithOpts strtod oracle content rnt = Ok r ->
  (forall k, (k < pr_requests r)%nat -> oracle k = false) ->
  cJSON_ParseWithOpts strtod never_fails content rnt = Ok r.
Proof.
  intros E NF. apply (parse_string_ext_entry strtod oracle never_fails content rnt r E (pr_requests r)); [|lia].
  intros k Hk. symmetry. apply NF. exact Hk.
Qed.

(** a result that differs from the failure-free run's => one of the requests the call made was refused
    (in particular: NULL on a text the failure-free run accepts) *)
Lemma parse_length_failure_has_cause strtod oracle content len rnt r r0 :
  cJSON_ParseWithLengthOpts strtod oracle content len rnt = Ok r ->
  cJSON_ParseWithLengthOpts strtod never_fails content len rnt = Ok r0 ->
  r <> r0 -> exists k, (k < pr_requests r)%nat /\ oracle k = true.
Proof.
  intros E E0 Hne. destruct (refused_below_dec oracle (pr_requests r)) as [NF|Hex]; [|exact Hex].
  pose proof (parse_length_unrefused strtod oracle content len rnt r E NF) as E'.
  rewrite E0 in E'. injection E' as ->. contradiction Hne. reflexivity.
Qed.

Lemma parse_string_failure_has_cause strtod oracle content rnt r r0 :
  cJSON_ParseWithOpts strtod oracle content rnt = Ok r ->
  cJSON_ParseWithOpts strtod never_fails content rnt = Ok r0 ->
  r <> r0 -> exists k, (k < pr_requests r)%nat /\ oracle k = true.
Proof.
  intros E E0 Hne. destruct (refused_below_dec oracle (pr_requests r)) as [NF|Hex]; [|exact Hex].
  pose proof (parse_string_unrefused strtod oracle content rnt r E NF) as E'.
  rewrite E0 in E'. injection E' as ->. contradiction Hne. reflexivity.
Qed.
