(** PrintStrict.v — C05, part 1: the text [PrintDefs.render] produces for a printable tree is a
    single RFC 8259 value ([Grammar.RFC_value]) denoting the value of the tree ([val_of]).

    The C library conversions are external: everything is stated for EVERY libc satisfying the
    contract record [LibcStrictSpec] (named clauses, no axiom).  The reference implementation
    of LibcPrint.v is never unfolded here.

    Published for C04 (parse o print): [val_of], [printable], [cdepth], [LibcStrictSpec],
    [render_rfc_value], [render_rfc_text], [render_total], [escape_body_chars]. *)
From CJ Require Import Base Dbl Tree Grammar PrintDefs.
Local Open Scope Z_scope.

(** ------------------------------------------------------------------ definitions *)

(** the bytes of a C string field: NULL counts as the empty string (print_string_ptr prints ""),
    a string ends at its first zero byte *)
Definition str_bytes (s : option bytes) : bytes := match s with None => [] | Some b => cstr b end.

(** the node types the printer knows, Raw excluded (raw text is copied verbatim, it is whatever
    the caller stored) *)
Definition ty_ok (t : Z) : bool :=
  (t =? c_cJSON_NULL) || (t =? c_cJSON_False) || (t =? c_cJSON_True) || (t =? c_cJSON_Number)
  || (t =? c_cJSON_String) || (t =? c_cJSON_Array) || (t =? c_cJSON_Object).
Definition is_container (t : Z) : bool := (t =? c_cJSON_Array) || (t =? c_cJSON_Object).

(** well-formedness of a tree to be printed (boolean, so it can be evaluated):
    every masked type that is reached is NULL/False/True/Number/String/Array/Object; valueint of a
    Number is a C int and valuedouble an IEEE binary64 value; the bytes of strings and of member names are bytes (0..255).
    The children of a node that is not a container are not looked at (the printer ignores them). *)
Fixpoint printable (n : node) : bool :=
  match n with
  | Node ty vs vi vd key ch =>
    let t := tymask ty in
    ty_ok t
    && (if t =? c_cJSON_Number then int_range vi && valid_dbl vd else true)
    && (if t =? c_cJSON_String then forallb is_byte (str_bytes vs) else true)
    && (if t =? c_cJSON_Object then forallb (fun c => forallb is_byte (str_bytes (n_key c))) ch else true)
    && (if is_container t then forallb printable ch else true)
  end.

(** container nesting depth: 0 for scalars, 1 + the maximum over the children for arrays/objects
    (what CJSON_NESTING_LIMIT counts in the parser, what the index of [Grammar.value] counts) *)
Fixpoint cdepth (n : node) : nat :=
  match n with
  | Node ty _ _ _ _ ch => if is_container (tymask ty) then S (list_max (map cdepth ch)) else O
  end.

(** the regular expression -?[0-9]+ as a boolean function *)
Definition plain_int_b (t : bytes) : bool :=
  let r := match t with 45 :: r => r | _ => t end in
  match r with [] => false | _ => forallb digit r end.

(** the contract on the C library conversions used by print_number *)
Record LibcStrictSpec (fmt_d : Z -> bytes) (fmt_g15 fmt_g17 : dbl -> bytes) : Prop := {
  (* "%d" of an int is an RFC 8259 number *)
  lss_d_rfc : forall z, int_range z = true -> rfc_number (fmt_d z) = true;
  (* "%1.15g" / "%1.17g" of a finite IEEE binary64 double ([valid_dbl]: SpecFloat's validity predicate,
     i.e. a value a C double can hold) is an RFC 8259 number (the grammar allows e+20 / e-07) *)
  lss_g15_rfc : forall d, is_finite d = true -> valid_dbl d = true -> rfc_number (fmt_g15 d) = true;
  lss_g17_rfc : forall d, is_finite d = true -> valid_dbl d = true -> rfc_number (fmt_g17 d) = true;
  (* all three fit print_number's 26-byte scratch buffer with the terminator *)
  lss_d_len : forall z, int_range z = true -> zlen (fmt_d z) <= c_NUMBER_BUFFER_SIZE - 1;
  lss_g15_len : forall d, is_finite d = true -> valid_dbl d = true -> zlen (fmt_g15 d) <= c_NUMBER_BUFFER_SIZE - 1;
  lss_g17_len : forall d, is_finite d = true -> valid_dbl d = true -> zlen (fmt_g17 d) <= c_NUMBER_BUFFER_SIZE - 1;
  (* "%d" prints an optional minus sign and decimal digits, nothing else (used by int_plain only) *)
  lss_d_plain : forall z, int_range z = true -> plain_int_b (fmt_d z) = true
}.

(** ------------------------------------------------------------------ strings *)

Lemma render_string_eq s : render_string s = 34 :: escape_body (str_bytes s) ++ [34].
Proof. destruct s; reflexivity. Qed.

Lemma small_byte_cases c : 0 <= c < 32 ->
  c = 0 \/ c = 1 \/ c = 2 \/ c = 3 \/ c = 4 \/ c = 5 \/ c = 6 \/ c = 7 \/ c = 8 \/ c = 9 \/ c = 10 \/
  c = 11 \/ c = 12 \/ c = 13 \/ c = 14 \/ c = 15 \/ c = 16 \/ c = 17 \/ c = 18 \/ c = 19 \/ c = 20 \/
  c = 21 \/ c = 22 \/ c = 23 \/ c = 24 \/ c = 25 \/ c = 26 \/ c = 27 \/ c = 28 \/ c = 29 \/ c = 30 \/ c = 31.
Proof. lia. Qed.

(** one byte: its escape sequence followed by a body denotes the byte followed by the body's string *)
Lemma escape_byte_chars c b s : 0 <= c -> chars rfc_raw b s -> chars rfc_raw (escape_byte c ++ b) (c :: s).
Proof.
  intros Hc Hb.
  destruct (Z.ltb_spec c 32) as [Hlt|Hge].
  - (* control bytes: finitely many, each one computed *)
    assert (Hu : forall h1 h2 u, hex4v 48 48 h1 h2 = Some u -> u < 32 -> 0 <= u ->
                 chars rfc_raw (92 :: 117 :: 48 :: 48 :: h1 :: h2 :: b) (u :: s)).
    { intros h1 h2 u Hh Hu1 Hu2.
      change (u :: s) with ([u] ++ s).
      replace [u] with (utf8_of_codepoint u).
      - apply ch_u; auto; unfold is_high_surrogate, is_low_surrogate.
        + destruct (Z.leb_spec 55296 u); [lia|reflexivity].
        + destruct (Z.leb_spec 56320 u); [lia|reflexivity].
      - unfold utf8_of_codepoint. destruct (Z.ltb_spec u 128); [reflexivity|lia]. }
    assert (He : forall e, simple_escape e = Some c -> chars rfc_raw (92 :: e :: b) (c :: s)).
    { intros e He. apply ch_esc; assumption. }
    destruct (small_byte_cases c (conj Hc Hlt)) as
      [->|[->|[->|[->|[->|[->|[->|[->|[->|[->|[->|[->|[->|[->|[->|[->|[->|[->|[->|[->|[->|
       [->|[->|[->|[->|[->|[->|[->|[->|[->|[->| ->]]]]]]]]]]]]]]]]]]]]]]]]]]]]]]];
      cbv [escape_byte ch_quote ch_bslash hex_digit Z.eqb Z.ltb Z.compare Pos.compare Pos.compare_cont
           Z.div Z.modulo Z.div_eucl Z.pos_div_eucl app];
      first [ apply He; reflexivity | apply Hu; [reflexivity|lia|lia] | idtac ].
    all: try (vm_compute escape_byte; first [ apply He; reflexivity | apply Hu; [reflexivity|lia|lia] ]).
  - unfold escape_byte, ch_quote, ch_bslash.
    destruct (Z.eqb_spec c 34) as [->|N1]. { apply ch_esc; [reflexivity|assumption]. }
    destruct (Z.eqb_spec c 92) as [->|N2]. { apply ch_esc; [reflexivity|assumption]. }
    destruct (Z.eqb_spec c 8); [lia|]. destruct (Z.eqb_spec c 12); [lia|].
    destruct (Z.eqb_spec c 10); [lia|]. destruct (Z.eqb_spec c 13); [lia|].
    destruct (Z.eqb_spec c 9); [lia|]. destruct (Z.ltb_spec c 32); [lia|].
    apply ch_raw; auto. unfold rfc_raw. destruct (Z.leb_spec 32 c); [reflexivity|lia].
Qed.

(** the body print_string_ptr emits denotes exactly the string (no zero-freeness needed: a zero
    byte would be printed as \u0000, which denotes the zero byte) *)
Lemma escape_body_chars s : forallb is_byte s = true -> chars rfc_raw (escape_body s) s.
Proof.
  induction s as [|c s IH]; intro H.
  - apply ch_nil.
  - cbn [forallb] in H. apply andb_true_iff in H as [Hc Hs].
    unfold escape_body. cbn [flat_map]. apply escape_byte_chars.
    + unfold is_byte in Hc. apply andb_true_iff in Hc as [Hc _]. apply Z.leb_le in Hc. exact Hc.
    + apply IH; exact Hs.
Qed.

Lemma render_string_value d s : forallb is_byte (str_bytes s) = true ->
  RFC_value d (render_string s) (JStr (str_bytes s)).
Proof. intro H. rewrite render_string_eq. apply v_str. apply escape_body_chars; exact H. Qed.

(** ------------------------------------------------------------------ layout *)
Notation RFC_elements := (elements rfc_ws rfc_raw rfc_num_tok).
Notation RFC_members := (members rfc_ws rfc_raw rfc_num_tok).
Notation rws := (ws rfc_ws).

Lemma rws_nil : rws []. Proof. reflexivity. Qed.
Lemma rws_app a b : rws a -> rws b -> rws (a ++ b).
Proof. unfold ws. intros Ha Hb. rewrite forallb_app, Ha, Hb. reflexivity. Qed.
Lemma rws_tabs d : rws (tabs d).
Proof. unfold tabs, ws. induction (Z.to_nat d) as [|k IH]; [reflexivity|]. cbn [repeat forallb]. rewrite IH. reflexivity. Qed.
Lemma rws_if (b : bool) w : rws w -> rws (if b then w else []).
Proof. destruct b; [auto|intros; apply rws_nil]. Qed.

Lemma join_cons2 sep (x y : bytes) r : join sep (x :: y :: r) = x ++ sep ++ join sep (y :: r).
Proof. reflexivity. Qed.

Lemma opt_all_cons_some {A} (x : A) r l : opt_all r = Some l -> opt_all (Some x :: r) = Some (x :: l).
Proof. intro H. cbn [opt_all]. rewrite H. reflexivity. Qed.

(** array elements: the texts of the elements joined with "," or ", " *)
Lemma join_elements d (vs : list jv) (l : list bytes) wsep :
  rws wsep -> Forall2 (fun t v => RFC_value d t v) l vs -> l <> [] ->
  forall w, rws w -> RFC_elements d (w ++ join (44 :: wsep) l) vs.
Proof.
  intros Hsep HF. induction HF as [|t v l vs Htv HF IH]; intros Hne w Hw.
  - congruence.
  - destruct HF as [|t' v' l' vs' Htv' HF'].
    + cbn [join]. replace (w ++ t) with (w ++ t ++ []) by (rewrite app_nil_r; reflexivity).
      apply e_one; auto using rws_nil.
    + rewrite join_cons2.
      replace (w ++ t ++ (44 :: wsep) ++ join (44 :: wsep) (t' :: l'))
        with (w ++ t ++ [] ++ 44 :: (wsep ++ join (44 :: wsep) (t' :: l'))) by reflexivity.
      apply e_cons; auto using rws_nil. apply IH; [discriminate|exact Hsep].
Qed.

Ltac norm_app := repeat (progress (cbn [app]) || rewrite <- app_assoc).

Lemma m_one_eq d w1 kb k w2 w3 t v w4 txt :
  rws w1 -> chars rfc_raw kb k -> rws w2 -> rws w3 -> RFC_value d t v -> rws w4 ->
  txt = w1 ++ 34 :: kb ++ 34 :: w2 ++ 58 :: w3 ++ t ++ w4 -> RFC_members d txt [(k, v)].
Proof. intros; subst; apply m_one; assumption. Qed.

Lemma m_cons_eq d w1 kb k w2 w3 t v w4 b m txt :
  rws w1 -> chars rfc_raw kb k -> rws w2 -> rws w3 -> RFC_value d t v -> rws w4 -> RFC_members d b m ->
  txt = w1 ++ 34 :: kb ++ 34 :: w2 ++ 58 :: w3 ++ t ++ w4 ++ 44 :: b -> RFC_members d txt ((k, v) :: m).
Proof. intros; subst; apply m_cons; assumption. Qed.

(** object members *)
Lemma members_text_members d fmt dp (keys : list (option bytes)) (l : list bytes) (vs : list jv) :
  Forall (fun k => forallb is_byte (str_bytes k) = true) keys ->
  Forall2 (fun t v => RFC_value d t v) l vs -> length keys = length l -> l <> [] ->
  forall w wend, rws w -> rws wend ->
  RFC_members d (w ++ members_text fmt dp (combine keys l) ++ wend)
              (combine (map str_bytes keys) vs).
Proof.
  intros HK HF. revert keys HK.
  induction HF as [|t v l vs Htv HF IH]; intros keys HK Hlen Hne w wend Hw Hwend.
  - congruence.
  - destruct keys as [|k keys]; [discriminate|]. inversion HK as [|? ? Hk HK']; subst.
    cbn [length] in Hlen. injection Hlen as Hlen.
    destruct HF as [|t' v' l' vs' Htv' HF'].
    + destruct keys; [|discriminate]. cbn [combine map members_text].
      apply (m_one_eq d (w ++ (if fmt then tabs dp else [])) (escape_body (str_bytes k)) (str_bytes k) []
                      (if fmt then [ch_tab] else []) t v ((if fmt then [ch_nl] else []) ++ wend)).
      * apply rws_app; [exact Hw|apply rws_if, rws_tabs].
      * apply escape_body_chars, Hk.
      * apply rws_nil.
      * apply rws_if. reflexivity.
      * exact Htv.
      * apply rws_app; [apply rws_if; reflexivity|exact Hwend].
      * unfold member_text. rewrite render_string_eq. unfold ch_colon. norm_app. reflexivity.
    + destruct keys as [|k' keys]; [discriminate|].
      set (l2 := t' :: l') in *. set (vs2 := v' :: vs') in *. set (keys2 := k' :: keys) in *.
      assert (E : members_text fmt dp (combine (k :: keys2) (t :: l2)) =
                  member_text fmt dp k t false ++ members_text fmt dp (combine keys2 l2)) by reflexivity.
      rewrite E. cbn [map combine].
      apply (m_cons_eq d (w ++ (if fmt then tabs dp else [])) (escape_body (str_bytes k)) (str_bytes k) []
                       (if fmt then [ch_tab] else []) t v [] 
                       ((if fmt then [ch_nl] else []) ++ members_text fmt dp (combine keys2 l2) ++ wend)).
      * apply rws_app; [exact Hw|apply rws_if, rws_tabs].
      * apply escape_body_chars, Hk.
      * apply rws_nil.
      * apply rws_if. reflexivity.
      * exact Htv.
      * apply rws_nil.
      * apply IH; auto.
        -- discriminate.
        -- apply rws_if. reflexivity.
      * unfold member_text. rewrite render_string_eq. unfold ch_colon, ch_comma. norm_app. reflexivity.
Qed.

(** ------------------------------------------------------------------ the main theorem *)
Section Strict.
  Variable fmt_d : Z -> bytes.
  Variable fmt_g15 fmt_g17 : dbl -> bytes.
  Variable sscanf_lg : bytes -> option dbl.
  Hypothesis L : LibcStrictSpec fmt_d fmt_g15 fmt_g17.

  Notation number_text := (number_text fmt_d fmt_g15 fmt_g17 sscanf_lg).
  Notation render := (render fmt_d fmt_g15 fmt_g17 sscanf_lg).

  (** the JSON value a tree denotes *)
  Fixpoint val_of (n : node) : jv :=
    match n with
    | Node ty vs vi vd key ch =>
      let t := tymask ty in
      if t =? c_cJSON_NULL then JNull
      else if t =? c_cJSON_False then JBool false
      else if t =? c_cJSON_True then JBool true
      else if t =? c_cJSON_Number then
        (if is_nan vd || is_inf vd then JNull else JNum (number_text vi vd))
      else if t =? c_cJSON_String then JStr (str_bytes vs)
      else if t =? c_cJSON_Array then JArr (map val_of ch)
      else if t =? c_cJSON_Object then JObj (map (fun c => (str_bytes (n_key c), val_of c)) ch)
      else JNull
    end.

  Lemma finite_of_not_nan_inf d : is_nan d || is_inf d = false -> is_finite d = true.
  Proof. destruct d; simpl; congruence. Qed.

  (** print_number's text for a finite double: an RFC number that fits the scratch buffer *)
  Lemma number_text_finite vi d :
    int_range vi = true -> valid_dbl d = true -> is_nan d || is_inf d = false ->
    rfc_number (number_text vi d) = true /\ zlen (number_text vi d) <= c_NUMBER_BUFFER_SIZE - 1.
  Proof.
    intros Hi Hv Hf. pose proof (finite_of_not_nan_inf d Hf) as Hfin.
    unfold PrintDefs.number_text. rewrite Hf.
    destruct (deq d (dbl_of_int vi)).
    - split; [apply (lss_d_rfc _ _ _ L)|apply (lss_d_len _ _ _ L)]; exact Hi.
    - destruct (sscanf_lg (fmt_g15 d)) as [test|].
      + destruct (compare_double test d).
        * split; [apply (lss_g15_rfc _ _ _ L)|apply (lss_g15_len _ _ _ L)]; assumption.
        * split; [apply (lss_g17_rfc _ _ _ L)|apply (lss_g17_len _ _ _ L)]; assumption.
      + split; [apply (lss_g17_rfc _ _ _ L)|apply (lss_g17_len _ _ _ L)]; assumption.
  Qed.

  Lemma number_text_nonfinite vi d : is_nan d || is_inf d = true -> number_text vi d = lit_null.
  Proof. intro H. unfold PrintDefs.number_text. rewrite H. reflexivity. Qed.

  Lemma render_eq fmt depth ty vs vi vd key ch :
    render fmt depth (Node ty vs vi vd key ch) =
      let t := tymask ty in
      if t =? c_cJSON_NULL then Some lit_null
      else if t =? c_cJSON_False then Some lit_false
      else if t =? c_cJSON_True then Some lit_true
      else if t =? c_cJSON_Number then
        let txt := number_text vi vd in
        if c_NUMBER_BUFFER_SIZE - 1 <? zlen txt then None else Some txt
      else if t =? c_cJSON_Raw then
        match vs with None => None | Some s => Some (cstr s) end
      else if t =? c_cJSON_String then Some (render_string vs)
      else if t =? c_cJSON_Array then
        match opt_all (map (render fmt (depth + 1)) ch) with
        | None => None
        | Some l => Some ([ch_lbrack] ++ join (if fmt then [ch_comma; ch_space] else [ch_comma]) l ++ [ch_rbrack])
        end
      else if t =? c_cJSON_Object then
        match opt_all (map (render fmt (depth + 1)) ch) with
        | None => None
        | Some l =>
            Some ([ch_lbrace] ++ (if fmt then [ch_nl] else [])
                  ++ members_text fmt (depth + 1) (combine (map n_key ch) l)
                  ++ (if fmt then tabs depth else []) ++ [ch_rbrace])
        end
      else None.
  Proof. reflexivity. Qed.

  Lemma val_of_eq ty vs vi vd key ch :
    val_of (Node ty vs vi vd key ch) =
      let t := tymask ty in
      if t =? c_cJSON_NULL then JNull
      else if t =? c_cJSON_False then JBool false
      else if t =? c_cJSON_True then JBool true
      else if t =? c_cJSON_Number then
        (if is_nan vd || is_inf vd then JNull else JNum (number_text vi vd))
      else if t =? c_cJSON_String then JStr (str_bytes vs)
      else if t =? c_cJSON_Array then JArr (map val_of ch)
      else if t =? c_cJSON_Object then JObj (map (fun c => (str_bytes (n_key c), val_of c)) ch)
      else JNull.
  Proof. reflexivity. Qed.

  Lemma printable_eq ty vs vi vd key ch :
    printable (Node ty vs vi vd key ch) =
      let t := tymask ty in
      ty_ok t
      && (if t =? c_cJSON_Number then int_range vi && valid_dbl vd else true)
      && (if t =? c_cJSON_String then forallb is_byte (str_bytes vs) else true)
      && (if t =? c_cJSON_Object then forallb (fun c => forallb is_byte (str_bytes (n_key c))) ch else true)
      && (if is_container t then forallb printable ch else true).
  Proof. reflexivity. Qed.

  Lemma cdepth_eq ty vs vi vd key ch :
    cdepth (Node ty vs vi vd key ch) = if is_container (tymask ty) then S (list_max (map cdepth ch)) else O.
  Proof. reflexivity. Qed.

  (** the children of a container: all rendered, each an RFC value one level down *)
  Lemma children_render ch d :
    Forall (fun c => printable c = true -> forall fmt depth d, (cdepth c <= d)%nat ->
                     exists txt, render fmt depth c = Some txt /\ RFC_value d txt (val_of c)) ch ->
    forallb printable ch = true -> (list_max (map cdepth ch) <= d)%nat ->
    forall fmt depth, exists l, opt_all (map (render fmt depth) ch) = Some l /\
                                Forall2 (fun t v => RFC_value d t v) l (map val_of ch).
  Proof.
    intros HF. induction HF as [|c ch Hc HF IH]; intros Hp Hd fmt depth.
    - exists []. split; [reflexivity|constructor].
    - cbn [forallb] in Hp. apply andb_true_iff in Hp as [Hpc Hpr].
      cbn [map list_max fold_right] in Hd.
      assert (Hd1 : (cdepth c <= d)%nat) by lia.
      assert (Hd2 : (list_max (map cdepth ch) <= d)%nat) by (unfold list_max; lia).
      destruct (Hc Hpc fmt depth d Hd1) as [t [Ht Hv]].
      destruct (IH Hpr Hd2 fmt depth) as [l [Hl HF2]].
      exists (t :: l). split.
      + cbn [map]. rewrite Ht. apply opt_all_cons_some. exact Hl.
      + cbn [map]. constructor; assumption.
  Qed.

  Lemma opt_all_length {A} (r : list (option A)) l : opt_all r = Some l -> length l = length r.
  Proof.
    revert l. induction r as [|[x|] r IH]; intros l H; cbn [opt_all] in H.
    - injection H as <-. reflexivity.
    - destruct (opt_all r) as [l'|]; [|discriminate]. injection H as <-. cbn [length]. rewrite (IH l' eq_refl). reflexivity.
    - discriminate.
  Qed.

  Lemma combine_keys_vals ch :
    combine (map str_bytes (map n_key ch)) (map val_of ch) = map (fun c => (str_bytes (n_key c), val_of c)) ch.
  Proof. induction ch as [|c ch IH]; [reflexivity|]. cbn [map combine]. rewrite IH. reflexivity. Qed.

  (** MAIN: for a printable tree the renderer succeeds and its text is one RFC 8259 value, nesting
      containers as deep as the tree does, denoting [val_of n] — formatted or not, at any depth. *)
  Theorem render_rfc_value : forall n, printable n = true -> forall fmt depth d, (cdepth n <= d)%nat ->
    exists txt, render fmt depth n = Some txt /\ RFC_value d txt (val_of n).
  Proof.
    induction n as [ty vs vi vd key ch IH] using node_ind'.
    intros Hp fmt depth d Hd.
    rewrite render_eq, val_of_eq. rewrite printable_eq in Hp. rewrite cdepth_eq in Hd.
    cbv zeta in *. set (t := tymask ty) in *.
    apply andb_true_iff in Hp as [Hp H5]. apply andb_true_iff in Hp as [Hp H4].
    apply andb_true_iff in Hp as [Hp H3]. apply andb_true_iff in Hp as [H1 H2].
    destruct (t =? c_cJSON_NULL) eqn:E1. { eexists; split; [reflexivity|apply v_null]. }
    destruct (t =? c_cJSON_False) eqn:E2. { eexists; split; [reflexivity|apply v_false]. }
    destruct (t =? c_cJSON_True) eqn:E3. { eexists; split; [reflexivity|apply v_true]. }
    destruct (t =? c_cJSON_Number) eqn:E4.
    { destruct (is_nan vd || is_inf vd) eqn:Ef.
      - rewrite (number_text_nonfinite _ _ Ef). eexists; split; [reflexivity|apply v_null].
      - apply andb_true_iff in H2 as [H2 H2v].
        destruct (number_text_finite vi vd H2 H2v Ef) as [Hr Hl].
        destruct (Z.ltb_spec (c_NUMBER_BUFFER_SIZE - 1) (zlen (number_text vi vd))) as [Hlt|_]; [lia|].
        eexists; split; [reflexivity|]. apply v_num. exact Hr. }
    destruct (t =? c_cJSON_Raw) eqn:E5.
    { exfalso. apply Z.eqb_eq in E5. unfold ty_ok in H1. rewrite E5 in H1. discriminate H1. }
    destruct (t =? c_cJSON_String) eqn:E6.
    { eexists; split; [reflexivity|]. apply render_string_value. exact H3. }
    destruct (t =? c_cJSON_Array) eqn:E7.
    { unfold is_container in H5, Hd. rewrite E7 in H5, Hd. cbn [orb] in H5, Hd.
      destruct d as [|d]; [lia|]. apply le_S_n in Hd.
      destruct (children_render ch d IH H5 Hd fmt (depth + 1)) as [l [Hl HF]].
      rewrite Hl. eexists; split; [reflexivity|].
      unfold ch_lbrack, ch_rbrack. cbn [app].
      destruct l as [|t0 l].
      - inversion HF as [Hm|]. cbn [join app].
        change [91; 93] with (91 :: [] ++ [93]). apply v_arr0. reflexivity.
      - apply v_arr.
        replace (join (if fmt then [ch_comma; ch_space] else [ch_comma]) (t0 :: l))
          with ([] ++ join (44 :: (if fmt then [32] else [])) (t0 :: l)) by (destruct fmt; reflexivity).
        apply join_elements; auto using rws_nil.
        + destruct fmt; reflexivity.
        + discriminate. }
    destruct (t =? c_cJSON_Object) eqn:E8.
    { unfold is_container in H5, Hd. rewrite E8 in H5, Hd. rewrite orb_true_r in H5, Hd.
      destruct d as [|d]; [lia|]. apply le_S_n in Hd.
      destruct (children_render ch d IH H5 Hd fmt (depth + 1)) as [l [Hl HF]].
      rewrite Hl. eexists; split; [reflexivity|].
      unfold ch_lbrace, ch_rbrace. cbn [app].
      pose proof (opt_all_length _ _ Hl) as Hlen. rewrite map_length in Hlen.
      destruct l as [|t0 l].
      - destruct ch; [|discriminate]. cbn [map combine members_text app].
        rewrite app_assoc. apply v_obj0. apply rws_app; apply rws_if; [reflexivity|apply rws_tabs].
      - rewrite <- combine_keys_vals.
        rewrite (app_assoc (members_text _ _ _)). rewrite (app_assoc (if fmt then [ch_nl] else [])).
        apply v_obj. apply members_text_members; auto.
        + rewrite Forall_map. apply Forall_forall. intros c Hc.
          rewrite forallb_forall in H4. apply H4. exact Hc.
        + rewrite map_length. symmetry. exact Hlen.
        + discriminate.
        + apply rws_if. reflexivity.
        + apply rws_if. apply rws_tabs. }
    exfalso. unfold ty_ok in H1. rewrite E1, E2, E3, E4, E6, E7, E8 in H1. discriminate H1.
  Qed.

  (** the renderer never fails on a printable tree *)
  Corollary render_total n fmt depth : printable n = true -> exists txt, render fmt depth n = Some txt.
  Proof.
    intro Hp. destruct (render_rfc_value n Hp fmt depth (cdepth n) (le_n _)) as [txt [H _]]. eauto.
  Qed.

  (** text level: what cJSON_Print / cJSON_PrintUnformatted produce (depth 0) is an RFC 8259
      JSON text within the nesting limit *)
  Corollary render_rfc_text n fmt : printable n = true -> (cdepth n <= nesting_limit)%nat ->
    exists txt, render fmt 0 n = Some txt /\ RFC_text txt (val_of n).
  Proof.
    intros Hp Hd. destruct (render_rfc_value n Hp fmt 0 nesting_limit Hd) as [txt [H1 H2]].
    exists txt. split; [exact H1|].
    exists [], [], txt, []. repeat split; auto using rws_nil.
    rewrite app_nil_r. reflexivity.
  Qed.

  (** the value of a printable tree satisfies the side conditions of the parser theorems (C02):
      number literals at most 63 bytes (they fit the 26-byte scratch), no decoded zero byte
      (strings and names are C strings) *)
  Lemma cstr_zero_free b : Forall (fun c => c <> 0) (cstr b).
  Proof.
    induction b as [|c b IH]; cbn [cstr]; [constructor|].
    destruct (Z.eqb_spec c 0); constructor; assumption.
  Qed.

  Lemma str_bytes_zero_free s : Forall (fun c => c <> 0) (str_bytes s).
  Proof. destruct s; [apply cstr_zero_free|constructor]. Qed.

  Lemma jv_ok_arr l : Forall jv_ok l -> jv_ok (JArr l).
  Proof. induction 1 as [|x l Hx _ IH]; [exact I|]. split; [exact Hx|exact IH]. Qed.

  Lemma jv_ok_obj m : Forall (fun kv => Forall (fun c => c <> 0) (fst kv) /\ jv_ok (snd kv)) m -> jv_ok (JObj m).
  Proof.
    induction 1 as [|[k x] m [Hk Hx] _ IH]; [exact I|]. split; [exact Hk|]. split; [exact Hx|exact IH].
  Qed.

  Theorem val_of_jv_ok : forall n, printable n = true -> jv_ok (val_of n).
  Proof.
    induction n as [ty vs vi vd key ch IH] using node_ind'.
    intros Hp. rewrite val_of_eq. rewrite printable_eq in Hp.
    cbv zeta in *. set (t := tymask ty) in *.
    apply andb_true_iff in Hp as [Hp H5]. apply andb_true_iff in Hp as [Hp H4].
    apply andb_true_iff in Hp as [Hp H3]. apply andb_true_iff in Hp as [H1 H2].
    destruct (t =? c_cJSON_NULL) eqn:E1; [exact I|].
    destruct (t =? c_cJSON_False) eqn:E2; [exact I|].
    destruct (t =? c_cJSON_True) eqn:E3; [exact I|].
    destruct (t =? c_cJSON_Number) eqn:E4.
    { destruct (is_nan vd || is_inf vd) eqn:Ef; [exact I|].
      apply andb_true_iff in H2 as [H2 H2v].
      destruct (number_text_finite vi vd H2 H2v Ef) as [_ Hl].
      cbn [jv_ok]. unfold zlen in Hl. change c_NUMBER_BUFFER_SIZE with 26 in Hl. lia. }
    destruct (t =? c_cJSON_String) eqn:E6. { cbn [jv_ok]. apply str_bytes_zero_free. }
    assert (HF : is_container t = true -> Forall (fun c => jv_ok (val_of c)) ch).
    { intro Hc. rewrite Hc in H5. rewrite forallb_forall in H5. rewrite Forall_forall in IH |- *.
      intros c Hin. apply IH; auto. }
    destruct (t =? c_cJSON_Array) eqn:E7.
    { apply jv_ok_arr. rewrite Forall_map. apply HF. unfold is_container. rewrite E7. reflexivity. }
    destruct (t =? c_cJSON_Object) eqn:E8; [|exact I].
    apply jv_ok_obj. rewrite Forall_map. cbn [fst snd].
    assert (HF' := HF ltac:(unfold is_container; rewrite E8; apply orb_true_r)).
    rewrite Forall_forall in HF' |- *. intros c Hin. split; [apply str_bytes_zero_free|apply HF'; exact Hin].
  Qed.
End Strict.
