(** Properties_C07.v — C07: every allocation is released exactly once; borrowed memory is never
    freed or modified.

    The setting is that of Properties_C06.v: histories over the alphabet [op3] of public tree-API
    calls (construction incl. bulk constructors and the Add…ToObject helpers, editing, setters,
    queries, deletion), run as TRANSLITERATED code on the heap of Heap.v.  In that heap every
    block carries an ownership tag ([Lib]: obtained from the allocator hooks, [Foreign]: caller
    memory — caller strings, hence constant keys and referenced strings) and a liveness bit;
    releasing a non-live library block is the error outcome [DoubleFree], touching one is [UAF],
    releasing / writing a foreign block is [ForeignFree] / [ForeignWrite].  "No block is lost" is
    [lib_live h = blocks owned by the forest] at every moment and [lib_live = ∅] after the
    remaining roots are deleted; "none released twice, none touched after release, borrowed
    memory never released or modified" is: NO ERROR OUTCOME occurs, for every history accepted by
    the checker of the documented ownership rules ([pre_ok_all3b]).

    The checker accepts, among others: reference nodes (string / object / array references,
    item references made by cJSON_AddItemReferenceTo…), constant keys, items moved between
    containers (detach, then add elsewhere), and KEY ARGUMENTS THAT ALIAS the moved item's own
    key block (section 3): the name argument of add / replace is only required to be a readable
    string block — the item's own key is one.

    Histories with parsing, printing, duplication.  The parser and the printers are modelled on
    their own ledgers (they do not take the tree heap as an argument): section 5 re-exports their
    ledger theorems.  They compose with the tree history as follows: a successful parse hands the
    caller a tree whose block count is [blocks t] ([C07_parse_ledger]); ParseUsableHeap.v
    ([mat_sim], [mat_delete], re-exported in Properties_C01.v) shows that this tree, materialised
    in any heap that encodes a forest [F], is a well-formed new ROOT ([WF h' (F ++ [forest_of t])],
    the same number of owned blocks, [lib_live] grown by exactly those), i.e. a state from which
    [C07_history_from_any_state]-style reasoning continues, and that deleting it restores the
    ledger; a printer call leaves exactly the returned text block ([C07_print_ledger]) and reads
    the tree only.  Duplication (section 5): the copy theorem is C11's; its result describes the
    copy by a relation, so cJSON_Duplicate is not a constructor of the alphabet (whose list model is
    a function); instead [C07_duplicate_continues] shows that after a duplication at ANY point of
    a history the heap represents an abstract state again (forest + the copy as a new root), so
    that every theorem of this file continues from there. *)
From CJ Require Import Base Dbl Tree Heap Forest ForestLemmas CoreSpec CoreDefs CoreRefineBase CoreRefine
  CoreRefineDelete CoreRefineReplace CoreRefineMore CoreRefineFrame CoreRefineHistory CoreRefineObject
  CoreRefineByKey CoreRefineAddObject CoreRefineHistoryObj CoreRefineHistoryObjEx CoreRefineCreate
  CoreRefineDupBase CoreRefineDupTree CoreRefineDupNode CoreRefineDupForest
  CoreLedgerGen CoreHistoryAllSteps CoreHistoryAll CoreLedgerAll CoreHistoryAllEx CoreLedgerDup.
From CJ Require ParseDefs ParseSafe PrintDefs PrintFail.
From CJ.gen Require Import Constants.
From stdpp Require Import gmap.
Local Open Scope Z_scope.

(** ------------------------------------------------------------------ 1. the ledger balances *)

(** EVERY history accepted by the checker, from the empty heap:
    - no call ends in an error outcome (in particular no UAF, DoubleFree, ForeignFree, ForeignWrite);
    - afterwards the live library blocks are EXACTLY the blocks owned by the forest;
    - deleting every remaining root with cJSON_Delete never errs and ends with no live library
      block — the allocator's initial balance ([lib_live empty_heap = ∅]);
    - every borrowed block that was live is still live, bit-identical, after the clean-up. *)
Theorem C07_balanced : forall ops,
  pre_ok_all3b S0 ops = true ->
  let S1 := spec_run3 S0 ops in
  exists h1 h2,
    run_ops3 ops empty_heap = Ret (spec_results3 S0 ops, h1) /\
    Abs3 h1 S1 /\
    (forall b, b ∈ lib_live h1 <-> b ∈ owned (a_forest S1)) /\
    delete_roots (roots (a_forest S1)) h1 = Ret (tt, h2) /\
    lib_live h2 = ∅ /\ lib_live empty_heap = ∅ /\
    (forall b, h_own h1 !! b = Some Foreign -> b ∈ h_live h1 -> b ∈ h_live h2 /\ h_str h2 !! b = h_str h1 !! b).
Proof. exact ledger_balanced. Qed.
Print Assumptions C07_balanced.

(** at EVERY moment of an accepted history (every prefix): no error so far, and live library
    blocks = blocks owned by the forest *)
Theorem C07_every_moment : forall ops1 ops2,
  pre_ok_all3 S0 (ops1 ++ ops2) ->
  exists h1, run_ops3 ops1 empty_heap = Ret (spec_results3 S0 ops1, h1) /\ Abs3 h1 (spec_run3 S0 ops1) /\
    (forall b, b ∈ lib_live h1 <-> b ∈ owned (a_forest (spec_run3 S0 ops1))).
Proof. exact ledger_every_moment. Qed.
Print Assumptions C07_every_moment.

(** the invariant: in every represented state the ledger is exact *)
Theorem C07_ledger_exact : forall h S, Abs3 h S -> forall b, b ∈ lib_live h <-> b ∈ owned (a_forest S).
Proof. exact Abs3_ledger. Qed.

(** the clean-up from any represented state *)
Theorem C07_delete_all_roots : forall F S h,
  a_forest S = F -> Abs3 h S ->
  exists h' S', delete_roots (roots F) h = Ret (tt, h') /\ Abs3 h' S' /\ a_forest S' = [] /\ lib_live h' = ∅.
Proof. exact delete_roots_sim. Qed.
Print Assumptions C07_delete_all_roots.

(** the history theorem itself (= C06_history), from any represented state *)
Theorem C07_history_from_any_state : forall ops h S,
  Abs3 h S -> pre_ok_all3 S ops ->
  exists h', run_ops3 ops h = Ret (spec_results3 S ops, h') /\ Abs3 h' (spec_run3 S ops).
Proof. exact history_sim3. Qed.

(** ------------------------------------------------------------------ 2. borrowed memory *)

(** over any accepted history every block tagged [Foreign] that was live stays live, keeps its tag
    and its contents bit for bit *)
Theorem C07_foreign_untouched : forall ops h S,
  Abs3 h S -> pre_ok_all3 S ops ->
  exists h', run_ops3 ops h = Ret (spec_results3 S ops, h') /\ Abs3 h' (spec_run3 S ops) /\
    forall b, h_own h !! b = Some Foreign -> b ∈ h_live h ->
      h_own h' !! b = Some Foreign /\ b ∈ h_live h' /\ h_str h' !! b = h_str h !! b.
Proof. exact foreign_untouched. Qed.
Print Assumptions C07_foreign_untouched.

(** which blocks these are: every block the abstract state lists as caller-owned … *)
Theorem C07_foreign_blocks : forall h S b, Abs3 h S -> b ∈ a_foreign S -> h_own h !! b = Some Foreign /\ b ∈ h_live h.
Proof. exact foreign_blocks. Qed.
(** … among them every constant key of every node *)
Theorem C07_constant_keys_are_foreign : forall h S e b,
  Abs3 h S -> e ∈ datas (a_forest S) -> rd_key e.2 = Some b -> is_const e.2 = true -> b ∈ a_foreign S.
Proof. exact constant_keys_foreign. Qed.

(** the reason, WITHOUT any rule: whenever a call of the alphabet returns at all from a sane heap,
    the heap stays sane, ownership tags of existing blocks are unchanged and live foreign blocks
    are untouched (writing / releasing one is an error outcome by construction of the heap) *)
Theorem C07_calls_are_conservative : forall o h r h',
  run_op3 o h = Ret (r, h') -> HeapOK h -> Cons_post h h'.
Proof. exact Cons_run_op3. Qed.
Print Assumptions C07_calls_are_conservative.

(** ------------------------------------------------------------------ 3. key arguments that alias the item *)

(** cJSON_AddItemToObject(object, item->string, item): the name IS the item's own key block.  The
    call succeeds (the copy is made before the old key is released) and the representation holds *)
Theorem C07_add_key_alias : forall h S p x d cs kb,
  Abs3 h S -> find_root x (a_forest S) = Some (T x d cs) -> rd_key d = Some kb -> movable_into (a_forest S) p x ->
  exists h', add_item_to_object nv (Some p) (Some kb) (Some x) false h = Ret (true, h') /\
             Abs3 h' (s2 S (OAddObj (Some p) (Some kb) (Some x) false)).1.
Proof. exact add_with_own_key. Qed.
Print Assumptions C07_add_key_alias.

(** cJSON_ReplaceItemInObject[CaseSensitive](object, replacement->string, replacement) *)
Theorem C07_replace_key_alias : forall h S p r d cs kb case_sensitive,
  Abs3 h S -> find_root r (a_forest S) = Some (T r d cs) -> rd_key d = Some kb -> movable_into (a_forest S) p r ->
  exists h', replace_item_in_object nv (Some p) (Some kb) (Some r) case_sensitive h =
               Ret ((spec_replace_key3 S (Some p) (Some kb) (Some r) case_sensitive).2, h') /\
             Abs3 h' (spec_replace_key3 S (Some p) (Some kb) (Some r) case_sensitive).1.
Proof. exact replace_with_own_key. Qed.
Print Assumptions C07_replace_key_alias.

(** ------------------------------------------------------------------ 4. releasing a reference *)

(** deleting a reference node (string reference, object / array reference, item reference made by
    create_reference: [is_ref d = true], no children of its own) releases its node block and — if it
    was added to an object under an owned name — its own copy of that name, and NOTHING else:
    every other block keeps links, data and contents; no block of any other tree of the forest
    (the referenced tree included) is among the released ones *)
Theorem C07_reference_release : forall h S r d,
  Abs3 h S -> find_root r (a_forest S) = Some (T r d []) -> is_ref d = true ->
  let S' := (s2 S (OArr (ODelete (Some r)))).1 in
  exists h', cJSON_Delete (Some r) h = Ret (tt, h') /\ Abs3 h' S' /\
    a_forest S' = remove_root r (a_forest S) /\
    (forall b, b ∈ h_live h' <-> b ∈ h_live h /\ b ∉ r :: owned_strs d) /\
    (forall b, b ∈ owned_strs d -> is_const d = false /\ rd_key d = Some b) /\
    (forall b, b ∉ r :: owned_strs d ->
       h_lnk h' !! b = h_lnk h !! b /\ h_dat h' !! b = h_dat h !! b /\ h_str h' !! b = h_str h !! b) /\
    (forall b, b ∈ owned (remove_root r (a_forest S)) -> b ∉ r :: owned_strs d).
Proof. exact reference_release. Qed.
Print Assumptions C07_reference_release.

(** ------------------------------------------------------------------ 5. the parser's and the printers' ledgers; duplication *)

(** cJSON_ParseWithLengthOpts, any input, any failure schedule: NULL => nothing left allocated; a
    tree => exactly its blocks *)
Theorem C07_parse_ledger : forall strtod oracle content len rnt,
  ParseDefs.strtod_ok strtod -> (len <= length content)%nat ->
  exists r, ParseDefs.cJSON_ParseWithLengthOpts strtod oracle content len rnt = Base.Ok r
         /\ (ParseDefs.pr_tree r = None -> ParseDefs.pr_live r = 0)
         /\ (forall t, ParseDefs.pr_tree r = Some t -> ParseDefs.pr_live r = ParseDefs.blocks t).
Proof. exact ParseSafe.parse_length_safe. Qed.
Print Assumptions C07_parse_ledger.

(** cJSON_Print / cJSON_PrintUnformatted, any tree, any failure schedule, any C library: NULL =>
    nothing left allocated; a text => exactly that one block *)
Theorem C07_print_ledger :
  forall oracle junk fmt_d fmt_g15 fmt_g17 sscanf_lg (t : node) (fmt hr : bool) r,
    PrintDefs.print fmt_d fmt_g15 fmt_g17 sscanf_lg oracle junk t fmt hr = Base.Ok r ->
    (PrintDefs.prr_block r = None -> PrintDefs.prr_live r = 0) /\
    (forall b, PrintDefs.prr_block r = Some b -> PrintDefs.prr_live r = 1).
Proof. exact PrintFail.print_ledger_inv. Qed.
Print Assumptions C07_print_ledger.

(** duplication inside a history: from every represented state, duplicating a subtree whose
    strings are readable, without borrowed children, at most CJSON_CIRCULAR_LIMIT deep, returns a
    copy [tc] (fresh blocks only) in a heap that represents the state "forest + [tc] as a new
    root, same caller blocks" — the invariant of this file, from which [C07_history_from_any_state],
    [C07_delete_all_roots] and [C07_foreign_untouched] continue *)
Theorem C07_duplicate_continues : forall h S p t,
  Abs3 h S -> find_tree p (a_forest S) = Some t ->
  vals_readable S t -> no_borrowed t -> (height t <= Z.to_nat c_CJSON_CIRCULAR_LIMIT)%nat ->
  exists tc h' S',
    cJSON_Duplicate nv (Some p) true h = Ret (Some (tid tc), h') /\
    copy_of h' t tc /\
    Abs3 h' S' /\ a_forest S' = a_forest S ++ [tc] /\ a_foreign S' = a_foreign S /\
    (forall b, b ∈ owned [tc] -> (h_next h <= b)%positive /\ b ∉ h_live h).
Proof. exact dup_continues. Qed.
Print Assumptions C07_duplicate_continues.
(** an accepted history, then a duplication, then cJSON_Delete of every root INCLUDING the copy:
    no error outcome, no live library block left, borrowed memory untouched *)
Theorem C07_duplicate_then_balanced : forall ops p,
  pre_ok_all3b S0 ops = true -> dup_okb (spec_run3 S0 ops) p = true ->
  exists h1 tc h2 h3,
    run_ops3 ops empty_heap = Ret (spec_results3 S0 ops, h1) /\
    cJSON_Duplicate nv (Some p) true h1 = Ret (Some (tid tc), h2) /\
    delete_roots (roots (a_forest (spec_run3 S0 ops) ++ [tc])) h2 = Ret (tt, h3) /\
    lib_live h3 = ∅ /\
    (forall b, h_own h1 !! b = Some Foreign -> b ∈ h_live h1 -> b ∈ h_live h3 /\ h_str h3 !! b = h_str h1 !! b).
Proof. exact dup_then_balanced. Qed.
Print Assumptions C07_duplicate_then_balanced.
(** … and, for every oracle and every argument, a duplication that returns leaves borrowed memory alone *)
Theorem C07_duplicate_conservative : forall oracle item recurse h r h',
  cJSON_Duplicate oracle item recurse h = Ret (r, h') -> HeapOK h -> Cons_post h h'.
Proof. exact Cons_cJSON_Duplicate. Qed.
(** non-vacuity: the document built by the C06 example history can be duplicated *)
Theorem C07_duplicate_nonvacuous :
  exists h t tc h' S',
    run_ops3 ex6_live empty_heap = Ret (spec_results3 S0 ex6_live, h) /\
    find_tree 3 (a_forest (spec_run3 S0 ex6_live)) = Some t /\
    cJSON_Duplicate nv (Some 3%positive) true h = Ret (Some (tid tc), h') /\ copy_of h' t tc /\
    Abs3 h' S' /\ a_forest S' = a_forest (spec_run3 S0 ex6_live) ++ [tc].
Proof. exact ex6_dup. Qed.
Theorem C07_duplicate_then_balanced_nonvacuous :
  exists h1 tc h2 h3,
    run_ops3 ex6_live empty_heap = Ret (spec_results3 S0 ex6_live, h1) /\
    cJSON_Duplicate nv (Some 3%positive) true h1 = Ret (Some (tid tc), h2) /\
    delete_roots (roots (a_forest (spec_run3 S0 ex6_live) ++ [tc])) h2 = Ret (tt, h3) /\ lib_live h3 = ∅.
Proof. exact ex6_dup_balanced. Qed.

(** ------------------------------------------------------------------ 6. non-vacuity *)

(** a concrete history — an item moved between two objects with the name being its own key block,
    replace-by-key with the name being the replacement's own key block, a string reference to
    caller memory under a constant key, an item reference to a whole object, both kinds of bulk
    constructor, a delete by key — is accepted by the checker … *)
Theorem C07_nonvacuous_accepted : pre_ok_all3b S0 ex7 = true.
Proof. exact ex7_accepted. Qed.
(** … three roots remain … *)
Theorem C07_nonvacuous_roots : roots (a_forest (spec_run3 S0 ex7)) = [3; 4; 18]%positive.
Proof. exact ex7_roots. Qed.
(** … and RUNNING the transliterated code (history, then cJSON_Delete of the three roots) from the
    empty heap ends without error, with no live library block and the two caller strings live *)
Theorem C07_nonvacuous_run :
  ledger_after (run_ops3 ex7 ;;; delete_roots [3; 4; 18]%positive) empty_heap = Some ([], [1; 2]%positive).
Proof. exact ex7_run_balanced. Qed.
(** the theorem applies to it *)
Theorem C07_nonvacuous :
  exists h1 h2,
    run_ops3 ex7 empty_heap = Ret (spec_results3 S0 ex7, h1) /\
    Abs3 h1 (spec_run3 S0 ex7) /\
    (forall b, b ∈ lib_live h1 <-> b ∈ owned (a_forest (spec_run3 S0 ex7))) /\
    delete_roots (roots (a_forest (spec_run3 S0 ex7))) h1 = Ret (tt, h2) /\
    lib_live h2 = ∅ /\ lib_live empty_heap = ∅ /\
    (forall b, h_own h1 !! b = Some Foreign -> b ∈ h_live h1 -> b ∈ h_live h2 /\ h_str h2 !! b = h_str h1 !! b).
Proof. exact ex7_balanced. Qed.
Print Assumptions C07_nonvacuous.
