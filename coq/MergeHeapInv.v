(** MergeHeapInv.v — the invariant under which the heap-level [merge_patch] (MergeHeapDefs.v) is proved, and
    one step lemma per primitive the function calls.

    [MInv h F]: the heap [h] encodes the forest [F] ([WF], the C06 invariant), is structurally sane ([HeapOK],
    the C07 invariant every computation keeps — it gives [Closed], which [cJSON_Duplicate] needs), every node
    of [F] OWNS its strings (no [cJSON_IsReference], no [cJSON_StringIsConst]) and every string a node refers
    to is a readable C string.  These are the documents the value-level theorems of C18 speak about (what the
    parser, [cJSON_Duplicate] of such a tree and the utilities build).

    The forest is kept in the shape [G ++ [t]]: [G] is the part the call never touches (it contains the
    patch), the LAST root is the item being consumed / built.  Step lemmas (all for the never-failing
    allocator [nofail]), each composing a C06 / C11 simulation lemma with the frame facts [merge_patch] needs:
      [step_delete_last]   cJSON_Delete of the last root
      [step_dup]           cJSON_Duplicate(node of G, 1): new last root, reified = MergeDefs.mp_dup_rec
      [step_create]        cJSON_CreateObject: new last root
      [step_detach_found / _none]   cJSON_DetachItemFromObject[CaseSensitive] on the last root
      [step_add]           cJSON_AddItemToObject(second-last root, key, last root)
    Each gives: the run equation, [MInv] of the new forest, [NoLeak] preserved, and which string blocks
    keep their contents ([KeepO]). *)
From CJ Require Import Base Dbl Heap Forest ForestLemmas CoreSpec CoreDefs CoreRefineBase CoreRefine CoreRefineMore
  CoreRefineDelete CoreRefineReplace CoreRefineObject CoreRefineByKey CoreRefineFrame CoreRefineHistory
  CoreRefineAddObject CoreRefineHistoryObj CoreRefineDupBase CoreRefineDupTree CoreRefineDupNode CoreRefineDupLoop
  CoreRefineDupValue CoreRefineDupForest CoreRefineCreate CoreLedgerGen CoreLedgerDup.
From CJ Require Import TierBridgeDefs TierBridgeForest TierBridgeLemmas TierBridgeEndToEnd TierBridgeEndToEndStr TierBridgeE2E2.
From CJ Require Import MergeHeapDefs.
From CJ Require Tree CompareDefs MergeDefs.
From CJ.gen Require Import Constants.
From stdpp Require Import gmap.
From Coq Require Import Lia.
Local Open Scope Z_scope.

(** * the invariant *)
Definition node_owns (d : rdata) : Prop := is_ref d = false /\ is_const d = false.
Definition str_ok (h : heap) (b : positive) : Prop :=
  b ∈ h_live h /\ exists s : bytes, h_str h !! b = Some s /\ existsb (Z.eqb 0) s = true.
Definition node_readable (h : heap) (d : rdata) : Prop :=
  (forall b, rd_vstr d = Some b -> str_ok h b) /\ (forall b, rd_key d = Some b -> str_ok h b).

Record MInv (h : heap) (F : forest) : Prop := mkMInv {
  mi_wf : WF h F;
  mi_ok : HeapOK h;
  mi_own : forall e, e ∈ datas F -> node_owns e.2;
  mi_read : forall e, e ∈ datas F -> node_readable h e.2
}.

(** string blocks that keep their contents *)
Definition KeepO (h h' : heap) (G : forest) : Prop := forall b, b ∈ owned G -> h_str h' !! b = h_str h !! b.

Lemma KeepO_refl h G : KeepO h h G.
Proof. by intros b _. Qed.
Lemma KeepO_trans h1 h2 h3 G : KeepO h1 h2 G -> KeepO h2 h3 G -> KeepO h1 h3 G.
Proof. intros H1 H2 b Hb. by rewrite H2, H1. Qed.
Lemma owned_app F1 F2 : owned (F1 ++ F2) = owned F1 ++ owned F2.
Proof. unfold owned. by rewrite flat_app, owned_fl_app. Qed.
Lemma KeepO_app_l h h' G1 G2 : KeepO h h' (G1 ++ G2) -> KeepO h h' G1.
Proof. intros H b Hb. apply H. rewrite owned_app. apply elem_of_app. by left. Qed.
Lemma KeepO_app_r h h' G1 G2 : KeepO h h' (G1 ++ G2) -> KeepO h h' G2.
Proof. intros H b Hb. apply H. rewrite owned_app. apply elem_of_app. by right. Qed.

(** * nodes, datas, ownership *)
Lemma datas_of_node F n : n ∈ nodes F -> (tid n, tdata n) ∈ datas F.
Proof.
  intros Hn. unfold datas. apply elem_of_list_fmap. exists (flat_of n). split; [done|]. by apply elem_of_flat.
Qed.
Lemma datas_elem F e : e ∈ datas F <-> exists n, n ∈ nodes F /\ e = (tid n, tdata n).
Proof.
  unfold datas, flat. rewrite elem_of_list_fmap. split.
  - intros (f & -> & Hf). apply elem_of_list_fmap in Hf as (n & -> & Hn). by exists n.
  - intros (n & Hn & ->). exists (flat_of n). split; [done|]. apply elem_of_list_fmap. by exists n.
Qed.
Lemma datas_singleton_root i d cs e : e ∈ datas [T i d cs] <-> e = (i, d) \/ e ∈ datas cs.
Proof.
  unfold datas. rewrite flat_singleton, flat_t_unfold, fmap_cons, elem_of_cons. done.
Qed.
Lemma datas_elem_app F1 F2 e : e ∈ datas (F1 ++ F2) <-> e ∈ datas F1 \/ e ∈ datas F2.
Proof. by rewrite datas_app, elem_of_app. Qed.

Lemma owned_of_elem ds (b : positive) : b ∈ owned_of ds <-> exists e, e ∈ ds /\ (b = e.1 \/ b ∈ owned_strs e.2).
Proof.
  unfold owned_of. rewrite elem_of_list_bind. split.
  - intros (e & Hb & He). exists e. split; [done|]. by apply elem_of_cons in Hb.
  - intros (e & He & Hb). exists e. split; [|done]. by apply elem_of_cons.
Qed.

Lemma node_owns_strs d b : node_owns d -> (rd_vstr d = Some b \/ rd_key d = Some b) -> b ∈ owned_strs d.
Proof.
  intros [H1 H2] Hb. unfold owned_strs. rewrite H1, H2. apply elem_of_app.
  destruct Hb as [->| ->]; [left|right]; cbn; by left.
Qed.
Lemma str_owned F e b : e ∈ datas F -> node_owns e.2 -> (rd_vstr e.2 = Some b \/ rd_key e.2 = Some b) -> b ∈ owned F.
Proof.
  intros He Ho Hb. rewrite owned_datas. apply owned_of_elem. exists e. split; [done|]. right. by apply node_owns_strs.
Qed.

Lemma flat_t_sub F t (e : fnode) : t ∈ nodes F -> e ∈ flat_t t -> e ∈ flat F.
Proof.
  intros Ht He. apply elem_of_list_fmap in He as (m & -> & Hm). apply elem_of_flat.
  by eapply CoreLedgerDup.nodes_t_in_nodes.
Qed.
Lemma owned_t_sub F t b : t ∈ nodes F -> b ∈ owned_fl (flat_t t) -> b ∈ owned F.
Proof. intros Ht Hb. by eapply owned_of_node. Qed.

(** the string blocks of a node of the forest are owned by the forest *)
Lemma str_blocks_in_owned F t b :
  (forall e, e ∈ datas F -> node_owns e.2) -> t ∈ nodes F -> b ∈ str_blocks t -> b ∈ owned F.
Proof.
  intros Ho Ht Hb. apply str_blocks_flat in Hb as (e & He & Hor).
  pose proof (flat_t_sub F t e Ht He) as HeF.
  assert (Hd : fdata e ∈ datas F) by (unfold datas; apply elem_of_list_fmap; by exists e).
  by apply (str_owned F (fdata e) b Hd (Ho _ Hd)).
Qed.

Lemma reify_keep h h' F t :
  (forall e, e ∈ datas F -> node_owns e.2) -> t ∈ nodes F -> KeepO h h' F ->
  reify (h_str h') t = reify (h_str h) t.
Proof. intros Ho Ht K. apply reify_frame. intros b Hb. apply K. by eapply str_blocks_in_owned. Qed.

(** * consequences of the invariant *)
Section Inv.
  Context (h : heap) (F : forest).
  Hypothesis I : MInv h F.
  Let W := mi_wf _ _ I.

  Lemma MInv_Closed : Closed h.
  Proof.
    pose proof (mi_ok _ _ I) as K. apply (Closed_of_WF h F W). intros k Hk. split.
    - intros Hl. pose proof (hk_live _ K k Hl). lia.
    - destruct (h_str h !! k) eqn:E; [|done]. destruct (hk_str _ K k ltac:(eauto)) as [Hl _].
      pose proof (hk_live _ K k Hl). lia.
  Qed.

  Lemma MInv_KeysReadable : KeysReadable h F.
  Proof.
    intros n b Hn Hb. assert (Hd : fdata n ∈ datas F) by (unfold datas; apply elem_of_list_fmap; by exists n).
    exact (proj2 (mi_read _ _ I _ Hd) b Hb).
  Qed.

  Lemma MInv_node_data t : t ∈ nodes F -> node_owns (tdata t) /\ node_readable h (tdata t).
  Proof. intros Ht. pose proof (datas_of_node F t Ht) as Hd. split; [exact (mi_own _ _ I _ Hd)|exact (mi_read _ _ I _ Hd)]. Qed.

  Lemma MInv_strs_readable t : t ∈ nodes F -> strs_readable h t.
  Proof.
    intros Ht i d ks He. pose proof (flat_t_sub F t _ Ht He) as HeF.
    assert (Hd : (i, d) ∈ datas F) by (unfold datas; apply elem_of_list_fmap; by exists (i, d, ks)).
    destruct (mi_read _ _ I _ Hd) as [H1 H2]. cbn in H1, H2. split.
    - intros b Hb. destruct (H1 b Hb) as (Hl & s & Hs & Hz). by exists s.
    - intros b Hb _. destruct (H2 b Hb) as (Hl & s & Hs & Hz). by exists s.
  Qed.

  Lemma MInv_no_borrowed t : t ∈ nodes F -> no_borrowed t.
  Proof.
    intros Ht i d ks He. pose proof (flat_t_sub F t _ Ht He) as HeF.
    assert (Hd : (i, d) ∈ datas F) by (unfold datas; apply elem_of_list_fmap; by exists (i, d, ks)).
    destruct (mi_own _ _ I _ Hd) as [H1 _]. cbn in H1.
    pose proof (wf_ref _ _ W) as R. rewrite Forall_forall in R. destruct (R _ HeF) as [_ R2]. cbn in R2.
    destruct (rd_ref d) eqn:E; [|done]. rewrite R2 in H1; done.
  Qed.

  Lemma MInv_live_dat p d cs :
    find_tree p F = Some (T p d cs) -> p ∈ h_live h /\ h_dat h !! p = Some (mk_dat d (tid <$> cs)).
  Proof. by apply WF_live_dat. Qed.
End Inv.

(** * re-establishing the invariant after a step *)
Lemma MInv_build h h' F F' :
  MInv h F -> WF h' F' -> HeapOK h' ->
  (forall e, e ∈ datas F' -> e ∈ datas F \/ (node_owns e.2 /\ node_readable h' e.2)) ->
  (forall b, b ∈ owned F' -> b ∈ owned F -> h_str h' !! b = h_str h !! b) ->
  MInv h' F'.
Proof.
  intros I W' K' Hd Hk.
  assert (Hown : forall e, e ∈ datas F' -> node_owns e.2).
  { intros e He. destruct (Hd e He) as [Ho|[Ho _]]; [by apply (mi_own _ _ I)|done]. }
  constructor; [done|done|done|].
  intros e He. destruct (Hd e He) as [Ho|[_ Hr]]; [|done].
  destruct (mi_read _ _ I e Ho) as [R1 R2].
  assert (Hb : forall b, rd_vstr e.2 = Some b \/ rd_key e.2 = Some b -> str_ok h b -> str_ok h' b).
  { intros b Hor (Hl & s & Hs & Hz).
    pose proof (str_owned F' e b He (Hown e He) Hor) as Ho'.
    pose proof (str_owned F e b Ho (mi_own _ _ I e Ho) Hor) as Ho0.
    split; [by apply (wf_owned_live _ _ W')|]. exists s. split; [|done]. by rewrite (Hk b Ho' Ho0). }
  split; intros b Hbb; apply Hb; auto.
Qed.

Lemma Cons_ok {A} (m : M A) h a h' : Cons m -> m h = Ret (a, h') -> HeapOK h -> HeapOK h'.
Proof. intros C E K. exact (cp_ok _ _ (C _ _ _ E K)). Qed.

Lemma last_root_fresh h G t : WF h (G ++ [t]) -> tid t ∉ roots G /\ tid t ∉ ids G.
Proof.
  intros W. pose proof (wf_nodup _ _ W) as ND. rewrite ids_app in ND. apply NoDup_app in ND as (_ & Hdis & _).
  assert (Hn : tid t ∉ ids G).
  { intros Hin. apply (Hdis _ Hin). apply roots_subseteq_ids. cbn. by left. }
  split; [|done]. intros Hin. by apply Hn, roots_subseteq_ids.
Qed.
Lemma find_root_last G t : tid t ∉ roots G -> find_root (tid t) (G ++ [t]) = Some t.
Proof. intros Hn. rewrite find_root_app_r by done. unfold find_root. cbn. by rewrite bool_decide_eq_true_2. Qed.

Lemma owned_disjoint_last h G t b : WF h (G ++ [t]) -> b ∈ owned G -> b ∉ owned [t].
Proof.
  intros W Hb Hb'. pose proof (wf_owned_nodup _ _ W) as ND. rewrite owned_app in ND.
  apply NoDup_app in ND as (_ & Hdis & _). by apply (Hdis b).
Qed.

(** * cJSON_Delete of the last root *)
Lemma step_delete_last h G tx :
  MInv h (G ++ [tx]) ->
  exists h', cJSON_Delete (Some (tid tx)) h = Ret (tt, h') /\ MInv h' G /\
             (NoLeak h (G ++ [tx]) -> NoLeak h' G) /\ KeepO h h' G /\ h_next h' = h_next h.
Proof.
  intros I. pose proof (mi_wf _ _ I) as W. destruct (last_root_fresh _ _ _ W) as [Hr Hi].
  destruct (cJSON_Delete_sim h _ _ _ W (find_root_last G tx Hr)) as (_ & Hrun & W' & NL).
  rewrite (CoreRefineReplace.remove_root_snoc G tx Hr) in W', NL.
  set (h' := free_all (free_order [tx]) h) in *.
  assert (K : KeepO h h' G).
  { intros b Hb. unfold h'. apply free_all_str_lookup. rewrite free_order_root_owned. by eapply owned_disjoint_last. }
  exists h'. split; [exact Hrun|]. split; [|split; [exact NL|split; [exact K|]]].
  - apply (MInv_build h h' (G ++ [tx]) G I W').
    + exact (Cons_ok _ _ _ _ (Cons_cJSON_Delete _) Hrun (mi_ok _ _ I)).
    + intros e He. left. apply datas_elem_app. by left.
    + intros b Hb _. by apply K.
  - unfold h'. by rewrite free_all_next.
Qed.

(** cJSON_Delete(NULL) *)
Lemma step_delete_null h : cJSON_Delete None h = Ret (tt, h).
Proof. apply CoreRefineHistory.cJSON_Delete_null. Qed.

(** * cJSON_Duplicate(node of the forest, 1) *)
Lemma data_copy_owns h d d' : data_copy h d d' -> is_const d = false -> node_owns d'.
Proof.
  intros (Ht & _) Hc. split.
  - rewrite <- has_flag_is_ref, Ht. apply clear_ref_is_ref.
  - rewrite <- has_flag_is_const, Ht, clear_ref_is_const, has_flag_is_const. exact Hc.
Qed.
Lemma str_copy_ok h b b' : str_copy h b b' -> str_ok h b'.
Proof.
  intros (s & _ & [Hl Hs]). split; [done|]. exists (cstr s ++ [0]). split; [done|].
  rewrite existsb_app. cbn. by rewrite orb_true_r.
Qed.
Lemma data_copy_readable h d d' : data_copy h d d' -> is_const d = false -> node_readable h d'.
Proof.
  intros (_ & _ & _ & _ & Hv & Hk) Hc. split.
  - intros b Hb. destruct (rd_vstr d) as [b0|]; [|congruence]. destruct Hv as (b' & Hv & Hcp).
    rewrite Hv in Hb. injection Hb as <-. by eapply str_copy_ok.
  - intros b Hb. destruct (rd_key d) as [b0|]; [|congruence]. rewrite Hc in Hk. destruct Hk as (b' & Hk & Hcp).
    rewrite Hk in Hb. injection Hb as <-. by eapply str_copy_ok.
Qed.

Lemma step_dup h F pp tp :
  MInv h F -> find_tree pp F = Some tp -> (height tp <= Z.to_nat c_CJSON_CIRCULAR_LIMIT)%nat ->
  exists tc h', cJSON_Duplicate nofail (Some pp) true h = Ret (Some (tid tc), h') /\
    MInv h' (F ++ [tc]) /\ (NoLeak h F -> NoLeak h' (F ++ [tc])) /\ KeepO h h' F /\
    MergeDefs.mp_dup_rec 0 (reify (h_str h) tp) = Some (reify (h_str h') tc).
Proof.
  intros I Hp Hh. pose proof (mi_wf _ _ I) as W. pose proof Hp as Hp0. apply find_tree_Some in Hp0 as [Hn _].
  destruct (dup_copy nofail h F pp tp W (MInv_Closed _ _ I) Hp (MInv_strs_readable _ _ I _ Hn)
              (MInv_no_borrowed _ _ I _ Hn) Hh) as (r & h' & Hrun & [H|H]).
  { destruct H as (_ & _ & _ & _ & _ & _ & _ & _ & _ & _ & (j & _ & Hj)). discriminate Hj. }
  destruct H as (tc & -> & W' & NL & Hcp & Fr & _ & Hdis & Hnew & _).
  assert (K : KeepO h h' F).
  { intros b Hb. apply (xt_str _ _ _ _ Fr). intros Hs. apply (Hdis b Hb).
    rewrite owned_singleton, owned_fl_split. apply elem_of_app. by right. }
  exists tc, h'. split; [exact Hrun|]. split; [|split; [exact NL|split; [exact K|]]].
  - apply (MInv_build h h' F (F ++ [tc]) I W').
    + exact (Cons_ok _ _ _ _ (Cons_cJSON_Duplicate nofail _ _) Hrun (mi_ok _ _ I)).
    + intros e He. apply datas_elem_app in He as [He|He]; [by left|]. right.
      unfold datas in He. rewrite flat_singleton in He. apply elem_of_list_fmap in He as ([[i' d'] ks'] & -> & He).
      destruct (copy_of_flat _ _ _ Hcp i' d' ks' He) as (i & d & ks & Hsrc & Hdc).
      pose proof (flat_t_sub F tp _ Hn Hsrc) as HsF.
      assert (Hd : (i, d) ∈ datas F) by (unfold datas; apply elem_of_list_fmap; by exists (i, d, ks)).
      destruct (mi_own _ _ I _ Hd) as [_ Hc]. cbn in Hc. cbn [fdata fn_id fn_data fst snd].
      split; [by eapply data_copy_owns|by eapply data_copy_readable].
    + intros b _ Hb. by apply K.
  - destruct (bridge_duplicate h' tp tc Hcp) as (_ & _ & H3). destruct (H3 Hh) as [_ D2].
    rewrite (reify_keep h h' F tp (mi_own _ _ I) Hn K) in D2. exact D2.
Qed.

(** * cJSON_CreateObject *)
Lemma step_create h F :
  MInv h F ->
  let t := T (h_next h) (rd_typed c_cJSON_Object) [] in
  exists h', cJSON_CreateObject nofail h = Ret (Some (h_next h), h') /\
    MInv h' (F ++ [t]) /\ (NoLeak h F -> NoLeak h' (F ++ [t])) /\ h_str h' = h_str h /\
    (forall St, reify St t = MergeDefs.mp_CreateObject).
Proof.
  intros I t. pose proof (mi_wf _ _ I) as W.
  assert (Hrun : cJSON_CreateObject nofail h = Ret (Some (h_next h), alloc_typed h c_cJSON_Object)).
  { unfold cJSON_CreateObject. by apply create_with_type_ok. }
  exists (alloc_typed h c_cJSON_Object). split; [exact Hrun|]. split; [|split; [|split; [done|done]]].
  - apply (MInv_build h _ F (F ++ [t]) I).
    + exact (WF_alloc_typed h F c_cJSON_Object W).
    + exact (Cons_ok _ _ _ _ (Cons_create_with_type nofail _) Hrun (mi_ok _ _ I)).
    + intros e He. apply datas_elem_app in He as [He|He]; [by left|]. right.
      apply datas_singleton_root in He as [->|He]; [|by apply elem_of_nil in He]. cbn. split; [done|]. split; intros b Hb; discriminate Hb.
    + by intros b _ _.
  - exact (NoLeak_alloc_typed h F c_cJSON_Object).
Qed.

(** * the last root as a container *)
Lemma set_children_last G x d cs cs' : x ∉ ids G -> set_children x cs' (G ++ [T x d cs]) = G ++ [T x d cs'].
Proof.
  intros Hn. unfold set_children. rewrite fmap_app. f_equal.
  - exact (set_children_notin x cs' G Hn).
  - cbn. by rewrite decide_True.
Qed.
Lemma find_tree_last h G t : WF h (G ++ [t]) -> find_tree (tid t) (G ++ [t]) = Some t.
Proof. intros W. apply CoreRefineArray.find_tree_snoc_root. apply W. Qed.

(** * cJSON_DetachItemFromObject[CaseSensitive] on the last root; the name is the readable block [kb] *)
Section Detach.
  Context (h : heap) (G : forest) (x : positive) (d : rdata) (cs : list tree) (kb : positive) (sn : bytes) (flag : bool).
  Hypothesis I : MInv h (G ++ [T x d cs]).
  Hypothesis Hkl : kb ∈ h_live h.
  Hypothesis Hks : h_str h !! kb = Some sn.
  Hypothesis Hkz : existsb (Z.eqb 0) sn = true.
  Let F := G ++ [T x d cs].
  Let W : WF h F := mi_wf _ _ I.
  Let Hp : find_tree x F = Some (T x d cs) := find_tree_last h G (T x d cs) W.

  Lemma last_root_not_ref : is_ref d = false.
  Proof.
    assert (Hd : (x, d) ∈ datas F).
    { unfold F. apply datas_elem_app. right. apply datas_singleton_root. by left. }
    exact (proj1 (mi_own _ _ I _ Hd)).
  Qed.

  Lemma step_lookup :
    get_object_item (Some x) (Some kb) flag h =
    Ret ((fun kc => tid kc.2) <$> found_member (h_str h) flag (cstr sn) cs, h).
  Proof.
    rewrite (get_object_item_sim h F x d cs kb sn W (MInv_KeysReadable _ _ I) Hp Hkl Hks Hkz flag last_root_not_ref).
    by rewrite (proj2 (bridge_get_key (h_str h) F x d cs Hp kb sn flag Hks)).
  Qed.

  (** the value-level reading of the same lookup *)
  Lemma step_lookup_value :
    CompareDefs.get_object_item (reify (h_str h) (T x d cs)) (Some (cstr sn)) flag =
    (fun kc => (kc.1, reify (h_str h) kc.2)) <$> found_member (h_str h) flag (cstr sn) cs.
  Proof. exact (proj1 (bridge_get_key (h_str h) F x d cs Hp kb sn flag Hks)). Qed.

  Lemma step_detach_none :
    found_member (h_str h) flag (cstr sn) cs = None ->
    (to_detach <~ get_object_item (Some x) (Some kb) flag ;; cJSON_DetachItemViaPointer (Some x) to_detach) h = Ret (None, h).
  Proof.
    intros E. rewrite (bindM_Ret _ _ _ _ _ step_lookup). rewrite E. cbn [fmap option_fmap option_map].
    exact (proj2 (cJSON_DetachItemViaPointer_null F (Some x) None h (or_intror eq_refl))).
  Qed.

  Lemma step_detach_found j m :
    found_member (h_str h) flag (cstr sn) cs = Some (j, m) ->
    exists h',
      (to_detach <~ get_object_item (Some x) (Some kb) flag ;; cJSON_DetachItemViaPointer (Some x) to_detach) h =
        Ret (Some (tid m), h') /\
      MInv h' ((G ++ [T x d (delete j cs)]) ++ [m]) /\
      (NoLeak h F -> NoLeak h' ((G ++ [T x d (delete j cs)]) ++ [m])) /\
      h_str h' = h_str h /\ h_next h' = h_next h /\ cs !! j = Some m.
  Proof.
    intros E. pose proof (found_member_lookup _ _ _ _ _ _ E) as Hj.
    destruct (last_root_fresh _ _ _ W) as [_ Hxi]. cbn [tid] in Hxi.
    destruct (cJSON_DetachItemViaPointer_sim h F x (tid m) d cs j m W Hp Hj eq_refl) as (_ & Hrun & W').
    pose proof (datas_detach F x d cs j m (wf_nodup _ _ W) Hp Hj) as HD.
    assert (EF : set_children x (delete j cs) F ++ [m] = (G ++ [T x d (delete j cs)]) ++ [m]).
    { unfold F. by rewrite (set_children_last G x d cs (delete j cs) Hxi). }
    rewrite EF in Hrun, W', HD.
    set (F' := (G ++ [T x d (delete j cs)]) ++ [m]) in *.
    set (h' := upd_maps h (heap_lnk_of F') (heap_dat_of F')) in *.
    assert (Hall : (to_detach <~ get_object_item (Some x) (Some kb) flag ;; cJSON_DetachItemViaPointer (Some x) to_detach) h =
                   Ret (Some (tid m), h')).
    { rewrite (bindM_Ret _ _ _ _ _ step_lookup). rewrite E. exact Hrun. }
    exists h'. split; [exact Hall|]. split; [|split; [|done]].
    - apply (MInv_build h h' F F' I W').
      + refine (Cons_ok _ _ _ _ _ Hall (mi_ok _ _ I)). apply Cons_bind; [apply Cons_get_object_item|intros a; apply Cons_cJSON_DetachItemViaPointer].
      + intros e He. left. by rewrite <- HD.
      + by intros b _ _.
    - intros NL. apply (NoLeak_upd_maps h F); [|done]. by rewrite !owned_datas, HD.
  Qed.
End Detach.

(** * [owns_strings] (TierBridgeEndToEndStr.v) from the invariant, and back *)
Lemma owns_strings_of_datas F t : (forall e, e ∈ datas F -> node_owns e.2) -> t ∈ nodes F -> owns_strings t.
Proof.
  intros Ho Ht. unfold owns_strings. apply Forall_forall. intros e He.
  pose proof (flat_t_sub F t e Ht He) as HeF.
  assert (Hd : fdata e ∈ datas F) by (unfold datas; apply elem_of_list_fmap; by exists e).
  exact (Ho _ Hd).
Qed.
Lemma datas_own_of_owns_strings F : Forall owns_strings F -> forall e, e ∈ datas F -> node_owns e.2.
Proof.
  intros HF e He. unfold datas in He. apply elem_of_list_fmap in He as (f & -> & Hf).
  unfold flat in Hf. apply elem_of_list_fmap in Hf as (n & -> & Hn). apply elem_of_nodes in Hn as (t & Ht & Hn).
  rewrite Forall_forall in HF. pose proof (HF t Ht) as Ho. unfold owns_strings in Ho. rewrite Forall_forall in Ho.
  apply (Ho (flat_of n)). apply elem_of_list_fmap. by exists n.
Qed.

(** * cJSON_AddItemToObject(second-last root, name block [kb], last root) *)
Lemma find_tree_last_nd G t : NoDup (ids (G ++ [t])) -> find_tree (tid t) (G ++ [t]) = Some t.
Proof. apply CoreRefineArray.find_tree_snoc_root. Qed.

Section Add.
  Context (h : heap) (G : forest) (p y : positive) (d dy : rdata) (cs csy : list tree) (kb : positive) (sn : bytes).
  Hypothesis I : MInv h ((G ++ [T p d cs]) ++ [T y dy csy]).
  Hypothesis Hkl : kb ∈ h_live h.
  Hypothesis Hks : h_str h !! kb = Some sn.
  Hypothesis Hkz : existsb (Z.eqb 0) sn = true.
  Let F := (G ++ [T p d cs]) ++ [T y dy csy].
  Let W : WF h F := mi_wf _ _ I.
  Let nk := h_next h.
  Let d' := rd_owned_key dy nk.
  Let F' := G ++ [T p d (cs ++ [T y d' csy])].

  Lemma step_add :
    exists h', add_item_to_object nofail (Some p) (Some kb) (Some y) false h = Ret (true, h') /\
      MInv h' F' /\ (NoLeak h F -> NoLeak h' F') /\
      (forall b, b ∈ owned F -> b ∉ old_key dy -> h_str h' !! b = h_str h !! b) /\
      h_str h' !! nk = Some (cstr sn ++ [0]).
  Proof.
    pose proof (wf_nodup _ _ W) as ND.
    destruct (last_root_fresh _ _ _ W) as [Hyr Hyi]. cbn [tid] in Hyr, Hyi.
    assert (ND1 : NoDup (ids (G ++ [T p d cs]))).
    { unfold F in ND. rewrite ids_app in ND. by apply NoDup_app in ND as (? & _ & _). }
    assert (Hpi : p ∉ ids G).
    { rewrite ids_app in ND1. apply NoDup_app in ND1 as (_ & Hdis & _). intros Hin. apply (Hdis _ Hin).
      apply roots_subseteq_ids. cbn. by left. }
    assert (Hpy : p <> y).
    { intros ->. apply Hyi. rewrite ids_app. apply elem_of_app. right. apply roots_subseteq_ids. cbn. by left. }
    assert (Hx : find_root y F = Some (T y dy csy)) by (exact (find_root_last (G ++ [T p d cs]) (T y dy csy) Hyr)).
    assert (Hrr : remove_root y F = G ++ [T p d cs]) by (exact (CoreRefineReplace.remove_root_snoc (G ++ [T p d cs]) (T y dy csy) Hyr)).
    assert (Hp : find_tree p (remove_root y F) = Some (T p d cs)).
    { rewrite Hrr. exact (find_tree_last_nd G (T p d cs) ND1). }
    assert (Hdp : (p, d) ∈ datas F).
    { unfold F. apply datas_elem_app. left. apply datas_elem_app. right. apply datas_singleton_root. by left. }
    assert (Hdy : (y, dy) ∈ datas F).
    { unfold F. apply datas_elem_app. right. apply datas_singleton_root. by left. }
    destruct (mi_own _ _ I _ Hdp) as [Hrefp _]. destruct (mi_own _ _ I _ Hdy) as [Hrefy Hconsty]. cbn [snd] in *.
    assert (Hrd : CoreRefineObject.Readable h kb) by (split; [done|]; by exists sn).
    destruct (add_item_to_object_sim_owned nofail h F p y kb dy d csy cs W Hpy Hx Hp Hrefp sn Hrd Hks eq_refl)
      as (_ & Hrun & W').
    fold nk d' in Hrun, W'. rewrite Hrr, (set_children_last G p d cs _ Hpi) in Hrun, W'. fold F' in Hrun, W'.
    set (hb := free_all (old_key dy) (alloc_str h (cstr sn ++ [0]))) in *.
    set (h' := upd_maps hb (heap_lnk_of F') (heap_dat_of F')) in *.
    destruct (datas_add_to_object F y dy csy p d cs ND Hx Hp) as (DR & HD & HD').
    specialize (HD' d'). fold nk d' in HD'. rewrite Hrr, (set_children_last G p d cs _ Hpi) in HD'. fold F' in HD'.
    assert (Hfresh : nk ∉ owned F) by (intros Hin; exact (Pos.lt_irrefl _ (wf_fresh _ _ W _ Hin))).
    assert (Hrel : forall b, released F F' b <-> b ∈ old_key dy).
    { intros b. eapply (released_rekey F F' y dy d' DR b (wf_owned_nodup _ _ W) HD HD'); [reflexivity|apply is_ref_set_key_clear|].
      intros k Hk. unfold old_key, d' in Hk. rewrite is_const_set_key_clear in Hk. cbn in Hk.
      apply elem_of_list_singleton in Hk as ->. exact Hfresh. }
    assert (Hnk : h_str h' !! nk = Some (cstr sn ++ [0])).
    { unfold h', hb. cbn [h_str upd_maps]. rewrite free_all_str_lookup.
      - cbn. by rewrite lookup_insert.
      - intros Hin. apply Hfresh. by apply (proj2 (Hrel nk)). }
    assert (Hsame : forall b, b ∈ owned F -> b ∉ old_key dy -> h_str h' !! b = h_str h !! b).
    { intros b Hb Hn. unfold h', hb. cbn [h_str upd_maps]. rewrite free_all_str_lookup by done. cbn.
      rewrite lookup_insert_ne; [done|]. intros <-. by apply Hfresh. }
    assert (Hd'F' : (y, d') ∈ datas F') by (rewrite HD'; by left).
    assert (Hown' : node_owns d').
    { split; [unfold d'; by rewrite is_ref_set_key_clear|unfold d'; apply is_const_set_key_clear]. }
    assert (Hnko : nk ∈ owned F').
    { apply (str_owned F' (y, d') nk Hd'F' Hown'). right. reflexivity. }
    exists h'. split; [exact Hrun|]. split; [|split; [|split; [exact Hsame|exact Hnk]]].
    - apply (MInv_build h h' F F' I W').
      + exact (Cons_ok _ _ _ _ (Cons_add_item_to_object nofail _ _ _ _) Hrun (mi_ok _ _ I)).
      + intros e He. rewrite HD' in He. apply elem_of_cons in He as [->|He].
        * right. split; [exact Hown'|]. cbn [snd]. split.
          -- intros b Hb. change (rd_vstr d') with (rd_vstr dy) in Hb.
             destruct (proj1 (mi_read _ _ I _ Hdy) b Hb) as (Hl & s & Hs & Hz).
             assert (Hbo : b ∈ owned F) by (apply (str_owned F (y, dy) b Hdy (mi_own _ _ I _ Hdy)); by left).
             assert (Hbo' : b ∈ owned F') by (apply (str_owned F' (y, d') b Hd'F' Hown'); by left).
             split; [by apply (wf_owned_live _ _ W')|]. exists s. split; [|done].
             rewrite Hsame; [done|done|]. intros Hin. apply (proj2 (Hrel b)) in Hin as [_ Hin]. by apply Hin.
          -- intros b Hb. change (rd_key d') with (Some nk) in Hb. injection Hb as <-.
             split; [by apply (wf_owned_live _ _ W')|]. exists (cstr sn ++ [0]). split; [done|].
             rewrite existsb_app. cbn. by rewrite orb_true_r.
        * left. rewrite HD. by right.
      + intros b Hb' Hb. apply Hsame; [done|]. intros Hin. apply (proj2 (Hrel b)) in Hin as [_ Hin]. by apply Hin.
    - intros NL b Hb. unfold lib_live in Hb. apply elem_of_filter in Hb as [Hb1 Hb2].
      unfold h', hb in Hb1, Hb2. cbn [h_own h_live upd_maps] in Hb1, Hb2. rewrite free_all_own in Hb1.
      apply free_all_live in Hb2 as [Hb2 Hb3]. cbn in Hb1, Hb2.
      destruct (decide (b = nk)) as [->|Hne]; [exact Hnko|].
      rewrite lookup_insert_ne in Hb1 by done.
      assert (Hbl : b ∈ h_live h) by set_solver.
      assert (Hbo : b ∈ owned F) by (apply NL; apply elem_of_filter; done).
      destruct (decide (b ∈ owned F')) as [|Hn]; [done|]. exfalso. apply Hb3. apply Hrel. by split.
  Qed.

  (** the blocks of the untouched part and of the container keep their contents; the new member, reified in the
      new heap, is the value-level [mp_AddItemToObject] of the reified container and item *)
  Lemma step_add_value h' :
    add_item_to_object nofail (Some p) (Some kb) (Some y) false h = Ret (true, h') ->
    KeepO h h' (G ++ [T p d cs]) /\
    reify (h_str h') (T p d (cs ++ [T y d' csy])) =
    MergeDefs.mp_AddItemToObject (reify (h_str h) (T p d cs)) (Some (cstr sn)) (Some (reify (h_str h) (T y dy csy))).
  Proof.
    intros Hrun'. destruct step_add as (h'' & Hrun & I' & _ & Hsame & Hnk).
    rewrite Hrun' in Hrun. injection Hrun as <-.
    pose proof (wf_nodup _ _ W) as ND.
    destruct (last_root_fresh _ _ _ W) as [Hyr Hyi]. cbn [tid] in Hyr, Hyi.
    assert (Hx : find_root y F = Some (T y dy csy)) by (exact (find_root_last (G ++ [T p d cs]) (T y dy csy) Hyr)).
    assert (Hrr : remove_root y F = G ++ [T p d cs]) by (exact (CoreRefineReplace.remove_root_snoc (G ++ [T p d cs]) (T y dy csy) Hyr)).
    assert (ND1 : NoDup (ids (G ++ [T p d cs]))).
    { unfold F in ND. rewrite ids_app in ND. by apply NoDup_app in ND as (? & _ & _). }
    assert (Hp : find_tree p (remove_root y F) = Some (T p d cs)).
    { rewrite Hrr. exact (find_tree_last_nd G (T p d cs) ND1). }
    assert (Hpn : T p d cs ∈ nodes F).
    { unfold F. rewrite nodes_app. apply elem_of_app. left. rewrite nodes_app. apply elem_of_app. right.
      apply roots_in_nodes. by left. }
    assert (Hyn : T y dy csy ∈ nodes F).
    { unfold F. rewrite nodes_app. apply elem_of_app. right. apply roots_in_nodes. by left. }
    assert (Hdy : (y, dy) ∈ datas F) by (exact (datas_of_node F _ Hyn)).
    destruct (mi_own _ _ I _ Hdy) as [Hrefy _]. cbn [snd] in Hrefy.
    assert (Hocs : Forall owns_strings csy).
    { apply Forall_forall. intros c Hc. apply (owns_strings_of_datas F c (mi_own _ _ I)).
      eapply TierBridgeForest.child_in_nodes; [exact Hyn|exact Hc]. }
    pose proof (add_hypothesis_of_owned h F p y d dy cs csy W Hx Hp
                  (owns_strings_of_datas F _ (mi_own _ _ I) Hpn) Hrefy Hocs) as Hfr.
    assert (Hfresh : forall b, b ∈ owned F -> b <> nk).
    { intros b Hb ->. exact (Pos.lt_irrefl _ (wf_fresh _ _ W _ Hb)). }
    assert (Hsame' : forall b, b ∈ str_blocks (T p d cs) ++ opt_list (rd_vstr dy) ++ (csy ≫= str_blocks) ->
                               h_str h' !! b = h_str h !! b).
    { intros b Hb. destruct (Hfr b Hb) as [_ H2]. apply Hsame; [|done].
      apply elem_of_app in Hb as [Hb|Hb].
      - by apply (str_blocks_in_owned F (T p d cs) b (mi_own _ _ I) Hpn).
      - apply (str_blocks_in_owned F (T y dy csy) b (mi_own _ _ I) Hyn). cbn [str_blocks].
        apply elem_of_app in Hb as [Hb|Hb]; apply elem_of_app; [by left|right]. apply elem_of_app. by right. }
    split.
    - intros b Hb. apply Hsame.
      + unfold F. rewrite owned_app. apply elem_of_app. by left.
      + intros Hin. apply (owned_disjoint_last h (G ++ [T p d cs]) (T y dy csy) b W Hb).
        rewrite owned_singleton, flat_t_unfold, owned_fl_cons. apply elem_of_app. left. right.
        rewrite owned_strs_split. apply elem_of_app. by right.
    - rewrite reify_unfold, map_app. cbn [map].
      unfold MergeDefs.mp_AddItemToObject, MergeDefs.mp_add_member.
      rewrite (reify_unfold (h_str h) p d cs). cbn [MergeDefs.mp_set_children Tree.n_children]. f_equal.
      + assert (E : reify (h_str h') (T p d cs) = reify (h_str h) (T p d cs)).
        { apply reify_frame. intros b Hb. apply Hsame'. apply elem_of_app. by left. }
        rewrite !reify_unfold in E. by injection E.
      + assert (E : reify (h_str h') (T p d cs) = reify (h_str h) (T p d cs)).
        { apply reify_frame. intros b Hb. apply Hsame'. apply elem_of_app. by left. }
        rewrite !reify_unfold in E. by injection E.
      + f_equal.
        * assert (E : reify (h_str h') (T p d cs) = reify (h_str h) (T p d cs)).
          { apply reify_frame. intros b Hb. apply Hsame'. apply elem_of_app. by left. }
          rewrite !reify_unfold in E. by injection E.
        * f_equal. destruct (reify_owned_key (h_str h') y dy csy nk (cstr sn ++ [0]) Hnk) as [K1 _].
          fold d' in K1. rewrite K1, cstr_cstr_app.
          rewrite (keyed_frame (h_str h) (h_str h') y dy csy (cstr sn)).
          -- rewrite reify_unfold. unfold PatchDefs.keyed, MergeDefs.mp_keyed, MergeDefs.mp_clear_const.
             cbn [PatchDefs.set_key PatchDefs.set_ty Tree.n_ty]. by rewrite Z.ldiff_land.
          -- intros b Hb. apply Hsame'. apply elem_of_app. by right.
  Qed.
End Add.
