#!/bin/sh
# try_seed.sh <seed-dir-name> <property-id> [tier] — runs the FULL check (proof step + correspondence) against a scratch
# copy of /repo's sources with the seeded change applied; /repo itself is not touched, evidence goes to a scratch dir.
d=/verif/seeded/$1
s=$(mktemp -d /tmp/cjseedfull_XXXXXX)
cp /repo/cJSON.c /repo/cJSON.h /repo/cJSON_Utils.c /repo/cJSON_Utils.h $s/
(cd $s && git apply --include='cJSON*' $d/patch.diff) || { echo "patch does not apply"; rm -rf $s; exit 2; }
cd /verif && VERIF_REPO=$s VERIF_EVIDENCE_DIR=$s/evidence python3 tools/check.py $2 --tier ${3:-quick}; rc=$?
rm -rf $s
# the generated facts may have changed with the scratch sources: regenerate them from /repo
python3 tools/gen_facts.py /repo coq/gen >/dev/null 2>&1
echo "seed=$1 property=$2 exit=$rc"
