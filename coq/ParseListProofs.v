(** ParseListProofs.v — the list-level parser specification [text_l] (ParseSpec.v) reads only
    the bytes before its parse end: these bytes re-parse, by themselves, to the same tree
    ([text_l_prefix]).  All lemmas have the "replace the tail" form: if a run on [l] stops with
    [rest] left over, then [l = pre ++ rest] and the run on [pre ++ x] stops with [x] left over,
    for every [x] (for numbers and values: every [x] that does not start with a number byte,
    because strtod looks at the whole run of number bytes). *)
From CJ Require Import Base Dbl Tree LibcNum ParseDefs ParseSpec.
(* From CJ Require Export ParseListStrtod. *)
Local Open Scope Z_scope.

(** * starts *)

Lemma starts_app : forall lit l r, starts lit l = Some r -> l = lit ++ r.
Proof.
  induction lit as [|a lit IH]; intros l r H.
  - cbn [starts] in H. inversion H. reflexivity.
  - cbn [starts] in H. destruct l as [|c l']; [discriminate H|].
    destruct (Z.eqb_spec c a) as [Hca|Hca]; [|discriminate H].
    subst c. apply IH in H. subst l'. reflexivity.
Qed.

Lemma starts_lit_app : forall lit x, starts lit (lit ++ x) = Some x.
Proof.
  induction lit as [|a lit IH]; intros x.
  - reflexivity.
  - cbn [app starts]. rewrite Z.eqb_refl. apply IH.
Qed.

Lemma starts_mono : forall lit p q r, starts lit p = Some q -> starts lit (p ++ r) = Some (q ++ r).
Proof.
  induction lit as [|a lit IH]; intros p q r H.
  - cbn [starts] in H. inversion H. reflexivity.
  - cbn [starts] in H. destruct p as [|c p']; [discriminate H|].
    cbn [app starts]. destruct (c =? a); [|discriminate H]. apply IH. exact H.
Qed.

Lemma starts_hd_ne : forall a lit c r, c <> a -> starts (a :: lit) (c :: r) = None.
Proof.
  intros a lit c r Hne. cbn [starts]. destruct (Z.eqb_spec c a) as [E|E]; [contradiction|reflexivity].
Qed.

(** * whitespace *)

Definition ws_bytes (ws : bytes) : Prop := Forall (fun b => b <= 32) ws.

Lemma drop_ws_spec : forall l c r, drop_ws l = c :: r ->
  exists ws, l = ws ++ c :: r /\ ws_bytes ws /\ 32 < c.
Proof.
  induction l as [|b l IH]; intros c r H.
  - discriminate H.
  - cbn [drop_ws] in H. destruct (Z.leb_spec b 32) as [Hb|Hb].
    + destruct (IH c r H) as [ws [Hl [Hws Hc]]]. exists (b :: ws). split.
      * cbn [app]. rewrite <- Hl. reflexivity.
      * split; [constructor; assumption|exact Hc].
    + inversion H; subst. exists []. split; [reflexivity|]. split; [constructor|exact Hb].
Qed.

Lemma drop_ws_app : forall ws y, ws_bytes ws -> drop_ws (ws ++ y) = drop_ws y.
Proof.
  induction ws as [|b ws IH]; intros y H.
  - reflexivity.
  - inversion H as [|b' ws' Hb Hws]; subst. cbn [app drop_ws].
    destruct (Z.leb_spec b 32) as [Hb'|Hb']; [|lia]. apply IH. exact Hws.
Qed.

Lemma drop_ws_gt : forall c r, 32 < c -> drop_ws (c :: r) = c :: r.
Proof.
  intros c r H. cbn [drop_ws]. destruct (Z.leb_spec c 32) as [Hb|Hb]; [lia|reflexivity].
Qed.

Lemma drop_ws_ws : forall ws c r, ws_bytes ws -> 32 < c -> drop_ws (ws ++ c :: r) = c :: r.
Proof. intros ws c r Hws Hc. rewrite drop_ws_app by exact Hws. apply drop_ws_gt. exact Hc. Qed.

(** * what may follow a number *)

Definition follow_ok (x : bytes) : Prop :=
  match x with [] => True | c :: _ => number_byte c = false end.

Lemma number_byte_small : forall c, c <= 32 -> number_byte c = false.
Proof.
  intros c H. unfold number_byte.
  destruct (Z.leb_spec 48 c) as [H1|H1]; [lia|].
  destruct (Z.eqb_spec c 43) as [H2|H2]; [lia|].
  destruct (Z.eqb_spec c 45) as [H3|H3]; [lia|].
  destruct (Z.eqb_spec c 101) as [H4|H4]; [lia|].
  destruct (Z.eqb_spec c 69) as [H5|H5]; [lia|].
  destruct (Z.eqb_spec c 46) as [H6|H6]; [lia|].
  reflexivity.
Qed.

Lemma follow_ok_ws : forall ws c y, ws_bytes ws -> number_byte c = false -> follow_ok (ws ++ c :: y).
Proof.
  intros ws c y Hws Hc. destruct ws as [|b ws].
  - exact Hc.
  - inversion Hws as [|b' ws' Hb Hws']; subst. cbn [app follow_ok]. apply number_byte_small. exact Hb.
Qed.

(** * strings *)

Lemma hex4_l_pre : forall l v r, hex4_l l = Some (v, r) ->
  exists p, l = p ++ r /\ length p = 4%nat /\ forall x, hex4_l (p ++ x) = Some (v, x).
Proof.
  intros l v r H. unfold hex4_l in H.
  destruct l as [|a l]; [discriminate H|]. destruct l as [|b l]; [discriminate H|].
  destruct l as [|c l]; [discriminate H|]. destruct l as [|d l]; [discriminate H|].
  destruct (hex_val a) as [ha|] eqn:Ea; [|discriminate H].
  destruct (hex_val b) as [hb|] eqn:Eb; [|discriminate H].
  destruct (hex_val c) as [hc|] eqn:Ec; [|discriminate H].
  destruct (hex_val d) as [hd|] eqn:Ed; [|discriminate H].
  inversion H; subst. exists [a; b; c; d]. split; [reflexivity|]. split; [reflexivity|].
  intros x. unfold hex4_l. cbn [app]. rewrite Ea, Eb, Ec, Ed. reflexivity.
Qed.

Definition str_pre_ok (l o rest : bytes) : Prop :=
  exists pre, l = pre ++ rest /\ (1 <= length pre)%nat /\
    forall x f', (length pre <= f')%nat -> str_l f' (pre ++ x) = Some (o, x).

Lemma str_pre_ext : forall hd b l2 o2 rest,
  str_pre_ok l2 o2 rest -> (1 <= length hd)%nat ->
  (forall f' y, str_l (S f') (hd ++ y) =
                match str_l f' y with Some (o, r) => Some (b ++ o, r) | None => None end) ->
  str_pre_ok (hd ++ l2) (b ++ o2) rest.
Proof.
  intros hd b l2 o2 rest [pre [Hl [Hlen Hre]]] Hhd Hstep.
  exists (hd ++ pre). split; [rewrite Hl, app_assoc; reflexivity|].
  split; [rewrite app_length; lia|].
  intros x f' Hf. rewrite app_length in Hf.
  destruct f' as [|f']; [lia|].
  rewrite <- app_assoc. rewrite Hstep. rewrite Hre by lia. reflexivity.
Qed.

Lemma str_l_pre : forall f l o rest, str_l f l = Some (o, rest) -> str_pre_ok l o rest.
Proof.
  induction f as [|f IH]; intros l o rest H; [discriminate H|].
  destruct l as [|c r]; [discriminate H|].
  cbn [str_l] in H.
  destruct (c =? 34) eqn:E34.
  { inversion H; subst. exists [c]. split; [reflexivity|]. split; [simpl; lia|].
    intros x f' Hf. destruct f' as [|f']; [simpl in Hf; lia|]. cbn [app str_l]. rewrite E34. reflexivity. }
  destruct (c =? 92) eqn:E92.
  2:{ destruct (str_l f r) as [[o2 rest2]|] eqn:Hr; [|discriminate H]. inversion H; subst.
      apply IH in Hr. apply (str_pre_ext [c] [c]); [exact Hr|simpl; lia|].
      intros f' y. cbn [app str_l]. rewrite E34, E92. reflexivity. }
  destruct r as [|e r']; [discriminate H|].
  destruct (e =? 98) eqn:E98.
  { destruct (str_l f r') as [[o2 rest2]|] eqn:Hr; [|discriminate H]. inversion H; subst.
    apply IH in Hr. apply (str_pre_ext [c; e] [8]); [exact Hr|simpl; lia|].
    intros f' y. cbn [app str_l]. rewrite E34, E92, E98. reflexivity. }
  destruct (e =? 102) eqn:E102.
  { destruct (str_l f r') as [[o2 rest2]|] eqn:Hr; [|discriminate H]. inversion H; subst.
    apply IH in Hr. apply (str_pre_ext [c; e] [12]); [exact Hr|simpl; lia|].
    intros f' y. cbn [app str_l]. rewrite E34, E92, E98, E102. reflexivity. }
  destruct (e =? 110) eqn:E110.
  { destruct (str_l f r') as [[o2 rest2]|] eqn:Hr; [|discriminate H]. inversion H; subst.
    apply IH in Hr. apply (str_pre_ext [c; e] [10]); [exact Hr|simpl; lia|].
    intros f' y. cbn [app str_l]. rewrite E34, E92, E98, E102, E110. reflexivity. }
  destruct (e =? 114) eqn:E114.
  { destruct (str_l f r') as [[o2 rest2]|] eqn:Hr; [|discriminate H]. inversion H; subst.
    apply IH in Hr. apply (str_pre_ext [c; e] [13]); [exact Hr|simpl; lia|].
    intros f' y. cbn [app str_l]. rewrite E34, E92, E98, E102, E110, E114. reflexivity. }
  destruct (e =? 116) eqn:E116.
  { destruct (str_l f r') as [[o2 rest2]|] eqn:Hr; [|discriminate H]. inversion H; subst.
    apply IH in Hr. apply (str_pre_ext [c; e] [9]); [exact Hr|simpl; lia|].
    intros f' y. cbn [app str_l]. rewrite E34, E92, E98, E102, E110, E114, E116. reflexivity. }
  destruct ((e =? 34) || (e =? 92) || (e =? 47)) eqn:Eq.
  { destruct (str_l f r') as [[o2 rest2]|] eqn:Hr; [|discriminate H]. inversion H; subst.
    apply IH in Hr. apply (str_pre_ext [c; e] [e]); [exact Hr|simpl; lia|].
    intros f' y. cbn [app str_l]. rewrite E34, E92, E98, E102, E110, E114, E116, Eq. reflexivity. }
  destruct (e =? 117) eqn:E117; [|discriminate H].
  destruct (hex4_l r') as [[fc r2]|] eqn:Hh1; [|discriminate H].
  destruct (hex4_l_pre _ _ _ Hh1) as [p1 [Hr' [Hp1len Hp1]]].
  destruct ((56320 <=? fc) && (fc <=? 57343)) eqn:Elow; [discriminate H|].
  destruct ((55296 <=? fc) && (fc <=? 56319)) eqn:Ehigh.
  - destruct r2 as [|c0 r2]; [discriminate H|]. destruct r2 as [|c1 r3]; [discriminate H|].
    destruct ((c0 =? 92) && (c1 =? 117)) eqn:Ebu; cbn [negb] in H; [|discriminate H].
    apply andb_true_iff in Ebu as [Ec0 Ec1]. apply Z.eqb_eq in Ec0. apply Z.eqb_eq in Ec1. subst c0 c1.
    destruct (hex4_l r3) as [[sc r4]|] eqn:Hh2; [|discriminate H].
    destruct (hex4_l_pre _ _ _ Hh2) as [p2 [Hr3 [Hp2len Hp2]]].
    destruct ((sc <? 56320) || (sc >? 57343)) eqn:Esc; [discriminate H|].
    cbv zeta in H.
    destruct (utf8_encode_c (65536 + Z.lor (Z.shiftl (Z.land fc 1023) 10) (Z.land sc 1023))) as [b|] eqn:Hutf;
      [|discriminate H].
    destruct (str_l f r4) as [[o2 rest2]|] eqn:Hr; [|discriminate H]. inversion H; subst.
    apply IH in Hr.
    replace (c :: e :: p1 ++ 92 :: 117 :: p2 ++ r4) with ((c :: e :: p1 ++ 92 :: 117 :: p2) ++ r4)
      by (cbn [app]; rewrite <- app_assoc; reflexivity).
    apply str_pre_ext; [exact Hr|simpl; lia|].
    intros f' y. cbn [app]. rewrite <- app_assoc. cbn [app str_l].
    rewrite E34, E92, E98, E102, E110, E114, E116, Eq, E117, Hp1, Elow, Ehigh.
    rewrite !Z.eqb_refl. cbn [andb negb]. rewrite Hp2, Esc. cbv zeta. rewrite Hutf. reflexivity.
  - destruct (utf8_encode_c fc) as [b|] eqn:Hutf; [|discriminate H].
    destruct (str_l f r2) as [[o2 rest2]|] eqn:Hr; [|discriminate H]. inversion H; subst.
    apply IH in Hr.
    replace (c :: e :: p1 ++ r2) with ((c :: e :: p1) ++ r2) by reflexivity.
    apply str_pre_ext; [exact Hr|simpl; lia|].
    intros f' y. cbn [app str_l].
    rewrite E34, E92, E98, E102, E110, E114, E116, Eq, E117, Hp1, Elow, Ehigh, Hutf. reflexivity.
Qed.

Lemma string_l_pre : forall l s rest, string_l l = Some (s, rest) ->
  exists pre, l = pre ++ rest /\ (1 <= length pre)%nat /\ forall x, string_l (pre ++ x) = Some (s, x).
Proof.
  intros l s rest H. unfold string_l in H.
  destruct (str_l (S (length l)) l) as [[o rest2]|] eqn:Hs; [|discriminate H]. inversion H; subst.
  destruct (str_l_pre _ _ _ _ Hs) as [pre [Hl [Hlen Hre]]].
  exists pre. split; [exact Hl|]. split; [exact Hlen|].
  intros x. unfold string_l. rewrite Hre; [reflexivity|]. rewrite app_length. lia.
Qed.
