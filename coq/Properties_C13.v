(** Properties_C13.v — property C13: Minify keeps the JSON value, shrinks in place and
    stays in its buffer.  Only statements closed by [exact]; proofs live elsewhere. *)
From CJ Require Import Base MinifyDefs MinifyProofs MinifyValue MinifyOld.
Local Open Scope Z_scope.

(** Safety, for every zero-terminated buffer: [Ok] = every read and write index lies in
    [0, |s|] (the bytes up to and including the original terminator) and the loops
    terminate; the buffer keeps its size; the resulting C string is [minify_spec s] and is
    not longer than the original. *)
Theorem C13_safe : forall s, nz s ->
  exists b', cJSON_Minify (s ++ [0]) = Ok b'
          /\ length b' = length (s ++ [0])
          /\ cstr b' = minify_spec s
          /\ (length (minify_spec s) <= length s)%nat.
Proof. exact cJSON_Minify_correct. Qed.
Print Assumptions C13_safe.

(** Value preservation, for every text = tokens separated by gaps of whitespace, // and
    block comments: the result is the concatenation of the tokens, byte for byte (string
    literals with any escapes included). *)
Theorem C13_value : forall s toks, text s toks -> minify_spec s = concat toks.
Proof. exact minify_text. Qed.
Print Assumptions C13_value.

Theorem C13_idempotent : forall s toks, text s toks -> minify_spec (minify_spec s) = minify_spec s.
Proof. exact minify_idempotent. Qed.
Print Assumptions C13_idempotent.

(** the hypotheses are satisfiable by a non-trivial text *)
Theorem C13_nonvacuous : exists s toks, text s toks /\ length toks = 5%nat /\ nz s.
Proof.
  eexists. eexists. split; [exact text_example|]. split; [reflexivity|].
  unfold nz. repeat constructor; lia.
Qed.
Print Assumptions C13_nonvacuous.

(** finding F7 re-derived: the statement is false of the pinned code's string loop *)
Theorem C13_value_refuted_pinned :
  exists s toks, text s toks /\ minify_old (length s + 1) s <> concat toks.
Proof. exact C13_value_refuted_for_pinned_code. Qed.
Print Assumptions C13_value_refuted_pinned.
