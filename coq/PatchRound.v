(** PatchRound.v — round trip of generated patches through the RFC 6902 evaluator for pairs of
    documents whose common structure consists of arrays (nested to any depth; objects may occur
    inside replaced / added / removed values, but not as two objects compared member by member). *)
From Coq Require Import Lia ZArith List Bool Permutation.
From CJ Require Import Base Dbl Tree PointerDefs PointerProofs CompareDefs PatchDefs PatchProofs PatchRobust Rfc6902
  PatchConform PatchOps PatchApply PatchSort PatchTest PatchMove PatchSeq PatchGen.
Import ListNotations.
Local Open Scope Z_scope.

(** ---------- pointer texts built by create_patches parse to the expected tokens ---------- *)
Lemma split_slash_noslash_id : forall r cur, noslash r -> split_slash r cur = [rev cur ++ r].
Proof.
  induction r as [|c r IH]; intros cur H; cbn [split_slash]; [rewrite app_nil_r; reflexivity|].
  inversion H; subst. zeq c 47; [contradiction|]. rewrite IH by assumption. cbn [rev]. rewrite <- app_assoc. reflexivity.
Qed.

Lemma parse_snoc path P e t : rfc_parse_pointer path = Some P -> noslash e -> unescape e = Some t ->
  rfc_parse_pointer (path ++ 47 :: e) = Some (P ++ [t]).
Proof.
  intros Hp He Ue. destruct path as [|c r].
  - cbn in Hp. inversion Hp; subst P. cbn [app rfc_parse_pointer]. rewrite Z.eqb_refl.
    rewrite split_slash_noslash_id by assumption. cbn [rev app map all_some]. rewrite Ue. reflexivity.
  - cbn [rfc_parse_pointer] in Hp. zeq c 47; [subst c|discriminate]. cbn [app rfc_parse_pointer]. rewrite Z.eqb_refl.
    rewrite split_slash_app, map_app. apply all_some_app. exists P, [t]. split; [exact Hp|]. split; [|reflexivity].
    rewrite split_slash_noslash_id by assumption. cbn [rev app map all_some]. rewrite Ue. reflexivity.
Qed.

Lemma encode_digits l : Forall digit l -> encode_string_as_pointer l = l.
Proof.
  induction l as [|c l IH]; intro H; [reflexivity|]. inversion H as [|? ? Hc Hl]; subst. unfold digit in Hc.
  cbn [encode_string_as_pointer]. zeq c 47; [lia|]. zeq c 126; [lia|]. f_equal. apply IH. exact Hl.
Qed.

Definition idx_tok (i : nat) : bytes := print_lu (Z.of_nat i).

Lemma idx_tok_spec i : Z.of_nat i <= SIZE_MAX ->
  rfc_array_index (idx_tok i) = Some (Z.of_nat i) /\ Forall digit (idx_tok i) /\
  noslash (idx_tok i) /\ unescape (idx_tok i) = Some (idx_tok i) /\ bytes_eqb (idx_tok i) [45] = false /\
  encode_string_as_pointer (idx_tok i) = idx_tok i.
Proof.
  intro H. destruct (print_lu_spec (Z.of_nat i) ltac:(lia)) as [R D]. unfold idx_tok.
  split; [exact R|]. split; [exact D|]. split; [apply digit_not_slash; exact D|]. split; [apply unescape_digits; exact D|].
  split; [|apply encode_digits; exact D].
  destruct (print_lu (Z.of_nat i)) as [|c r]; [reflexivity|]. inversion D as [|? ? Hc _]; subst. unfold digit in Hc.
  cbn [bytes_eqb]. zeq c 45; [lia | reflexivity].
Qed.

(** ---------- the operation objects made by compose_patch, read back by [op_of] ---------- *)
Definition patch_obj (members : list node) : node := set_children create_object members.

Lemma op_of_replace full toks dv : rfc_parse_pointer full = Some toks ->
  op_of (patch_obj [keyed (create_string s_replace) s_op; keyed (create_string full) s_path; keyed dv s_value])
  = Some (Replace toks (keyed dv s_value)).
Proof.
  intro H. unfold op_of, str_member, ptr_member, member, patch_obj. destruct dv as [t0 s0 i0 d0 k0 c0]. cbn. rewrite H. reflexivity.
Qed.
Lemma op_of_add full toks dv : rfc_parse_pointer full = Some toks ->
  op_of (patch_obj [keyed (create_string s_add) s_op; keyed (create_string full) s_path; keyed dv s_value])
  = Some (Add toks (keyed dv s_value)).
Proof.
  intro H. unfold op_of, str_member, ptr_member, member, patch_obj. destruct dv as [t0 s0 i0 d0 k0 c0]. cbn. rewrite H. reflexivity.
Qed.
Lemma op_of_remove full toks : rfc_parse_pointer full = Some toks ->
  op_of (patch_obj [keyed (create_string s_remove) s_op; keyed (create_string full) s_path]) = Some (Remove toks).
Proof.
  intro H. unfold op_of, str_member, ptr_member, member, patch_obj. cbn. rewrite H. reflexivity.
Qed.

(** ---------- relocating operations ---------- *)
Definition prefix_op (P : list bytes) (o : op) : op :=
  match o with
  | Add q v => Add (P ++ q) v
  | Remove q => Remove (P ++ q)
  | Replace q v => Replace (P ++ q) v
  | Move f q => Move (P ++ f) (P ++ q)
  | Copy f q => Copy (P ++ f) (P ++ q)
  | Test q v => Test (P ++ q) v
  end.
Lemma prefix_op_nil o : prefix_op [] o = o.
Proof. destruct o; reflexivity. Qed.
Lemma prefix_op_app P Q o : prefix_op (P ++ Q) o = prefix_op P (prefix_op Q o).
Proof. destruct o; cbn [prefix_op]; rewrite <- ?app_assoc; reflexivity. Qed.
Lemma map_prefix_nil L : map (prefix_op []) L = L.
Proof. induction L as [|o L IH]; [reflexivity|]. cbn [map]. rewrite prefix_op_nil, IH. reflexivity. Qed.
Lemma map_prefix_app P Q L : map (prefix_op (P ++ Q)) L = map (prefix_op P) (map (prefix_op Q) L).
Proof. rewrite map_map. apply map_ext. intro o. apply prefix_op_app. Qed.

(* operations that act strictly inside the document they are evaluated on *)
Definition deep_op (o : op) : Prop :=
  match o with Add q _ | Remove q | Replace q _ => q <> [] | _ => False end.
Definition deep (L : list op) : Prop := Forall deep_op L.

(** ---------- one level of an array: operations below element i only change element i ---------- *)
Lemma split_last_cons t q : q <> [] -> exists pp l, split_last q = Some (pp, l) /\ split_last (t :: q) = Some (t :: pp, l).
Proof.
  intro Hq. destruct (exists_last Hq) as (pp & l & ->). exists pp, l. split; [apply split_last_snoc|].
  change (t :: pp ++ [l]) with ((t :: pp) ++ [l]). apply split_last_snoc.
Qed.

Section ArrayChild.
  Variables (A x : node) (i : nat).
  Hypothesis HA : is_array A = true.
  Hypothesis Hi : nth_error (n_children A) i = Some x.
  Hypothesis Hsmall : Z.of_nat i <= SIZE_MAX.

  Definition A_with (r : node) : node := with_children A (upd_nth i r (n_children A)).

  Lemma at_location_child pp f :
    at_location A (idx_tok i :: pp) f = match at_location x pp f with Some x' => Some (A_with x') | None => None end.
  Proof.
    destruct (idx_tok_spec i Hsmall) as (R & _). cbn [at_location]. rewrite HA, R.
    assert (N : nth_z (n_children A) (Z.of_nat i) = Some x) by (apply nth_z_of_nat; exact Hi).
    rewrite N. rewrite Nat2Z.id. reflexivity.
  Qed.

  Lemma add_child q v : q <> [] -> add A (idx_tok i :: q) v = match add x q v with Some x' => Some (A_with x') | None => None end.
  Proof.
    intro Hq. destruct (split_last_cons (idx_tok i) q Hq) as (pp & l & E1 & E2). unfold add. rewrite E1, E2. apply at_location_child.
  Qed.
  Lemma remove_child q : q <> [] -> remove A (idx_tok i :: q) = match remove x q with Some x' => Some (A_with x') | None => None end.
  Proof.
    intro Hq. destruct (split_last_cons (idx_tok i) q Hq) as (pp & l & E1 & E2). unfold remove. rewrite E1, E2. apply at_location_child.
  Qed.
End ArrayChild.

Lemma upd_nth_nth {A} : forall (l : list A) i x, (i < length l)%nat -> nth_error (upd_nth i x l) i = Some x.
Proof.
  induction l as [|a l IH]; intros i x H; cbn [length] in H; [lia|]. destruct i as [|i]; [reflexivity|].
  unfold upd_nth in *. cbn [firstn skipn app nth_error]. apply IH. lia.
Qed.
Lemma upd_nth_upd {A} : forall (l : list A) i x y, (i < length l)%nat -> upd_nth i y (upd_nth i x l) = upd_nth i y l.
Proof.
  induction l as [|a l IH]; intros i x y H; cbn [length] in H; [lia|]. destruct i as [|i]; [reflexivity|].
  unfold upd_nth in *. cbn [firstn skipn app]. f_equal. apply IH. lia.
Qed.

Lemma is_array_with_children A cs : is_array (with_children A cs) = is_array A.
Proof. destruct A; reflexivity. Qed.
Lemma n_children_with A cs : n_children (with_children A cs) = cs.
Proof. destruct A; reflexivity. Qed.
Lemma with_children_with A cs cs' : with_children (with_children A cs) cs' = with_children A cs'.
Proof. destruct A; reflexivity. Qed.

(* a script acting strictly inside element i *)
Lemma frame_array : forall L A x i r, is_array A = true -> nth_error (n_children A) i = Some x -> Z.of_nat i <= SIZE_MAX ->
  deep L -> eval x L = Some r ->
  eval A (map (prefix_op [idx_tok i]) L) = Some (with_children A (upd_nth i r (n_children A))).
Proof.
  induction L as [|o L IH]; intros A x i r HA Hi Hs Hd E.
  - cbn in E. inversion E; subst r. cbn [map eval]. f_equal.
    assert (upd_nth i x (n_children A) = n_children A).
    { rewrite <- replace_nth_upd by (apply nth_error_Some; rewrite Hi; discriminate). apply replace_nth_same. exact Hi. }
    rewrite H. destruct A; reflexivity.
  - inversion Hd as [|? ? Ho Hd']; subst. cbn [eval] in E. destruct (eval1 x o) as [x1|] eqn:E1; [|discriminate].
    cbn [map eval].
    assert (Hlen : (i < length (n_children A))%nat) by (apply nth_error_Some; rewrite Hi; discriminate).
    assert (S1 : eval1 A (prefix_op [idx_tok i] o) = Some (A_with A i x1)).
    { destruct o as [q v|q|q v|f q|f q|q v]; cbn [deep_op] in Ho; try contradiction; cbn [prefix_op app eval1] in *.
      - rewrite (add_child A x i HA Hi Hs q v Ho), E1. reflexivity.
      - rewrite (remove_child A x i HA Hi Hs q Ho), E1. reflexivity.
      - unfold replace in *. destruct q as [|q0 qs]; [contradiction|].
        destruct (remove x (q0 :: qs)) as [x0|] eqn:R0; [|discriminate].
        rewrite (remove_child A x i HA Hi Hs (q0 :: qs) Ho), R0.
        assert (HA0 : is_array (A_with A i x0) = true) by (unfold A_with; rewrite is_array_with_children; exact HA).
        assert (Hi0 : nth_error (n_children (A_with A i x0)) i = Some x0) by (unfold A_with; rewrite n_children_with; apply upd_nth_nth; exact Hlen).
        rewrite (add_child (A_with A i x0) x0 i HA0 Hi0 Hs (q0 :: qs) v Ho), E1.
        unfold A_with. rewrite n_children_with, with_children_with, upd_nth_upd by exact Hlen. reflexivity. }
    rewrite S1.
    assert (HA1 : is_array (A_with A i x1) = true) by (unfold A_with; rewrite is_array_with_children; exact HA).
    assert (Hi1 : nth_error (n_children (A_with A i x1)) i = Some x1) by (unfold A_with; rewrite n_children_with; apply upd_nth_nth; exact Hlen).
    rewrite (IH (A_with A i x1) x1 i r HA1 Hi1 Hs Hd' E).
    unfold A_with. rewrite n_children_with, with_children_with, upd_nth_upd by exact Hlen. reflexivity.
Qed.

(* replacing element i as a whole *)
Lemma del_ins_upd {A} : forall (l : list A) i v, (i < length l)%nat -> ins_nth i v (del_nth i l) = upd_nth i v l.
Proof.
  induction l as [|a l IH]; intros i v H; cbn [length] in H; [lia|]. destruct i as [|i]; [reflexivity|].
  unfold ins_nth, del_nth, upd_nth in *. cbn [firstn skipn app]. f_equal. apply IH. lia.
Qed.
Lemma del_nth_length {A} (l : list A) i : (i < length l)%nat -> length (del_nth i l) = (length l - 1)%nat.
Proof. intro H. unfold del_nth. rewrite app_length, firstn_length, skipn_length. lia. Qed.

Lemma replace_elem A i v : is_array A = true -> (i < length (n_children A))%nat -> Z.of_nat i <= SIZE_MAX ->
  eval1 A (Replace [idx_tok i] v) = Some (with_children A (upd_nth i v (n_children A))).
Proof.
  intros HA Hi Hs. destruct (idx_tok_spec i Hs) as (R & _ & _ & _ & Nd & _).
  cbn [eval1]. unfold replace, remove, add. change (split_last [idx_tok i]) with (split_last ([] ++ [idx_tok i])). rewrite split_last_snoc.
  cbn [at_location]. unfold remove_member. rewrite HA, R.
  destruct (Z.ltb_spec (Z.of_nat i) (Z.of_nat (length (n_children A)))); [|lia].
  unfold add_member. rewrite is_array_with_children, HA, Nd, R, n_children_with, Nat2Z.id.
  rewrite del_nth_length by exact Hi.
  destruct (Z.leb_spec (Z.of_nat i) (Z.of_nat (length (n_children A) - 1))); [|lia].
  rewrite with_children_with, del_ins_upd by exact Hi. reflexivity.
Qed.

(** ---------- evaluation helpers ---------- *)
Lemma eval_app : forall L1 L2 d, eval d (L1 ++ L2) = match eval d L1 with Some d1 => eval d1 L2 | None => None end.
Proof.
  induction L1 as [|o L1 IH]; intros L2 d; cbn [app eval]; [reflexivity|].
  destruct (eval1 d o); [apply IH | reflexivity].
Qed.

Lemma deep_prefix t L : (forall o, In o L -> match o with Add _ _ | Remove _ | Replace _ _ => True | _ => False end) ->
  deep (map (prefix_op [t]) L).
Proof.
  intro H. unfold deep. rewrite Forall_forall. intros o Ho. apply in_map_iff in Ho. destruct Ho as (o' & <- & Ho').
  specialize (H o' Ho'). destruct o'; try contradiction; cbn; discriminate.
Qed.

Lemma upd_nth_mid {A} (rs : list A) x r rest : upd_nth (length rs) r (rs ++ x :: rest) = rs ++ r :: rest.
Proof.
  unfold upd_nth. rewrite firstn_app, firstn_all, Nat.sub_diag. cbn [firstn]. rewrite app_nil_r. f_equal. f_equal.
  replace (S (length rs)) with (length (rs ++ [x])) by (rewrite app_length; cbn; lia).
  replace (rs ++ x :: rest) with ((rs ++ [x]) ++ rest) by (rewrite <- app_assoc; reflexivity).
  rewrite skipn_app, skipn_all, Nat.sub_diag. reflexivity.
Qed.
Lemma del_nth_mid {A} (rs : list A) x rest : del_nth (length rs) (rs ++ x :: rest) = rs ++ rest.
Proof.
  unfold del_nth. rewrite firstn_app, firstn_all, Nat.sub_diag. cbn [firstn]. rewrite app_nil_r. f_equal.
  replace (S (length rs)) with (length (rs ++ [x])) by (rewrite app_length; cbn; lia).
  replace (rs ++ x :: rest) with ((rs ++ [x]) ++ rest) by (rewrite <- app_assoc; reflexivity).
  rewrite skipn_app, skipn_all, Nat.sub_diag. reflexivity.
Qed.

(* removing the element at index |rs| as often as there are elements behind it *)
Lemma eval_removes : forall rest rs A0, is_array A0 = true -> n_children A0 = rs ++ rest ->
  Z.of_nat (length rs + length rest) <= SIZE_MAX ->
  eval A0 (repeat (Remove [idx_tok (length rs)]) (length rest)) = Some (with_children A0 rs).
Proof.
  induction rest as [|x rest IH]; intros rs A0 HA Hc Hs.
  - cbn. rewrite app_nil_r in Hc. rewrite <- Hc. destruct A0; reflexivity.
  - cbn [length repeat eval]. cbn [length] in Hs.
    destruct (idx_tok_spec (length rs) ltac:(lia)) as (R & _).
    assert (S1 : eval1 A0 (Remove [idx_tok (length rs)]) = Some (with_children A0 (rs ++ rest))).
    { cbn [eval1]. unfold remove. change (split_last [idx_tok (length rs)]) with (split_last ([] ++ [idx_tok (length rs)])). rewrite split_last_snoc.
      cbn [at_location]. unfold remove_member. rewrite HA, R, Hc, app_length. cbn [length].
      destruct (Z.ltb_spec (Z.of_nat (length rs)) (Z.of_nat (length rs + S (length rest)))); [|lia].
      rewrite Nat2Z.id, del_nth_mid. reflexivity. }
    rewrite S1. rewrite (IH rs (with_children A0 (rs ++ rest))).
    + rewrite with_children_with. reflexivity.
    + rewrite is_array_with_children. exact HA.
    + apply n_children_with.
    + lia.
Qed.

Lemma eval_adds : forall kvs A0, is_array A0 = true ->
  eval A0 (map (fun kv => Add [[45]] kv) kvs) = Some (with_children A0 (n_children A0 ++ kvs)).
Proof.
  induction kvs as [|kv kvs IH]; intros A0 HA; cbn [map eval].
  - rewrite app_nil_r. destruct A0; reflexivity.
  - assert (S1 : eval1 A0 (Add [[45]] kv) = Some (with_children A0 (n_children A0 ++ [kv]))).
    { cbn [eval1]. unfold add. change (split_last [[45]]) with (split_last ([] ++ [[45]])). rewrite split_last_snoc.
      cbn [at_location]. unfold add_member. rewrite HA. reflexivity. }
    rewrite S1, IH by (rewrite is_array_with_children; exact HA).
    rewrite n_children_with, with_children_with, <- app_assoc. reflexivity.
Qed.

(** ---------- the patches made for the tail of an array ---------- *)
Section Tail.
  Variables (path : bytes) (P : list bytes).
  Hypothesis Hpath : rfc_parse_pointer path = Some P.

  Lemma compose_remove_idx ps k : Z.of_nat k <= SIZE_MAX ->
    exists pobj, compose_patch ps s_remove path (Some (idx_tok k)) None = ps ++ [pobj] /\
                 op_of pobj = Some (prefix_op P (Remove [idx_tok k])).
  Proof.
    intro Hk. destruct (idx_tok_spec k Hk) as (_ & _ & Ns & Un & _ & En).
    unfold compose_patch. rewrite En. eexists. split; [reflexivity|]. cbn [app prefix_op].
    apply op_of_remove. change (path ++ 47 :: idx_tok k) with (path ++ 47 :: idx_tok k). apply parse_snoc; assumption.
  Qed.

  Lemma rm_fold k : Z.of_nat k <= SIZE_MAX -> forall (lf : list node) ps,
    exists new, fold_left (fun acc (_ : node) => compose_patch acc s_remove path (Some (idx_tok k)) None) lf ps = ps ++ new /\
                all_some (map op_of new) = Some (map (prefix_op P) (repeat (Remove [idx_tok k]) (length lf))).
  Proof.
    intro Hk. induction lf as [|x lf IH]; intro ps; cbn [fold_left length repeat map].
    - exists []. rewrite app_nil_r. split; reflexivity.
    - destruct (compose_remove_idx ps k Hk) as (pobj & E & O). rewrite E.
      destruct (IH (ps ++ [pobj])) as (new & En & On). exists (pobj :: new). rewrite En, <- app_assoc. split; [reflexivity|].
      cbn [map all_some]. rewrite O, On. reflexivity.
  Qed.

  Lemma compose_add_dash ps y : dwf y -> shallow y ->
    exists pobj kv, compose_patch ps s_add path (Some s_dash) (Some y) = ps ++ [pobj] /\
                    op_of pobj = Some (prefix_op P (Add [[45]] kv)) /\ doc_eq kv y.
  Proof.
    intros Hy Hs. destruct (dup_value y Hy Hs) as (dv & Ed & Eq).
    unfold compose_patch. rewrite Ed. do 2 eexists. split; [reflexivity|]. split.
    - cbn [app prefix_op]. apply op_of_add. apply parse_snoc; [exact Hpath | repeat constructor; discriminate | reflexivity].
    - apply (doc_eq_fields_l dv); try (destruct dv; reflexivity); [|exact Eq].
      destruct dv as [t0 s0 i0 d0 k0 c0]. unfold keyed. cbn [set_ty set_key n_ty]. apply tymask_ldiff. reflexivity.
  Qed.

  Lemma add_fold : forall (lt : list node) ps, Forall dwf lt -> Forall shallow lt ->
    exists new kvs, fold_left (fun acc y => compose_patch acc s_add path (Some s_dash) (Some y)) lt ps = ps ++ new /\
                    all_some (map op_of new) = Some (map (prefix_op P) (map (fun kv => Add [[45]] kv) kvs)) /\
                    Forall2 doc_eq kvs lt.
  Proof.
    induction lt as [|y lt IH]; intros ps Hd Hs; cbn [fold_left].
    - exists [], []. rewrite app_nil_r. repeat split; constructor.
    - inversion Hd; subst. inversion Hs; subst.
      destruct (compose_add_dash ps y) as (pobj & kv & E & O & D); try assumption. rewrite E.
      destruct (IH (ps ++ [pobj])) as (new & kvs & En & On & Fn); try assumption.
      exists (pobj :: new), (kv :: kvs). rewrite En, <- app_assoc. split; [reflexivity|]. split; [|constructor; assumption].
      cbn [map all_some]. rewrite O, On. reflexivity.
  Qed.

  Lemma compose_replace_whole ps to : dwf to -> shallow to ->
    exists pobj kv, compose_patch ps s_replace path None (Some to) = ps ++ [pobj] /\
                    op_of pobj = Some (prefix_op P (Replace [] kv)) /\ doc_eq kv to.
  Proof.
    intros Hy Hs. destruct (dup_value to Hy Hs) as (dv & Ed & Eq).
    unfold compose_patch. rewrite Ed. do 2 eexists. split; [reflexivity|]. split.
    - cbn [app prefix_op]. rewrite app_nil_r. apply op_of_replace. exact Hpath.
    - apply (doc_eq_fields_l dv); try (destruct dv; reflexivity); [|exact Eq].
      destruct dv as [t0 s0 i0 d0 k0 c0]. unfold keyed. cbn [set_ty set_key n_ty]. apply tymask_ldiff. reflexivity.
  Qed.
End Tail.

(** ---------- the fragment: the common structure of the two documents consists of arrays ---------- *)
Fixpoint zipP (R : node -> node -> Prop) (la lb : list node) : Prop :=
  match la, lb with x :: la', y :: lb' => R x y /\ zipP R la' lb' | _, _ => True end.

Fixpoint arr_only (from to : node) {struct from} : Prop :=
  match from with
  | Node ty _ _ _ _ ca =>
      tymask ty <> tymask (n_ty to) \/
      (tymask ty <> c_cJSON_Array /\ tymask ty <> c_cJSON_Object) \/
      (tymask ty = c_cJSON_Array /\
       (fix zip (la lb : list node) : Prop :=
          match la, lb with x :: la', y :: lb' => arr_only x y /\ zip la' lb' | _, _ => True end) ca (n_children to))
  end.

Lemma arr_only_unfold ty vs vi vd k ca to :
  arr_only (Node ty vs vi vd k ca) to <->
  (tymask ty <> tymask (n_ty to) \/ (tymask ty <> c_cJSON_Array /\ tymask ty <> c_cJSON_Object) \/
   (tymask ty = c_cJSON_Array /\ zipP arr_only ca (n_children to))).
Proof.
  assert (G : forall la lb, (fix zip (la lb : list node) : Prop :=
             match la, lb with x :: la', y :: lb' => arr_only x y /\ zip la' lb' | _, _ => True end) la lb <-> zipP arr_only la lb).
  { induction la as [|x la IH]; intros [|y lb]; cbn [zipP]; try tauto. rewrite IH. tauto. }
  cbn [arr_only]. rewrite G. tauto.
Qed.

Definition rt_spec (P : list bytes) (ps : list node) (from to : node) (r : res (list node * node * node)) : Prop :=
  exists new L d, r = Ok (ps ++ new, from, to) /\
    all_some (map op_of new) = Some (map (prefix_op P) L) /\
    ((exists v, L = [Replace [] v]) \/ deep L) /\
    eval from L = Some d /\ doc_eq d to.

Lemma deep_repeat_remove t n : deep (repeat (Remove [t]) n).
Proof. unfold deep. rewrite Forall_forall. intros o Ho. apply repeat_spec in Ho. subst o. cbn. discriminate. Qed.
Lemma deep_adds kvs : deep (map (fun kv => Add [[45]] kv) kvs).
Proof. unfold deep. rewrite Forall_forall. intros o Ho. apply in_map_iff in Ho. destruct Ho as (kv & <- & _). cbn. discriminate. Qed.

Lemma rt_arr_loop rec path P : rfc_parse_pointer path = Some P ->
  forall lf lt ps rs,
  Forall dwf lf -> Forall dwf lt -> Forall shallow lt -> zipP arr_only lf lt ->
  Z.of_nat (length rs + length lf) <= SIZE_MAX ->
  (forall ps p Q x y, In x lf -> dwf x -> dwf y -> shallow y -> arr_only x y -> rfc_parse_pointer p = Some Q ->
                      rt_spec Q ps x y (rec ps p x y)) ->
  exists new L tail,
    cp_arr rec path ps (Z.of_nat (length rs)) lf lt = Ok (ps ++ new, lf, lt) /\
    all_some (map op_of new) = Some (map (prefix_op P) L) /\ deep L /\
    (forall A0, is_array A0 = true -> n_children A0 = rs ++ lf -> eval A0 L = Some (with_children A0 (rs ++ tail))) /\
    Forall2 doc_eq tail lt.
Proof.
  intro Hpath. induction lf as [|x lf IH]; intros lt ps rs Hf Ht Hsh Hz Hs Hrec.
  - (* 'from' exhausted: append the rest of 'to' *)
    cbn [cp_arr fold_left].
    destruct (add_fold path P Hpath lt ps Ht Hsh) as (new & kvs & En & On & Fn).
    rewrite En. exists new, (map (fun kv => Add [[45]] kv) kvs), kvs.
    split; [reflexivity|]. split; [exact On|]. split; [apply deep_adds|]. split; [|exact Fn].
    intros A0 HA Hc. rewrite eval_adds by exact HA. rewrite Hc, !app_nil_r. reflexivity.
  - destruct lt as [|y lt].
    + (* 'to' exhausted: remove the rest of 'from', always at the same index *)
      cbn [cp_arr]. cbn [length] in Hs.
      destruct (rm_fold path P Hpath (length rs) ltac:(lia) (x :: lf) ps) as (new & En & On).
      change (print_lu (Z.of_nat (length rs))) with (idx_tok (length rs)). rewrite En. cbn [fold_left].
      exists new, (repeat (Remove [idx_tok (length rs)]) (length (x :: lf))), [].
      split; [reflexivity|]. split; [exact On|]. split; [apply deep_repeat_remove|]. split; [|constructor].
      intros A0 HA Hc. rewrite (eval_removes (x :: lf) rs A0 HA Hc) by (cbn [length]; lia). rewrite app_nil_r. reflexivity.
    + cbn [cp_arr]. cbn [length] in Hs.
      inversion Hf as [|? ? Hx Hf']; subst. inversion Ht as [|? ? Hy Ht']; subst. inversion Hsh as [|? ? Hsy Hsh']; subst.
      cbn [zipP] in Hz. destruct Hz as [Hxy Hz'].
      destruct (idx_tok_spec (length rs) ltac:(lia)) as (_ & _ & Ns & Un & _ & _).
      assert (Hp' : rfc_parse_pointer (path ++ [47] ++ print_lu (Z.of_nat (length rs))) = Some (P ++ [idx_tok (length rs)])).
      { change (path ++ [47] ++ print_lu (Z.of_nat (length rs))) with (path ++ 47 :: idx_tok (length rs)). apply parse_snoc; assumption. }
      destruct (Hrec ps _ _ x y (or_introl eq_refl) Hx Hy Hsy Hxy Hp') as (new1 & L1 & r1 & E1 & O1 & Sh1 & Ev1 & D1).
      rewrite E1. cbn [bind].
      destruct (IH lt (ps ++ new1) (rs ++ [r1]) Hf' Ht' Hsh' Hz') as (new2 & L2 & tail2 & E2 & O2 & Dp2 & Ev2 & F2).
      { rewrite app_length. cbn [length]. lia. }
      { intros; apply Hrec; try assumption. right; assumption. }
      replace (Z.of_nat (length rs) + 1) with (Z.of_nat (length (rs ++ [r1]))) by (rewrite app_length; cbn [length]; lia).
      rewrite E2. cbn [bind].
      exists (new1 ++ new2), (map (prefix_op [idx_tok (length rs)]) L1 ++ L2), (r1 :: tail2).
      split; [rewrite app_assoc; reflexivity|]. split; [|split; [|split]].
      * rewrite !map_app. apply all_some_app. do 2 eexists. split; [exact O1|]. split; [exact O2|].
        rewrite map_prefix_app. reflexivity.
      * unfold deep. apply Forall_app. split; [|exact Dp2]. apply deep_prefix.
        intros o Ho. destruct Sh1 as [(v & ->)|Dp1]; [destruct Ho as [<-|[]]; exact I|].
        unfold deep in Dp1. rewrite Forall_forall in Dp1. specialize (Dp1 o Ho). destruct o; try contradiction; exact I.
      * intros A0 HA Hc. rewrite eval_app.
        assert (Hnth : nth_error (n_children A0) (length rs) = Some x).
        { rewrite Hc, nth_error_app2, Nat.sub_diag by lia. reflexivity. }
        assert (S1 : eval A0 (map (prefix_op [idx_tok (length rs)]) L1) = Some (with_children A0 (rs ++ r1 :: lf))).
        { destruct Sh1 as [(v & ->)|Dp1].
          - cbn in Ev1. inversion Ev1; subst r1. cbn [map prefix_op app eval].
            rewrite replace_elem; [|exact HA | rewrite Hc, app_length; cbn [length]; lia | lia].
            rewrite Hc, upd_nth_mid. reflexivity.
          - rewrite (frame_array L1 A0 x (length rs) r1 HA Hnth ltac:(lia) Dp1 Ev1). rewrite Hc, upd_nth_mid. reflexivity. }
        rewrite S1. rewrite (Ev2 (with_children A0 (rs ++ r1 :: lf))).
        -- rewrite with_children_with, <- app_assoc. reflexivity.
        -- rewrite is_array_with_children. exact HA.
        -- rewrite n_children_with, <- app_assoc. reflexivity.
      * constructor; assumption.
Qed.

Lemma shallow_child to y : shallow to -> In y (n_children to) -> shallow y.
Proof. unfold shallow. intros H Hy. pose proof (depth_child to y Hy). lia. Qed.

Lemma rt_create : forall fuel ps path P from to, (node_depth from <= fuel)%nat -> dwf from -> dwf to -> shallow to ->
  arr_only from to -> rfc_parse_pointer path = Some P ->
  rt_spec P ps from to (create_patches fuel ps path from to true).
Proof.
  induction fuel as [|f IH]; intros ps path P from to Hdep Hf Ht Hs Ha Hp.
  - destruct from. rewrite node_depth_eq in Hdep. lia.
  - unfold rt_spec. cbn [create_patches].
    destruct from as [ty vs vi vd k ca]. cbn [n_ty n_vint n_vdbl n_vstr n_children].
    pose proof (dwf_local _ Hf) as (L & J & Sv & Nv & Ov). cbn [n_ty n_vstr n_vdbl n_children] in *.
    apply arr_only_unfold in Ha.
    assert (REP : exists new L0 d, Ok (compose_patch ps s_replace path None (Some to), Node ty vs vi vd k ca, to) = Ok (ps ++ new, Node ty vs vi vd k ca, to) /\
              all_some (map op_of new) = Some (map (prefix_op P) L0) /\ ((exists v, L0 = [Replace [] v]) \/ deep L0) /\
              eval (Node ty vs vi vd k ca) L0 = Some d /\ doc_eq d to).
    { destruct (compose_replace_whole path P Hp ps to Ht Hs) as (pobj & kv & E & O & D). rewrite E.
      exists [pobj], [Replace [] kv], kv. split; [reflexivity|]. split; [cbn [map all_some]; rewrite O; reflexivity|].
      split; [left; eexists; reflexivity|]. split; [reflexivity | exact D]. }
    assert (NOP : doc_eq (Node ty vs vi vd k ca) to -> exists new L0 d, Ok (ps, Node ty vs vi vd k ca, to) = Ok (ps ++ new, Node ty vs vi vd k ca, to) /\
              all_some (map op_of new) = Some (map (prefix_op P) L0) /\ ((exists v, L0 = [Replace [] v]) \/ deep L0) /\
              eval (Node ty vs vi vd k ca) L0 = Some d /\ doc_eq d to).
    { intro D. exists [], [], (Node ty vs vi vd k ca). rewrite app_nil_r. split; [reflexivity|]. split; [reflexivity|].
      split; [right; constructor|]. split; [reflexivity | exact D]. }
    destruct (Z.eqb_spec (tymask ty) (tymask (n_ty to))) as [Et|Et]; cbn [negb]; [|exact REP].
    destruct (Z.eqb_spec (tymask ty) c_cJSON_Number) as [En|En].
    { destruct (vi =? n_vint to) eqn:E1, (compare_double vd (n_vdbl to)) eqn:E2; cbn [negb orb]; try exact REP.
      apply NOP. apply Z.eqb_eq in E1. apply de_num; cbn [n_ty n_vint n_vdbl]; congruence. }
    destruct (Z.eqb_spec (tymask ty) c_cJSON_String) as [Es|Es].
    { destruct (Sv Es) as (x & Ex & Nx). subst vs.
      destruct (dwf_local _ Ht) as (_ & _ & Sb & _). destruct (Sb ltac:(congruence)) as (y & Ey & Ny). rewrite Ey.
      rewrite strcmp_eqb by assumption. destruct (bytes_eqb x y) eqn:Eb; cbn [negb]; [|exact REP].
      apply NOP. apply bytes_eqb_eq in Eb. subst y. eapply de_str; cbn [n_ty n_vstr]; try eassumption; try reflexivity; congruence. }
    destruct (Z.eqb_spec (tymask ty) c_cJSON_Array) as [Ea|Ea].
    { destruct Ha as [Ha|[[Ha _]|[_ Hz]]]; try contradiction.
      destruct (rt_arr_loop (fun ps p x y => create_patches f ps p x y true) path P Hp ca (n_children to) ps []) as (new & L0 & tail & E & O & Dp & Ev & F2).
      - apply (dwf_children _ Hf).
      - apply (dwf_children _ Ht).
      - rewrite Forall_forall. intros y Hy. eapply shallow_child; eassumption.
      - exact Hz.
      - cbn [length]. exact L.
      - intros ps0 p0 Q x y Hx Hdx Hdy Hsy Hxy Hq. apply IH; try assumption.
        pose proof (depth_child (Node ty vs vi vd k ca) x Hx). lia.
      - change (Z.of_nat (length (@nil node))) with 0 in E. rewrite E. cbn [bind].
        assert (HA : is_array (Node ty vs vi vd k ca) = true) by (unfold is_array, is_type; cbn [n_ty]; apply Z.eqb_eq; exact Ea).
        specialize (Ev (Node ty vs vi vd k ca) HA eq_refl). cbn [app] in Ev.
        exists new, L0, (with_children (Node ty vs vi vd k ca) tail). split; [destruct to; reflexivity|]. split; [exact O|].
        split; [right; exact Dp|]. split; [exact Ev|].
        apply de_arr; cbn [with_children n_ty n_children]; [exact Ea | congruence | exact F2]. }
    destruct (Z.eqb_spec (tymask ty) c_cJSON_Object) as [Eo|Eo].
    { exfalso. destruct Ha as [Ha|[[_ Ha]|[Ha _]]]; contradiction. }
    apply NOP. destruct (json_type_cases _ J) as [T|[T|[T|[T|[T|[T|T]]]]]]; try contradiction; apply de_lit; cbn [n_ty]; tauto.
Qed.

(** arrays of arrays of ... of scalars and mismatching values, to any depth *)
Theorem roundtrip_arrays from to : dwf from -> dwf to -> shallow to -> arr_only from to ->
  exists patches ops d,
    cJSONUtils_GeneratePatchesCaseSensitive from to = Ok (patches, from, to) /\
    ops_of patches = Some ops /\ eval from ops = Some d /\ doc_eq d to.
Proof.
  intros Hf Ht Hs Ha. unfold cJSONUtils_GeneratePatchesCaseSensitive, generate_patches.
  destruct (rt_create (node_depth from) [] [] [] from to ltac:(lia) Hf Ht Hs Ha eq_refl) as (new & L & d & E & O & _ & Ev & D).
  rewrite E. cbn [bind app]. exists (set_children create_array new), L, d.
  split; [reflexivity|]. split; [|split; assumption].
  unfold ops_of. cbn. rewrite O, map_prefix_nil. reflexivity.
Qed.
