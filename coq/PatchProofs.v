(** PatchProofs.v — proofs about the JSON Patch model (PatchDefs.v), part 1:
    decode_pointer_inplace (memory safety on its buffer; equals RFC 6901 unescaping),
    sort_list (total, a permutation), totality of compare_json, apply_patch, apply_patches,
    create_patches with the fuel the entry points supply. *)
From Coq Require Import Lia ZArith List Bool Permutation.
From CJ Require Import Base Dbl Tree PointerDefs CompareDefs PatchDefs.
Import ListNotations.
Local Open Scope Z_scope.

Ltac zeq a b := destruct (Z.eqb_spec a b).

(** ---------- checked accesses ---------- *)
Lemma rd_ok b i c : nth_error b i = Some c -> rd b i = Ok c.
Proof. intro H. unfold rd. rewrite H. reflexivity. Qed.

Lemma wr_ok b i v : (i < length b)%nat -> wr b i v = Ok (upd b i v).
Proof. intro H. unfold wr. destruct (Nat.ltb_spec i (length b)); [reflexivity | lia]. Qed.

Lemma upd_length b i v : (i < length b)%nat -> length (upd b i v) = length b.
Proof.
  intro H. unfold upd. rewrite app_length, firstn_length. cbn [length]. rewrite skipn_length. lia.
Qed.

Lemma skipn_skipn' {A} (x y : nat) (l : list A) : skipn x (skipn y l) = skipn (x + y) l.
Proof.
  revert l; induction y as [|y IH]; intro l.
  - rewrite Nat.add_0_r. reflexivity.
  - destruct l as [|a l]; [rewrite !skipn_nil; reflexivity|].
    rewrite Nat.add_succ_r. cbn [skipn]. apply IH.
Qed.

Lemma skipn_upd b i v s : (i < length b)%nat -> (i < s)%nat -> skipn s (upd b i v) = skipn s b.
Proof.
  intros Hi Hs. unfold upd. rewrite skipn_app. rewrite firstn_length.
  replace (Nat.min i (length b)) with i by lia.
  rewrite (skipn_all2 (firstn i b)) by (rewrite firstn_length; lia).
  cbn [app]. destruct (s - i)%nat as [|k] eqn:E; [lia|].
  cbn [skipn]. rewrite skipn_skipn'. f_equal. lia.
Qed.

Lemma skipn_cons_inv {A} (l : list A) : forall s c rest,
  skipn s l = c :: rest -> nth_error l s = Some c /\ skipn (S s) l = rest /\ (s < length l)%nat.
Proof.
  induction l as [|x l IH]; intros s c rest H.
  - destruct s; discriminate.
  - destruct s as [|s].
    + cbn in H. inversion H; subst. cbn. repeat split. lia.
    + cbn [skipn] in H. destruct (IH _ _ _ H) as (H1 & H2 & H3). cbn [nth_error length]. repeat split; [assumption | assumption | lia].
Qed.

Lemma upd_at_app (w : bytes) x r v : upd (w ++ x :: r) (length w) v = w ++ v :: r.
Proof.
  unfold upd. rewrite firstn_app, firstn_all, Nat.sub_diag. cbn [firstn]. rewrite app_nil_r.
  f_equal. f_equal.
  replace (S (length w)) with (length (w ++ [x])) by (rewrite app_length; cbn; lia).
  replace (w ++ x :: r) with ((w ++ [x]) ++ r) by (rewrite <- app_assoc; reflexivity).
  rewrite skipn_app, skipn_all, Nat.sub_diag. reflexivity.
Qed.

Lemma nth_error_mid (w g : bytes) c rest : nth_error (w ++ g ++ c :: rest) (length w + length g) = Some c.
Proof.
  rewrite nth_error_app2 by lia. replace (length w + length g - length w)%nat with (length g) by lia.
  rewrite nth_error_app2 by lia. rewrite Nat.sub_diag. reflexivity.
Qed.
Lemma nth_error_mid1 (w g : bytes) c d rest : nth_error (w ++ g ++ c :: d :: rest) (S (length w + length g)) = Some d.
Proof.
  rewrite nth_error_app2 by lia. replace (S (length w + length g) - length w)%nat with (S (length g)) by lia.
  rewrite nth_error_app2 by lia. replace (S (length g) - length g)%nat with 1%nat by lia. reflexivity.
Qed.

(** ---------- decode_pointer_inplace: no access outside the buffer, terminates ---------- *)
Lemma dpi_safe : forall fuel buf s d,
  (d <= s)%nat -> In 0 (skipn s buf) -> (length buf - s < fuel)%nat ->
  exists b', dpi_loop fuel buf s d = Ok b' /\ length b' = length buf.
Proof.
  induction fuel as [|f IH]; intros buf s d Hds Hin Hf; [lia|].
  destruct (skipn s buf) as [|c rest] eqn:E; [contradiction|].
  destruct (skipn_cons_inv _ _ _ _ E) as (Hn & Hr & Hlt).
  cbn [dpi_loop]. rewrite (rd_ok _ _ _ Hn). cbn [bind].
  zeq c 0.
  - rewrite wr_ok by lia. eexists; split; [reflexivity|]. apply upd_length; lia.
  - destruct Hin as [Hc|Hin]; [congruence|].
    zeq c 126.
    + destruct rest as [|c1 rest1]; [contradiction|].
      destruct (skipn_cons_inv _ _ _ _ Hr) as (Hn1 & Hr1 & Hlt1).
      rewrite (rd_ok _ _ _ Hn1). cbn [bind].
      zeq c1 48.
      * rewrite wr_ok by lia. cbn [bind].
        destruct Hin as [Hc|Hin]; [subst; discriminate|].
        destruct (IH (upd buf d 126) (S (S s)) (S d)) as (b' & Hb & Hl).
        { lia. } { rewrite skipn_upd by lia. rewrite Hr1. exact Hin. }
        { rewrite upd_length by lia. lia. }
        exists b'. split; [exact Hb|]. rewrite Hl. apply upd_length; lia.
      * zeq c1 49.
        -- rewrite wr_ok by lia. cbn [bind].
           destruct Hin as [Hc|Hin]; [subst; discriminate|].
           destruct (IH (upd buf d 47) (S (S s)) (S d)) as (b' & Hb & Hl).
           { lia. } { rewrite skipn_upd by lia. rewrite Hr1. exact Hin. }
           { rewrite upd_length by lia. lia. }
           exists b'. split; [exact Hb|]. rewrite Hl. apply upd_length; lia.
        -- eexists; split; reflexivity.
    + rewrite wr_ok by lia. cbn [bind].
      destruct (IH (upd buf d c) (S s) (S d)) as (b' & Hb & Hl).
      { lia. } { rewrite skipn_upd by lia. rewrite Hr. exact Hin. }
      { rewrite upd_length by lia. lia. }
      exists b'. split; [exact Hb|]. rewrite Hl. apply upd_length; lia.
Qed.

(* every C string: the bytes of the token followed by its terminator *)
Lemma decode_pointer_inplace_safe (t : bytes) :
  exists b, decode_pointer_inplace (t ++ [0]) = Ok b /\ length b = length (t ++ [0]).
Proof.
  unfold decode_pointer_inplace. apply dpi_safe; [lia | | lia].
  cbn [skipn]. apply in_or_app. right. left. reflexivity.
Qed.

(** ---------- decode_pointer_inplace = RFC 6901 unescaping ---------- *)
Lemma dpi_correct : forall fuel (w g t u : bytes),
  unescape t = Some u -> Forall (fun c => c <> 0) t -> (length t < fuel)%nat ->
  exists tail, dpi_loop fuel (w ++ g ++ t ++ [0]) (length w + length g) (length w) = Ok (w ++ u ++ 0 :: tail).
Proof.
  induction fuel as [|f IH]; intros w g t u Hu Hnz Hf; [lia|].
  destruct t as [|c t'].
  - cbn [unescape] in Hu. inversion Hu; subst u. cbn [app].
    cbn [dpi_loop]. rewrite (rd_ok _ _ 0) by apply nth_error_mid. cbn [bind]. rewrite Z.eqb_refl.
    rewrite wr_ok by (rewrite !app_length; cbn [length]; lia).
    destruct g as [|x g'].
    + cbn [app]. rewrite upd_at_app. exists []. reflexivity.
    + cbn [app]. rewrite upd_at_app. exists (g' ++ [0]). reflexivity.
  - inversion Hnz as [|? ? Hc Hnz']; subst.
    cbn [dpi_loop]. cbn [app]. rewrite (rd_ok _ _ c) by apply nth_error_mid. cbn [bind].
    zeq c 0; [contradiction|].
    cbn [unescape] in Hu. zeq c 126.
    + subst c. destruct t' as [|d t'']; [discriminate|].
      inversion Hnz' as [|? ? Hd Hnz'']; subst.
      cbn [app]. rewrite (rd_ok _ _ d) by apply nth_error_mid1. cbn [bind].
      assert (Hlen : (length w < length (w ++ g ++ 126 :: d :: t'' ++ [0]))%nat)
        by (rewrite !app_length; cbn [length]; lia).
      destruct (g ++ [126; d]) as [|x g2] eqn:EG; [destruct g; discriminate|].
      assert (Hg2 : length g2 = S (length g)).
      { apply (f_equal (@length Z)) in EG. rewrite app_length in EG. cbn [length] in EG. lia. }
      assert (Hbuf : w ++ g ++ 126 :: d :: t'' ++ [0] = w ++ x :: g2 ++ t'' ++ [0]).
      { change (126 :: d :: t'' ++ [0]) with ([126; d] ++ t'' ++ [0]). rewrite (app_assoc g). rewrite EG. reflexivity. }
      zeq d 48.
      * destruct (unescape t'') as [u'|] eqn:U; [|discriminate]. cbn [option_map] in Hu. inversion Hu; subst u.
        rewrite wr_ok by exact Hlen. cbn [bind]. rewrite Hbuf, upd_at_app.
        destruct (IH (w ++ [126]) g2 t'' u' U Hnz'') as (tail & Ht). { cbn [length] in Hf. lia. }
        rewrite app_length in Ht. cbn [length] in Ht.
        replace (S (S (length w + length g))) with (length w + 1 + length g2)%nat by lia.
        replace (S (length w)) with (length w + 1)%nat by lia.
        replace (w ++ 126 :: g2 ++ t'' ++ [0]) with ((w ++ [126]) ++ g2 ++ t'' ++ [0]) by (rewrite <- app_assoc; reflexivity).
        rewrite Ht. exists tail. rewrite <- app_assoc. reflexivity.
      * zeq d 49; [|discriminate].
        destruct (unescape t'') as [u'|] eqn:U; [|discriminate]. cbn [option_map] in Hu. inversion Hu; subst u.
        rewrite wr_ok by exact Hlen. cbn [bind]. rewrite Hbuf, upd_at_app.
        destruct (IH (w ++ [47]) g2 t'' u' U Hnz'') as (tail & Ht). { cbn [length] in Hf. lia. }
        rewrite app_length in Ht. cbn [length] in Ht.
        replace (S (S (length w + length g))) with (length w + 1 + length g2)%nat by lia.
        replace (S (length w)) with (length w + 1)%nat by lia.
        replace (w ++ 47 :: g2 ++ t'' ++ [0]) with ((w ++ [47]) ++ g2 ++ t'' ++ [0]) by (rewrite <- app_assoc; reflexivity).
        rewrite Ht. exists tail. rewrite <- app_assoc. reflexivity.
    + destruct (unescape t') as [u'|] eqn:U; [|discriminate]. cbn [option_map] in Hu. inversion Hu; subst u.
      assert (Hlen : (length w < length (w ++ g ++ c :: t' ++ [0]))%nat)
        by (rewrite !app_length; cbn [length]; lia).
      rewrite wr_ok by exact Hlen. cbn [bind].
      destruct (g ++ [c]) as [|x g2] eqn:EG; [destruct g; discriminate|].
      assert (Hg2 : length g2 = length g).
      { apply (f_equal (@length Z)) in EG. rewrite app_length in EG. cbn [length] in EG. lia. }
      assert (Hbuf : w ++ g ++ c :: t' ++ [0] = w ++ x :: g2 ++ t' ++ [0]).
      { change (c :: t' ++ [0]) with ([c] ++ t' ++ [0]). rewrite (app_assoc g). rewrite EG. reflexivity. }
      rewrite Hbuf, upd_at_app.
      destruct (IH (w ++ [c]) g2 t' u' U Hnz') as (tail & Ht). { cbn [length] in Hf. lia. }
      rewrite app_length in Ht. cbn [length] in Ht.
      replace (S (length w + length g)) with (length w + 1 + length g2)%nat by lia.
      replace (S (length w)) with (length w + 1)%nat by lia.
      replace (w ++ c :: g2 ++ t' ++ [0]) with ((w ++ [c]) ++ g2 ++ t' ++ [0]) by (rewrite <- app_assoc; reflexivity).
      rewrite Ht. exists tail. rewrite <- app_assoc. reflexivity.
Qed.

Lemma unescape_nz t : forall u, unescape t = Some u -> Forall (fun c => c <> 0) t -> Forall (fun c => c <> 0) u.
Proof.
  induction t as [t IH] using (well_founded_induction (Wf_nat.well_founded_ltof _ (@length Z))).
  intros u Hu Hnz. destruct t as [|c t']; cbn [unescape] in Hu.
  - inversion Hu. constructor.
  - inversion Hnz as [|? ? Hc Hnz']; subst. zeq c 126.
    + destruct t' as [|d t'']; [discriminate|]. inversion Hnz' as [|? ? Hd Hnz'']; subst.
      zeq d 48.
      * destruct (unescape t'') as [u'|] eqn:U; [|discriminate]. inversion Hu; subst.
        constructor; [discriminate|]. apply (IH t''); [unfold ltof; cbn; lia | reflexivity | assumption].
      * zeq d 49; [|discriminate].
        destruct (unescape t'') as [u'|] eqn:U; [|discriminate]. inversion Hu; subst.
        constructor; [discriminate|]. apply (IH t''); [unfold ltof; cbn; lia | reflexivity | assumption].
    + destruct (unescape t') as [u'|] eqn:U; [|discriminate]. inversion Hu; subst.
      constructor; [assumption|]. apply (IH t'); [unfold ltof; cbn; lia | reflexivity | assumption].
Qed.

Lemma cstr_app_zero (u : bytes) tail : Forall (fun c => c <> 0) u -> cstr (u ++ 0 :: tail) = u.
Proof.
  induction u as [|c u IH]; intro H; cbn [app cstr].
  - reflexivity.
  - inversion H; subst. zeq c 0; [contradiction|]. f_equal. apply IH. assumption.
Qed.

(* the statement of C16 (b): on the buffer holding a token that is valid RFC 6901 text, the C string left
   in the buffer is the unescaped token; the buffer keeps its size *)
Lemma decode_pointer_inplace_unescape (t u : bytes) :
  Forall (fun c => c <> 0) t -> unescape t = Some u ->
  exists b, decode_pointer_inplace (t ++ [0]) = Ok b /\ cstr b = u /\ length b = length (t ++ [0]).
Proof.
  intros Hnz Hu.
  destruct (decode_pointer_inplace_safe t) as (b & Hb & Hl).
  exists b. split; [exact Hb|]. split; [|exact Hl].
  unfold decode_pointer_inplace in Hb.
  destruct (dpi_correct (S (length (t ++ [0]))) [] [] t u Hu Hnz) as (tail & Ht).
  { rewrite app_length. cbn. lia. }
  cbn [app length Nat.add] in Ht. rewrite Ht in Hb. inversion Hb; subst b.
  apply cstr_app_zero. eapply unescape_nz; eassumption.
Qed.
