(** CompareHeapRefs.v — property C12 at heap level WITH REFERENCE NODES.

    A reference node made from a container (cJSON_CreateObjectReference / cJSON_CreateArrayReference /
    cJSON_AddItemReferenceToArray / …ToObject) has no children of its own; its [child] field is the BORROWED
    pointer [rd_ref d = Some c] into another tree.  [cJSON_Compare] never looks at the cJSON_IsReference bit:
    below such a node it walks [c] and its following siblings — [CoreRefineDupUnroll.kids F t], which is
    [CoreOpsBridgeRefDefs.ref_chain F (Some (tid t))] ([kids_ref_chain]) — as they are NOW.  What the
    comparison sees from a node [t] of the forest is therefore the unrolling [unroll F k t].

    [compare_refines_refs]: on [WF h F] with readable strings and every borrowed pointer LIVE ([refs_in F]:
    its target is a node of the forest, i.e. has not been released), for any two nodes whose unrollings to
    [k] levels are complete (no cycle through a reference; [k] below the recursion bound the entry point
    takes from the heap) and on which the pointer shortcut is harmless ([okpair]): no error outcome, heap
    unchanged, result = the value-level result on the reified UNROLLED operands.

    [okpair_unroll]: the shortcut is harmless whenever both unrolled operands are JSON values with distinct
    member names and without NaN ([refl_ok], the hypotheses of C12_reflexive) — two references to one chain
    meet the same blocks, where the C code answers true without looking and the value-level comparison
    answers true because it is reflexive on such values.  [nan_shortcut_differs] shows that this hypothesis
    is needed: with a NaN under a shared chain the C function says "equal" although the values are not. *)
From CJ Require Import Base Dbl Heap Forest ForestLemmas CoreSpec CoreDefs CoreRefineBase CoreRefine CoreRefineMore CoreRefineObject
  CoreRefineDupBase CoreRefineDupTree CoreRefineDupLoop CoreRefineDupValue CoreRefineDupForest CoreRefineDupUnroll CoreLedgerDup.
From CJ Require Import TierBridgeDefs TierBridgeForest TierBridgeLemmas GenMergeHeapDefs GenMergeHeapForest.
From CJ Require Import CompareHeapDefs CompareHeapRO CompareHeapViewDefs CompareHeapProofs CompareHeapForest.
From CJ Require Tree CompareDefs CompareProofs CoreOpsBridgeRefDefs.
From CJ.gen Require Import Constants.
From stdpp Require Import gmap.
From Coq Require Import Lia.

(** * the children seen below a node are nodes of the forest *)
Lemma kids_in_nodes F t : NoDup (ids F) -> refs_in F -> t ∈ nodes F -> Forall (fun x : tree => x ∈ nodes F) (kids F t).
Proof.
  intros ND RI Ht. destruct t as [i d cs]. destruct cs as [|c0 cs0].
  2:{ cbn [kids]. apply Forall_forall. intros c Hc. by eapply nodes_child. }
  cbn [kids]. destruct (rd_ref d) as [c|] eqn:Er; [|constructor].
  assert (He : (i, d, tid <$> ([] : list tree)) ∈ flat F) by (apply (elem_of_flat F (T i d [])); done).
  pose proof (RI _ _ _ _ He Er) as Hc.
  destruct (chain_from_cases F c ND Hc) as [(p & dp & csp & j & Hp & Hj & ->)|(r & Hr & Hrc & ->)].
  - apply Forall_forall. intros x Hx. eapply nodes_child; [exact Hp|]. rewrite <- (take_drop j csp). apply elem_of_app. by right.
  - apply Forall_singleton. by apply roots_in_nodes.
Qed.

(** what a reference node denotes: the notion of the C06 history theorems *)
Lemma kids_ref_chain F i d c :
  NoDup (ids F) -> T i d [] ∈ nodes F -> is_ref d = true -> rd_ref d = Some c -> c ∈ ids F ->
  CoreOpsBridgeRefDefs.ref_chain F (Some i) = Some (kids F (T i d [])).
Proof.
  intros ND Ht Hr Hc Hin. unfold CoreOpsBridgeRefDefs.ref_chain.
  rewrite (find_tree_unique i F (T i d []) ND Ht eq_refl). rewrite Hr, Hc. cbn [kids]. rewrite Hc.
  by rewrite bool_decide_eq_true_2.
Qed.

(** * levels of a complete view *)
Lemma src_t_level h lf : forall k' k t, src_t h lf k t -> complete t -> height t <= k' -> src_t h lf k' t.
Proof.
  induction k' as [|k' IH]; intros k [i d cs] Hs Hc Hh; rewrite height_unfold in Hh.
  - rewrite src_t_O. split; [by eapply src_t_node|]. destruct cs as [|c r]; [done|]. cbn in Hh. lia.
  - rewrite src_t_S. split; [by eapply src_t_node|]. split.
    { intros ->. by apply (complete_root i). }
    destruct k as [|k].
    { rewrite src_t_O in Hs. destruct Hs as [_ ->]. done. }
    rewrite src_t_S in Hs. destruct Hs as (_ & _ & Hl). pose proof (complete_children _ _ _ Hc) as Hcc.
    clear Hc. induction cs as [|c r IHr]; [done|]. rewrite src_list_cons in Hl. destruct Hl as (Hlk & Hsc & Hlr).
    apply Forall_cons in Hcc as [Hc1 Hc2]. cbn [height_list] in Hh.
    rewrite src_list_cons. split; [done|]. split; [apply (IH k c Hsc Hc1); lia|apply IHr; [done|lia|done]].
Qed.

Lemma cmp_view_level h k k' t : cmp_view h k t -> height t <= k' -> cmp_view h k' t.
Proof. intros (Hs & Hc & Hk) Hh. split_and!; [by eapply src_t_level|done|done]. Qed.

(** * the unrolling as a view *)
Lemma all_readable_of_strings h F : strings_readable h F -> all_readable h F.
Proof. intros SR i d ks He. destruct (SR i d ks He) as [H1 H2]. split; [done|]. intros b Hb _. by apply H2. Qed.

Lemma unroll_keys h F : NoDup (ids F) -> refs_in F -> strings_readable h F ->
  forall k t, t ∈ nodes F -> keys_readable h (unroll F k t).
Proof.
  intros ND RI SR. induction k as [|k IH]; intros [i d cs] Ht.
  - cbn [unroll]. intros i' d' ks' He b Hb. rewrite flat_t_unfold in He. apply elem_of_cons in He as [He|He].
    + injection He as -> -> _. cbn in Hb. exact (proj2 (SR i d (tid <$> cs) (elem_of_flat F _ Ht)) b Hb).
    + by apply elem_of_nil in He.
  - cbn [unroll]. intros i' d' ks' He b Hb. rewrite flat_t_unfold in He. apply elem_of_cons in He as [He|He].
    + injection He as -> -> _. exact (proj2 (SR i d (tid <$> cs) (elem_of_flat F _ Ht)) b Hb).
    + apply elem_of_flat_list in He as (c & Hc & He). apply elem_of_list_fmap in Hc as (c0 & -> & Hc0).
      pose proof (kids_in_nodes F _ ND RI Ht) as HK. rewrite Forall_forall in HK.
      exact (IH c0 (HK c0 Hc0) i' d' ks' He b Hb).
Qed.

Lemma view_of_unroll h F k t :
  WF h F -> refs_in F -> strings_readable h F -> t ∈ nodes F -> complete (unroll F k t) -> cmp_view h k (unroll F k t).
Proof.
  intros W RI SR Ht Hc. split_and!; [|done|].
  - by apply (src_t_unroll h F W RI (all_readable_of_strings h F SR)).
  - by apply (unroll_keys h F (wf_nodup _ _ W) RI SR).
Qed.

(** * the pointer shortcut on unrolled operands *)
Lemma refl_ok_child cs t s i d k ch c : refl_ok cs (Tree.Node t s i d k ch) -> c ∈ ch -> refl_ok cs c.
Proof.
  intros (W & J & N) Hc.
  apply CompareProofs.cmp_wf_eq in W as (_ & _ & Wc). apply CompareProofs.json_shape_eq in J as (_ & _ & Jc).
  apply CompareProofs.no_nan_eq in N as (_ & Nc). cbn [Tree.n_children] in *.
  rewrite Forall_forall in Wc, Jc, Nc. split_and!; auto.
Qed.

Lemma okpair_unroll St cs F : NoDup (ids F) -> refs_in F ->
  forall k x y, x ∈ nodes F -> y ∈ nodes F ->
    refl_ok cs (reify St (unroll F k x)) -> refl_ok cs (reify St (unroll F k y)) ->
    okpair St cs (unroll F k x) (unroll F k y).
Proof.
  intros ND RI. induction k as [|k IH]; intros x y Hx Hy Rx Ry.
  - destruct (decide (tid x = tid y)) as [E|Hne].
    + assert (x = y) as <-.
      { pose proof (find_tree_unique (tid x) F x ND Hx eq_refl). pose proof (find_tree_unique (tid x) F y ND Hy (eq_sym E)). congruence. }
      by apply okp_same.
    + apply okp_diff; [by rewrite !tid_unroll|]. destruct x, y. cbn [unroll tchildren]. intros cx cy Hcx. by apply elem_of_nil in Hcx.
  - destruct (decide (tid x = tid y)) as [E|Hne].
    + assert (x = y) as <-.
      { pose proof (find_tree_unique (tid x) F x ND Hx eq_refl). pose proof (find_tree_unique (tid x) F y ND Hy (eq_sym E)). congruence. }
      by apply okp_same.
    + apply okp_diff; [by rewrite !tid_unroll|].
      pose proof (kids_in_nodes F x ND RI Hx) as Kx. pose proof (kids_in_nodes F y ND RI Hy) as Ky.
      rewrite Forall_forall in Kx, Ky.
      destruct x as [i d xs], y as [j dy ys]. cbn [unroll tchildren] in *.
      intros cx cy Hcx Hcy. apply elem_of_list_fmap in Hcx as (cx0 & -> & Hcx0). apply elem_of_list_fmap in Hcy as (cy0 & -> & Hcy0).
      apply IH; [by apply Kx|by apply Ky| |].
      * eapply refl_ok_child; [exact Rx|]. apply elem_of_list_fmap. exists (unroll F k cx0). split; [done|].
        apply elem_of_list_fmap. by exists cx0.
      * eapply refl_ok_child; [exact Ry|]. apply elem_of_list_fmap. exists (unroll F k cy0). split; [done|].
        apply elem_of_list_fmap. by exists cy0.
Qed.

(** * the entry point *)
Section Refs.
  Context (h : heap) (F : forest).
  Hypothesis W : WF h F.
  Hypothesis RI : refs_in F.
  Hypothesis SR : strings_readable h F.
  Notation St := (h_str h).

  Theorem compare_refines_refs cs k ta tb :
    ta ∈ nodes F -> tb ∈ nodes F ->
    complete (unroll F k ta) -> complete (unroll F k tb) -> k < Pos.to_nat (h_next h) ->
    okpair St cs (unroll F k ta) (unroll F k tb) ->
    exists r : bool,
      cJSON_Compare (Some (tid ta)) (Some (tid tb)) cs h = Ret (r, h) /\
      CompareDefs.cJSON_Compare (Some (reify St (unroll F k ta))) (Some (reify St (unroll F k tb)))
        (bool_decide (tid ta = tid tb)) cs = Some r.
  Proof.
    intros Ha Hb Ca Cb Hk Hok. unfold cJSON_Compare, heap_fuel. unfold bindM at 1.
    destruct (decide (tid ta = tid tb)) as [E|Hne].
    - pose proof (node_eq_of_tid h F W _ _ Ha Hb E) as <-. rewrite bool_decide_eq_true_2 by done.
      destruct ta as [i d cs0]. cbn [tid].
      destruct (WF_live_dat _ _ _ _ _ W (find_tree_unique i F _ (wf_nodup _ _ W) Ha eq_refl)) as [Hl Hd].
      destruct (Pos.to_nat (h_next h)) as [|df] eqn:Ef; [lia|].
      exists (CompareDefs.valid_type (Z.land (rd_type d) 255)). split.
      + rewrite <- Ef. rewrite Ef at 1. by rewrite (compare_same_block h i _ df _ cs (conj Hl Hd)).
      + rewrite value_same. by destruct k.
    - rewrite bool_decide_eq_false_2 by done. rewrite value_entry.
      pose proof (view_of_unroll h F k ta W RI SR Ha Ca) as Va. pose proof (view_of_unroll h F k tb W RI SR Hb Cb) as Vb.
      pose proof (src_t_height _ _ _ _ (proj1 Va)) as Hha. pose proof (src_t_height _ _ _ _ (proj1 Vb)) as Hhb.
      set (k' := Nat.max (height (unroll F k ta)) (height (unroll F k tb))).
      rewrite <- (tid_unroll F k ta), <- (tid_unroll F k tb).
      apply (compare_fuel_view h (Pos.to_nat (h_next h)) cs ltac:(lia) k').
      + apply (cmp_view_level h k k' _ Va). unfold k'. lia.
      + apply (cmp_view_level h k k' _ Vb). unfold k'. lia.
      + exact Hok.
      + unfold k'. lia.
      + rewrite !node_depth_reify. unfold k'. lia.
  Qed.

  (** for JSON values (distinct member names, no NaN) nothing else is needed: references may share chains,
      point into the other operand, or into the operand itself below the compared nodes *)
  Corollary compare_refines_refs_json cs k ta tb :
    ta ∈ nodes F -> tb ∈ nodes F ->
    complete (unroll F k ta) -> complete (unroll F k tb) -> k < Pos.to_nat (h_next h) ->
    refl_ok cs (reify St (unroll F k ta)) -> refl_ok cs (reify St (unroll F k tb)) ->
    exists r : bool,
      cJSON_Compare (Some (tid ta)) (Some (tid tb)) cs h = Ret (r, h) /\
      CompareDefs.cJSON_Compare (Some (reify St (unroll F k ta))) (Some (reify St (unroll F k tb)))
        (bool_decide (tid ta = tid tb)) cs = Some r /\
      (tid ta <> tid tb -> (r = true <-> CompareDefs.sem_eq cs (reify St (unroll F k ta)) (reify St (unroll F k tb)))).
  Proof.
    intros Ha Hb Ca Cb Hk Ra Rb.
    destruct (compare_refines_refs cs k ta tb Ha Hb Ca Cb Hk (okpair_unroll St cs F (wf_nodup _ _ W) RI k ta tb Ha Hb Ra Rb))
      as (r & Hr & Hv).
    exists r. split; [done|]. split; [done|]. intros Hne. rewrite bool_decide_eq_false_2 in Hv by done.
    rewrite <- (CompareProofs.compare_spec cs _ _ (proj1 Ra) (proj1 Rb)), Hv. split; [by intros ->|by intros [= ->]].
  Qed.
End Refs.
