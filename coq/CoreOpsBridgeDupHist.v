(** CoreOpsBridgeDupHist.v — histories of the EXTRACTED interpreter WITH [cJSON_Duplicate].

    [stepRD] / [runRD] / [accepted_rulesD] (CoreOpsBridgeDupDefs.v) extend the acceptance of
    CoreOpsBridgeOwned.v by the operation [CoreOps.ODuplicate i recurse] (which the translation [tr]
    into the proof-level alphabet [op3] does not cover): the call is accepted when its item handle is
    NULL / dead, or denotes a node of the model's forest and the forest passes [dup_okb]; its result
    and the next model state are [spec_dup], a function of the abstract state alone.

    * [stepRD_sim]: one step — [CoreOps.run_op nv st o h] returns exactly what [stepRD] computes, in
      a heap that represents the model's next state, with sane pools;
    * [runRD_sim], [history_extractedD]: every accepted history;
    * [ledger_extractedD]: the ledger corollary (C07);
    * [runR_runRD], [accepted_rules_D]: the extension is conservative — a history accepted by
      [accepted_rules] is accepted by [accepted_rulesD] with the same results, pools and model state;
    * [runRD_app]: acceptance is prefix-closed; [stepRD_dup_spec]: what acceptance of a duplicate means. *)
From CJ Require Import Base Dbl Heap Forest ForestLemmas CoreSpec CoreDefs CoreRefineBase CoreRefine CoreRefineHistory
  CoreRefineHistoryObj CoreRefineHistoryObjEx CoreRefineCreate CoreLedgerGen CoreHistoryAllSteps CoreHistoryAll
  CoreLedgerAll CoreLedgerDup CoreOpsBridge CoreOpsBridgeHist CoreOpsBridgeOwned
  CoreOpsBridgeDupDefs CoreOpsBridgeDupStep.
From CJ Require CoreOps.
From CJ.gen Require Import Constants.
From stdpp Require Import gmap.

(** every operation but [ODuplicate] is decided as before *)
Definition is_dup (o : CoreOps.op) : bool := match o with CoreOps.ODuplicate _ _ => true | _ => false end.
Lemma stepRD_other st S o : is_dup o = false -> stepRD st S o = stepR st S o.
Proof. by destruct o. Qed.
Lemma stepR_dup st S i recurse : stepR st S (CoreOps.ODuplicate i recurse) = None.
Proof. reflexivity. Qed.

(** what acceptance of a duplicate means *)
Lemma stepRD_dup_spec st S i recurse x st1 S1 :
  stepRD st S (CoreOps.ODuplicate i recurse) = Some (x, st1, S1) <->
  dup_okb S (CoreOps.item_of st i) = true /\
  x = CoreOps.RPtr (spec_dup S (CoreOps.item_of st i) recurse).2 /\
  S1 = (spec_dup S (CoreOps.item_of st i) recurse).1 /\
  st1 = sweepS S1 (CoreOps.push_item st (spec_dup S (CoreOps.item_of st i) recurse).2).
Proof.
  cbn [stepRD]. destruct (dup_okb S (CoreOps.item_of st i)); cbn zeta.
  - split; [by intros [= <- <- <-]|by intros (_ & -> & -> & ->)].
  - split; [done|by intros [? _]].
Qed.

(** * one step *)
Lemma dup_op_sim h st S i recurse :
  Abs3 h S -> PoolsOK h st S -> dup_okb S (CoreOps.item_of st i) = true ->
  let r := spec_dup S (CoreOps.item_of st i) recurse in
  exists h', CoreOps.run_op nv st (CoreOps.ODuplicate i recurse) h =
               Ret ((CoreOps.RPtr r.2, sweepS r.1 (CoreOps.push_item st r.2)), h') /\
             Abs3 h' r.1 /\ PoolsOK h' (sweepS r.1 (CoreOps.push_item st r.2)) r.1.
Proof.
  intros HA [PI PS] Hok r. destruct (dup_step h S _ recurse HA Hok) as (h' & E & HA'). fold r in E, HA'.
  exists h'. pose proof (proj2 HA) as K.
  pose proof (Cons_cJSON_Duplicate nv _ recurse _ _ _ E K) as CP.
  assert (HS' : forall y, Some y ∈ CoreOps.st_strs (CoreOps.push_item st r.2) -> FL h' y).
  { intros y Hy. cbn in Hy. eapply FL_mono; [exact K|exact CP|by apply PS]. }
  assert (HI' : forall y, Some y ∈ CoreOps.st_items (CoreOps.push_item st r.2) -> h_own h' !! y = Some Lib).
  { intros y Hy. cbn in Hy. apply elem_of_app in Hy as [Hy|Hy].
    - pose proof (PI y Hy) as Ho. pose proof (Abs3_WF' _ _ HA) as W.
      rewrite (cp_own _ _ CP); [by apply (wf_owned_lib _ _ W)|by apply (wf_fresh _ _ W)].
    - apply elem_of_list_singleton in Hy. apply (wf_owned_lib _ _ (Abs3_WF' _ _ HA')).
      apply spec_dup_owned. exact (eq_sym Hy). }
  split; [|split; [done|]].
  - unfold CoreOps.run_op. cbn [CoreOps.run_op_raw]. unfold CoreOps.r_push. rewrite bindM_assoc.
    rewrite (bindM_Ret _ _ _ _ _ E). rewrite bindM_ret. cbn [fst snd].
    rewrite (bindM_Ret _ _ _ _ _ (run_sweep _ _)). unfold ret. do 3 f_equal.
    by apply sweep_agree.
  - split; [apply sweepS_items|]. intros y Hy. apply HS'. exact Hy.
Qed.

Theorem stepRD_sim h st S o x st1 S1 :
  Abs3 h S -> PoolsOK h st S -> stepRD st S o = Some (x, st1, S1) ->
  exists h', CoreOps.run_op nv st o h = Ret ((x, st1), h') /\ Abs3 h' S1 /\ PoolsOK h' st1 S1.
Proof.
  intros HA HP E. destruct (is_dup o) eqn:Ed.
  - destruct o; try discriminate Ed. apply stepRD_dup_spec in E as (Hok & -> & -> & ->).
    by apply dup_op_sim.
  - rewrite (stepRD_other _ _ _ Ed) in E.
    destruct (stepR_sim _ _ _ _ _ _ _ HA HP E) as (h' & H1 & _ & _ & H2 & H3). by exists h'.
Qed.

(** * histories *)
Theorem runRD_sim ops : forall h st S xs st2 S2,
  Abs3 h S -> PoolsOK h st S -> runRD st S ops = Some (xs, st2, S2) ->
  exists h', CoreOps.run_ops nv st ops h = Ret ((xs, st2), h') /\ Abs3 h' S2 /\ PoolsOK h' st2 S2.
Proof.
  induction ops as [|o r IH]; intros h st S xs st2 S2 HA HP E; cbn [runRD] in *.
  - injection E as <- <- <-. exists h. by split_and!.
  - destruct (stepRD st S o) as [[[x st1] S1]|] eqn:Es; [|done].
    destruct (runRD st1 S1 r) as [[[xr st3] S3]|] eqn:Er; [|done]. injection E as <- <- <-.
    destruct (stepRD_sim _ _ _ _ _ _ _ HA HP Es) as (h1 & E1 & HA1 & HP1).
    destruct (IH _ _ _ _ _ _ HA1 HP1 Er) as (h2 & E2 & HA2 & HP2).
    exists h2. split_and!; [|done|done].
    cbn [CoreOps.run_ops]. rewrite (bindM_Ret _ _ _ _ _ E1). cbn [fst snd]. by rewrite (bindM_Ret _ _ _ _ _ E2).
Qed.

(** THE HISTORY THEOREM FOR THE EXTRACTED INTERPRETER, duplicate calls included *)
Theorem history_extractedD ops xs st' S' :
  runRD CoreOps.empty_state S0 ops = Some (xs, st', S') ->
  exists h', CoreOps.run_ops nv CoreOps.empty_state ops empty_heap = Ret ((xs, st'), h') /\ Abs3 h' S'.
Proof.
  intros E. destruct (runRD_sim ops _ _ _ _ _ _ Abs3_empty PoolsOK_empty E) as (h' & H1 & H2 & _). by exists h'.
Qed.

Corollary history_extractedD_accepted ops :
  accepted_rulesD ops = true ->
  exists xs st' S' h', runRD CoreOps.empty_state S0 ops = Some (xs, st', S') /\
    CoreOps.run_ops nv CoreOps.empty_state ops empty_heap = Ret ((xs, st'), h') /\ Abs3 h' S'.
Proof.
  unfold accepted_rulesD. destruct (runRD CoreOps.empty_state S0 ops) as [[[xs st'] S']|] eqn:E; [|done]. intros _.
  destruct (history_extractedD _ _ _ _ E) as (h' & H1 & H2). by exists xs, st', S', h'.
Qed.

(** * the ledger (C07) *)
Theorem ledger_extractedD ops xs st' S' :
  runRD CoreOps.empty_state S0 ops = Some (xs, st', S') ->
  exists h1 h2,
    CoreOps.run_ops nv CoreOps.empty_state ops empty_heap = Ret ((xs, st'), h1) /\ Abs3 h1 S' /\
    (forall b, b ∈ lib_live h1 <-> b ∈ owned (a_forest S')) /\
    CoreOps.live_count h1 = length (owned (a_forest S')) /\
    delete_roots (roots (a_forest S')) h1 = Ret (tt, h2) /\ lib_live h2 = ∅ /\ CoreOps.live_count h2 = 0%nat /\
    (forall b, h_own h1 !! b = Some Foreign -> b ∈ h_live h1 -> b ∈ h_live h2 /\ h_str h2 !! b = h_str h1 !! b).
Proof.
  intros E. destruct (history_extractedD _ _ _ _ E) as (h1 & H1 & HA).
  destruct (delete_roots_sim (a_forest S') S' h1 eq_refl HA) as (h2 & S2 & E2 & HA2 & _ & HL2).
  exists h1, h2. split_and!; try done.
  - by apply Abs3_ledger.
  - unfold CoreOps.live_count. pose proof (wf_owned_nodup _ _ (Abs3_WF' _ _ HA)) as ND.
    rewrite <- (size_list_to_set (C := gset positive) _ ND). f_equal. apply set_eq. intros b.
    rewrite elem_of_list_to_set. by apply Abs3_ledger.
  - unfold CoreOps.live_count. rewrite HL2. apply size_empty.
  - intros b Ho Hl. apply (cp_foreign _ _ (Cons_delete_roots _ _ _ _ E2 (proj2 HA)) b Ho Hl).
Qed.

(** * the extension is conservative *)
Lemma stepR_stepRD st S o y : stepR st S o = Some y -> stepRD st S o = Some y.
Proof.
  intros E. destruct (is_dup o) eqn:Ed; [|by rewrite stepRD_other].
  destruct o; try discriminate Ed. by rewrite stepR_dup in E.
Qed.
Lemma runR_runRD ops : forall st S y, runR st S ops = Some y -> runRD st S ops = Some y.
Proof.
  induction ops as [|o r IH]; intros st S y E; cbn [runR runRD] in *; [done|].
  destruct (stepR st S o) as [[[x st1] S1]|] eqn:Es; [|done]. rewrite (stepR_stepRD _ _ _ _ Es).
  destruct (runR st1 S1 r) as [[[xs st2] S2]|] eqn:Er; [|done]. by rewrite (IH _ _ _ Er).
Qed.
Theorem accepted_rules_D ops : accepted_rules ops = true -> accepted_rulesD ops = true.
Proof.
  unfold accepted_rules, accepted_rulesD. destruct (runR CoreOps.empty_state S0 ops) as [y|] eqn:E; [|done].
  by rewrite (runR_runRD _ _ _ _ E).
Qed.

(** every moment: acceptance is prefix-closed *)
Lemma runRD_app ops1 : forall st S ops2 xs st2 S2,
  runRD st S (ops1 ++ ops2) = Some (xs, st2, S2) ->
  exists xs1 st1 S1 xs2, runRD st S ops1 = Some (xs1, st1, S1) /\ runRD st1 S1 ops2 = Some (xs2, st2, S2) /\ xs = xs1 ++ xs2.
Proof.
  induction ops1 as [|o r IH]; intros st S ops2 xs st2 S2 E; cbn [app runRD] in *.
  - by exists [], st, S, xs.
  - destruct (stepRD st S o) as [[[x sta] Sa]|]; [|done].
    destruct (runRD sta Sa (r ++ ops2)) as [[[xr st3] S3]|] eqn:Er; [|done]. injection E as <- <- <-.
    destruct (IH _ _ _ _ _ _ Er) as (xs1 & st1 & S1 & xs2 & -> & E2 & ->). by exists (x :: xs1), st1, S1, xs2.
Qed.
