"""uheap — the HEAP-LEVEL transliterations of the cJSON_Utils entry points, executed against the real library.

Not a property of its own: a correspondence area.  The extracted heap-level models (the definitions the refinement proofs
of C15-C19 are about) and the library run on the same operand trees; results, the operand trees afterwards (member order
after the in-place sorts included), the number of live library blocks right after the call (`call=`) and after deleting
everything (`live=`) must be identical.  Register it with a property by adding 'uheap' to that property's AREAS and
concatenating generate()/project()/verdict() for cases whose info['area'] == 'uheap' (see the docstring of generate)."""
import sys
sys.setrecursionlimit(30000)
import random, copy
from .common import *
from . import patchgen as G

AREA = 'uheap'
MODEL_FILES = ('Heap.v (memory model, allocator ledger), CoreDefs.v (cJSON_Delete, cJSON_Duplicate, Add/Detach/Delete/Replace ... as called by the utilities), SortDefs.v (sort_object), '
               'MergeHeapDefs.v (cJSONUtils_MergePatch[CaseSensitive]), GenMergeHeapDefs.v (cJSONUtils_GenerateMergePatch[CaseSensitive], compare_json), '
               'PatchHeapDefs.v (cJSONUtils_GetPointer[CaseSensitive], detach_path, decode_pointer_inplace), PatchHeapApplyDefs.v (cJSONUtils_ApplyPatches[CaseSensitive]), '
               'GenPatchHeapDefs.v (cJSONUtils_GeneratePatches[CaseSensitive]), PointerHeapDefs.v (cJSONUtils_FindPointerFromObjectTo), CompareHeapDefs.v (cJSON_Compare), '
               'CoreOps.v (dump_node, live_count); extracted by Extract_uheap.v, driven by ocaml/h_uheap.ml')
RULE = ('small JSON documents (depth <= 3, at most 8 members per container, at most 40 nodes) over keys {"", "/", "~", "~0", "~1", "a/b", "m~n", "0", "01", "a", "A", "foo", "Foo"} (distinct per object), '
        'both case modes; uapply: the RFC-shaped single operations, operation sequences and junk patch documents of C16 (valid and invalid patches); umerge: patches derived from the target '
        '(members nulled / replaced / added / nested), independent patches, NULL target, non-object operands; ugenmerge / ugenpatch / ucompare: a document against a mutation, a member permutation, '
        'an independent document and itself; ufind: every node of the document and a node outside it; ugetptr: the pointer of every node, damaged and junk pointer texts; usort: objects; NULL operands; wide arrays (multi-digit indices) and keys of 63..257 bytes; a sample with constant keys (caller memory); '
        'two streams outside JSON: duplicate names / NaN / infinities, and malformed trees (string without valuestring, member without name, raw, invalid types) where a NULL dereference of the model must coincide with a crash of the library. '
        'Compared: result, every operand tree afterwards (order of members included), live library blocks after the call and after deleting everything. '
        'verdict: no crash, no double / foreign free, sibling chains healthy, zero live blocks at the end; non-trivial = the model produced a result (no MODELERR) and the case did not crash')
ASSUMPTIONS = ['C locale (tolower)', 'allocation never fails (the oracle of the extracted model is nofail; the tracking allocator injects no failure)',
               'C-string keys and values (no embedded NUL); the main streams use finite numbers and distinct keys per object (streams tagged dupkeys-nonfinite / malformed leave that domain on purpose)',
               'contents of fresh memory are 0xA5 bytes on both sides (not observable: only C strings are printed)']

MAX_NODES = 40
def corpus(ctx): return load_corpus(ctx['verif'], 'uheap')

def size(v):
    if isinstance(v, Obj): return 1 + sum(size(e) for _, e in v)
    if isinstance(v, list): return 1 + sum(size(e) for e in v)
    return 1

def small_doc(rng, depth=None, keys=G.PKEYS, root=True):
    for _ in range(50):
        d = G.rand_doc(rng, depth if depth is not None else rng.choice([1, 2, 2, 3]), keys, root)
        if size(d) <= MAX_NODES: return d
    return Obj([('a', 1)])

def toks(v): return ' '.join(value_tokens(v)) if v is not Ellipsis else 'NULL'
def mk(kind, args, trees, tags, **info):
    line = ' '.join([kind] + [str(a) for a in args] + [toks(t) for t in trees])
    d = {'tags': [kind] + tags, 'area': AREA, 'kind': kind}; d.update(info)
    return Case(line, d)
def csflag(rng, p=0.75): return 1 if rng.random() < p else 0
def cstag(cs): return ['cs'] if cs else ['ci']

# ---------------------------------------------------------------- merge patches derived from a target
def derive_patch(rng, t, depth=0):
    if not isinstance(t, Obj) or rng.random() < 0.15: return rng.choice([None, 1, 'x', [1, None, Obj([('a', None)])], Obj(), Obj([('a', None), ('b', Obj([('c', None), ('d', 1)]))])])
    out = []
    for k, v in t:
        r = rng.random()
        if r < 0.25: out.append((k, None))
        elif r < 0.45: out.append((k, G.rand_doc(rng, 1, G.PKEYS, False)))
        elif r < 0.75 and isinstance(v, Obj) and depth < 3: out.append((k, derive_patch(rng, v, depth + 1)))
    free = [k for k in G.PKEYS if G.member_pos(t, k) is None]
    for k in rng.sample(free, min(len(free), rng.choice([0, 1, 1, 2]))):
        out.append((k, rng.choice([None, 2, Obj([('n', None), ('m', 1)]), G.rand_doc(rng, 2, G.PKEYS, False)])))
    rng.shuffle(out)
    return Obj(out[:8])

JUNK_POINTERS = ['', '/', '//', 'a', '/a', '/A', '/foo', '/FOO', '/0', '/00', '/01', '/1', '/-', '/a~1b', '/a/b', '/m~0n', '/~', '/~2', '/~0', '/~1', '/~01', '/0/0', '/0/a', '/a/0',
                 '/18446744073709551616', '/4294967296', '/1e0', '/ 1', '/0x', '/a/', '/a//', '/foo/0/', '~', '/\x7f']
FIXED_DOCS = [Obj([('foo', 1), ('Foo', 2), ('a/b', [10, 11, 12]), ('m~n', Obj([('~', 1), ('/', 2)])), ('', Obj([('', 0)]))]),
              [Obj([('a', 1)]), Obj([('b', 2)]), [1, 2, 3]], Obj([('b', 1), ('a', 2)]), Obj([('a', Obj([('b', Obj([('c', 1)]))]))]), [], Obj(), 5, 'str', None, True,
              Obj([('arr', [10, 11, 12]), ('0', 'zero'), ('01', 'zero-one')]), Obj([('z', 1), ('Z', 2), ('a', [Obj([('y', 1), ('x', [])])]), ('A', None)])]

# which case kinds exercise which property's code (for `generate(ctx, kinds=KINDS_OF['C16'])` from a property module)
KINDS_OF = {'C12': ('ucompare',), 'C15': ('ufind', 'ugetptr'), 'C16': ('uapply',), 'C17': ('ugenpatch',), 'C18': ('umerge', 'ugenmerge'), 'C19': ('usort', 'ugenmerge', 'ugenpatch')}

def generate(ctx, kinds=None):
    return [c for c in generate_all(ctx) if kinds is None or c.info['kind'] in kinds]

def generate_all(ctx):
    """every case carries info['area'] = 'uheap', info['kind'] and tags (kind first), so that a property with AREAS = [<its area>, 'uheap'] can append these
    cases to its own and route project / verdict / nontrivial by c.info.get('area')"""
    from . import C16
    rng = random.Random(ctx['seed'] * 7919 + 4242)
    quick = ctx.get('tier', 'quick') == 'quick'
    ndocs = 40 if quick else 300
    cases = []
    docs = [copy.deepcopy(d) for d in FIXED_DOCS] + [small_doc(rng) for _ in range(ndocs)]
    some = lambda l, k: l if len(l) <= k else rng.sample(l, k)
    for doc in docs:
        ns = list(G.nodes(doc))
        # ---- uapply: valid single operations, sequences, junk (the streams of C16), both case modes
        streams = C16.valid_stream(rng, doc, True) + C16.seq_stream(rng, doc, True)
        for ops, tags in some(streams, 10 if quick else 40):
            if size(list(ops)) > 3 * MAX_NODES: continue
            cs = csflag(rng, 0.8)
            cases.append(mk('uapply', [cs], [doc, list(ops)], tags + cstag(cs)))
        for patch, tags in some(C16.junk_stream(rng, doc, True), 4 if quick else 12):
            if size(patch) > 3 * MAX_NODES: continue
            cs = csflag(rng, 0.7)
            cases.append(mk('uapply', [cs], [doc, patch], tags + cstag(cs)))
        # ---- umerge
        for _ in range(3 if quick else 8):
            r = rng.random()
            if r < 0.6: patch, tag = derive_patch(rng, doc), 'derived'
            elif r < 0.85: patch, tag = small_doc(rng, 2), 'independent'
            else: patch, tag = G.mutate(doc, rng), 'mutation'
            cs = csflag(rng)
            cases.append(mk('umerge', [cs], [doc, patch], [tag] + cstag(cs)))
        if rng.random() < 0.3:
            cs = csflag(rng)
            cases.append(mk('umerge', [cs], [Ellipsis, derive_patch(rng, doc)], ['null-target'] + cstag(cs)))
        # ---- pairs for ugenmerge / ugenpatch / ucompare
        pairs = [(G.mutate(doc, rng), 'mutation'), (G.shuffled(copy.deepcopy(doc), rng), 'permutation'), (copy.deepcopy(doc), 'same')]
        if rng.random() < 0.5: pairs.append((small_doc(rng, 2), 'independent'))
        if rng.random() < 0.5: pairs.append((G.shuffled(G.mutate(doc, rng), rng), 'mutation+permutation'))
        for other, tag in pairs:
            if size(other) > MAX_NODES: continue
            for kind in ('ugenmerge', 'ugenpatch', 'ucompare'):
                if quick and rng.random() < 0.35: continue
                cs = csflag(rng)
                a, b = (doc, other) if rng.random() < 0.7 else (other, doc)
                cases.append(mk(kind, [cs], [a, b], [tag] + cstag(cs)))
        # ---- ufind: every node (by child indices) and a node outside
        paths = list(all_paths(doc))
        for p in some(paths, 6 if quick else 20):
            cases.append(mk('ufind', [pstr(p)], [doc], ['inside', 'depth=%d' % len(p)]))
        if rng.random() < 0.4: cases.append(mk('ufind', ['-'], [doc], ['outside']))
        # ---- ugetptr: pointers of nodes, damaged pointers, junk
        texts = [G.ptr(t) for t, _ in some(ns, 4 if quick else 12)]
        texts += [t + rng.choice(['/', '/0', '/a', '~', '/-', 'x']) for t in some(texts, 2)]
        texts += [t.upper() for t in some(texts, 1)] + some(JUNK_POINTERS, 3 if quick else 10)
        for t in texts:
            cs = csflag(rng, 0.6)
            cases.append(mk('ugetptr', [cs, hx(t.encode('utf-8'))], [doc], ['pointer'] + cstag(cs)))
        # ---- usort
        if isinstance(doc, (list, Obj)) and (not quick or rng.random() < 0.6):
            cs = csflag(rng, 0.5)
            cases.append(mk('usort', [cs], [G.shuffled(copy.deepcopy(doc), rng)], cstag(cs)))
    # ---- NULL operands (the public entry points accept them), both positions
    d0 = Obj([('b', 1), ('a', [1, Obj([('y', None), ('x', 2)])])]); p0 = [G.mk_op('add', '/c', 1)]
    for cs in (0, 1):
        for kind, x, y in (('umerge', Ellipsis, Ellipsis), ('umerge', d0, Ellipsis), ('umerge', Ellipsis, d0), ('umerge', Ellipsis, 5),
                           ('ugenmerge', Ellipsis, d0), ('ugenmerge', d0, Ellipsis), ('ugenmerge', Ellipsis, Ellipsis), ('ugenmerge', 5, Ellipsis),
                           ('ugenpatch', Ellipsis, d0), ('ugenpatch', d0, Ellipsis), ('ugenpatch', Ellipsis, Ellipsis),
                           ('uapply', Ellipsis, p0), ('uapply', d0, Ellipsis), ('uapply', Ellipsis, Ellipsis), ('uapply', Ellipsis, []),
                           ('ucompare', Ellipsis, d0), ('ucompare', d0, Ellipsis), ('ucompare', Ellipsis, Ellipsis)):
            cases.append(mk(kind, [cs], [x, y], ['null-operand'] + cstag(cs)))
        cases.append(mk('usort', [cs], [Ellipsis], ['null-operand'] + cstag(cs)))
    # ---- array indices with several digits, long keys / pointer texts (lengths around 64 / 128 / 256)
    wide = Obj([('l', list(range(12))), ('o', Obj([('k', [Obj([('deep', 1)])] * 11)]))])
    for p in all_paths(wide): cases.append(mk('ufind', [pstr(p)], [wide], ['wide', 'depth=%d' % len(p)]))
    for t in ('/l/10', '/l/11', '/l/12', '/l/010', '/o/k/10/deep', '/o/k/9/deep', '/o/k/11/deep', '/l/9x'):
        cases.append(mk('ugetptr', [1, hx(t.encode())], [wide], ['wide', 'cs']))
        cases.append(mk('uapply', [1], [wide, [G.mk_op('remove', t)]], ['wide', 'cs']))
        cases.append(mk('uapply', [1], [wide, [G.mk_op('add', t, 'v')]], ['wide', 'cs']))
    cases.append(mk('ugenpatch', [1], [wide, Obj([('l', list(range(1, 12)) + [5, 6]), ('o', Obj([('k', [Obj([('deep', 2)])] * 11)]))])], ['wide', 'cs']))
    for L in ([63, 64, 65, 127, 128, 129, 255, 256, 257] if quick else list(range(58, 70)) + list(range(124, 132)) + list(range(252, 260))):
        key = 'k' * (L - 2) + '/'; doc = Obj([(key, [1, Obj([(key, 2)])]), ('z', [1, 2])]); e = '/' + G.esc(key)
        for p in all_paths(doc): cases.append(mk('ufind', [pstr(p)], [doc], ['pointer-length', 'len=%d' % L]))
        for t in (e, e + '/1' + e, e + '/1', e + 'x'): cases.append(mk('ugetptr', [1, hx(t.encode())], [doc], ['pointer-length', 'len=%d' % L, 'cs']))
        for ops in ([G.mk_op('remove', e)], [G.mk_op('replace', e + '/1' + e, 5)], [G.mk_op('move', '/m', frm=e)], [G.mk_op('copy', e + '/1' + e, frm='/z')], [G.mk_op('add', e + 'x', True)], [G.mk_op('test', e + '/0', 1)]):
            cases.append(mk('uapply', [1], [doc, ops], ['pointer-length', 'len=%d' % L, 'cs']))
        cases.append(mk('ugenpatch', [1], [doc, Obj([(key, [1, Obj([(key, 3)])]), ('z', [2])])], ['pointer-length', 'len=%d' % L, 'cs']))
        cases.append(mk('umerge', [1], [doc, Obj([(key, None), (key + 'y', Obj([(key, None), ('n', 1)]))])], ['pointer-length', 'len=%d' % L, 'cs']))
    # ---- outside JSON (robustness of the correspondence, same observables): duplicate member names, NaN and infinities
    DK = ['a', 'A', 'b', 'a', 'B', '', 'a/b', '0']
    def xdoc(d, root=True):
        r = rng.random()
        if d <= 0 or (r < 0.3 and not root):
            k = rng.randrange(8)
            if k == 2: return float('nan')
            if k == 3: return rng.choice([float('inf'), -float('inf'), -0.0, 0.0])
            return G.rand_scalar(rng)
        if r < 0.55: return [xdoc(d - 1, False) for _ in range(rng.choice([0, 1, 2, 3]))]
        return Obj([(rng.choice(DK), xdoc(d - 1, False)) for _ in range(rng.choice([0, 1, 2, 3, 4, 5]))])
    def xt(v, key=None):
        if isinstance(v, float) and v != v: return node_tokens(T_NUMBER, vi=0, vd=float('nan'), key=key)
        if isinstance(v, Obj): return node_tokens(T_OBJECT, key=key, children=[xt(e, key=k) for k, e in v])
        if isinstance(v, list): return node_tokens(T_ARRAY, key=key, children=[xt(e) for e in v])
        return value_tokens(v, key=key)
    def raw(kind, args, trees, tags):
        return Case(' '.join([kind] + [str(a) for a in args] + [' '.join(t) for t in trees]), {'tags': [kind] + tags, 'area': AREA, 'kind': kind})
    for _ in range(15 if quick else 150):
        a = xdoc(rng.choice([1, 2, 3])); b = rng.choice([lambda: xdoc(2), lambda: G.shuffled(copy.deepcopy(a), rng), lambda: copy.deepcopy(a)])()
        if size(a) > MAX_NODES or size(b) > MAX_NODES: continue
        cs = rng.randrange(2); tg = ['dupkeys-nonfinite'] + cstag(cs)
        for kind in ('umerge', 'ugenmerge', 'ugenpatch', 'ucompare'): cases.append(raw(kind, [cs], [xt(a), xt(b)], tg))
        cases.append(raw('usort', [cs], [xt(a)], tg))
        for p in list(all_paths(a))[:5]: cases.append(raw('ufind', [pstr(p)], [xt(a)], tg[:1]))
        ns = list(G.nodes(a))
        for t, _ in some(ns, 4): cases.append(raw('ugetptr', [cs, hx(G.ptr(t).encode('utf-8'))], [xt(a)], tg))
        for _ in range(4):
            (t, v), (t2, _) = rng.choice(ns), rng.choice(ns)
            op = rng.choice([G.mk_op('add', G.ptr(t), 1), G.mk_op('remove', G.ptr(t)), G.mk_op('replace', G.ptr(t), 'r'), G.mk_op('move', G.ptr(t), frm=G.ptr(t2)), G.mk_op('copy', G.ptr(t) + '/a', frm=G.ptr(t2))])
            cases.append(raw('uapply', [cs], [xt(a), value_tokens([op])], tg))
            cases.append(raw('uapply', [cs], [xt(a), xt([Obj([('op', 'test'), ('path', G.ptr(t)), ('value', copy.deepcopy(v))])])], tg))
    # ---- malformed trees (outside every precondition): string nodes without valuestring, members without a name, named array elements, raw nodes, invalid types.
    #      Where the library dereferences the missing string the case CRASHes and the model must answer NullDeref (project() identifies the two; verdict() ignores these cases)
    MK = ['a', 'A', 'b', 'B', '', 'a/b', '0']
    def mnode(d, key, root=True):
        r = rng.random()
        if rng.random() < 0.08: key = None if key is not None else 'k'
        if d <= 0 or (r < 0.3 and not root):
            k = rng.randrange(9)
            if k == 0: return node_tokens(T_STRING, vs=None, key=key)
            if k == 1: return node_tokens(T_RAW, vs='raw', key=key)
            if k == 2: return node_tokens(rng.choice([0, 3, 255, 24, 96]), key=key)
            if k == 3: return node_tokens(T_NUMBER, vs='x', vi=1, vd=2.0, key=key)
            return value_tokens(G.rand_scalar(rng), key=key)
        if r < 0.55: return node_tokens(T_ARRAY, key=key, children=[mnode(d - 1, None, False) for _ in range(rng.choice([0, 1, 2, 3]))])
        return node_tokens(T_OBJECT, key=key, children=[mnode(d - 1, k, False) for k in rng.sample(MK, rng.choice([0, 1, 2, 3, 4]))])
    good = value_tokens(Obj([('a', 1), ('b', [1])]))
    for _ in range(25 if quick else 250):
        a = mnode(rng.choice([1, 2, 3]), None); b = rng.choice([lambda: mnode(2, None), lambda: list(a)])()
        if a.count('N') > MAX_NODES or b.count('N') > MAX_NODES: continue
        cs = rng.randrange(2); tg = ['malformed'] + cstag(cs)
        for kind in ('umerge', 'ugenmerge', 'ugenpatch', 'ucompare'): cases.append(raw(kind, [cs], [a, b], tg))
        cases.append(raw('usort', [cs], [a], tg)); cases.append(raw('ufind', ['-'], [a], tg[:1]))
        for t in some(['/a', '/0', '/b/0', '/A/a', ''], 2):
            cases.append(raw('ugetptr', [cs, hx(t.encode())], [a], tg))
            op = rng.choice([G.mk_op('add', t, 1), G.mk_op('remove', t), G.mk_op('replace', t, 's'), G.mk_op('test', t, 1), G.mk_op('move', t, frm='/b'), G.mk_op('copy', t + '/a', frm='/a')])
            cases.append(raw('uapply', [cs], [a, value_tokens([op])], tg)); cases.append(raw('uapply', [cs], [good, b], tg))
    # ---- members added with cJSON_AddItemToObjectCS: constant keys are caller memory (never written, never released by the library)
    for c in rng.sample(cases, min(len(cases), 500 if quick else 4000)):
        cases.append(C16.constified(c, rng))
    return cases

def project(c, out):
    # a NULL dereference is an error outcome of the model and a crash of the library (cases tagged `malformed` only; elsewhere verdict() reports the crash)
    if is_crash(out) or out.startswith('MODELERR=NullDeref'): return 'CRASH'
    # likewise a release of borrowed memory is an error outcome of the model (it stops there) and a counted event of the tracking allocator (the
    # library goes on): e.g. replacing a document root that carries a CONSTANT key (malformed stream: a document root has no name; DESIGN 11.6)
    if out.startswith('MODELERR=ForeignFree') or ' FOREIGNFREE=' in out: return 'FOREIGNFREE'
    return out

def verdict(c, out, ctx):
    if 'malformed' in c.info.get('tags', ()):
        # outside every precondition: a crash on a missing string and blocks lost when cJSON_AddItemToObject refuses a member without a name (its result is
        # ignored by merge_patch / generate_merge_patch) are what the code does there -- the model must do the same (project), nothing is judged here
        return 'no answer: ' + out if (out == 'NOOUTPUT' or 'TIMEOUT' in out) else None
    if is_crash(out): return 'crash / memory error: ' + out
    ap = alloc_problem(out)
    if ap: return ap
    if not any(t.startswith('live=') for t in out.split(' ')): return 'no ledger in the output: ' + out[:120]
    return None

def nontrivial(c, out):
    return not is_crash(out) and 'MODELERR' not in out and 'MODEL_EXN' not in out
