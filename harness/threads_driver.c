/* threads_driver.c — property C20: N threads use the library on thread-private trees and buffers.
 *
 *   threads_driver <seed> <nthreads> <steps> <mode> <hooks>
 *     mode  = concurrent | alone      (alone: the same per-thread call sequences, one thread after the other)
 *     hooks = custom | default        (custom: thread-safe malloc/free wrappers installed before the threads start)
 *
 * Every thread derives its whole call sequence from (seed, thread index) with a private PRNG, so the sequence is
 * the same in both modes; it folds every result it obtains (flags, parse-end offsets, printed texts, comparison
 * results, patch status codes) into a private digest and prints "T<i> <digest> ops=<n>" at the end.  The check
 * compares the digests of the concurrent run with those of the alone run and reads the ThreadSanitizer report:
 * a race on anything but the documented global error position is a violation.
 * The global error pointer is never consulted (cJSON_GetErrorPtr is not called).
 */
#define _GNU_SOURCE
#include <stdio.h>
#include <stdlib.h>
#include <string.h>
#include <stdint.h>
#include <pthread.h>
#include "cJSON.h"
#include "cJSON_Utils.h"

typedef struct { uint64_t s; } rng_t;
static uint64_t rnd(rng_t *r) { r->s ^= r->s << 13; r->s ^= r->s >> 7; r->s ^= r->s << 17; return r->s; }
static unsigned rn(rng_t *r, unsigned n) { return (unsigned)(rnd(r) % n); }

typedef struct { int idx; uint64_t seed; int steps; uint64_t digest; long ops; } tstate;

static void fold(tstate *t, const void *p, size_t n)
{ const unsigned char *b = (const unsigned char*)p; size_t i; for (i = 0; i < n; i++) { t->digest ^= b[i]; t->digest *= 1099511628211ULL; } }
static void foldi(tstate *t, long v) { fold(t, &v, sizeof v); }
static void folds(tstate *t, const char *s) { if (s) fold(t, s, strlen(s) + 1); else foldi(t, -7); }

/* thread-safe custom hooks (the allocator itself is the thread-safe libc one; the counters are atomic) */
static long hook_allocs, hook_frees;
static void *h_malloc(size_t n) { __atomic_add_fetch(&hook_allocs, 1, __ATOMIC_RELAXED); return malloc(n); }
static void h_free(void *p) { if (p) __atomic_add_fetch(&hook_frees, 1, __ATOMIC_RELAXED); free(p); }

/* ---- private text generator ---- */
typedef struct { char *p; size_t n, cap; } tb;
static void tb_put(tb *b, const char *s) { size_t k = strlen(s); if (b->n + k + 1 > b->cap) { b->cap = (b->n + k + 1) * 2; b->p = (char*)realloc(b->p, b->cap); } memcpy(b->p + b->n, s, k + 1); b->n += k; }
static const char *KEYS[] = { "a", "b", "key", "A", "x/y", "m~n", "", "k2", "zeta", "Key" };
static const char *STRS[] = { "\"\"", "\"hello\"", "\"a\\\\b\"", "\"q\\\"q\"", "\"\\u00e9\\ud83d\\ude00\"", "\"tab\\there\"", "\"/* c */ // d\"" };
static const char *NUMS[] = { "0", "-1", "1.5", "1e10", "123456789", "0.1", "-2.5e-3", "2147483648", "1e400", "3.141592653589793" };
static void gen_value(rng_t *r, tb *b, int depth)
{
    unsigned k = rn(r, depth <= 0 ? 5 : 8), i, n;
    switch (k) {
    case 0: tb_put(b, "null"); break;
    case 1: tb_put(b, rn(r, 2) ? "true" : "false"); break;
    case 2: case 3: tb_put(b, NUMS[rn(r, 10)]); break;
    case 4: tb_put(b, STRS[rn(r, 7)]); break;
    case 5: case 6:
        tb_put(b, rn(r, 2) ? "[" : "[ "); n = rn(r, 4);
        for (i = 0; i < n; i++) { if (i) tb_put(b, rn(r, 2) ? "," : " , "); gen_value(r, b, depth - 1); }
        tb_put(b, "]"); break;
    default:
        tb_put(b, "{"); n = rn(r, 4);
        for (i = 0; i < n; i++) { char kb[40]; if (i) tb_put(b, ",\n"); snprintf(kb, sizeof kb, "\"%s%u\":", KEYS[rn(r, 10)], i); tb_put(b, kb); gen_value(r, b, depth - 1); }
        tb_put(b, "}"); break;
    }
}
static char *gen_text(rng_t *r, size_t *len)
{
    tb b; b.cap = 64; b.n = 0; b.p = (char*)malloc(b.cap); b.p[0] = 0;
    if (rn(r, 4) == 0) tb_put(&b, " \n");
    gen_value(r, &b, 3);
    if (rn(r, 4) == 0) tb_put(&b, "  ");
    *len = b.n; return b.p;
}

static cJSON *fresh_doc(tstate *t, rng_t *r)
{
    size_t len; char *txt = gen_text(r, &len); const char *end = NULL; cJSON *d;
    if (rn(r, 2)) d = cJSON_ParseWithLengthOpts(txt, len, &end, 0); else d = cJSON_ParseWithOpts(txt, &end, 0);
    foldi(t, d != NULL); foldi(t, (end >= txt && end <= txt + len) ? (long)(end - txt) : -1);
    free(txt);
    if (!d) d = cJSON_CreateObject();
    return d;
}

static void one_step(tstate *t, rng_t *r, cJSON **docp)
{
    cJSON *doc = *docp; unsigned op = rn(r, 14);
    t->ops++;
    switch (op) {
    case 0: { cJSON_Delete(doc); *docp = fresh_doc(t, r); break; }
    case 1: case 2: {   /* a malformed private text with return_parse_end: the error position must be this thread's own */
        size_t len; char *txt = gen_text(r, &len); const char *end = (const char*)1; cJSON *d; size_t cut;
        if (len > 1) { cut = 1 + rn(r, (unsigned)len - 1); if (rn(r, 2)) { txt[cut] = 0; len = cut; } else txt[cut] = (char)("}]x,:\""[rn(r, 6)]); }
        if (rn(r, 2)) d = cJSON_ParseWithLengthOpts(txt, len, &end, (int)rn(r, 2)); else d = cJSON_ParseWithOpts(txt, &end, (int)rn(r, 2));
        foldi(t, d != NULL); foldi(t, (end >= txt && end <= txt + len + 1) ? (long)(end - txt) : -1);
        cJSON_Delete(d); free(txt); break; }
    case 3: { char *s = rn(r, 2) ? cJSON_Print(doc) : cJSON_PrintUnformatted(doc); folds(t, s); cJSON_free(s); break; }
    case 4: { char *s = cJSON_PrintBuffered(doc, (int)rn(r, 300), (int)rn(r, 2)); folds(t, s); cJSON_free(s); break; }
    case 5: { char buf[512]; int ok = cJSON_PrintPreallocated(doc, buf, (int)(16 + rn(r, 496)), (int)rn(r, 2)); foldi(t, ok); if (ok) folds(t, buf); break; }
    case 6: { cJSON *d = cJSON_Duplicate(doc, 1); foldi(t, cJSON_Compare(doc, d, 1)); foldi(t, cJSON_Compare(d, doc, 0));
              if (cJSON_IsObject(d)) cJSON_AddNumberToObject(d, "added", (double)rn(r, 100)); else if (cJSON_IsArray(d)) cJSON_AddItemToArray(d, cJSON_CreateString("added"));
              foldi(t, cJSON_Compare(doc, d, 1)); cJSON_Delete(d); break; }
    case 7: {   /* edits */
        if (cJSON_IsArray(doc)) { cJSON_AddItemToArray(doc, cJSON_CreateNumber((double)rn(r, 1000))); cJSON_InsertItemInArray(doc, (int)rn(r, 3), cJSON_CreateTrue());
                                  if (rn(r, 2)) cJSON_DeleteItemFromArray(doc, 0); foldi(t, cJSON_GetArraySize(doc)); }
        else if (cJSON_IsObject(doc)) { cJSON_AddStringToObject(doc, KEYS[rn(r, 10)], "v"); { cJSON *nu = cJSON_CreateNull(); int ok = cJSON_ReplaceItemInObjectCaseSensitive(doc, KEYS[rn(r, 10)], nu); foldi(t, ok); if (!ok) cJSON_Delete(nu); }
                                        cJSON_DeleteItemFromObject(doc, KEYS[rn(r, 10)]); foldi(t, cJSON_GetArraySize(doc)); foldi(t, cJSON_HasObjectItem(doc, "a0")); }
        else { cJSON *a = cJSON_CreateArray(); cJSON_AddItemToArray(a, doc); *docp = a; }
        break; }
    case 8: {   /* minify a private buffer */
        char *s = cJSON_Print(doc); size_t n = s ? strlen(s) : 0; char *m = (char*)malloc(n + 64);
        snprintf(m, n + 64, "/* c */ %s // tail\n", s ? s : ""); cJSON_Minify(m); folds(t, m); free(m); cJSON_free(s); break; }
    case 9: {   /* JSON patch round trip on private copies */
        cJSON *a = cJSON_Duplicate(doc, 1), *b = cJSON_Duplicate(doc, 1), *p; char *s;
        if (cJSON_IsObject(b)) { cJSON_AddNumberToObject(b, "p", 1); cJSON_DeleteItemFromObject(b, KEYS[rn(r, 10)]); } else if (cJSON_IsArray(b)) cJSON_AddItemToArray(b, cJSON_CreateFalse());
        p = cJSONUtils_GeneratePatchesCaseSensitive(a, b); s = cJSON_PrintUnformatted(p); folds(t, s); cJSON_free(s);
        foldi(t, cJSONUtils_ApplyPatchesCaseSensitive(a, p)); foldi(t, cJSON_Compare(a, b, 1));
        cJSON_Delete(a); cJSON_Delete(b); cJSON_Delete(p); break; }
    case 10: {  /* merge patch */
        cJSON *a = cJSON_Duplicate(doc, 1), *b = cJSON_Duplicate(doc, 1), *p; char *s;
        if (cJSON_IsObject(b)) { cJSON_AddStringToObject(b, "mp", "x"); cJSON_DeleteItemFromObjectCaseSensitive(b, KEYS[rn(r, 10)]); }
        p = cJSONUtils_GenerateMergePatchCaseSensitive(a, b); s = cJSON_PrintUnformatted(p); folds(t, s); cJSON_free(s);
        if (p) { a = cJSONUtils_MergePatchCaseSensitive(a, p); foldi(t, cJSON_Compare(a, b, 1)); }
        cJSON_Delete(a); cJSON_Delete(b); cJSON_Delete(p); break; }
    case 11: { if (cJSON_IsObject(doc)) { if (rn(r, 2)) cJSONUtils_SortObject(doc); else cJSONUtils_SortObjectCaseSensitive(doc); } { char *s = cJSON_PrintUnformatted(doc); folds(t, s); cJSON_free(s); } break; }
    case 12: { char ptr[32]; cJSON *x; char *back; snprintf(ptr, sizeof ptr, "/%s%u/%u", KEYS[rn(r, 10)], rn(r, 3), rn(r, 3)); x = cJSONUtils_GetPointerCaseSensitive(doc, ptr); foldi(t, x ? x->type : -1);
               x = doc->child ? doc->child : doc; back = cJSONUtils_FindPointerFromObjectTo(doc, x); folds(t, back); cJSON_free(back); break; }
    default: {  /* setters on a fresh private node */
        cJSON *s = cJSON_CreateString("abc"); cJSON *n = cJSON_CreateNumber(1); folds(t, cJSON_SetValuestring(s, rn(r, 2) ? "x" : "a longer string")); foldi(t, (long)cJSON_SetNumberHelper(n, 1e10)); foldi(t, n->valueint);
        cJSON_Delete(s); cJSON_Delete(n); break; }
    }
}

static void *thread_main(void *arg)
{
    tstate *t = (tstate*)arg; rng_t r; cJSON *doc; int i;
    r.s = t->seed * 6364136223846793005ULL + (uint64_t)(t->idx + 1) * 1442695040888963407ULL; if (!r.s) r.s = 1; rnd(&r); rnd(&r);
    t->digest = 14695981039346656037ULL; t->ops = 0;
    doc = fresh_doc(t, &r);
    for (i = 0; i < t->steps; i++) one_step(t, &r, &doc);
    cJSON_Delete(doc);
    return NULL;
}

int main(int argc, char **argv)
{
    uint64_t seed = argc > 1 ? strtoull(argv[1], NULL, 10) : 1; int n = argc > 2 ? atoi(argv[2]) : 8, steps = argc > 3 ? atoi(argv[3]) : 2000, i;
    int concurrent = argc > 4 ? strcmp(argv[4], "alone") != 0 : 1; int custom = argc > 5 ? strcmp(argv[5], "custom") == 0 : 1;
    pthread_t *th = (pthread_t*)calloc((size_t)n, sizeof *th); tstate *ts = (tstate*)calloc((size_t)n, sizeof *ts);
    if (custom) { cJSON_Hooks h; h.malloc_fn = h_malloc; h.free_fn = h_free; cJSON_InitHooks(&h); }   /* before the threads start */
    for (i = 0; i < n; i++) { ts[i].idx = i; ts[i].seed = seed; ts[i].steps = steps; }
    if (concurrent) { for (i = 0; i < n; i++) pthread_create(&th[i], NULL, thread_main, &ts[i]); for (i = 0; i < n; i++) pthread_join(th[i], NULL); }
    else for (i = 0; i < n; i++) { pthread_create(&th[i], NULL, thread_main, &ts[i]); pthread_join(th[i], NULL); }
    for (i = 0; i < n; i++) printf("T%d %016llx ops=%ld\n", i, (unsigned long long)ts[i].digest, ts[i].ops);
    if (custom) printf("HOOKS allocs=%ld frees=%ld\n", hook_allocs, hook_frees);
    free(th); free(ts);
    return 0;
}
