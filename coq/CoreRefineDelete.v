(** CoreRefineDelete.v — simulation of [cJSON_Delete]: the recursive release of a chain of trees.

    * [free_order ts]: the exact order in which the blocks are released (subtree, valuestring,
      key, node; then the next sibling), a permutation of [owned_fl (flat ts)] ([free_order_owned]);
    * [Enc h ts]: the LOCAL encoding of a chain of trees in a heap (data, next pointers,
      ownership) — all that [cJSON_Delete] relies on; it is implied by [WF] for a root
      ([WF_Enc_root]) and survives the release of unrelated blocks ([Enc_free_all]);
    * [cJSON_Delete_fuel_sim]: on [Enc h ts] with enough fuel the loop returns
      [free_all (free_order ts) h] — by induction on the fuel;
    * [cJSON_Delete_sim]: deleting a root [x] of a well-formed heap yields a heap that is
      well-formed for [remove_root x F], and keeps [NoLeak]. *)
From CJ Require Import Base Dbl Heap Forest ForestLemmas CoreSpec CoreDefs CoreRefineBase CoreRefine.
From CJ.gen Require Import Constants.
From stdpp Require Import gmap.
Implicit Types (h : heap) (F : forest) (p x y i b : positive) (d : rdata) (ts cs : list tree).

(** * cJSON_Delete *)

(** the order in which [cJSON_Delete] releases the blocks of a chain of trees: for each node
    its subtree first, then its owned strings (valuestring, key), then the node *)
Fixpoint free_order_t (t : tree) : list positive :=
  match t with T i d cs => (cs ≫= free_order_t) ++ owned_strs d ++ [i] end.
Definition free_order (ts : list tree) : list positive := ts ≫= free_order_t.

Lemma free_order_cons t ts : free_order (t :: ts) = free_order_t t ++ free_order ts.
Proof. reflexivity. Qed.
Lemma free_order_t_unfold i d cs : free_order_t (T i d cs) = free_order cs ++ owned_strs d ++ [i].
Proof. reflexivity. Qed.

Lemma free_order_owned_list ts :
  Forall (fun t => free_order_t t ≡ₚ owned_fl (flat_t t)) ts -> free_order ts ≡ₚ owned_fl (flat ts).
Proof.
  induction ts as [|t ts IH]; intros HF; [done|]. apply Forall_cons in HF as [Ht HF].
  rewrite free_order_cons, flat_cons, owned_fl_app, Ht. by rewrite IH.
Qed.
Lemma free_order_t_owned t : free_order_t t ≡ₚ owned_fl (flat_t t).
Proof.
  induction t as [i d cs IH] using tree_ind'. rewrite free_order_t_unfold, flat_t_unfold, owned_fl_cons.
  rewrite (free_order_owned_list cs IH). unfold owned_fn. cbn.
  rewrite (Permutation_app_comm (owned_fl (flat cs))). rewrite <- app_assoc. cbn.
  rewrite <- Permutation_middle. apply Permutation_skip. by rewrite Permutation_app_comm.
Qed.
Lemma free_order_owned ts : free_order ts ≡ₚ owned_fl (flat ts).
Proof. apply free_order_owned_list. apply Forall_forall. intros t _. apply free_order_t_owned. Qed.

(** ** the local encoding of a chain of trees in a heap (next pointers, data, ownership):
    what [cJSON_Delete] relies on; it survives the release of unrelated blocks *)
Record Enc (h : heap) (ts : list tree) : Prop := mkEnc {
  enc_dat : forall i d (ks : list positive), (i, d, ks) ∈ flat ts -> h_dat h !! i = Some (mk_dat d ks);
  enc_top : forall j c, ts !! j = Some c -> exists pv, h_lnk h !! tid c = Some (tid <$> ts !! S j, pv);
  enc_in : forall i d (ks : list positive) j c, (i, d, ks) ∈ flat ts -> ks !! j = Some c ->
             exists pv, h_lnk h !! c = Some (ks !! S j, pv);
  enc_nodup : NoDup (owned_fl (flat ts));
  enc_live : forall b, b ∈ owned_fl (flat ts) -> b ∈ h_live h /\ h_own h !! b = Some Lib;
  enc_ref : Forall ref_ok (flat ts)
}.

Lemma elem_of_flat_ids ts i d (ks : list positive) : (i, d, ks) ∈ flat ts -> i ∈ owned_fl (flat ts).
Proof. intros H. apply elem_of_owned_fl. exists (i, d, ks). split; [done|]. by left. Qed.

Lemma Enc_tail h t ts : Enc h (t :: ts) -> Enc h ts.
Proof.
  intros [E1 E2 E3 E4 E5 E6]. rewrite flat_cons in *. constructor.
  - intros i d ks H. apply E1. apply elem_of_app. by right.
  - intros j c H. apply (E2 (S j) c H).
  - intros i d ks j c H Hj. apply (E3 i d ks j c); [|done]. apply elem_of_app. by right.
  - rewrite owned_fl_app in E4. by apply NoDup_app in E4 as (_ & _ & ?).
  - intros b H. apply E5. rewrite owned_fl_app. apply elem_of_app. by right.
  - by apply Forall_app in E6 as [_ ?].
Qed.
Lemma Enc_children h i d cs ts : Enc h (T i d cs :: ts) -> Enc h cs.
Proof.
  intros [E1 E2 E3 E4 E5 E6]. rewrite flat_cons, flat_t_unfold in *.
  assert (Hsub : forall e : fnode, e ∈ flat cs -> e ∈ ((i, d, tid <$> cs) :: flat cs) ++ flat ts).
  { intros e He. apply elem_of_app. left. by right. }
  constructor.
  - intros i' d' ks H. apply E1. by apply Hsub.
  - intros j c H. destruct (E3 i d (tid <$> cs) j (tid c)) as [pv Hpv].
    + apply elem_of_app. left. by left.
    + by rewrite list_lookup_fmap, H.
    + exists pv. rewrite Hpv. by rewrite list_lookup_fmap.
  - intros i' d' ks j c H Hj. apply (E3 i' d' ks j c); [|done]. by apply Hsub.
  - rewrite owned_fl_app, owned_fl_cons in E4. apply NoDup_app in E4 as (E4 & _ & _).
    by apply NoDup_app in E4 as (_ & _ & ?).
  - intros b H. apply E5. rewrite owned_fl_app, owned_fl_cons. apply elem_of_app. left. apply elem_of_app. by right.
  - apply Forall_app in E6 as [E6 _]. by apply Forall_cons in E6 as [_ ?].
Qed.

Lemma Enc_free1 h ts b : Enc h ts -> b ∉ owned_fl (flat ts) -> Enc (free1 b h) ts.
Proof.
  intros [E1 E2 E3 E4 E5 E6] Hb. constructor; cbn.
  - intros i d ks H. rewrite lookup_delete_ne; [by apply E1|]. intros ->. apply Hb. by eapply elem_of_flat_ids.
  - intros j c H. destruct (E2 j c H) as [pv Hpv]. exists pv. rewrite lookup_delete_ne; [done|].
    intros ->. apply Hb. apply ids_subseteq_owned. apply roots_subseteq_ids.
    apply elem_of_list_fmap. exists c. split; [done|]. by eapply elem_of_list_lookup_2.
  - intros i d ks j c H Hj. destruct (E3 i d ks j c H Hj) as [pv Hpv]. exists pv.
    rewrite lookup_delete_ne; [done|]. intros ->. apply Hb. apply ids_subseteq_owned.
    eapply cids_in_ids; [done|]. by eapply elem_of_list_lookup_2.
  - done.
  - intros b' H. destruct (E5 b' H) as [H1 H2]. split; [|done]. apply elem_of_difference. split; [done|].
    intros Heq%elem_of_singleton. by subst.
  - done.
Qed.
Lemma Enc_free_all h ts bs : Enc h ts -> (forall b, b ∈ bs -> b ∉ owned_fl (flat ts)) -> Enc (free_all bs h) ts.
Proof.
  revert h. induction bs as [|b bs IH]; intros h E Hbs; [done|]. rewrite free_all_cons. apply IH.
  - apply Enc_free1; [done|]. apply Hbs. by left.
  - intros b' Hb'. apply Hbs. by right.
Qed.

(** ** one node: release of the owned strings and of the node itself *)
Definition eq_except (i : positive) (h h' : heap) : Prop :=
  h_lnk h = h_lnk h' /\ delete i (h_dat h) = delete i (h_dat h') /\ h_str h = h_str h' /\
  h_own h = h_own h' /\ h_live h = h_live h' /\ h_next h = h_next h' /\ h_req h = h_req h' /\
  h_hooks h = h_hooks h' /\ h_trace h = h_trace h'.

Lemma eq_except_refl i h : eq_except i h h.
Proof. by repeat split. Qed.
Lemma eq_except_free1_same i h h' : eq_except i h h' -> free1 i h = free1 i h'.
Proof.
  intros (H1 & H2 & H3 & H4 & H5 & H6 & H7 & H8 & H9). unfold free1, via_free.
  by rewrite H1, H2, H3, H4, H5, H6, H7, H8, H9.
Qed.
Lemma eq_except_free1 i b h h' : eq_except i h h' -> eq_except i (free1 b h) (free1 b h').
Proof.
  intros (H1 & H2 & H3 & H4 & H5 & H6 & H7 & H8 & H9). unfold eq_except, free1, via_free; cbn.
  rewrite H1, H3, H4, H5, H6, H7, H8, H9. split_and!; try done.
  rewrite (delete_commute _ i b), H2. by rewrite delete_commute.
Qed.
Lemma eq_except_set_dat i h h' nd : eq_except i h h' -> eq_except i (set_dat h (<[i := nd]> (h_dat h))) h'.
Proof.
  intros (H1 & H2 & H3 & H4 & H5 & H6 & H7 & H8 & H9). unfold eq_except, set_dat, upd_maps; cbn.
  split_and!; try done. by rewrite delete_insert_delete.
Qed.

Lemma vstr_step {B} (K : M B) h i nd :
  i ∈ h_live h -> h_dat h !! i = Some nd ->
  (forall v, has_flag (nd_type nd) c_cJSON_IsReference = false -> nd_vstr nd = Some v ->
             v <> i /\ v ∈ h_live h /\ h_own h !! v = Some Lib) ->
  let bs := if has_flag (nd_type nd) c_cJSON_IsReference then [] else opt_list (nd_vstr nd) in
  exists h',
    (t2 <~ get_type (Some i) ;;
     (if has_flag t2 c_cJSON_IsReference then ret tt else
        vs <~ get_vstr (Some i) ;;
        when (negb (is_null vs)) (free_block vs ;;; set_vstr (Some i) None)) ;;; K) h = K h' /\
    eq_except i h' (free_all bs h) /\
    exists nd', h_dat h' !! i = Some nd' /\ nd_type nd' = nd_type nd /\ nd_key nd' = nd_key nd.
Proof.
  intros Hl Hd Hv bs.
  rewrite (bindM_Ret _ _ _ _ _ (run_get_type_plain _ _ _ Hl Hd)).
  destruct (has_flag (nd_type nd) c_cJSON_IsReference) eqn:Hf.
  { exists h. split; [reflexivity|]. split; [apply eq_except_refl|eauto]. }
  rewrite bindM_assoc. rewrite (bindM_Ret _ _ _ _ _ (run_get_vstr_plain _ _ _ Hl Hd)).
  destruct (nd_vstr nd) as [v|] eqn:Ev.
  2:{ exists h. split; [reflexivity|]. split; [apply eq_except_refl|eauto]. }
  destruct (Hv v eq_refl eq_refl) as (Hvi & Hvl & Hvo).
  cbn [is_null negb when]. rewrite bindM_assoc.
  rewrite (bindM_Ret _ _ _ _ _ (run_free_block _ _ Hvl Hvo)).
  assert (Hl' : i ∈ h_live (free1 v h)).
  { cbn. apply elem_of_difference. split; [done|]. intros ?%elem_of_singleton. by subst. }
  assert (Hd' : h_dat (free1 v h) !! i = Some nd) by (cbn; by rewrite lookup_delete_ne).
  rewrite (bindM_Ret _ _ _ _ _ (run_set_vstr_plain _ _ _ None Hl' Hd')).
  eexists. split; [reflexivity|]. split.
  - subst bs. cbn [opt_list free_all fold_left]. apply eq_except_set_dat, eq_except_refl.
  - exists (nd_set_vstr nd None). split; [|done]. cbn. by rewrite lookup_insert.
Qed.

Lemma key_step {B} (K : M B) h i nd :
  i ∈ h_live h -> h_dat h !! i = Some nd ->
  (forall v, has_flag (nd_type nd) c_cJSON_StringIsConst = false -> nd_key nd = Some v ->
             v <> i /\ v ∈ h_live h /\ h_own h !! v = Some Lib) ->
  let bs := if has_flag (nd_type nd) c_cJSON_StringIsConst then [] else opt_list (nd_key nd) in
  exists h',
    (t3 <~ get_type (Some i) ;;
     (if has_flag t3 c_cJSON_StringIsConst then ret tt else
        k <~ get_key (Some i) ;;
        when (negb (is_null k)) (free_block k ;;; set_key (Some i) None)) ;;; K) h = K h' /\
    eq_except i h' (free_all bs h).
Proof.
  intros Hl Hd Hv bs.
  rewrite (bindM_Ret _ _ _ _ _ (run_get_type_plain _ _ _ Hl Hd)).
  destruct (has_flag (nd_type nd) c_cJSON_StringIsConst) eqn:Hf.
  { exists h. split; [reflexivity|]. apply eq_except_refl. }
  rewrite bindM_assoc. rewrite (bindM_Ret _ _ _ _ _ (run_get_key_plain _ _ _ Hl Hd)).
  destruct (nd_key nd) as [v|] eqn:Ev.
  2:{ exists h. split; [reflexivity|]. apply eq_except_refl. }
  destruct (Hv v eq_refl eq_refl) as (Hvi & Hvl & Hvo).
  cbn [is_null negb when]. rewrite bindM_assoc.
  rewrite (bindM_Ret _ _ _ _ _ (run_free_block _ _ Hvl Hvo)).
  assert (Hl' : i ∈ h_live (free1 v h)).
  { cbn. apply elem_of_difference. split; [done|]. intros ?%elem_of_singleton. by subst. }
  assert (Hd' : h_dat (free1 v h) !! i = Some nd) by (cbn; by rewrite lookup_delete_ne).
  rewrite (bindM_Ret _ _ _ _ _ (run_set_key_plain _ _ _ None Hl' Hd')).
  eexists. split; [reflexivity|].
  subst bs. cbn [opt_list free_all fold_left]. apply eq_except_set_dat, eq_except_refl.
Qed.

Lemma eq_except_trans i h1 h2 h3 : eq_except i h1 h2 -> eq_except i h2 h3 -> eq_except i h1 h3.
Proof.
  intros (A1 & A2 & A3 & A4 & A5 & A6 & A7 & A8 & A9) (B1 & B2 & B3 & B4 & B5 & B6 & B7 & B8 & B9).
  unfold eq_except. split_and!; congruence.
Qed.
Lemma eq_except_free_all i bs h h' : eq_except i h h' -> eq_except i (free_all bs h) (free_all bs h').
Proof.
  revert h h'. induction bs as [|b bs IH]; intros h h' H; [done|]. rewrite !free_all_cons.
  by apply IH, eq_except_free1.
Qed.

(** lookups after releasing blocks *)
Lemma free_all_dat_lookup bs h i : i ∉ bs -> h_dat (free_all bs h) !! i = h_dat h !! i.
Proof.
  revert h. induction bs as [|b bs IH]; intros h Hi; [done|]. apply not_elem_of_cons in Hi as [H1 H2].
  rewrite free_all_cons, IH by done. cbn. by rewrite lookup_delete_ne.
Qed.
Lemma free_all_lnk_lookup bs h i : i ∉ bs -> h_lnk (free_all bs h) !! i = h_lnk h !! i.
Proof.
  revert h. induction bs as [|b bs IH]; intros h Hi; [done|]. apply not_elem_of_cons in Hi as [H1 H2].
  rewrite free_all_cons, IH by done. cbn. by rewrite lookup_delete_ne.
Qed.
Lemma free_all_dat_lookup_in bs h i : i ∈ bs -> h_dat (free_all bs h) !! i = None.
Proof.
  revert h. induction bs as [|b bs IH]; intros h Hi; [by apply elem_of_nil in Hi|].
  rewrite free_all_cons. destruct (decide (i ∈ bs)) as [Hin|Hnin]; [by apply IH|].
  apply elem_of_cons in Hi as [->|Hi]; [|done]. rewrite free_all_dat_lookup by done. cbn. by rewrite lookup_delete.
Qed.
Lemma free_all_lnk_lookup_in bs h i : i ∈ bs -> h_lnk (free_all bs h) !! i = None.
Proof.
  revert h. induction bs as [|b bs IH]; intros h Hi; [by apply elem_of_nil in Hi|].
  rewrite free_all_cons. destruct (decide (i ∈ bs)) as [Hin|Hnin]; [by apply IH|].
  apply elem_of_cons in Hi as [->|Hi]; [|done]. rewrite free_all_lnk_lookup by done. cbn. by rewrite lookup_delete.
Qed.
Lemma free_all_live bs h b : b ∈ h_live (free_all bs h) <-> b ∈ h_live h /\ b ∉ bs.
Proof.
  revert h. induction bs as [|c bs IH]; intros h.
  - cbn. split; [intros ?; split; [done|apply not_elem_of_nil]|by intros [? _]].
  - rewrite free_all_cons, IH. cbn. rewrite elem_of_difference, elem_of_singleton, not_elem_of_cons. tauto.
Qed.
Lemma free_all_own bs h : h_own (free_all bs h) = h_own h.
Proof. revert h. induction bs as [|c bs IH]; intros h; [done|]. by rewrite free_all_cons, IH. Qed.
Lemma free_all_next bs h : h_next (free_all bs h) = h_next h.
Proof. revert h. induction bs as [|c bs IH]; intros h; [done|]. by rewrite free_all_cons, IH. Qed.

Lemma has_flag_is_ref d : has_flag (rd_type d) c_cJSON_IsReference = is_ref d.
Proof. reflexivity. Qed.
Lemma has_flag_is_const d : has_flag (rd_type d) c_cJSON_StringIsConst = is_const d.
Proof. reflexivity. Qed.

Lemma cJSON_Delete_fuel_sim fuel ts h :
  length (nodes ts) < fuel -> Enc h ts ->
  cJSON_Delete_fuel fuel (head (tid <$> ts)) h = Ret (tt, free_all (free_order ts) h).
Proof.
  revert ts h. induction fuel as [|f IH]; intros ts h Hf E; [lia|].
  cbn [cJSON_Delete_fuel]. destruct ts as [|[i d cs] r]; [reflexivity|].
  cbn [fmap list_fmap head tid is_null].
  rewrite nodes_cons, nodes_t_unfold, app_length in Hf. cbn [length] in Hf.
  set (ks := tid <$> cs).
  assert (Hflat : (i, d, ks) ∈ flat (T i d cs :: r)) by (rewrite flat_cons, flat_t_unfold; by left).
  pose proof (enc_dat _ _ E _ _ _ Hflat) as Hdat.
  destruct (enc_top _ _ E 0 (T i d cs) eq_refl) as [pv Hlnk]. cbn [tid] in Hlnk.
  pose proof (enc_nodup _ _ E) as NDo. rewrite flat_cons, flat_t_unfold, owned_fl_app, owned_fl_cons in NDo.
  unfold owned_fn in NDo. cbn [fn_id fn_data fst snd] in NDo.
  assert (Hown : forall b, b ∈ (i :: owned_strs d) ++ owned_fl (flat cs) \/ b ∈ owned_fl (flat r) ->
                 b ∈ h_live h /\ h_own h !! b = Some Lib).
  { intros b Hb. apply (enc_live _ _ E). rewrite flat_cons, flat_t_unfold, owned_fl_app, owned_fl_cons.
    apply elem_of_app. exact Hb. }
  destruct (Hown i) as [Hli Hoi]; [left; by left|].
  (* next = item->next *)
  rewrite (bindM_Ret _ _ _ _ _ (run_get_next_plain _ _ _ Hli Hlnk)). cbn [fst].
  rewrite (bindM_Ret _ _ _ _ _ (run_get_type_plain _ _ _ Hli Hdat)).
  change (nd_type (mk_dat d ks)) with (rd_type d). rewrite has_flag_is_ref.
  (* the children *)
  pose proof (enc_ref _ _ E) as Href. rewrite Forall_forall in Href. destruct (Href _ Hflat) as [Hr1 Hr2].
  cbn [fn_data fn_cids fst snd] in Hr1, Hr2.
  set (h1 := free_all (free_order cs) h).
  assert (Hchildren : forall (K : M unit),
    ((if is_ref d then ret tt else
        child <~ get_child (Some i) ;; when (negb (is_null child)) (cJSON_Delete_fuel f child)) ;;; K) h = K h1).
  { intros K. destruct (is_ref d) eqn:Hisref.
    - assert (cs = []) as -> by (apply fmap_nil_inv with (f := tid); auto). reflexivity.
    - rewrite bindM_assoc. rewrite (bindM_Ret _ _ _ _ _ (run_get_child_plain _ _ _ Hli Hdat)).
      change (nd_child (mk_dat d ks)) with (child_of d ks).
      destruct (head ks) as [c0|] eqn:Hh.
      + rewrite (child_of_head _ _ _ Hh). cbn [is_null negb when]. rewrite <- Hh. unfold ks.
        assert (Hlen : length (nodes cs) < f) by lia.
        rewrite (bindM_Ret _ _ _ _ _ (IH cs h Hlen (Enc_children _ _ _ _ _ E))). reflexivity.
      + apply head_None in Hh. assert (cs = []) as -> by (by apply fmap_nil_inv with (f := tid)).
        cbn. destruct (rd_ref d); [|reflexivity]. by discriminate Hr2. }
  rewrite Hchildren. clear Hchildren.
  (* facts about the node in [h1] *)
  apply NoDup_app in NDo as (ND1 & ND12 & ND3).
  apply NoDup_app in ND1 as (NDn & NDn2 & NDcs).
  assert (Hnotin : forall b, b ∈ i :: owned_strs d -> b ∉ free_order cs).
  { intros b Hb. rewrite free_order_owned. by apply NDn2. }
  assert (Hli1 : i ∈ h_live h1) by (apply free_all_live; split; [done|apply Hnotin; by left]).
  assert (Hdat1 : h_dat h1 !! i = Some (mk_dat d ks)).
  { unfold h1. rewrite free_all_dat_lookup; [done|]. apply Hnotin. by left. }
  apply NoDup_cons in NDn as [Hi_strs NDstrs].
  (* valuestring *)
  edestruct (vstr_step (B := unit)) as (h2 & -> & Heq2 & nd' & Hdat2 & Hty2 & Hkey2); [exact Hli1|exact Hdat1| |].
  { intros v Hf1 Hv. cbn in Hf1, Hv. rewrite has_flag_is_ref in Hf1.
    assert (Hvin : v ∈ owned_strs d) by (unfold owned_strs; rewrite Hf1, Hv; apply elem_of_app; left; by left).
    split; [intros ->; done|]. destruct (Hown v) as [H1 H2]; [left; apply elem_of_app; left; by right|].
    split; [|by unfold h1; rewrite free_all_own]. apply free_all_live. split; [done|]. apply Hnotin. by right. }
  change (nd_type (mk_dat d ks)) with (rd_type d) in *. change (nd_vstr (mk_dat d ks)) with (rd_vstr d) in *.
  change (nd_key (mk_dat d ks)) with (rd_key d) in *. rewrite has_flag_is_ref in Heq2.
  set (bs1 := if is_ref d then [] else opt_list (rd_vstr d)) in *.
  set (bs2 := if is_const d then [] else opt_list (rd_key d)).
  assert (Hstrs : owned_strs d = bs1 ++ bs2) by reflexivity.
  destruct Heq2 as (A1 & A2 & A3 & A4 & A5 & A6 & A7 & A8 & A9).
  assert (Hli2 : i ∈ h_live h2).
  { rewrite A5. apply free_all_live. split; [done|]. intros Hin. apply Hi_strs. rewrite Hstrs. apply elem_of_app. by left. }
  (* key *)
  edestruct (key_step (B := unit)) as (h3 & -> & Heq3); [exact Hli2|exact Hdat2| |].
  { intros v Hf1 Hv. rewrite Hty2, has_flag_is_const in Hf1. rewrite Hkey2 in Hv.
    assert (Hvin2 : v ∈ bs2) by (unfold bs2; rewrite Hf1, Hv; by left).
    assert (Hvin : v ∈ owned_strs d) by (rewrite Hstrs; apply elem_of_app; by right).
    split; [intros ->; done|]. destruct (Hown v) as [H1 H2]; [left; apply elem_of_app; left; by right|].
    rewrite A4, A5. split; [|by unfold h1; rewrite !free_all_own].
    apply free_all_live. split.
    - apply free_all_live. split; [done|]. apply Hnotin. by right.
    - rewrite Hstrs in NDstrs. apply NoDup_app in NDstrs as (_ & Hd12 & _). intros Hin. by apply (Hd12 _ Hin). }
  rewrite Hty2, Hkey2, has_flag_is_const in Heq3. fold bs2 in Heq3.
  assert (Heq3' : eq_except i h3 (free_all (bs1 ++ bs2) h1)).
  { rewrite free_all_app. eapply eq_except_trans; [exact Heq3|]. apply eq_except_free_all. by repeat split. }
  (* the node *)
  assert (Hli3 : i ∈ h_live h3).
  { destruct Heq3' as (_ & _ & _ & _ & -> & _). apply free_all_live. split; [done|]. by rewrite <- Hstrs. }
  assert (Hoi3 : h_own h3 !! i = Some Lib).
  { destruct Heq3' as (_ & _ & _ & -> & _). unfold h1. by rewrite !free_all_own. }
  rewrite (bindM_Ret _ _ _ _ _ (run_free_block _ _ Hli3 Hoi3)).
  rewrite (eq_except_free1_same _ _ _ Heq3').
  (* the rest of the chain *)
  set (h4 := free1 i (free_all (bs1 ++ bs2) h1)).
  assert (Hh4 : h4 = free_all (free_order_t (T i d cs)) h).
  { unfold h4, h1. rewrite free_order_t_unfold, Hstrs. rewrite !free_all_app. reflexivity. }
  rewrite Hh4. change ((T i d cs :: r) !! 1) with (r !! 0). rewrite <- list_lookup_fmap, <- head_lookup.
  rewrite IH.
  - by rewrite free_order_cons, free_all_app.
  - lia.
  - apply Enc_free_all; [by eapply Enc_tail|]. intros b Hb Hb'. rewrite free_order_t_owned, flat_t_unfold, owned_fl_cons in Hb.
    by apply (ND12 _ Hb).
Qed.

(** ** deleting a root of a well-formed heap *)
Lemma lnk_of_app_lookup R1 R2 (FL1 FL2 : list fnode) k :
  NoDup (lnk_keys (R1 ++ R2) (FL1 ++ FL2)) -> k ∉ lnk_keys R1 FL1 ->
  lnk_of (R1 ++ R2) (FL1 ++ FL2) !! k = lnk_of R2 FL2 !! k.
Proof.
  intros ND Hk.
  assert (HP : lnk_entries (R1 ++ R2) (FL1 ++ FL2) ≡ₚ lnk_entries R1 FL1 ++ lnk_entries R2 FL2).
  { unfold lnk_entries, root_entries. rewrite fmap_app, bind_app. rewrite <- !app_assoc.
    apply Permutation_app_head. rewrite !app_assoc. apply Permutation_app_tail. apply Permutation_app_comm. }
  unfold lnk_of. rewrite (list_to_map_proper _ _ ltac:(by rewrite lnk_entries_fst) HP).
  rewrite list_to_map_app, lookup_union_r; [done|].
  apply not_elem_of_list_to_map_1. by rewrite lnk_entries_fst.
Qed.

Lemma heap_lnk_of_remove_root_lookup F tx F' k :
  NoDup (ids F) -> F ≡ₚ tx :: F' -> k ∉ ids_t tx -> heap_lnk_of F !! k = heap_lnk_of F' !! k.
Proof.
  intros ND HF Hk. unfold heap_lnk_of.
  assert (NDk : NoDup (lnk_keys (roots F) (flat F))) by (by rewrite lnk_keys_ids).
  assert (HR : roots F ≡ₚ [tid tx] ++ roots F') by (by rewrite HF).
  assert (HFL : flat F ≡ₚ flat_t tx ++ flat F') by (by rewrite HF, flat_cons).
  rewrite (lnk_of_perm _ _ _ _ NDk HR HFL). apply lnk_of_app_lookup.
  - by rewrite <- HR, <- HFL.
  - change [tid tx] with (roots [tx]). rewrite <- flat_singleton, lnk_keys_ids.
    rewrite ids_cons. by rewrite app_nil_r.
Qed.
Lemma heap_dat_of_remove_root_lookup F tx F' k :
  NoDup (ids F) -> F ≡ₚ tx :: F' -> k ∉ ids_t tx -> heap_dat_of F !! k = heap_dat_of F' !! k.
Proof.
  intros ND HF Hk. unfold heap_dat_of.
  assert (HFL : flat F ≡ₚ flat_t tx ++ flat F') by (by rewrite HF, flat_cons).
  rewrite (dat_of_perm _ _ ltac:(by rewrite <- ids_flat) HFL).
  unfold dat_of, dat_entries. rewrite fmap_app, list_to_map_app, lookup_union_r; [done|].
  apply not_elem_of_list_to_map_1. rewrite <- list_fmap_compose. by rewrite ids_t_flat in Hk.
Qed.

Lemma WF_Enc_root h F t : WF h F -> t ∈ F -> Enc h [t].
Proof.
  intros W Ht. pose proof (wf_nodup _ _ W) as ND.
  apply elem_of_Permutation in Ht as [F' HF].
  assert (Hsub : forall e : fnode, e ∈ flat [t] -> e ∈ flat F).
  { intros e He. rewrite HF, flat_cons. rewrite flat_singleton in He. apply elem_of_app. by left. }
  assert (Hown : owned F ≡ₚ owned_fl (flat [t]) ++ owned F').
  { unfold owned. rewrite HF, flat_cons, owned_fl_app. by rewrite flat_singleton. }
  constructor.
  - intros i d ks H. eapply WF_lookup_dat; [done|]. by apply Hsub.
  - intros j c Hj. destruct j; [|done]. injection Hj as <-. exists None. cbn.
    apply (WF_lookup_lnk_root _ _ _ W). rewrite HF. by left.
  - intros i d ks j c H Hj. exists (link_at ks j).2.
    pose proof (WF_lookup_lnk_child h F i d ks j c W (Hsub _ H) Hj) as HH. etransitivity; [exact HH|]. by destruct j.
  - pose proof (wf_owned_nodup _ _ W) as H. rewrite Hown in H. by apply NoDup_app in H as (? & _ & _).
  - intros b Hb. assert (b ∈ owned F) by (rewrite Hown; apply elem_of_app; by left).
    split; [by apply (wf_owned_live _ _ W)|by apply (wf_owned_lib _ _ W)].
  - pose proof (wf_ref _ _ W) as H. rewrite Forall_forall in *. intros e He. by apply H, Hsub.
Qed.

Lemma cJSON_Delete_sim h F x tx :
  WF h F -> find_root x F = Some tx ->
  let F' := remove_root x F in
  let h' := free_all (free_order [tx]) h in
  spec_delete F (Some x) = F' /\
  cJSON_Delete (Some x) h = Ret (tt, h') /\
  WF h' F' /\ (NoLeak h F -> NoLeak h' F').
Proof.
  intros W Hx F' h'. pose proof (wf_nodup _ _ W) as ND.
  destruct (find_root_split _ _ _ (NoDup_roots _ ND) Hx) as (F1 & F2 & HF & HF0).
  apply find_root_Some in Hx as [Htx Hx].
  assert (HFp : F ≡ₚ tx :: F') by (unfold F'; rewrite HF0, HF; by rewrite Permutation_middle).
  assert (Hown : owned F ≡ₚ owned_fl (flat_t tx) ++ owned F').
  { unfold owned. by rewrite HFp, flat_cons, owned_fl_app. }
  assert (Hbs : free_order [tx] ≡ₚ owned_fl (flat_t tx)) by (by rewrite free_order_owned, flat_singleton).
  pose proof (wf_owned_nodup _ _ W) as NDo. rewrite Hown in NDo. apply NoDup_app in NDo as (NDo1 & NDo12 & NDo2).
  assert (Hids : ids F ≡ₚ ids_t tx ++ ids F') by (by rewrite HFp, ids_cons).
  assert (ND' : NoDup (ids F')) by (rewrite Hids in ND; by apply NoDup_app in ND as (_ & _ & ?)).
  assert (Hdisj : forall b, b ∈ free_order [tx] -> b ∉ owned F').
  { intros b Hb. apply NDo12. by rewrite <- Hbs. }
  assert (Hidsbs : forall k, k ∈ ids_t tx -> k ∈ free_order [tx]).
  { intros k Hk. rewrite Hbs. change (flat_t tx) with (flat_of <$> nodes_t tx). rewrite <- (app_nil_r (nodes_t tx)).
    change (nodes_t tx ++ []) with (nodes [tx]). apply (ids_subseteq_owned [tx]).
    unfold ids, nodes. cbn. by rewrite app_nil_r. }
  split; [reflexivity|]. split; [|split].
  - (* the run *)
    unfold cJSON_Delete, heap_fuel. unfold bindM at 1.
    change (Some x) with (Some (tid tx)) || rewrite <- Hx.
    change (Some (tid tx)) with (head (tid <$> [tx])).
    apply cJSON_Delete_fuel_sim; [|by eapply WF_Enc_root].
    assert (length (nodes [tx]) = length (ids_t tx)) as ->.
    { unfold ids_t, nodes. cbn. by rewrite app_nil_r, fmap_length. }
    apply NoDup_length_lt_pos.
    + rewrite Hids in ND. by apply NoDup_app in ND as (? & _ & _).
    + intros k Hk. apply (WF_ids_fresh _ _ _ W). rewrite Hids. apply elem_of_app. by left.
  - (* WF *)
    constructor.
    + done.
    + apply map_eq. intros k. destruct (decide (k ∈ free_order [tx])) as [Hin|Hnin].
      * unfold h'. rewrite free_all_lnk_lookup_in by done. symmetry. apply heap_lnk_of_lookup_None.
        intros Hk. apply (Hdisj _ Hin). by apply ids_subseteq_owned.
      * unfold h'. rewrite free_all_lnk_lookup by done. rewrite (wf_lnk _ _ W).
        apply (heap_lnk_of_remove_root_lookup _ _ _ _ ND HFp). intros Hk. by apply Hnin, Hidsbs.
    + apply map_eq. intros k. destruct (decide (k ∈ free_order [tx])) as [Hin|Hnin].
      * unfold h'. rewrite free_all_dat_lookup_in by done. symmetry. apply heap_dat_of_lookup_None.
        intros Hk. apply (Hdisj _ Hin). by apply ids_subseteq_owned.
      * unfold h'. rewrite free_all_dat_lookup by done. rewrite (wf_dat _ _ W).
        apply (heap_dat_of_remove_root_lookup _ _ _ _ ND HFp). intros Hk. by apply Hnin, Hidsbs.
    + done.
    + intros b Hb. apply free_all_live. split.
      * apply (wf_owned_live _ _ W). rewrite Hown. apply elem_of_app. by right.
      * intros Hin. by apply (Hdisj _ Hin).
    + intros b Hb. unfold h'. rewrite free_all_own. apply (wf_owned_lib _ _ W). rewrite Hown. apply elem_of_app. by right.
    + intros b Hb. unfold h'. rewrite free_all_next. apply (wf_fresh _ _ W). rewrite Hown. apply elem_of_app. by right.
    + pose proof (wf_ref _ _ W) as H. rewrite HFp, flat_cons in H. by apply Forall_app in H as [_ ?].
  - (* no leak *)
    intros NL b Hb. unfold lib_live in Hb. apply elem_of_filter in Hb as [Hb1 Hb2].
    unfold h' in Hb1, Hb2. rewrite free_all_own in Hb1. apply free_all_live in Hb2 as [Hb2 Hb3].
    assert (Hb4 : b ∈ owned F) by (apply NL; apply elem_of_filter; done).
    rewrite Hown in Hb4. apply elem_of_app in Hb4 as [Hb4|Hb4]; [|done].
    exfalso. apply Hb3. by rewrite Hbs.
Qed.
