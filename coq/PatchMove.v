(** PatchMove.v — the [move] operation: apply_patch's byte-level test "from is a prefix of path
    followed by '/'" is RFC 6902's "from is a proper prefix of path" on reference tokens (for
    syntactically valid pointers), and move = remove at from, add at path. *)
From Coq Require Import Lia ZArith List Bool Permutation.
From CJ Require Import Base Dbl Tree PointerDefs PointerProofs CompareDefs PatchDefs PatchProofs PatchRobust Rfc6902
  PatchConform PatchOps PatchApply.
Import ListNotations.
Local Open Scope Z_scope.

Definition noslash (r : bytes) : Prop := Forall (fun c => c <> 47) r.
Definition join (raws : list bytes) : bytes := concat (map (cons 47) raws).

(** ---------- a pointer is the concatenation of its raw tokens ---------- *)
Lemma join_split : forall r cur, join (split_slash r cur) = 47 :: rev cur ++ r.
Proof.
  unfold join. induction r as [|c r IH]; intro cur; cbn [split_slash].
  - cbn. rewrite app_nil_r. reflexivity.
  - zeq c 47.
    + subst c. cbn [map concat]. rewrite IH. cbn [rev app]. reflexivity.
    + rewrite IH. cbn [rev]. rewrite <- app_assoc. reflexivity.
Qed.

Lemma split_slash_app : forall a b cur, split_slash (a ++ 47 :: b) cur = split_slash a cur ++ split_slash b [].
Proof.
  induction a as [|c a IH]; intros b cur; cbn [app split_slash].
  - rewrite Z.eqb_refl. reflexivity.
  - zeq c 47; [cbn [app]; f_equal; apply IH | apply IH].
Qed.

Lemma split_slash_noslash : forall r cur, noslash cur -> Forall noslash (split_slash r cur).
Proof.
  induction r as [|c r IH]; intros cur Hc; cbn [split_slash].
  - constructor; [|constructor]. unfold noslash in *. rewrite Forall_forall in *. intros x Hx. apply Hc. apply in_rev. exact Hx.
  - zeq c 47.
    + constructor; [|apply IH; constructor]. unfold noslash in *. rewrite Forall_forall in *. intros x Hx. apply Hc. apply in_rev. exact Hx.
    + apply IH. constructor; assumption.
Qed.

(* the raw tokens of a pointer text *)
Definition raws_of (p : bytes) : list bytes := match p with [] => [] | _ :: r => split_slash r [] end.

Lemma parse_raws p toks : rfc_parse_pointer p = Some toks ->
  p = join (raws_of p) /\ Forall noslash (raws_of p) /\ all_some (map unescape (raws_of p)) = Some toks.
Proof.
  destruct p as [|c r]; cbn [rfc_parse_pointer raws_of].
  - intro H. inversion H. repeat split; constructor.
  - zeq c 47; [subst c|discriminate]. intro H. split; [|split].
    + rewrite join_split. reflexivity.
    + apply split_slash_noslash. constructor.
    + exact H.
Qed.

(** ---------- unescaping is injective on tokens ---------- *)
Lemma unescape_inj : forall a b u, noslash a -> noslash b -> unescape a = Some u -> unescape b = Some u -> a = b.
Proof.
  induction a as [a IH] using (well_founded_induction (Wf_nat.well_founded_ltof _ (@length Z))).
  intros b u Ha Hb Ua Ub. destruct a as [|c a'].
  - cbn in Ua. inversion Ua; subst u. symmetry. apply unescape_nil. exact Ub.
  - inversion Ha as [|? ? Hc Ha']; subst. cbn [unescape] in Ua.
    destruct b as [|e b']; [cbn in Ub; inversion Ub; subst u; exfalso|].
    { zeq c 126.
      - destruct a' as [|d a'']; [discriminate|]. zeq d 48; [destruct (unescape a''); discriminate|]. zeq d 49; [destruct (unescape a''); discriminate | discriminate].
      - destruct (unescape a'); discriminate. }
    inversion Hb as [|? ? He Hb']; subst. cbn [unescape] in Ub.
    zeq c 126.
    + subst c. destruct a' as [|d a'']; [discriminate|]. inversion Ha' as [|? ? Hd Ha'']; subst.
      zeq e 126.
      * subst e. destruct b' as [|d2 b'']; [discriminate|]. inversion Hb' as [|? ? Hd2 Hb'']; subst.
        zeq d 48.
        -- subst d. destruct (unescape a'') as [ua|] eqn:Ea; [|discriminate]. cbn in Ua. inversion Ua; subst u.
           zeq d2 48.
           ++ subst d2. destruct (unescape b'') as [ub|] eqn:Eb; [|discriminate]. cbn in Ub. inversion Ub; subst ub.
              f_equal. f_equal. apply (IH a'') with (u := ua); try assumption. unfold ltof. cbn. lia.
           ++ zeq d2 49; [|discriminate]. destruct (unescape b''); [|discriminate]. cbn in Ub. inversion Ub.
        -- zeq d 49; [|discriminate]. subst d. destruct (unescape a'') as [ua|] eqn:Ea; [|discriminate]. cbn in Ua. inversion Ua; subst u.
           zeq d2 48.
           ++ destruct (unescape b''); [|discriminate]. cbn in Ub. inversion Ub.
           ++ zeq d2 49; [|discriminate]. subst d2. destruct (unescape b'') as [ub|] eqn:Eb; [|discriminate]. cbn in Ub. inversion Ub; subst ub.
              f_equal. f_equal. apply (IH a'') with (u := ua); try assumption. unfold ltof. cbn. lia.
      * destruct (unescape b') as [ub|]; [|discriminate]. cbn in Ub. inversion Ub; subst u.
        zeq d 48.
        -- destruct (unescape a''); [|discriminate]. cbn in Ua. inversion Ua. congruence.
        -- zeq d 49; [|discriminate]. destruct (unescape a''); [|discriminate]. cbn in Ua. inversion Ua. congruence.
    + destruct (unescape a') as [ua|] eqn:Ea; [|discriminate]. cbn in Ua. inversion Ua; subst u.
      zeq e 126.
      * subst e. destruct b' as [|d2 b'']; [discriminate|].
        zeq d2 48.
        -- destruct (unescape b''); [|discriminate]. cbn in Ub. inversion Ub. congruence.
        -- zeq d2 49; [|discriminate]. destruct (unescape b''); [|discriminate]. cbn in Ub. inversion Ub. congruence.
      * destruct (unescape b') as [ub|] eqn:Eb; [|discriminate]. cbn in Ub. inversion Ub; subst.
        f_equal. apply (IH a') with (u := ua); try assumption. unfold ltof. cbn. lia.
Qed.

Lemma unescape_list_inj : forall A B us, Forall noslash A -> Forall noslash B ->
  all_some (map unescape A) = Some us -> all_some (map unescape B) = Some us -> A = B.
Proof.
  induction A as [|a A IH]; intros B us HA HB UA UB.
  - cbn in UA. inversion UA; subst us. destruct B as [|b B]; [reflexivity|].
    cbn in UB. destruct (unescape b); [|discriminate]. destruct (all_some (map unescape B)); discriminate.
  - cbn [map all_some] in UA. destruct (unescape a) as [ua|] eqn:Ea; [|discriminate].
    destruct (all_some (map unescape A)) as [uA|] eqn:EA; [|discriminate]. cbn in UA. inversion UA; subst us.
    destruct B as [|b B]; [discriminate|]. cbn [map all_some] in UB.
    destruct (unescape b) as [ub|] eqn:Eb; [|discriminate].
    destruct (all_some (map unescape B)) as [uB|] eqn:EB; [|discriminate]. cbn in UB. inversion UB; subst.
    inversion HA as [|? ? Ha HA']; subst. inversion HB as [|? ? Hb HB']; subst. f_equal.
    + eapply unescape_inj; eassumption.
    + exact (IH B uA HA' HB' eq_refl EB).
Qed.

Lemma all_some_length {A} (l : list (option A)) : forall r, all_some l = Some r -> length r = length l.
Proof.
  induction l as [|x l IH]; intros r H; cbn in H; [inversion H; reflexivity|].
  destruct x; [|discriminate]. destruct (all_some l) as [r'|]; [|discriminate]. cbn in H. inversion H; subst. cbn. f_equal. apply IH. reflexivity.
Qed.

(** ---------- proper prefixes ---------- *)
Lemma proper_prefix_iff : forall a b, proper_prefix a b = true <-> exists h, h <> [] /\ b = a ++ h.
Proof.
  induction a as [|x a IH]; intros [|y b]; cbn [proper_prefix].
  - split; [discriminate|]. intros (h & Hh & E). destruct h; [contradiction | discriminate].
  - split; [|reflexivity]. intros _. exists (y :: b). split; [discriminate | reflexivity].
  - split; [discriminate|]. intros (h & _ & E). discriminate.
  - rewrite andb_true_iff, bytes_eqb_eq, IH. split.
    + intros [-> (h & Hh & ->)]. exists h. split; [exact Hh | reflexivity].
    + intros (h & Hh & E). cbn in E. inversion E; subst. split; [reflexivity|]. exists h. split; [exact Hh | reflexivity].
Qed.

Lemma firstn_app_exact {A} (l1 l2 : list A) : firstn (length l1) (l1 ++ l2) = l1.
Proof. rewrite firstn_app, Nat.sub_diag, firstn_all. cbn. apply app_nil_r. Qed.
Lemma skipn_app_exact {A} (l1 l2 : list A) : skipn (length l1) (l1 ++ l2) = l2.
Proof. rewrite skipn_app, Nat.sub_diag, skipn_all. reflexivity. Qed.

Lemma app_inv_len {A} : forall (a a' b b' : list A), a ++ b = a' ++ b' -> length a = length a' -> a = a' /\ b = b'.
Proof.
  induction a as [|x a IH]; intros [|y a'] b b' E L; cbn in *; try lia.
  - split; [reflexivity | exact E].
  - inversion E; subst. destruct (IH a' b b' H1 ltac:(lia)) as [-> ->]. split; reflexivity.
Qed.

(* the test of apply_patch (strncmp + next byte) on two valid pointers *)
Lemma own_child_check fstr pstr ftoks toks :
  rfc_parse_pointer fstr = Some ftoks -> rfc_parse_pointer pstr = Some toks ->
  (bytes_eqb (firstn (length fstr) pstr) fstr && (hd 0 (skipn (length fstr) pstr) =? 47)) = proper_prefix ftoks toks.
Proof.
  intros Pf Pp.
  destruct (parse_raws _ _ Pf) as (Jf & Nf & Uf). destruct (parse_raws _ _ Pp) as (Jp & Np & Up).
  apply eq_true_iff_eq. rewrite andb_true_iff, bytes_eqb_eq, Z.eqb_eq, proper_prefix_iff. split.
  - (* bytes -> tokens *)
    intros [E1 E2].
    assert (Hp : exists rest, pstr = fstr ++ 47 :: rest).
    { rewrite <- (firstn_skipn (length fstr) pstr). rewrite E1.
      destruct (skipn (length fstr) pstr) as [|c rest]; [cbn in E2; discriminate|]. cbn in E2. subst c. exists rest. reflexivity. }
    destruct Hp as (rest & Hp).
    assert (HR : exists G, G <> [] /\ raws_of pstr = raws_of fstr ++ G).
    { destruct fstr as [|c f'].
      - cbn [raws_of app] in *. exists (raws_of pstr). split; [|reflexivity].
        subst pstr. cbn [raws_of]. apply split_slash_nonempty.
      - cbn [rfc_parse_pointer] in Pf. zeq c 47; [subst c|discriminate].
        subst pstr. cbn [raws_of app]. rewrite split_slash_app. exists (split_slash rest []). split; [apply split_slash_nonempty | reflexivity]. }
    destruct HR as (G & HG & HR). rewrite HR in Up. rewrite map_app in Up. apply all_some_app in Up.
    destruct Up as (r1 & r2 & U1 & U2 & Et). rewrite Uf in U1. inversion U1; subst r1.
    exists r2. split; [|exact Et]. intro E. subst r2. apply all_some_length in U2. rewrite map_length in U2. destruct G; [contradiction | discriminate].
  - (* tokens -> bytes *)
    intros (h & Hh & Et). subst toks.
    set (F := raws_of fstr) in *. set (P := raws_of pstr) in *.
    assert (LP : length P = length (ftoks ++ h)) by (apply all_some_length in Up; rewrite map_length in Up; lia).
    assert (LF : length F = length ftoks) by (apply all_some_length in Uf; rewrite map_length in Uf; lia).
    rewrite <- (firstn_skipn (length F) P) in Up. rewrite map_app in Up. apply all_some_app in Up.
    destruct Up as (r1 & r2 & U1 & U2 & Et).
    assert (L1 : length r1 = length ftoks).
    { apply all_some_length in U1. rewrite map_length, firstn_length in U1. rewrite app_length in LP. lia. }
    assert (r1 = ftoks /\ r2 = h) as [-> ->].
    { symmetry in Et. apply app_inv_len in Et; [tauto | exact L1]. }
    assert (EF : firstn (length F) P = F).
    { apply (unescape_list_inj _ _ ftoks); try assumption.
      rewrite Forall_forall in *. intros x Hx. apply Np. eapply In_firstn; exact Hx. }
    assert (HG : skipn (length F) P <> []).
    { intro E. rewrite E in U2. cbn in U2. inversion U2. subst h. contradiction. }
    assert (EP : pstr = fstr ++ join (skipn (length F) P)).
    { rewrite Jp at 1. rewrite <- (firstn_skipn (length F) P) at 1. rewrite EF. unfold join. rewrite map_app, concat_app. fold (join F). rewrite <- Jf. reflexivity. }
    rewrite EP. rewrite firstn_app_exact, skipn_app_exact. split; [reflexivity|].
    destruct (skipn (length F) P) as [|g G]; [contradiction|]. reflexivity.
Qed.
